import PsVerif.Props.C02
/-!
# C02 (continued) — `mul`, error names, dictionary / array / string operators
-/
namespace PsVerif.Props.C02
open PsVerif.Model

/-! ## `mul`: exact, overflow promoted to real -/

theorem wrap64_range (x : Int) : inInt64 (wrap64 x) := by
  unfold inInt64 minInt64 maxInt64 wrap64
  simp only
  split <;> omega

theorem mul_ovf (a b : Int) (ha : inInt64 a) (hb : inInt64 b) :
    mulOverflow a b (wrap64 (a * b)) = !decide (inInt64 (a * b)) := by
  unfold mulOverflow
  by_cases ha0 : a = 0
  · subst ha0
    simp [inInt64, minInt64, maxInt64]
  by_cases h : inInt64 (a * b)
  · rw [wrap64_id _ h, Int.mul_tdiv_cancel_left b ha0, wrap64_id _ hb]
    have : ¬ (a = -1 ∧ b = minInt64) := by
      rintro ⟨rfl, rfl⟩
      revert h; decide
    simp only [h, decide_true, Bool.not_true, bne_self_eq_false, Bool.false_or, Bool.and_eq_false_imp,
      bne_iff_ne, ne_eq, Bool.and_eq_false_imp, beq_iff_eq, beq_eq_false_iff_ne]
    intro _ h1 h2
    exact this ⟨h1, h2⟩
  · simp only [h, decide_false, Bool.not_false]
    have hc := wrap64_range (a * b)
    generalize hcd : wrap64 (a * b) = c at hc
    have hq1 := Int.natAbs_tdiv_le_natAbs c a
    have hr1 := Int.natAbs_tmod c a
    have hr2 := Nat.mod_lt c.natAbs (show 0 < a.natAbs by omega)
    have hdm := Int.tmod_add_mul_tdiv c a
    generalize hqd : Int.tdiv c a = q at *
    generalize hrd : Int.tmod c a = r at *
    by_cases hsp : a = -1 ∧ b = minInt64
    · simp [hsp]
    · have hne : wrap64 q ≠ b := by
        intro hqb
        unfold inInt64 minInt64 maxInt64 at *
        by_cases hq : -9223372036854775808 ≤ q ∧ q ≤ 9223372036854775807
        · rw [wrap64_id _ hq] at hqb
          subst hqb
          generalize a * q = p at *
          subst hcd
          unfold wrap64 at hdm hc
          simp only at hdm hc
          split at hdm <;> omega
        · -- q = 2^63: c = minint, a = -1
          have hq63 : q = 9223372036854775808 := by omega
          subst hq63
          have hbm : b = -9223372036854775808 := by rw [← hqb]; decide
          have : a = -1 := by omega
          exact hsp ⟨this, hbm⟩
      simp [ha0, hne]

/-- `mul` on two integers: the exact product when it is representable, otherwise the real product -/
theorem mul_exact (v : VM) (a b : Int) (rest : List Obj) (ha : inInt64 a) (hb : inInt64 b)
    (hst : v.stack = .int b :: .int a :: rest) :
    bMul v = ({ v with stack := (if inInt64 (a * b) then .int (a * b) else .real (fmul (realOfInt a) (realOfInt b))) :: rest }, .ok) := by
  unfold bMul arith
  rw [hst]
  simp only [isNumber, Bool.not_true, Bool.or_self, Bool.false_eq_true, if_false, VM.push, okRes, mul_ovf a b ha hb]
  by_cases h : inInt64 (a * b)
  · simp [h, wrap64_id _ h]
  · simp [h]

/-! ## errors of the stack operators -/

theorem dup_underflow (v : VM) (h : v.stack = []) : (bDup v).2 = .err (.ps "stackunderflow") := by
  unfold bDup; rw [h]; rfl

theorem exch_underflow (v : VM) (h : v.stack.length < 2) : (bExch v).2 = .err (.ps "stackunderflow") := by
  unfold bExch
  match hs : v.stack, h with
  | [], _ => rfl
  | [_], _ => rfl

theorem index_underflow (v : VM) (h : v.stack.length < 2) : (bIndex v).2 = .err (.ps "stackunderflow") := by
  unfold bIndex
  match hs : v.stack, h with
  | [], _ => rfl
  | [_], _ => rfl

theorem index_typecheck (v : VM) (top b : Obj) (rest : List Obj) (h : v.stack = top :: b :: rest)
    (ht : ∀ i, top ≠ .int i) : (bIndex v).2 = .err (.ps "typecheck") := by
  unfold bIndex
  rw [h]
  cases top <;> first | rfl | exact absurd rfl (ht _)

theorem index_rangecheck (v : VM) (i : Int) (b : Obj) (rest : List Obj) (h : v.stack = .int i :: b :: rest)
    (hi : i < 0 ∨ i ≥ (b :: rest).length) : (bIndex v).2 = .err (.ps "rangecheck") := by
  unfold bIndex
  rw [h]
  simp only [hi, if_true, psErr]

theorem roll_underflow (v : VM) (h : v.stack.length < 2) : (bRoll v).2 = .err (.ps "stackunderflow") := by
  unfold bRoll
  match hs : v.stack, h with
  | [], _ => rfl
  | [_], _ => rfl

/-- the count of `roll` is not an integer -/
theorem roll_typecheck_count (v : VM) (jo no : Obj) (rest : List Obj) (h : v.stack = jo :: no :: rest)
    (ht : ∀ n, no ≠ .int n) : (bRoll v).2 = .err (.ps "typecheck") := by
  unfold bRoll
  rw [h]
  cases no <;> first | rfl | exact absurd rfl (ht _)

/-- the amount of `roll` is not an integer (the count being a valid one) -/
theorem roll_typecheck_amount (v : VM) (jo : Obj) (n : Int) (rest : List Obj) (h : v.stack = jo :: .int n :: rest)
    (hn : 0 ≤ n ∧ n ≤ rest.length) (ht : ∀ j, jo ≠ .int j) : (bRoll v).2 = .err (.ps "typecheck") := by
  unfold bRoll
  rw [h]
  have h1 : ¬ (n < 0 ∨ n > rest.length) := by omega
  simp only [h1, if_false]
  cases jo <;> first | rfl | exact absurd rfl (ht _)

theorem roll_rangecheck (v : VM) (jo : Obj) (n : Int) (rest : List Obj) (h : v.stack = jo :: .int n :: rest)
    (hn : n < 0 ∨ n > rest.length) : (bRoll v).2 = .err (.ps "rangecheck") := by
  unfold bRoll
  rw [h]
  simp only [hn, if_true, psErr]

theorem copy_underflow (v : VM) (h : v.stack = []) : (bCopy v).2 = .err (.ps "stackunderflow") := by
  unfold bCopy; rw [h]; rfl

/-- `n copy` with fewer than `n` elements below the count -/
theorem copy_n_underflow (v : VM) (n : Int) (rest : List Obj) (h : v.stack = .int n :: rest)
    (hn : 0 ≤ n) (hlen : n > rest.length) : (bCopy v).2 = .err (.ps "stackunderflow") := by
  unfold bCopy
  rw [h]
  have h1 : ¬ n < 0 := by omega
  simp only [h1, hlen, if_false, if_true, psErr]

theorem copy_n_rangecheck (v : VM) (n : Int) (rest : List Obj) (h : v.stack = .int n :: rest)
    (hn : n < 0) : (bCopy v).2 = .err (.ps "rangecheck") := by
  unfold bCopy
  rw [h]
  simp only [hn, if_true, psErr]

/-- composite `copy` with a single (non-integer) operand -/
theorem copy_underflow_one (v : VM) (b : Obj) (h : v.stack = [b]) (hb : ∀ n, b ≠ .int n) :
    (bCopy v).2 = .err (.ps "stackunderflow") := by
  unfold bCopy
  rw [h]
  cases b <;> first | rfl | exact absurd rfl (hb _)

/-- classification used by `copy`: the kinds of composite object it accepts -/
def copyKind : Obj → Nat
  | .arr .. => 1
  | .dict _ => 2
  | .str .. => 3
  | _ => 0

/-- composite `copy`: the source is not an array, dictionary or string, or the destination
is not of the same kind -/
theorem copy_typecheck (v : VM) (a b : Obj) (rest : List Obj) (h : v.stack = b :: a :: rest)
    (hb : ∀ n, b ≠ .int n) (hk : copyKind a = 0 ∨ copyKind b ≠ copyKind a) :
    (bCopy v).2 = .err (.ps "typecheck") := by
  unfold bCopy
  rw [h]
  cases b <;> first | exact absurd rfl (hb _) | (cases a <;> first | rfl | (simp [copyKind] at hk))

theorem copy_arr_rangecheck (v : VM) (r o l r2 o2 l2 : Nat) (rest : List Obj)
    (h : v.stack = .arr r2 o2 l2 :: .arr r o l :: rest) (hl : l2 < l) :
    (bCopy v).2 = .err (.ps "rangecheck") := by
  unfold bCopy
  rw [h]
  simp only [hl, if_true, psErr]

theorem copy_str_rangecheck (v : VM) (r o l r2 o2 l2 : Nat) (rest : List Obj)
    (h : v.stack = .str r2 o2 l2 :: .str r o l :: rest) (hl : l2 < l) :
    (bCopy v).2 = .err (.ps "rangecheck") := by
  unfold bCopy
  rw [h]
  simp only [hl, if_true, psErr]

/-! ## errors of the arithmetic and boolean operators -/

theorem arith_underflow (iop ovf fop) (v : VM) (h : v.stack.length < 2) :
    (arith iop ovf fop v).2 = .err (.ps "stackunderflow") := by
  unfold arith
  match hs : v.stack, h with
  | [], _ => rfl
  | [_], _ => rfl

theorem arith_typecheck (iop ovf fop) (v : VM) (a b : Obj) (rest : List Obj) (h : v.stack = b :: a :: rest)
    (hn : isNumber a = false ∨ isNumber b = false) : (arith iop ovf fop v).2 = .err (.ps "typecheck") := by
  unfold arith
  rw [h]
  rcases hn with hn | hn <;> simp [hn, psErr]

theorem sub_underflow (v : VM) (h : v.stack.length < 2) : (bSub v).2 = .err (.ps "stackunderflow") :=
  arith_underflow _ _ _ v h
theorem mul_underflow (v : VM) (h : v.stack.length < 2) : (bMul v).2 = .err (.ps "stackunderflow") :=
  arith_underflow _ _ _ v h
theorem sub_typecheck (v : VM) (a b : Obj) (rest : List Obj) (h : v.stack = b :: a :: rest)
    (hn : isNumber a = false ∨ isNumber b = false) : (bSub v).2 = .err (.ps "typecheck") :=
  arith_typecheck _ _ _ v a b rest h hn
theorem mul_typecheck (v : VM) (a b : Obj) (rest : List Obj) (h : v.stack = b :: a :: rest)
    (hn : isNumber a = false ∨ isNumber b = false) : (bMul v).2 = .err (.ps "typecheck") :=
  arith_typecheck _ _ _ v a b rest h hn

theorem abs_underflow (v : VM) (h : v.stack = []) : (bAbs v).2 = .err (.ps "stackunderflow") := by
  unfold bAbs; rw [h]; rfl
theorem abs_typecheck (v : VM) (x : Obj) (rest : List Obj) (h : v.stack = x :: rest)
    (hn : isNumber x = false) : (bAbs v).2 = .err (.ps "typecheck") := by
  unfold bAbs
  rw [h]
  cases x <;> first | rfl | (simp [isNumber] at hn)

/-- `and`/`or` accept two booleans or two integers -/
def boolOrIntPair (a b : Obj) : Bool :=
  match a, b with
  | .bool _, .bool _ => true
  | .int _, .int _ => true
  | _, _ => false

theorem and_underflow (v : VM) (h : v.stack.length < 2) : (bAnd v).2 = .err (.ps "stackunderflow") := by
  unfold bAnd
  match hs : v.stack, h with
  | [], _ => rfl
  | [_], _ => rfl
theorem or_underflow (v : VM) (h : v.stack.length < 2) : (bOr v).2 = .err (.ps "stackunderflow") := by
  unfold bOr
  match hs : v.stack, h with
  | [], _ => rfl
  | [_], _ => rfl
theorem and_typecheck (v : VM) (a b : Obj) (rest : List Obj) (h : v.stack = b :: a :: rest)
    (hn : boolOrIntPair a b = false) : (bAnd v).2 = .err (.ps "typecheck") := by
  unfold bAnd
  rw [h]
  cases a <;> cases b <;> first | rfl | (simp [boolOrIntPair] at hn)
theorem or_typecheck (v : VM) (a b : Obj) (rest : List Obj) (h : v.stack = b :: a :: rest)
    (hn : boolOrIntPair a b = false) : (bOr v).2 = .err (.ps "typecheck") := by
  unfold bOr
  rw [h]
  cases a <;> cases b <;> first | rfl | (simp [boolOrIntPair] at hn)
theorem and_bool (v : VM) (x y : Bool) (rest : List Obj) (h : v.stack = .bool y :: .bool x :: rest) :
    bAnd v = ({ v with stack := .bool (x && y) :: rest }, .ok) := by unfold bAnd; rw [h]; rfl
theorem or_bool (v : VM) (x y : Bool) (rest : List Obj) (h : v.stack = .bool y :: .bool x :: rest) :
    bOr v = ({ v with stack := .bool (x || y) :: rest }, .ok) := by unfold bOr; rw [h]; rfl

theorem not_underflow (v : VM) (h : v.stack = []) : (bNot v).2 = .err (.ps "stackunderflow") := by
  unfold bNot; rw [h]; rfl
theorem not_typecheck (v : VM) (x : Obj) (rest : List Obj) (h : v.stack = x :: rest)
    (hb : ∀ b, x ≠ .bool b) (hi : ∀ i, x ≠ .int i) : (bNot v).2 = .err (.ps "typecheck") := by
  unfold bNot
  rw [h]
  cases x <;> first | rfl | exact absurd rfl (hb _) | exact absurd rfl (hi _)
theorem not_bool (v : VM) (x : Bool) (rest : List Obj) (h : v.stack = .bool x :: rest) :
    bNot v = ({ v with stack := .bool (!x) :: rest }, .ok) := by unfold bNot; rw [h]; rfl

theorem eq_underflow (v : VM) (h : v.stack.length < 2) : (bEq v).2 = .err (.ps "stackunderflow") := by
  unfold bEq bEqNe
  match hs : v.stack, h with
  | [], _ => rfl
  | [_], _ => rfl
theorem ne_underflow (v : VM) (h : v.stack.length < 2) : (bNe v).2 = .err (.ps "stackunderflow") := by
  unfold bNe bEqNe
  match hs : v.stack, h with
  | [], _ => rfl
  | [_], _ => rfl

/-- objects that `eq` cannot compare: anything but numbers, strings, names (and two dictionaries) -/
def comparable : Obj → Bool
  | .int _ | .real _ | .str .. | .name _ | .bool _ | .arr .. | .proc .. | .mark => true
  | _ => false

theorem equalObjs_none (v : VM) (a b : Obj) (hd : ∀ x y, ¬ (a = .dict x ∧ b = .dict y))
    (hn : comparable a = false ∨ comparable b = false) : equalObjs v a b = none := by
  rcases hn with hn | hn
  · cases a <;> first | (simp [comparable] at hn; done) | (cases b <;> first | rfl | exact absurd ⟨rfl, rfl⟩ (hd _ _))
  · cases b <;> first | (simp [comparable] at hn; done) |
      (cases a <;> first | rfl | exact absurd ⟨rfl, rfl⟩ (hd _ _) | simp [equalObjs, normalize])

theorem eq_typecheck (v : VM) (a b : Obj) (rest : List Obj) (h : v.stack = b :: a :: rest)
    (hd : ∀ x y, ¬ (a = .dict x ∧ b = .dict y))
    (hn : comparable a = false ∨ comparable b = false) : (bEq v).2 = .err (.ps "typecheck") := by
  unfold bEq bEqNe
  rw [h]
  simp only [equalObjs_none v a b hd hn, psErr]
theorem ne_typecheck (v : VM) (a b : Obj) (rest : List Obj) (h : v.stack = b :: a :: rest)
    (hd : ∀ x y, ¬ (a = .dict x ∧ b = .dict y))
    (hn : comparable a = false ∨ comparable b = false) : (bNe v).2 = .err (.ps "typecheck") := by
  unfold bNe bEqNe
  rw [h]
  simp only [equalObjs_none v a b hd hn, psErr]

/-! ## errors of `array`, `string`, `dict` -/

theorem array_underflow (v : VM) (h : v.stack = []) : (bArray v).2 = .err (.ps "stackunderflow") := by
  unfold bArray; rw [h]; rfl
theorem array_typecheck (v : VM) (x : Obj) (rest : List Obj) (h : v.stack = x :: rest)
    (ht : ∀ n, x ≠ .int n) : (bArray v).2 = .err (.ps "typecheck") := by
  unfold bArray
  rw [h]
  cases x <;> first | rfl | exact absurd rfl (ht _)
theorem array_rangecheck (v : VM) (n : Int) (rest : List Obj) (h : v.stack = .int n :: rest)
    (hn : n < 0) : (bArray v).2 = .err (.ps "rangecheck") := by
  unfold bArray
  rw [h]
  simp only [hn, if_true, psErr]
theorem array_limitcheck (v : VM) (n : Int) (rest : List Obj) (h : v.stack = .int n :: rest)
    (hn : n > 65536) : (bArray v).2 = .err (.ps "limitcheck") := by
  unfold bArray
  rw [h]
  have h1 : ¬ n < 0 := by omega
  have h2 : n > maxArraySize := hn
  simp only [h1, h2, if_false, if_true, psErr]

theorem string_underflow (v : VM) (h : v.stack = []) : (bString v).2 = .err (.ps "stackunderflow") := by
  unfold bString; rw [h]; rfl
theorem string_typecheck (v : VM) (x : Obj) (rest : List Obj) (h : v.stack = x :: rest)
    (ht : ∀ n, x ≠ .int n) : (bString v).2 = .err (.ps "typecheck") := by
  unfold bString
  rw [h]
  cases x <;> first | rfl | exact absurd rfl (ht _)
theorem string_rangecheck (v : VM) (n : Int) (rest : List Obj) (h : v.stack = .int n :: rest)
    (hn : n < 0) : (bString v).2 = .err (.ps "rangecheck") := by
  unfold bString
  rw [h]
  simp only [hn, if_true, psErr]
theorem string_limitcheck (v : VM) (n : Int) (rest : List Obj) (h : v.stack = .int n :: rest)
    (hn : n > 65536) : (bString v).2 = .err (.ps "limitcheck") := by
  unfold bString
  rw [h]
  have h1 : ¬ n < 0 := by omega
  have h2 : n > maxStringSize := hn
  simp only [h1, h2, if_false, if_true, psErr]

theorem dict_underflow (v : VM) (h : v.stack = []) : (bDict v).2 = .err (.ps "stackunderflow") := by
  unfold bDict; rw [h]; rfl
theorem dict_typecheck (v : VM) (x : Obj) (rest : List Obj) (h : v.stack = x :: rest)
    (ht : ∀ n, x ≠ .int n) : (bDict v).2 = .err (.ps "typecheck") := by
  unfold bDict
  rw [h]
  cases x <;> first | rfl | exact absurd rfl (ht _)
theorem dict_rangecheck (v : VM) (n : Int) (rest : List Obj) (h : v.stack = .int n :: rest)
    (hn : n < 0) : (bDict v).2 = .err (.ps "rangecheck") := by
  unfold bDict
  rw [h]
  simp only [hn, if_true, psErr]
theorem dict_limitcheck (v : VM) (n : Int) (rest : List Obj) (h : v.stack = .int n :: rest)
    (hn : n > 65536) : (bDict v).2 = .err (.ps "limitcheck") := by
  unfold bDict
  rw [h]
  have h1 : ¬ n < 0 := by omega
  have h2 : n > maxDictSize := hn
  simp only [h1, h2, if_false, if_true, psErr]

/-- the successful cases: a fresh store, referenced by a view of the whole of it -/
theorem array_spec (v : VM) (n : Nat) (rest : List Obj) (h : v.stack = .int n :: rest) (hn : n ≤ 65536) :
    bArray v = ({ v with stack := .arr v.heap.size 0 n :: rest,
                         heap := v.heap.push (.objs (Array.replicate n .file)) }, .ok) := by
  unfold bArray
  rw [h]
  have h1 : ¬ (n : Int) < 0 := by omega
  have h2 : ¬ (n : Int) > maxArraySize := by unfold maxArraySize; omega
  simp only [h1, h2, if_false, VM.alloc, VM.push, okRes, Int.toNat_natCast]
theorem string_spec (v : VM) (n : Nat) (rest : List Obj) (h : v.stack = .int n :: rest) (hn : n ≤ 65536) :
    bString v = ({ v with stack := .str v.heap.size 0 n :: rest,
                          heap := v.heap.push (.bytes (Array.replicate n 0)) }, .ok) := by
  unfold bString
  rw [h]
  have h1 : ¬ (n : Int) < 0 := by omega
  have h2 : ¬ (n : Int) > maxStringSize := by unfold maxStringSize; omega
  simp only [h1, h2, if_false, VM.alloc, VM.push, okRes, Int.toNat_natCast]
theorem dict_spec (v : VM) (n : Nat) (rest : List Obj) (h : v.stack = .int n :: rest) (hn : n ≤ 65536) :
    bDict v = ({ v with stack := .dict v.heap.size :: rest, heap := v.heap.push (.dict []) }, .ok) := by
  unfold bDict
  rw [h]
  have h1 : ¬ (n : Int) < 0 := by omega
  have h2 : ¬ (n : Int) > maxDictSize := by unfold maxDictSize; omega
  simp only [h1, h2, if_false, VM.alloc, VM.push, okRes]

/-! ## errors of the dictionary operators -/

theorem begin_underflow (v : VM) (h : v.stack = []) : (bBegin v).2 = .err (.ps "stackunderflow") := by
  unfold bBegin; rw [h]; rfl
theorem begin_typecheck (v : VM) (x : Obj) (rest : List Obj) (h : v.stack = x :: rest)
    (hd : v.dictStack.length < 20) (ht : ∀ r, x ≠ .dict r) : (bBegin v).2 = .err (.ps "typecheck") := by
  unfold bBegin
  rw [h]
  have h1 : ¬ v.dictStack.length ≥ maxDictStackDepth := by unfold maxDictStackDepth; omega
  simp only [h1, if_false]
  cases x <;> first | rfl | exact absurd rfl (ht _)
theorem begin_dictstackoverflow (v : VM) (x : Obj) (rest : List Obj) (h : v.stack = x :: rest)
    (hd : v.dictStack.length ≥ 20) : (bBegin v).2 = .err (.ps "dictstackoverflow") := by
  unfold bBegin
  rw [h]
  have h1 : v.dictStack.length ≥ maxDictStackDepth := hd
  simp only [h1, if_true, psErr]
theorem end_dictstackunderflow (v : VM) (h : v.dictStack.length ≤ 2) :
    (bEnd v).2 = .err (.ps "dictstackunderflow") := by
  unfold bEnd
  simp only [h, if_true, psErr]

theorem def_underflow (v : VM) (h : v.stack.length < 2) : (bDef v).2 = .err (.ps "stackunderflow") := by
  unfold bDef
  match hs : v.stack, h with
  | [], _ => rfl
  | [_], _ => rfl
theorem def_typecheck (v : VM) (x k : Obj) (rest : List Obj) (h : v.stack = x :: k :: rest)
    (ht : ∀ n, k ≠ .name n) : (bDef v).2 = .err (.ps "typecheck") := by
  unfold bDef
  rw [h]
  cases k <;> first | rfl | exact absurd rfl (ht _)

theorem load_underflow (v : VM) (h : v.stack = []) : (bLoad v).2 = .err (.ps "stackunderflow") := by
  unfold bLoad; rw [h]; rfl
theorem load_typecheck (v : VM) (k : Obj) (rest : List Obj) (h : v.stack = k :: rest)
    (ht : ∀ n, k ≠ .name n) : (bLoad v).2 = .err (.ps "typecheck") := by
  unfold bLoad
  rw [h]
  cases k <;> first | rfl | exact absurd rfl (ht _)
theorem load_undefined (v : VM) (n : Name) (rest : List Obj) (h : v.stack = .name n :: rest)
    (hu : lookupName v n = none) : (bLoad v).2 = .err (.ps "undefined") := by
  unfold bLoad
  rw [h]
  simp only [hu, psErr]

theorem known_underflow (v : VM) (h : v.stack.length < 2) : (bKnown v).2 = .err (.ps "stackunderflow") := by
  unfold bKnown
  match hs : v.stack, h with
  | [], _ => rfl
  | [_], _ => rfl
theorem known_typecheck_dict (v : VM) (k d : Obj) (rest : List Obj) (h : v.stack = k :: d :: rest)
    (ht : ∀ r, d ≠ .dict r) : (bKnown v).2 = .err (.ps "typecheck") := by
  unfold bKnown
  rw [h]
  cases d <;> first | rfl | exact absurd rfl (ht _)
theorem known_typecheck_key (v : VM) (k : Obj) (r : Nat) (rest : List Obj) (h : v.stack = k :: .dict r :: rest)
    (ht : ∀ n, k ≠ .name n) : (bKnown v).2 = .err (.ps "typecheck") := by
  unfold bKnown
  rw [h]
  cases k <;> first | rfl | exact absurd rfl (ht _)

theorem where_underflow (v : VM) (h : v.stack = []) : (bWhere v).2 = .err (.ps "stackunderflow") := by
  unfold bWhere; rw [h]; rfl
theorem where_typecheck (v : VM) (k : Obj) (rest : List Obj) (h : v.stack = k :: rest)
    (ht : ∀ n, k ≠ .name n) : (bWhere v).2 = .err (.ps "typecheck") := by
  unfold bWhere
  rw [h]
  cases k <;> first | rfl | exact absurd rfl (ht _)

theorem maxlength_underflow (v : VM) (h : v.stack = []) : (bMaxlength v).2 = .err (.ps "stackunderflow") := by
  unfold bMaxlength; rw [h]; rfl
theorem maxlength_typecheck (v : VM) (x : Obj) (rest : List Obj) (h : v.stack = x :: rest)
    (ht : ∀ r, x ≠ .dict r) : (bMaxlength v).2 = .err (.ps "typecheck") := by
  unfold bMaxlength
  rw [h]
  cases x <;> first | rfl | exact absurd rfl (ht _)

/-- objects that have a `length` -/
def hasLength : Obj → Bool
  | .arr .. | .proc .. | .str .. | .dict _ | .name _ | .op _ => true
  | _ => false

theorem length_underflow (v : VM) (h : v.stack = []) : (bLength v).2 = .err (.ps "stackunderflow") := by
  unfold bLength; rw [h]; rfl
theorem length_typecheck (v : VM) (x : Obj) (rest : List Obj) (h : v.stack = x :: rest)
    (ht : hasLength x = false) : (bLength v).2 = .err (.ps "typecheck") := by
  unfold bLength
  rw [h]
  cases x <;> first | rfl | (simp [hasLength] at ht)

/-! ## errors of `get`, `put`, `getinterval`, `putinterval` -/

/-- the kind of selector a container wants: 1 = integer index, 2 = name key, 0 = not a container -/
def selKind : Obj → Nat
  | .arr .. | .proc .. | .str .. => 1
  | .dict _ => 2
  | _ => 0

theorem get_underflow (v : VM) (h : v.stack.length < 2) : (bGet v).2 = .err (.ps "stackunderflow") := by
  unfold bGet
  match hs : v.stack, h with
  | [], _ => rfl
  | [_], _ => rfl
/-- the container is not an array, procedure, string or dictionary -/
theorem get_typecheck_obj (v : VM) (sel obj : Obj) (rest : List Obj) (h : v.stack = sel :: obj :: rest)
    (ht : selKind obj = 0) : (bGet v).2 = .err (.ps "typecheck") := by
  unfold bGet
  rw [h]
  cases obj <;> first | rfl | (simp [selKind] at ht)
/-- an array, procedure or string indexed by something that is not an integer -/
theorem get_typecheck_index (v : VM) (sel obj : Obj) (rest : List Obj) (h : v.stack = sel :: obj :: rest)
    (hk : selKind obj = 1) (ht : ∀ i, sel ≠ .int i) : (bGet v).2 = .err (.ps "typecheck") := by
  unfold bGet
  rw [h]
  cases obj <;> first | (simp [selKind] at hk; done) | (cases sel <;> first | rfl | exact absurd rfl (ht _))
/-- a dictionary looked up with something that is not a name -/
theorem get_typecheck_key (v : VM) (sel : Obj) (r : Nat) (rest : List Obj) (h : v.stack = sel :: .dict r :: rest)
    (ht : ∀ n, sel ≠ .name n) : (bGet v).2 = .err (.ps "typecheck") := by
  unfold bGet
  rw [h]
  cases sel <;> first | rfl | exact absurd rfl (ht _)
theorem get_rangecheck (v : VM) (r o l : Nat) (i : Int) (rest : List Obj)
    (h : v.stack = .int i :: .arr r o l :: rest) (hi : i < 0 ∨ i ≥ l) :
    (bGet v).2 = .err (.ps "rangecheck") := by
  unfold bGet
  rw [h]
  simp only [hi, if_true, psErr]
theorem get_rangecheck_proc (v : VM) (r o l : Nat) (i : Int) (rest : List Obj)
    (h : v.stack = .int i :: .proc r o l :: rest) (hi : i < 0 ∨ i ≥ l) :
    (bGet v).2 = .err (.ps "rangecheck") := by
  unfold bGet
  rw [h]
  simp only [hi, if_true, psErr]
theorem get_rangecheck_str (v : VM) (r o l : Nat) (i : Int) (rest : List Obj)
    (h : v.stack = .int i :: .str r o l :: rest) (hi : i < 0 ∨ i ≥ l) :
    (bGet v).2 = .err (.ps "rangecheck") := by
  unfold bGet
  rw [h]
  simp only [hi, if_true, psErr]
theorem get_undefined (v : VM) (r : Nat) (n : Name) (rest : List Obj)
    (h : v.stack = .name n :: .dict r :: rest) (hu : dictLookup (v.getDict r) n = none) :
    (bGet v).2 = .err (.ps "undefined") := by
  unfold bGet
  rw [h]
  simp only [VM.dictGet, hu, psErr]

theorem put_underflow (v : VM) (h : v.stack.length < 3) : (bPut v).2 = .err (.ps "stackunderflow") := by
  unfold bPut
  match hs : v.stack, h with
  | [], _ => rfl
  | [_], _ => rfl
  | [_, _], _ => rfl
theorem put_typecheck_obj (v : VM) (x sel obj : Obj) (rest : List Obj) (h : v.stack = x :: sel :: obj :: rest)
    (ht : selKind obj = 0) : (bPut v).2 = .err (.ps "typecheck") := by
  unfold bPut
  rw [h]
  cases obj <;> first | rfl | (simp [selKind] at ht)
theorem put_typecheck_index (v : VM) (x sel obj : Obj) (rest : List Obj) (h : v.stack = x :: sel :: obj :: rest)
    (hk : selKind obj = 1) (ht : ∀ i, sel ≠ .int i) : (bPut v).2 = .err (.ps "typecheck") := by
  unfold bPut
  rw [h]
  cases obj <;> first | (simp [selKind] at hk; done) | (cases sel <;> first | rfl | exact absurd rfl (ht _))
theorem put_typecheck_key (v : VM) (x sel : Obj) (r : Nat) (rest : List Obj)
    (h : v.stack = x :: sel :: .dict r :: rest) (ht : ∀ n, sel ≠ .name n) :
    (bPut v).2 = .err (.ps "typecheck") := by
  unfold bPut
  rw [h]
  cases sel <;> first | rfl | exact absurd rfl (ht _)
/-- storing a non-integer into a string -/
theorem put_typecheck_char (v : VM) (x : Obj) (r o l : Nat) (i : Int) (rest : List Obj)
    (h : v.stack = x :: .int i :: .str r o l :: rest) (hi : 0 ≤ i ∧ i < l) (ht : ∀ c, x ≠ .int c) :
    (bPut v).2 = .err (.ps "typecheck") := by
  unfold bPut
  rw [h]
  have h1 : ¬ (i < 0 ∨ i ≥ l) := by omega
  simp only [h1, if_false]
  cases x <;> first | rfl | exact absurd rfl (ht _)
theorem put_rangecheck (v : VM) (x : Obj) (r o l : Nat) (i : Int) (rest : List Obj)
    (h : v.stack = x :: .int i :: .arr r o l :: rest) (hi : i < 0 ∨ i ≥ l) :
    (bPut v).2 = .err (.ps "rangecheck") := by
  unfold bPut
  rw [h]
  simp only [hi, if_true, psErr]
theorem put_rangecheck_proc (v : VM) (x : Obj) (r o l : Nat) (i : Int) (rest : List Obj)
    (h : v.stack = x :: .int i :: .proc r o l :: rest) (hi : i < 0 ∨ i ≥ l) :
    (bPut v).2 = .err (.ps "rangecheck") := by
  unfold bPut
  rw [h]
  simp only [hi, if_true, psErr]
theorem put_rangecheck_str (v : VM) (x : Obj) (r o l : Nat) (i : Int) (rest : List Obj)
    (h : v.stack = x :: .int i :: .str r o l :: rest) (hi : i < 0 ∨ i ≥ l) :
    (bPut v).2 = .err (.ps "rangecheck") := by
  unfold bPut
  rw [h]
  simp only [hi, if_true, psErr]
/-- a character code outside 0..255 -/
theorem put_rangecheck_char (v : VM) (c : Int) (r o l : Nat) (i : Int) (rest : List Obj)
    (h : v.stack = .int c :: .int i :: .str r o l :: rest) (hi : 0 ≤ i ∧ i < l) (hc : c < 0 ∨ c > 255) :
    (bPut v).2 = .err (.ps "rangecheck") := by
  unfold bPut
  rw [h]
  have h1 : ¬ (i < 0 ∨ i ≥ l) := by omega
  simp only [h1, hc, if_false, if_true, psErr]

/-- `getinterval`/`putinterval` work on arrays and strings -/
def intervalKind : Obj → Nat
  | .arr .. => 1
  | .str .. => 2
  | _ => 0
def viewLen : Obj → Nat
  | .arr _ _ l | .str _ _ l | .proc _ _ l => l
  | _ => 0

theorem getinterval_underflow (v : VM) (h : v.stack.length < 3) :
    (bGetinterval v).2 = .err (.ps "stackunderflow") := by
  unfold bGetinterval
  match hs : v.stack, h with
  | [], _ => rfl
  | [_], _ => rfl
  | [_, _], _ => rfl
theorem getinterval_typecheck_obj (v : VM) (cnt idx obj : Obj) (rest : List Obj)
    (h : v.stack = cnt :: idx :: obj :: rest) (ht : intervalKind obj = 0) :
    (bGetinterval v).2 = .err (.ps "typecheck") := by
  unfold bGetinterval
  rw [h]
  cases obj <;> first | rfl | (simp [intervalKind] at ht)
theorem getinterval_typecheck_index (v : VM) (cnt idx obj : Obj) (rest : List Obj)
    (h : v.stack = cnt :: idx :: obj :: rest) (hk : intervalKind obj ≠ 0) (ht : ∀ i, idx ≠ .int i) :
    (bGetinterval v).2 = .err (.ps "typecheck") := by
  unfold bGetinterval
  rw [h]
  cases obj <;> first | (simp [intervalKind] at hk; done) | (cases idx <;> first | rfl | exact absurd rfl (ht _))
theorem getinterval_typecheck_count (v : VM) (cnt obj : Obj) (i : Int) (rest : List Obj)
    (h : v.stack = cnt :: .int i :: obj :: rest) (hk : intervalKind obj ≠ 0)
    (hi : 0 ≤ i ∧ i ≤ viewLen obj) (ht : ∀ c, cnt ≠ .int c) :
    (bGetinterval v).2 = .err (.ps "typecheck") := by
  unfold bGetinterval
  rw [h]
  cases obj <;> first | (simp [intervalKind] at hk; done) |
    (rename_i r o l
     simp only [viewLen] at hi
     have h1 : ¬ (i < 0 ∨ i > (l : Int)) := by omega
     simp only [h1, if_false]
     cases cnt <;> first | rfl | exact absurd rfl (ht _))
theorem getinterval_rangecheck_index (v : VM) (cnt obj : Obj) (i : Int) (rest : List Obj)
    (h : v.stack = cnt :: .int i :: obj :: rest) (hk : intervalKind obj ≠ 0)
    (hi : i < 0 ∨ i > viewLen obj) : (bGetinterval v).2 = .err (.ps "rangecheck") := by
  unfold bGetinterval
  rw [h]
  cases obj <;> first | (simp [intervalKind] at hk; done) |
    (simp only [viewLen] at hi
     simp only [hi, if_true, psErr])
theorem getinterval_rangecheck_count (v : VM) (obj : Obj) (i c : Int) (rest : List Obj)
    (h : v.stack = .int c :: .int i :: obj :: rest) (hk : intervalKind obj ≠ 0)
    (hi : 0 ≤ i ∧ i ≤ viewLen obj) (hc : c < 0 ∨ c > viewLen obj - i) :
    (bGetinterval v).2 = .err (.ps "rangecheck") := by
  unfold bGetinterval
  rw [h]
  cases obj <;> first | (simp [intervalKind] at hk; done) |
    (rename_i r o l
     simp only [viewLen] at hi hc
     have h1 : ¬ (i < 0 ∨ i > (l : Int)) := by omega
     simp only [h1, hc, if_false, if_true, psErr])

theorem putinterval_underflow (v : VM) (h : v.stack.length < 3) :
    (bPutinterval v).2 = .err (.ps "stackunderflow") := by
  unfold bPutinterval
  match hs : v.stack, h with
  | [], _ => rfl
  | [_], _ => rfl
  | [_, _], _ => rfl
theorem putinterval_typecheck_index (v : VM) (src idx dst : Obj) (rest : List Obj)
    (h : v.stack = src :: idx :: dst :: rest) (ht : ∀ i, idx ≠ .int i) :
    (bPutinterval v).2 = .err (.ps "typecheck") := by
  unfold bPutinterval
  rw [h]
  cases idx <;> first | rfl | exact absurd rfl (ht _)
/-- destination not an array or string, or source of a different kind -/
theorem putinterval_typecheck (v : VM) (src dst : Obj) (i : Int) (rest : List Obj)
    (h : v.stack = src :: .int i :: dst :: rest) (hi : 0 ≤ i)
    (hk : intervalKind dst = 0 ∨ intervalKind src ≠ intervalKind dst) :
    (bPutinterval v).2 = .err (.ps "typecheck") := by
  unfold bPutinterval
  rw [h]
  have h1 : ¬ i < 0 := by omega
  simp only [h1, if_false]
  cases dst <;> first | rfl | (cases src <;> first | rfl | (simp [intervalKind] at hk))
theorem putinterval_rangecheck_neg (v : VM) (src dst : Obj) (i : Int) (rest : List Obj)
    (h : v.stack = src :: .int i :: dst :: rest) (hi : i < 0) :
    (bPutinterval v).2 = .err (.ps "rangecheck") := by
  unfold bPutinterval
  rw [h]
  simp only [hi, if_true, psErr]
theorem putinterval_rangecheck (v : VM) (r o l r2 o2 l2 : Nat) (i : Int) (rest : List Obj)
    (h : v.stack = .arr r2 o2 l2 :: .int i :: .arr r o l :: rest) (hi : i < 0 ∨ i + l2 > l) :
    (bPutinterval v).2 = .err (.ps "rangecheck") := by
  unfold bPutinterval
  rw [h]
  by_cases h0 : i < 0
  · simp only [h0, if_true, psErr]
  · have h2 : i > (l : Int) - l2 := by omega
    simp only [h0, h2, if_false, if_true, psErr]
theorem putinterval_rangecheck_str (v : VM) (r o l r2 o2 l2 : Nat) (i : Int) (rest : List Obj)
    (h : v.stack = .str r2 o2 l2 :: .int i :: .str r o l :: rest) (hi : i < 0 ∨ i + l2 > l) :
    (bPutinterval v).2 = .err (.ps "rangecheck") := by
  unfold bPutinterval
  rw [h]
  by_cases h0 : i < 0
  · simp only [h0, if_true, psErr]
  · have h2 : i > (l : Int) - l2 := by omega
    simp only [h0, h2, if_false, if_true, psErr]

/-! ## errors of the font and resource operators -/

theorem definefont_underflow (v : VM) (h : v.stack.length < 2) :
    (bDefinefont v).2 = .err (.ps "stackunderflow") := by
  unfold bDefinefont
  match hs : v.stack, h with
  | [], _ => rfl
  | [_], _ => rfl
theorem definefont_typecheck_key (v : VM) (font k : Obj) (rest : List Obj) (h : v.stack = font :: k :: rest)
    (ht : ∀ n, k ≠ .name n) : (bDefinefont v).2 = .err (.ps "typecheck") := by
  unfold bDefinefont
  rw [h]
  cases k <;> first | rfl | exact absurd rfl (ht _)
theorem definefont_typecheck_font (v : VM) (font : Obj) (n : Name) (rest : List Obj)
    (h : v.stack = font :: .name n :: rest) (ht : ∀ r, font ≠ .dict r) :
    (bDefinefont v).2 = .err (.ps "typecheck") := by
  unfold bDefinefont
  rw [h]
  cases font <;> first | rfl | exact absurd rfl (ht _)

theorem findfont_underflow (v : VM) (h : v.stack = []) : (bFindfont v).2 = .err (.ps "stackunderflow") := by
  unfold bFindfont; rw [h]; rfl
theorem findfont_typecheck (v : VM) (k : Obj) (rest : List Obj) (h : v.stack = k :: rest)
    (ht : ∀ n, k ≠ .name n) : (bFindfont v).2 = .err (.ps "typecheck") := by
  unfold bFindfont
  rw [h]
  cases k <;> first | rfl | exact absurd rfl (ht _)
theorem findfont_invalidfont (v : VM) (n : Name) (rest : List Obj) (h : v.stack = .name n :: rest)
    (hu : dictLookup (v.getDict v.roots.fontDirectory) n = none) :
    (bFindfont v).2 = .err (.ps "invalidfont") := by
  unfold bFindfont
  rw [h]
  simp only [VM.dictGet, hu, psErr]

theorem findresource_underflow (v : VM) (h : v.stack.length < 2) :
    (bFindresource v).2 = .err (.ps "stackunderflow") := by
  unfold bFindresource
  match hs : v.stack, h with
  | [], _ => rfl
  | [_], _ => rfl
theorem findresource_typecheck (v : VM) (cat key : Obj) (rest : List Obj) (h : v.stack = cat :: key :: rest)
    (ht : ∀ n, cat ≠ .name n) : (bFindresource v).2 = .err (.ps "typecheck") := by
  unfold bFindresource
  rw [h]
  cases cat <;> first | rfl | exact absurd rfl (ht _)
/-- unknown resource category -/
theorem findresource_undefined (v : VM) (c : Name) (key : Obj) (rest : List Obj)
    (h : v.stack = .name c :: key :: rest)
    (hu : dictLookup (v.getDict v.roots.resources) c = none) :
    (bFindresource v).2 = .err (.ps "undefined") := by
  unfold bFindresource
  rw [h]
  simp only [VM.dictGet, hu, psErr]
/-- the key is neither a name nor a string -/
theorem findresource_undefinedresource_key (v : VM) (c : Name) (key catv : Obj) (rest : List Obj)
    (h : v.stack = .name c :: key :: rest)
    (hc : dictLookup (v.getDict v.roots.resources) c = some catv)
    (hn : ∀ n, key ≠ .name n) (hs : ∀ r o l, key ≠ .str r o l) :
    (bFindresource v).2 = .err (.ps "undefinedresource") := by
  unfold bFindresource
  rw [h]
  simp only [VM.dictGet, hc]
  cases key <;> first | rfl | exact absurd rfl (hn _) | exact absurd rfl (hs _ _ _)
/-- no such instance in the category -/
theorem findresource_undefinedresource (v : VM) (c k : Name) (cd : Nat) (rest : List Obj)
    (h : v.stack = .name c :: .name k :: rest)
    (hc : dictLookup (v.getDict v.roots.resources) c = some (.dict cd))
    (hu : dictLookup (v.getDict cd) k = none) :
    (bFindresource v).2 = .err (.ps "undefinedresource") := by
  unfold bFindresource
  rw [h]
  simp only [VM.dictGet, hc, hu, psErr]
theorem findresource_spec (v : VM) (c k : Name) (cd : Nat) (x : Obj) (rest : List Obj)
    (h : v.stack = .name c :: .name k :: rest)
    (hc : dictLookup (v.getDict v.roots.resources) c = some (.dict cd))
    (hu : dictLookup (v.getDict cd) k = some x) :
    bFindresource v = ({ v with stack := x :: rest }, .ok) := by
  unfold bFindresource
  rw [h]
  simp only [VM.dictGet, hc, hu, okRes]

theorem defineresource_underflow (v : VM) (h : v.stack.length < 3) :
    (bDefineresource v).2 = .err (.ps "stackunderflow") := by
  unfold bDefineresource
  match hs : v.stack, h with
  | [], _ => rfl
  | [_], _ => rfl
  | [_, _], _ => rfl
theorem defineresource_typecheck_key (v : VM) (cls inst key : Obj) (rest : List Obj)
    (h : v.stack = cls :: inst :: key :: rest) (ht : ∀ n, key ≠ .name n) :
    (bDefineresource v).2 = .err (.ps "typecheck") := by
  unfold bDefineresource
  rw [h]
  cases key <;> first | rfl | exact absurd rfl (ht _)
theorem defineresource_typecheck_category (v : VM) (cls inst : Obj) (k : Name) (rest : List Obj)
    (h : v.stack = cls :: inst :: .name k :: rest) (ht : ∀ n, cls ≠ .name n) :
    (bDefineresource v).2 = .err (.ps "typecheck") := by
  unfold bDefineresource
  rw [h]
  cases cls <;> first | rfl | exact absurd rfl (ht _)
theorem defineresource_undefined (v : VM) (inst : Obj) (c k : Name) (rest : List Obj)
    (h : v.stack = .name c :: inst :: .name k :: rest)
    (hu : dictLookup (v.getDict v.roots.resources) c = none) :
    (bDefineresource v).2 = .err (.ps "undefined") := by
  unfold bDefineresource
  rw [h]
  simp only [VM.dictGet, hu, psErr]

/-- a `CMap` instance must be a dictionary whose `CodeMap` entry is a `*CMapInfo` -/
theorem defineresource_typecheck_cmap (v : VM) (inst : Obj) (k : Name) (cd : Nat) (rest : List Obj)
    (h : v.stack = .name "CMap" :: inst :: .name k :: rest)
    (hc : dictLookup (v.getDict v.roots.resources) "CMap" = some (.dict cd))
    (ht : ∀ d, inst ≠ .dict d) :
    (bDefineresource v).2 = .err (.ps "typecheck") := by
  unfold bDefineresource
  rw [h]
  simp only [VM.dictGet, hc]
  cases inst <;> first | exact absurd rfl (ht _) | simp [psErr]

/-- the successful case for a category other than `CMap` -/
theorem defineresource_spec (v : VM) (inst : Obj) (c k : Name) (cd : Nat) (rest : List Obj)
    (h : v.stack = .name c :: inst :: .name k :: rest)
    (hc : dictLookup (v.getDict v.roots.resources) c = some (.dict cd)) (hne : c ≠ "CMap") :
    bDefineresource v = ({ (v.dictPut cd k inst) with stack := inst :: rest }, .ok) := by
  unfold bDefineresource
  rw [h]
  simp only [VM.dictGet, hc]
  simp [hne, okRes]

theorem definefont_spec (v : VM) (d : Nat) (n : Name) (rest : List Obj)
    (h : v.stack = .dict d :: .name n :: rest) :
    bDefinefont v = ({ (v.dictPut v.roots.fontDirectory n (.dict d)) with stack := .dict d :: rest }, .ok) := by
  unfold bDefinefont; rw [h]; rfl
theorem findfont_spec (v : VM) (n : Name) (f : Obj) (rest : List Obj) (h : v.stack = .name n :: rest)
    (hf : dictLookup (v.getDict v.roots.fontDirectory) n = some f) :
    bFindfont v = ({ v with stack := f :: rest }, .ok) := by
  unfold bFindfont
  rw [h]
  simp only [VM.dictGet, hf, okRes]

/-! ## `type` -/

theorem type_underflow (v : VM) (h : v.stack = []) : (bType v).2 = .err (.ps "stackunderflow") := by
  unfold bType; rw [h]; rfl

/-- the type names of the reference -/
def typeName : Obj → Name
  | .arr .. | .proc .. => "arraytype"
  | .bool _ => "booleantype"
  | .dict _ => "dicttype"
  | .file => "filetype"
  | .int _ => "integertype"
  | .name _ | .op _ => "nametype"
  | .builtin _ => "operatortype"
  | .real _ => "realtype"
  | .str .. => "stringtype"
  | .mark => "marktype"
  | .cmapInfo _ => ""

/-- `type` replaces its operand by the name of its type (PLRM: `any type name`; repaired defect: the operand
used to stay on the stack) -/
theorem type_spec (v : VM) (x : Obj) (rest : List Obj) (h : v.stack = x :: rest) (hx : ∀ r, x ≠ .cmapInfo r) :
    bType v = ({ v with stack := .name (typeName x) :: rest }, .ok) := by
  unfold bType
  rw [h]
  cases x <;> first | exact absurd rfl (hx _) | simp [typeName, VM.push, okRes, h]
theorem type_typecheck (v : VM) (r : Nat) (rest : List Obj) (h : v.stack = .cmapInfo r :: rest) :
    (bType v).2 = .err (.ps "typecheck") := by
  unfold bType
  rw [h]
  simp [psErr]

/-! ## marks: `cleartomark`, `]`, `>>` -/

theorem splitAtMark_none (st : List Obj) : ∀ acc, Obj.mark ∉ st → splitAtMark acc st = none := by
  induction st with
  | nil => intro acc _; rfl
  | cons o rest ih =>
    intro acc hm
    have h1 : o ≠ .mark := fun e => hm (e ▸ List.mem_cons_self)
    have h2 : Obj.mark ∉ rest := fun e => hm (List.mem_cons_of_mem _ e)
    cases o <;> first | exact absurd rfl h1 | (simp only [splitAtMark]; exact ih _ h2)

theorem splitAtMark_some (above below : List Obj) :
    ∀ acc, Obj.mark ∉ above → splitAtMark acc (above ++ .mark :: below) = some (acc.reverse ++ above, below) := by
  induction above with
  | nil => intro acc _; simp [splitAtMark]
  | cons o rest ih =>
    intro acc hm
    have h1 : o ≠ .mark := fun e => hm (e ▸ List.mem_cons_self)
    have h2 : Obj.mark ∉ rest := fun e => hm (List.mem_cons_of_mem _ e)
    cases o <;> first | exact absurd rfl h1 |
      (simp only [List.cons_append, splitAtMark]; rw [ih _ h2]; simp)

/-- no mark on the stack -/
theorem toMark_none (st : List Obj) (h : Obj.mark ∉ st) : toMark st = none := splitAtMark_none st [] h
/-- `toMark` splits at the topmost mark -/
theorem toMark_some (above below : List Obj) (h : Obj.mark ∉ above) :
    toMark (above ++ .mark :: below) = some (above, below) := by
  unfold toMark; rw [splitAtMark_some above below [] h]; rfl

theorem cleartomark_unmatchedmark (v : VM) (h : Obj.mark ∉ v.stack) :
    (bCleartomark v).2 = .err (.ps "unmatchedmark") := by
  unfold bCleartomark; rw [toMark_none _ h]; rfl
theorem listEnd_unmatchedmark (v : VM) (h : Obj.mark ∉ v.stack) :
    (bListEnd v).2 = .err (.ps "unmatchedmark") := by
  unfold bListEnd; rw [toMark_none _ h]; rfl
theorem dictEnd_unmatchedmark (v : VM) (h : Obj.mark ∉ v.stack) :
    (bDictEnd v).2 = .err (.ps "unmatchedmark") := by
  unfold bDictEnd; rw [toMark_none _ h]; rfl

/-- `cleartomark` removes everything down to and including the topmost mark -/
theorem cleartomark_spec (v : VM) (above below : List Obj) (h : v.stack = above ++ .mark :: below)
    (hm : Obj.mark ∉ above) : bCleartomark v = ({ v with stack := below }, .ok) := by
  unfold bCleartomark; rw [h, toMark_some _ _ hm]; rfl

/-- `]` builds a fresh array holding the objects above the topmost mark, bottom-most first -/
theorem listEnd_spec (v : VM) (above below : List Obj) (h : v.stack = above ++ .mark :: below)
    (hm : Obj.mark ∉ above) :
    bListEnd v = ({ v with stack := .arr v.heap.size 0 above.length :: below,
                           heap := v.heap.push (.objs above.reverse.toArray) }, .ok) := by
  unfold bListEnd; rw [h, toMark_some _ _ hm]; rfl

/-- and the new array's elements are those objects in the order they were pushed -/
theorem listEnd_elements (v : VM) (above below : List Obj) (h : v.stack = above ++ .mark :: below)
    (hm : Obj.mark ∉ above) :
    (bListEnd v).1.viewObjs v.heap.size 0 above.length = above.reverse := by
  rw [listEnd_spec v above below h hm]
  simp [VM.viewObjs, VM.getObjs]
  exact List.take_of_length_le (by simp)

/-- the key/value sequence `k₁ v₁ … kₙ vₙ` -/
def flatPairs (ps : List (Name × Obj)) : List Obj := ps.flatMap (fun p => [.name p.1, p.2])

theorem fillDict_pairs (ps : List (Name × Obj)) :
    ∀ d, fillDict (flatPairs ps) d = some (ps.foldl (fun acc p => dictInsert acc p.1 p.2) d) := by
  induction ps with
  | nil => intro d; rfl
  | cons p ps ih => intro d; simp only [flatPairs, List.flatMap_cons, List.cons_append, List.nil_append, fillDict, List.foldl_cons]; exact ih _

/-- a key that is not a name -/
theorem fillDict_badkey (ps : List (Name × Obj)) (k : Obj) (tl : List Obj) (hk : ∀ n, k ≠ .name n) :
    ∀ d, fillDict (flatPairs ps ++ k :: tl) d = none := by
  induction ps with
  | nil => intro d; cases k <;> first | exact absurd rfl (hk _) | simp [flatPairs, fillDict]
  | cons p ps ih => intro d; simp only [flatPairs, List.flatMap_cons, List.cons_append, List.nil_append, fillDict]; exact ih _

/-- `>>` with an odd number of objects above the mark -/
theorem dictEnd_rangecheck (v : VM) (above below : List Obj) (h : v.stack = above ++ .mark :: below)
    (hm : Obj.mark ∉ above) (hodd : above.length % 2 = 1) :
    (bDictEnd v).2 = .err (.ps "rangecheck") := by
  unfold bDictEnd; rw [h, toMark_some _ _ hm]
  simp [hodd, psErr]

/-- `>>` with a key that is not a name (the objects in push order being `k₁ v₁ … k v …`) -/
theorem dictEnd_typecheck (v : VM) (above below : List Obj) (h : v.stack = above ++ .mark :: below)
    (hm : Obj.mark ∉ above) (heven : above.length % 2 = 0)
    (ps : List (Name × Obj)) (k : Obj) (tl : List Obj) (hk : ∀ n, k ≠ .name n)
    (habove : above.reverse = flatPairs ps ++ k :: tl) :
    (bDictEnd v).2 = .err (.ps "typecheck") := by
  unfold bDictEnd; rw [h, toMark_some _ _ hm]
  simp [heven, habove, fillDict_badkey ps k tl hk, psErr]

/-- `<< k₁ v₁ … kₙ vₙ >>` builds a fresh dictionary by inserting the pairs in order -/
theorem dictEnd_spec (v : VM) (above below : List Obj) (ps : List (Name × Obj))
    (h : v.stack = above ++ .mark :: below) (hm : Obj.mark ∉ above)
    (habove : above.reverse = flatPairs ps) :
    bDictEnd v = ({ v with stack := .dict v.heap.size :: below,
                           heap := v.heap.push (.dict (ps.foldl (fun acc p => dictInsert acc p.1 p.2) [])) }, .ok) := by
  have hlen : above.length % 2 = 0 := by
    have : above.length = (flatPairs ps).length := by rw [← habove, List.length_reverse]
    rw [this]
    clear habove this h hm
    induction ps with
    | nil => rfl
    | cons p ps ih => simp only [flatPairs, List.flatMap_cons, List.length_append, List.length_cons, List.length_nil] at ih ⊢; omega
  unfold bDictEnd; rw [h, toMark_some _ _ hm]
  simp [hlen, habove, fillDict_pairs, VM.alloc, okRes]

/-! ## dictionaries: `dictInsert` / `dictLookup` -/

theorem dictLookup_map_self (d : List (Name × Obj)) (k : Name) (x : Obj)
    (h : d.any (fun p => p.1 == k) = true) :
    dictLookup (d.map (fun p => if p.1 == k then (k, x) else p)) k = some x := by
  induction d with
  | nil => simp at h
  | cons p d ih =>
    unfold dictLookup
    by_cases hp : p.1 = k
    · simp [hp]
    · have h' : d.any (fun p => p.1 == k) = true := by simpa [hp] using h
      have := ih h'
      unfold dictLookup at this
      simpa [hp] using this

theorem dictLookup_map_other (d : List (Name × Obj)) (k k' : Name) (x : Obj) (hk : k' ≠ k) :
    dictLookup (d.map (fun p => if p.1 == k then (k, x) else p)) k' = dictLookup d k' := by
  induction d with
  | nil => rfl
  | cons p d ih =>
    unfold dictLookup at ih ⊢
    by_cases hp : p.1 = k
    · have : ¬ p.1 = k' := fun e => hk (e ▸ hp)
      simp only [List.map_cons, hp, beq_self_eq_true, if_true, List.find?_cons]
      have hkk : (k == k') = false := by simp [Ne.symm hk]
      simp only [hkk]
      exact ih
    · have hpb : (p.1 == k) = false := by simp [hp]
      simp only [List.map_cons, hpb, Bool.false_eq_true, if_false, List.find?_cons]
      by_cases hpk : p.1 = k'
      · simp [hpk]
      · have hpk' : (p.1 == k') = false := by simp [hpk]
        simp only [hpk']
        exact ih

theorem dictLookup_append_self (d : List (Name × Obj)) (k : Name) (x : Obj)
    (h : d.any (fun p => p.1 == k) = false) : dictLookup (d ++ [(k, x)]) k = some x := by
  induction d with
  | nil => simp [dictLookup]
  | cons p d ih =>
    have hp : (p.1 == k) = false := by simp at h; simpa using h.1
    have h' : d.any (fun p => p.1 == k) = false := by simp at h ⊢; exact h.2
    have := ih h'
    unfold dictLookup at this ⊢
    simpa [List.find?_cons, hp] using this

theorem dictLookup_append_other (d : List (Name × Obj)) (k k' : Name) (x : Obj) (hk : k' ≠ k) :
    dictLookup (d ++ [(k, x)]) k' = dictLookup d k' := by
  unfold dictLookup
  have hkk : (k == k') = false := by simp [Ne.symm hk]
  rw [List.find?_append]
  cases List.find? (fun p => p.1 == k') d <;> simp [hkk]

/-- what was stored under a key is what is found under it -/
theorem dictLookup_insert_self (d : List (Name × Obj)) (k : Name) (x : Obj) :
    dictLookup (dictInsert d k x) k = some x := by
  unfold dictInsert
  by_cases h : d.any (fun p => p.1 == k) = true
  · rw [if_pos h]; exact dictLookup_map_self d k x h
  · rw [if_neg h]; exact dictLookup_append_self d k x (Bool.eq_false_iff.2 h)

/-- the other keys are not affected -/
theorem dictLookup_insert_other (d : List (Name × Obj)) (k k' : Name) (x : Obj) (hk : k' ≠ k) :
    dictLookup (dictInsert d k x) k' = dictLookup d k' := by
  unfold dictInsert
  split
  · exact dictLookup_map_other d k k' x hk
  · exact dictLookup_append_other d k k' x hk

/-- the number of entries grows by one exactly when the key is new -/
theorem dictInsert_length (d : List (Name × Obj)) (k : Name) (x : Obj) :
    (dictInsert d k x).length = if (dictLookup d k).isSome then d.length else d.length + 1 := by
  unfold dictInsert dictLookup
  by_cases h : d.any (fun p => p.1 == k) = true
  · rw [if_pos h]
    have : (d.find? (fun p => p.1 == k)).isSome = true := by rw [List.find?_isSome]; simpa using h
    cases hf : d.find? (fun p => p.1 == k) with
    | none => rw [hf] at this; cases this
    | some p => simp
  · rw [if_neg h]
    have : d.find? (fun p => p.1 == k) = none := by
      rw [List.find?_eq_none]
      intro p hp hpk
      exact h (List.any_eq_true.2 ⟨p, hp, hpk⟩)
    simp [this]

/-! ### the heap view -/

theorem getDict_setCell_self (v : VM) (r : Nat) (d : List (Name × Obj)) (hr : r < v.heap.size) :
    (v.setCell r (.dict d)).getDict r = d := by
  simp [VM.getDict, VM.setCell, Array.getElem?_setIfInBounds_self_of_lt hr]

theorem getDict_setCell_other (v : VM) (r r' : Nat) (c : Cell) (hne : r' ≠ r) :
    (v.setCell r c).getDict r' = v.getDict r' := by
  simp [VM.getDict, VM.setCell, Array.getElem?_setIfInBounds_ne (Ne.symm hne)]

theorem dictGet_dictPut_self (v : VM) (r : Nat) (k : Name) (x : Obj) (hr : r < v.heap.size) :
    (v.dictPut r k x).dictGet r k = some x := by
  unfold VM.dictPut VM.dictGet
  rw [getDict_setCell_self _ _ _ hr]
  exact dictLookup_insert_self _ _ _

theorem dictGet_dictPut_other_key (v : VM) (r : Nat) (k k' : Name) (x : Obj) (hr : r < v.heap.size)
    (hk : k' ≠ k) : (v.dictPut r k x).dictGet r k' = v.dictGet r k' := by
  unfold VM.dictPut VM.dictGet
  rw [getDict_setCell_self _ _ _ hr]
  exact dictLookup_insert_other _ _ _ _ hk

theorem dictGet_dictPut_other_ref (v : VM) (r r' : Nat) (k k' : Name) (x : Obj) (hne : r' ≠ r) :
    (v.dictPut r k x).dictGet r' k' = v.dictGet r' k' := by
  unfold VM.dictPut VM.dictGet
  rw [getDict_setCell_other _ _ _ _ hne]

/-! ## positive specifications of the dictionary operators -/

/-- `def` stores into the dictionary on top of the dictionary stack -/
theorem def_spec (v : VM) (x : Obj) (n : Name) (rest : List Obj) (d : Nat) (ds : List Nat)
    (h : v.stack = x :: .name n :: rest) (hd : v.dictStack = d :: ds) :
    bDef v = ({ (v.dictPut d n x) with stack := rest }, .ok) := by
  unfold bDef
  rw [h]
  simp only [hd, okRes]

theorem lookupName_top (v : VM) (n : Name) (x : Obj) (d : Nat) (ds : List Nat) (hd : v.dictStack = d :: ds)
    (hx : v.dictGet d n = some x) : lookupName v n = some x := by
  unfold lookupName
  rw [hd]
  simp [hx]

/-- name lookup returns the value from the topmost dictionary that has the key -/
theorem lookupName_spec (v : VM) (n : Name) (x : Obj) (pre post : List Nat) (d : Nat)
    (hd : v.dictStack = pre ++ d :: post) (hpre : ∀ r ∈ pre, v.dictGet r n = none)
    (hx : v.dictGet d n = some x) : lookupName v n = some x := by
  unfold lookupName
  rw [hd]
  clear hd
  induction pre with
  | nil => simp [hx]
  | cons p pre ih =>
    have hp := hpre p List.mem_cons_self
    simp only [List.cons_append, List.findSome?_cons, hp]
    exact ih (fun r hr => hpre r (List.mem_cons_of_mem _ hr))

theorem lookupName_none (v : VM) (n : Name) (h : ∀ r ∈ v.dictStack, v.dictGet r n = none) :
    lookupName v n = none := by
  unfold lookupName
  rw [List.findSome?_eq_none_iff]
  exact h

/-- after `/n x def`, `n load` gives `x` -/
theorem def_then_lookup (v : VM) (x : Obj) (n : Name) (rest : List Obj) (d : Nat) (ds : List Nat)
    (h : v.stack = x :: .name n :: rest) (hd : v.dictStack = d :: ds) (hr : d < v.heap.size) :
    lookupName (bDef v).1 n = some x := by
  rw [def_spec v x n rest d ds h hd]
  dsimp only
  refine lookupName_top _ n x d ds ?_ ?_
  · exact hd
  · exact dictGet_dictPut_self v d n x hr

theorem load_spec (v : VM) (n : Name) (x : Obj) (rest : List Obj) (h : v.stack = .name n :: rest)
    (hx : lookupName v n = some x) : bLoad v = ({ v with stack := x :: rest }, .ok) := by
  unfold bLoad
  rw [h]
  simp only [hx, VM.push, okRes]

theorem known_spec (v : VM) (r : Nat) (n : Name) (rest : List Obj) (h : v.stack = .name n :: .dict r :: rest) :
    bKnown v = ({ v with stack := .bool (dictLookup (v.getDict r) n).isSome :: rest }, .ok) := by
  unfold bKnown; rw [h]; rfl

theorem get_dict_spec (v : VM) (r : Nat) (n : Name) (x : Obj) (rest : List Obj)
    (h : v.stack = .name n :: .dict r :: rest) (hx : dictLookup (v.getDict r) n = some x) :
    bGet v = ({ v with stack := x :: rest }, .ok) := by
  unfold bGet
  rw [h]
  simp only [VM.dictGet, hx, VM.push, okRes]

theorem put_dict_spec (v : VM) (r : Nat) (n : Name) (x : Obj) (rest : List Obj)
    (h : v.stack = x :: .name n :: .dict r :: rest) :
    bPut v = (({ v with stack := rest }).dictPut r n x, .ok) := by
  unfold bPut; rw [h]; rfl

/-- `put` then `get` on a dictionary: the stored value comes back, and is seen through every
reference to the same dictionary (dictionaries are shared, not copied) -/
theorem put_dict_then_get (v : VM) (r : Nat) (n : Name) (x : Obj) (rest : List Obj)
    (h : v.stack = x :: .name n :: .dict r :: rest) (hr : r < v.heap.size) :
    (bPut v).1.dictGet r n = some x := by
  rw [put_dict_spec v r n x rest h]
  exact dictGet_dictPut_self _ r n x hr

theorem begin_spec (v : VM) (r : Nat) (rest : List Obj) (h : v.stack = .dict r :: rest)
    (hd : v.dictStack.length < 20) :
    bBegin v = ({ v with stack := rest, dictStack := r :: v.dictStack, dictGhost := v.dictGhost.tail }, .ok) := by
  unfold bBegin
  rw [h]
  have h1 : ¬ v.dictStack.length ≥ maxDictStackDepth := by unfold maxDictStackDepth; omega
  simp only [h1, if_false, okRes]

theorem end_spec (v : VM) (d : Nat) (ds : List Nat) (hd : v.dictStack = d :: ds) (hl : 2 ≤ ds.length) :
    bEnd v = ({ v with dictStack := ds, dictGhost := d :: v.dictGhost }, .ok) := by
  unfold bEnd
  rw [hd]
  have h1 : ¬ (d :: ds).length ≤ 2 := by simp only [List.length_cons]; omega
  simp only [h1, if_false, okRes, List.tail_cons]
  rfl

theorem currentdict_spec (v : VM) (d : Nat) (ds : List Nat) (hd : v.dictStack = d :: ds) :
    bCurrentdict v = ({ v with stack := .dict d :: v.stack }, .ok) := by
  unfold bCurrentdict
  conv => lhs; rw [hd]
  rfl

/-- `d begin … end` restores the dictionary stack -/
theorem begin_end (v : VM) (r : Nat) (rest : List Obj) (h : v.stack = .dict r :: rest)
    (h2 : 2 ≤ v.dictStack.length) (hd : v.dictStack.length < 20) :
    (bEnd (bBegin v).1).1.dictStack = v.dictStack ∧ (bEnd (bBegin v).1).2 = .ok := by
  rw [begin_spec v r rest h hd]
  rw [end_spec _ r v.dictStack rfl h2]
  exact ⟨rfl, rfl⟩

/-- `where` returns the topmost dictionary on the dictionary stack that has the key -/
theorem where_found (v : VM) (n : Name) (rest : List Obj) (pre post : List Nat) (d : Nat)
    (h : v.stack = .name n :: rest)
    (hd : v.dictStack = pre ++ d :: post) (hpre : ∀ r ∈ pre, v.dictGet r n = none)
    (hx : (v.dictGet d n).isSome) :
    bWhere v = ({ v with stack := .bool true :: .dict d :: rest }, .ok) := by
  unfold bWhere
  rw [h]
  have : v.dictStack.find? (fun r => (v.dictGet r n).isSome) = some d := by
    rw [hd]
    clear hd
    induction pre with
    | nil => simp [hx]
    | cons p pre ih =>
      have hp := hpre p List.mem_cons_self
      simp only [List.cons_append, List.find?_cons, hp, Option.isSome_none]
      exact ih (fun r hr => hpre r (List.mem_cons_of_mem _ hr))
  simp only [this, okRes]

theorem where_not_found (v : VM) (n : Name) (rest : List Obj) (h : v.stack = .name n :: rest)
    (hn : ∀ r ∈ v.dictStack, v.dictGet r n = none) :
    bWhere v = ({ v with stack := .bool false :: rest }, .ok) := by
  unfold bWhere
  rw [h]
  have : v.dictStack.find? (fun r => (v.dictGet r n).isSome) = none := by
    rw [List.find?_eq_none]
    intro r hr
    simp [hn r hr]
  simp only [this, okRes]

theorem maxlength_spec (v : VM) (r : Nat) (rest : List Obj) (h : v.stack = .dict r :: rest) :
    bMaxlength v = ({ v with stack := .int ((v.getDict r).length + 1) :: rest }, .ok) := by
  unfold bMaxlength; rw [h]; rfl

/-! ## `length` -/

theorem length_arr (v : VM) (r o l : Nat) (rest : List Obj) (h : v.stack = .arr r o l :: rest) :
    bLength v = ({ v with stack := .int l :: rest }, .ok) := by unfold bLength; rw [h]; rfl
theorem length_proc (v : VM) (r o l : Nat) (rest : List Obj) (h : v.stack = .proc r o l :: rest) :
    bLength v = ({ v with stack := .int l :: rest }, .ok) := by unfold bLength; rw [h]; rfl
theorem length_str (v : VM) (r o l : Nat) (rest : List Obj) (h : v.stack = .str r o l :: rest) :
    bLength v = ({ v with stack := .int l :: rest }, .ok) := by unfold bLength; rw [h]; rfl
theorem length_dict (v : VM) (r : Nat) (rest : List Obj) (h : v.stack = .dict r :: rest) :
    bLength v = ({ v with stack := .int (v.getDict r).length :: rest }, .ok) := by unfold bLength; rw [h]; rfl
theorem length_name (v : VM) (n : Name) (rest : List Obj) (h : v.stack = .name n :: rest) :
    bLength v = ({ v with stack := .int n.length :: rest }, .ok) := by unfold bLength; rw [h]; rfl

/-! ## views, `writeAt`, `copy`, `putinterval` -/

theorem writeAt_nil {α : Type} (a : Array α) (off : Nat) : writeAt a off [] = a := rfl
theorem writeAt_cons {α : Type} (a : Array α) (off : Nat) (x : α) (xs : List α) :
    writeAt a off (x :: xs) = writeAt (a.setIfInBounds off x) (off + 1) xs := rfl

theorem writeAt_size {α : Type} (vals : List α) : ∀ (a : Array α) (off : Nat), (writeAt a off vals).size = a.size := by
  induction vals with
  | nil => intro a off; rfl
  | cons x xs ih => intro a off; rw [writeAt_cons, ih]; simp

/-- positions outside the written range keep their contents -/
theorem writeAt_outside {α : Type} (vals : List α) :
    ∀ (a : Array α) (off i : Nat), i < off ∨ off + vals.length ≤ i → (writeAt a off vals)[i]? = a[i]? := by
  induction vals with
  | nil => intro a off i _; rfl
  | cons x xs ih =>
    intro a off i hi
    rw [writeAt_cons, ih _ _ _ (by simp only [List.length_cons] at hi; omega)]
    exact Array.getElem?_setIfInBounds_ne (by simp only [List.length_cons] at hi; omega)

/-- positions inside the written range hold the written values -/
theorem writeAt_inside {α : Type} (vals : List α) :
    ∀ (a : Array α) (off j : Nat), j < vals.length → off + j < a.size → (writeAt a off vals)[off + j]? = vals[j]? := by
  induction vals with
  | nil => intro a off j hj; simp at hj
  | cons x xs ih =>
    intro a off j hj hs
    rw [writeAt_cons]
    cases j with
    | zero =>
      show (writeAt (a.setIfInBounds off x) (off + 1) xs)[off]? = _
      rw [writeAt_outside xs _ (off + 1) off (Or.inl (Nat.lt_succ_self off))]
      simp only [List.getElem?_cons_zero]
      exact Array.getElem?_setIfInBounds_self_of_lt hs
    | succ j =>
      have := ih (a.setIfInBounds off x) (off + 1) j (by simpa using hj) (by simp; omega)
      rw [show off + (j + 1) = off + 1 + j by omega, this]
      simp

theorem view_getElem? {α : Type} (a : Array α) (o l i : Nat) :
    ((a.extract o (o + l)).toList)[i]? = if i < l then a[o + i]? else none := by
  rw [Array.toList_extract]
  by_cases h : i < l
  · simp only [h, if_true]
    simp only [List.extract_eq_take_drop, Nat.add_sub_cancel_left]
    rw [List.getElem?_take_of_lt h, List.getElem?_drop, Array.getElem?_toList]
  · simp only [h, if_false]
    simp only [List.extract_eq_take_drop, Nat.add_sub_cancel_left]
    rw [List.getElem?_eq_none]
    simp only [List.length_take]
    omega

theorem viewObjs_getElem? (v : VM) (r o l i : Nat) :
    (v.viewObjs r o l)[i]? = if i < l then (v.getObjs r)[o + i]? else none := view_getElem? _ o l i
theorem viewBytes_getElem? (v : VM) (r o l i : Nat) :
    (v.viewBytes r o l)[i]? = if i < l then (v.getBytes r)[o + i]? else none := view_getElem? _ o l i

theorem view_length {α : Type} (a : Array α) (o l : Nat) (h : o + l ≤ a.size) :
    ((a.extract o (o + l)).toList).length = l := by
  simp only [Array.length_toList, Array.size_extract]
  omega

/-- reading back the range just written gives the written values -/
theorem view_writeAt {α : Type} (a : Array α) (off : Nat) (vals : List α) (h : off + vals.length ≤ a.size) :
    (((writeAt a off vals).extract off (off + vals.length)).toList) = vals := by
  apply List.ext_getElem?
  intro i
  rw [view_getElem?]
  by_cases hi : i < vals.length
  · simp only [hi, if_true]
    exact writeAt_inside vals a off i hi (by omega)
  · simp only [hi, if_false]
    rw [List.getElem?_eq_none (by omega)]

theorem getObjs_setCell_self (v : VM) (r : Nat) (a : Array Obj) (hr : r < v.heap.size) :
    (v.setCell r (.objs a)).getObjs r = a := by
  simp [VM.getObjs, VM.setCell, Array.getElem?_setIfInBounds_self_of_lt hr]
theorem getBytes_setCell_self (v : VM) (r : Nat) (a : Array UInt8) (hr : r < v.heap.size) :
    (v.setCell r (.bytes a)).getBytes r = a := by
  simp [VM.getBytes, VM.setCell, Array.getElem?_setIfInBounds_self_of_lt hr]
theorem getObjs_setCell_other (v : VM) (r r' : Nat) (c : Cell) (hne : r' ≠ r) :
    (v.setCell r c).getObjs r' = v.getObjs r' := by
  simp [VM.getObjs, VM.setCell, Array.getElem?_setIfInBounds_ne (Ne.symm hne)]
theorem getBytes_setCell_other (v : VM) (r r' : Nat) (c : Cell) (hne : r' ≠ r) :
    (v.setCell r c).getBytes r' = v.getBytes r' := by
  simp [VM.getBytes, VM.setCell, Array.getElem?_setIfInBounds_ne (Ne.symm hne)]

/-- a view of the range just written into a store holds the written values -/
theorem viewObjs_after_write (v v' : VM) (r off : Nat) (vals : List Obj)
    (hheap : v'.heap = v.heap.setIfInBounds r (.objs (writeAt (v.getObjs r) off vals)))
    (hr : r < v.heap.size) (hin : off + vals.length ≤ (v.getObjs r).size) :
    v'.viewObjs r off vals.length = vals := by
  have hg : v'.getObjs r = writeAt (v.getObjs r) off vals := by
    unfold VM.getObjs
    rw [hheap, Array.getElem?_setIfInBounds_self_of_lt hr]
    rfl
  unfold VM.viewObjs
  rw [hg]
  exact view_writeAt _ off vals hin
theorem viewBytes_after_write (v v' : VM) (r off : Nat) (vals : List UInt8)
    (hheap : v'.heap = v.heap.setIfInBounds r (.bytes (writeAt (v.getBytes r) off vals)))
    (hr : r < v.heap.size) (hin : off + vals.length ≤ (v.getBytes r).size) :
    v'.viewBytes r off vals.length = vals := by
  have hg : v'.getBytes r = writeAt (v.getBytes r) off vals := by
    unfold VM.getBytes
    rw [hheap, Array.getElem?_setIfInBounds_self_of_lt hr]
    rfl
  unfold VM.viewBytes
  rw [hg]
  exact view_writeAt _ off vals hin

/-- `get` on an array: the element of the view -/
theorem get_arr_spec (v : VM) (r o l i : Nat) (x : Obj) (rest : List Obj)
    (h : v.stack = .int i :: .arr r o l :: rest) (hx : (v.viewObjs r o l)[i]? = some x) :
    bGet v = ({ v with stack := x :: rest }, .ok) := by
  unfold bGet
  rw [h]
  rw [viewObjs_getElem?] at hx
  have hi : i < l := by
    rcases Nat.lt_or_ge i l with h1 | h1
    · exact h1
    · rw [if_neg (by omega)] at hx; cases hx
  rw [if_pos hi] at hx
  have h1 : ¬ ((i : Int) < 0 ∨ (i : Int) ≥ l) := by omega
  simp only [h1, if_false, Int.toNat_natCast, hx, VM.push, okRes]

/-- `get` on a string: the byte of the view, as an integer -/
theorem get_str_spec (v : VM) (r o l i : Nat) (b : UInt8) (rest : List Obj)
    (h : v.stack = .int i :: .str r o l :: rest) (hx : (v.viewBytes r o l)[i]? = some b) :
    bGet v = ({ v with stack := .int b.toNat :: rest }, .ok) := by
  unfold bGet
  rw [h]
  rw [viewBytes_getElem?] at hx
  have hi : i < l := by
    rcases Nat.lt_or_ge i l with h1 | h1
    · exact h1
    · rw [if_neg (by omega)] at hx; cases hx
  rw [if_pos hi] at hx
  have h1 : ¬ ((i : Int) < 0 ∨ (i : Int) ≥ l) := by omega
  simp only [h1, if_false, Int.toNat_natCast, hx, VM.push, okRes]

/-- `copy` of an array into another: the result is the initial sub-view of the destination,
sharing the destination's store -/
theorem copy_arr_spec (v : VM) (r o l r2 o2 l2 : Nat) (rest : List Obj)
    (h : v.stack = .arr r2 o2 l2 :: .arr r o l :: rest) (hl : l ≤ l2) :
    bCopy v = ({ v with stack := .arr r2 o2 l :: rest,
                        heap := v.heap.setIfInBounds r2 (.objs (writeAt (v.getObjs r2) o2 (v.viewObjs r o l))) }, .ok) := by
  unfold bCopy
  rw [h]
  have h1 : ¬ l2 < l := by omega
  simp only [h1, if_false, okRes, VM.push, VM.setCell]

/-- … and that sub-view now holds the source's elements -/
theorem copy_arr_contents (v : VM) (r o l r2 o2 l2 : Nat) (rest : List Obj)
    (h : v.stack = .arr r2 o2 l2 :: .arr r o l :: rest) (hl : l ≤ l2)
    (hr2 : r2 < v.heap.size) (hsrc : o + l ≤ (v.getObjs r).size) (hdst : o2 + l2 ≤ (v.getObjs r2).size) :
    (bCopy v).1.viewObjs r2 o2 l = v.viewObjs r o l := by
  rw [copy_arr_spec v r o l r2 o2 l2 rest h hl]
  have hlen : (v.viewObjs r o l).length = l := view_length _ o l hsrc
  have := fun v' hh => viewObjs_after_write v v' r2 o2 (v.viewObjs r o l) hh hr2 (by rw [hlen]; omega)
  rw [hlen] at this
  exact this _ rfl

theorem copy_str_spec (v : VM) (r o l r2 o2 l2 : Nat) (rest : List Obj)
    (h : v.stack = .str r2 o2 l2 :: .str r o l :: rest) (hl : l ≤ l2) :
    bCopy v = ({ v with stack := .str r2 o2 l :: rest,
                        heap := v.heap.setIfInBounds r2 (.bytes (writeAt (v.getBytes r2) o2 (v.viewBytes r o l))) }, .ok) := by
  unfold bCopy
  rw [h]
  have h1 : ¬ l2 < l := by omega
  simp only [h1, if_false, okRes, VM.push, VM.setCell]

theorem copy_str_contents (v : VM) (r o l r2 o2 l2 : Nat) (rest : List Obj)
    (h : v.stack = .str r2 o2 l2 :: .str r o l :: rest) (hl : l ≤ l2)
    (hr2 : r2 < v.heap.size) (hsrc : o + l ≤ (v.getBytes r).size) (hdst : o2 + l2 ≤ (v.getBytes r2).size) :
    (bCopy v).1.viewBytes r2 o2 l = v.viewBytes r o l := by
  rw [copy_str_spec v r o l r2 o2 l2 rest h hl]
  have hlen : (v.viewBytes r o l).length = l := view_length _ o l hsrc
  have := fun v' hh => viewBytes_after_write v v' r2 o2 (v.viewBytes r o l) hh hr2 (by rw [hlen]; omega)
  rw [hlen] at this
  exact this _ rfl

/-- `putinterval` writes through to the destination's store -/
theorem putinterval_arr_spec (v : VM) (r o l r2 o2 l2 i : Nat) (rest : List Obj)
    (h : v.stack = .arr r2 o2 l2 :: .int i :: .arr r o l :: rest) (hi : i + l2 ≤ l) :
    bPutinterval v = ({ v with stack := rest,
                               heap := v.heap.setIfInBounds r (.objs (writeAt (v.getObjs r) (o + i) (v.viewObjs r2 o2 l2))) }, .ok) := by
  unfold bPutinterval
  rw [h]
  have h1 : ¬ (i : Int) < 0 := by omega
  have h2 : ¬ (i : Int) > (l : Int) - l2 := by omega
  simp only [h1, h2, if_false, okRes, VM.setCell, Int.toNat_natCast]

/-- … so that the sub-view `[i, i + l2)` of the destination, and hence the corresponding part of
every view of the same store, holds the source's elements -/
theorem putinterval_arr_contents (v : VM) (r o l r2 o2 l2 i : Nat) (rest : List Obj)
    (h : v.stack = .arr r2 o2 l2 :: .int i :: .arr r o l :: rest) (hi : i + l2 ≤ l)
    (hr : r < v.heap.size) (hsrc : o2 + l2 ≤ (v.getObjs r2).size) (hdst : o + l ≤ (v.getObjs r).size) :
    (bPutinterval v).1.viewObjs r (o + i) l2 = v.viewObjs r2 o2 l2 := by
  rw [putinterval_arr_spec v r o l r2 o2 l2 i rest h hi]
  have hlen : (v.viewObjs r2 o2 l2).length = l2 := view_length _ o2 l2 hsrc
  have := fun v' hh => viewObjs_after_write v v' r (o + i) (v.viewObjs r2 o2 l2) hh hr (by rw [hlen]; omega)
  rw [hlen] at this
  exact this _ rfl

theorem putinterval_str_spec (v : VM) (r o l r2 o2 l2 i : Nat) (rest : List Obj)
    (h : v.stack = .str r2 o2 l2 :: .int i :: .str r o l :: rest) (hi : i + l2 ≤ l) :
    bPutinterval v = ({ v with stack := rest,
                               heap := v.heap.setIfInBounds r (.bytes (writeAt (v.getBytes r) (o + i) (v.viewBytes r2 o2 l2))) }, .ok) := by
  unfold bPutinterval
  rw [h]
  have h1 : ¬ (i : Int) < 0 := by omega
  have h2 : ¬ (i : Int) > (l : Int) - l2 := by omega
  simp only [h1, h2, if_false, okRes, VM.setCell, Int.toNat_natCast]

theorem putinterval_str_contents (v : VM) (r o l r2 o2 l2 i : Nat) (rest : List Obj)
    (h : v.stack = .str r2 o2 l2 :: .int i :: .str r o l :: rest) (hi : i + l2 ≤ l)
    (hr : r < v.heap.size) (hsrc : o2 + l2 ≤ (v.getBytes r2).size) (hdst : o + l ≤ (v.getBytes r).size) :
    (bPutinterval v).1.viewBytes r (o + i) l2 = v.viewBytes r2 o2 l2 := by
  rw [putinterval_str_spec v r o l r2 o2 l2 i rest h hi]
  have hlen : (v.viewBytes r2 o2 l2).length = l2 := view_length _ o2 l2 hsrc
  have := fun v' hh => viewBytes_after_write v v' r (o + i) (v.viewBytes r2 o2 l2) hh hr (by rw [hlen]; omega)
  rw [hlen] at this
  exact this _ rfl

/-- the string version of `getinterval_view` -/
theorem getinterval_str_view (v : VM) (r o n : Nat) (i c : Nat) (rest : List Obj)
    (h : v.stack = .int c :: .int i :: .str r o n :: rest) (hi : i ≤ n) (hc : c ≤ n - i) :
    bGetinterval v = ({ v with stack := .str r (o + i) c :: rest }, .ok) := by
  unfold bGetinterval
  rw [h]
  have h1 : ¬ ((i : Int) < 0 ∨ (i : Int) > n) := by omega
  have h2 : ¬ ((c : Int) < 0 ∨ (c : Int) > (n : Int) - i) := by omega
  simp only [h1, h2, if_false, okRes, Int.toNat_natCast]

/-! ## a few more positive cases -/

/-- witnesses: `minint -1 mul` and `2^32 2^32 mul` are promoted to reals, `-3 5 mul` is exact -/
example : bMul { newVM with stack := [.int (-1), .int minInt64] } =
    ({ newVM with stack := [.real (fmul (realOfInt minInt64) (realOfInt (-1)))] }, .ok) := by
  rw [mul_exact _ minInt64 (-1) [] (by decide) (by decide) rfl]; rfl
example : bMul { newVM with stack := [.int 4294967296, .int 4294967296] } =
    ({ newVM with stack := [.real (fmul (realOfInt 4294967296) (realOfInt 4294967296))] }, .ok) := by
  rw [mul_exact _ 4294967296 4294967296 [] (by decide) (by decide) rfl]; rfl
example : bMul { newVM with stack := [.int 5, .int (-3)] } = ({ newVM with stack := [.int (-15)] }, .ok) := by
  rw [mul_exact _ (-3) 5 [] (by decide) (by decide) rfl]; rfl

theorem and_int (v : VM) (x y : Int) (rest : List Obj) (h : v.stack = .int y :: .int x :: rest) :
    bAnd v = ({ v with stack := .int (and64 x y) :: rest }, .ok) := by unfold bAnd; rw [h]; rfl
theorem or_int (v : VM) (x y : Int) (rest : List Obj) (h : v.stack = .int y :: .int x :: rest) :
    bOr v = ({ v with stack := .int (or64 x y) :: rest }, .ok) := by unfold bOr; rw [h]; rfl
/-- `not` on an integer is the one's complement -/
theorem not_int (v : VM) (x : Int) (rest : List Obj) (h : v.stack = .int x :: rest) :
    bNot v = ({ v with stack := .int (-x - 1) :: rest }, .ok) := by unfold bNot; rw [h]; rfl
theorem ne_int_exact (v : VM) (a b : Int) (rest : List Obj) (hst : v.stack = .int b :: .int a :: rest) :
    bNe v = ({ v with stack := .bool (!(a == b)) :: rest }, .ok) := by
  unfold bNe bEqNe
  rw [hst]
  simp [equalObjs, VM.push, okRes]
/-- two dictionaries are `eq` exactly when they are the same object -/
theorem eq_dict (v : VM) (a b : Nat) (rest : List Obj) (hst : v.stack = .dict b :: .dict a :: rest) :
    bEq v = ({ v with stack := .bool (a == b) :: rest }, .ok) := by
  unfold bEq bEqNe
  rw [hst]
  simp [equalObjs, VM.push, okRes]

/-- booleans are `eq` exactly when they have the same value (PLRM: simple objects compare by value) -/
theorem eq_bool (v : VM) (a b : Bool) (rest : List Obj) (hst : v.stack = .bool b :: .bool a :: rest) :
    bEq v = ({ v with stack := .bool (a == b) :: rest }, .ok) := by
  unfold bEq bEqNe
  rw [hst]
  simp [equalObjs, normalize, VM.push, okRes]
/-- a boolean is never `eq` to a number, a string or a name -/
theorem eq_bool_other (v : VM) (a : Bool) (b : Obj) (rest : List Obj) (hst : v.stack = b :: .bool a :: rest)
    (hb : (∃ n, b = .int n) ∨ (∃ x, b = .real x) ∨ (∃ n, b = .name n) ∨ (∃ r o l, b = .str r o l)) :
    bEq v = ({ v with stack := .bool false :: rest }, .ok) := by
  unfold bEq bEqNe
  rw [hst]
  rcases hb with ⟨n, rfl⟩ | ⟨x, rfl⟩ | ⟨n, rfl⟩ | ⟨r, o, l, rfl⟩ <;> simp [equalObjs, normalize, VM.push, okRes]

/-- two non-empty arrays are `eq` exactly when they are the same composite object: same store, same start, same
    length (PLRM: composite objects are equal only if they share the same value); empty arrays are all equal -/
theorem eq_array (v : VM) (r o l r' o' l' : Nat) (rest : List Obj)
    (hst : v.stack = .arr r' o' l' :: .arr r o l :: rest) (hl : 0 < l) :
    bEq v = ({ v with stack := .bool (r == r' && o == o' && l == l') :: rest }, .ok) := by
  unfold bEq bEqNe
  rw [hst]
  have h0 : l ≠ 0 := by omega
  by_cases h1 : l' = 0
  · subst h1
    have : (l == 0) = false := by simpa using h0
    simp [equalObjs, normalize, VM.push, okRes, h0, this]
  · simp [equalObjs, normalize, VM.push, okRes, h0, h1]
theorem eq_array_self (v : VM) (r o l : Nat) (rest : List Obj)
    (hst : v.stack = .arr r o l :: .arr r o l :: rest) :
    bEq v = ({ v with stack := .bool true :: rest }, .ok) := by
  unfold bEq bEqNe
  rw [hst]
  by_cases h0 : l = 0 <;> simp [equalObjs, normalize, VM.push, okRes, h0]
theorem eq_proc_self (v : VM) (r o l : Nat) (rest : List Obj)
    (hst : v.stack = .proc r o l :: .proc r o l :: rest) :
    bEq v = ({ v with stack := .bool true :: rest }, .ok) := by
  unfold bEq bEqNe
  rw [hst]
  by_cases h0 : l = 0 <;> simp [equalObjs, normalize, VM.push, okRes, h0]
theorem eq_mark (v : VM) (rest : List Obj) (hst : v.stack = .mark :: .mark :: rest) :
    bEq v = ({ v with stack := .bool true :: rest }, .ok) := by
  unfold bEq bEqNe
  rw [hst]
  simp [equalObjs, normalize, VM.push, okRes]

/-- `copy` on dictionaries inserts the source's entries into the destination, which is returned -/
theorem copy_dict_spec (v : VM) (r r2 : Nat) (rest : List Obj) (h : v.stack = .dict r2 :: .dict r :: rest) :
    bCopy v = ({ v with stack := .dict r2 :: rest,
                        heap := v.heap.setIfInBounds r2 (.dict ((v.getDict r).foldl
                          (fun acc kv => dictInsert acc kv.1 kv.2) (v.getDict r2))) }, .ok) := by
  unfold bCopy; rw [h]; rfl

/-- `put` into a string stores the low byte at the view's position in the shared store -/
theorem put_str_spec (v : VM) (r o l i c : Nat) (rest : List Obj)
    (h : v.stack = .int c :: .int i :: .str r o l :: rest) (hi : i < l) (hc : c ≤ 255) :
    bPut v = ({ v with stack := rest,
                       heap := v.heap.setIfInBounds r (.bytes ((v.getBytes r).setIfInBounds (o + i) (UInt8.ofNat c))) }, .ok) := by
  unfold bPut
  rw [h]
  have h1 : ¬ ((i : Int) < 0 ∨ (i : Int) ≥ l) := by omega
  have h2 : ¬ ((c : Int) < 0 ∨ (c : Int) > 255) := by omega
  simp only [h1, h2, if_false, okRes, VM.setCell, Int.toNat_natCast]

/-- `put` into an array view -/
theorem put_arr_spec (v : VM) (r o l i : Nat) (x : Obj) (rest : List Obj)
    (h : v.stack = x :: .int i :: .arr r o l :: rest) (hi : i < l) :
    bPut v = ({ v with stack := rest,
                       heap := v.heap.setIfInBounds r (.objs ((v.getObjs r).setIfInBounds (o + i) x)) }, .ok) := by
  unfold bPut
  rw [h]
  have h1 : ¬ ((i : Int) < 0 ∨ (i : Int) ≥ l) := by omega
  simp only [h1, if_false, okRes, VM.setCell, Int.toNat_natCast]

/-- the category entry exists but is not a dictionary -/
theorem defineresource_undefined_nondict (v : VM) (inst catv : Obj) (c k : Name) (rest : List Obj)
    (h : v.stack = .name c :: inst :: .name k :: rest)
    (hc : dictLookup (v.getDict v.roots.resources) c = some catv) (hnd : ∀ d, catv ≠ .dict d) :
    (bDefineresource v).2 = .err (.ps "undefined") := by
  unfold bDefineresource
  rw [h]
  simp only [VM.dictGet, hc]
  cases catv <;> first | rfl | exact absurd rfl (hnd _)

#print axioms mul_exact
#print axioms roll_typecheck_amount
#print axioms get_rangecheck
#print axioms dictLookup_insert_other
#print axioms dictEnd_spec
#print axioms copy_arr_contents
#print axioms putinterval_arr_contents
#print axioms where_found
#print axioms type_spec

end PsVerif.Props.C02
