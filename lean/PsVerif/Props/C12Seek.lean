import PsVerif.Model.PeekSeek
import PsVerif.Props.C12
/-!
# C12 — the seekable branch of `peek` (`type1/peekreader.go`)

"... whether or not the underlying reader supports seeking."

`Props/C12.lean` has the buffered branch (`peek_same_stream`, `peek_fails_only_with_reader`,
`peek_equiv`); the branch for an `io.ReadSeeker` was only mentioned in a comment there.  Here
it is a model (`Model/PeekSeek.lean`) and the same statement is proved of it: `peek` hands back
`(head, source)` where the stream the caller reads from `source` is the stream it would have
read without the peek, and `head` is its first `n` bytes (fewer at the end of the data).

Quantifier: every container `data`, every offset `pos` of the source inside it (the theorems
do not even need `pos ≤ data.length`: behind the end the stream is empty before and after),
every `n`, every short-read schedule of the source's `Read` (any finite number of short and
`(0, nil)` answers).  Excluded: a `Read` failing with an error other than `io.EOF` (returned
unchanged, the same line as in the buffered branch), a `Seek` that works the first time and
fails the second (then `peek` returns the error: `PeekRes.error`, unreachable in the model).

The seeded defect "rewind to offset 0 instead of to `pos`" is `peekSeekableRewindZero`;
`rewind_zero_differs` shows every source with `0 < pos ≤ data.length` exposes it and
`rewind_zero_same_at_start` that no source with `pos = 0` (a plain font file) does.
-/

namespace PsVerif.Props.C12

open PsVerif.Model.PeekSeek

theorem take_split (l : List UInt8) (m need : Nat) (h : m ≤ need) :
    l.take m ++ (l.drop (l.take m).length).take (need - (l.take m).length) = l.take need := by
  induction l generalizing m need with
  | nil => simp
  | cons a t ih =>
    cases m with
    | zero => simp
    | succ m =>
      cases need with
      | zero => omega
      | succ need =>
        have := ih m need (by omega)
        simp only [List.take_succ_cons, List.length_cons, List.drop_succ_cons, List.cons_append,
          Nat.add_sub_add_right]
        rw [this]

/-- what the loop returns -/
structure LoopSpec (s : SeekSrc) (need : Nat) (acc : List UInt8)
    (res : List UInt8 × Bool × SeekSrc) : Prop where
  bytes : res.1 = acc ++ (s.data.drop s.pos).take need
  data : res.2.2.data = s.data
  pos : res.2.2.pos = s.pos + ((s.data.drop s.pos).take need).length
  works : res.2.2.seekWorks = s.seekWorks

theorem read_spec (s : SeekSrc) (k : Nat) (hk : k ≠ 0) :
    (s.data.length ≤ s.pos ∧ s.read k = ([], true, s)) ∨
    (s.pos < s.data.length ∧ ∃ m, m ≤ k ∧ (s.sched = [] → m = k) ∧
      s.read k = ((s.data.drop s.pos).take m, false,
        { s with pos := s.pos + ((s.data.drop s.pos).take m).length, sched := s.sched.tail })) := by
  unfold SeekSrc.read
  rw [if_neg hk]
  by_cases h : s.data.length ≤ s.pos
  · left; exact ⟨h, by rw [if_pos h]⟩
  · right
    refine ⟨by omega, ?_⟩
    rw [if_neg h]
    cases hsc : s.sched with
    | nil => exact ⟨k, Nat.le_refl _, fun _ => rfl, rfl⟩
    | cons c rest => exact ⟨min c k, Nat.min_le_right _ _, fun h => (by cases h), rfl⟩

theorem spec_stop (s : SeekSrc) (need : Nat) (acc : List UInt8) (b : Bool)
    (h : need = 0 ∨ s.data.length ≤ s.pos) : LoopSpec s need acc (acc, b, s) := by
  have : (s.data.drop s.pos).take need = [] := by
    cases h with
    | inl h => subst h; simp
    | inr h => rw [List.drop_eq_nil_of_le h]; simp
  constructor <;> simp [this]

theorem spec_step (s : SeekSrc) (need m : Nat) (acc : List UInt8) (sc : List Nat) (hm : m ≤ need)
    (res : List UInt8 × Bool × SeekSrc)
    (h : LoopSpec { s with pos := s.pos + ((s.data.drop s.pos).take m).length, sched := sc }
      (need - ((s.data.drop s.pos).take m).length) (acc ++ (s.data.drop s.pos).take m) res) :
    LoopSpec s need acc res := by
  have key := take_split (s.data.drop s.pos) m need hm
  rw [List.drop_drop] at key
  obtain ⟨hb, hd, hp, hw⟩ := h
  simp only at hb hd hp hw
  refine ⟨?_, hd, ?_, hw⟩
  · rw [hb, List.append_assoc, key]
  · rw [hp, ← key, List.length_append]; omega

theorem loop_end (fuel : Nat) (s : SeekSrc) (need : Nat) (acc : List UInt8) (hf : 1 ≤ fuel)
    (h : need = 0 ∨ s.data.length ≤ s.pos) : LoopSpec s need acc (readFullLoop fuel s need acc) := by
  obtain ⟨f, rfl⟩ : ∃ f, fuel = f + 1 := ⟨fuel - 1, by omega⟩
  unfold readFullLoop
  by_cases hn : need = 0
  · rw [if_pos hn]; exact spec_stop s need acc false (Or.inl hn)
  · rw [if_neg hn]
    have hle : s.data.length ≤ s.pos := by cases h with | inl h => exact absurd h hn | inr h => exact h
    rcases read_spec s need hn with ⟨_, hr⟩ | ⟨hlt, _⟩
    · rw [hr]; simp only [if_true, List.append_nil]; exact spec_stop s need acc true (Or.inr hle)
    · omega

theorem loop_spec : ∀ (l : List Nat) (fuel : Nat) (s : SeekSrc) (need : Nat) (acc : List UInt8),
    s.sched = l → l.length + 2 ≤ fuel → LoopSpec s need acc (readFullLoop fuel s need acc) := by
  intro l
  induction l with
  | nil =>
    intro fuel s need acc hs hf
    obtain ⟨f, rfl⟩ : ∃ f, fuel = f + 1 := ⟨fuel - 1, by simp at hf; omega⟩
    unfold readFullLoop
    by_cases hn : need = 0
    · rw [if_pos hn]; exact spec_stop s need acc false (Or.inl hn)
    · rw [if_neg hn]
      rcases read_spec s need hn with ⟨hle, hr⟩ | ⟨hlt, m, hm, hfull, hr⟩
      · rw [hr]; simp only [if_true, List.append_nil]; exact spec_stop s need acc true (Or.inr hle)
      · rw [hr]
        simp only [Bool.false_eq_true, if_false]
        apply spec_step s need m acc s.sched.tail hm
        apply loop_end f _ _ _ (by simp at hf; omega)
        have := hfull hs
        subst this
        simp only [List.length_take, List.length_drop]
        omega
  | cons c rest ih =>
    intro fuel s need acc hs hf
    obtain ⟨f, rfl⟩ : ∃ f, fuel = f + 1 := ⟨fuel - 1, by simp at hf; omega⟩
    unfold readFullLoop
    by_cases hn : need = 0
    · rw [if_pos hn]; exact spec_stop s need acc false (Or.inl hn)
    · rw [if_neg hn]
      rcases read_spec s need hn with ⟨hle, hr⟩ | ⟨hlt, m, hm, _, hr⟩
      · rw [hr]; simp only [if_true, List.append_nil]; exact spec_stop s need acc true (Or.inr hle)
      · rw [hr]
        simp only [Bool.false_eq_true, if_false]
        apply spec_step s need m acc s.sched.tail hm
        apply ih f _ _ _ (by simp [hs]) (by simp at hf; omega)

theorem readFull_spec (s : SeekSrc) (n : Nat) :
    (s.readFull n).1 = (s.data.drop s.pos).take n ∧ (s.readFull n).2.2.data = s.data ∧
      (s.readFull n).2.2.seekWorks = s.seekWorks := by
  have h := loop_spec s.sched (s.sched.length + 2) s n [] rfl (Nat.le_refl _)
  unfold SeekSrc.readFull
  generalize readFullLoop (s.sched.length + 2) s n [] = res at h
  obtain ⟨got, e, s'⟩ := res
  obtain ⟨hb, hd, _, hw⟩ := h
  simp only [List.nil_append] at hb hd hw
  simp only
  split
  · exact ⟨hb, hd, hw⟩
  · split <;> exact ⟨hb, hd, hw⟩

/-- the source `peek` hands back after a successful `Seek(target, io.SeekStart)` -/
theorem peek_seekable_result (s : SeekSrc) (n : Nat) (hw : s.seekWorks = true) :
    peekSeekable s n = .ok ((s.data.drop s.pos).take n) { (s.readFull n).2.2 with pos := s.pos } ∧
    peekSeekableRewindZero s n =
      .ok ((s.data.drop s.pos).take n) { (s.readFull n).2.2 with pos := 0 } := by
  obtain ⟨hb, _, hw'⟩ := readFull_spec s n
  unfold peekSeekable peekSeekableRewindZero SeekSrc.seekCurrent
  rw [if_pos hw]
  generalize s.readFull n = res at hb hw'
  obtain ⟨got, err, s1⟩ := res
  simp only at hb hw'
  have hw1 : s1.seekWorks = true := by rw [hw', hw]
  subst hb
  rcases err with _ | _ | _ <;> simp [SeekSrc.seekStart, hw1]

/-! ### the statements -/

/-- **seekable branch, same stream.**  When `Seek` works, `peek(r, n)` returns `ok (head, s')`
with `head` the first `n` bytes of the stream at the offset the source was handed over with
(fewer at the end of the data) and `s'` the same container at the same offset: the stream read
afterwards, `s'.stream = s'.data.drop s'.pos`, is the stream `s.stream` that would have been
read without the peek.  For every short-read schedule of the source. -/
theorem peek_seekable_same_stream (s : SeekSrc) (n : Nat) (hw : s.seekWorks = true) :
    ∃ s', peekSeekable s n = .ok ((s.data.drop s.pos).take n) s' ∧
      s'.pos = s.pos ∧ s'.data = s.data ∧ s'.seekWorks = true ∧
      s'.stream = s.stream ∧ (s.data.drop s.pos).take n = s.stream.take n := by
  obtain ⟨_, hd, hw'⟩ := readFull_spec s n
  refine ⟨_, (peek_seekable_result s n hw).1, rfl, hd, ?_, ?_, rfl⟩
  · show (s.readFull n).2.2.seekWorks = true
    rw [hw', hw]
  · show List.drop s.pos (s.readFull n).2.2.data = List.drop s.pos s.data
    rw [hd]

/-- the short-read schedule of the source is not observable in the result: same head, same
container, same offset -/
theorem peek_seekable_schedule_independent (s : SeekSrc) (n : Nat) (sc : List Nat)
    (hw : s.seekWorks = true) :
    ∃ s1 s2, peekSeekable s n = .ok (s.stream.take n) s1 ∧
      peekSeekable { s with sched := sc } n = .ok (s.stream.take n) s2 ∧
      s1.stream = s2.stream := by
  obtain ⟨s1, h1, _, _, _, e1, _⟩ := peek_seekable_same_stream s n hw
  obtain ⟨s2, h2, _, _, _, e2, _⟩ := peek_seekable_same_stream { s with sched := sc } n hw
  exact ⟨s1, s2, h1, h2, by rw [e1, e2]; rfl⟩

/-- **fallback.**  A source with a `Seek` method that fails (`seekWorks = false`, a pipe) goes to
`peekBuffered` untouched: no byte was read from it and its offset did not move, so
`peek_same_stream`/`peek_equiv` of `Props/C12.lean` apply to it as to any other reader. -/
theorem peek_seekable_fallback (s : SeekSrc) (n : Nat) (hw : s.seekWorks = false) :
    peekSeekable s n = .fallback s ∧ peekSeekableRewindZero s n = .fallback s := by
  unfold peekSeekable peekSeekableRewindZero SeekSrc.seekCurrent
  simp [hw]

/-- **both branches agree.**  A non-seekable reader `r` (sticky, as in `peek_same_stream`) and a
seekable source `s` delivering the same bytes: the two branches of `peek` return the same
`head`, and the streams read afterwards (through the `peekReader` / from the repositioned
source) are the same, with the reader's own final error. -/
theorem peek_branches_agree (r : Model.Refill.Rd) (s : SeekSrc) (n : Nat)
    (hs : r.sticky = true) (hw : s.seekWorks = true) (hsame : r.delivered.1 = s.stream)
    (head : List UInt8) (p : Model.Refill.PeekRd) (h : Model.Refill.peek r n = .ok (head, p)) :
    ∃ s', peekSeekable s n = .ok head s' ∧ p.toRd.delivered.1 = s'.stream ∧
      p.toRd.delivered.2 = r.delivered.2 := by
  obtain ⟨hd, hh, _⟩ := peek_same_stream r n hs head p h
  obtain ⟨s', h1, _, _, _, e1, e2⟩ := peek_seekable_same_stream s n hw
  refine ⟨s', ?_, ?_, ?_⟩
  · rw [h1, e2, hh, hsame]
  · rw [hd, hsame, e1]
  · rw [hd]

/-- the seeded variant always hands back the source at offset 0: the stream read afterwards is
the whole container -/
theorem rewind_zero_pos (s : SeekSrc) (n : Nat) (hw : s.seekWorks = true) :
    ∃ s', peekSeekableRewindZero s n = .ok ((s.data.drop s.pos).take n) s' ∧
      s'.pos = 0 ∧ s'.data = s.data ∧ s'.stream = s.data := by
  obtain ⟨_, hd, _⟩ := readFull_spec s n
  refine ⟨_, (peek_seekable_result s n hw).2, rfl, hd, ?_⟩
  show List.drop 0 (s.readFull n).2.2.data = s.data
  rw [hd]; rfl

/-- **the seeded defect is visible** for every source that does not start at offset 0 of its
container: the head is still right, but the stream handed back is `data`, not `data.drop pos` -/
theorem rewind_zero_differs (s : SeekSrc) (n : Nat) (hw : s.seekWorks = true)
    (hp0 : 0 < s.pos) (hp : s.pos ≤ s.data.length) :
    ∃ s', peekSeekableRewindZero s n = .ok (s.stream.take n) s' ∧
      s'.pos = 0 ∧ s'.stream = s.data ∧ s'.stream ≠ s.stream := by
  obtain ⟨s', h, h0, _, hst⟩ := rewind_zero_pos s n hw
  refine ⟨s', h, h0, hst, ?_⟩
  intro heq
  have := congrArg List.length heq
  rw [hst] at this
  simp only [SeekSrc.stream, List.length_drop] at this
  omega

/-- ... and invisible at offset 0 (a font in a file of its own), which is why a test on plain
files does not see it -/
theorem rewind_zero_same_at_start (s : SeekSrc) (n : Nat) (h0 : s.pos = 0) :
    peekSeekableRewindZero s n = peekSeekable s n := by
  cases hw : s.seekWorks with
  | false => rw [(peek_seekable_fallback s n hw).1, (peek_seekable_fallback s n hw).2]
  | true => rw [(peek_seekable_result s n hw).1, (peek_seekable_result s n hw).2, h0]

/-! ### non-vacuity -/

/-- `JUNK%!PS-A`: a font (`%!PS-A`) at offset 4 of a container, read in pieces of 1, 0 and 3 -/
def exSrc : SeekSrc :=
  { data := [74, 85, 78, 75, 37, 33, 80, 83, 45, 65], pos := 4, sched := [1, 0, 3] }

/-- the real code: head `%!`, source back at offset 4, stream `%!PS-A` -/
example : peekSeekable exSrc 2 = .ok [37, 33] { exSrc with sched := [] } := by decide
example : ∃ s', peekSeekable exSrc 2 = .ok [37, 33] s' ∧ s'.stream = [37, 33, 80, 83, 45, 65] :=
  ⟨{ exSrc with sched := [] }, by decide, by decide⟩

/-- the seeded variant: same head, but the stream handed back starts with `JUNK` -/
example : ∃ s₁ s₂, peekSeekable exSrc 2 = .ok [37, 33] s₁ ∧
    peekSeekableRewindZero exSrc 2 = .ok [37, 33] s₂ ∧
    s₁.stream = [37, 33, 80, 83, 45, 65] ∧
    s₂.stream = [74, 85, 78, 75, 37, 33, 80, 83, 45, 65] ∧ s₁.stream ≠ s₂.stream :=
  ⟨{ exSrc with sched := [] }, { exSrc with pos := 0, sched := [] },
    by decide, by decide, by decide, by decide, by decide⟩

/-- the hypotheses of `rewind_zero_differs` hold for it -/
example : exSrc.seekWorks = true ∧ 0 < exSrc.pos ∧ exSrc.pos ≤ exSrc.data.length := by decide

/-- at offset 0 the two agree -/
example : peekSeekableRewindZero { exSrc with pos := 0 } 2 = peekSeekable { exSrc with pos := 0 } 2 ∧
    peekSeekable { exSrc with pos := 0 } 2 = .ok [74, 85] { exSrc with pos := 0, sched := [] } := by
  decide

/-- fewer than `n` bytes left (`io.ErrUnexpectedEOF`), none left (`io.EOF`), `n = 0` -/
example : peekSeekable exSrc 9 = .ok [37, 33, 80, 83, 45, 65] { exSrc with sched := [] } := by decide
example : (exSrc.readFull 9).2.1 = some .unexpectedEOF := by decide
example : peekSeekable { exSrc with pos := 10 } 2 = .ok [] { exSrc with pos := 10 } := by decide
example : ({ exSrc with pos := 10 } : SeekSrc).readFull 2 = ([], some .eof, { exSrc with pos := 10 }) := by
  decide
example : peekSeekable exSrc 0 = .ok [] exSrc := by decide

/-- a pipe: `Seek` fails, the source goes to the buffered branch unmoved -/
example : peekSeekable { exSrc with seekWorks := false } 2 = .fallback { exSrc with seekWorks := false } := by
  decide

/-- `peek_branches_agree` has instances: a reader delivering `%!PS-A` in two chunks -/
example :
    let r : Model.Refill.Rd := { chunks := [⟨[37], none⟩, ⟨[33, 80, 83, 45, 65], none⟩] }
    r.sticky = true ∧ r.delivered.1 = exSrc.stream ∧
      ∃ p, Model.Refill.peek r 2 = .ok ([37, 33], p) :=
  ⟨by decide, by decide, _, rfl⟩

#print axioms peek_seekable_same_stream
#print axioms peek_seekable_schedule_independent
#print axioms peek_seekable_fallback
#print axioms peek_branches_agree
#print axioms rewind_zero_pos
#print axioms rewind_zero_differs
#print axioms rewind_zero_same_at_start

end PsVerif.Props.C12
