import PsVerif.Proofs.Loops
import PsVerif.Proofs.InterpFuel
import PsVerif.Props.C03
/-!
# C03, control-flow part — closed forms of the looping operators

"`if`/`ifelse` run exactly one branch; `for`, `repeat`, `forall` and `loop` run their body the
prescribed number of times with the prescribed control values pushed; `exit` leaves exactly the
innermost enclosing loop and nothing else; `stop` ends the run."

* `if`/`ifelse`: `C03.if_spec`, `C03.ifelse_spec` (one call of `execOne` on the chosen procedure).
* The theorems below hold for **every** number of turns (induction on the number of turns in
  `Proofs/Loops.lean`; nothing is unrolled).  The body is abstract:
  `Runs f0 m p s q` = "executing the procedure object `p` the way the looping operators do
  (`executeOne(p, true)` = `execOne _ m s p true`) from `s` has the outcome `q` for every fuel
  `≥ f0`"; by fuel monotonicity one fuel with a result other than `Res.fuel` is enough
  (`runs_of_one`).  The operation budget `m` (`0` = none) is the same for body and loop, so "no
  turn hits the budget" is part of "the turn ends with `ok`"; a turn that does hit it ends with
  `.err .limit`, which every loop passes on (`stop_propagates_*` with `e := .limit`).
* Two formulations: along a *trace* `σ : Nat → State` of the states between the turns
  (`Loops.repeat_count`, `Loops.for_count_pos`, … — the most general one: the body may do
  something different at every turn), and for a body with a *functional* effect `F` on the
  states of an invariant `Inv` (`repeat_count`, `for_count_pos`, `forall_array_count`, …: the
  final state is an explicit iterate / fold).

## What the model (= the Go code) really does, where the property statement is too optimistic

* **`for` with a real** initial value, increment or limit is a `typecheck`
  (`for_real_typecheck`; `builtin.go`: "TODO(voss): the spec also allows Real values here").
  The "integer and real" part of C03 is false for the code; only integer `for` is characterised.
* **`for` whose control value would leave the `int64` range** used to wrap around and never
  terminate (`0 4611686018427387904 9223372036854775807 {pop} for`: PLRM count 2, the Go code ran
  until the budget).  Repaired in `bFor` (the loop ends when `val + increment` is not an `int`);
  `for_count_pos`/`for_count_neg` now hold for **all** `int64` operands with `increment ≠ 0`, and
  the former witness runs its body exactly twice (`Loops.for_overflow_fixed`, `demo_overflow_for`).
* **`for` with increment 0** never terminates by itself (`for_zero_endless`); the PLRM leaves
  this case open.
* **`forall`** fixes the number of turns at the start but reads element `i` of an array/string
  when turn `i` starts (Go `range` over a slice): a body that stores into a later element sees
  the new value.  The `forall_*_count` theorems assume that the states of the invariant keep
  the traversed elements; `Loops.forallArr_count_gen` is the general statement (element `i`
  read from `σ i`).
* **`forall` over a dictionary** visits the keys in ascending byte order of the names
  (`forall_dict_keys_sorted`; repaired: Go used to range over the map in its unspecified order),
  so the visits do not depend on how the dictionary stores its entries
  (`forall_dict_order_independent`, `forall_dict_same_keys`); each key is looked up again when its
  turn comes (current value; a key removed meanwhile is skipped: `Loops.DictTurn`).
* **`exit`**: the looping operators keep no bookkeeping in the interpreter state, so "leaving the
  loop" is: the operator returns `ok` in exactly the state in which the body's `exit` was
  executed (in particular the control value / element pushed for that turn stays on the stack
  if the body has not consumed it — PLRM behaviour).
-/
namespace PsVerif.Props.C03Loops
open PsVerif.Model PsVerif.Proofs.Loops PsVerif.Proofs.InterpFuel

/-! ### fuel: one sufficient fuel is enough -/

/-- one run with a result other than `fuel` determines the outcome for every larger fuel -/
theorem runs_of_one {f0 m : Nat} {p : Obj} {s : State} {q : State × Res}
    (h : execOne f0 m s p true = q) (hq : q.2 ≠ .fuel) : Runs f0 m p s q := by
  intro f hf
  rw [execOne_fuel_mono hf m s p true (by rw [h]; exact hq), h]

/-- conversely, below the fuel `f0` a run either has the same outcome or runs out of fuel -/
theorem runs_below {f0 m : Nat} {p : Obj} {s : State} {q : State × Res} (h : Runs f0 m p s q)
    (f : Nat) : (execOne f m s p true).2 = .fuel ∨ execOne f m s p true = q := by
  by_cases hq : (execOne f m s p true).2 = .fuel
  · exact Or.inl hq
  · right
    have h1 := execOne_fuel_mono (Nat.le_max_left f f0) m s p true hq
    rw [← h1]
    exact h _ (Nat.le_max_right f f0)

/-! ### `repeat` -/

/-- `F` applied `n` times -/
def iter (F : State → State) : Nat → State → State
  | 0, s => s
  | n + 1, s => F (iter F n s)

/-- **`repeat_count`**: if one run of `p` from any state of `Inv` ends with `ok` in the state
`F s`, again in `Inv`, then `n p repeat` ends with `ok` in `F^[n] s` — for every `n` -/
theorem repeat_count {f0 m : Nat} {p : Obj} (Inv : State → Prop) (F : State → State)
    (hbody : ∀ s, Inv s → Runs f0 m p s (F s, .ok) ∧ Inv (F s))
    (s : State) (hs : Inv s) (n : Nat) :
    ∀ fuel, f0 + n + 1 ≤ fuel → repeatLoop fuel m s n p = (iter F n s, .ok) := by
  have hinv : ∀ i, Inv (iter F i s) := by
    intro i
    induction i with
    | zero => exact hs
    | succ i ih => exact (hbody _ ih).2
  exact PsVerif.Proofs.Loops.repeat_count (fun i => iter F i s) n (fun i _ => (hbody _ (hinv i)).1)

/-- the operator: `… n {…} repeat` with `n ≥ 0` -/
theorem repeat_op_count {f0 m : Nat} (Inv : State → Prop) (F : State → State) (r o l : Nat)
    (hbody : ∀ s, Inv s → Runs f0 m (.proc r o l) s (F s, .ok) ∧ Inv (F s))
    (s : State) (n : Int) (rest : List Obj) (hn : 0 ≤ n)
    (hst : s.vm.stack = .proc r o l :: .int n :: rest) (hs : Inv (setStack s rest)) :
    ∀ fuel, f0 + n.toNat + 2 ≤ fuel →
      callBuiltin fuel m s "repeat" = (iter F n.toNat (setStack s rest), .ok) := by
  intro fuel hf
  obtain ⟨f, rfl⟩ : ∃ f, fuel = f + 1 := ⟨fuel - 1, by omega⟩
  rw [repeat_op f m s r o l n rest hst hn]
  exact repeat_count Inv F hbody _ hs _ f (by omega)

/-! ### `for` -/

/-- the state after `k` turns of a `for` whose turn with control value `v` has the effect `G v` -/
def forIter (G : Int → State → State) (init inc : Int) : Nat → State → State
  | 0, s => s
  | k + 1, s => G (init + (k : Int) * inc) (forIter G init inc k s)

/-- `forIter` is the left fold of the turn effects over the control values
`init, init + inc, …, init + (n-1)·inc` -/
theorem forIter_eq_foldl (G : Int → State → State) (init inc : Int) (n : Nat) (s : State) :
    forIter G init inc n s =
      ((List.range n).map (fun (k : Nat) => init + (k : Int) * inc)).foldl (fun s v => G v s) s := by
  induction n with
  | zero => rfl
  | succ n ih => simp [forIter, List.range_succ, List.foldl_append, ih]

/-- **`for_count`, positive increment**: `initial increment limit p for` runs `p` exactly
`forCount initial increment limit = max 0 (⌊(limit - initial)/increment⌋ + 1)` times, turn `k`
with `initial + k·increment` pushed, for all `int64` operands.  `Inv k` describes the states
before turn `k`. -/
theorem for_count_pos {f0 m : Nat} {p : Obj} (init inc lim : Int) (hinc : 0 < inc)
    (hlo : minInt64 ≤ init) (hinit : init ≤ maxInt64) (hhi : lim ≤ maxInt64)
    (Inv : Nat → State → Prop) (G : Int → State → State)
    (hbody : ∀ k s, k < forCount init inc lim → Inv k s →
      Runs f0 m p (pushS s (.int (init + (k : Int) * inc))) (G (init + (k : Int) * inc) s, .ok) ∧
      Inv (k + 1) (G (init + (k : Int) * inc) s))
    (s : State) (hs : Inv 0 s) :
    ∀ fuel, f0 + forCount init inc lim + 1 ≤ fuel →
      forLoop fuel m s init inc lim p = (forIter G init inc (forCount init inc lim) s, .ok) := by
  have hinv : ∀ i, i ≤ forCount init inc lim → Inv i (forIter G init inc i s) := by
    intro i
    induction i with
    | zero => intro _; exact hs
    | succ i ih => intro hi; exact (hbody i _ (by omega) (ih (by omega))).2
  exact PsVerif.Proofs.Loops.for_count_pos init inc lim hinc hlo hinit hhi (fun i => forIter G init inc i s)
    (fun i hi => (hbody i _ hi (hinv i (by omega))).1)

/-- **`for_count`, negative increment** (`forCount = max 0 (⌊(initial - limit)/(-increment)⌋ + 1)`) -/
theorem for_count_neg {f0 m : Nat} {p : Obj} (init inc lim : Int) (hinc : inc < 0)
    (hhi : init ≤ maxInt64) (hinit : minInt64 ≤ init) (hlo : minInt64 ≤ lim)
    (Inv : Nat → State → Prop) (G : Int → State → State)
    (hbody : ∀ k s, k < forCount init inc lim → Inv k s →
      Runs f0 m p (pushS s (.int (init + (k : Int) * inc))) (G (init + (k : Int) * inc) s, .ok) ∧
      Inv (k + 1) (G (init + (k : Int) * inc) s))
    (s : State) (hs : Inv 0 s) :
    ∀ fuel, f0 + forCount init inc lim + 1 ≤ fuel →
      forLoop fuel m s init inc lim p = (forIter G init inc (forCount init inc lim) s, .ok) := by
  have hinv : ∀ i, i ≤ forCount init inc lim → Inv i (forIter G init inc i s) := by
    intro i
    induction i with
    | zero => intro _; exact hs
    | succ i ih => intro hi; exact (hbody i _ (by omega) (ih (by omega))).2
  exact PsVerif.Proofs.Loops.for_count_neg init inc lim hinc hhi hinit hlo (fun i => forIter G init inc i s)
    (fun i hi => (hbody i _ hi (hinv i (by omega))).1)

/-- the count is the PLRM's: e.g. `0 1 4`, `1 2 6`, `10 -3 -5`, empty ranges, a single turn -/
example : forCount 0 1 4 = 5 ∧ forCount 1 2 6 = 3 ∧ forCount 10 (-3) (-5) = 6 ∧ forCount 5 1 4 = 0
    ∧ forCount 4 (-1) 5 = 0 ∧ forCount 7 3 7 = 1 := by decide

/-- **finding**: a real anywhere among the three numbers of `for` is a `typecheck` -/
theorem for_real_typecheck (f m : Nat) (s : State) (q lim inc ini : Obj) (rest : List Obj)
    (hs : s.vm.stack = q :: lim :: inc :: ini :: rest)
    (h : (∃ b, ini = .real b) ∨ (∃ b, inc = .real b) ∨ (∃ b, lim = .real b)) :
    callBuiltin (f + 1) m s "for" = (s, .err (.ps "typecheck")) := by
  unfold callBuiltin
  simp only [hs]
  rcases h with ⟨b, rfl⟩ | ⟨b, rfl⟩ | ⟨b, rfl⟩
  · simp [psErrS]
  · cases ini <;> simp [psErrS]
  · cases ini <;> cases inc <;> simp [psErrS]

/-! ### `forall` over arrays and strings -/

/-- **`forall_array_count`**: one turn per element, in index order, with the element pushed.
The traversed elements `xs` are those of the view `(r, o, xs.length)`; the states of `Inv` keep
them (`hcell`; without this assumption: `Loops.forallArr_count_gen`). -/
theorem forall_array_count {f0 m : Nat} {p : Obj} (Inv : State → Prop) (G : Obj → State → State)
    (r o : Nat) (xs : List Obj)
    (hcell : ∀ s, Inv s → ∀ i (hi : i < xs.length), (s.vm.getObjs r)[o + i]? = some xs[i])
    (hbody : ∀ s x, Inv s → x ∈ xs → Runs f0 m p (pushS s x) (G x s, .ok) ∧ Inv (G x s))
    (s : State) (hs : Inv s) :
    ∀ fuel, f0 + xs.length + 1 ≤ fuel →
      forallArr fuel m s r o 0 xs.length p = (xs.foldl (fun s x => G x s) s, .ok) := by
  let σ : Nat → State := fun i => (xs.take i).foldl (fun s x => G x s) s
  have hstep : ∀ i (hi : i < xs.length), σ (i + 1) = G xs[i] (σ i) := by
    intro i hi
    simp only [σ, List.take_succ_eq_append_getElem hi, List.foldl_append, List.foldl_cons, List.foldl_nil]
  have hinv : ∀ i, i ≤ xs.length → Inv (σ i) := by
    intro i
    induction i with
    | zero => intro _; exact hs
    | succ i ih =>
      intro hi
      rw [hstep i (by omega)]
      exact (hbody _ _ (ih (by omega)) (List.getElem_mem _)).2
  intro fuel hf
  have key := forallArr_count_gen (f0 := f0) (m := m) (p := p) r o 0 (fun i => xs[i]?.getD .mark) σ xs.length
    (fun i hi => by
      rw [Nat.zero_add, hcell _ (hinv i (by omega)) i hi]
      simp [List.getElem?_eq_getElem hi])
    (fun i hi => by
      rw [hstep i hi]
      simp only [List.getElem?_eq_getElem hi, Option.getD_some]
      exact (hbody _ _ (hinv i (by omega)) (List.getElem_mem _)).1)
    fuel hf
  simpa [σ] using key

/-- **`forall_string_count`**: one turn per byte, in index order, with the byte pushed as an integer -/
theorem forall_string_count {f0 m : Nat} {p : Obj} (Inv : State → Prop) (G : UInt8 → State → State)
    (r o : Nat) (cs : List UInt8)
    (hcell : ∀ s, Inv s → ∀ i (hi : i < cs.length), (s.vm.getBytes r)[o + i]? = some cs[i])
    (hbody : ∀ s c, Inv s → c ∈ cs → Runs f0 m p (pushS s (.int c.toNat)) (G c s, .ok) ∧ Inv (G c s))
    (s : State) (hs : Inv s) :
    ∀ fuel, f0 + cs.length + 1 ≤ fuel →
      forallStr fuel m s r o 0 cs.length p = (cs.foldl (fun s c => G c s) s, .ok) := by
  let σ : Nat → State := fun i => (cs.take i).foldl (fun s c => G c s) s
  have hstep : ∀ i (hi : i < cs.length), σ (i + 1) = G cs[i] (σ i) := by
    intro i hi
    simp only [σ, List.take_succ_eq_append_getElem hi, List.foldl_append, List.foldl_cons, List.foldl_nil]
  have hinv : ∀ i, i ≤ cs.length → Inv (σ i) := by
    intro i
    induction i with
    | zero => intro _; exact hs
    | succ i ih =>
      intro hi
      rw [hstep i (by omega)]
      exact (hbody _ _ (ih (by omega)) (List.getElem_mem _)).2
  intro fuel hf
  have key := forallStr_count_gen (f0 := f0) (m := m) (p := p) r o 0 (fun i => cs[i]?.getD 0) σ cs.length
    (fun i hi => by
      rw [Nat.zero_add, hcell _ (hinv i (by omega)) i hi]
      simp [List.getElem?_eq_getElem hi])
    (fun i hi => by
      rw [hstep i hi]
      simp only [List.getElem?_eq_getElem hi, Option.getD_some]
      exact (hbody _ _ (hinv i (by omega)) (List.getElem_mem _)).1)
    fuel hf
  simpa [σ] using key

/-! ### `forall` over a dictionary: the order of the visits -/

/-- **`forall_dict_keys_sorted`**: the key list the `forall` operator hands to `forallDict` is
`sortNames` of the dictionary's keys: ascending in the byte order of the names (no later key is
smaller than an earlier one; strictly ascending since the keys of a dictionary are distinct) and a
permutation of the keys -/
theorem forall_dict_keys_sorted (f m : Nat) (s : State) (r o l d : Nat) (rest : List Obj)
    (hs : s.vm.stack = .proc r o l :: .dict d :: rest) :
    callBuiltin (f + 1) m s "forall" =
      forallDict f m (setStack s rest) d (sortNames ((s.vm.getDict d).map (·.1))) (.proc r o l) ∧
    (sortNames ((s.vm.getDict d).map (·.1))).Pairwise (fun a b => a ≤ b) ∧
    (sortNames ((s.vm.getDict d).map (·.1))).Pairwise (fun a b => ¬ b < a) ∧
    (sortNames ((s.vm.getDict d).map (·.1))).Perm ((s.vm.getDict d).map (·.1)) ∧
    (((s.vm.getDict d).map (·.1)).Nodup →
      (sortNames ((s.vm.getDict d).map (·.1))).Pairwise (fun a b => a < b)) :=
  ⟨forall_op_dict f m s r o l d rest hs, sortNames_sorted _, sortNames_sorted' _, sortNames_perm _,
   sortNames_strict _⟩

/-- **the visiting order does not depend on the order in which the dictionary stores its
entries**: two stores that are permutations of each other give the same key list -/
theorem forall_dict_order_independent (d₁ d₂ : List (Name × Obj)) (h : d₁.Perm d₂) :
    sortNames (d₁.map (·.1)) = sortNames (d₂.map (·.1)) :=
  sortNames_perm_eq (h.map _)

/-- … at the operator: two interpreter states whose dictionary `d` has the same entries in a
different order run `forallDict` over the same key list -/
theorem forall_dict_same_keys (f m : Nat) (s s' : State) (r o l d : Nat) (rest rest' : List Obj)
    (hs : s.vm.stack = .proc r o l :: .dict d :: rest) (hs' : s'.vm.stack = .proc r o l :: .dict d :: rest')
    (hperm : (s.vm.getDict d).Perm (s'.vm.getDict d)) :
    ∃ ks, ks.Pairwise (fun a b => a ≤ b) ∧
      callBuiltin (f + 1) m s "forall" = forallDict f m (setStack s rest) d ks (.proc r o l) ∧
      callBuiltin (f + 1) m s' "forall" = forallDict f m (setStack s' rest') d ks (.proc r o l) := by
  refine ⟨sortNames ((s.vm.getDict d).map (·.1)), sortNames_sorted _, forall_op_dict f m s r o l d rest hs, ?_⟩
  rw [forall_dict_order_independent _ _ hperm]
  exact forall_op_dict f m s' r o l d rest' hs'

/-- **`forall` over a dictionary, operator level**: one turn per key that is still present when
its turn comes, in ascending order of the keys, with key and current value pushed
(`Loops.DictTurn`); `σ` = the states between the turns -/
theorem forall_dict_count {f0 m : Nat} (s : State) (r o l d : Nat) (rest : List Obj)
    (hs : s.vm.stack = .proc r o l :: .dict d :: rest)
    (σ : Nat → State) (hσ : σ 0 = setStack s rest)
    (h : ∀ i (hi : i < (sortNames ((s.vm.getDict d).map (·.1))).length),
      DictTurn f0 m (.proc r o l) d (sortNames ((s.vm.getDict d).map (·.1)))[i] (σ i) (σ (i + 1))) :
    ∀ fuel, f0 + (s.vm.getDict d).length + 2 ≤ fuel →
      callBuiltin fuel m s "forall" = (σ (s.vm.getDict d).length, .ok) := by
  intro fuel hf
  obtain ⟨f, rfl⟩ : ∃ f, fuel = f + 1 := ⟨fuel - 1, by omega⟩
  have hl : (sortNames ((s.vm.getDict d).map (·.1))).length = (s.vm.getDict d).length := by
    rw [length_sortNames, List.length_map]
  rw [forall_op_dict f m s r o l d rest hs, ← hσ,
    forallDict_count_gen d (sortNames ((s.vm.getDict d).map (·.1))) σ h f (by omega), hl]

/-- a dictionary stored as `/b 2 /a 1 /c 3` is traversed as `a b c` — derived from
`sortNames_perm_eq`/`sortNames_of_sorted`, not by evaluation -/
theorem sortNames_demo : sortNames ["b", "a", "c"] = ["a", "b", "c"] := by
  rw [sortNames_perm_eq (ks₂ := ["a", "b", "c"]) (by decide)]
  exact sortNames_of_sorted (by decide)

/-- an interpreter with the dictionary `<< /b 2 /a 1 /c 3 >>` (heap cell 11, stored in this
order) and the empty procedure `{ }` (cell 12) as the operands of `forall` -/
def demoDictState : State :=
  { newInterpreter with vm := { newVM with
      stack := [.proc 12 0 0, .dict 11],
      heap := (initHeap.push (.dict [("b", .int 2), ("a", .int 1), ("c", .int 3)])).push (.objs #[]) } }

/-- **`<< /b 2 /a 1 /c 3 >> { } forall` leaves `/a 1 /b 2 /c 3`** (operator level, kernel-checked) -/
theorem demo_forall_dict :
    callBuiltin 21 0 demoDictState "forall" =
      (forallDict 20 0 (setStack demoDictState []) 11 ["a", "b", "c"] (.proc 12 0 0)) ∧
    (callBuiltin 21 0 demoDictState "forall").2 = .ok ∧
    (callBuiltin 21 0 demoDictState "forall").1.vm.stack =
      [.int 3, .name "c", .int 2, .name "b", .int 1, .name "a"] := by
  have e : callBuiltin 21 0 demoDictState "forall" =
      forallDict 20 0 (setStack demoDictState []) 11 ["a", "b", "c"] (.proc 12 0 0) := by
    rw [forall_op_dict 20 0 demoDictState 12 0 0 11 [] rfl]
    have hk : (demoDictState.vm.getDict 11).map (·.1) = ["b", "a", "c"] := by decide +kernel
    rw [hk, sortNames_demo]
  refine ⟨e, ?_, ?_⟩
  · rw [e]; decide +kernel
  · rw [e]; decide +kernel

/-! ### `loop`, `exit`, `stop` -/

/-- **`loop_until_exit`**: if the turns `0 … k-1` end with `ok` and turn `k` executes `exit` in
the state `s'`, `p loop` ends with `ok` in `s'` -/
theorem loop_until_exit {f0 m : Nat} {p : Obj} (σ : Nat → State) (k : Nat)
    (h : ∀ i, i < k → Runs f0 m p (σ i) (σ (i + 1), .ok))
    (s' : State) (hexit : Runs f0 m p (σ k) (s', .err .exit)) :
    ∀ fuel, f0 + k + 2 ≤ fuel → loopLoop fuel m (σ 0) p = (s', .ok) := by
  intro fuel hf
  rw [loop_breaks σ k h s' _ (by simp) hexit fuel hf, broken_exit]

/-- `exit` in turn `j` of `repeat` ends that `repeat` normally, in the state the body left -/
theorem exit_innermost_repeat {f0 m : Nat} {p : Obj} (σ : Nat → State) (n j : Nat) (hj : j < n)
    (h : ∀ i, i < j → Runs f0 m p (σ i) (σ (i + 1), .ok))
    (s' : State) (hexit : Runs f0 m p (σ j) (s', .err .exit)) :
    ∀ fuel, f0 + j + 2 ≤ fuel → repeatLoop fuel m (σ 0) n p = (s', .ok) := by
  intro fuel hf
  rw [repeat_breaks σ n j hj h s' _ (by simp) hexit fuel hf, broken_exit]

/-- … of `for` (any increment, also 0; `val` = the control values, `val (i+1) = wrap64 (val i + inc)`) -/
theorem exit_innermost_for {f0 m : Nat} {p : Obj} (inc lim : Int) (val : Nat → Int) (σ : Nat → State) (j : Nat)
    (hp : ∀ i, i ≤ j → ¬ forPast inc lim (val i))
    (ho : ∀ i, i < j → ¬ forOver inc (val i))
    (hw : ∀ i, i < j → wrap64 (val i + inc) = val (i + 1))
    (h : ∀ i, i < j → Runs f0 m p (pushS (σ i) (.int (val i))) (σ (i + 1), .ok))
    (s' : State) (hexit : Runs f0 m p (pushS (σ j) (.int (val j))) (s', .err .exit)) :
    ∀ fuel, f0 + j + 2 ≤ fuel → forLoop fuel m (σ 0) (val 0) inc lim p = (s', .ok) := by
  intro fuel hf
  rw [for_breaks_gen inc lim val σ j hp ho hw h s' _ (by simp) hexit fuel hf, broken_exit]

/-- … of `forall` over an array -/
theorem exit_innermost_forall_array {f0 m : Nat} {p : Obj} (r o : Nat) (x : Nat → Obj) (σ : Nat → State)
    (n j : Nat) (hj : j < n)
    (hx : ∀ i, i ≤ j → ((σ i).vm.getObjs r)[o + (0 + i)]? = some (x i))
    (h : ∀ i, i < j → Runs f0 m p (pushS (σ i) (x i)) (σ (i + 1), .ok))
    (s' : State) (hexit : Runs f0 m p (pushS (σ j) (x j)) (s', .err .exit)) :
    ∀ fuel, f0 + j + 2 ≤ fuel → forallArr fuel m (σ 0) r o 0 n p = (s', .ok) := by
  intro fuel hf
  rw [forallArr_breaks_gen r o 0 x σ n j hj hx h s' _ (by simp) hexit fuel hf, broken_exit]

/-- … of `forall` over a string -/
theorem exit_innermost_forall_string {f0 m : Nat} {p : Obj} (r o : Nat) (c : Nat → UInt8) (σ : Nat → State)
    (n j : Nat) (hj : j < n)
    (hx : ∀ i, i ≤ j → ((σ i).vm.getBytes r)[o + (0 + i)]? = some (c i))
    (h : ∀ i, i < j → Runs f0 m p (pushS (σ i) (.int (c i).toNat)) (σ (i + 1), .ok))
    (s' : State) (hexit : Runs f0 m p (pushS (σ j) (.int (c j).toNat)) (s', .err .exit)) :
    ∀ fuel, f0 + j + 2 ≤ fuel → forallStr fuel m (σ 0) r o 0 n p = (s', .ok) := by
  intro fuel hf
  rw [forallStr_breaks_gen r o 0 c σ n j hj hx h s' _ (by simp) hexit fuel hf, broken_exit]

/-- … of `forall` over a dictionary (keys `pre` done, `exit` in the turn of key `k`) -/
theorem exit_innermost_forall_dict {f0 m : Nat} {p : Obj} (d : Nat) (pre : List Name) (k : Name)
    (rest : List Name) (σ : Nat → State)
    (h : ∀ i (hi : i < pre.length), DictTurn f0 m p d pre[i] (σ i) (σ (i + 1)))
    (v : Obj) (hk : (σ pre.length).vm.dictGet d k = some v) (s' : State)
    (hexit : Runs f0 m p (setStack (σ pre.length) (v :: .name k :: (σ pre.length).vm.stack)) (s', .err .exit)) :
    ∀ fuel, f0 + pre.length + 2 ≤ fuel → forallDict fuel m (σ 0) d (pre ++ k :: rest) p = (s', .ok) := by
  intro fuel hf
  rw [forallDict_breaks_gen d pre k rest σ h v hk s' _ (by simp) hexit fuel hf, broken_exit]

/-- **`stop_propagates`**: `stop` — and every other error: a PostScript error, the budget error,
an I/O error — raised in turn `j` is the result of the whole `repeat`, in the state the body
left; no further turn is run -/
theorem stop_propagates_repeat {f0 m : Nat} {p : Obj} (σ : Nat → State) (n j : Nat) (hj : j < n)
    (h : ∀ i, i < j → Runs f0 m p (σ i) (σ (i + 1), .ok))
    (s' : State) (e : Err) (he : e ≠ .exit) (herr : Runs f0 m p (σ j) (s', .err e)) :
    ∀ fuel, f0 + j + 2 ≤ fuel → repeatLoop fuel m (σ 0) n p = (s', .err e) := by
  intro fuel hf
  rw [repeat_breaks σ n j hj h s' _ (by simp) herr fuel hf, broken_err _ _ he]

theorem stop_propagates_loop {f0 m : Nat} {p : Obj} (σ : Nat → State) (j : Nat)
    (h : ∀ i, i < j → Runs f0 m p (σ i) (σ (i + 1), .ok))
    (s' : State) (e : Err) (he : e ≠ .exit) (herr : Runs f0 m p (σ j) (s', .err e)) :
    ∀ fuel, f0 + j + 2 ≤ fuel → loopLoop fuel m (σ 0) p = (s', .err e) := by
  intro fuel hf
  rw [loop_breaks σ j h s' _ (by simp) herr fuel hf, broken_err _ _ he]

theorem stop_propagates_for {f0 m : Nat} {p : Obj} (inc lim : Int) (val : Nat → Int) (σ : Nat → State) (j : Nat)
    (hp : ∀ i, i ≤ j → ¬ forPast inc lim (val i))
    (ho : ∀ i, i < j → ¬ forOver inc (val i))
    (hw : ∀ i, i < j → wrap64 (val i + inc) = val (i + 1))
    (h : ∀ i, i < j → Runs f0 m p (pushS (σ i) (.int (val i))) (σ (i + 1), .ok))
    (s' : State) (e : Err) (he : e ≠ .exit) (herr : Runs f0 m p (pushS (σ j) (.int (val j))) (s', .err e)) :
    ∀ fuel, f0 + j + 2 ≤ fuel → forLoop fuel m (σ 0) (val 0) inc lim p = (s', .err e) := by
  intro fuel hf
  rw [for_breaks_gen inc lim val σ j hp ho hw h s' _ (by simp) herr fuel hf, broken_err _ _ he]

theorem stop_propagates_forall_array {f0 m : Nat} {p : Obj} (r o : Nat) (x : Nat → Obj) (σ : Nat → State)
    (n j : Nat) (hj : j < n)
    (hx : ∀ i, i ≤ j → ((σ i).vm.getObjs r)[o + (0 + i)]? = some (x i))
    (h : ∀ i, i < j → Runs f0 m p (pushS (σ i) (x i)) (σ (i + 1), .ok))
    (s' : State) (e : Err) (he : e ≠ .exit) (herr : Runs f0 m p (pushS (σ j) (x j)) (s', .err e)) :
    ∀ fuel, f0 + j + 2 ≤ fuel → forallArr fuel m (σ 0) r o 0 n p = (s', .err e) := by
  intro fuel hf
  rw [forallArr_breaks_gen r o 0 x σ n j hj hx h s' _ (by simp) herr fuel hf, broken_err _ _ he]

theorem stop_propagates_forall_string {f0 m : Nat} {p : Obj} (r o : Nat) (c : Nat → UInt8) (σ : Nat → State)
    (n j : Nat) (hj : j < n)
    (hx : ∀ i, i ≤ j → ((σ i).vm.getBytes r)[o + (0 + i)]? = some (c i))
    (h : ∀ i, i < j → Runs f0 m p (pushS (σ i) (.int (c i).toNat)) (σ (i + 1), .ok))
    (s' : State) (e : Err) (he : e ≠ .exit) (herr : Runs f0 m p (pushS (σ j) (.int (c j).toNat)) (s', .err e)) :
    ∀ fuel, f0 + j + 2 ≤ fuel → forallStr fuel m (σ 0) r o 0 n p = (s', .err e) := by
  intro fuel hf
  rw [forallStr_breaks_gen r o 0 c σ n j hj hx h s' _ (by simp) herr fuel hf, broken_err _ _ he]

theorem stop_propagates_forall_dict {f0 m : Nat} {p : Obj} (d : Nat) (pre : List Name) (k : Name)
    (rest : List Name) (σ : Nat → State)
    (h : ∀ i (hi : i < pre.length), DictTurn f0 m p d pre[i] (σ i) (σ (i + 1)))
    (v : Obj) (hk : (σ pre.length).vm.dictGet d k = some v) (s' : State) (e : Err) (he : e ≠ .exit)
    (herr : Runs f0 m p (setStack (σ pre.length) (v :: .name k :: (σ pre.length).vm.stack)) (s', .err e)) :
    ∀ fuel, f0 + pre.length + 2 ≤ fuel → forallDict fuel m (σ 0) d (pre ++ k :: rest) p = (s', .err e) := by
  intro fuel hf
  rw [forallDict_breaks_gen d pre k rest σ h v hk s' _ (by simp) herr fuel hf, broken_err _ _ he]

/-! ### "… and nothing else": the enclosing procedure and loop go on

An `exit` consumed by a loop is invisible from outside: the looping *operator* returns `ok`,
like any other operator, so the procedure it stands in continues with its next element and an
enclosing loop with its next turn.  `stop` and errors pass through the operator unchanged
(PostScript errors via the `errordict` detour of `execTail`, which is not a loop matter). -/

/-- a builtin whose Go function returns without a PostScript error: `executeOne` on the
operator object returns that result unchanged (the operation counter has been incremented) -/
theorem builtin_result (f m : Nat) (s s' : State) (id : String) (b c : Bool) (r : Res)
    (hb : ¬ (m > 0 ∧ s.numOps + 1 > m)) (hr : ∀ n, r ≠ .err (.ps n))
    (h : callBuiltin f m { s with numOps := s.numOps + 1 } id = (s', r)) :
    execTail (f + 1) m s (.builtin id) b c = (s', r) := by
  unfold execTail
  simp only [hb, if_false, h]

/-- **`exit` leaves the innermost loop and nothing else**, operator level: the `repeat` operator
whose body executes `exit` in its turn `j` returns `ok` -/
theorem exit_consumed_by_repeat_operator {f0 m : Nat} (r o l : Nat) (s : State) (n : Int) (rest : List Obj)
    (hb : ¬ (m > 0 ∧ s.numOps + 1 > m))
    (hst : s.vm.stack = .proc r o l :: .int n :: rest)
    (σ : Nat → State) (hσ : σ 0 = setStack { s with numOps := s.numOps + 1 } rest)
    (j : Nat) (hj : j < n.toNat)
    (h : ∀ i, i < j → Runs f0 m (.proc r o l) (σ i) (σ (i + 1), .ok))
    (s' : State) (hexit : Runs f0 m (.proc r o l) (σ j) (s', .err .exit)) (b c : Bool) :
    ∀ fuel, f0 + j + 4 ≤ fuel → execTail fuel m s (.builtin "repeat") b c = (s', .ok) := by
  intro fuel hf
  obtain ⟨f, rfl⟩ : ∃ f, fuel = f + 2 := ⟨fuel - 2, by omega⟩
  apply builtin_result (f + 1) m s s' "repeat" b c .ok hb (by simp)
  rw [repeat_op f m { s with numOps := s.numOps + 1 } r o l n rest hst (by omega), ← hσ]
  exact exit_innermost_repeat σ n.toNat j hj h s' hexit f (by omega)

/-! ### loops that never end by themselves -/

/-- a `for` whose termination test never succeeds and whose turns all end with `ok` does not
return: the model runs out of fuel for every fuel (with a budget `m > 0` the hypothesis cannot
hold for all turns: some turn ends with `.err .limit`) -/
theorem for_endless_gen {f0 m : Nat} {p : Obj} (inc lim : Int) (val : Nat → Int) (σ : Nat → State)
    (hp : ∀ i, ¬ forPast inc lim (val i))
    (ho : ∀ i, ¬ forOver inc (val i))
    (hw : ∀ i, wrap64 (val i + inc) = val (i + 1))
    (h : ∀ i, Runs f0 m p (pushS (σ i) (.int (val i))) (σ (i + 1), .ok)) :
    ∀ fuel i, (forLoop fuel m (σ i) (val i) inc lim p).2 = .fuel := by
  intro fuel
  induction fuel with
  | zero => intro i; simp only [forLoop]
  | succ f ih =>
    intro i
    rw [for_step, if_neg (hp i)]
    rcases runs_below (h i) f with hq | hq
    · generalize execOne f m (pushS (σ i) (.int (val i))) p true = q at hq
      obtain ⟨s1, r1⟩ := q
      dsimp only at hq
      subst hq
      simp [afterTurn]
    · rw [hq, afterTurn_ok, if_neg (ho i), hw i]
      exact ih (i + 1)

/-- **`for` with increment 0 never ends by itself** (the PLRM leaves this case open) -/
theorem for_zero_endless {f0 m : Nat} {p : Obj} (init lim : Int) (hlo : minInt64 ≤ init) (hhi : init ≤ maxInt64)
    (σ : Nat → State) (h : ∀ i, Runs f0 m p (pushS (σ i) (.int init)) (σ (i + 1), .ok)) :
    ∀ fuel, (forLoop fuel m (σ 0) init 0 lim p).2 = .fuel := by
  intro fuel
  exact for_endless_gen 0 lim (fun _ => init) σ (fun _ => for_zero_never_past lim init)
    (fun _ => for_zero_never_over init)
    (fun _ => by rw [Int.add_zero]; exact wrap64_id' init hlo hhi) h fuel 0

/-- `loop` whose turns all end with `ok` does not return -/
theorem loop_endless {f0 m : Nat} {p : Obj} (σ : Nat → State)
    (h : ∀ i, Runs f0 m p (σ i) (σ (i + 1), .ok)) :
    ∀ fuel i, (loopLoop fuel m (σ i) p).2 = .fuel := by
  intro fuel
  induction fuel with
  | zero => intro i; simp only [loopLoop]
  | succ f ih =>
    intro i
    rw [loop_step]
    rcases runs_below (h i) f with hq | hq
    · generalize execOne f m (σ i) p true = q at hq
      obtain ⟨s1, r1⟩ := q
      dsimp only at hq
      subst hq
      simp [afterTurn]
    · rw [hq, afterTurn_ok]
      exact ih (i + 1)

/-! ### non-vacuity: the body `{ 1 add }` -/

/-- the states between the turns of a loop with body `{ 1 add }` started with `v` on top of the stack -/
def incrTrace (s : State) (v : Int) (rest : List Obj) : Nat → State
  | 0 => s
  | i + 1 => incrState (incrTrace s v rest i) (v + (i : Int)) rest

/-- what every state of the trace has in common with the first one -/
structure IncrInv (s : State) (r : Nat) (v : Int) (rest : List Obj) (i : Nat) (t : State) : Prop where
  depth : t.execDepth = s.execDepth
  procStart : t.procStart = s.procStart
  stack : t.vm.stack = .int (v + (i : Int)) :: rest
  cell : t.vm.getObjs r = s.vm.getObjs r
  look : lookupName t.vm "add" = lookupName s.vm "add"
  ops : t.numOps = s.numOps + 4 * i

theorem incrTrace_inv (s : State) (r : Nat) (v : Int) (rest : List Obj) (hst : s.vm.stack = .int v :: rest) :
    ∀ i, IncrInv s r v rest i (incrTrace s v rest i) := by
  intro i
  induction i with
  | zero => exact ⟨rfl, rfl, by show s.vm.stack = _; simp [hst], rfl, rfl, rfl⟩
  | succ i ih =>
    refine ⟨ih.depth, ih.procStart, ?_, ih.cell, ih.look, ?_⟩
    · show Obj.int (v + (i : Int) + 1) :: rest = _
      rw [Int.natCast_succ, Int.add_assoc]
    · show (incrTrace s v rest i).numOps + 4 = _
      rw [ih.ops]; omega

/-- the body hypothesis is provable for the procedure `{ 1 add }` (at heap cell `r`), the name
`add` having its standard meaning: **`v n { 1 add } repeat` yields `v + n`**, uses `4 n`
operations, for every `n` — derived from `Loops.repeat_count`, not by evaluation -/
theorem repeat_incr (m : Nat) (s : State) (r : Nat) (v : Int) (rest : List Obj) (n : Nat)
    (hd : s.execDepth < 100) (hp : s.procStart = [])
    (hst : s.vm.stack = .int v :: rest) (hlen : rest.length + 2 ≤ 500)
    (hcell : s.vm.getObjs r = #[.int 1, .op "add"])
    (hl : lookupName s.vm "add" = some (.builtin "add"))
    (hb : m = 0 ∨ s.numOps + 4 * n ≤ m)
    (hv1 : minInt64 ≤ v) (hv2 : v + (n : Int) ≤ maxInt64) :
    ∀ fuel, 7 + n + 1 ≤ fuel →
      repeatLoop fuel m s n (.proc r 0 2) = (incrTrace s v rest n, .ok) ∧
      (incrTrace s v rest n).vm.stack = .int (v + (n : Int)) :: rest ∧
      (incrTrace s v rest n).numOps = s.numOps + 4 * n := by
  intro fuel hf
  have inv := incrTrace_inv s r v rest hst
  refine ⟨?_, (inv n).stack, (inv n).ops⟩
  apply PsVerif.Proofs.Loops.repeat_count (f0 := 7) (incrTrace s v rest) n ?_ fuel hf
  intro i hi f hf7
  obtain ⟨f', rfl⟩ : ∃ f', f = f' + 7 := ⟨f - 7, by omega⟩
  have hi' : (i : Int) < (n : Int) := by omega
  exact incr_body f' m (incrTrace s v rest i) r (v + (i : Int)) rest
    (by rw [(inv i).depth]; exact hd) (by rw [(inv i).procStart]; exact hp) (inv i).stack hlen
    (by rw [(inv i).cell]; exact hcell) (by rw [(inv i).look]; exact hl)
    (by rw [(inv i).ops]; omega) (by omega) (by omega)

/-- the interpreter after scanning `0 5 { 1 add }`: a fresh interpreter, the procedure body in
the next free heap cell (11), the three operands on the stack -/
def demoState : State :=
  { newInterpreter with vm := { newVM with stack := [.proc 11 0 2, .int 5, .int 0],
                                            heap := initHeap.push (.objs #[.int 1, .op "add"]) } }

/-- **`0 5 { 1 add } repeat` yields 5** (operator level, any budget-free run with fuel ≥ 14):
instance of `repeat_incr` -/
theorem demo_repeat (fuel : Nat) (hf : 14 ≤ fuel) :
    (callBuiltin fuel 0 demoState "repeat").2 = .ok ∧
    (callBuiltin fuel 0 demoState "repeat").1.vm.stack = [.int 5] ∧
    (callBuiltin fuel 0 demoState "repeat").1.numOps = 20 := by
  obtain ⟨f, rfl⟩ : ∃ f, fuel = f + 1 := ⟨fuel - 1, by omega⟩
  rw [repeat_op f 0 demoState 11 0 2 5 [.int 0] rfl (by decide)]
  have key := repeat_incr 0 (setStack demoState [.int 0]) 11 0 [] 5 (by decide) rfl rfl (by decide)
    (by decide +kernel) (by decide +kernel) (Or.inl rfl) (by decide) (by decide) f (by simp; omega)
  rw [show (5 : Int).toNat = 5 from rfl, key.1]
  exact ⟨rfl, key.2.1, key.2.2⟩

/-! ### non-vacuity: `for` with the body `{ add }` (the control values are consumed) -/

/-- `a + Σ_{i<k} (init + i·inc)` -/
def psum (a init inc : Int) : Nat → Int
  | 0 => a
  | k + 1 => psum a init inc k + (init + (k : Int) * inc)

/-- the states between the turns of `a init inc lim { add } for` -/
def sumTrace (s : State) (a init inc : Int) (rest : List Obj) : Nat → State
  | 0 => s
  | k + 1 => addState (sumTrace s a init inc rest k) (psum a init inc (k + 1)) rest

structure SumInv (s : State) (r : Nat) (a init inc : Int) (rest : List Obj) (k : Nat) (t : State) : Prop where
  depth : t.execDepth = s.execDepth
  procStart : t.procStart = s.procStart
  stack : t.vm.stack = .int (psum a init inc k) :: rest
  cell : t.vm.getObjs r = s.vm.getObjs r
  look : lookupName t.vm "add" = lookupName s.vm "add"
  ops : t.numOps = s.numOps + 3 * k

theorem sumTrace_inv (s : State) (r : Nat) (a init inc : Int) (rest : List Obj)
    (hst : s.vm.stack = .int a :: rest) : ∀ k, SumInv s r a init inc rest k (sumTrace s a init inc rest k) := by
  intro k
  induction k with
  | zero => exact ⟨rfl, rfl, hst, rfl, rfl, rfl⟩
  | succ k ih =>
    refine ⟨ih.depth, ih.procStart, rfl, ih.cell, ih.look, ?_⟩
    show (sumTrace s a init inc rest k).numOps + 3 = _
    rw [ih.ops]; omega

/-- **`a init inc lim { add } for` (positive increment) yields `a + Σ_{k < forCount} (init + k·inc)`**
— derived from `Loops.for_count_pos`: the body runs `forCount init inc lim` times, turn `k`
with `init + k·inc` pushed -/
theorem for_sum_pos (m : Nat) (s : State) (r : Nat) (a init inc lim : Int) (rest : List Obj)
    (hinc : 0 < inc) (hlo : minInt64 ≤ init) (hinit : init ≤ maxInt64) (hhi : lim ≤ maxInt64)
    (hd : s.execDepth < 100) (hp : s.procStart = [])
    (hst : s.vm.stack = .int a :: rest) (hlen : rest.length + 2 ≤ 500)
    (hcell : s.vm.getObjs r = #[.op "add"])
    (hl : lookupName s.vm "add" = some (.builtin "add"))
    (hb : m = 0 ∨ s.numOps + 3 * forCount init inc lim ≤ m)
    (hsum : ∀ k, k ≤ forCount init inc lim → minInt64 ≤ psum a init inc k ∧ psum a init inc k ≤ maxInt64) :
    ∀ fuel, 6 + forCount init inc lim + 1 ≤ fuel →
      forLoop fuel m s init inc lim (.proc r 0 1) = (sumTrace s a init inc rest (forCount init inc lim), .ok) ∧
      (sumTrace s a init inc rest (forCount init inc lim)).vm.stack =
        .int (psum a init inc (forCount init inc lim)) :: rest := by
  intro fuel hf
  have inv := sumTrace_inv s r a init inc rest hst
  refine ⟨?_, (inv _).stack⟩
  apply PsVerif.Proofs.Loops.for_count_pos (f0 := 6) init inc lim hinc hlo hinit hhi (sumTrace s a init inc rest) ?_ fuel hf
  intro k hk f hf6
  obtain ⟨f', rfl⟩ : ∃ f', f = f' + 6 := ⟨f - 6, by omega⟩
  have hs1 := hsum (k + 1) (by omega)
  exact add_body f' m (pushS (sumTrace s a init inc rest k) (.int (init + (k : Int) * inc))) r
    (psum a init inc k) (init + (k : Int) * inc) rest
    (by show (sumTrace s a init inc rest k).execDepth < 100; rw [(inv k).depth]; exact hd)
    (by show (sumTrace s a init inc rest k).procStart = []; rw [(inv k).procStart]; exact hp)
    (by show _ :: (sumTrace s a init inc rest k).vm.stack = _; rw [(inv k).stack])
    hlen
    (by show (sumTrace s a init inc rest k).vm.getObjs r = _; rw [(inv k).cell]; exact hcell)
    (by show lookupName (sumTrace s a init inc rest k).vm "add" = _; rw [(inv k).look]; exact hl)
    (by show m = 0 ∨ (sumTrace s a init inc rest k).numOps + 3 ≤ m; rw [(inv k).ops]; omega)
    hs1.1 hs1.2

/-- the interpreter after scanning `0 1 1 4 { add }` -/
def demoForState : State :=
  { newInterpreter with vm := { newVM with stack := [.proc 11 0 1, .int 4, .int 1, .int 1, .int 0],
                                            heap := initHeap.push (.objs #[.op "add"]) } }

/-- **`0 1 1 4 { add } for` yields `0+1+2+3+4 = 10`** (operator level), instance of `for_sum_pos` -/
theorem demo_for (fuel : Nat) (hf : 12 ≤ fuel) :
    (callBuiltin fuel 0 demoForState "for").2 = .ok ∧
    (callBuiltin fuel 0 demoForState "for").1.vm.stack = [.int 10] := by
  obtain ⟨f, rfl⟩ : ∃ f, fuel = f + 1 := ⟨fuel - 1, by omega⟩
  rw [for_op f 0 demoForState (.proc 11 0 1) 1 1 4 [.int 0] rfl]
  have hc : forCount 1 1 4 = 4 := by decide
  have key := for_sum_pos 0 (setStack demoForState [.int 0]) 11 0 1 1 4 [] (by decide) (by decide) (by decide) (by decide)
    (by decide) rfl rfl (by decide) (by decide +kernel) (by decide +kernel) (Or.inl rfl)
    (by rw [hc]; decide) f (by rw [hc]; omega)
  rw [hc] at key
  rw [key.1]
  exact ⟨rfl, key.2⟩

/-! ### the former overflow witness, with the body `{ pop }` -/

/-- the interpreter after scanning `0 4611686018427387904 9223372036854775807 { pop }` -/
def demoOverflowState : State :=
  { newInterpreter with vm := { newVM with
      stack := [.proc 11 0 1, .int 9223372036854775807, .int 4611686018427387904, .int 0],
      heap := initHeap.push (.objs #[.op "pop"]) } }

/-- **`0 4611686018427387904 9223372036854775807 { pop } for` runs its body exactly twice** (6
operations = 2 turns of 3) and ends with `ok` and an empty stack — instance of
`Loops.for_overflow_fixed`, i.e. of the count theorem `for_count_pos`; before the repair of `bFor`
this program ran until the budget was used up -/
theorem demo_overflow_for (fuel : Nat) (hf : 10 ≤ fuel) :
    callBuiltin fuel 0 demoOverflowState "for" =
      (popState (popState (setStack demoOverflowState []) []) [], .ok) ∧
    (popState (popState (setStack demoOverflowState []) []) []).vm.stack = [] ∧
    (popState (popState (setStack demoOverflowState []) []) []).numOps = 6 := by
  obtain ⟨f, rfl⟩ : ∃ f, fuel = f + 1 := ⟨fuel - 1, by omega⟩
  refine ⟨?_, rfl, rfl⟩
  rw [for_op f 0 demoOverflowState (.proc 11 0 1) 0 4611686018427387904 9223372036854775807 [] rfl]
  let s0 := setStack demoOverflowState []
  let σ : Nat → State := fun i => match i with
    | 0 => s0
    | 1 => popState s0 []
    | _ => popState (popState s0 []) []
  have hrun : ∀ (t : State) (v : Int), t.execDepth = 0 → t.procStart = [] → t.vm.stack = [] →
      t.vm.getObjs 11 = #[.op "pop"] → lookupName t.vm "pop" = some (.builtin "pop") →
      Runs 6 0 (.proc 11 0 1) (pushS t (.int v)) (popState t [], .ok) := by
    intro t v h1 h2 h3 h4 h5 g hg
    obtain ⟨g', rfl⟩ : ∃ g', g = g' + 6 := ⟨g - 6, by omega⟩
    exact pop_body g' 0 (pushS t (.int v)) 11 (.int v) []
      (by show t.execDepth < 100; omega) h2 (by show _ :: t.vm.stack = _; rw [h3]) (by decide) h4 h5 (Or.inl rfl)
  have key := (for_overflow_fixed (f0 := 6) (m := 0) (p := .proc 11 0 1) σ
    (hrun s0 0 rfl rfl rfl (by decide +kernel) (by decide +kernel))
    (hrun (popState s0 []) 4611686018427387904 rfl rfl rfl (by decide +kernel) (by decide +kernel))).2
  exact key f (by omega)

/-- the same program, and the programs of the findings, run on the model from the source text
(cross-check by evaluation; the Go code gives the same stacks, results and operation counts) -/
def runText (p : String) : List Obj × Res × Nat :=
  let q := execute 2000000 100000 newInterpreter p.toUTF8.toList none
  (q.1.vm.stack, q.2, q.1.numOps)

/-- info: ([PsVerif.Model.Obj.int 5], PsVerif.Model.Res.ok, 24) -/
#guard_msgs in #eval runText "0 5 { 1 add } repeat"
/-- info: ([PsVerif.Model.Obj.int 10], PsVerif.Model.Res.ok, 18) -/
#guard_msgs in #eval runText "0 1 1 4 { add } for"
/-- info: ([PsVerif.Model.Obj.int 3], PsVerif.Model.Res.ok, 37) -/
#guard_msgs in #eval runText "0 3 { 10 { 1 add exit } repeat } repeat"   -- inner `exit`: the outer loop goes on
/-- info: ([PsVerif.Model.Obj.int 15], PsVerif.Model.Res.ok, 24) -/
#guard_msgs in #eval runText "0 10 -3 -5 {add} for"                      -- 10+7+4+1-2-5
/-- info: ([PsVerif.Model.Obj.int 5], PsVerif.Model.Res.ok, 64) -/
#guard_msgs in #eval runText "0 1 0 1 {add dup 5 eq {exit} if} for"      -- increment 0, left by `exit`
/-- info: ([PsVerif.Model.Obj.int 102], PsVerif.Model.Res.ok, 42) -/
#guard_msgs in #eval runText "/a [1 2 3] def 0 a { add a 2 99 put } forall"  -- element 2 re-read: 1+2+99
-- `forall` over a dictionary visits the keys in ascending order, whatever the order of definition
#guard (runText "<< /b 2 /a 1 /c 3 >> { pop exit } forall").1 = [.name "a"]
#guard (runText "<< /b 2 /a 1 /c 3 >> { pop exit } forall").2.1 = .ok
#guard (runText "<< /b 2 /a 1 >> { } forall").1 = [.int 2, .name "b", .int 1, .name "a"]
#guard (runText "<< /a 1 /b 2 >> { } forall").1 = [.int 2, .name "b", .int 1, .name "a"]
#guard (runText "<< /b 2 /a 1 /B 0 /aa 5 >> { pop } forall").1 = [.name "b", .name "aa", .name "a", .name "B"]
-- the value of a key is read when its turn comes: a value stored by an earlier turn is seen
#guard (runText "/d << /a 1 /b 2 /c 3 >> def d { exch pop d /c 30 put } forall").1 = [.int 30, .int 2, .int 1]
-- the former overflow witness: two turns (11 operations: 5 before the loop + 2 × 3)
/-- info: ([], PsVerif.Model.Res.ok, 11) -/
#guard_msgs in #eval runText "0 4611686018427387904 9223372036854775807 {pop} for"
/-- info: ([PsVerif.Model.Obj.int 3], PsVerif.Model.Res.ok, 24) -/
#guard_msgs in #eval runText "0 0 -4611686018427387904 -9223372036854775808 {pop 1 add} for"   -- 0, -2^62, -2^63: three turns
/-- info: ([PsVerif.Model.Obj.int 1], PsVerif.Model.Res.ok, 12) -/
#guard_msgs in #eval runText "0 9223372036854775807 1 9223372036854775807 {pop 1 add} for"     -- one turn, at maxint
-- findings: real increment, increment 0
/-- info: PsVerif.Model.Res.err (PsVerif.Model.Err.ps "typecheck") -/
#guard_msgs in #eval (runText "0 0.5 1 {pop} for").2.1
/-- info: PsVerif.Model.Res.err (PsVerif.Model.Err.limit) -/
#guard_msgs in #eval (runText "0 1 0 3 {add} for").2.1                   -- increment 0: endless

#print axioms runs_of_one
#print axioms repeat_count
#print axioms repeat_op_count
#print axioms for_count_pos
#print axioms for_count_neg
#print axioms forIter_eq_foldl
#print axioms for_real_typecheck
#print axioms forall_array_count
#print axioms forall_string_count
#print axioms loop_until_exit
#print axioms exit_innermost_repeat
#print axioms exit_innermost_for
#print axioms exit_innermost_forall_array
#print axioms exit_innermost_forall_string
#print axioms exit_innermost_forall_dict
#print axioms stop_propagates_repeat
#print axioms stop_propagates_loop
#print axioms stop_propagates_for
#print axioms stop_propagates_forall_array
#print axioms stop_propagates_forall_string
#print axioms stop_propagates_forall_dict
#print axioms exit_consumed_by_repeat_operator
#print axioms forall_dict_keys_sorted
#print axioms forall_dict_order_independent
#print axioms forall_dict_same_keys
#print axioms forall_dict_count
#print axioms sortNames_demo
#print axioms demo_forall_dict
#print axioms PsVerif.Proofs.Loops.sortNames_sorted
#print axioms PsVerif.Proofs.Loops.sortNames_strict
#print axioms PsVerif.Proofs.Loops.sortNames_perm_eq
#print axioms for_zero_endless
#print axioms loop_endless
#print axioms repeat_incr
#print axioms demo_repeat
#print axioms for_sum_pos
#print axioms demo_for
#print axioms PsVerif.Proofs.Loops.repeat_count
#print axioms PsVerif.Proofs.Loops.for_count_pos
#print axioms PsVerif.Proofs.Loops.for_count_neg
#print axioms PsVerif.Proofs.Loops.for_overflow_fixed
#print axioms demo_overflow_for
#print axioms PsVerif.Proofs.Loops.forallArr_count_gen
#print axioms PsVerif.Proofs.Loops.forallStr_count_gen
#print axioms PsVerif.Proofs.Loops.forallDict_count_gen
#print axioms PsVerif.Proofs.Loops.incr_body

end PsVerif.Props.C03Loops
