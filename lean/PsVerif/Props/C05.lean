import PsVerif.Proofs.EexecStream
import PsVerif.Proofs.EexecInterp
import PsVerif.Model.Init
/-!
# C05 — `eexec`: byte stream, tokens, interpreter

Property C05: executing a program whose tail is eexec-encrypted (hexadecimal with interior white space, or binary,
any legal four-byte random prefix, any length) has exactly the effect of executing the plaintext with systemdict
pushed; when the encrypted part closes its file, decryption stops and the clear text that follows is executed
normally; binary data read with `readstring` inside the section is delivered byte-exact.

This file states the theorems on the model (`Model/Scanner.lean`, `Model/Cipher.lean`, `Model/Interp.lean`), for ALL
plaintexts, prefixes and layouts, no length bound. Proofs are in `Proofs/EexecStream.lean` (bytes, tokens) and
`Proofs/EexecInterp.lean` (interpreter).

## Legality conditions (read off `BeginEexec`, and exact: see the negative examples at the end)

* start state `s0`: decryption off, not replaying (`Clear s0`), at most four bytes in the peek buffer (after the
  token `eexec` there is at most one: the delimiter that ended the token). The pending input is `s0.peek ++ s0.src`.
* pending input `= ws ++ layout ++ rest` where `ws` consists of blank/tab/CR/LF only (`isEexecSpace`; NUL and FF are
  PostScript white space but are NOT skipped here).
* binary (`BinaryLegal c`, `layout = c`): the first cipher byte is not blank/tab/CR/LF and the first four cipher
  bytes are not all hexadecimal digits. These are the two conditions of the Type 1 book.
* hexadecimal (`HexLayout c t`): `t` spells `c` in hex digits of either case with bytes ≤ 32 (any of them, NUL
  included) before any digit, none after the last digit (`HexTail c t`), and the first four bytes of `t` are hex
  digits. White space immediately after the fourth digit is legal. No condition on the random prefix.

## What is proved

1. `eexec_stream_binary`, `eexec_stream_hex`: `beginEexec` succeeds and then `k ≤ plain.length` reads through `Next`
   (`readN k`, i.e. `scanner.Read`, what `readstring` uses) return exactly `plain.take k`; exactly `4 + k` cipher
   bytes have been consumed, the register is `stateAfter 55665 (cipher.take (4 + k))`, nothing is peeked: the four
   bytes peeked by `BeginEexec` to choose the mode are replayed exactly once, in both modes.
2. `Sim`/`SimM` (simulation): `readByte`, `next`, `peek`, `peekN`, `lookingAt`, `skipByte`, `skipN`,
   `skipRequiredByte`, `skipOptionalByte`, `readN` and every tokenizer loop at a fixed fuel (`readRegular`,
   `readStringBody`, `readHexBody`, `readA85Body`, `readOctal`, `skipToEOL`, `readLine`, `skipBlanks`,
   `readCommentKey`) cannot tell the eexec state from the plain state over the plaintext: same results (values and
   errors), related states, until the plain side runs into the end of the plaintext. `SimM` is closed under `pure`,
   `fail`, `>>=`, `attempt`, `if`, benign `modS`, and `getS` restricted to peek buffer / replay flag / position.
3. `eexec_close`, `eexec_close_at_end`: `endEexec` only clears the mode. If the plaintext has been decrypted
   completely, the state is exactly the plain scanner continued with `rest` — plaintext bytes still in the peek
   buffer (the delimiter after `closefile`) are delivered first, then `rest`, in clear.
4. `eexec_peek_past_end_binary`: what a look-ahead past the end of the plaintext does (see FINDING below).

5. `eexec_sim_scanToken`: `scanToken` as a whole (and `skipWhiteSpace`, `readString`, `readHexString`,
   `readBase85String`, `readStructuredComment`, `skipComment`) is in `SimM`, although the loop fuel `fuelOf s` is
   computed from the length of the RAW source and so differs between the two sides: `eexec_fuel_independent` shows
   that on clear scanners the result of each loop does not depend on its fuel once the fuel exceeds the number of
   bytes left to read (every iteration consumes a byte).
6. Interpreter level, `eexec_operator_binary`, `eexec_operator_hex` (from `eexec_interp_sim`, a simultaneous
   induction over the thirteen functions of the interpreter's mutual block): the operator `eexec`, called with `.file`
   on the operand stack and a legal section pending, returns `closeSection k bF rF seF` where `(bF, rF)` is the
   outcome of the nested scan loop `scanRun` on the PLAIN state (`.file` popped, systemdict pushed, plain scanner
   over the plaintext at the same position): the result is `rF` (`ok` if the section was closed: `rF = ok` or
   `err eof`, which is what `closefile` returns); every field of the interpreter state except the scanner and the
   dictionary stack is that of `bF` (operand stack, heap, `numOps`, `execDepth`, `errors`, `procStart`,
   `scannerDepth`, DSC comments, ghost high-water marks); the dictionary stack is cut back to its height `k` before
   the operator (`truncDictStack`); the scanner `seF` is `Sim`-related to the plain run's final scanner: equal peek
   buffer, line, column, `crSeen`, DSC, sticky error, fault; its raw source is the layout of the cipher bytes not
   yet consumed followed by `rest`. `eexec_closed_at_end`: if every plaintext byte has been decrypted the scanner is
   the plain one with `src := rest` (and some cipher register): the clear text is executed next, normally.
   Hypothesis `Safe`: the plain run evaluates no `Bad` call, i.e. (a) it never calls the `eexec` operator (see
   FINDING 2), (b) its scanner never runs into the end of the plaintext (`scanToken`, the start check and
   `readstring` never hit the end: the plaintext closes the file before it ends). (a) is slightly stronger than
   needed: an `eexec` call that fails the same way on both sides (operand not a file) is excluded as well.

7. Column and structured comments (after the repair of `BeginEexec`: `Col = 0`, `crSeen = false` when the section
   is entered). The state `afterBegin …` that `beginEexec` leaves has column 0 and `crSeen` off whatever the four
   lead bytes decrypt to; the plain scanners the theorems compare with (`plainOf s1 plain`, `plainStart …`,
   `plainStart0 …`) stand at column 0 with `crSeen` off; `Sim`/`SimL` contain agreement on `col`, `crSeen` and the
   collected structured comments `dsc`, and no theorem needs a hypothesis about a DSC line at the start of the
   plaintext. `SimL dl` is `Sim` with the line counters differing by the constant `dl` (`Sim = SimL 0`; the line
   counter is never read, and it is the one thing that still depends on the lead bytes: `Line` is not reset).
   `eexec_dsc_prefix_independent`, `eexec_dsc_prefix_independent_hex`: for two legal lead-byte quadruples and the same
   plaintext the operator returns the same result and the same interpreter state up to the scanner, the scanners
   agree in peek buffer, column, `crSeen`, `dsc`, error, fault, mode, and are equal up to line counter and cipher
   register when the section was closed at the end of the plaintext (`PrefixIndependent`).

## Missing

* discharging `Safe` from a syntactic condition on the plaintext ("ends with `currentfile closefile` + delimiter and
  never mentions `eexec`") needs facts about the particular program run; it is a hypothesis here. Non-vacuity:
  `exSafe` (a run ending in `undefined`) and `exSafe3` (`currentfile closefile\n`: the section is closed, the
  dictionary stack restored, the clear text continues) below, proved by walking the call tree with
  `Safe.intro`, `safe_op_token`, `safe_pure_call`.
* the start state is the one at the call of the operator; the top-level `execute` wrapper is not restated.

## FINDING 2 (documented limit of the code, outside the generator's domain; confirmed on the Go code)

A plaintext that itself executes `currentfile eexec …` is refused inside an encrypted section (`invalidaccess:
nested eexec not supported`) but runs when executed as plaintext (Go: encrypted → that error, `a` undefined;
`systemdict begin … end` → `a=1 b=2`). C05 as a statement about ALL plaintexts is false for these; `Bad` excludes
them.

## FINDING (boundary of the property; confirmed on the Go code)

If the plaintext ends in the name `closefile` with NO delimiter byte after it inside the encrypted section, the
tokenizer's look-ahead for the end of the name decrypts clear text: binary — the first clear byte is consumed as a
cipher byte and its "decryption" is appended to the name (`closefile` followed by garbage: `undefined`), further
bytes follow as long as the garbage is a regular character; hexadecimal — bytes ≤ 32 of the clear text are skipped
and the next two bytes must be hex digits, else `invalid hex digit`. Go, same inputs (prefix `58 00 00 00`, plaintext
`/a 1 def mark currentfile closefile`, clear text `\ncleartomark /b 2 def`): binary `undefined: /closefile\x..`,
hex `invalid hex digit 'l'`; with `closefile\n` inside the section both run to the end (`a=1 b=2`). Conforming
fonts always encrypt the newline after `closefile`; the harness generator does too. The theorems below therefore
require nothing about where the plaintext ends, and `eexec_peek_past_end_binary` says exactly what happens there.
-/
namespace PsVerif.Props.C05
open PsVerif.Model PsVerif.Model.Scan PsVerif.Model.Cipher PsVerif.Proofs.EexecStream PsVerif.Proofs.EexecInterp

/-- **C05, byte stream, binary form.** -/
theorem eexec_stream_binary (s0 : Scanner) (ws pre plain rest : List UInt8) (hc : Clear s0)
    (hpk : s0.peek.length ≤ 4) (hpre : pre.length = 4) (hws : ∀ a ∈ ws, isEexecSpace a = true)
    (hlegal : BinaryLegal (encrypt eexecR (pre ++ plain)))
    (hs : s0.peek ++ s0.src = ws ++ binaryLayout (encrypt eexecR (pre ++ plain)) ++ rest)
    (k : Nat) (hk : k ≤ plain.length) :
    ∃ s1 s' sp', beginEexec s0 = (.ok (), s1) ∧
      s1 = afterBegin s0 2 (ws ++ pre) (stateAfter eexecR ((encrypt eexecR (pre ++ plain)).take 4))
            ((encrypt eexecR (pre ++ plain)).drop 4 ++ rest) ∧
      readN k [] s1 = (.ok (plain.take k, none), s') ∧
      s'.peek = [] ∧ s'.eexec = 2 ∧ s'.regurgitate = false ∧
      s'.src = (encrypt eexecR (pre ++ plain)).drop (4 + k) ++ rest ∧
      s'.r = stateAfter eexecR ((encrypt eexecR (pre ++ plain)).take (4 + k)) ∧
      Sim 2 (encrypt eexecR (pre ++ plain)) rest s' sp' ∧ sp'.peek = [] ∧ sp'.src = plain.drop k := by
  obtain ⟨s1, hb, hs1, hsim⟩ := eexec_begin_binary s0 ws pre plain rest hc hpk hpre hws hlegal hs
  have hp1 : s1.peek = [] := by rw [hs1]; rfl
  obtain ⟨s', sp', t, h1, h2, h3, h4, h5, h6, h7, h8⟩ :=
    eexec_stream 2 _ plain rest s1 (by rw [PsVerif.Props.Cipher.encrypt_length, List.length_append, hpre]) hp1 hsim k hk
  have ht : t = (encrypt eexecR (pre ++ plain)).drop (4 + k) := by
    rcases h6 with ⟨_, h⟩ | ⟨h, _⟩
    · exact h
    · omega
  exact ⟨s1, s', sp', hb, hs1, h1, h5, h2.eexec_e, h2.reg_e, by rw [h7, ht], h8, h2, h3, h4⟩

/-- **C05, byte stream, hexadecimal form**: for every legal hexadecimal layout `t` of the cipher text. -/
theorem eexec_stream_hex (s0 : Scanner) (ws pre plain t rest : List UInt8) (hc : Clear s0)
    (hpk : s0.peek.length ≤ 4) (hpre : pre.length = 4) (hws : ∀ a ∈ ws, isEexecSpace a = true)
    (hlay : HexLayout (encrypt eexecR (pre ++ plain)) t)
    (hs : s0.peek ++ s0.src = ws ++ t ++ rest)
    (k : Nat) (hk : k ≤ plain.length) :
    ∃ s1 s' sp' t1 t', beginEexec s0 = (.ok (), s1) ∧
      HexTail ((encrypt eexecR (pre ++ plain)).drop 4) t1 ∧
      s1 = afterBegin s0 1 (ws ++ pre) (stateAfter eexecR ((encrypt eexecR (pre ++ plain)).take 4)) (t1 ++ rest) ∧
      readN k [] s1 = (.ok (plain.take k, none), s') ∧
      s'.peek = [] ∧ s'.eexec = 1 ∧ s'.regurgitate = false ∧
      HexTail ((encrypt eexecR (pre ++ plain)).drop (4 + k)) t' ∧ s'.src = t' ++ rest ∧
      s'.r = stateAfter eexecR ((encrypt eexecR (pre ++ plain)).take (4 + k)) ∧
      Sim 1 (encrypt eexecR (pre ++ plain)) rest s' sp' ∧ sp'.peek = [] ∧ sp'.src = plain.drop k := by
  obtain ⟨s1, t1, hb, ht1, hs1, hsim⟩ := eexec_begin_hex s0 ws pre plain t rest hc hpk hpre hws hlay hs
  have hp1 : s1.peek = [] := by rw [hs1]; rfl
  obtain ⟨s', sp', t', h1, h2, h3, h4, h5, h6, h7, h8⟩ :=
    eexec_stream 1 _ plain rest s1 (by rw [PsVerif.Props.Cipher.encrypt_length, List.length_append, hpre]) hp1 hsim k hk
  have ht : HexTail ((encrypt eexecR (pre ++ plain)).drop (4 + k)) t' := by
    rcases h6 with ⟨h, _⟩ | ⟨_, h⟩
    · omega
    · exact h
  exact ⟨s1, s', sp', t1, t', hb, ht1, hs1, h1, h5, h2.eexec_e, h2.reg_e, ht, h7, h8, h2, h3, h4⟩

/-- **C05, simulation**: the scanner's reading primitives and loops cannot tell an eexec section from its
plaintext (definition of `SimM`: same result and `Sim`-related states, or the plain side has run into its end). -/
theorem eexec_sim_ops :
    SimM readByte ∧ SimM next ∧ SimM Scan.peek ∧ (∀ n fuel, SimM (peekN n fuel)) ∧ (∀ pat, SimM (lookingAt pat)) ∧
    SimM skipByte ∧ (∀ n, SimM (skipN n)) ∧ (∀ b, SimM (skipRequiredByte b)) ∧ (∀ b, SimM (skipOptionalByte b)) ∧
    (∀ n acc, SimM (readN n acc)) ∧
    (∀ fuel acc, SimM (readRegular fuel acc)) ∧ (∀ fuel res level ign, SimM (readStringBody fuel res level ign)) ∧
    (∀ fuel res first hi, SimM (readHexBody fuel res first hi)) ∧
    (∀ fuel res pos val, SimM (readA85Body fuel res pos val)) ∧ (∀ n oct, SimM (readOctal n oct)) ∧
    (∀ fuel, SimM (skipToEOL fuel)) ∧ (∀ fuel acc, SimM (readLine fuel acc)) ∧ (∀ fuel, SimM (skipBlanks fuel)) ∧
    (∀ fuel acc, SimM (readCommentKey fuel acc)) :=
  ⟨SimM.readByte, SimM.next, SimM.peek, SimM.peekN, SimM.lookingAt, SimM.skipByte, SimM.skipN, SimM.skipRequiredByte,
   SimM.skipOptionalByte, SimM.readN, SimM.readRegular, SimM.readStringBody, SimM.readHexBody, SimM.readA85Body,
   SimM.readOctal, SimM.skipToEOL, SimM.readLine, SimM.skipBlanks, SimM.readCommentKey⟩

/-- `SimM` is closed under the monad operations the scanner is written in -/
theorem eexec_sim_closure {α β : Type} :
    (∀ a : α, SimM (pure a : SM α)) ∧ (∀ e, SimM (fail e : SM α)) ∧
    (∀ (m : SM α) (k : α → SM β), SimM m → (∀ a, SimM (k a)) → SimM (m >>= k)) ∧
    (∀ m : SM α, SimM m → SimM (attempt m)) ∧
    (∀ f, Benign f → SimM (modS f)) :=
  ⟨SimM.pure, SimM.fail, fun _ _ hm hk => SimM.bind hm hk, fun _ hm => SimM.attempt hm, fun _ hf => SimM.modS hf⟩

/-- **C05, closing the section**: `endEexec` clears the mode and nothing else -/
theorem eexec_close (se : Scanner) : endEexec se = (.ok (), { se with eexec := 0 }) := endEexec_run se

/-- **C05, closing at the end of the plaintext**: if every plaintext byte has been decrypted (some may still sit in
the peek buffer, e.g. the delimiter after `closefile`), the scanner after `endEexec` is exactly the plain scanner
continued with the clear text `rest`: eexec off, the same peeked plaintext bytes, `src = rest`. -/
theorem eexec_close_at_end {mode : Nat} {cipher rest : List UInt8} {se sp : Scanner} (h : Sim mode cipher rest se sp)
    (hend : sp.src = []) : endEexec se = (.ok (), { sp with src := rest, r := se.r }) :=
  h.endEexec_at_end hend

/-- reading the whole plaintext and closing: eexec off, nothing peeked, the remaining source is exactly `rest` -/
theorem eexec_read_all_then_close (mode : Nat) (cipher plain rest : List UInt8) (s1 : Scanner)
    (hlen : cipher.length = 4 + plain.length) (hpk : s1.peek = [])
    (hsim : Sim mode cipher rest s1 (plainOf s1 plain)) :
    ∃ s' s'', readN plain.length [] s1 = (.ok (plain, none), s') ∧ endEexec s' = (.ok (), s'') ∧
      s''.eexec = 0 ∧ s''.regurgitate = false ∧ s''.peek = [] ∧ s''.src = rest := by
  obtain ⟨s', sp', t, h1, h2, h3, h4, _, _, _, _⟩ :=
    eexec_stream mode cipher plain rest s1 hlen hpk hsim plain.length (Nat.le_refl _)
  have hend : sp'.src = [] := by rw [h4]; simp
  exact ⟨s', _, by simpa using h1, Sim.endEexec_at_end h2 hend, h2.eexec_p, h2.reg_p, h3, rfl⟩

/-- **C05, looking past the end (binary)**: see the FINDING in the header -/
theorem eexec_peek_past_end_binary {cipher rest : List UInt8} {se sp : Scanner} (h : Sim 2 cipher rest se sp)
    (hpk : sp.peek = []) (hend : sp.src = []) (b : UInt8) (rest' : List UInt8) (hr : rest = b :: rest') :
    Scan.peek se = (.ok (b ^^^ keyByte se.r),
      { se with peek := [b ^^^ keyByte se.r], src := rest', r := nextR se.r b }) :=
  h.peek_past_end_binary hpk hend b rest' hr

/-! ## Token level -/

/-- **C05, tokens**: `ScanToken` and its parts cannot tell an eexec section from its plaintext -/
theorem eexec_sim_scanToken :
    SimM scanToken ∧ (∀ fuel, SimM (skipWhiteSpace fuel)) ∧ SimM readString ∧ SimM readHexString ∧
    SimM readBase85String ∧ SimM readStructuredComment ∧ SimM skipComment ∧
    (∀ fuel acc, SimM (readCommentValue fuel acc)) :=
  ⟨SimM.scanToken, SimM.skipWhiteSpace, SimM.readString, SimM.readHexString, SimM.readBase85String,
   SimM.readStructuredComment, SimM.skipComment, SimM.readCommentValue⟩

/-- **fuel independence**: on clear scanners with at most `n` bytes left (`CL n`: eexec off, no replay,
`peek.length + src.length ≤ n`) every loop of the tokenizer returns the same result and state for all fuels `> n` -/
theorem eexec_fuel_independent (n f f' : Nat) (hf : n < f) (hf' : n < f') :
    AgreeOn (CL n) (skipWhiteSpace f) (skipWhiteSpace f') ∧
    (∀ acc, AgreeOn (CL n) (readRegular f acc) (readRegular f' acc)) ∧
    (∀ res level ign, AgreeOn (CL n) (readStringBody f res level ign) (readStringBody f' res level ign)) ∧
    (∀ res first hi, AgreeOn (CL n) (readHexBody f res first hi) (readHexBody f' res first hi)) ∧
    (∀ res pos val, AgreeOn (CL n) (readA85Body f res pos val) (readA85Body f' res pos val)) ∧
    AgreeOn (CL n) (skipToEOL f) (skipToEOL f') ∧
    (∀ acc, AgreeOn (CL n) (readLine f acc) (readLine f' acc)) ∧
    AgreeOn (CL n) (skipBlanks f) (skipBlanks f') ∧
    (∀ acc, AgreeOn (CL n) (readCommentKey f acc) (readCommentKey f' acc)) ∧
    (∀ acc, AgreeOn (CL n) (readCommentValue f acc) (readCommentValue f' acc)) :=
  ⟨FI.skipWhiteSpace n f f' hf hf', FI.readRegular n f f' hf hf', FI.readStringBody n f f' hf hf',
   FI.readHexBody n f f' hf hf', FI.readA85Body n f f' hf hf', FI.skipToEOL n f f' hf hf', FI.readLine n f f' hf hf',
   FI.skipBlanks n f f' hf hf', FI.readCommentKey n f f' hf hf', FI.readCommentValue n f f' hf hf'⟩

/-! ## Interpreter level -/

/-- **C05, interpreter**: every function of the interpreter's mutual block, run on states that differ only in
`Sim`-related scanners, returns the same result and states that again differ only in `Sim`-related scanners, as
long as the plain run evaluates no `Bad` call (`AllSim` lists the thirteen statements) -/
theorem eexec_interp_sim (dl mode : Nat) (cipher rest : List UInt8) (m fuel : Nat) : AllSim dl mode cipher rest fuel m :=
  allSim m fuel

/-- **C05 on the model, binary sections** (see item 6 of the header for the reading) -/
theorem eexec_operator_binary (fuel m : Nat) (a0 : State) (st : List Obj) (ws pre plain rest : List UInt8)
    (hst : a0.vm.stack = .file :: st) (hdepth : a0.scannerDepth ≠ 0)
    (hc : Clear a0.scanner) (hpk : a0.scanner.peek.length ≤ 4) (hpre : pre.length = 4)
    (hws : ∀ x ∈ ws, isEexecSpace x = true)
    (hlegal : BinaryLegal (encrypt eexecR (pre ++ plain)))
    (hs : a0.scanner.peek ++ a0.scanner.src = ws ++ binaryLayout (encrypt eexecR (pre ++ plain)) ++ rest)
    (hsafe : Safe (.sRun fuel m (plainState a0 st
      (plainStart a0.scanner (ws ++ pre) (stateAfter eexecR ((encrypt eexecR (pre ++ plain)).take 4)) plain)))) :
    ∃ seF, Sim 2 (encrypt eexecR (pre ++ plain)) rest seF
        (scanRun fuel m (plainState a0 st
          (plainStart a0.scanner (ws ++ pre) (stateAfter eexecR ((encrypt eexecR (pre ++ plain)).take 4)) plain))).1.scanner ∧
      callBuiltin (fuel + 1) m a0 "eexec" =
        closeSection a0.vm.dictStack.length
          (scanRun fuel m (plainState a0 st
            (plainStart a0.scanner (ws ++ pre) (stateAfter eexecR ((encrypt eexecR (pre ++ plain)).take 4)) plain))).1
          (scanRun fuel m (plainState a0 st
            (plainStart a0.scanner (ws ++ pre) (stateAfter eexecR ((encrypt eexecR (pre ++ plain)).take 4)) plain))).2
          seF :=
  PsVerif.Proofs.EexecInterp.eexec_operator_binary fuel m a0 st ws pre plain rest hst hdepth hc hpk hpre hws hlegal hs hsafe

/-- **C05 on the model, hexadecimal sections** -/
theorem eexec_operator_hex (fuel m : Nat) (a0 : State) (st : List Obj) (ws pre plain t rest : List UInt8)
    (hst : a0.vm.stack = .file :: st) (hdepth : a0.scannerDepth ≠ 0)
    (hc : Clear a0.scanner) (hpk : a0.scanner.peek.length ≤ 4) (hpre : pre.length = 4)
    (hws : ∀ x ∈ ws, isEexecSpace x = true)
    (hlay : HexLayout (encrypt eexecR (pre ++ plain)) t)
    (hs : a0.scanner.peek ++ a0.scanner.src = ws ++ t ++ rest)
    (hsafe : Safe (.sRun fuel m (plainState a0 st
      (plainStart a0.scanner (ws ++ pre) (stateAfter eexecR ((encrypt eexecR (pre ++ plain)).take 4)) plain)))) :
    ∃ seF, Sim 1 (encrypt eexecR (pre ++ plain)) rest seF
        (scanRun fuel m (plainState a0 st
          (plainStart a0.scanner (ws ++ pre) (stateAfter eexecR ((encrypt eexecR (pre ++ plain)).take 4)) plain))).1.scanner ∧
      callBuiltin (fuel + 1) m a0 "eexec" =
        closeSection a0.vm.dictStack.length
          (scanRun fuel m (plainState a0 st
            (plainStart a0.scanner (ws ++ pre) (stateAfter eexecR ((encrypt eexecR (pre ++ plain)).take 4)) plain))).1
          (scanRun fuel m (plainState a0 st
            (plainStart a0.scanner (ws ++ pre) (stateAfter eexecR ((encrypt eexecR (pre ++ plain)).take 4)) plain))).2
          seF :=
  PsVerif.Proofs.EexecInterp.eexec_operator_hex fuel m a0 st ws pre plain t rest hst hdepth hc hpk hpre hws hlay hs hsafe

/-- **C05, after the section**: closed section, plaintext decrypted completely: result `ok`, the state of the plain
run with the dictionary stack cut back and the scanner continued with the clear text `rest` -/
theorem eexec_closed_at_end {mode : Nat} {cipher rest : List UInt8} {k : Nat} {bF : State} {rF : Res} {seF : Scanner}
    (h : Sim mode cipher rest seF bF.scanner) (hend : bF.scanner.src = []) (hr : rF = .ok ∨ rF = .err .eof) :
    closeSection k bF rF seF =
      okS { bF with vm := truncDictStack bF.vm k, scanner := { bF.scanner with src := rest, r := seF.r } } :=
  closeSection_at_end h hend hr

/-! ## Independence of the lead bytes (column, structured comments) -/

/-- **C05, the four lead bytes do not matter (binary form).** `sc1`, `sc2`: the same clear scanner (`core`:
everything but the pending input) standing before `ws ++ encrypt (pre_i ++ plain) ++ rest` for two legal
prefixes; `a0` the interpreter state about to execute `eexec`. Then `PrefixIndependent`: same result, same
interpreter state up to the scanner (so the same operand stack, heap, `numOps`, and the same collected `State.dsc`),
scanners agreeing in `peek`, `col`, `crSeen`, `dsc`, `err`, `fault`, `eexec`, `regurgitate`, and — section closed,
plaintext decrypted completely — scanners equal up to `line` and the cipher register `r`. -/
theorem eexec_dsc_prefix_independent (fuel m : Nat) (a0 : State) (st : List Obj) (sc1 sc2 : Scanner)
    (ws pre1 pre2 plain rest : List UInt8)
    (hst : a0.vm.stack = .file :: st) (hdepth : a0.scannerDepth ≠ 0)
    (hcore : core sc1 = core sc2) (hc : Clear sc1)
    (hpk1 : sc1.peek.length ≤ 4) (hpk2 : sc2.peek.length ≤ 4) (hpre1 : pre1.length = 4) (hpre2 : pre2.length = 4)
    (hws : ∀ x ∈ ws, isEexecSpace x = true)
    (hl1 : BinaryLegal (encrypt eexecR (pre1 ++ plain))) (hl2 : BinaryLegal (encrypt eexecR (pre2 ++ plain)))
    (hs1 : sc1.peek ++ sc1.src = ws ++ binaryLayout (encrypt eexecR (pre1 ++ plain)) ++ rest)
    (hs2 : sc2.peek ++ sc2.src = ws ++ binaryLayout (encrypt eexecR (pre2 ++ plain)) ++ rest)
    (hsafe : Safe (.sRun fuel m (plainState a0 st (plainStart0 sc1 ws plain)))) :
    PrefixIndependent fuel m a0 sc1 sc2 (scanRun fuel m (plainState a0 st (plainStart0 sc1 ws plain))) :=
  eexec_prefix_independent_binary fuel m a0 st sc1 sc2 ws pre1 pre2 plain rest hst hdepth hcore hc hpk1 hpk2 hpre1 hpre2
    hws hl1 hl2 hs1 hs2 hsafe

/-- **C05, the four lead bytes do not matter (hexadecimal form)**, nor do the layouts `t1`, `t2` -/
theorem eexec_dsc_prefix_independent_hex (fuel m : Nat) (a0 : State) (st : List Obj) (sc1 sc2 : Scanner)
    (ws pre1 pre2 plain t1 t2 rest : List UInt8)
    (hst : a0.vm.stack = .file :: st) (hdepth : a0.scannerDepth ≠ 0)
    (hcore : core sc1 = core sc2) (hc : Clear sc1)
    (hpk1 : sc1.peek.length ≤ 4) (hpk2 : sc2.peek.length ≤ 4) (hpre1 : pre1.length = 4) (hpre2 : pre2.length = 4)
    (hws : ∀ x ∈ ws, isEexecSpace x = true)
    (hl1 : HexLayout (encrypt eexecR (pre1 ++ plain)) t1) (hl2 : HexLayout (encrypt eexecR (pre2 ++ plain)) t2)
    (hs1 : sc1.peek ++ sc1.src = ws ++ t1 ++ rest) (hs2 : sc2.peek ++ sc2.src = ws ++ t2 ++ rest)
    (hsafe : Safe (.sRun fuel m (plainState a0 st (plainStart0 sc1 ws plain)))) :
    PrefixIndependent fuel m a0 sc1 sc2 (scanRun fuel m (plainState a0 st (plainStart0 sc1 ws plain))) :=
  eexec_prefix_independent_hex fuel m a0 st sc1 sc2 ws pre1 pre2 plain t1 t2 rest hst hdepth hcore hc hpk1 hpk2 hpre1
    hpre2 hws hl1 hl2 hs1 hs2 hsafe

/-- in particular: the collected structured comments and the column are the same -/
theorem PrefixIndependent.dsc_col {fuel m : Nat} {a0 : State} {sc1 sc2 : Scanner} {pF : State × Res}
    (h : PrefixIndependent fuel m a0 sc1 sc2 pF) :
    (callBuiltin (fuel + 1) m { a0 with scanner := sc1 } "eexec").1.dsc =
      (callBuiltin (fuel + 1) m { a0 with scanner := sc2 } "eexec").1.dsc ∧
    (callBuiltin (fuel + 1) m { a0 with scanner := sc1 } "eexec").1.scanner.dsc =
      (callBuiltin (fuel + 1) m { a0 with scanner := sc2 } "eexec").1.scanner.dsc ∧
    (callBuiltin (fuel + 1) m { a0 with scanner := sc1 } "eexec").1.scanner.col =
      (callBuiltin (fuel + 1) m { a0 with scanner := sc2 } "eexec").1.scanner.col ∧
    (callBuiltin (fuel + 1) m { a0 with scanner := sc1 } "eexec").1.scanner.crSeen =
      (callBuiltin (fuel + 1) m { a0 with scanner := sc2 } "eexec").1.scanner.crSeen :=
  ⟨by rw [h.2.1], h.2.2.1.2.2.2.1, h.2.2.1.2.1, h.2.2.1.2.2.1⟩

/-- the relation `beginEexec` establishes: column 0, `crSeen` off, whatever the lead bytes (binary form) -/
theorem eexec_begin_col0 (s0 : Scanner) (ws pre plain rest : List UInt8) (hc : Clear s0) (hpk : s0.peek.length ≤ 4)
    (hpre : pre.length = 4) (hws : ∀ a ∈ ws, isEexecSpace a = true)
    (hlegal : BinaryLegal (encrypt eexecR (pre ++ plain)))
    (hs : s0.peek ++ s0.src = ws ++ binaryLayout (encrypt eexecR (pre ++ plain)) ++ rest) :
    ∃ s1, beginEexec s0 = (.ok (), s1) ∧ s1.col = 0 ∧ s1.crSeen = false ∧ s1.dsc = s0.dsc ∧
      (plainStart0 s0 ws plain).col = 0 ∧ (plainStart0 s0 ws plain).crSeen = false ∧
      SimL (prefixLines s0 ws pre) 2 (encrypt eexecR (pre ++ plain)) rest s1 (plainStart0 s0 ws plain) := by
  obtain ⟨s1, hb, hs1, hsim⟩ := eexec_begin_binary0 s0 ws pre plain rest hc hpk hpre hws hlegal hs
  refine ⟨s1, hb, ?_, ?_, ?_, rfl, rfl, hsim⟩
  · rw [hs1]; rfl
  · rw [hs1]; rfl
  · rw [hsim.dsc_eq]; unfold plainStart0 ov; rw [bumps_frame]

/-! ### the concrete case of the repair

plaintext `%%Foo: bar␤%%Baz: 1␤1 2 add mark currentfile closefile␤`, hexadecimal section in a complete program, lead
bytes `F1 'x' 'y' 'z'` (before the repair: `Foo` was lost, the first line started in column 4) and `F1 'x' 'y' LF` -/

def bytesOf (s : String) : List UInt8 := s.toList.map (fun c => UInt8.ofNat c.toNat)
def hexDigit (n : Nat) : UInt8 := if n < 10 then UInt8.ofNat (48 + n) else UInt8.ofNat (87 + n)
def hexOf (c : List UInt8) : List UInt8 := c.flatMap (fun b => [hexDigit (b.toNat / 16), hexDigit (b.toNat % 16)])
def dscPlain : List UInt8 := bytesOf "%%Foo: bar\n%%Baz: 1\n1 2 add mark currentfile closefile\n"
def dscProgram (lead : List UInt8) : List UInt8 :=
  bytesOf "%!\ncurrentfile eexec\n" ++ hexOf (encrypt eexecR (lead ++ dscPlain)) ++ bytesOf "\n" ++
    List.replicate 64 48 ++ bytesOf "\ncleartomark 99\n"

/-- both lead-byte quadruples: both structured comments are recorded (checked by the kernel) -/
theorem exDscLeadBytes :
    (execute 10000 0 newInterpreter (dscProgram [0xF1, 120, 121, 122]) none).1.dsc = [("Foo", "bar"), ("Baz", "1")] ∧
    (execute 10000 0 newInterpreter (dscProgram [0xF1, 120, 121, 10]) none).1.dsc = [("Foo", "bar"), ("Baz", "1")] := by
  decide +kernel

#guard (execute 10000 0 newInterpreter (dscProgram [0xF1, 120, 121, 122]) none).2 == .ok
#guard (execute 10000 0 newInterpreter (dscProgram [0xF1, 120, 121, 122]) none).1.dsc == [("Foo", "bar"), ("Baz", "1")]
#guard (execute 10000 0 newInterpreter (dscProgram [0xF1, 120, 121, 10]) none).1.dsc == [("Foo", "bar"), ("Baz", "1")]
#guard (execute 10000 0 newInterpreter (dscProgram [0xF1, 120, 121, 122]) none).1.vm.stack ==
  (execute 10000 0 newInterpreter (dscProgram [0xF1, 120, 121, 10]) none).1.vm.stack
#guard (execute 10000 0 newInterpreter (dscProgram [0xF1, 120, 121, 122]) none).1.scanner.col ==
  (execute 10000 0 newInterpreter (dscProgram [0xF1, 120, 121, 10]) none).1.scanner.col
-- the line counter is the one field that still depends on the lead bytes (`Line` is not reset)
#guard (execute 10000 0 newInterpreter (dscProgram [0xF1, 120, 121, 122]) none).1.scanner.line + 1 ==
  (execute 10000 0 newInterpreter (dscProgram [0xF1, 120, 121, 10]) none).1.scanner.line

/-! ## Non-vacuity: a concrete plaintext, prefix and layouts -/

/-- random prefix `58 00 00 00` -/
def exPre : List UInt8 := [88, 0, 0, 0]
/-- plaintext `dup\n` -/
def exPlain : List UInt8 := [100, 117, 112, 10]
/-- its cipher text `81 e0 6b 53 a4 51 6c 46` -/
def exCipher : List UInt8 := [129, 224, 107, 83, 164, 81, 108, 70]
/-- clear text after the section: `\ncleartomark` -/
def exRest : List UInt8 := [10, 99, 108, 101, 97, 114, 116, 111, 109, 97, 114, 107]

theorem exCipher_eq : encrypt eexecR (exPre ++ exPlain) = exCipher := by decide +kernel

theorem exBinaryLegal : BinaryLegal (encrypt eexecR (exPre ++ exPlain)) := by
  rw [exCipher_eq]
  exact ⟨fun b h => by cases h; decide, by decide⟩

/-- the scanner right after the token `eexec`: the delimiter `\n` has been peeked -/
def exStartBin : Scanner := { peek := [10], src := exCipher ++ exRest }

/-- all hypotheses of `eexec_stream_binary` hold for this instance -/
example :=
  eexec_stream_binary exStartBin [10] exPre exPlain exRest ⟨rfl, rfl⟩ (by decide) rfl (by decide) exBinaryLegal
    (by rw [exCipher_eq]; rfl) 4 (by decide)

/-- the same, computed by the model: the four bytes `dup\n` come out, `rest` is untouched, nothing is peeked -/
example : (match (beginEexec >>= fun _ => readN 4 []) exStartBin with
    | (.ok (bs, none), s) => bs == exPlain && s.src == exRest && s.peek == [] && s.eexec == 2
    | _ => false) = true := by decide +kernel

/-- a hexadecimal layout of `exCipher`: mixed case, LF right after the fourth digit, blank/LF inside a digit
pair, CR LF, TAB and NUL between digits:  `81E0 \n 6b ␣5\n3 A4 \r\n51 \t6C 4\0 6` -/
def exHexText : List UInt8 :=
  [56, 49, 69, 48, 10, 54, 98, 32, 53, 10, 51, 65, 52, 13, 10, 53, 49, 9, 54, 67, 52, 0, 54]

theorem HexTail.cons' {c : UInt8} {cs ts : List UInt8} (w1 : List UInt8) (h : UInt8) (w2 : List UInt8) (l : UInt8)
    (hw1 : IsWs w1) (hw2 : IsWs w2) (hh : hexNibble h = some (c >>> 4)) (hl : hexNibble l = some (c &&& 15))
    (ht : HexTail cs ts) : HexTail (c :: cs) (w1 ++ h :: (w2 ++ l :: ts)) := by
  have := HexTail.cons ⟨w1, h, w2, l, rfl, hw1, hw2, hh, hl⟩ ht
  simpa using this

theorem exHexLayout : HexLayout (encrypt eexecR (exPre ++ exPlain)) exHexText := by
  rw [exCipher_eq]
  refine ⟨?_, by decide⟩
  exact HexTail.cons' [] 56 [] 49 (by simp [IsWs]) (by simp [IsWs]) (by decide) (by decide)
    (HexTail.cons' [] 69 [] 48 (by simp [IsWs]) (by simp [IsWs]) (by decide) (by decide)
    (HexTail.cons' [10] 54 [] 98 (by simp [IsWs]) (by simp [IsWs]) (by decide) (by decide)
    (HexTail.cons' [32] 53 [10] 51 (by simp [IsWs]) (by simp [IsWs]) (by decide) (by decide)
    (HexTail.cons' [] 65 [] 52 (by simp [IsWs]) (by simp [IsWs]) (by decide) (by decide)
    (HexTail.cons' [13, 10] 53 [] 49 (by simp [IsWs]) (by simp [IsWs]) (by decide) (by decide)
    (HexTail.cons' [9] 54 [] 67 (by simp [IsWs]) (by simp [IsWs]) (by decide) (by decide)
    (HexTail.cons' [] 52 [0] 54 (by simp [IsWs]) (by simp [IsWs]) (by decide) (by decide)
    HexTail.nil)))))))

/-- nothing peeked, `eexec` followed by CR LF -/
def exStartHex : Scanner := { src := [13, 10] ++ exHexText ++ exRest }

/-- all hypotheses of `eexec_stream_hex` hold for this instance -/
example :=
  eexec_stream_hex exStartHex [13, 10] exPre exPlain exHexText exRest ⟨rfl, rfl⟩ (by decide) rfl (by decide)
    exHexLayout rfl 4 (by decide)

example : (match (beginEexec >>= fun _ => readN 4 []) exStartHex with
    | (.ok (bs, none), s) => bs == exPlain && s.src == exRest && s.peek == [] && s.eexec == 1
    | _ => false) = true := by decide +kernel

/-! ## The legality conditions are exact (negative examples, computed by the model) -/

/-- white space inside the first four hex digits: the section is taken for binary, the plaintext is not delivered -/
example : (match (beginEexec >>= fun _ => readN 4 []) { src := [56, 49, 10, 69, 48] ++ exHexText.drop 4 ++ exRest } with
    | (.ok (bs, _), s) => s.eexec == 2 && bs != exPlain
    | _ => false) = true := by decide +kernel

/-- a form feed before the digits is not skipped: binary again -/
example : (match (beginEexec >>= fun _ => readN 4 []) { src := [12] ++ exHexText ++ exRest } with
    | (.ok (bs, _), s) => s.eexec == 2 && bs != exPlain
    | _ => false) = true := by decide +kernel

/-! ## The FINDING, computed by the model

plaintext `dup` + `\n` replaced by nothing: here the plaintext `exPlain.take 3` ends in the name `dup` with no
delimiter inside the section; a `peek` for the end of the name after the three bytes have been read … -/

def exCipher3 : List UInt8 := exCipher.take 7

/-- … binary: consumes the clear byte `\n` of `rest` as cipher text and returns its "decryption" (not `\n`) -/
example : (match (beginEexec >>= fun _ => readN 3 [] >>= fun _ => Scan.peek) { src := [10] ++ exCipher3 ++ exRest } with
    | (.ok b, s) => b != 10 && s.src == exRest.drop 1 && s.peek == [b]
    | _ => false) = true := by decide +kernel

/-- … hexadecimal: skips `\n`, takes `c` for a digit and fails at `l` (`invalid hex digit`), clear text consumed -/
example : (match (beginEexec >>= fun _ => readN 3 [] >>= fun _ => Scan.peek)
      { src := [10] ++ exHexText.take 20 ++ exRest } with
    | (.error (.other _), s) => s.src == exRest.drop 3
    | _ => false) = true := by decide +kernel

/-! ## Non-vacuity of the interpreter-level theorem

A run of the nested scan loop that is `Safe`: plaintext `x␣` (an undefined name) in an interpreter whose system
dictionary is empty; the call tree `scanRun → scanLoop → execOne → execBody → execTail` is walked explicitly. -/

def exPlain2 : List UInt8 := [120, 32]
def exVM : VM := { stack := [Obj.file], roots := (default : Roots) }
def exSc : Scanner := { peek := [10], src := encrypt eexecR (exPre ++ exPlain2) ++ [10, 55] }
def exA0 : State := { vm := exVM, scanner := exSc, scannerDepth := 1 }
def exB0 : State := plainState exA0 []
  (plainStart exA0.scanner ([10] ++ exPre) (stateAfter eexecR ((encrypt eexecR (exPre ++ exPlain2)).take 4)) exPlain2)

theorem exSafe : Safe (.sRun (4 + 1) 0 exB0) := by
  refine Safe.intro (fun h => by cases h.1) (fun c' h => ?_)
  cases h with
  | sRun f m s s1 hst =>
    have e : scanStart exB0 = (exB0, none) := rfl
    rw [e] at hst
    cases hst
    have etok : withScanner { exB0 with scannerDepth := exB0.scannerDepth + 1 } Scan.scanToken =
        ((withScanner { exB0 with scannerDepth := exB0.scannerDepth + 1 } Scan.scanToken).1,
          .ok (.obj (.op (Scan.bytesToString [120])))) := rfl
    refine Safe.intro (fun h => by cases h.2.2.2) (fun c' h => ?_)
    cases h with
    | sLoop_next f m s s1 tok s3 hw hx =>
      rw [etok] at hw
      cases hw
      have : (execOne 3 0 (objOfTok (withScanner { exB0 with scannerDepth := exB0.scannerDepth + 1 } Scan.scanToken).1
        (.obj (.op (Scan.bytesToString [120])))).1 (.op (Scan.bytesToString [120])) false).2 = .err (.ps "undefined") := by
        decide +kernel
      have h3 := congrArg Prod.snd hx
      have h5 : Res.ok = Res.err (.ps "undefined") := h3.symm.trans this
      cases h5
    | sLoop_one f m s s1 tok hw =>
      rw [etok] at hw
      cases hw
      refine Safe.intro (fun h => h) (fun c' h => ?_)
      cases h with
      | one_f =>
        refine Safe.intro (fun h => h) (fun c' h => ?_)
        cases h with
        | body =>
          refine Safe.intro (fun h => h) (fun c' h => ?_)
          cases h with
          | tail_name f m s n e c v hv =>
            have h2 : (none : Option Obj) = some v := hv
            cases h2

theorem exBinaryLegal2 : BinaryLegal (encrypt eexecR (exPre ++ exPlain2)) := by
  have e : encrypt eexecR (exPre ++ exPlain2) = [129, 224, 107, 83, 184, 100] := by decide +kernel
  rw [e]
  exact ⟨fun b h => by cases h; decide, by decide⟩

/-- all hypotheses of `eexec_operator_binary` hold for this instance -/
example := eexec_operator_binary 5 0 exA0 [] [10] exPre exPlain2 [10, 55] rfl (by decide) ⟨rfl, rfl⟩ (by decide) rfl
  (by decide) exBinaryLegal2 rfl exSafe

/-- … and the model computes what the theorem says: the error of the plain run, the dictionary stack cut back,
the clear text `rest` untouched, the delimiter after `x` still peeked -/
example : (callBuiltin 6 0 exA0 "eexec").2 = (scanRun 5 0 exB0).2 ∧ (scanRun 5 0 exB0).2 = .err (.ps "undefined") ∧
    (callBuiltin 6 0 exA0 "eexec").1.vm.dictStack.length = exA0.vm.dictStack.length ∧
    (callBuiltin 6 0 exA0 "eexec").1.scanner.src = [10, 55] ∧
    (callBuiltin 6 0 exA0 "eexec").1.scanner.peek = (scanRun 5 0 exB0).1.scanner.peek := by decide +kernel

/-! ### a section that closes its file

plaintext `currentfile closefile\n` in an interpreter whose system dictionary knows these two operators; the run
is `Safe`, ends with `err eof` (what `closefile` returns) with the whole plaintext decrypted, so the operator returns
`ok`, the dictionary stack is restored and the scanner continues with the clear text -/

/-- plaintext `currentfile closefile\n` -/
def exPlain3 : List UInt8 :=
  [99, 117, 114, 114, 101, 110, 116, 102, 105, 108, 101, 32, 99, 108, 111, 115, 101, 102, 105, 108, 101, 10]
def exHeap3 : Array Cell := #[.dict [("currentfile", .builtin "currentfile"), ("closefile", .builtin "closefile")]]
def exVM3 : VM := { stack := [Obj.file], heap := exHeap3, roots := (default : Roots) }
def exSc3 : Scanner := { peek := [10], src := encrypt eexecR (exPre ++ exPlain3) ++ [10, 55, 32] }
def exA3 : State := { vm := exVM3, scanner := exSc3, scannerDepth := 1 }
def exB3 : State := plainState exA3 []
  (plainStart exA3.scanner ([10] ++ exPre) (stateAfter eexecR ((encrypt eexecR (exPre ++ exPlain3)).take 4)) exPlain3)

abbrev exS0 : State := { exB3 with scannerDepth := exB3.scannerDepth + 1 }
def exN1 : String := Scan.bytesToString (exPlain3.take 11)
def exN2 : String := Scan.bytesToString ((exPlain3.drop 12).take 9)
def exS1 : State := (withScanner exS0 Scan.scanToken).1
def exS2 : State := (execOne 6 0 exS1 (.op exN1) false).1
def exS3 : State := (withScanner exS2 Scan.scanToken).1

def isOpTok (r : Except Err Scan.Tok) (n : String) : Bool :=
  match r with
  | .ok (.obj (.op k)) => decide (k = n)
  | _ => false

theorem tok_of_check {r : Except Err Scan.Tok} {n : String} (h : isOpTok r n = true) : r = .ok (.obj (.op n)) := by
  unfold isOpTok at h
  split at h
  · rename_i k
    have : k = n := by simpa using h
    rw [this]
  · cases h

theorem pair_eq {α β : Type} (p : α × β) (b : β) (h : p.2 = b) : p = (p.1, b) := by
  cases p; cases h; rfl

theorem exTok1 : withScanner exS0 Scan.scanToken = (exS1, .ok (.obj (.op exN1))) :=
  pair_eq _ _ (tok_of_check (by decide +kernel))
theorem exRun1 : execOne 6 0 exS1 (.op exN1) false = (exS2, .ok) :=
  pair_eq _ _ (by decide +kernel)
theorem exTok2 : withScanner exS2 Scan.scanToken = (exS3, .ok (.obj (.op exN2))) :=
  pair_eq _ _ (tok_of_check (by decide +kernel))

theorem exLook1 : lookupName exS1.vm exN1 = some (.builtin "currentfile") := by decide +kernel
theorem exLook2 : lookupName exS3.vm exN2 = some (.builtin "closefile") := by decide +kernel
theorem exCall1 : (callBuiltin (1 + 1) 0 { exS1 with numOps := exS1.numOps + 1 + 1 } "currentfile").2 = .ok := by
  decide +kernel
theorem exCall2 : (callBuiltin (0 + 1) 0 { exS3 with numOps := exS3.numOps + 1 + 1 } "closefile").2 = .err .eof := by
  decide +kernel
theorem exRun2 : (execOne 5 0 exS3 (.op exN2) false).2 = .err .eof := by decide +kernel
theorem exNotExh1 : ¬ exS1.scanner.src = [] := by decide +kernel
theorem exNotExh3 : ¬ exS3.scanner.err.isSome = true := by decide +kernel

attribute [irreducible] exS1 exS2 exS3 exN1 exN2

theorem exSafeTok1 : Safe (.one (1 + 1 + 1 + 1 + 1 + 1) 0 exS1 (.op exN1) false) :=
  safe_op_token (f := 1) (s := exS1) (n := exN1) (id := "currentfile") exLook1 (by simp)
    (fun h => h) (fun s1 name h => by
      have h2 := congrArg Prod.snd h
      rw [exCall1] at h2
      cases h2)

theorem exSafeTok2 : Safe (.one (0 + 1 + 1 + 1 + 1 + 1) 0 exS3 (.op exN2) false) :=
  safe_op_token (f := 0) (s := exS3) (n := exN2) (id := "closefile") exLook2 (by simp)
    (fun h => h) (fun s1 name h => by
      have h2 := congrArg Prod.snd h
      rw [exCall2] at h2
      cases h2)

theorem exSafeLoop2 : Safe (.sLoop (5 + 1) 0 exS2) := by
  refine Safe.intro (fun h => ?_) (fun c' h => ?_)
  · simp only [Bad] at h
    rw [exTok2] at h
    exact absurd h.2.2.2 exNotExh3
  · cases h with
    | sLoop_one f m s s1 tok hw =>
      rw [exTok2] at hw
      cases hw
      simp only [objOfTok_obj]
      exact exSafeTok2
    | sLoop_next f m s s1 tok s3 hw hx =>
      rw [exTok2] at hw
      cases hw
      simp only [objOfTok_obj] at hx
      have h2 := congrArg Prod.snd hx
      have h5 : Res.ok = Res.err .eof := h2.symm.trans exRun2
      cases h5

theorem exSafeLoop1 : Safe (.sLoop (6 + 1) 0 exS0) := by
  refine Safe.intro (fun h => ?_) (fun c' h => ?_)
  · simp only [Bad] at h
    rw [exTok1] at h
    exact absurd h.2.2.1 exNotExh1
  · cases h with
    | sLoop_one f m s s1 tok hw =>
      rw [exTok1] at hw
      cases hw
      simp only [objOfTok_obj]
      exact exSafeTok1
    | sLoop_next f m s s1 tok s3 hw hx =>
      rw [exTok1] at hw
      cases hw
      simp only [objOfTok_obj] at hx
      have h3 : (s3, Res.ok) = (exS2, Res.ok) := hx.symm.trans exRun1
      cases h3
      exact exSafeLoop2

theorem exSafe3 : Safe (.sRun (7 + 1) 0 exB3) := by
  refine Safe.intro (fun h => by cases h.1) (fun c' h => ?_)
  cases h with
  | sRun f m s s1 hst =>
    have e : scanStart exB3 = (exB3, none) := rfl
    rw [e] at hst
    cases hst
    exact exSafeLoop1

theorem exBinaryLegal3 : BinaryLegal (encrypt eexecR (exPre ++ exPlain3)) := by
  refine ⟨fun b h => ?_, by decide +kernel⟩
  have e : (encrypt eexecR (exPre ++ exPlain3)).head? = some 129 := by decide +kernel
  rw [e] at h
  cases h
  decide

/-- the operator on the encrypted section = the plain run, dictionary stack cut back, scanner continued with the
clear text `\n7␣` (the peeked delimiter `\n` of the plaintext is still in the peek buffer) -/
example : ∃ seF : Scanner, callBuiltin (8 + 1) 0 exA3 "eexec" =
    okS { (scanRun 8 0 exB3).1 with
      vm := truncDictStack (scanRun 8 0 exB3).1.vm exA3.vm.dictStack.length,
      scanner := { (scanRun 8 0 exB3).1.scanner with src := [10, 55, 32], r := seF.r } } := by
  obtain ⟨seF, hs, he⟩ := eexec_operator_binary 8 0 exA3 [] [10] exPre exPlain3 [10, 55, 32] rfl (by decide) ⟨rfl, rfl⟩
    (by decide) rfl (by decide) exBinaryLegal3 rfl exSafe3
  refine ⟨seF, ?_⟩
  rw [he]
  exact eexec_closed_at_end hs (by decide +kernel) (Or.inr (by decide +kernel))

#print axioms eexec_stream_binary
#print axioms eexec_stream_hex
#print axioms eexec_sim_ops
#print axioms eexec_sim_closure
#print axioms eexec_close_at_end
#print axioms eexec_read_all_then_close
#print axioms eexec_peek_past_end_binary
#print axioms exHexLayout
#print axioms exBinaryLegal
#print axioms eexec_sim_scanToken
#print axioms eexec_fuel_independent
#print axioms eexec_interp_sim
#print axioms eexec_operator_binary
#print axioms eexec_operator_hex
#print axioms eexec_closed_at_end
#print axioms exSafe
#print axioms exSafe3
#print axioms eexec_dsc_prefix_independent
#print axioms eexec_dsc_prefix_independent_hex
#print axioms PrefixIndependent.dsc_col
#print axioms eexec_begin_col0
#print axioms exDscLeadBytes

/-- Chunked streams stay in step (all states, all chunkings): what the reader recovers from an encrypted chunk `a`
followed by further cipher bytes `cs` is `a` followed by the decryption of `cs` from the state the writer was left in.
Together with `Cipher.dec_enc` this is why an eexec section written in any number of flushes reads back whole. -/
theorem chunked_in_step (r : UInt16) (a cs : List UInt8) :
    PsVerif.Model.Cipher.decrypt r (PsVerif.Model.Cipher.encrypt r a ++ cs) =
      a ++ PsVerif.Model.Cipher.decrypt
        (PsVerif.Model.Cipher.stateAfter r (PsVerif.Model.Cipher.encrypt r a)) cs := by
  rw [PsVerif.Proofs.EexecStream.decrypt_append, PsVerif.Props.Cipher.dec_enc]

end PsVerif.Props.C05
