import PsVerif.Proofs.EexecStream
/-!
# C05 — the byte stream underneath `eexec`

Property C05: executing a program whose tail is eexec-encrypted (hexadecimal with interior white space, or binary,
any legal four-byte random prefix, any length) has exactly the effect of executing the plaintext with systemdict
pushed; when the encrypted part closes its file, decryption stops and the clear text that follows is executed
normally; binary data read with `readstring` inside the section is delivered byte-exact.

This file states the scanner-level theorems (model: `Model/Scanner.lean`, `Model/Cipher.lean`), for ALL plaintexts,
prefixes and layouts, no length bound. Proofs are in `Proofs/EexecStream.lean`.

## Legality conditions (read off `BeginEexec`, and exact: see the negative examples at the end)

* start state `s0`: decryption off, not replaying (`Clear s0`), at most four bytes in the peek buffer (after the
  token `eexec` there is at most one: the delimiter that ended the token). The pending input is `s0.peek ++ s0.src`.
* pending input `= ws ++ layout ++ rest` where `ws` consists of blank/tab/CR/LF only (`isEexecSpace`; NUL and FF are
  PostScript white space but are NOT skipped here).
* binary (`BinaryLegal c`, `layout = c`): the first cipher byte is not blank/tab/CR/LF and the first four cipher
  bytes are not all hexadecimal digits. These are the two conditions of the Type 1 book.
* hexadecimal (`HexLayout c t`): `t` spells `c` in hex digits of either case with bytes ≤ 32 (any of them, NUL
  included) before any digit, none after the last digit (`HexTail c t`), and the first four bytes of `t` are hex
  digits. White space immediately after the fourth digit is legal. No condition on the random prefix.

## What is proved

1. `eexec_stream_binary`, `eexec_stream_hex`: `beginEexec` succeeds and then `k ≤ plain.length` reads through `Next`
   (`readN k`, i.e. `scanner.Read`, what `readstring` uses) return exactly `plain.take k`; exactly `4 + k` cipher
   bytes have been consumed, the register is `stateAfter 55665 (cipher.take (4 + k))`, nothing is peeked: the four
   bytes peeked by `BeginEexec` to choose the mode are replayed exactly once, in both modes.
2. `Sim`/`SimM` (simulation): `readByte`, `next`, `peek`, `peekN`, `lookingAt`, `skipByte`, `skipN`,
   `skipRequiredByte`, `skipOptionalByte`, `readN` and every tokenizer loop at a fixed fuel (`readRegular`,
   `readStringBody`, `readHexBody`, `readA85Body`, `readOctal`, `skipToEOL`, `readLine`, `skipBlanks`,
   `readCommentKey`) cannot tell the eexec state from the plain state over the plaintext: same results (values and
   errors), related states, until the plain side runs into the end of the plaintext. `SimM` is closed under `pure`,
   `fail`, `>>=`, `attempt`, `if`, benign `modS`, and `getS` restricted to peek buffer / replay flag / position.
3. `eexec_close`, `eexec_close_at_end`: `endEexec` only clears the mode. If the plaintext has been decrypted
   completely, the state is exactly the plain scanner continued with `rest` — plaintext bytes still in the peek
   buffer (the delimiter after `closefile`) are delivered first, then `rest`, in clear.
4. `eexec_peek_past_end_binary`: what a look-ahead past the end of the plaintext does (see FINDING below).

## Missing for the full C05

* `scanToken`/`skipWhiteSpace` as a whole: they compute loop fuel from `fuelOf s` (length of the RAW source), which
  differs between the two sides; needed in addition: each loop's result does not depend on the fuel once it is
  large enough. All their loops are covered at equal fuel (item 2).
* the interpreter level (`Model/Interp.lean`: systemdict pushed, nested `scanRun`, dictionary stack restored).

## FINDING (boundary of the property; confirmed on the Go code)

If the plaintext ends in the name `closefile` with NO delimiter byte after it inside the encrypted section, the
tokenizer's look-ahead for the end of the name decrypts clear text: binary — the first clear byte is consumed as a
cipher byte and its "decryption" is appended to the name (`closefile` followed by garbage: `undefined`), further
bytes follow as long as the garbage is a regular character; hexadecimal — bytes ≤ 32 of the clear text are skipped
and the next two bytes must be hex digits, else `invalid hex digit`. Go, same inputs (prefix `58 00 00 00`, plaintext
`/a 1 def mark currentfile closefile`, clear text `\ncleartomark /b 2 def`): binary `undefined: /closefile\x..`,
hex `invalid hex digit 'l'`; with `closefile\n` inside the section both run to the end (`a=1 b=2`). Conforming
fonts always encrypt the newline after `closefile`; the harness generator does too. The theorems below therefore
require nothing about where the plaintext ends, and `eexec_peek_past_end_binary` says exactly what happens there.
-/
namespace PsVerif.Props.C05
open PsVerif.Model PsVerif.Model.Scan PsVerif.Model.Cipher PsVerif.Proofs.EexecStream

/-- **C05, byte stream, binary form.** -/
theorem eexec_stream_binary (s0 : Scanner) (ws pre plain rest : List UInt8) (hc : Clear s0)
    (hpk : s0.peek.length ≤ 4) (hpre : pre.length = 4) (hws : ∀ a ∈ ws, isEexecSpace a = true)
    (hlegal : BinaryLegal (encrypt eexecR (pre ++ plain)))
    (hs : s0.peek ++ s0.src = ws ++ binaryLayout (encrypt eexecR (pre ++ plain)) ++ rest)
    (k : Nat) (hk : k ≤ plain.length) :
    ∃ s1 s' sp', beginEexec s0 = (.ok (), s1) ∧
      s1 = afterBegin s0 2 (ws ++ pre) (stateAfter eexecR ((encrypt eexecR (pre ++ plain)).take 4))
            ((encrypt eexecR (pre ++ plain)).drop 4 ++ rest) ∧
      readN k [] s1 = (.ok (plain.take k, none), s') ∧
      s'.peek = [] ∧ s'.eexec = 2 ∧ s'.regurgitate = false ∧
      s'.src = (encrypt eexecR (pre ++ plain)).drop (4 + k) ++ rest ∧
      s'.r = stateAfter eexecR ((encrypt eexecR (pre ++ plain)).take (4 + k)) ∧
      Sim 2 (encrypt eexecR (pre ++ plain)) rest s' sp' ∧ sp'.peek = [] ∧ sp'.src = plain.drop k := by
  obtain ⟨s1, hb, hs1, hsim⟩ := eexec_begin_binary s0 ws pre plain rest hc hpk hpre hws hlegal hs
  have hp1 : s1.peek = [] := by rw [hs1]; rfl
  obtain ⟨s', sp', t, h1, h2, h3, h4, h5, h6, h7, h8⟩ :=
    eexec_stream 2 _ plain rest s1 (by rw [PsVerif.Props.Cipher.encrypt_length, List.length_append, hpre]) hp1 hsim k hk
  have ht : t = (encrypt eexecR (pre ++ plain)).drop (4 + k) := by
    rcases h6 with ⟨_, h⟩ | ⟨h, _⟩
    · exact h
    · omega
  exact ⟨s1, s', sp', hb, hs1, h1, h5, h2.eexec_e, h2.reg_e, by rw [h7, ht], h8, h2, h3, h4⟩

/-- **C05, byte stream, hexadecimal form**: for every legal hexadecimal layout `t` of the cipher text. -/
theorem eexec_stream_hex (s0 : Scanner) (ws pre plain t rest : List UInt8) (hc : Clear s0)
    (hpk : s0.peek.length ≤ 4) (hpre : pre.length = 4) (hws : ∀ a ∈ ws, isEexecSpace a = true)
    (hlay : HexLayout (encrypt eexecR (pre ++ plain)) t)
    (hs : s0.peek ++ s0.src = ws ++ t ++ rest)
    (k : Nat) (hk : k ≤ plain.length) :
    ∃ s1 s' sp' t1 t', beginEexec s0 = (.ok (), s1) ∧
      HexTail ((encrypt eexecR (pre ++ plain)).drop 4) t1 ∧
      s1 = afterBegin s0 1 (ws ++ pre) (stateAfter eexecR ((encrypt eexecR (pre ++ plain)).take 4)) (t1 ++ rest) ∧
      readN k [] s1 = (.ok (plain.take k, none), s') ∧
      s'.peek = [] ∧ s'.eexec = 1 ∧ s'.regurgitate = false ∧
      HexTail ((encrypt eexecR (pre ++ plain)).drop (4 + k)) t' ∧ s'.src = t' ++ rest ∧
      s'.r = stateAfter eexecR ((encrypt eexecR (pre ++ plain)).take (4 + k)) ∧
      Sim 1 (encrypt eexecR (pre ++ plain)) rest s' sp' ∧ sp'.peek = [] ∧ sp'.src = plain.drop k := by
  obtain ⟨s1, t1, hb, ht1, hs1, hsim⟩ := eexec_begin_hex s0 ws pre plain t rest hc hpk hpre hws hlay hs
  have hp1 : s1.peek = [] := by rw [hs1]; rfl
  obtain ⟨s', sp', t', h1, h2, h3, h4, h5, h6, h7, h8⟩ :=
    eexec_stream 1 _ plain rest s1 (by rw [PsVerif.Props.Cipher.encrypt_length, List.length_append, hpre]) hp1 hsim k hk
  have ht : HexTail ((encrypt eexecR (pre ++ plain)).drop (4 + k)) t' := by
    rcases h6 with ⟨h, _⟩ | ⟨_, h⟩
    · omega
    · exact h
  exact ⟨s1, s', sp', t1, t', hb, ht1, hs1, h1, h5, h2.eexec_e, h2.reg_e, ht, h7, h8, h2, h3, h4⟩

/-- **C05, simulation**: the scanner's reading primitives and loops cannot tell an eexec section from its
plaintext (definition of `SimM`: same result and `Sim`-related states, or the plain side has run into its end). -/
theorem eexec_sim_ops :
    SimM readByte ∧ SimM next ∧ SimM Scan.peek ∧ (∀ n fuel, SimM (peekN n fuel)) ∧ (∀ pat, SimM (lookingAt pat)) ∧
    SimM skipByte ∧ (∀ n, SimM (skipN n)) ∧ (∀ b, SimM (skipRequiredByte b)) ∧ (∀ b, SimM (skipOptionalByte b)) ∧
    (∀ n acc, SimM (readN n acc)) ∧
    (∀ fuel acc, SimM (readRegular fuel acc)) ∧ (∀ fuel res level ign, SimM (readStringBody fuel res level ign)) ∧
    (∀ fuel res first hi, SimM (readHexBody fuel res first hi)) ∧
    (∀ fuel res pos val, SimM (readA85Body fuel res pos val)) ∧ (∀ n oct, SimM (readOctal n oct)) ∧
    (∀ fuel, SimM (skipToEOL fuel)) ∧ (∀ fuel acc, SimM (readLine fuel acc)) ∧ (∀ fuel, SimM (skipBlanks fuel)) ∧
    (∀ fuel acc, SimM (readCommentKey fuel acc)) :=
  ⟨SimM.readByte, SimM.next, SimM.peek, SimM.peekN, SimM.lookingAt, SimM.skipByte, SimM.skipN, SimM.skipRequiredByte,
   SimM.skipOptionalByte, SimM.readN, SimM.readRegular, SimM.readStringBody, SimM.readHexBody, SimM.readA85Body,
   SimM.readOctal, SimM.skipToEOL, SimM.readLine, SimM.skipBlanks, SimM.readCommentKey⟩

/-- `SimM` is closed under the monad operations the scanner is written in -/
theorem eexec_sim_closure {α β : Type} :
    (∀ a : α, SimM (pure a : SM α)) ∧ (∀ e, SimM (fail e : SM α)) ∧
    (∀ (m : SM α) (k : α → SM β), SimM m → (∀ a, SimM (k a)) → SimM (m >>= k)) ∧
    (∀ m : SM α, SimM m → SimM (attempt m)) ∧
    (∀ f, Benign f → SimM (modS f)) :=
  ⟨SimM.pure, SimM.fail, fun _ _ hm hk => SimM.bind hm hk, fun _ hm => SimM.attempt hm, fun _ hf => SimM.modS hf⟩

/-- **C05, closing the section**: `endEexec` clears the mode and nothing else -/
theorem eexec_close (se : Scanner) : endEexec se = (.ok (), { se with eexec := 0 }) := endEexec_run se

/-- **C05, closing at the end of the plaintext**: if every plaintext byte has been decrypted (some may still sit in
the peek buffer, e.g. the delimiter after `closefile`), the scanner after `endEexec` is exactly the plain scanner
continued with the clear text `rest`: eexec off, the same peeked plaintext bytes, `src = rest`. -/
theorem eexec_close_at_end {mode : Nat} {cipher rest : List UInt8} {se sp : Scanner} (h : Sim mode cipher rest se sp)
    (hend : sp.src = []) : endEexec se = (.ok (), { sp with src := rest, r := se.r }) :=
  h.endEexec_at_end hend

/-- reading the whole plaintext and closing: eexec off, nothing peeked, the remaining source is exactly `rest` -/
theorem eexec_read_all_then_close (mode : Nat) (cipher plain rest : List UInt8) (s1 : Scanner)
    (hlen : cipher.length = 4 + plain.length) (hpk : s1.peek = [])
    (hsim : Sim mode cipher rest s1 (plainOf s1 plain)) :
    ∃ s' s'', readN plain.length [] s1 = (.ok (plain, none), s') ∧ endEexec s' = (.ok (), s'') ∧
      s''.eexec = 0 ∧ s''.regurgitate = false ∧ s''.peek = [] ∧ s''.src = rest := by
  obtain ⟨s', sp', t, h1, h2, h3, h4, _, _, _, _⟩ :=
    eexec_stream mode cipher plain rest s1 hlen hpk hsim plain.length (Nat.le_refl _)
  have hend : sp'.src = [] := by rw [h4]; simp
  exact ⟨s', _, by simpa using h1, h2.endEexec_at_end hend, h2.eexec_p, h2.reg_p, h3, rfl⟩

/-- **C05, looking past the end (binary)**: see the FINDING in the header -/
theorem eexec_peek_past_end_binary {cipher rest : List UInt8} {se sp : Scanner} (h : Sim 2 cipher rest se sp)
    (hpk : sp.peek = []) (hend : sp.src = []) (b : UInt8) (rest' : List UInt8) (hr : rest = b :: rest') :
    Scan.peek se = (.ok (b ^^^ keyByte se.r),
      { se with peek := [b ^^^ keyByte se.r], src := rest', r := nextR se.r b }) :=
  h.peek_past_end_binary hpk hend b rest' hr

/-! ## Non-vacuity: a concrete plaintext, prefix and layouts -/

/-- random prefix `58 00 00 00` -/
def exPre : List UInt8 := [88, 0, 0, 0]
/-- plaintext `dup\n` -/
def exPlain : List UInt8 := [100, 117, 112, 10]
/-- its cipher text `81 e0 6b 53 a4 51 6c 46` -/
def exCipher : List UInt8 := [129, 224, 107, 83, 164, 81, 108, 70]
/-- clear text after the section: `\ncleartomark` -/
def exRest : List UInt8 := [10, 99, 108, 101, 97, 114, 116, 111, 109, 97, 114, 107]

theorem exCipher_eq : encrypt eexecR (exPre ++ exPlain) = exCipher := by decide +kernel

theorem exBinaryLegal : BinaryLegal (encrypt eexecR (exPre ++ exPlain)) := by
  rw [exCipher_eq]
  exact ⟨fun b h => by cases h; decide, by decide⟩

/-- the scanner right after the token `eexec`: the delimiter `\n` has been peeked -/
def exStartBin : Scanner := { peek := [10], src := exCipher ++ exRest }

/-- all hypotheses of `eexec_stream_binary` hold for this instance -/
example :=
  eexec_stream_binary exStartBin [10] exPre exPlain exRest ⟨rfl, rfl⟩ (by decide) rfl (by decide) exBinaryLegal
    (by rw [exCipher_eq]; rfl) 4 (by decide)

/-- the same, computed by the model: the four bytes `dup\n` come out, `rest` is untouched, nothing is peeked -/
example : (match (beginEexec >>= fun _ => readN 4 []) exStartBin with
    | (.ok (bs, none), s) => bs == exPlain && s.src == exRest && s.peek == [] && s.eexec == 2
    | _ => false) = true := by decide +kernel

/-- a hexadecimal layout of `exCipher`: mixed case, LF right after the fourth digit, blank/LF inside a digit
pair, CR LF, TAB and NUL between digits:  `81E0 \n 6b ␣5\n3 A4 \r\n51 \t6C 4\0 6` -/
def exHexText : List UInt8 :=
  [56, 49, 69, 48, 10, 54, 98, 32, 53, 10, 51, 65, 52, 13, 10, 53, 49, 9, 54, 67, 52, 0, 54]

theorem HexTail.cons' {c : UInt8} {cs ts : List UInt8} (w1 : List UInt8) (h : UInt8) (w2 : List UInt8) (l : UInt8)
    (hw1 : IsWs w1) (hw2 : IsWs w2) (hh : hexNibble h = some (c >>> 4)) (hl : hexNibble l = some (c &&& 15))
    (ht : HexTail cs ts) : HexTail (c :: cs) (w1 ++ h :: (w2 ++ l :: ts)) := by
  have := HexTail.cons ⟨w1, h, w2, l, rfl, hw1, hw2, hh, hl⟩ ht
  simpa using this

theorem exHexLayout : HexLayout (encrypt eexecR (exPre ++ exPlain)) exHexText := by
  rw [exCipher_eq]
  refine ⟨?_, by decide⟩
  exact HexTail.cons' [] 56 [] 49 (by simp [IsWs]) (by simp [IsWs]) (by decide) (by decide)
    (HexTail.cons' [] 69 [] 48 (by simp [IsWs]) (by simp [IsWs]) (by decide) (by decide)
    (HexTail.cons' [10] 54 [] 98 (by simp [IsWs]) (by simp [IsWs]) (by decide) (by decide)
    (HexTail.cons' [32] 53 [10] 51 (by simp [IsWs]) (by simp [IsWs]) (by decide) (by decide)
    (HexTail.cons' [] 65 [] 52 (by simp [IsWs]) (by simp [IsWs]) (by decide) (by decide)
    (HexTail.cons' [13, 10] 53 [] 49 (by simp [IsWs]) (by simp [IsWs]) (by decide) (by decide)
    (HexTail.cons' [9] 54 [] 67 (by simp [IsWs]) (by simp [IsWs]) (by decide) (by decide)
    (HexTail.cons' [] 52 [0] 54 (by simp [IsWs]) (by simp [IsWs]) (by decide) (by decide)
    HexTail.nil)))))))

/-- nothing peeked, `eexec` followed by CR LF -/
def exStartHex : Scanner := { src := [13, 10] ++ exHexText ++ exRest }

/-- all hypotheses of `eexec_stream_hex` hold for this instance -/
example :=
  eexec_stream_hex exStartHex [13, 10] exPre exPlain exHexText exRest ⟨rfl, rfl⟩ (by decide) rfl (by decide)
    exHexLayout rfl 4 (by decide)

example : (match (beginEexec >>= fun _ => readN 4 []) exStartHex with
    | (.ok (bs, none), s) => bs == exPlain && s.src == exRest && s.peek == [] && s.eexec == 1
    | _ => false) = true := by decide +kernel

/-! ## The legality conditions are exact (negative examples, computed by the model) -/

/-- white space inside the first four hex digits: the section is taken for binary, the plaintext is not delivered -/
example : (match (beginEexec >>= fun _ => readN 4 []) { src := [56, 49, 10, 69, 48] ++ exHexText.drop 4 ++ exRest } with
    | (.ok (bs, _), s) => s.eexec == 2 && bs != exPlain
    | _ => false) = true := by decide +kernel

/-- a form feed before the digits is not skipped: binary again -/
example : (match (beginEexec >>= fun _ => readN 4 []) { src := [12] ++ exHexText ++ exRest } with
    | (.ok (bs, _), s) => s.eexec == 2 && bs != exPlain
    | _ => false) = true := by decide +kernel

/-! ## The FINDING, computed by the model

plaintext `dup` + `\n` replaced by nothing: here the plaintext `exPlain.take 3` ends in the name `dup` with no
delimiter inside the section; a `peek` for the end of the name after the three bytes have been read … -/

def exCipher3 : List UInt8 := exCipher.take 7

/-- … binary: consumes the clear byte `\n` of `rest` as cipher text and returns its "decryption" (not `\n`) -/
example : (match (beginEexec >>= fun _ => readN 3 [] >>= fun _ => Scan.peek) { src := [10] ++ exCipher3 ++ exRest } with
    | (.ok b, s) => b != 10 && s.src == exRest.drop 1 && s.peek == [b]
    | _ => false) = true := by decide +kernel

/-- … hexadecimal: skips `\n`, takes `c` for a digit and fails at `l` (`invalid hex digit`), clear text consumed -/
example : (match (beginEexec >>= fun _ => readN 3 [] >>= fun _ => Scan.peek)
      { src := [10] ++ exHexText.take 20 ++ exRest } with
    | (.error (.other _), s) => s.src == exRest.drop 3
    | _ => false) = true := by decide +kernel

#print axioms eexec_stream_binary
#print axioms eexec_stream_hex
#print axioms eexec_sim_ops
#print axioms eexec_sim_closure
#print axioms eexec_close_at_end
#print axioms eexec_read_all_then_close
#print axioms eexec_peek_past_end_binary
#print axioms exHexLayout
#print axioms exBinaryLegal

end PsVerif.Props.C05
