import PsVerif.Proofs.C03Bind
/-!
# C03 — `bind`: executable names resolve to operators at bind time

`bBind` (`Model/Builtins.lean`, Go `bBind`/`bindProc`) walks the procedure on top of the
operand stack and replaces every executable name that the dictionary stack *of that moment*
resolves to an operator by the operator; nothing else.

* `bBind_ignores_bindSeen`, `bBind_clears_bindSeen` : the visited set of earlier calls has no
  influence and is empty afterwards.
* `bBind_frame`, `bBind_underflow`, `bBind_typecheck` : what is not touched; the error cases.
* `bind_flat_spec` : the exact result for a body without nested procedures, with corollaries
  `bind_keeps_non_operator_names`, `bind_keeps_boolean_names`, `bind_replaces_operator_names`.
* `bind_changes_only_operator_names`, `bind_never_replaces_other_names`,
  `bind_keeps_other_cells` : for every procedure (any nesting, any outcome) an element of the
  store is either unchanged or was a name that resolves to an operator and is now that operator.
-/
namespace PsVerif.Props.C03
open PsVerif.Model PsVerif.Proofs.C03Bind

/-- `bindElem` is the elementwise action of `bind` -/
theorem bindElem_def (s : VM) : bindElem s = fun e => match e with
    | .op n => (match lookupName s n with
      | some (.builtin b) => .builtin b
      | _ => .op n)
    | e => e := by
  funext e; cases e <;> rfl

/-! ### 1. the visited set of earlier calls -/

/-- with a procedure on top, whatever earlier calls visited makes no difference at all -/
theorem bBind_ignores_bindSeen_proc (s : VM) (x : List (Nat × Nat × Nat)) (r o l : Nat) (rest : List Obj)
    (h : s.stack = .proc r o l :: rest) : bBind { s with bindSeen := x } = bBind s := by
  obtain ⟨st, ds, dg, hp, c1, c2, c3, c4, ro, sn⟩ := s
  simp only at h
  subst h
  rfl

/-- in every case: same outcome, and the same data up to the `bindSeen` field
(on the error branches `bBind` returns its argument, `bindSeen` included) -/
theorem bBind_ignores_bindSeen (s : VM) (x : List (Nat × Nat × Nat)) :
    (bBind { s with bindSeen := x }).2 = (bBind s).2 ∧
    { (bBind { s with bindSeen := x }).1 with bindSeen := [] } = { (bBind s).1 with bindSeen := [] } := by
  obtain ⟨st, ds, dg, hp, c1, c2, c3, c4, ro, sn⟩ := s
  cases st with
  | nil => exact ⟨rfl, rfl⟩
  | cons o rest => cases o <;> exact ⟨rfl, rfl⟩

/-- after `bind` of a procedure the visited set is empty, for every outcome -/
theorem bBind_clears_bindSeen (s : VM) (r o l : Nat) (rest : List Obj) (h : s.stack = .proc r o l :: rest) :
    (bBind s).1.bindSeen = [] := by
  unfold bBind
  simp only [h]

/-- on the error branches the data is returned as it came (`bindSeen` too) -/
theorem bBind_underflow (s : VM) (h : s.stack = []) : bBind s = (s, .err (.ps "stackunderflow")) := by
  unfold bBind
  simp only [h, psErr]

theorem bBind_typecheck (s : VM) (x : Obj) (rest : List Obj) (h : s.stack = x :: rest)
    (hx : ∀ r o l, x ≠ .proc r o l) : bBind s = (s, .err (.ps "typecheck")) := by
  unfold bBind
  rw [h]
  cases x <;> first | rfl | exact absurd rfl (hx _ _ _)

/-- hence: no call of `bBind` on data with an empty visited set leaves a non-empty one -/
theorem bBind_bindSeen_empty (s : VM) (h : s.bindSeen = []) : (bBind s).1.bindSeen = [] := by
  cases hst : s.stack with
  | nil => rw [bBind_underflow s hst]; exact h
  | cons x rest =>
    by_cases hx : ∃ r o l, x = .proc r o l
    · obtain ⟨r, o, l, rfl⟩ := hx
      exact bBind_clears_bindSeen s r o l rest hst
    · rw [bBind_typecheck s x rest hst (fun r o l e => hx ⟨r, o, l, e⟩)]; exact h

/-! ### 2. what `bind` does not touch -/

/-- the general relation between the data before and after `bind`, for every outcome -/
theorem bBind_rel (s : VM) : BindRel s (bBind s).1 := by
  unfold bBind
  split
  · exact .refl s
  · next r o l rest hst =>
    have g := (bind_rel ((heapSlots s + 2) * (maxBindDepth + 3))).1 { s with bindSeen := [] } r o l 0
    generalize bindProc _ _ r o l 0 = p at g
    obtain ⟨s', res⟩ := p
    exact (BindRel.seen s []).trans (g.trans (BindRel.seen s' []))
  · exact .refl s

/-- only `heap` and `bindSeen` can differ afterwards, whatever the outcome -/
theorem bBind_frame (s : VM) :
    (bBind s).1 = { s with heap := (bBind s).1.heap, bindSeen := (bBind s).1.bindSeen } :=
  (bBind_rel s).frame

/-- in particular the operand stack (the procedure stays on it), the dictionary stack and its
ghost, the CMap scratch fields and the roots -/
theorem bBind_frame_fields (s : VM) :
    (bBind s).1.stack = s.stack ∧ (bBind s).1.dictStack = s.dictStack ∧ (bBind s).1.dictGhost = s.dictGhost ∧
    (bBind s).1.cmapMappings = s.cmapMappings ∧ (bBind s).1.cmapCodeSpaceRanges = s.cmapCodeSpaceRanges ∧
    (bBind s).1.cmapChars = s.cmapChars ∧ (bBind s).1.cmapRanges = s.cmapRanges ∧ (bBind s).1.roots = s.roots := by
  have h := bBind_frame s
  generalize (bBind s).1 = v at h
  refine ⟨?_, ?_, ?_, ?_, ?_, ?_, ?_, ?_⟩ <;> rw [h]

/-- no cell appears or disappears -/
theorem bBind_heap_size (s : VM) : (bBind s).1.heap.size = s.heap.size := (bBind_rel s).size

/-! ### 3. a body without nested procedures -/

/-- the fuel `bBind` passes is enough for any stretch of one cell -/
theorem bind_fuel_flat (s : VM) (r l : Nat) (h : l ≤ (s.getObjs r).size) :
    l + 2 ≤ (heapSlots s + 2) * (maxBindDepth + 3) := by
  obtain ⟨f, hf, hl⟩ := bind_fuel_enough s r l h
  omega

theorem bBind_flat_post (s : VM) (r o l : Nat) (rest : List Obj)
    (hst : s.stack = .proc r o l :: rest)
    (hsz : o + l ≤ (s.getObjs r).size)
    (hflat : ∀ i, i < l → ∀ r' o' l', (s.getObjs r)[o + i]? ≠ some (.proc r' o' l')) :
    ∃ v' x, bBind s = ({ v' with bindSeen := [] }, .ok) ∧ FlatPost { s with bindSeen := x } v' r o l := by
  obtain ⟨f, hf, hle⟩ := bind_fuel_enough s r l (by omega)
  unfold bBind
  split
  · next h => rw [hst] at h; cases h
  · next r2 o2 l2 rest2 h =>
    rw [hst] at h
    cases h
    rw [hf]
    simp only [bindProc]
    rw [if_neg (by simp [maxBindDepth])]
    by_cases hl : l = 0
    · subst hl
      exact ⟨{ s with bindSeen := [] }, [], by simp [okRes], .zero _ r o⟩
    · rw [if_neg (by simpa using hl), if_neg (by simp)]
      obtain ⟨v', hv', hp⟩ := bindLoop_flat r o 0 f l 0 { s with bindSeen := [(r, o, l)] } (by omega) hsz
        (fun j _ hj => hflat j (by omega))
      rw [Nat.add_zero] at hp
      exact ⟨v', [(r, o, l)], by rw [hv'], hp⟩
  · next h1 h2 => exact (h2 _ _ _ _ hst).elim

/-- **`bind` of a procedure whose body holds no procedure**: the outcome is `.ok`; each element
of the body is replaced by its image under `bindElem s` — an executable name that the
dictionary stack of `s` (the data at the time of the call) resolves to an operator becomes
that operator, everything else stays; the rest of the cell, every other cell and the number
of cells are unchanged. -/
theorem bind_flat_spec (s : VM) (r o l : Nat) (rest : List Obj)
    (hst : s.stack = .proc r o l :: rest)
    (hsz : o + l ≤ (s.getObjs r).size)
    (hflat : ∀ i, i < l → ∀ r' o' l', (s.getObjs r)[o + i]? ≠ some (.proc r' o' l')) :
    (bBind s).2 = .ok ∧
    (∀ i, i < l → ((bBind s).1.getObjs r)[o + i]? = ((s.getObjs r)[o + i]?).map (bindElem s)) ∧
    (∀ j, j < o ∨ o + l ≤ j → ((bBind s).1.getObjs r)[j]? = (s.getObjs r)[j]?) ∧
    ((bBind s).1.getObjs r).size = (s.getObjs r).size ∧
    (∀ r', r' ≠ r → (bBind s).1.heap[r']? = s.heap[r']?) ∧
    (bBind s).1.heap.size = s.heap.size := by
  obtain ⟨v', x, hb, hp⟩ := bBind_flat_post s r o l rest hst hsz hflat
  rw [hb]
  refine ⟨rfl, fun i hi => ?_, fun j hj => ?_, hp.osize, hp.other, hp.size⟩
  · have := hp.elems (o + i)
    rw [if_pos (by omega)] at this
    exact this
  · have := hp.elems j
    rw [if_neg (by omega)] at this
    exact this

/-- the same as one equation between the views (Go: the slice `proc` before and after) -/
theorem bind_flat_view (s : VM) (r o l : Nat) (rest : List Obj)
    (hst : s.stack = .proc r o l :: rest)
    (hsz : o + l ≤ (s.getObjs r).size)
    (hflat : ∀ i, i < l → ∀ r' o' l', (s.getObjs r)[o + i]? ≠ some (.proc r' o' l')) :
    (bBind s).1.viewObjs r o l = (s.viewObjs r o l).map (bindElem s) := by
  obtain ⟨-, h1, -, h3, -, -⟩ := bind_flat_spec s r o l rest hst hsz hflat
  apply List.ext_getElem?
  intro i
  simp only [VM.viewObjs, List.getElem?_map, Array.getElem?_toList, Array.getElem?_extract]
  by_cases hi : i < l
  · rw [if_pos (by omega), if_pos (by omega)]
    exact h1 i hi
  · rw [if_neg (by omega), if_neg (by omega)]; rfl

/-- a name whose value is not an operator — a boolean, a number, a procedure, or no value at
all — is left in the body as the name -/
theorem bind_keeps_non_operator_names (s : VM) (r o l : Nat) (rest : List Obj)
    (hst : s.stack = .proc r o l :: rest)
    (hsz : o + l ≤ (s.getObjs r).size)
    (hflat : ∀ i, i < l → ∀ r' o' l', (s.getObjs r)[o + i]? ≠ some (.proc r' o' l'))
    (i : Nat) (hi : i < l) (n : Name) (hn : (s.getObjs r)[o + i]? = some (.op n))
    (hv : ∀ b, lookupName s n ≠ some (.builtin b)) :
    ((bBind s).1.getObjs r)[o + i]? = some (.op n) := by
  rw [(bind_flat_spec s r o l rest hst hsz hflat).2.1 i hi, hn, Option.map_some]
  simp only [bindElem]

/-- in particular a name whose value is a boolean -/
theorem bind_keeps_boolean_names (s : VM) (r o l : Nat) (rest : List Obj)
    (hst : s.stack = .proc r o l :: rest)
    (hsz : o + l ≤ (s.getObjs r).size)
    (hflat : ∀ i, i < l → ∀ r' o' l', (s.getObjs r)[o + i]? ≠ some (.proc r' o' l'))
    (i : Nat) (hi : i < l) (n : Name) (hn : (s.getObjs r)[o + i]? = some (.op n))
    (b : Bool) (hv : lookupName s n = some (.bool b)) :
    ((bBind s).1.getObjs r)[o + i]? = some (.op n) :=
  bind_keeps_non_operator_names s r o l rest hst hsz hflat i hi n hn (fun b' e => by rw [hv] at e; cases e)

/-- and an undefined name -/
theorem bind_keeps_undefined_names (s : VM) (r o l : Nat) (rest : List Obj)
    (hst : s.stack = .proc r o l :: rest)
    (hsz : o + l ≤ (s.getObjs r).size)
    (hflat : ∀ i, i < l → ∀ r' o' l', (s.getObjs r)[o + i]? ≠ some (.proc r' o' l'))
    (i : Nat) (hi : i < l) (n : Name) (hn : (s.getObjs r)[o + i]? = some (.op n))
    (hv : lookupName s n = none) :
    ((bBind s).1.getObjs r)[o + i]? = some (.op n) :=
  bind_keeps_non_operator_names s r o l rest hst hsz hflat i hi n hn (fun b' e => by rw [hv] at e; cases e)

/-- a name the dictionary stack resolves to an operator at the time of the call is replaced
by that operator -/
theorem bind_replaces_operator_names (s : VM) (r o l : Nat) (rest : List Obj)
    (hst : s.stack = .proc r o l :: rest)
    (hsz : o + l ≤ (s.getObjs r).size)
    (hflat : ∀ i, i < l → ∀ r' o' l', (s.getObjs r)[o + i]? ≠ some (.proc r' o' l'))
    (i : Nat) (hi : i < l) (n : Name) (hn : (s.getObjs r)[o + i]? = some (.op n))
    (b : String) (hv : lookupName s n = some (.builtin b)) :
    ((bBind s).1.getObjs r)[o + i]? = some (.builtin b) := by
  rw [(bind_flat_spec s r o l rest hst hsz hflat).2.1 i hi, hn, Option.map_some]
  simp only [bindElem, hv]

/-! ### 4. any procedure: `bind` changes nothing but names that resolve to operators -/

/-- every element of every object cell, after `bind` of any procedure (nested to any depth,
shared or cyclic, whatever the outcome): unchanged, or it was an executable name that the
dictionary stack of `s` resolves to an operator and is now that operator -/
theorem bind_changes_only_operator_names (s : VM) (r j : Nat) :
    ((bBind s).1.getObjs r)[j]? = (s.getObjs r)[j]? ∨
    ∃ n b, (s.getObjs r)[j]? = some (.op n) ∧ lookupName s n = some (.builtin b) ∧
      ((bBind s).1.getObjs r)[j]? = some (.builtin b) := by
  rcases (bBind_rel s).cell r with e | ⟨a, a', e, e', -, hj⟩
  · left; simp only [VM.getObjs, e]
  · rw [getObjs_of_cell e, getObjs_of_cell e']
    exact hj j

/-- a name whose value is not an operator is never replaced, wherever it stands -/
theorem bind_never_replaces_other_names (s : VM) (r j : Nat) (n : Name)
    (hn : (s.getObjs r)[j]? = some (.op n)) (hv : ∀ b, lookupName s n ≠ some (.builtin b)) :
    ((bBind s).1.getObjs r)[j]? = some (.op n) := by
  rcases bind_changes_only_operator_names s r j with e | ⟨n', b, e, hb, -⟩
  · rw [e, hn]
  · rw [hn] at e; cases e; exact absurd hb (hv b)

/-- anything that is not an executable name is never replaced -/
theorem bind_never_replaces_non_names (s : VM) (r j : Nat) (x : Obj)
    (hx : (s.getObjs r)[j]? = some x) (hn : ∀ n, x ≠ .op n) :
    ((bBind s).1.getObjs r)[j]? = some x := by
  rcases bind_changes_only_operator_names s r j with e | ⟨n', b, e, -, -⟩
  · rw [e, hx]
  · rw [hx] at e; cases e; exact absurd rfl (hn n')

/-- cells that are not object cells (dictionaries, strings, CMaps) are unchanged; so name
lookup gives the same answers after `bind` as before -/
theorem bind_keeps_other_cells (s : VM) (r : Nat) (h : ∀ a, s.heap[r]? ≠ some (.objs a)) :
    (bBind s).1.heap[r]? = s.heap[r]? := by
  rcases (bBind_rel s).cell r with e | ⟨a, a', e, -, -, -⟩
  · exact e
  · exact absurd e (h a)

theorem bind_keeps_lookup (s : VM) (n : Name) : lookupName (bBind s).1 n = lookupName s n :=
  (bBind_rel s).lookup_eq n

/-! ### 5. non-vacuity -/

/-- `{1 2 add foo}` -/
def flatProg : List UInt8 := [123, 49, 32, 50, 32, 97, 100, 100, 32, 102, 111, 111, 125]

/-- the data after reading `{1 2 add foo}` in a fresh interpreter -/
def flatVM : VM := (execute 200 0 newInterpreter flatProg none).1.vm

set_option maxRecDepth 100000 in
/-- `add` is the operator, `foo` has no value: after `bind` the third element is the operator,
the fourth still the name -/
theorem flat_example :
    flatVM.stack = [.proc 11 0 4] ∧
    flatVM.viewObjs 11 0 4 = [.int 1, .int 2, .op "add", .op "foo"] ∧
    lookupName flatVM "add" = some (.builtin "add") ∧ lookupName flatVM "foo" = none ∧
    (bBind flatVM).2 = .ok ∧
    (bBind flatVM).1.viewObjs 11 0 4 = [.int 1, .int 2, .builtin "add", .op "foo"] := by decide +kernel

set_option maxRecDepth 100000 in
/-- the hypotheses of `bind_flat_spec` hold of this state -/
example : ∃ rest, flatVM.stack = .proc 11 0 4 :: rest ∧ 0 + 4 ≤ (flatVM.getObjs 11).size ∧
    ∀ i, i < 4 → ∀ r' o' l', (flatVM.getObjs 11)[0 + i]? ≠ some (.proc r' o' l') := by
  refine ⟨[], flat_example.1, by decide +kernel, ?_⟩
  have h : ∀ i, i < 4 → ∃ x, (flatVM.getObjs 11)[0 + i]? = some x ∧ (match x with | .proc .. => false | _ => true) = true := by
    decide +kernel
  intro i hi r' o' l' e
  obtain ⟨x, hx, hp⟩ := h i hi
  rw [hx] at e
  cases e
  simp at hp

/-- a name with a boolean value stays the name: `true` is such a name in a fresh interpreter -/
def boolProg : List UInt8 := [123, 116, 114, 117, 101, 125]     -- `{true}`
def boolVM : VM := (execute 200 0 newInterpreter boolProg none).1.vm

set_option maxRecDepth 100000 in
example : boolVM.stack = [.proc 11 0 1] ∧ lookupName boolVM "true" = some (.bool true) ∧
    boolVM.viewObjs 11 0 1 = [.op "true"] ∧ (bBind boolVM).1.viewObjs 11 0 1 = [.op "true"] := by decide +kernel

/-- `/p {foo} def /p load bind pop /foo /add load def /p load bind`: the same procedure object
bound twice, `foo` given an operator as value in between -/
def twiceProg1 : List UInt8 :=
  [47, 112, 32, 123, 102, 111, 111, 125, 32, 100, 101, 102, 32, 47, 112, 32, 108, 111, 97, 100, 32, 98, 105, 110, 100]
def twiceProg2 : List UInt8 :=
  twiceProg1 ++ [32, 112, 111, 112, 32, 47, 102, 111, 111, 32, 47, 97, 100, 100, 32, 108, 111, 97, 100, 32, 100, 101, 102, 32,
    47, 112, 32, 108, 111, 97, 100, 32, 98, 105, 110, 100]

set_option maxRecDepth 100000 in
/-- the first `bind` leaves `foo`, the second one — of the same object `proc 11 0 1` — replaces
it: a visited set kept from the first call would make the second do nothing -/
theorem bind_twice_example :
    (execute 2000 0 newInterpreter twiceProg1 none).2 = .ok ∧
    (execute 2000 0 newInterpreter twiceProg1 none).1.vm.stack = [.proc 11 0 1] ∧
    (execute 2000 0 newInterpreter twiceProg1 none).1.vm.viewObjs 11 0 1 = [.op "foo"] ∧
    (execute 2000 0 newInterpreter twiceProg2 none).2 = .ok ∧
    (execute 2000 0 newInterpreter twiceProg2 none).1.vm.stack = [.proc 11 0 1] ∧
    (execute 2000 0 newInterpreter twiceProg2 none).1.vm.viewObjs 11 0 1 = [.builtin "add"] := by decide +kernel

set_option maxRecDepth 100000 in
/-- the same on the data alone: bind, define `foo` in `userdict`, bind again -/
example :
    let s0 : VM := (execute 200 0 newInterpreter [123, 102, 111, 111, 125] none).1.vm      -- `{foo}`
    let s1 := (bBind s0).1
    let s2 := s1.dictPut s1.roots.userDict "foo" (.builtin "add")
    s0.stack = [.proc 11 0 1] ∧ s1.viewObjs 11 0 1 = [.op "foo"] ∧ (bBind s2).1.viewObjs 11 0 1 = [.builtin "add"] ∧
    (bBind { s2 with bindSeen := [(11, 0, 1)] }).1.viewObjs 11 0 1 = [.builtin "add"] := by decide +kernel

/-- `{1 {add foo} sub}`: a nested body is bound too (an instance; the general statement for
nested bodies is `bind_changes_only_operator_names`, which says what may change, not that it does) -/
def nestedVM : VM :=
  (execute 200 0 newInterpreter [123, 49, 32, 123, 97, 100, 100, 32, 102, 111, 111, 125, 32, 115, 117, 98, 125] none).1.vm

set_option maxRecDepth 100000 in
theorem nested_example :
    nestedVM.stack = [.proc 12 0 3] ∧
    nestedVM.viewObjs 12 0 3 = [.int 1, .proc 11 0 2, .op "sub"] ∧ nestedVM.viewObjs 11 0 2 = [.op "add", .op "foo"] ∧
    (bBind nestedVM).2 = .ok ∧
    (bBind nestedVM).1.viewObjs 12 0 3 = [.int 1, .proc 11 0 2, .builtin "sub"] ∧
    (bBind nestedVM).1.viewObjs 11 0 2 = [.builtin "add", .op "foo"] := by decide +kernel

#print axioms bindElem_def
#print axioms bBind_ignores_bindSeen_proc
#print axioms bBind_ignores_bindSeen
#print axioms bBind_clears_bindSeen
#print axioms bBind_underflow
#print axioms bBind_typecheck
#print axioms bBind_bindSeen_empty
#print axioms bBind_rel
#print axioms bBind_frame
#print axioms bBind_frame_fields
#print axioms bBind_heap_size
#print axioms bind_fuel_flat
#print axioms bBind_flat_post
#print axioms bind_flat_spec
#print axioms bind_flat_view
#print axioms bind_keeps_non_operator_names
#print axioms bind_keeps_boolean_names
#print axioms bind_keeps_undefined_names
#print axioms bind_replaces_operator_names
#print axioms bind_changes_only_operator_names
#print axioms bind_never_replaces_other_names
#print axioms bind_never_replaces_non_names
#print axioms bind_keeps_other_cells
#print axioms bind_keeps_lookup
#print axioms flat_example
#print axioms bind_twice_example
#print axioms nested_example

end PsVerif.Props.C03
