import PsVerif.Model.PFB
/-!
# C14 — PFB decoding

`Model.PFB.readLoop` is the model of `pfbReader.Read` for any caller buffer size and any
short-read schedule of the underlying reader.
-/
namespace PsVerif.Props.C14
open PsVerif.Model.PFB

/-- `io.ReadFull` of a header when at least six bytes are left: exactly the next six bytes,
whatever the schedule of the underlying reader -/
theorem readFull_six (b0 b1 b2 b3 b4 b5 : UInt8) (rest : List UInt8) (sched : List Nat) :
    (readFull 7 (b0 :: b1 :: b2 :: b3 :: b4 :: b5 :: rest) sched 6 []).1 = [b0, b1, b2, b3, b4, b5] ∧
    (readFull 7 (b0 :: b1 :: b2 :: b3 :: b4 :: b5 :: rest) sched 6 []).2.1 = rest := by
  -- each underlying read delivers between 1 and (what is still missing) bytes
  have step : ∀ (fuel k : Nat) (src acc : List UInt8) (sc : List Nat), k ≤ src.length → k < fuel →
      (readFull fuel src sc k acc).1 = acc ++ src.take k ∧ (readFull fuel src sc k acc).2.1 = src.drop k := by
    intro fuel
    induction fuel with
    | zero => intro k src acc sc _ h; omega
    | succ f ih =>
      intro k src acc sc hk hf
      unfold readFull
      by_cases h0 : k = 0
      · subst h0; simp
      · have hk0 : (k == 0) = false := by simp [h0]
        simp only [hk0, Bool.false_eq_true, if_false, rawRead]
        have hw1 : 1 ≤ wantOf sc k ∧ wantOf sc k ≤ k := by
          unfold wantOf
          cases sc with
          | nil => simp only; omega
          | cons w t => simp only; omega
        obtain ⟨want, hwe⟩ : ∃ w, wantOf sc k = w := ⟨_, rfl⟩
        simp only [hwe] at hw1 ⊢
        have hne : (List.take want src).isEmpty = false := by
          cases src with
          | nil => simp at hk; omega
          | cons x xs =>
            cases want with
            | zero => omega
            | succ w => simp
        simp only [hne, Bool.false_eq_true, if_false, List.length_take]
        have hmin : min want src.length = want := by omega
        rw [hmin]
        have := ih (k - want) (src.drop want) (acc ++ src.take want) sc.tail (by simp only [List.length_drop]; omega) (by omega)
        rw [this.1, this.2]
        constructor
        · rw [List.append_assoc]
          congr 1
          rw [← List.take_add]
          congr 1; omega
        · rw [List.drop_drop]; congr 1; omega
  have := step 7 6 (b0 :: b1 :: b2 :: b3 :: b4 :: b5 :: rest) [] sched (by simp) (by omega)
  simpa using this

/-- **a header with a wrong marker byte or an unknown type gives the invalid-PFB error**, for
every pair of first bytes (no enumeration), every caller buffer size and every schedule -/
theorem pfb_bad_header (b0 b1 b2 b3 b4 b5 : UInt8) (rest : List UInt8) (sched : List Nat) (n fuel : Nat)
    (hn : 0 < n) (hbad : b0 ≠ 0x80 ∨ b1 = 0 ∨ b1 > 3) :
    (readLoop (fuel + 1) { src := b0 :: b1 :: b2 :: b3 :: b4 :: b5 :: rest, sched := sched } n []).2.1 = some .invalidPFB := by
  unfold readLoop
  have hn0 : (n == 0) = false := by simp; omega
  simp only [hn0, Bool.false_eq_true, if_false]
  have h6 := readFull_six b0 b1 b2 b3 b4 b5 rest sched
  generalize readFull 7 (b0 :: b1 :: b2 :: b3 :: b4 :: b5 :: rest) sched 6 [] = p at h6
  obtain ⟨buf, src', sched'⟩ := p
  simp only at h6
  obtain ⟨hb, _⟩ := h6
  subst hb
  have hcond : (b0 != 0x80 || b1 == 0 || b1 > 3) = true := by
    rcases hbad with h | h | h
    · simp [h]
    · simp [h]
    · simp [h]
  simp [hcond]

/-- conversely a good header is accepted and sets type and little-endian length -/
theorem pfb_good_header (b1 b2 b3 b4 b5 : UInt8) (rest : List UInt8) (sched : List Nat) (n fuel : Nat)
    (hn : 0 < n) (h1 : b1 ≠ 0) (h3 : b1 ≤ 3) :
    ∃ sched', readLoop (fuel + 1) { src := 0x80 :: b1 :: b2 :: b3 :: b4 :: b5 :: rest, sched := sched } n [] =
      readLoop fuel { src := rest, sched := sched', state := b1.toNat, len := le32 b2 b3 b4 b5 } n [] := by
  conv => enter [1, sched', 1]; unfold readLoop
  have hn0 : (n == 0) = false := by simp; omega
  simp only [hn0, Bool.false_eq_true, if_false]
  have h6 := readFull_six 0x80 b1 b2 b3 b4 b5 rest sched
  generalize readFull 7 (0x80 :: b1 :: b2 :: b3 :: b4 :: b5 :: rest) sched 6 [] = p at h6
  obtain ⟨buf, src', sched'⟩ := p
  simp only at h6
  obtain ⟨hb, hs⟩ := h6
  subst hb hs
  refine ⟨sched', ?_⟩
  have hgt : ¬ b1 > 3 := by
    intro h; exact absurd h3 (UInt8.not_le.mpr h)
  have hlt : ¬ (3 : UInt8) < b1 := hgt
  simp [h1, hlt]

/-- lower-case hexadecimal: two digits per byte, each a hexadecimal digit -/
theorem hexLower_length (bs : List UInt8) : (hexLower bs).length = 2 * bs.length := by
  induction bs with
  | nil => rfl
  | cons b bs ih => simp [hexLower, ih]; omega

theorem hexEncode_digit (b : Fin 16) :
    (48 ≤ hexEncode (UInt8.ofNat b.val) ∧ hexEncode (UInt8.ofNat b.val) ≤ 57) ∨
    (97 ≤ hexEncode (UInt8.ofNat b.val) ∧ hexEncode (UInt8.ofNat b.val) ≤ 102) := by
  revert b; decide

/-- non-vacuity / regression of the repaired defect: a binary segment that declares 10 bytes
but holds 4 gives an error for the buffer sizes that used to end in a clean EOF -/
example : (drain { src := [0x80, 2, 10, 0, 0, 0, 1, 2, 3, 4] } (List.replicate 20 1)).getLast?.map (·.2) = some (some .unexpectedEOF) := by
  decide
example : (drain { src := [0x80, 2, 10, 0, 0, 0, 1, 2, 3, 4] } (List.replicate 20 8)).getLast?.map (·.2) = some (some .unexpectedEOF) := by
  decide

end PsVerif.Props.C14
