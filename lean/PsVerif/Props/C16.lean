import PsVerif.Model.Names
/-!
# C16 — glyph names ↔ Unicode

The tables are the generated ones; statements over *all* entries are closed by
`decide +kernel` (a complete evaluation by the kernel over the finite table, no axioms),
lifted to the functions by general lemmas.
-/
namespace PsVerif.Props.C16
open PsVerif.Model.Names

/-! ## the tables have no duplicate keys -/

def strictlySorted : List (Nat × List Nat) → Bool
  | a :: b :: rest => a.1 < b.1 && strictlySorted (b :: rest)
  | _ => true

theorem glyphlist_sorted : strictlySorted glyphlist = true := by decide +kernel
theorem dingbats_sorted : strictlySorted dingbatsTable = true := by decide +kernel
theorem glyphlist_size : glyphlist.length = 4281 ∧ dingbatsTable.length = 201 := by decide +kernel

theorem sorted_tail {a : Nat × List Nat} {l : List (Nat × List Nat)} (h : strictlySorted (a :: l) = true) :
    strictlySorted l = true := by
  cases l with
  | nil => rfl
  | cons b rest => simp only [strictlySorted, Bool.and_eq_true] at h; exact h.2

theorem sorted_head_lt {a : Nat × List Nat} {l : List (Nat × List Nat)} (h : strictlySorted (a :: l) = true) :
    ∀ e ∈ l, a.1 < e.1 := by
  induction l generalizing a with
  | nil => intro e he; cases he
  | cons b rest ih =>
    intro e he
    simp only [strictlySorted, Bool.and_eq_true, decide_eq_true_eq] at h
    rcases List.mem_cons.mp he with rfl | hm
    · exact h.1
    · exact Nat.lt_trans h.1 (ih h.2 e hm)

/-- in a table without duplicate keys every entry is found under its key -/
theorem lookup_mem (tbl : List (Nat × List Nat)) (hs : strictlySorted tbl = true) (k : Nat) (v : List Nat)
    (hm : (k, v) ∈ tbl) : lookup tbl k = some v := by
  induction tbl with
  | nil => cases hm
  | cons a rest ih =>
    unfold lookup
    rcases List.mem_cons.mp hm with heq | hm'
    · subst heq; simp
    · have hlt := sorted_head_lt hs (k, v) hm'
      have hne : (a.1 == k) = false := by
        simp only [beq_eq_false_iff_ne]; intro h; simp only at hlt; omega
      simp only [List.find?_cons, hne]
      have := ih (sorted_tail hs) hm'
      unfold lookup at this
      exact this

/-! ## every entry of the Adobe glyph list and of the Zapf Dingbats list maps to its text -/

def noSep (name : List Nat) : Prop := ∀ c ∈ name, c ≠ 46 ∧ c ≠ 95

theorem stripSuffix_noSep (name : List Nat) (h : noSep name) : stripSuffix name = name := by
  unfold stripSuffix
  induction name with
  | nil => rfl
  | cons c cs ih =>
    have hc := (h c (by simp)).1
    have := ih (fun x hx => h x (by simp [hx]))
    simp [List.takeWhile_cons, hc, this]

theorem splitOn_noSep (name : List Nat) (h : noSep name) : splitOn 95 name = [name] := by
  induction name with
  | nil => rfl
  | cons c cs ih =>
    have hc := (h c (by simp)).2
    have := ih (fun x hx => h x (by simp [hx]))
    simp only [splitOn, this]
    have : (c == 95) = false := by simp [hc]
    simp [this]

/-- **every glyph-list entry** — including the 81 that denote several characters — maps to the
listed text (after the two corrections `getFile` applies) -/
theorem agl_entries (name cps : List Nat) (hn : noSep name) (hm : (pack name, cps) ∈ glyphlist) :
    toUnicode name false = fixup (pack name) cps := by
  unfold toUnicode
  rw [stripSuffix_noSep name hn, splitOn_noSep name hn]
  simp only [List.map_cons, List.map_nil, List.flatten_cons, List.flatten_nil, List.append_nil]
  unfold component lookupFile
  rw [lookup_mem glyphlist glyphlist_sorted _ _ hm]
  simp

/-- every Zapf Dingbats entry maps to the listed character when the dingbats list is selected -/
theorem dingbat_entries (name cps : List Nat) (hn : noSep name) (hm : (pack name, cps) ∈ dingbatsTable) :
    toUnicode name true = fixup (pack name) cps := by
  unfold toUnicode
  rw [stripSuffix_noSep name hn, splitOn_noSep name hn]
  simp only [List.map_cons, List.map_nil, List.flatten_cons, List.flatten_nil, List.append_nil]
  unfold component lookupFile
  rw [lookup_mem dingbatsTable dingbats_sorted _ _ hm]
  simp

/-- non-vacuity: `dalethatafpatah` is an entry and maps to two characters (repaired defect) -/
example : toUnicode [100, 97, 108, 101, 116, 104, 97, 116, 97, 102, 112, 97, 116, 97, 104] false = [0x05D3, 0x05B2] := by
  decide +kernel

/-! ## validity -/

/-- `IsValid` accepts exactly `.notdef` and the names of 1–31 characters from letters, digits,
period and underscore that do not start with a digit or a period -/
theorem isvalid_spec (s : List Nat) :
    isValid s = true ↔
      s = [46, 110, 111, 116, 100, 101, 102] ∨
      (1 ≤ s.length ∧ s.length ≤ 31 ∧ (∀ c ∈ s, isNameChar c = true) ∧
        ∃ c rest, s = c :: rest ∧ ¬ (48 ≤ c ∧ c ≤ 57) ∧ c ≠ 46) := by
  unfold isValid maxNameLength
  by_cases h0 : s = [46, 110, 111, 116, 100, 101, 102]
  · simp [h0]
  · have hb : (s == [46, 110, 111, 116, 100, 101, 102]) = false := by simp [h0]
    simp only [hb, Bool.false_eq_true, if_false, h0, false_or]
    cases s with
    | nil => simp
    | cons c rest =>
      by_cases hl : (c :: rest).length > 31
      · have : ((c :: rest).length < 1 || (c :: rest).length > 31) = true := by simp; omega
        simp only [this, if_true]
        constructor
        · intro h; cases h
        · intro h; omega
      · have : ((c :: rest).length < 1 || (c :: rest).length > 31) = false := by simp at hl ⊢; omega
        simp only [this, Bool.false_eq_true, if_false]
        by_cases hc : (48 ≤ c ∧ c ≤ 57) ∨ c = 46
        · have : ((decide (48 ≤ c) && decide (c ≤ 57)) || c == 46) = true := by
            rcases hc with ⟨h1, h2⟩ | h <;> simp [*]
          simp only [this, if_true]
          constructor
          · intro h; cases h
          · rintro ⟨_, _, _, c', rest', heq, hn1, hn2⟩
            cases heq
            rcases hc with h | h
            · exact (hn1 h).elim
            · exact (hn2 h).elim
        · have hc' : ¬ (48 ≤ c ∧ c ≤ 57) ∧ c ≠ 46 := by
            constructor
            · intro h; exact hc (Or.inl h)
            · intro h; exact hc (Or.inr h)
          have : ((decide (48 ≤ c) && decide (c ≤ 57)) || c == 46) = false := by
            simp only [Bool.or_eq_false_iff, Bool.and_eq_false_iff, decide_eq_false_iff_not, beq_eq_false_iff_ne]
            refine ⟨?_, hc'.2⟩
            by_cases h1 : 48 ≤ c
            · right; intro h2; exact hc'.1 ⟨h1, h2⟩
            · left; exact h1
          simp only [this, Bool.false_eq_true, if_false, List.all_eq_true]
          constructor
          · intro h
            exact ⟨by simp, by simp at hl ⊢; omega, h, c, rest, rfl, hc'.1, hc'.2⟩
          · rintro ⟨_, _, h, _⟩
            exact h

end PsVerif.Props.C16
