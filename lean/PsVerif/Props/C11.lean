import PsVerif.Proofs.InterpCtl
/-!
# C11 — operation budget, resource limits, start check

Theorems about `Model.execute` (= `Interpreter.Execute`) for every program, every budget,
every fuel.  `m` is `MaxOps`; `m = 0` means no budget.
-/
namespace PsVerif.Props.C11
open PsVerif.Model PsVerif.Proofs.InterpCtl

theorem good_execute (fuel m : Nat) (s : State) (input : List UInt8) (fault : Option String) :
    Good m s (execute fuel m s input fault) := by
  unfold execute
  dsimp only
  have g := (allGood m fuel).2.2.2.2.2.2.2.2.2.2.2.1 { s with scanner := { src := input, fault := fault } }
  generalize scanRun fuel m { s with scanner := { src := input, fault := fault } } = p at g ⊢
  obtain ⟨s1, r⟩ := p
  have h0 : Same s ({ s with scanner := { src := input, fault := fault } } : State) := ⟨rfl, rfl, rfl, rfl, rfl⟩
  dsimp only
  have hd : Same s1 ({ s1 with dsc := s1.dsc ++ s1.scanner.dsc } : State) := ⟨rfl, rfl, rfl, rfl, rfl⟩
  cases r with
  | ok => exact good_start h0 (good_change_res _ g (by simp) hd)
  | fuel => exact good_start h0 (good_end g hd)
  | err e =>
    cases e with
    | exit => exact good_start h0 (good_change_res _ g (by simp) hd)
    | stop => exact good_start h0 (good_change_res _ g (by simp) hd)
    | _ => exact good_start h0 (good_end g hd)

/-- `NumOps` never decreases, as long as it was not put beyond `MaxOps + 1` from outside (the
repaired budget test stores `MaxOps + 1` when it fails, so a counter that was set to a larger
value by the caller is pulled back; without a budget the counter only grows) -/
theorem numops_monotone (fuel m : Nat) (s : State) (input : List UInt8) (fault : Option String)
    (hs : 0 < m → s.numOps ≤ m + 1) :
    s.numOps ≤ (execute fuel m s input fault).1.numOps :=
  (good_execute fuel m s input fault).mono hs

/-- **with a positive budget `N` the counter never passes `N + 1`**, and whenever the call
does not end with the budget error it is at most `N` -/
theorem numops_cap (fuel m : Nat) (s : State) (input : List UInt8) (fault : Option String)
    (hm : 0 < m) (hs : s.numOps ≤ m) :
    (execute fuel m s input fault).1.numOps ≤ m + 1 ∧
    ((execute fuel m s input fault).2 ≠ .err .limit → (execute fuel m s input fault).1.numOps ≤ m) :=
  let c := (good_execute fuel m s input fault).cap hm hs
  ⟨c.2, c.1⟩

/-- **one call, started anywhere up to the cap**: with a positive budget `N`, a call of `Execute`
on an interpreter whose counter is at most `N + 1` (in particular one whose budget was used up
by earlier calls) ends with the counter at most `N + 1`: the repaired budget test stores
`N + 1` instead of counting on.  For every program, read fault and fuel, whatever is returned. -/
theorem numOps_cap_call (fuel m : Nat) (s : State) (input : List UInt8) (fault : Option String)
    (hm : 0 < m) (hs : s.numOps ≤ m + 1) :
    (execute fuel m s input fault).1.numOps ≤ m + 1 :=
  (good_execute fuel m s input fault).sat hm hs

/-- one `Execute` call of a history: its input, the error its reader ends with, and the model's fuel -/
structure Call where
  fuel : Nat
  input : List UInt8
  fault : Option String

/-- a history of `Execute` calls on one interpreter with `MaxOps = m`: the state left by a call
is the start state of the next one, whatever the call returned.  The list holds the state and
result after each call, in order. -/
def history (m : Nat) (s : State) : List Call → List (State × Res)
  | [] => []
  | c :: rest =>
    let p := execute c.fuel m s c.input c.fault
    p :: history m p.1 rest

theorem history_length (m : Nat) (s : State) (calls : List Call) : (history m s calls).length = calls.length := by
  induction calls generalizing s with
  | nil => rfl
  | cons c rest ih => simp [history, ih]

/-- **any history of calls**: with a positive budget `N`, after every call of any sequence of
`Execute` calls on the same interpreter the counter is at most `N + 1` — whatever the earlier
calls returned (budget error or not), for all programs, faults and fuels. -/
theorem numOps_cap_history (m : Nat) (hm : 0 < m) (s : State) (hs : s.numOps ≤ m + 1) (calls : List Call) :
    ∀ p ∈ history m s calls, p.1.numOps ≤ m + 1 := by
  induction calls generalizing s with
  | nil => intro p hp; simp [history] at hp
  | cons c rest ih =>
    intro p hp
    have h1 := numOps_cap_call c.fuel m s c.input c.fault hm hs
    simp only [history, List.mem_cons] at hp
    rcases hp with rfl | hp
    · exact h1
    · exact ih _ h1 p hp

/-- … in particular for every history of a new interpreter -/
theorem numOps_cap_history_new (m : Nat) (hm : 0 < m) (calls : List Call) :
    ∀ p ∈ history m newInterpreter calls, p.1.numOps ≤ m + 1 :=
  numOps_cap_history m hm newInterpreter (Nat.zero_le _) calls

/-- non-vacuity: budget 3 and the calls `1 2 3 4 5`, `6`, `7 8` on a new interpreter.  Every
call ends with the budget error and the counter is 4 after each of them (it was 4, 5, 6 before
the repair); the three operands pushed before the budget ran out stay on the stack. -/
def exCalls : List Call :=
  [⟨50, [49, 32, 50, 32, 51, 32, 52, 32, 53], none⟩, ⟨50, [54], none⟩, ⟨50, [55, 32, 56], none⟩]

example : (history 3 newInterpreter exCalls).map (fun p => (p.1.numOps, p.2)) =
    [(4, .err .limit), (4, .err .limit), (4, .err .limit)] := by decide +kernel

example : (history 3 newInterpreter exCalls).map (fun p => p.1.vm.stack) =
    [[.int 3, .int 2, .int 1], [.int 3, .int 2, .int 1], [.int 3, .int 2, .int 1]] := by decide +kernel

/-- a call that stays within the budget after one that did not: the counter does not move back
(`numops_monotone`) and a history may also end without the budget error -/
example : (history 3 newInterpreter [⟨50, [49, 32, 50], none⟩, ⟨50, [51, 32, 52], none⟩, ⟨50, [], none⟩]).map
    (fun p => (p.1.numOps, p.2)) = [(2, .ok), (4, .err .limit), (4, .ok)] := by decide +kernel

/-- the execution nesting counter is restored by every call and never exceeds 100 while it
runs (`hiDepth` is the high-water mark) -/
theorem execdepth_cap (fuel m : Nat) (s : State) (input : List UInt8) (fault : Option String) :
    (execute fuel m s input fault).1.execDepth = s.execDepth ∧
    (execute fuel m s input fault).1.hiDepth ≤ max s.hiDepth 100 :=
  ⟨(good_execute fuel m s input fault).depth, (good_execute fuel m s input fault).hiD⟩

/-- error handlers are nested at most 5 deep -/
theorem handler_nesting_cap (fuel m : Nat) (s : State) (input : List UInt8) (fault : Option String) :
    (execute fuel m s input fault).1.errors.length = s.errors.length ∧
    (execute fuel m s input fault).1.hiErrors ≤ max s.hiErrors 5 :=
  ⟨(good_execute fuel m s input fault).errs, (good_execute fuel m s input fault).hiE⟩

/-- deeper nesting than 100 is answered by `execstackoverflow` -/
theorem execstackoverflow (fuel m : Nat) (s : State) (o : Obj) (h : s.execDepth ≥ 100) :
    execOne (fuel + 1) m s o true = (s, .err (.ps "execstackoverflow")) := by
  simp only [execOne, if_true]
  have : s.execDepth ≥ execDepthLimit := h
  simp [this, psErrS]

/-- an operand stack beyond 500 entries is answered by `stackoverflow` at the next step -/
theorem stackoverflow (fuel m : Nat) (s : State) (o : Obj) (b : Bool) (h : s.vm.stack.length > 500) :
    execBody (fuel + 1) m s o b = (s, .err (.ps "stackoverflow")) := by
  simp only [execBody]
  have : s.vm.stack.length > maxOperandStackDepth := h
  simp [this, psErrS]

/-- `begin` with 20 dictionaries on the dictionary stack is answered by `dictstackoverflow`
and changes nothing -/
theorem dictstackoverflow (v : VM) (o : Obj) (rest : List Obj) (hst : v.stack = o :: rest)
    (h : v.dictStack.length ≥ 20) : bBegin v = (v, .err (.ps "dictstackoverflow")) := by
  unfold bBegin
  rw [hst]
  have : v.dictStack.length ≥ maxDictStackDepth := h
  simp [this, psErr]

/-- requests for oversized arrays, strings and dictionaries: `limitcheck` above 65536,
`rangecheck` below 0, and the state (in particular the heap) is unchanged -/
theorem size_limits (v : VM) (n : Int) (rest : List Obj) (hst : v.stack = .int n :: rest) :
    (n > 65536 → bArray v = (v, .err (.ps "limitcheck")) ∧ bString v = (v, .err (.ps "limitcheck")) ∧
                 bDict v = (v, .err (.ps "limitcheck"))) ∧
    (n < 0 → bArray v = (v, .err (.ps "rangecheck")) ∧ bString v = (v, .err (.ps "rangecheck")) ∧
             bDict v = (v, .err (.ps "rangecheck"))) := by
  constructor
  · intro h
    have h0 : ¬ n < 0 := by omega
    unfold bArray bString bDict
    rw [hst]
    simp [h0, h, maxArraySize, maxStringSize, maxDictSize, psErr]
  · intro h
    unfold bArray bString bDict
    rw [hst]
    simp [h, psErr]

/-- **start check**: with `CheckStart` set, input that does not begin with `%!` is rejected
with the not-a-PostScript error; no operation is counted and the data half of the state is
untouched -/
theorem checkstart_rejects (fuel m : Nat) (s : State) (input : List UInt8)
    (hcs : s.checkStart = true) (hbad : input.take 2 ≠ [37, 33]) (hlen : input.length ≥ 2) :
    (execute (fuel + 1) m s input none).2 = .err .noPS ∧
    (execute (fuel + 1) m s input none).1.vm = s.vm ∧
    (execute (fuel + 1) m s input none).1.numOps = s.numOps := by
  match input, hlen, hbad with
  | a :: b :: rest, _, hbad =>
    have hne : ([a, b] == [37, 33]) = false := by
      simp only [List.take_succ_cons, List.take_zero] at hbad
      simpa using hbad
    simp [execute, scanRun, hcs, withScanner, Scan.peekN, Scan.getS, Scan.attempt, Scan.readByte, Scan.readByteRaw,
      Scan.modS, bind, ExceptT.bind, ExceptT.mk, ExceptT.bindCont, StateT.bind, pure, ExceptT.pure, StateT.pure, hne]

/-- non-vacuity: `(a)` with the start check gives the error, `%!` passes it once and clears the flag -/
example : (execute 10 0 { newInterpreter with checkStart := true } [40, 97, 41] none).2 = .err .noPS := by
  have := (checkstart_rejects 9 0 { newInterpreter with checkStart := true } [40, 97, 41] rfl (by decide) (by decide)).1
  exact this

#print axioms numops_monotone
#print axioms numops_cap
#print axioms numOps_cap_call
#print axioms numOps_cap_history
#print axioms numOps_cap_history_new

end PsVerif.Props.C11
