import PsVerif.Model.CMapOps
import PsVerif.Model.Init
/-!
# C07 — the CIDInit procedure set (CMap reader)
-/
namespace PsVerif.Props.C07
open PsVerif.Model

/-! ## the bytewise order -/

theorem bytesLt_asymm : ∀ (a b : List UInt8), bytesLt a b = true → bytesLt b a = false
  | [], [] => by simp [bytesLt]
  | [], _ :: _ => by simp [bytesLt]
  | _ :: _, [] => by simp [bytesLt]
  | x :: as, y :: bs => by
    have ih := bytesLt_asymm as bs
    simp only [bytesLt, gt_iff_lt]
    by_cases h1 : x < y <;> by_cases h2 : y < x <;> simp [h1, h2]
    · exact absurd h2 (UInt8.lt_asymm h1)
    · exact ih

/-- negative transitivity of `<` -/
theorem bytesLt_negtrans : ∀ (a b c : List UInt8), bytesLt a c = true → bytesLt a b = true ∨ bytesLt b c = true
  | [], [], _ => fun h => Or.inr h
  | [], _ :: _, _ => by simp [bytesLt]
  | _ :: _, _, [] => by simp [bytesLt]
  | _ :: _, [], _ :: _ => by simp [bytesLt]
  | x :: as, y :: bs, z :: cs => by
    have ih := bytesLt_negtrans as bs cs
    simp only [bytesLt, gt_iff_lt, UInt8.lt_iff_toNat_lt]
    by_cases h1 : x.toNat < y.toNat <;> by_cases h2 : y.toNat < x.toNat <;>
      by_cases h3 : y.toNat < z.toNat <;> by_cases h4 : z.toNat < y.toNat <;>
      by_cases h5 : x.toNat < z.toNat <;> by_cases h6 : z.toNat < x.toNat <;>
      simp only [h1, h2, h3, h4, h5, h6, if_true, if_false] <;> first | omega | exact ih | simp

theorem bytesLe_total (a b : List UInt8) : (bytesLe a b || bytesLe b a) = true := by
  unfold bytesLe
  cases h : bytesLt b a
  · simp
  · simp [bytesLt_asymm _ _ h]

theorem bytesLe_trans (a b c : List UInt8) (h1 : bytesLe a b = true) (h2 : bytesLe b c = true) :
    bytesLe a c = true := by
  unfold bytesLe at *
  cases h : bytesLt c a
  · rfl
  · rcases bytesLt_negtrans c b a h with h' | h' <;> simp [h'] at h1 h2

theorem bytesLe_refl (a : List UInt8) : bytesLe a a = true := by
  have := bytesLe_total a a; simpa using this

/-! ## entries and their operands -/

/-- operands of a list of code space ranges, bottom to top -/
def pairObjs (es : List CodeSpaceRange) : List Obj := es.flatMap fun e => [e.low, e.high]
/-- operands of a list of single mappings, bottom to top -/
def charObjs (es : List CharMap) : List Obj := es.flatMap fun e => [e.src, e.dst]
/-- operands of a list of range mappings, bottom to top -/
def rangeObjs (es : List RangeMap) : List Obj := es.flatMap fun e => [e.low, e.high, e.dst]

@[simp] theorem pairObjs_nil : pairObjs [] = [] := rfl
@[simp] theorem pairObjs_cons (e es) : pairObjs (e :: es) = e.low :: e.high :: pairObjs es := by simp [pairObjs]
@[simp] theorem charObjs_nil : charObjs [] = [] := rfl
@[simp] theorem charObjs_cons (e es) : charObjs (e :: es) = e.src :: e.dst :: charObjs es := by simp [charObjs]
@[simp] theorem rangeObjs_nil : rangeObjs [] = [] := rfl
@[simp] theorem rangeObjs_cons (e es) : rangeObjs (e :: es) = e.low :: e.high :: e.dst :: rangeObjs es := by
  simp [rangeObjs]

theorem pairObjs_append (a b) : pairObjs (a ++ b) = pairObjs a ++ pairObjs b := by simp [pairObjs]
theorem charObjs_append (a b) : charObjs (a ++ b) = charObjs a ++ charObjs b := by simp [charObjs]
theorem rangeObjs_append (a b) : rangeObjs (a ++ b) = rangeObjs a ++ rangeObjs b := by simp [rangeObjs]

theorem pairObjs_length (es) : (pairObjs es).length = 2 * es.length := by
  induction es with
  | nil => rfl
  | cons e es ih => simp [ih]; omega
theorem charObjs_length (es) : (charObjs es).length = 2 * es.length := by
  induction es with
  | nil => rfl
  | cons e es ih => simp [ih]; omega
theorem rangeObjs_length (es) : (rangeObjs es).length = 3 * es.length := by
  induction es with
  | nil => rfl
  | cons e es ih => simp [ih]; omega

/-- every list of `2n` operands is the operand list of exactly `n` (raw) code space ranges -/
theorem pairObjs_surj : ∀ (n : Nat) (l : List Obj), l.length = 2 * n → ∃ ts, ts.length = n ∧ pairObjs ts = l
  | 0, [], _ => ⟨[], rfl, rfl⟩
  | 0, _ :: _, h => by simp at h
  | n + 1, [], h => by simp at h
  | n + 1, [_], h => by simp at h; omega
  | n + 1, a :: b :: l, h => by
    obtain ⟨ts, h1, h2⟩ := pairObjs_surj n l (by simp at h; omega)
    exact ⟨⟨a, b⟩ :: ts, by simp [h1], by simp [h2]⟩

theorem charObjs_surj : ∀ (n : Nat) (l : List Obj), l.length = 2 * n → ∃ ts, ts.length = n ∧ charObjs ts = l
  | 0, [], _ => ⟨[], rfl, rfl⟩
  | 0, _ :: _, h => by simp at h
  | n + 1, [], h => by simp at h
  | n + 1, [_], h => by simp at h; omega
  | n + 1, a :: b :: l, h => by
    obtain ⟨ts, h1, h2⟩ := charObjs_surj n l (by simp at h; omega)
    exact ⟨⟨a, b⟩ :: ts, by simp [h1], by simp [h2]⟩

theorem rangeObjs_surj : ∀ (n : Nat) (l : List Obj), l.length = 3 * n → ∃ ts, ts.length = n ∧ rangeObjs ts = l
  | 0, [], _ => ⟨[], rfl, rfl⟩
  | 0, _ :: _, h => by simp at h
  | n + 1, [], h => by simp at h
  | n + 1, [_], h => by simp at h; omega
  | n + 1, [_, _], h => by simp at h; omega
  | n + 1, a :: b :: c :: l, h => by
    obtain ⟨ts, h1, h2⟩ := rangeObjs_surj n l (by simp at h; omega)
    exact ⟨⟨a, b, c⟩ :: ts, by simp [h1], by simp [h2]⟩

/-- a well-formed code space range: two strings of equal length, `low ≤ high` bytewise -/
def okPair (v : VM) (e : CodeSpaceRange) : Prop :=
  isStr e.low = true ∧ isStr e.high = true ∧
  (strBytes v e.low).length = (strBytes v e.high).length ∧
  bytesLe (strBytes v e.low) (strBytes v e.high) = true

/-- a well-formed single mapping: a string and a destination of the allowed type -/
def okChar (valOk : Obj → Bool) (e : CharMap) : Prop := isStr e.src = true ∧ valOk e.dst = true

/-- a well-formed range mapping -/
def okRange (v : VM) (valOk : Obj → Bool) (e : RangeMap) : Prop :=
  isStr e.low = true ∧ isStr e.high = true ∧
  (strBytes v e.low).length = (strBytes v e.high).length ∧
  bytesLe (strBytes v e.low) (strBytes v e.high) = true ∧ valOk e.dst = true

/-! ## the collectors on operand lists -/

theorem collectPairs_prefix (v : VM) (good : List CodeSpaceRange) (rest : List Obj)
    (hg : ∀ e ∈ good, okPair v e) :
    collectPairs v true (pairObjs good ++ rest) = (collectPairs v true rest).map (good ++ ·) := by
  induction good with
  | nil => cases h : collectPairs v true rest <;> simp [h, Except.map]
  | cons e es ih =>
    obtain ⟨h1, h2, h3, h4⟩ := hg e (by simp)
    have ih := ih (fun e he => hg e (by simp [he]))
    unfold bytesLe at h4
    simp only [pairObjs_cons, List.cons_append, collectPairs, h1, h2, h3, ih]
    cases h : collectPairs v true rest <;> simp_all [Except.map, bind, Except.bind, pure, Except.pure]

theorem collectPairs_ok (v : VM) (es : List CodeSpaceRange) (hg : ∀ e ∈ es, okPair v e) :
    collectPairs v true (pairObjs es) = .ok es := by
  have := collectPairs_prefix v es [] hg
  simpa [collectPairs, Except.map] using this

theorem collectPairs_ok_inv (v : VM) (ts es : List CodeSpaceRange)
    (h : collectPairs v true (pairObjs ts) = .ok es) : es = ts ∧ ∀ e ∈ ts, okPair v e := by
  induction ts generalizing es with
  | nil => simp [collectPairs] at h; simp [h]
  | cons e ts ih =>
    simp only [pairObjs_cons, collectPairs] at h
    repeat' split at h
    all_goals try (simp at h; done)
    rename_i h1 h2 h3 h4
    cases hr : collectPairs v true (pairObjs ts) with
    | error x => simp [hr, bind, Except.bind] at h
    | ok r =>
      obtain ⟨e1, e2⟩ := ih r hr
      simp [hr, bind, Except.bind, pure, Except.pure] at h
      subst h e1
      refine ⟨rfl, ?_⟩
      intro e' he'
      rcases List.mem_cons.1 he' with rfl | he'
      · simp at h1 h2 h3 h4
        exact ⟨h1, h2, h3, by simp [bytesLe, h4]⟩
      · exact e2 _ he'

/-- the first ill-formed entry decides the error -/
theorem collectPairs_bad (v : VM) (good : List CodeSpaceRange) (bad : CodeSpaceRange) (more : List CodeSpaceRange)
    (hg : ∀ e ∈ good, okPair v e) :
    (isStr bad.low = false ∨ isStr bad.high = false →
      collectPairs v true (pairObjs (good ++ bad :: more)) = .error "typecheck") ∧
    (isStr bad.low = true → isStr bad.high = true →
      ((strBytes v bad.low).length ≠ (strBytes v bad.high).length ∨
        bytesLt (strBytes v bad.high) (strBytes v bad.low) = true) →
      collectPairs v true (pairObjs (good ++ bad :: more)) = .error "rangecheck") := by
  rw [pairObjs_append, collectPairs_prefix _ _ _ hg]
  refine ⟨?_, ?_⟩
  · rintro (h | h)
    · simp [collectPairs, h, Except.map]
    · cases h1 : isStr bad.low <;> simp [collectPairs, h, h1, Except.map]
  · intro h1 h2 h3
    rcases h3 with h3 | h3
    · simp [collectPairs, h1, h2, h3, Except.map]
    · by_cases h4 : (strBytes v bad.low).length = (strBytes v bad.high).length <;>
        simp [collectPairs, h1, h2, h3, h4, Except.map]

theorem collectChars_prefix (valOk : Obj → Bool) (good : List CharMap) (rest : List Obj)
    (hg : ∀ e ∈ good, okChar valOk e) :
    collectChars valOk (charObjs good ++ rest) = (collectChars valOk rest).map (good ++ ·) := by
  induction good with
  | nil => cases h : collectChars valOk rest <;> simp [h, Except.map]
  | cons e es ih =>
    obtain ⟨h1, h2⟩ := hg e (by simp)
    have ih := ih (fun e he => hg e (by simp [he]))
    simp only [charObjs_cons, List.cons_append, collectChars, h1, h2, ih]
    cases h : collectChars valOk rest <;> simp_all [Except.map, bind, Except.bind, pure, Except.pure]

theorem collectChars_ok (valOk : Obj → Bool) (es : List CharMap) (hg : ∀ e ∈ es, okChar valOk e) :
    collectChars valOk (charObjs es) = .ok es := by
  have := collectChars_prefix valOk es [] hg
  simpa [collectChars, Except.map] using this

theorem collectChars_ok_inv (valOk : Obj → Bool) (ts es : List CharMap)
    (h : collectChars valOk (charObjs ts) = .ok es) : es = ts ∧ ∀ e ∈ ts, okChar valOk e := by
  induction ts generalizing es with
  | nil => simp [collectChars] at h; simp [h]
  | cons e ts ih =>
    simp only [charObjs_cons, collectChars] at h
    repeat' split at h
    all_goals try (simp at h; done)
    rename_i h1 h2
    cases hr : collectChars valOk (charObjs ts) with
    | error x => simp [hr, bind, Except.bind] at h
    | ok r =>
      obtain ⟨e1, e2⟩ := ih r hr
      simp [hr, bind, Except.bind, pure, Except.pure] at h
      subst h e1
      refine ⟨rfl, ?_⟩
      intro e' he'
      rcases List.mem_cons.1 he' with rfl | he'
      · simp at h1 h2
        exact ⟨h1, h2⟩
      · exact e2 _ he'

theorem collectChars_bad (valOk : Obj → Bool) (good : List CharMap) (bad : CharMap) (more : List CharMap)
    (hg : ∀ e ∈ good, okChar valOk e) (hb : isStr bad.src = false ∨ valOk bad.dst = false) :
    collectChars valOk (charObjs (good ++ bad :: more)) = .error "typecheck" := by
  rw [charObjs_append, collectChars_prefix _ _ _ hg]
  rcases hb with h | h
  · simp [collectChars, h, Except.map]
  · cases h1 : isStr bad.src <;> simp [collectChars, h, h1, Except.map]

theorem collectRanges_prefix (v : VM) (valOk : Obj → Bool) (good : List RangeMap) (rest : List Obj)
    (hg : ∀ e ∈ good, okRange v valOk e) :
    collectRanges v valOk (rangeObjs good ++ rest) = (collectRanges v valOk rest).map (good ++ ·) := by
  induction good with
  | nil => cases h : collectRanges v valOk rest <;> simp [h, Except.map]
  | cons e es ih =>
    obtain ⟨h1, h2, h3, h4, h5⟩ := hg e (by simp)
    have ih := ih (fun e he => hg e (by simp [he]))
    unfold bytesLe at h4
    simp only [rangeObjs_cons, List.cons_append, collectRanges, h1, h2, h3, h5, ih]
    cases h : collectRanges v valOk rest <;> simp_all [Except.map, bind, Except.bind, pure, Except.pure]

theorem collectRanges_ok (v : VM) (valOk : Obj → Bool) (es : List RangeMap) (hg : ∀ e ∈ es, okRange v valOk e) :
    collectRanges v valOk (rangeObjs es) = .ok es := by
  have := collectRanges_prefix v valOk es [] hg
  simpa [collectRanges, Except.map] using this

theorem collectRanges_ok_inv (v : VM) (valOk : Obj → Bool) (ts es : List RangeMap)
    (h : collectRanges v valOk (rangeObjs ts) = .ok es) : es = ts ∧ ∀ e ∈ ts, okRange v valOk e := by
  induction ts generalizing es with
  | nil => simp [collectRanges] at h; simp [h]
  | cons e ts ih =>
    simp only [rangeObjs_cons, collectRanges] at h
    repeat' split at h
    all_goals try (simp at h; done)
    rename_i h1 h2 h3 h4
    cases hr : collectRanges v valOk (rangeObjs ts) with
    | error x => simp [hr, bind, Except.bind] at h
    | ok r =>
      obtain ⟨e1, e2⟩ := ih r hr
      simp [hr, bind, Except.bind, pure, Except.pure] at h
      subst h e1
      refine ⟨rfl, ?_⟩
      intro e' he'
      rcases List.mem_cons.1 he' with rfl | he'
      · simp at h1 h2 h3 h4
        exact ⟨h1, h2, h3.1, by simp [bytesLe, h3.2], h4⟩
      · exact e2 _ he'

/-- the first ill-formed entry decides the error -/
theorem collectRanges_bad (v : VM) (valOk : Obj → Bool) (good : List RangeMap) (bad : RangeMap)
    (more : List RangeMap) (hg : ∀ e ∈ good, okRange v valOk e) :
    (isStr bad.low = false ∨ isStr bad.high = false →
      collectRanges v valOk (rangeObjs (good ++ bad :: more)) = .error "typecheck") ∧
    (isStr bad.low = true → isStr bad.high = true →
      ((strBytes v bad.low).length ≠ (strBytes v bad.high).length ∨
        bytesLt (strBytes v bad.high) (strBytes v bad.low) = true) →
      collectRanges v valOk (rangeObjs (good ++ bad :: more)) = .error "rangecheck") ∧
    (isStr bad.low = true → isStr bad.high = true →
      (strBytes v bad.low).length = (strBytes v bad.high).length →
      bytesLe (strBytes v bad.low) (strBytes v bad.high) = true → valOk bad.dst = false →
      collectRanges v valOk (rangeObjs (good ++ bad :: more)) = .error "typecheck") := by
  rw [rangeObjs_append, collectRanges_prefix _ _ _ _ hg]
  refine ⟨?_, ?_, ?_⟩
  · rintro (h | h)
    · simp [collectRanges, h, Except.map]
    · cases h1 : isStr bad.low <;> simp [collectRanges, h, h1, Except.map]
  · intro h1 h2 h3
    rcases h3 with h3 | h3
    · simp [collectRanges, h1, h2, h3, Except.map]
    · simp [collectRanges, h1, h2, h3, Except.map]
  · intro h1 h2 h3 h4 h5
    unfold bytesLe at h4
    simp at h4
    simp [collectRanges, h1, h2, h3, h4, h5, Except.map]

/-! ## the `end…` operators on a stack holding `n` raw entries -/

theorem take_entries (A rest : List Obj) (n : Nat) (h : A.length = n) :
    ((A.reverse ++ rest).take n).reverse = A ∧ (A.reverse ++ rest).drop n = rest := by
  have : A.reverse.length = n := by simp [h]
  rw [List.take_left' this, List.drop_left' this]; simp

/-- result of `endcodespacerange` in terms of the collector's verdict -/
def csrOut (v : VM) (r : Nat) (rest : List Obj) : Except ErrName (List CodeSpaceRange) → VM × Res
  | .error e => (v, .err (.ps e))
  | .ok es =>
    ({ (setCMap v r { v.getCMap r with codeSpaceRanges := (v.getCMap r).codeSpaceRanges ++ es }) with
        stack := rest, cmapCodeSpaceRanges := 0 }, .ok)

theorem endcodespacerange_eq (v : VM) (r : Nat) (ts : List CodeSpaceRange) (rest : List Obj)
    (hm : v.cmapMappings = some r) (hn : v.cmapCodeSpaceRanges = ts.length)
    (hs : v.stack = (pairObjs ts).reverse ++ rest) :
    bEndcodespacerange v = csrOut v r rest (collectPairs v true (pairObjs ts)) := by
  obtain ⟨e1, e2⟩ := take_entries (pairObjs ts) rest (2 * ts.length) (pairObjs_length ts)
  have hl : ¬ (v.stack.length < 2 * ts.length) := by
    rw [hs]; simp [pairObjs_length]
  unfold bEndcodespacerange withCMap
  simp only [hm, hn, hl, if_false]
  rw [hs, e1, e2]
  cases collectPairs v true (pairObjs ts) <;> rfl

def charsOut (add : CMapInfo → List CharMap → CMapInfo) (v : VM) (r : Nat) (rest : List Obj) :
    Except ErrName (List CharMap) → VM × Res
  | .error e => (v, .err (.ps e))
  | .ok es => ({ (setCMap v r (add (v.getCMap r) es)) with stack := rest, cmapChars := 0 }, .ok)

theorem endChars_eq (valOk : Obj → Bool) (add : CMapInfo → List CharMap → CMapInfo)
    (v : VM) (r : Nat) (ts : List CharMap) (rest : List Obj)
    (hm : v.cmapMappings = some r) (hn : v.cmapChars = ts.length)
    (hs : v.stack = (charObjs ts).reverse ++ rest) :
    endChars valOk add v = charsOut add v r rest (collectChars valOk (charObjs ts)) := by
  obtain ⟨e1, e2⟩ := take_entries (charObjs ts) rest (2 * ts.length) (charObjs_length ts)
  have hl : ¬ (v.stack.length < 2 * ts.length) := by
    rw [hs]; simp [charObjs_length]
  unfold endChars withCMap
  simp only [hm, hn, hl, if_false]
  rw [hs, e1, e2]
  cases collectChars valOk (charObjs ts) <;> rfl

def rangesOut (add : CMapInfo → List RangeMap → CMapInfo) (v : VM) (r : Nat) (rest : List Obj) :
    Except ErrName (List RangeMap) → VM × Res
  | .error e => (v, .err (.ps e))
  | .ok es => ({ (setCMap v r (add (v.getCMap r) es)) with stack := rest, cmapRanges := 0 }, .ok)

theorem endRanges_eq (valOk : Obj → Bool) (add : CMapInfo → List RangeMap → CMapInfo)
    (v : VM) (r : Nat) (ts : List RangeMap) (rest : List Obj)
    (hm : v.cmapMappings = some r) (hn : v.cmapRanges = ts.length)
    (hs : v.stack = (rangeObjs ts).reverse ++ rest) :
    endRanges valOk add v = rangesOut add v r rest (collectRanges v valOk (rangeObjs ts)) := by
  obtain ⟨e1, e2⟩ := take_entries (rangeObjs ts) rest (3 * ts.length) (rangeObjs_length ts)
  have hl : ¬ (v.stack.length < 3 * ts.length) := by
    rw [hs]; simp [rangeObjs_length]
  unfold endRanges withCMap
  simp only [hm, hn, hl, if_false]
  rw [hs, e1, e2]
  cases collectRanges v valOk (rangeObjs ts) <;> rfl

/-- whenever the stack is deep enough, its top `2n` operands are the operands of `n` raw entries -/
theorem stack_pairs (v : VM) (n : Nat) (h : 2 * n ≤ v.stack.length) :
    ∃ ts rest, ts.length = n ∧ v.stack = (pairObjs ts).reverse ++ rest := by
  obtain ⟨ts, h1, h2⟩ := pairObjs_surj n (v.stack.take (2 * n)).reverse (by simp; omega)
  refine ⟨ts, v.stack.drop (2 * n), h1, ?_⟩
  rw [h2]; simp

theorem stack_chars (v : VM) (n : Nat) (h : 2 * n ≤ v.stack.length) :
    ∃ ts rest, ts.length = n ∧ v.stack = (charObjs ts).reverse ++ rest := by
  obtain ⟨ts, h1, h2⟩ := charObjs_surj n (v.stack.take (2 * n)).reverse (by simp; omega)
  refine ⟨ts, v.stack.drop (2 * n), h1, ?_⟩
  rw [h2]; simp

theorem stack_ranges (v : VM) (n : Nat) (h : 3 * n ≤ v.stack.length) :
    ∃ ts rest, ts.length = n ∧ v.stack = (rangeObjs ts).reverse ++ rest := by
  obtain ⟨ts, h1, h2⟩ := rangeObjs_surj n (v.stack.take (3 * n)).reverse (by simp; omega)
  refine ⟨ts, v.stack.drop (3 * n), h1, ?_⟩
  rw [h2]; simp

theorem getCMap_of {v : VM} {r : Nat} {c : CMapInfo} (hc : v.heap[r]? = some (.cmap c)) : v.getCMap r = c := by
  simp [VM.getCMap, hc]

theorem lt_size_of {v : VM} {r : Nat} {c : Cell} (hc : v.heap[r]? = some c) : r < v.heap.size := by
  rcases Nat.lt_or_ge r v.heap.size with h | h
  · exact h
  · simp [Array.getElem?_eq_none h] at hc

/-! ## 1. `block_effect` -/

/-- `endcodespacerange`: with `n` well-formed ranges `e₁ … eₙ` on the stack (bottom to top) and scratch
length `n`, the operator succeeds, pops exactly the entries, resets the scratch length and appends
`[e₁, …, eₙ]` to the code space table; every other field of the `CMapInfo` and of the VM is unchanged. -/
theorem block_effect_codespacerange (v : VM) (r : Nat) (c : CMapInfo) (es : List CodeSpaceRange) (rest : List Obj)
    (hm : v.cmapMappings = some r) (hc : v.heap[r]? = some (.cmap c))
    (hn : v.cmapCodeSpaceRanges = es.length) (hs : v.stack = (pairObjs es).reverse ++ rest)
    (hok : ∀ e ∈ es, okPair v e) :
    bEndcodespacerange v =
      ({ v with heap := v.heap.setIfInBounds r (.cmap { c with codeSpaceRanges := c.codeSpaceRanges ++ es }),
                stack := rest, cmapCodeSpaceRanges := 0 }, .ok) := by
  rw [endcodespacerange_eq v r es rest hm hn hs, collectPairs_ok v es hok, getCMap_of hc]; rfl

/-- the three single-mapping operators, generically -/
theorem block_effect_chars (valOk : Obj → Bool) (add : CMapInfo → List CharMap → CMapInfo)
    (v : VM) (r : Nat) (c : CMapInfo) (es : List CharMap) (rest : List Obj)
    (hm : v.cmapMappings = some r) (hc : v.heap[r]? = some (.cmap c))
    (hn : v.cmapChars = es.length) (hs : v.stack = (charObjs es).reverse ++ rest)
    (hok : ∀ e ∈ es, okChar valOk e) :
    endChars valOk add v =
      ({ v with heap := v.heap.setIfInBounds r (.cmap (add c es)), stack := rest, cmapChars := 0 }, .ok) := by
  rw [endChars_eq valOk add v r es rest hm hn hs, collectChars_ok valOk es hok, getCMap_of hc]; rfl

/-- the three range-mapping operators, generically -/
theorem block_effect_ranges (valOk : Obj → Bool) (add : CMapInfo → List RangeMap → CMapInfo)
    (v : VM) (r : Nat) (c : CMapInfo) (es : List RangeMap) (rest : List Obj)
    (hm : v.cmapMappings = some r) (hc : v.heap[r]? = some (.cmap c))
    (hn : v.cmapRanges = es.length) (hs : v.stack = (rangeObjs es).reverse ++ rest)
    (hok : ∀ e ∈ es, okRange v valOk e) :
    endRanges valOk add v =
      ({ v with heap := v.heap.setIfInBounds r (.cmap (add c es)), stack := rest, cmapRanges := 0 }, .ok) := by
  rw [endRanges_eq valOk add v r es rest hm hn hs, collectRanges_ok v valOk es hok, getCMap_of hc]; rfl

section
variable (v : VM) (r : Nat) (c : CMapInfo) (rest : List Obj)
  (hm : v.cmapMappings = some r) (hc : v.heap[r]? = some (.cmap c))
include hm hc

theorem block_effect_cidchar (es : List CharMap)
    (hn : v.cmapChars = es.length) (hs : v.stack = (charObjs es).reverse ++ rest)
    (hok : ∀ e ∈ es, okChar isInt e) :
    bEndcidchar v =
      ({ v with heap := v.heap.setIfInBounds r (.cmap { c with cidChars := c.cidChars ++ es }),
                stack := rest, cmapChars := 0 }, .ok) :=
  block_effect_chars _ _ v r c es rest hm hc hn hs hok

theorem block_effect_bfchar (es : List CharMap)
    (hn : v.cmapChars = es.length) (hs : v.stack = (charObjs es).reverse ++ rest)
    (hok : ∀ e ∈ es, okChar isStrOrName e) :
    bEndbfchar v =
      ({ v with heap := v.heap.setIfInBounds r (.cmap { c with bfChars := c.bfChars ++ es }),
                stack := rest, cmapChars := 0 }, .ok) :=
  block_effect_chars _ _ v r c es rest hm hc hn hs hok

theorem block_effect_notdefchar (es : List CharMap)
    (hn : v.cmapChars = es.length) (hs : v.stack = (charObjs es).reverse ++ rest)
    (hok : ∀ e ∈ es, okChar isInt e) :
    bEndnotdefchar v =
      ({ v with heap := v.heap.setIfInBounds r (.cmap { c with notdefChars := c.notdefChars ++ es }),
                stack := rest, cmapChars := 0 }, .ok) :=
  block_effect_chars _ _ v r c es rest hm hc hn hs hok

theorem block_effect_cidrange (es : List RangeMap)
    (hn : v.cmapRanges = es.length) (hs : v.stack = (rangeObjs es).reverse ++ rest)
    (hok : ∀ e ∈ es, okRange v isInt e) :
    bEndcidrange v =
      ({ v with heap := v.heap.setIfInBounds r (.cmap { c with cidRanges := c.cidRanges ++ es }),
                stack := rest, cmapRanges := 0 }, .ok) :=
  block_effect_ranges _ _ v r c es rest hm hc hn hs hok

theorem block_effect_bfrange (es : List RangeMap)
    (hn : v.cmapRanges = es.length) (hs : v.stack = (rangeObjs es).reverse ++ rest)
    (hok : ∀ e ∈ es, okRange v isStrOrArr e) :
    bEndbfrange v =
      ({ v with heap := v.heap.setIfInBounds r (.cmap { c with bfRanges := c.bfRanges ++ es }),
                stack := rest, cmapRanges := 0 }, .ok) :=
  block_effect_ranges _ _ v r c es rest hm hc hn hs hok

theorem block_effect_notdefrange (es : List RangeMap)
    (hn : v.cmapRanges = es.length) (hs : v.stack = (rangeObjs es).reverse ++ rest)
    (hok : ∀ e ∈ es, okRange v isInt e) :
    bEndnotdefrange v =
      ({ v with heap := v.heap.setIfInBounds r (.cmap { c with notdefRanges := c.notdefRanges ++ es }),
                stack := rest, cmapRanges := 0 }, .ok) :=
  block_effect_ranges _ _ v r c es rest hm hc hn hs hok

end

/-- reading the table back: after the update the cell `r` holds the new `CMapInfo` -/
theorem getCMap_after (v w : VM) (r : Nat) (c c' : CMapInfo) (hc : v.heap[r]? = some (.cmap c))
    (hw : w.heap = v.heap.setIfInBounds r (.cmap c')) : w.getCMap r = c' := by
  have := lt_size_of hc
  simp [VM.getCMap, hw, this]

end PsVerif.Props.C07
