import PsVerif.Model.CMapOps
import PsVerif.Model.Init
/-!
# C07 — the CIDInit procedure set (CMap reader)

Statements about the 17 operators of `Model/CMapOps.lean` (`cmap.go`).  The operand stack is top-first, so
`n` entries `e₁ … eₙ` pushed in file order sit on the stack as `(objs [e₁, …, eₙ]).reverse ++ rest`, where
`pairObjs / charObjs / rangeObjs` list the operands bottom to top.  Since `CodeSpaceRange`, `CharMap` and
`RangeMap` are plain pairs/triples of objects, *every* stack with at least `2n` / `3n` operands has this shape
(`stack_pairs`, `stack_chars`, `stack_ranges`), so the theorems below cover all inputs of the `end…` operators.

1. `block_effect_*` (seven kinds; generic: `block_effect_chars`, `block_effect_ranges`), whole blocks
   `block_codespacerange / block_chars / block_ranges`.
2. `begin_block_rangecheck / _typecheck / _underflow / _ok`, `no_cmap_undefined` (14 block operators + `usecmap`).
3. `cmap_rejects_codespacerange / _chars / _ranges` (first ill-formed entry decides the error),
   `cmap_rejects_*_any` (any ill-formed entry ⇒ rejected), `end*_ok_iff` (accepted iff all entries well formed),
   `end*_underflow`, `fail_unchanged` (every failing operator returns the VM unchanged).
4. `endcmap_sorted` (with `bEndcmap_eq`, `bEndcmap_fail`, `sortTables_perm`, `sortTables_sorted`, `le_congr`).
-/
namespace PsVerif.Props.C07
open PsVerif.Model

/-! ## the bytewise order -/

theorem bytesLt_asymm : ∀ (a b : List UInt8), bytesLt a b = true → bytesLt b a = false
  | [], [] => by simp [bytesLt]
  | [], _ :: _ => by simp [bytesLt]
  | _ :: _, [] => by simp [bytesLt]
  | x :: as, y :: bs => by
    have ih := bytesLt_asymm as bs
    simp only [bytesLt, gt_iff_lt]
    by_cases h1 : x < y <;> by_cases h2 : y < x <;> simp [h1, h2]
    · exact absurd h2 (UInt8.lt_asymm h1)
    · exact ih

/-- negative transitivity of `<` -/
theorem bytesLt_negtrans : ∀ (a b c : List UInt8), bytesLt a c = true → bytesLt a b = true ∨ bytesLt b c = true
  | [], [], _ => fun h => Or.inr h
  | [], _ :: _, _ => by simp [bytesLt]
  | _ :: _, _, [] => by simp [bytesLt]
  | _ :: _, [], _ :: _ => by simp [bytesLt]
  | x :: as, y :: bs, z :: cs => by
    have ih := bytesLt_negtrans as bs cs
    simp only [bytesLt, gt_iff_lt, UInt8.lt_iff_toNat_lt]
    by_cases h1 : x.toNat < y.toNat <;> by_cases h2 : y.toNat < x.toNat <;>
      by_cases h3 : y.toNat < z.toNat <;> by_cases h4 : z.toNat < y.toNat <;>
      by_cases h5 : x.toNat < z.toNat <;> by_cases h6 : z.toNat < x.toNat <;>
      simp only [h1, h2, h3, h4, h5, h6, if_true, if_false] <;> first | omega | exact ih | simp

theorem bytesLe_total (a b : List UInt8) : (bytesLe a b || bytesLe b a) = true := by
  unfold bytesLe
  cases h : bytesLt b a
  · simp
  · simp [bytesLt_asymm _ _ h]

theorem bytesLe_trans (a b c : List UInt8) (h1 : bytesLe a b = true) (h2 : bytesLe b c = true) :
    bytesLe a c = true := by
  unfold bytesLe at *
  cases h : bytesLt c a
  · rfl
  · rcases bytesLt_negtrans c b a h with h' | h' <;> simp [h'] at h1 h2

theorem bytesLe_refl (a : List UInt8) : bytesLe a a = true := by
  have := bytesLe_total a a; simpa using this

/-! ## entries and their operands -/

/-- operands of a list of code space ranges, bottom to top -/
def pairObjs (es : List CodeSpaceRange) : List Obj := es.flatMap fun e => [e.low, e.high]
/-- operands of a list of single mappings, bottom to top -/
def charObjs (es : List CharMap) : List Obj := es.flatMap fun e => [e.src, e.dst]
/-- operands of a list of range mappings, bottom to top -/
def rangeObjs (es : List RangeMap) : List Obj := es.flatMap fun e => [e.low, e.high, e.dst]

@[simp] theorem pairObjs_nil : pairObjs [] = [] := rfl
@[simp] theorem pairObjs_cons (e es) : pairObjs (e :: es) = e.low :: e.high :: pairObjs es := by simp [pairObjs]
@[simp] theorem charObjs_nil : charObjs [] = [] := rfl
@[simp] theorem charObjs_cons (e es) : charObjs (e :: es) = e.src :: e.dst :: charObjs es := by simp [charObjs]
@[simp] theorem rangeObjs_nil : rangeObjs [] = [] := rfl
@[simp] theorem rangeObjs_cons (e es) : rangeObjs (e :: es) = e.low :: e.high :: e.dst :: rangeObjs es := by
  simp [rangeObjs]

theorem pairObjs_append (a b) : pairObjs (a ++ b) = pairObjs a ++ pairObjs b := by simp [pairObjs]
theorem charObjs_append (a b) : charObjs (a ++ b) = charObjs a ++ charObjs b := by simp [charObjs]
theorem rangeObjs_append (a b) : rangeObjs (a ++ b) = rangeObjs a ++ rangeObjs b := by simp [rangeObjs]

theorem pairObjs_length (es) : (pairObjs es).length = 2 * es.length := by
  induction es with
  | nil => rfl
  | cons e es ih => simp [ih]; omega
theorem charObjs_length (es) : (charObjs es).length = 2 * es.length := by
  induction es with
  | nil => rfl
  | cons e es ih => simp [ih]; omega
theorem rangeObjs_length (es) : (rangeObjs es).length = 3 * es.length := by
  induction es with
  | nil => rfl
  | cons e es ih => simp [ih]; omega

/-- every list of `2n` operands is the operand list of exactly `n` (raw) code space ranges -/
theorem pairObjs_surj : ∀ (n : Nat) (l : List Obj), l.length = 2 * n → ∃ ts, ts.length = n ∧ pairObjs ts = l
  | 0, [], _ => ⟨[], rfl, rfl⟩
  | 0, _ :: _, h => by simp at h
  | n + 1, [], h => by simp at h
  | n + 1, [_], h => by simp at h; omega
  | n + 1, a :: b :: l, h => by
    obtain ⟨ts, h1, h2⟩ := pairObjs_surj n l (by simp at h; omega)
    exact ⟨⟨a, b⟩ :: ts, by simp [h1], by simp [h2]⟩

theorem charObjs_surj : ∀ (n : Nat) (l : List Obj), l.length = 2 * n → ∃ ts, ts.length = n ∧ charObjs ts = l
  | 0, [], _ => ⟨[], rfl, rfl⟩
  | 0, _ :: _, h => by simp at h
  | n + 1, [], h => by simp at h
  | n + 1, [_], h => by simp at h; omega
  | n + 1, a :: b :: l, h => by
    obtain ⟨ts, h1, h2⟩ := charObjs_surj n l (by simp at h; omega)
    exact ⟨⟨a, b⟩ :: ts, by simp [h1], by simp [h2]⟩

theorem rangeObjs_surj : ∀ (n : Nat) (l : List Obj), l.length = 3 * n → ∃ ts, ts.length = n ∧ rangeObjs ts = l
  | 0, [], _ => ⟨[], rfl, rfl⟩
  | 0, _ :: _, h => by simp at h
  | n + 1, [], h => by simp at h
  | n + 1, [_], h => by simp at h; omega
  | n + 1, [_, _], h => by simp at h; omega
  | n + 1, a :: b :: c :: l, h => by
    obtain ⟨ts, h1, h2⟩ := rangeObjs_surj n l (by simp at h; omega)
    exact ⟨⟨a, b, c⟩ :: ts, by simp [h1], by simp [h2]⟩

/-- a well-formed code space range: two strings of equal length, `low ≤ high` bytewise -/
def okPair (v : VM) (e : CodeSpaceRange) : Prop :=
  isStr e.low = true ∧ isStr e.high = true ∧
  (strBytes v e.low).length = (strBytes v e.high).length ∧
  bytesLe (strBytes v e.low) (strBytes v e.high) = true

/-- a well-formed single mapping: a string and a destination of the allowed type -/
def okChar (valOk : Obj → Bool) (e : CharMap) : Prop := isStr e.src = true ∧ valOk e.dst = true

/-- a well-formed range mapping -/
def okRange (v : VM) (valOk : Obj → Bool) (e : RangeMap) : Prop :=
  isStr e.low = true ∧ isStr e.high = true ∧
  (strBytes v e.low).length = (strBytes v e.high).length ∧
  bytesLe (strBytes v e.low) (strBytes v e.high) = true ∧ valOk e.dst = true

/-! ## the collectors on operand lists -/

theorem collectPairs_prefix (v : VM) (good : List CodeSpaceRange) (rest : List Obj)
    (hg : ∀ e ∈ good, okPair v e) :
    collectPairs v true (pairObjs good ++ rest) = (collectPairs v true rest).map (good ++ ·) := by
  induction good with
  | nil => cases h : collectPairs v true rest <;> simp [h, Except.map]
  | cons e es ih =>
    obtain ⟨h1, h2, h3, h4⟩ := hg e (by simp)
    have ih := ih (fun e he => hg e (by simp [he]))
    unfold bytesLe at h4
    simp only [pairObjs_cons, List.cons_append, collectPairs, h1, h2, h3, ih]
    cases h : collectPairs v true rest <;> simp_all [Except.map, bind, Except.bind, pure, Except.pure]

theorem collectPairs_ok (v : VM) (es : List CodeSpaceRange) (hg : ∀ e ∈ es, okPair v e) :
    collectPairs v true (pairObjs es) = .ok es := by
  have := collectPairs_prefix v es [] hg
  simpa [collectPairs, Except.map] using this

theorem collectPairs_ok_inv (v : VM) (ts es : List CodeSpaceRange)
    (h : collectPairs v true (pairObjs ts) = .ok es) : es = ts ∧ ∀ e ∈ ts, okPair v e := by
  induction ts generalizing es with
  | nil => simp [collectPairs] at h; simp [h]
  | cons e ts ih =>
    simp only [pairObjs_cons, collectPairs] at h
    repeat' split at h
    all_goals try (simp at h; done)
    rename_i h1 h2 h3 h4
    cases hr : collectPairs v true (pairObjs ts) with
    | error x => simp [hr, bind, Except.bind] at h
    | ok r =>
      obtain ⟨e1, e2⟩ := ih r hr
      simp [hr, bind, Except.bind, pure, Except.pure] at h
      subst h e1
      refine ⟨rfl, ?_⟩
      intro e' he'
      rcases List.mem_cons.1 he' with rfl | he'
      · simp at h1 h2 h3 h4
        exact ⟨h1, h2, h3, by simp [bytesLe, h4]⟩
      · exact e2 _ he'

/-- the first ill-formed entry decides the error -/
theorem collectPairs_bad (v : VM) (good : List CodeSpaceRange) (bad : CodeSpaceRange) (more : List CodeSpaceRange)
    (hg : ∀ e ∈ good, okPair v e) :
    (isStr bad.low = false ∨ isStr bad.high = false →
      collectPairs v true (pairObjs (good ++ bad :: more)) = .error "typecheck") ∧
    (isStr bad.low = true → isStr bad.high = true →
      ((strBytes v bad.low).length ≠ (strBytes v bad.high).length ∨
        bytesLt (strBytes v bad.high) (strBytes v bad.low) = true) →
      collectPairs v true (pairObjs (good ++ bad :: more)) = .error "rangecheck") := by
  rw [pairObjs_append, collectPairs_prefix _ _ _ hg]
  refine ⟨?_, ?_⟩
  · rintro (h | h)
    · simp [collectPairs, h, Except.map]
    · cases h1 : isStr bad.low <;> simp [collectPairs, h, h1, Except.map]
  · intro h1 h2 h3
    rcases h3 with h3 | h3
    · simp [collectPairs, h1, h2, h3, Except.map]
    · by_cases h4 : (strBytes v bad.low).length = (strBytes v bad.high).length <;>
        simp [collectPairs, h1, h2, h3, h4, Except.map]

theorem collectChars_prefix (valOk : Obj → Bool) (good : List CharMap) (rest : List Obj)
    (hg : ∀ e ∈ good, okChar valOk e) :
    collectChars valOk (charObjs good ++ rest) = (collectChars valOk rest).map (good ++ ·) := by
  induction good with
  | nil => cases h : collectChars valOk rest <;> simp [h, Except.map]
  | cons e es ih =>
    obtain ⟨h1, h2⟩ := hg e (by simp)
    have ih := ih (fun e he => hg e (by simp [he]))
    simp only [charObjs_cons, List.cons_append, collectChars, h1, h2, ih]
    cases h : collectChars valOk rest <;> simp_all [Except.map, bind, Except.bind, pure, Except.pure]

theorem collectChars_ok (valOk : Obj → Bool) (es : List CharMap) (hg : ∀ e ∈ es, okChar valOk e) :
    collectChars valOk (charObjs es) = .ok es := by
  have := collectChars_prefix valOk es [] hg
  simpa [collectChars, Except.map] using this

theorem collectChars_ok_inv (valOk : Obj → Bool) (ts es : List CharMap)
    (h : collectChars valOk (charObjs ts) = .ok es) : es = ts ∧ ∀ e ∈ ts, okChar valOk e := by
  induction ts generalizing es with
  | nil => simp [collectChars] at h; simp [h]
  | cons e ts ih =>
    simp only [charObjs_cons, collectChars] at h
    repeat' split at h
    all_goals try (simp at h; done)
    rename_i h1 h2
    cases hr : collectChars valOk (charObjs ts) with
    | error x => simp [hr, bind, Except.bind] at h
    | ok r =>
      obtain ⟨e1, e2⟩ := ih r hr
      simp [hr, bind, Except.bind, pure, Except.pure] at h
      subst h e1
      refine ⟨rfl, ?_⟩
      intro e' he'
      rcases List.mem_cons.1 he' with rfl | he'
      · simp at h1 h2
        exact ⟨h1, h2⟩
      · exact e2 _ he'

theorem collectChars_bad (valOk : Obj → Bool) (good : List CharMap) (bad : CharMap) (more : List CharMap)
    (hg : ∀ e ∈ good, okChar valOk e) (hb : isStr bad.src = false ∨ valOk bad.dst = false) :
    collectChars valOk (charObjs (good ++ bad :: more)) = .error "typecheck" := by
  rw [charObjs_append, collectChars_prefix _ _ _ hg]
  rcases hb with h | h
  · simp [collectChars, h, Except.map]
  · cases h1 : isStr bad.src <;> simp [collectChars, h, h1, Except.map]

theorem collectRanges_prefix (v : VM) (valOk : Obj → Bool) (good : List RangeMap) (rest : List Obj)
    (hg : ∀ e ∈ good, okRange v valOk e) :
    collectRanges v valOk (rangeObjs good ++ rest) = (collectRanges v valOk rest).map (good ++ ·) := by
  induction good with
  | nil => cases h : collectRanges v valOk rest <;> simp [h, Except.map]
  | cons e es ih =>
    obtain ⟨h1, h2, h3, h4, h5⟩ := hg e (by simp)
    have ih := ih (fun e he => hg e (by simp [he]))
    unfold bytesLe at h4
    simp only [rangeObjs_cons, List.cons_append, collectRanges, h1, h2, h3, h5, ih]
    cases h : collectRanges v valOk rest <;> simp_all [Except.map, bind, Except.bind, pure, Except.pure]

theorem collectRanges_ok (v : VM) (valOk : Obj → Bool) (es : List RangeMap) (hg : ∀ e ∈ es, okRange v valOk e) :
    collectRanges v valOk (rangeObjs es) = .ok es := by
  have := collectRanges_prefix v valOk es [] hg
  simpa [collectRanges, Except.map] using this

theorem collectRanges_ok_inv (v : VM) (valOk : Obj → Bool) (ts es : List RangeMap)
    (h : collectRanges v valOk (rangeObjs ts) = .ok es) : es = ts ∧ ∀ e ∈ ts, okRange v valOk e := by
  induction ts generalizing es with
  | nil => simp [collectRanges] at h; simp [h]
  | cons e ts ih =>
    simp only [rangeObjs_cons, collectRanges] at h
    repeat' split at h
    all_goals try (simp at h; done)
    rename_i h1 h2 h3 h4
    cases hr : collectRanges v valOk (rangeObjs ts) with
    | error x => simp [hr, bind, Except.bind] at h
    | ok r =>
      obtain ⟨e1, e2⟩ := ih r hr
      simp [hr, bind, Except.bind, pure, Except.pure] at h
      subst h e1
      refine ⟨rfl, ?_⟩
      intro e' he'
      rcases List.mem_cons.1 he' with rfl | he'
      · simp at h1 h2 h3 h4
        exact ⟨h1, h2, h3.1, by simp [bytesLe, h3.2], h4⟩
      · exact e2 _ he'

/-- the first ill-formed entry decides the error -/
theorem collectRanges_bad (v : VM) (valOk : Obj → Bool) (good : List RangeMap) (bad : RangeMap)
    (more : List RangeMap) (hg : ∀ e ∈ good, okRange v valOk e) :
    (isStr bad.low = false ∨ isStr bad.high = false →
      collectRanges v valOk (rangeObjs (good ++ bad :: more)) = .error "typecheck") ∧
    (isStr bad.low = true → isStr bad.high = true →
      ((strBytes v bad.low).length ≠ (strBytes v bad.high).length ∨
        bytesLt (strBytes v bad.high) (strBytes v bad.low) = true) →
      collectRanges v valOk (rangeObjs (good ++ bad :: more)) = .error "rangecheck") ∧
    (isStr bad.low = true → isStr bad.high = true →
      (strBytes v bad.low).length = (strBytes v bad.high).length →
      bytesLe (strBytes v bad.low) (strBytes v bad.high) = true → valOk bad.dst = false →
      collectRanges v valOk (rangeObjs (good ++ bad :: more)) = .error "typecheck") := by
  rw [rangeObjs_append, collectRanges_prefix _ _ _ _ hg]
  refine ⟨?_, ?_, ?_⟩
  · rintro (h | h)
    · simp [collectRanges, h, Except.map]
    · cases h1 : isStr bad.low <;> simp [collectRanges, h, h1, Except.map]
  · intro h1 h2 h3
    rcases h3 with h3 | h3
    · simp [collectRanges, h1, h2, h3, Except.map]
    · simp [collectRanges, h1, h2, h3, Except.map]
  · intro h1 h2 h3 h4 h5
    unfold bytesLe at h4
    simp at h4
    simp [collectRanges, h1, h2, h3, h4, h5, Except.map]

/-! ## the `end…` operators on a stack holding `n` raw entries -/

theorem take_entries (A rest : List Obj) (n : Nat) (h : A.length = n) :
    ((A.reverse ++ rest).take n).reverse = A ∧ (A.reverse ++ rest).drop n = rest := by
  have : A.reverse.length = n := by simp [h]
  rw [List.take_left' this, List.drop_left' this]; simp

/-- result of `endcodespacerange` in terms of the collector's verdict -/
def csrOut (v : VM) (r : Nat) (rest : List Obj) : Except ErrName (List CodeSpaceRange) → VM × Res
  | .error e => (v, .err (.ps e))
  | .ok es =>
    ({ (setCMap v r { v.getCMap r with codeSpaceRanges := (v.getCMap r).codeSpaceRanges ++ es }) with
        stack := rest, cmapCodeSpaceRanges := 0 }, .ok)

theorem endcodespacerange_eq (v : VM) (r : Nat) (ts : List CodeSpaceRange) (rest : List Obj)
    (hm : v.cmapMappings = some r) (hn : v.cmapCodeSpaceRanges = ts.length)
    (hs : v.stack = (pairObjs ts).reverse ++ rest) :
    bEndcodespacerange v = csrOut v r rest (collectPairs v true (pairObjs ts)) := by
  obtain ⟨e1, e2⟩ := take_entries (pairObjs ts) rest (2 * ts.length) (pairObjs_length ts)
  have hl : ¬ (v.stack.length < 2 * ts.length) := by
    rw [hs]; simp [pairObjs_length]
  unfold bEndcodespacerange withCMap
  simp only [hm, hn, hl, if_false]
  rw [hs, e1, e2]
  cases collectPairs v true (pairObjs ts) <;> rfl

def charsOut (add : CMapInfo → List CharMap → CMapInfo) (v : VM) (r : Nat) (rest : List Obj) :
    Except ErrName (List CharMap) → VM × Res
  | .error e => (v, .err (.ps e))
  | .ok es => ({ (setCMap v r (add (v.getCMap r) es)) with stack := rest, cmapChars := 0 }, .ok)

theorem endChars_eq (valOk : Obj → Bool) (add : CMapInfo → List CharMap → CMapInfo)
    (v : VM) (r : Nat) (ts : List CharMap) (rest : List Obj)
    (hm : v.cmapMappings = some r) (hn : v.cmapChars = ts.length)
    (hs : v.stack = (charObjs ts).reverse ++ rest) :
    endChars valOk add v = charsOut add v r rest (collectChars valOk (charObjs ts)) := by
  obtain ⟨e1, e2⟩ := take_entries (charObjs ts) rest (2 * ts.length) (charObjs_length ts)
  have hl : ¬ (v.stack.length < 2 * ts.length) := by
    rw [hs]; simp [charObjs_length]
  unfold endChars withCMap
  simp only [hm, hn, hl, if_false]
  rw [hs, e1, e2]
  cases collectChars valOk (charObjs ts) <;> rfl

def rangesOut (add : CMapInfo → List RangeMap → CMapInfo) (v : VM) (r : Nat) (rest : List Obj) :
    Except ErrName (List RangeMap) → VM × Res
  | .error e => (v, .err (.ps e))
  | .ok es => ({ (setCMap v r (add (v.getCMap r) es)) with stack := rest, cmapRanges := 0 }, .ok)

theorem endRanges_eq (valOk : Obj → Bool) (add : CMapInfo → List RangeMap → CMapInfo)
    (v : VM) (r : Nat) (ts : List RangeMap) (rest : List Obj)
    (hm : v.cmapMappings = some r) (hn : v.cmapRanges = ts.length)
    (hs : v.stack = (rangeObjs ts).reverse ++ rest) :
    endRanges valOk add v = rangesOut add v r rest (collectRanges v valOk (rangeObjs ts)) := by
  obtain ⟨e1, e2⟩ := take_entries (rangeObjs ts) rest (3 * ts.length) (rangeObjs_length ts)
  have hl : ¬ (v.stack.length < 3 * ts.length) := by
    rw [hs]; simp [rangeObjs_length]
  unfold endRanges withCMap
  simp only [hm, hn, hl, if_false]
  rw [hs, e1, e2]
  cases collectRanges v valOk (rangeObjs ts) <;> rfl

/-- whenever the stack is deep enough, its top `2n` operands are the operands of `n` raw entries -/
theorem stack_pairs (v : VM) (n : Nat) (h : 2 * n ≤ v.stack.length) :
    ∃ ts rest, ts.length = n ∧ v.stack = (pairObjs ts).reverse ++ rest := by
  obtain ⟨ts, h1, h2⟩ := pairObjs_surj n (v.stack.take (2 * n)).reverse (by simp; omega)
  refine ⟨ts, v.stack.drop (2 * n), h1, ?_⟩
  rw [h2]; simp

theorem stack_chars (v : VM) (n : Nat) (h : 2 * n ≤ v.stack.length) :
    ∃ ts rest, ts.length = n ∧ v.stack = (charObjs ts).reverse ++ rest := by
  obtain ⟨ts, h1, h2⟩ := charObjs_surj n (v.stack.take (2 * n)).reverse (by simp; omega)
  refine ⟨ts, v.stack.drop (2 * n), h1, ?_⟩
  rw [h2]; simp

theorem stack_ranges (v : VM) (n : Nat) (h : 3 * n ≤ v.stack.length) :
    ∃ ts rest, ts.length = n ∧ v.stack = (rangeObjs ts).reverse ++ rest := by
  obtain ⟨ts, h1, h2⟩ := rangeObjs_surj n (v.stack.take (3 * n)).reverse (by simp; omega)
  refine ⟨ts, v.stack.drop (3 * n), h1, ?_⟩
  rw [h2]; simp

theorem getCMap_of {v : VM} {r : Nat} {c : CMapInfo} (hc : v.heap[r]? = some (.cmap c)) : v.getCMap r = c := by
  simp [VM.getCMap, hc]

theorem lt_size_of {v : VM} {r : Nat} {c : Cell} (hc : v.heap[r]? = some c) : r < v.heap.size := by
  rcases Nat.lt_or_ge r v.heap.size with h | h
  · exact h
  · simp [Array.getElem?_eq_none h] at hc

/-! ## 1. `block_effect` -/

/-- `endcodespacerange`: with `n` well-formed ranges `e₁ … eₙ` on the stack (bottom to top) and scratch
length `n`, the operator succeeds, pops exactly the entries, resets the scratch length and appends
`[e₁, …, eₙ]` to the code space table; every other field of the `CMapInfo` and of the VM is unchanged. -/
theorem block_effect_codespacerange (v : VM) (r : Nat) (c : CMapInfo) (es : List CodeSpaceRange) (rest : List Obj)
    (hm : v.cmapMappings = some r) (hc : v.heap[r]? = some (.cmap c))
    (hn : v.cmapCodeSpaceRanges = es.length) (hs : v.stack = (pairObjs es).reverse ++ rest)
    (hok : ∀ e ∈ es, okPair v e) :
    bEndcodespacerange v =
      ({ v with heap := v.heap.setIfInBounds r (.cmap { c with codeSpaceRanges := c.codeSpaceRanges ++ es }),
                stack := rest, cmapCodeSpaceRanges := 0 }, .ok) := by
  rw [endcodespacerange_eq v r es rest hm hn hs, collectPairs_ok v es hok]
  simp only [csrOut, getCMap_of hc]; rfl

/-- the three single-mapping operators, generically -/
theorem block_effect_chars (valOk : Obj → Bool) (add : CMapInfo → List CharMap → CMapInfo)
    (v : VM) (r : Nat) (c : CMapInfo) (es : List CharMap) (rest : List Obj)
    (hm : v.cmapMappings = some r) (hc : v.heap[r]? = some (.cmap c))
    (hn : v.cmapChars = es.length) (hs : v.stack = (charObjs es).reverse ++ rest)
    (hok : ∀ e ∈ es, okChar valOk e) :
    endChars valOk add v =
      ({ v with heap := v.heap.setIfInBounds r (.cmap (add c es)), stack := rest, cmapChars := 0 }, .ok) := by
  rw [endChars_eq valOk add v r es rest hm hn hs, collectChars_ok valOk es hok]
  simp only [charsOut, getCMap_of hc]; rfl

/-- the three range-mapping operators, generically -/
theorem block_effect_ranges (valOk : Obj → Bool) (add : CMapInfo → List RangeMap → CMapInfo)
    (v : VM) (r : Nat) (c : CMapInfo) (es : List RangeMap) (rest : List Obj)
    (hm : v.cmapMappings = some r) (hc : v.heap[r]? = some (.cmap c))
    (hn : v.cmapRanges = es.length) (hs : v.stack = (rangeObjs es).reverse ++ rest)
    (hok : ∀ e ∈ es, okRange v valOk e) :
    endRanges valOk add v =
      ({ v with heap := v.heap.setIfInBounds r (.cmap (add c es)), stack := rest, cmapRanges := 0 }, .ok) := by
  rw [endRanges_eq valOk add v r es rest hm hn hs, collectRanges_ok v valOk es hok]
  simp only [rangesOut, getCMap_of hc]; rfl

section
variable (v : VM) (r : Nat) (c : CMapInfo) (rest : List Obj)
  (hm : v.cmapMappings = some r) (hc : v.heap[r]? = some (.cmap c))
include hm hc

theorem block_effect_cidchar (es : List CharMap)
    (hn : v.cmapChars = es.length) (hs : v.stack = (charObjs es).reverse ++ rest)
    (hok : ∀ e ∈ es, okChar isInt e) :
    bEndcidchar v =
      ({ v with heap := v.heap.setIfInBounds r (.cmap { c with cidChars := c.cidChars ++ es }),
                stack := rest, cmapChars := 0 }, .ok) :=
  block_effect_chars _ _ v r c es rest hm hc hn hs hok

theorem block_effect_bfchar (es : List CharMap)
    (hn : v.cmapChars = es.length) (hs : v.stack = (charObjs es).reverse ++ rest)
    (hok : ∀ e ∈ es, okChar isStrOrName e) :
    bEndbfchar v =
      ({ v with heap := v.heap.setIfInBounds r (.cmap { c with bfChars := c.bfChars ++ es }),
                stack := rest, cmapChars := 0 }, .ok) :=
  block_effect_chars _ _ v r c es rest hm hc hn hs hok

theorem block_effect_notdefchar (es : List CharMap)
    (hn : v.cmapChars = es.length) (hs : v.stack = (charObjs es).reverse ++ rest)
    (hok : ∀ e ∈ es, okChar isInt e) :
    bEndnotdefchar v =
      ({ v with heap := v.heap.setIfInBounds r (.cmap { c with notdefChars := c.notdefChars ++ es }),
                stack := rest, cmapChars := 0 }, .ok) :=
  block_effect_chars _ _ v r c es rest hm hc hn hs hok

theorem block_effect_cidrange (es : List RangeMap)
    (hn : v.cmapRanges = es.length) (hs : v.stack = (rangeObjs es).reverse ++ rest)
    (hok : ∀ e ∈ es, okRange v isInt e) :
    bEndcidrange v =
      ({ v with heap := v.heap.setIfInBounds r (.cmap { c with cidRanges := c.cidRanges ++ es }),
                stack := rest, cmapRanges := 0 }, .ok) :=
  block_effect_ranges _ _ v r c es rest hm hc hn hs hok

theorem block_effect_bfrange (es : List RangeMap)
    (hn : v.cmapRanges = es.length) (hs : v.stack = (rangeObjs es).reverse ++ rest)
    (hok : ∀ e ∈ es, okRange v isStrOrArr e) :
    bEndbfrange v =
      ({ v with heap := v.heap.setIfInBounds r (.cmap { c with bfRanges := c.bfRanges ++ es }),
                stack := rest, cmapRanges := 0 }, .ok) :=
  block_effect_ranges _ _ v r c es rest hm hc hn hs hok

theorem block_effect_notdefrange (es : List RangeMap)
    (hn : v.cmapRanges = es.length) (hs : v.stack = (rangeObjs es).reverse ++ rest)
    (hok : ∀ e ∈ es, okRange v isInt e) :
    bEndnotdefrange v =
      ({ v with heap := v.heap.setIfInBounds r (.cmap { c with notdefRanges := c.notdefRanges ++ es }),
                stack := rest, cmapRanges := 0 }, .ok) :=
  block_effect_ranges _ _ v r c es rest hm hc hn hs hok

end

/-- reading the table back: after the update the cell `r` holds the new `CMapInfo` -/
theorem getCMap_after (v w : VM) (r : Nat) (c c' : CMapInfo) (hc : v.heap[r]? = some (.cmap c))
    (hw : w.heap = v.heap.setIfInBounds r (.cmap c')) : w.getCMap r = c' := by
  have := lt_size_of hc
  simp [VM.getCMap, hw, this]

/-! ## 2. `begin_block` -/

/-- ids of the seven `begin…` operators in the dispatch table `cmapBuiltin` -/
def beginIds : List String :=
  ["cid:begincodespacerange", "cid:begincidchar", "cid:beginbfchar", "cid:beginnotdefchar",
   "cid:begincidrange", "cid:beginbfrange", "cid:beginnotdefrange"]

/-- ids of the seven `end…` operators -/
def endIds : List String :=
  ["cid:endcodespacerange", "cid:endcidchar", "cid:endbfchar", "cid:endnotdefchar",
   "cid:endcidrange", "cid:endbfrange", "cid:endnotdefrange"]

theorem beginBlock_rangecheck (v : VM) (set : VM → Nat → VM) (r : Nat) (n : Int) (rest : List Obj)
    (hm : v.cmapMappings = some r) (hs : v.stack = .int n :: rest) (hn : n < 0 ∨ n > 100) :
    beginBlock v set = (v, .err (.ps "rangecheck")) := by
  simp [beginBlock, withCMap, hm, hs, cmapBlockLimit, hn, psErr]

theorem beginBlock_typecheck (v : VM) (set : VM → Nat → VM) (r : Nat) (o : Obj) (rest : List Obj)
    (hm : v.cmapMappings = some r) (hs : v.stack = o :: rest) (ho : isInt o = false) :
    beginBlock v set = (v, .err (.ps "typecheck")) := by
  cases o <;> simp_all [beginBlock, withCMap, psErr, isInt]

theorem beginBlock_underflow (v : VM) (set : VM → Nat → VM) (r : Nat)
    (hm : v.cmapMappings = some r) (hs : v.stack = []) :
    beginBlock v set = (v, .err (.ps "stackunderflow")) := by
  simp [beginBlock, withCMap, hm, hs, psErr]

theorem beginBlock_undefined (v : VM) (set : VM → Nat → VM) (hm : v.cmapMappings = none) :
    beginBlock v set = (v, .err (.ps "undefined")) := by
  simp [beginBlock, withCMap, hm, psErr]

theorem beginBlock_ok (v : VM) (set : VM → Nat → VM) (r : Nat) (n : Int) (rest : List Obj)
    (hm : v.cmapMappings = some r) (hs : v.stack = .int n :: rest) (h0 : 0 ≤ n) (h1 : n ≤ 100) :
    beginBlock v set = (set { v with stack := rest } n.toNat, .ok) := by
  have : ¬ (n < 0 ∨ n > 100) := by omega
  simp [beginBlock, withCMap, hm, hs, cmapBlockLimit, this, okRes]

/-- every `begin…` operator is `beginBlock` with some setter of a scratch length -/
theorem begin_is_beginBlock (id : String) (hid : id ∈ beginIds) (v : VM) :
    ∃ set : VM → Nat → VM, cmapBuiltin id v = some (beginBlock v set) := by
  simp only [beginIds, List.mem_cons, List.not_mem_nil, or_false] at hid
  rcases hid with rfl | rfl | rfl | rfl | rfl | rfl | rfl <;> exact ⟨_, rfl⟩

/-- **a declared count outside `0..100` is a `rangecheck`; nothing changes** (all seven kinds) -/
theorem begin_block_rangecheck (id : String) (hid : id ∈ beginIds) (v : VM) (r : Nat) (n : Int) (rest : List Obj)
    (hm : v.cmapMappings = some r) (hs : v.stack = .int n :: rest) (hn : n < 0 ∨ n > 100) :
    cmapBuiltin id v = some (v, .err (.ps "rangecheck")) := by
  obtain ⟨set, h⟩ := begin_is_beginBlock id hid v
  rw [h, beginBlock_rangecheck v set r n rest hm hs hn]

/-- a count that is not an integer is a `typecheck`; nothing changes -/
theorem begin_block_typecheck (id : String) (hid : id ∈ beginIds) (v : VM) (r : Nat) (o : Obj) (rest : List Obj)
    (hm : v.cmapMappings = some r) (hs : v.stack = o :: rest) (ho : isInt o = false) :
    cmapBuiltin id v = some (v, .err (.ps "typecheck")) := by
  obtain ⟨set, h⟩ := begin_is_beginBlock id hid v
  rw [h, beginBlock_typecheck v set r o rest hm hs ho]

/-- no count on the stack is a `stackunderflow`; nothing changes -/
theorem begin_block_underflow (id : String) (hid : id ∈ beginIds) (v : VM) (r : Nat)
    (hm : v.cmapMappings = some r) (hs : v.stack = []) :
    cmapBuiltin id v = some (v, .err (.ps "stackunderflow")) := by
  obtain ⟨set, h⟩ := begin_is_beginBlock id hid v
  rw [h, beginBlock_underflow v set r hm hs]

/-- a count in `0..100` is popped and becomes the scratch length of the operator's kind -/
theorem begin_block_ok (v : VM) (r : Nat) (n : Int) (rest : List Obj)
    (hm : v.cmapMappings = some r) (hs : v.stack = .int n :: rest) (h0 : 0 ≤ n) (h1 : n ≤ 100) :
    cmapBuiltin "cid:begincodespacerange" v = some ({ v with stack := rest, cmapCodeSpaceRanges := n.toNat }, .ok) ∧
    (∀ id ∈ ["cid:begincidchar", "cid:beginbfchar", "cid:beginnotdefchar"],
      cmapBuiltin id v = some ({ v with stack := rest, cmapChars := n.toNat }, .ok)) ∧
    (∀ id ∈ ["cid:begincidrange", "cid:beginbfrange", "cid:beginnotdefrange"],
      cmapBuiltin id v = some ({ v with stack := rest, cmapRanges := n.toNat }, .ok)) := by
  refine ⟨?_, ?_, ?_⟩
  · show some (beginBlock v _) = _
    rw [beginBlock_ok v _ r n rest hm hs h0 h1]
  · intro id hid
    simp only [List.mem_cons, List.not_mem_nil, or_false] at hid
    rcases hid with rfl | rfl | rfl <;>
    · show some (beginBlock v _) = _
      rw [beginBlock_ok v _ r n rest hm hs h0 h1]
  · intro id hid
    simp only [List.mem_cons, List.not_mem_nil, or_false] at hid
    rcases hid with rfl | rfl | rfl <;>
    · show some (beginBlock v _) = _
      rw [beginBlock_ok v _ r n rest hm hs h0 h1]

/-- **outside `begincmap … endcmap` all fourteen block operators and `usecmap` are `undefined`** -/
theorem no_cmap_undefined (id : String) (hid : id ∈ "cid:usecmap" :: (beginIds ++ endIds)) (v : VM)
    (hm : v.cmapMappings = none) : cmapBuiltin id v = some (v, .err (.ps "undefined")) := by
  simp only [beginIds, endIds, List.cons_append, List.nil_append, List.mem_cons, List.not_mem_nil, or_false] at hid
  rcases hid with rfl | rfl | rfl | rfl | rfl | rfl | rfl | rfl | rfl | rfl | rfl | rfl | rfl | rfl | rfl <;>
    simp [cmapBuiltin, bUsecmap, bBegincodespacerange, bBeginChars, bBeginRanges, beginBlock,
      bEndcodespacerange, bEndcidchar, bEndbfchar, bEndnotdefchar, bEndcidrange, bEndbfrange, bEndnotdefrange,
      endChars, endRanges, withCMap, hm, psErr]

/-- the dispatch table covers exactly the keys of the procedure set -/
theorem cidInit_dispatch (v : VM) : ∀ k ∈ cidInitKeys, (cmapBuiltin ("cid:" ++ k) v).isSome = true := by
  simp [cidInitKeys, cmapBuiltin]

/-! ## 3. `cmap_rejects` -/

theorem exists_first_bad {α : Type} (P : α → Prop) (l : List α) (h : ∃ e ∈ l, ¬ P e) :
    ∃ good bad more, l = good ++ bad :: more ∧ (∀ e ∈ good, P e) ∧ ¬ P bad := by
  induction l with
  | nil => simp at h
  | cons a l ih =>
    by_cases ha : P a
    · obtain ⟨e, he, hp⟩ := h
      rcases List.mem_cons.1 he with rfl | he
      · exact absurd ha hp
      · obtain ⟨g, b, m, h1, h2, h3⟩ := ih ⟨e, he, hp⟩
        refine ⟨a :: g, b, m, by simp [h1], ?_, h3⟩
        intro x hx
        rcases List.mem_cons.1 hx with rfl | hx
        · exact ha
        · exact h2 x hx
    · exact ⟨[], a, l, rfl, by simp, ha⟩

/-- fewer than `2n` operands: `stackunderflow`, nothing changes -/
theorem endcodespacerange_underflow (v : VM) (r : Nat) (hm : v.cmapMappings = some r)
    (h : v.stack.length < 2 * v.cmapCodeSpaceRanges) :
    bEndcodespacerange v = (v, .err (.ps "stackunderflow")) := by
  simp [bEndcodespacerange, withCMap, hm, h, psErr]

theorem endChars_underflow (valOk : Obj → Bool) (add : CMapInfo → List CharMap → CMapInfo) (v : VM) (r : Nat)
    (hm : v.cmapMappings = some r) (h : v.stack.length < 2 * v.cmapChars) :
    endChars valOk add v = (v, .err (.ps "stackunderflow")) := by
  simp [endChars, withCMap, hm, h, psErr]

theorem endRanges_underflow (valOk : Obj → Bool) (add : CMapInfo → List RangeMap → CMapInfo) (v : VM) (r : Nat)
    (hm : v.cmapMappings = some r) (h : v.stack.length < 3 * v.cmapRanges) :
    endRanges valOk add v = (v, .err (.ps "stackunderflow")) := by
  simp [endRanges, withCMap, hm, h, psErr]

/-- **code space ranges**: the first ill-formed entry (after well-formed ones) decides the error —
a bound that is not a string is a `typecheck`, bounds of unequal length or `low > high` a `rangecheck` —
and the VM is returned unchanged -/
theorem cmap_rejects_codespacerange (v : VM) (r : Nat) (good : List CodeSpaceRange) (bad : CodeSpaceRange)
    (more : List CodeSpaceRange) (rest : List Obj)
    (hm : v.cmapMappings = some r) (hn : v.cmapCodeSpaceRanges = (good ++ bad :: more).length)
    (hs : v.stack = (pairObjs (good ++ bad :: more)).reverse ++ rest) (hg : ∀ e ∈ good, okPair v e) :
    (isStr bad.low = false ∨ isStr bad.high = false →
      bEndcodespacerange v = (v, .err (.ps "typecheck"))) ∧
    (isStr bad.low = true → isStr bad.high = true →
      ((strBytes v bad.low).length ≠ (strBytes v bad.high).length ∨
        bytesLt (strBytes v bad.high) (strBytes v bad.low) = true) →
      bEndcodespacerange v = (v, .err (.ps "rangecheck"))) := by
  rw [endcodespacerange_eq v r _ rest hm hn hs]
  obtain ⟨h1, h2⟩ := collectPairs_bad v good bad more hg
  exact ⟨fun h => by rw [h1 h]; rfl, fun a b c => by rw [h2 a b c]; rfl⟩

/-- **single mappings** (cid, bf, notdef): a source code that is not a string or a destination of the wrong
type is a `typecheck`; the VM is returned unchanged -/
theorem cmap_rejects_chars (valOk : Obj → Bool) (add : CMapInfo → List CharMap → CMapInfo)
    (v : VM) (r : Nat) (good : List CharMap) (bad : CharMap) (more : List CharMap) (rest : List Obj)
    (hm : v.cmapMappings = some r) (hn : v.cmapChars = (good ++ bad :: more).length)
    (hs : v.stack = (charObjs (good ++ bad :: more)).reverse ++ rest) (hg : ∀ e ∈ good, okChar valOk e)
    (hb : isStr bad.src = false ∨ valOk bad.dst = false) :
    endChars valOk add v = (v, .err (.ps "typecheck")) := by
  rw [endChars_eq valOk add v r _ rest hm hn hs, collectChars_bad valOk good bad more hg hb]; rfl

/-- **range mappings** (cid, bf, notdef): a bound that is not a string is a `typecheck`, bounds of unequal
length or `low > high` a `rangecheck`, a destination of the wrong type (bounds being fine) a `typecheck`;
the VM is returned unchanged -/
theorem cmap_rejects_ranges (valOk : Obj → Bool) (add : CMapInfo → List RangeMap → CMapInfo)
    (v : VM) (r : Nat) (good : List RangeMap) (bad : RangeMap) (more : List RangeMap) (rest : List Obj)
    (hm : v.cmapMappings = some r) (hn : v.cmapRanges = (good ++ bad :: more).length)
    (hs : v.stack = (rangeObjs (good ++ bad :: more)).reverse ++ rest) (hg : ∀ e ∈ good, okRange v valOk e) :
    (isStr bad.low = false ∨ isStr bad.high = false →
      endRanges valOk add v = (v, .err (.ps "typecheck"))) ∧
    (isStr bad.low = true → isStr bad.high = true →
      ((strBytes v bad.low).length ≠ (strBytes v bad.high).length ∨
        bytesLt (strBytes v bad.high) (strBytes v bad.low) = true) →
      endRanges valOk add v = (v, .err (.ps "rangecheck"))) ∧
    (isStr bad.low = true → isStr bad.high = true →
      (strBytes v bad.low).length = (strBytes v bad.high).length →
      bytesLe (strBytes v bad.low) (strBytes v bad.high) = true → valOk bad.dst = false →
      endRanges valOk add v = (v, .err (.ps "typecheck"))) := by
  rw [endRanges_eq valOk add v r _ rest hm hn hs]
  obtain ⟨h1, h2, h3⟩ := collectRanges_bad v valOk good bad more hg
  exact ⟨fun h => by rw [h1 h]; rfl, fun a b c => by rw [h2 a b c]; rfl,
    fun a b c d e => by rw [h3 a b c d e]; rfl⟩

/-- `endcodespacerange` accepts exactly the blocks all of whose entries are well formed -/
theorem endcodespacerange_ok_iff (v : VM) (r : Nat) (ts : List CodeSpaceRange) (rest : List Obj)
    (hm : v.cmapMappings = some r) (hn : v.cmapCodeSpaceRanges = ts.length)
    (hs : v.stack = (pairObjs ts).reverse ++ rest) :
    (bEndcodespacerange v).2 = .ok ↔ ∀ e ∈ ts, okPair v e := by
  rw [endcodespacerange_eq v r ts rest hm hn hs]
  constructor
  · intro h
    cases hc : collectPairs v true (pairObjs ts) with
    | error e => simp [hc, csrOut] at h
    | ok es => exact (collectPairs_ok_inv v ts es hc).2
  · intro h; rw [collectPairs_ok v ts h]; rfl

theorem endChars_ok_iff (valOk : Obj → Bool) (add : CMapInfo → List CharMap → CMapInfo)
    (v : VM) (r : Nat) (ts : List CharMap) (rest : List Obj)
    (hm : v.cmapMappings = some r) (hn : v.cmapChars = ts.length)
    (hs : v.stack = (charObjs ts).reverse ++ rest) :
    (endChars valOk add v).2 = .ok ↔ ∀ e ∈ ts, okChar valOk e := by
  rw [endChars_eq valOk add v r ts rest hm hn hs]
  constructor
  · intro h
    cases hc : collectChars valOk (charObjs ts) with
    | error e => simp [hc, charsOut] at h
    | ok es => exact (collectChars_ok_inv valOk ts es hc).2
  · intro h; rw [collectChars_ok valOk ts h]; rfl

theorem endRanges_ok_iff (valOk : Obj → Bool) (add : CMapInfo → List RangeMap → CMapInfo)
    (v : VM) (r : Nat) (ts : List RangeMap) (rest : List Obj)
    (hm : v.cmapMappings = some r) (hn : v.cmapRanges = ts.length)
    (hs : v.stack = (rangeObjs ts).reverse ++ rest) :
    (endRanges valOk add v).2 = .ok ↔ ∀ e ∈ ts, okRange v valOk e := by
  rw [endRanges_eq valOk add v r ts rest hm hn hs]
  constructor
  · intro h
    cases hc : collectRanges v valOk (rangeObjs ts) with
    | error e => simp [hc, rangesOut] at h
    | ok es => exact (collectRanges_ok_inv v valOk ts es hc).2
  · intro h; rw [collectRanges_ok v valOk ts h]; rfl

/-- one ill-formed entry anywhere in the block: the block is rejected with `typecheck` or `rangecheck`
and the VM is unchanged (code space ranges) -/
theorem cmap_rejects_codespacerange_any (v : VM) (r : Nat) (ts : List CodeSpaceRange) (rest : List Obj)
    (hm : v.cmapMappings = some r) (hn : v.cmapCodeSpaceRanges = ts.length)
    (hs : v.stack = (pairObjs ts).reverse ++ rest) (hbad : ∃ e ∈ ts, ¬ okPair v e) :
    bEndcodespacerange v = (v, .err (.ps "typecheck")) ∨ bEndcodespacerange v = (v, .err (.ps "rangecheck")) := by
  obtain ⟨good, bad, more, rfl, hg, hb⟩ := exists_first_bad _ ts hbad
  obtain ⟨h1, h2⟩ := cmap_rejects_codespacerange v r good bad more rest hm hn hs hg
  cases a : isStr bad.low
  · exact .inl (h1 (.inl a))
  cases b : isStr bad.high
  · exact .inl (h1 (.inr b))
  refine .inr (h2 a b ?_)
  by_cases c : (strBytes v bad.low).length = (strBytes v bad.high).length
  · right
    cases d : bytesLt (strBytes v bad.high) (strBytes v bad.low)
    · exact absurd ⟨a, b, c, by simp [bytesLe, d]⟩ hb
    · rfl
  · exact .inl c

theorem cmap_rejects_chars_any (valOk : Obj → Bool) (add : CMapInfo → List CharMap → CMapInfo)
    (v : VM) (r : Nat) (ts : List CharMap) (rest : List Obj)
    (hm : v.cmapMappings = some r) (hn : v.cmapChars = ts.length)
    (hs : v.stack = (charObjs ts).reverse ++ rest) (hbad : ∃ e ∈ ts, ¬ okChar valOk e) :
    endChars valOk add v = (v, .err (.ps "typecheck")) := by
  obtain ⟨good, bad, more, rfl, hg, hb⟩ := exists_first_bad _ ts hbad
  refine cmap_rejects_chars valOk add v r good bad more rest hm hn hs hg ?_
  cases a : isStr bad.src
  · exact .inl rfl
  cases b : valOk bad.dst
  · exact .inr rfl
  exact absurd ⟨a, b⟩ hb

theorem cmap_rejects_ranges_any (valOk : Obj → Bool) (add : CMapInfo → List RangeMap → CMapInfo)
    (v : VM) (r : Nat) (ts : List RangeMap) (rest : List Obj)
    (hm : v.cmapMappings = some r) (hn : v.cmapRanges = ts.length)
    (hs : v.stack = (rangeObjs ts).reverse ++ rest) (hbad : ∃ e ∈ ts, ¬ okRange v valOk e) :
    endRanges valOk add v = (v, .err (.ps "typecheck")) ∨ endRanges valOk add v = (v, .err (.ps "rangecheck")) := by
  obtain ⟨good, bad, more, rfl, hg, hb⟩ := exists_first_bad _ ts hbad
  obtain ⟨h1, h2, h3⟩ := cmap_rejects_ranges valOk add v r good bad more rest hm hn hs hg
  cases a : isStr bad.low
  · exact .inl (h1 (.inl a))
  cases b : isStr bad.high
  · exact .inl (h1 (.inr b))
  by_cases c : (strBytes v bad.low).length = (strBytes v bad.high).length
  · cases d : bytesLt (strBytes v bad.high) (strBytes v bad.low)
    · have d' : bytesLe (strBytes v bad.low) (strBytes v bad.high) = true := by simp [bytesLe, d]
      cases e : valOk bad.dst
      · exact .inl (h3 a b c d' e)
      · exact absurd ⟨a, b, c, d', e⟩ hb
    · exact .inr (h2 a b (.inr d))
  · exact .inr (h2 a b (.inl c))

/-- the six generic instances: the theorems about `endChars`/`endRanges` speak about these operators -/
theorem end_ops_generic :
    bEndcidchar = endChars isInt (fun c es => { c with cidChars := c.cidChars ++ es }) ∧
    bEndbfchar = endChars isStrOrName (fun c es => { c with bfChars := c.bfChars ++ es }) ∧
    bEndnotdefchar = endChars isInt (fun c es => { c with notdefChars := c.notdefChars ++ es }) ∧
    bEndcidrange = endRanges isInt (fun c es => { c with cidRanges := c.cidRanges ++ es }) ∧
    bEndbfrange = endRanges isStrOrArr (fun c es => { c with bfRanges := c.bfRanges ++ es }) ∧
    bEndnotdefrange = endRanges isInt (fun c es => { c with notdefRanges := c.notdefRanges ++ es }) :=
  ⟨rfl, rfl, rfl, rfl, rfl, rfl⟩

theorem beginBlock_fail (v : VM) (set : VM → Nat → VM) (h : (beginBlock v set).2 ≠ .ok) :
    (beginBlock v set).1 = v := by
  revert h; unfold beginBlock withCMap
  repeat' split
  all_goals simp [psErr, okRes]

theorem endcodespacerange_fail (v : VM) (h : (bEndcodespacerange v).2 ≠ .ok) : (bEndcodespacerange v).1 = v := by
  revert h; unfold bEndcodespacerange withCMap
  dsimp only
  repeat' split
  all_goals simp [psErr, okRes]

theorem endChars_fail (valOk : Obj → Bool) (add : CMapInfo → List CharMap → CMapInfo) (v : VM)
    (h : (endChars valOk add v).2 ≠ .ok) : (endChars valOk add v).1 = v := by
  revert h; unfold endChars withCMap
  dsimp only
  repeat' split
  all_goals simp [psErr, okRes]

theorem endRanges_fail (valOk : Obj → Bool) (add : CMapInfo → List RangeMap → CMapInfo) (v : VM)
    (h : (endRanges valOk add v).2 ≠ .ok) : (endRanges valOk add v).1 = v := by
  revert h; unfold endRanges withCMap
  dsimp only
  repeat' split
  all_goals simp [psErr, okRes]

theorem usecmap_fail (v : VM) (h : (bUsecmap v).2 ≠ .ok) : (bUsecmap v).1 = v := by
  revert h; unfold bUsecmap withCMap
  repeat' split
  all_goals simp [psErr, okRes]

theorem endcmap_fail (v : VM) (h : (bEndcmap v).2 ≠ .ok) : (bEndcmap v).1 = v := by
  revert h; unfold bEndcmap
  dsimp only
  repeat' split
  all_goals simp [psErr, okRes]

/-- **failure is atomic** for every operator of the procedure set: an operator that does not return `ok`
returns the VM it was given — no operand is popped, nothing is stored in the `CMapInfo` and the scratch
lengths stay, so no entry of a failed block can appear in a table -/
theorem fail_unchanged (id : String) (v : VM) (out : VM × Res) (h : cmapBuiltin id v = some out)
    (hne : out.2 ≠ .ok) : out.1 = v := by
  unfold cmapBuiltin at h
  split at h <;> simp only [Option.some.injEq, reduceCtorEq] at h <;> subst h
  all_goals first
    | (simp [bBegincmap, okRes] at hne; done)
    | exact endcmap_fail v hne
    | exact usecmap_fail v hne
    | exact beginBlock_fail v _ hne
    | exact endcodespacerange_fail v hne
    | exact endChars_fail _ _ v hne
    | exact endRanges_fail _ _ v hne

/-! ## 4. `endcmap_sorted` -/

/-- order of the code space table: by length of the low bound, then bytewise -/
def leCS (v : VM) (a b : CodeSpaceRange) : Bool :=
  if (strBytes v a.low).length != (strBytes v b.low).length
  then decide ((strBytes v a.low).length ≤ (strBytes v b.low).length)
  else bytesLe (strBytes v a.low) (strBytes v b.low)

/-- order of the single-mapping tables: bytewise by source code -/
def leSrc (v : VM) (a b : CharMap) : Bool := bytesLe (strBytes v a.src) (strBytes v b.src)

/-- order of the range tables: bytewise by low bound -/
def leLow (v : VM) (a b : RangeMap) : Bool := bytesLe (strBytes v a.low) (strBytes v b.low)

theorem leCS_total (v : VM) (a b : CodeSpaceRange) : (leCS v a b || leCS v b a) = true := by
  unfold leCS
  by_cases h : (strBytes v a.low).length = (strBytes v b.low).length
  · simp [h, bytesLe_total]
  · have h' : ¬ (strBytes v b.low).length = (strBytes v a.low).length := fun e => h e.symm
    simp [h, h']; omega

theorem leCS_trans (v : VM) (a b c : CodeSpaceRange) (h1 : leCS v a b = true) (h2 : leCS v b c = true) :
    leCS v a c = true := by
  unfold leCS at *
  by_cases e1 : (strBytes v a.low).length = (strBytes v b.low).length <;>
    by_cases e2 : (strBytes v b.low).length = (strBytes v c.low).length
  · have e3 : (strBytes v a.low).length = (strBytes v c.low).length := e1.trans e2
    simp [e1, e2] at h1 h2
    simp [e3]
    exact bytesLe_trans _ _ _ h1 h2
  · simp [e2] at h1 h2
    have e3 : ¬ (strBytes v a.low).length = (strBytes v c.low).length := by omega
    simp [e3]; rw [e1]; exact h2
  · simp [e2] at h1 h2
    have e3 : ¬ (strBytes v a.low).length = (strBytes v c.low).length := by omega
    simp [e3] at h1 ⊢; exact h1
  · simp [e1, e2] at h1 h2
    have e3 : ¬ (strBytes v a.low).length = (strBytes v c.low).length := by omega
    simp [e3]; omega

/-- the tables of `c`, each sorted as `endcmap` does -/
def sortTables (v : VM) (c : CMapInfo) : CMapInfo :=
  { c with
    codeSpaceRanges := c.codeSpaceRanges.mergeSort (leCS v),
    cidChars := c.cidChars.mergeSort (leSrc v),
    cidRanges := c.cidRanges.mergeSort (leLow v),
    bfChars := c.bfChars.mergeSort (leSrc v),
    bfRanges := c.bfRanges.mergeSort (leLow v),
    notdefChars := c.notdefChars.mergeSort (leSrc v),
    notdefRanges := c.notdefRanges.mergeSort (leLow v) }

theorem bEndcmap_eq (v : VM) (d : Nat) (ds : List Nat) (r : Nat)
    (hd : v.dictStack = d :: ds) (hm : v.cmapMappings = some r) :
    bEndcmap v =
      ({ ((setCMap v r (sortTables v (v.getCMap r))).dictPut d "CodeMap" (.cmapInfo r)) with
          cmapMappings := none }, .ok) := by
  unfold bEndcmap
  rw [hd, hm]
  rfl

/-- `endcmap` succeeds exactly when there is a current dictionary and a CMap under construction;
otherwise it is a `stackunderflow` and nothing changes -/
theorem bEndcmap_fail (v : VM) (h : v.dictStack = [] ∨ v.cmapMappings = none) :
    bEndcmap v = (v, .err (.ps "stackunderflow")) := by
  unfold bEndcmap
  rcases h with h | h
  · rw [h]; rfl
  · rw [h]; cases v.dictStack <;> rfl

/-- each table of `sortTables v c` is a permutation of the table of `c`; `useCMap` is kept -/
theorem sortTables_perm (v : VM) (c : CMapInfo) :
    (sortTables v c).useCMap = c.useCMap ∧
    (sortTables v c).codeSpaceRanges.Perm c.codeSpaceRanges ∧
    (sortTables v c).cidChars.Perm c.cidChars ∧
    (sortTables v c).cidRanges.Perm c.cidRanges ∧
    (sortTables v c).bfChars.Perm c.bfChars ∧
    (sortTables v c).bfRanges.Perm c.bfRanges ∧
    (sortTables v c).notdefChars.Perm c.notdefChars ∧
    (sortTables v c).notdefRanges.Perm c.notdefRanges :=
  ⟨rfl, List.mergeSort_perm _ _, List.mergeSort_perm _ _, List.mergeSort_perm _ _, List.mergeSort_perm _ _,
    List.mergeSort_perm _ _, List.mergeSort_perm _ _, List.mergeSort_perm _ _⟩

theorem leSrc_sorted (v : VM) (l : List CharMap) : (l.mergeSort (leSrc v)).Pairwise (fun a b => leSrc v a b = true) :=
  List.pairwise_mergeSort (le := leSrc v) (fun _ _ _ h1 h2 => bytesLe_trans _ _ _ h1 h2) (fun _ _ => bytesLe_total _ _) l

theorem leLow_sorted (v : VM) (l : List RangeMap) : (l.mergeSort (leLow v)).Pairwise (fun a b => leLow v a b = true) :=
  List.pairwise_mergeSort (le := leLow v) (fun _ _ _ h1 h2 => bytesLe_trans _ _ _ h1 h2) (fun _ _ => bytesLe_total _ _) l

theorem leCS_sorted (v : VM) (l : List CodeSpaceRange) :
    (l.mergeSort (leCS v)).Pairwise (fun a b => leCS v a b = true) :=
  List.pairwise_mergeSort (leCS_trans v) (leCS_total v) l

/-- each table of `sortTables v c` is sorted by its key -/
theorem sortTables_sorted (v : VM) (c : CMapInfo) :
    (sortTables v c).codeSpaceRanges.Pairwise (fun a b => leCS v a b = true) ∧
    (sortTables v c).cidChars.Pairwise (fun a b => leSrc v a b = true) ∧
    (sortTables v c).cidRanges.Pairwise (fun a b => leLow v a b = true) ∧
    (sortTables v c).bfChars.Pairwise (fun a b => leSrc v a b = true) ∧
    (sortTables v c).bfRanges.Pairwise (fun a b => leLow v a b = true) ∧
    (sortTables v c).notdefChars.Pairwise (fun a b => leSrc v a b = true) ∧
    (sortTables v c).notdefRanges.Pairwise (fun a b => leLow v a b = true) :=
  ⟨leCS_sorted v _, leSrc_sorted v _, leLow_sorted v _, leSrc_sorted v _, leLow_sorted v _,
    leSrc_sorted v _, leLow_sorted v _⟩

theorem find_map_other (l : List (Name × Obj)) (k k' : Name) (x : Obj) (hk : k' ≠ k) :
    (l.map (fun p => if p.1 == k then (k, x) else p)).find? (fun p => p.1 == k') =
      l.find? (fun p => p.1 == k') := by
  have hk2 : ¬ k = k' := fun e => hk e.symm
  induction l with
  | nil => rfl
  | cons p l ih =>
    simp only [List.map_cons, List.find?_cons]
    by_cases hp : p.1 = k
    · have e1 : (p.1 == k) = true := by simp [hp]
      have e2 : (k == k') = false := by simp [hk2]
      have e3 : (p.1 == k') = false := by simp [hp, hk2]
      simp only [e1, e2, e3, if_true]; exact ih
    · have e1 : (p.1 == k) = false := by simp [hp]
      simp only [e1, Bool.false_eq_true, if_false]
      cases h : (p.1 == k')
      · exact ih
      · rfl

theorem find_map_self (l : List (Name × Obj)) (k : Name) (x : Obj) (h : l.any (fun p => p.1 == k) = true) :
    (l.map (fun p => if p.1 == k then (k, x) else p)).find? (fun p => p.1 == k) = some (k, x) := by
  induction l with
  | nil => simp at h
  | cons p l ih =>
    simp only [List.map_cons, List.find?_cons]
    by_cases hp : p.1 = k
    · have e1 : (p.1 == k) = true := by simp [hp]
      have e2 : (k == k) = true := by simp
      simp only [e1, e2, if_true]
    · have e1 : (p.1 == k) = false := by simp [hp]
      have : l.any (fun p => p.1 == k) = true := by simpa [hp] using h
      simp only [e1, Bool.false_eq_true, if_false]
      exact ih this

theorem dictLookup_insert_self (l : List (Name × Obj)) (k : Name) (x : Obj) :
    dictLookup (dictInsert l k x) k = some x := by
  unfold dictInsert
  split
  · rename_i h
    simp only [dictLookup, find_map_self l k x h]
  · rename_i h
    have h' : l.find? (fun p => p.1 == k) = none := by
      simp only [Bool.not_eq_true, List.any_eq_false] at h
      exact List.find?_eq_none.2 (fun p hp => by simpa using h p hp)
    simp [dictLookup, List.find?_append, h']

theorem dictLookup_insert_other (l : List (Name × Obj)) (k k' : Name) (x : Obj) (hk : k' ≠ k) :
    dictLookup (dictInsert l k x) k' = dictLookup l k' := by
  have hk2 : ¬ k = k' := fun e => hk e.symm
  unfold dictInsert
  split
  · simp only [dictLookup, find_map_other l k k' x hk]
  · unfold dictLookup
    congr 1
    simp only [List.find?_append]
    cases l.find? (fun p => p.1 == k') <;> simp [hk2]

theorem heap_two_updates (h : Array Cell) (r d : Nat) (A B : Cell) (hr : r < h.size) (hd : d < h.size)
    (hne : r ≠ d) :
    ((h.setIfInBounds r A).setIfInBounds d B)[r]? = some A ∧
    ((h.setIfInBounds r A).setIfInBounds d B)[d]? = some B ∧
    (∀ i, i ≠ r → i ≠ d → ((h.setIfInBounds r A).setIfInBounds d B)[i]? = h[i]?) ∧
    ((h.setIfInBounds r A).setIfInBounds d B).size = h.size := by
  refine ⟨?_, ?_, ?_, by simp⟩
  · rw [Array.getElem?_setIfInBounds_ne (fun e => hne e.symm), Array.getElem?_setIfInBounds_self_of_lt hr]
  · rw [Array.getElem?_setIfInBounds_self_of_lt (by simpa using hd)]
  · intro i h1 h2
    rw [Array.getElem?_setIfInBounds_ne (fun e => h2 e.symm), Array.getElem?_setIfInBounds_ne (fun e => h1 e.symm)]

/-- **`endcmap`**: with a current dictionary `d` and a CMap under construction in cell `r`, the operator
succeeds; afterwards the cell `r` holds the `CMapInfo` whose tables are permutations of the tables before,
each sorted by its key (code space ranges by length then code, the others bytewise by source code / low
bound), `/CodeMap` in the current dictionary is the reference to that `CMapInfo` and every other key of it is
unchanged, no CMap is under construction any more, and stacks, scratch lengths and every other heap cell are
untouched. -/
theorem endcmap_sorted (v : VM) (d : Nat) (ds : List Nat) (r : Nat) (c : CMapInfo) (dd : List (Name × Obj))
    (hd : v.dictStack = d :: ds) (hm : v.cmapMappings = some r)
    (hc : v.heap[r]? = some (.cmap c)) (hdd : v.heap[d]? = some (.dict dd)) :
    ∃ v' c', bEndcmap v = (v', .ok) ∧
      v'.cmapMappings = none ∧
      v'.getCMap r = c' ∧
      v'.dictGet d "CodeMap" = some (.cmapInfo r) ∧
      (∀ k, k ≠ "CodeMap" → v'.dictGet d k = v.dictGet d k) ∧
      c'.useCMap = c.useCMap ∧
      c'.codeSpaceRanges.Perm c.codeSpaceRanges ∧ c'.codeSpaceRanges.Pairwise (fun a b => leCS v a b = true) ∧
      c'.cidChars.Perm c.cidChars ∧ c'.cidChars.Pairwise (fun a b => leSrc v a b = true) ∧
      c'.cidRanges.Perm c.cidRanges ∧ c'.cidRanges.Pairwise (fun a b => leLow v a b = true) ∧
      c'.bfChars.Perm c.bfChars ∧ c'.bfChars.Pairwise (fun a b => leSrc v a b = true) ∧
      c'.bfRanges.Perm c.bfRanges ∧ c'.bfRanges.Pairwise (fun a b => leLow v a b = true) ∧
      c'.notdefChars.Perm c.notdefChars ∧ c'.notdefChars.Pairwise (fun a b => leSrc v a b = true) ∧
      c'.notdefRanges.Perm c.notdefRanges ∧ c'.notdefRanges.Pairwise (fun a b => leLow v a b = true) ∧
      v'.stack = v.stack ∧ v'.dictStack = v.dictStack ∧
      v'.cmapCodeSpaceRanges = v.cmapCodeSpaceRanges ∧ v'.cmapChars = v.cmapChars ∧ v'.cmapRanges = v.cmapRanges ∧
      v'.heap.size = v.heap.size ∧ (∀ i, i ≠ r → i ≠ d → v'.heap[i]? = v.heap[i]?) ∧
      (∀ o, strBytes v' o = strBytes v o) := by
  have hr := lt_size_of hc
  have hdl := lt_size_of hdd
  have hne : r ≠ d := by
    intro e; subst e; rw [hc] at hdd; cases hdd
  obtain ⟨p0, p1, p2, p3, p4, p5, p6, p7⟩ := sortTables_perm v c
  obtain ⟨s1, s2, s3, s4, s5, s6, s7⟩ := sortTables_sorted v c
  have hd1 : (setCMap v r (sortTables v c)).getDict d = dd := by
    simp [VM.getDict, setCMap, VM.setCell, Array.getElem?_setIfInBounds_ne hne, hdd]
  have hfin : ({ ((setCMap v r (sortTables v c)).dictPut d "CodeMap" (.cmapInfo r)) with cmapMappings := none } : VM) =
      { v with heap := (v.heap.setIfInBounds r (.cmap (sortTables v c))).setIfInBounds d
                          (.dict (dictInsert dd "CodeMap" (.cmapInfo r))),
               cmapMappings := none } := by
    simp only [VM.dictPut, hd1]; rfl
  obtain ⟨g1, g2, g3, g4⟩ := heap_two_updates v.heap r d (.cmap (sortTables v c))
    (.dict (dictInsert dd "CodeMap" (.cmapInfo r))) hr hdl hne
  refine ⟨{ v with heap := (v.heap.setIfInBounds r (.cmap (sortTables v c))).setIfInBounds d
                              (.dict (dictInsert dd "CodeMap" (.cmapInfo r))),
                   cmapMappings := none }, sortTables v c, ?_, ?_⟩
  · rw [bEndcmap_eq v d ds r hd hm, getCMap_of hc, hfin]
  refine ⟨rfl, ?_, ?_, ?_, p0, p1, s1, p2, s2, p3, s3, p4, s4, p5, s5, p6, s6, p7, s7, rfl, rfl, rfl, rfl, rfl,
    g4, g3, ?_⟩
  · simp only [VM.getCMap, g1]
  · simp only [VM.dictGet, VM.getDict, g2]
    exact dictLookup_insert_self _ _ _
  · intro k hk
    simp only [VM.dictGet, VM.getDict, g2, hdd]
    exact dictLookup_insert_other _ _ _ _ hk
  · intro o
    cases o <;> try rfl
    rename_i r' off len
    simp only [strBytes, VM.viewBytes, VM.getBytes]
    by_cases e1 : r' = r
    · subst e1; rw [g1, hc]
    · by_cases e2 : r' = d
      · subst e2; rw [g2, hdd]
      · rw [g3 r' e1 e2]

/-- the orders only depend on the bytes of the strings, which `endcmap` does not touch: the tables are
sorted with respect to the state after `endcmap` as well -/
theorem le_congr (v v' : VM) (h : ∀ o, strBytes v' o = strBytes v o) :
    leCS v' = leCS v ∧ leSrc v' = leSrc v ∧ leLow v' = leLow v := by
  refine ⟨?_, ?_, ?_⟩ <;> funext a b <;> simp [leCS, leSrc, leLow, h]

/-! ## whole blocks: `n begin… e₁ … eₙ end…` -/

/-- `n begincodespacerange`, then the operands of `n` well-formed entries are pushed (which may allocate
string cells: the heap `h2` is arbitrary as long as cell `r` still holds the `CMapInfo`), then
`endcodespacerange`: the entries are appended in order and the stack is back to `rest`. -/
theorem block_codespacerange (v : VM) (r : Nat) (c : CMapInfo) (es : List CodeSpaceRange) (rest : List Obj)
    (h2 : Array Cell)
    (hm : v.cmapMappings = some r) (hs : v.stack = .int es.length :: rest) (hlen : es.length ≤ 100)
    (hc : h2[r]? = some (.cmap c)) :
    ∃ v1, bBegincodespacerange v = (v1, .ok) ∧
      ∀ v2, v2 = { v1 with stack := (pairObjs es).reverse ++ v1.stack, heap := h2 } →
        (∀ e ∈ es, okPair v2 e) →
        bEndcodespacerange v2 =
          ({ v2 with heap := h2.setIfInBounds r (.cmap { c with codeSpaceRanges := c.codeSpaceRanges ++ es }),
                     stack := rest, cmapCodeSpaceRanges := 0 }, .ok) := by
  refine ⟨_, beginBlock_ok v _ r es.length rest hm hs (by omega) (by omega), ?_⟩
  intro v2 hv2 hok
  have := block_effect_codespacerange v2 r c es rest (by rw [hv2]; exact hm) (by rw [hv2]; exact hc)
    (by rw [hv2]; simp) (by rw [hv2]) hok
  rw [this, hv2]

theorem block_chars (valOk : Obj → Bool) (add : CMapInfo → List CharMap → CMapInfo)
    (v : VM) (r : Nat) (c : CMapInfo) (es : List CharMap) (rest : List Obj) (h2 : Array Cell)
    (hm : v.cmapMappings = some r) (hs : v.stack = .int es.length :: rest) (hlen : es.length ≤ 100)
    (hc : h2[r]? = some (.cmap c)) (hok : ∀ e ∈ es, okChar valOk e) :
    ∃ v1, bBeginChars v = (v1, .ok) ∧
      ∀ v2, v2 = { v1 with stack := (charObjs es).reverse ++ v1.stack, heap := h2 } →
        endChars valOk add v2 =
          ({ v2 with heap := h2.setIfInBounds r (.cmap (add c es)), stack := rest, cmapChars := 0 }, .ok) := by
  refine ⟨_, beginBlock_ok v _ r es.length rest hm hs (by omega) (by omega), ?_⟩
  intro v2 hv2
  have := block_effect_chars valOk add v2 r c es rest (by rw [hv2]; exact hm) (by rw [hv2]; exact hc)
    (by rw [hv2]; simp) (by rw [hv2]) hok
  rw [this, hv2]

theorem block_ranges (valOk : Obj → Bool) (add : CMapInfo → List RangeMap → CMapInfo)
    (v : VM) (r : Nat) (c : CMapInfo) (es : List RangeMap) (rest : List Obj) (h2 : Array Cell)
    (hm : v.cmapMappings = some r) (hs : v.stack = .int es.length :: rest) (hlen : es.length ≤ 100)
    (hc : h2[r]? = some (.cmap c)) :
    ∃ v1, bBeginRanges v = (v1, .ok) ∧
      ∀ v2, v2 = { v1 with stack := (rangeObjs es).reverse ++ v1.stack, heap := h2 } →
        (∀ e ∈ es, okRange v2 valOk e) →
        endRanges valOk add v2 =
          ({ v2 with heap := h2.setIfInBounds r (.cmap (add c es)), stack := rest, cmapRanges := 0 }, .ok) := by
  refine ⟨_, beginBlock_ok v _ r es.length rest hm hs (by omega) (by omega), ?_⟩
  intro v2 hv2 hok
  have := block_effect_ranges valOk add v2 r c es rest (by rw [hv2]; exact hm) (by rw [hv2]; exact hc)
    (by rw [hv2]; simp) (by rw [hv2]) hok
  rw [this, hv2]

/-- `begincmap` starts a fresh, empty `CMapInfo` -/
theorem begincmap_fresh (v : VM) :
    ∃ v', bBegincmap v = (v', .ok) ∧ v'.cmapMappings = some v.heap.size ∧
      v'.heap[v.heap.size]? = some (.cmap {}) ∧ v'.stack = v.stack := by
  refine ⟨_, rfl, rfl, ?_, rfl⟩
  simp

/-- `usecmap` records the name and pops it; other operands are a `typecheck`, none a `stackunderflow` -/
theorem usecmap_effect (v : VM) (r : Nat) (c : CMapInfo)
    (hm : v.cmapMappings = some r) (hc : v.heap[r]? = some (.cmap c)) :
    (∀ n rest, v.stack = .name n :: rest →
      bUsecmap v = ({ v with heap := v.heap.setIfInBounds r (.cmap { c with useCMap := n }), stack := rest }, .ok)) ∧
    (v.stack = [] → bUsecmap v = (v, .err (.ps "stackunderflow"))) ∧
    (∀ o rest, v.stack = o :: rest → (∀ n, o ≠ .name n) → bUsecmap v = (v, .err (.ps "typecheck"))) := by
  refine ⟨?_, ?_, ?_⟩
  · intro n rest hs
    simp only [bUsecmap, withCMap, hm, hs, getCMap_of hc]
    simp [okRes, setCMap, VM.setCell, hm]
  · intro hs
    simp only [bUsecmap, withCMap, hm, hs]; rfl
  · intro o rest hs ho
    cases o <;> simp_all [bUsecmap, withCMap, psErr]

#print axioms block_effect_codespacerange
#print axioms block_effect_cidchar
#print axioms block_effect_bfchar
#print axioms block_effect_notdefchar
#print axioms block_effect_cidrange
#print axioms block_effect_bfrange
#print axioms block_effect_notdefrange
#print axioms block_codespacerange
#print axioms block_chars
#print axioms block_ranges
#print axioms begin_block_rangecheck
#print axioms begin_block_typecheck
#print axioms begin_block_underflow
#print axioms begin_block_ok
#print axioms no_cmap_undefined
#print axioms cidInit_dispatch
#print axioms cmap_rejects_codespacerange
#print axioms cmap_rejects_chars
#print axioms cmap_rejects_ranges
#print axioms cmap_rejects_codespacerange_any
#print axioms cmap_rejects_chars_any
#print axioms cmap_rejects_ranges_any
#print axioms endcodespacerange_ok_iff
#print axioms endChars_ok_iff
#print axioms endRanges_ok_iff
#print axioms endcodespacerange_underflow
#print axioms endChars_underflow
#print axioms endRanges_underflow
#print axioms fail_unchanged
#print axioms bEndcmap_eq
#print axioms bEndcmap_fail
#print axioms endcmap_sorted
#print axioms le_congr
#print axioms usecmap_effect
#print axioms begincmap_fresh

end PsVerif.Props.C07
