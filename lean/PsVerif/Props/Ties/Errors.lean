import PsVerif.Generated.Structure
/-! Ties: calls whose error result is not bound (C13). -/
namespace PsVerif.Props.Ties
open PsVerif.Generated

/-! ## error propagation (C13): the only calls whose error result is not bound -/
theorem dropped_errors : Structure.droppedErrors =
    [(".", "scanner.SkipByte", "s.Next"),
     (".", "scanner.SkipN", "s.Next"),
     (".", "scanner.SkipOptionalByte", "s.Next"),
     (".", "scanner.readCommentKey", "buf.WriteByte"),
     (".", "scanner.readCommentValue", "buf.WriteByte"),
     (".", "scanner.readCommentValue", "buf.WriteByte"),
     ("type1", "writeEncoding", "b.WriteString"),
     ("type1", "writeEncoding", "b.WriteString"),
     ("type1", "writeEncoding", "b.WriteString"),
     ("type1", "writeEncoding", "fmt.Fprintf"),
     ("type1/names", "glyphMap.getEncode", "glyphData.Open (blank)"),
     ("type1/names", "glyphMap.getEncode", "strconv.ParseInt (blank)"),
     ("type1/names", "glyphMap.getFile", "strconv.ParseInt (blank)"),
     ("type1/names", "glyphMap.getFile", "strconv.ParseInt (blank)")] := rfl

end PsVerif.Props.Ties
