import PsVerif.Generated.Structure
import PsVerif.Props.Ties.Within
/-! Ties: calls whose error result is not bound (C13). -/
namespace PsVerif.Props.Ties
open PsVerif.Generated

/-! ## error propagation (C13): the only calls whose error result is not bound
(methods of bytes.Buffer / strings.Builder, which never fail, are not listed) -/
def allowedDroppedErrors : List (String × String × String) :=
    [(".", "scanner.SkipByte", "s.Next"),
     (".", "scanner.SkipN", "s.Next"),
     (".", "scanner.SkipOptionalByte", "s.Next"),
     ("type1/names", "glyphMap.getEncode", "glyphData.Open (blank)"),
     ("type1/names", "glyphMap.getEncode", "strconv.ParseInt (blank)"),
     ("type1/names", "glyphMap.getFile", "strconv.ParseInt (blank)"),
     ("type1/names", "glyphMap.getFile", "strconv.ParseInt (blank)")] 
theorem dropped_errors : within Structure.droppedErrors allowedDroppedErrors = true := by decide

end PsVerif.Props.Ties
