/-! Ties: inclusion of a regenerated list of sites in the reviewed list. -/
namespace PsVerif.Props.Ties

/-- multiset inclusion: every entry of `xs` occurs in `allowed` at least as often.  A site that disappears
from the source cannot hurt; a new one (or one more of a kind) breaks the tie and has to be reviewed. -/
def within (xs allowed : List (String × String × String)) : Bool :=
  xs.all (fun x => xs.count x ≤ allowed.count x)

end PsVerif.Props.Ties
