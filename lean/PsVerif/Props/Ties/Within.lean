/-! Ties: inclusion of a regenerated list of sites in the reviewed list. -/
namespace PsVerif.Props.Ties

/-- multiset inclusion: every entry of `xs` occurs in `allowed` at least as often.  A site that disappears
from the source cannot hurt; a new one (or one more of a kind) breaks the tie and has to be reviewed. -/
def within (xs allowed : List (String × String × String)) : Bool :=
  xs.all (fun x => xs.count x ≤ allowed.count x)

/-- every reviewed test is still in the code: `expected` is the list of comparisons the model relies on, `found` the
regenerated set of all comparisons with integer constants of the package, in normal form (`tools/factgen`,
`pkgComparisons`: constant on the right, `!=` as `==`, tagged `case` as `==`, named constants resolved).  The
relation ignores names, order, helper functions and additional tests; it breaks when a bound or the direction of a
reviewed test changes. -/
def allIn (expected found : List String) : Bool := expected.all (fun e => found.contains e)

end PsVerif.Props.Ties
