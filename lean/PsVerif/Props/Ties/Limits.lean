import PsVerif.Model.Init
import PsVerif.Generated.Consts
import PsVerif.Props.Ties.Within
/-! Ties: interpreter limits and literal tests (C01, C03, C11). Each theorem is closed by `rfl`/`decide`. -/
namespace PsVerif.Props.Ties
open PsVerif.Model PsVerif.Generated

/-! ## interpreter limits (C01, C02, C11) -/
theorem interp_consts :
    Consts.root_maxArraySize = some maxArraySize ∧ Consts.root_maxDictSize = some maxDictSize ∧
    Consts.root_maxStringSize = some maxStringSize ∧
    Consts.root_maxDictStackDepth = some (maxDictStackDepth : Int) ∧
    Consts.root_maxOperandStackDepth = some (maxOperandStackDepth : Int) ∧
    Consts.root_maxBindDepth = some (maxBindDepth : Int) := by decide

/-- the literal tests in `executeOne`: `execStackDepth >= 100` (at entry and for a procedure called by name), `level < 5`, `len(Stack) > 500` -/
theorem interp_literal_tests :
    allIn [">= 100", "< 5", "> 500", "== 1183615869", "> 65536", "> 255"] Consts.cmp_root = true := by decide

theorem interp_literal_model : execDepthLimit = 100 ∧ errorNestingLimit = 5 ∧ maxOperandStackDepth = 500 ∧
    internalDictPasscode = 1183615869 := by decide

end PsVerif.Props.Ties
