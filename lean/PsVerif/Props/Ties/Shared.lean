import PsVerif.Generated.Structure
import PsVerif.Props.Ties.Within
/-! Ties: package-level state and the lock protocol of the name tables (C18). -/
namespace PsVerif.Props.Ties
open PsVerif.Generated

/-! ## shared state (C18) -/
def allowedPkgRefVars : List (String × String × String) :=
    [(".", "ErrExecutionLimitExceeded", "*postscript.postScriptError"),
     (".", "allErrors", "[]postscript.Name"),
     (".", "cidInit", "postscript.Dict"),
     (".", "radixNumberRe", "*regexp.Regexp"),
     (".", "realNumberRe", "*regexp.Regexp"),
     ("psenc", "StandardEncoding", "[256]string"),
     ("psenc", "StandardEncodingRev", "map[string]byte"),
     ("type1", "dateFormats", "[]string"),
     ("type1", "defaultWriterOptions", "*type1.WriterOptions"),
     ("type1", "tmpl", "*template.Template"),
     ("type1/names", "compat", "map[rune][]rune"),
     ("type1/names", "glyph", "*names.glyphMap")] 
theorem pkg_ref_vars : within Structure.pkgRefVars allowedPkgRefVars = true := by decide

/-- no function writes to or through a package-level variable … -/
theorem pkg_var_writes : Structure.pkgVarWrites = [] := rfl

/-- … except the lazily filled glyph-name tables, whose every write happens in a method
that takes the lock or is only called from methods that do -/
theorem names_lock_protocol : Structure.namesRecvWrites =
    [("type1/names", "glyphMap.encode", "calls=getEncode locked=false"),
     ("type1/names", "glyphMap.getEncode", "calls=Lock,Unlock locked=true"),
     ("type1/names", "glyphMap.getEncode", "runeToName locked=true"),
     ("type1/names", "glyphMap.getFile", "calls= locked=false"),
     ("type1/names", "glyphMap.getFile", "nameToRune locked=false"),
     ("type1/names", "glyphMap.getFile", "nameToSeq locked=false"),
     ("type1/names", "glyphMap.lookup", "calls=Lock,Unlock,getFile locked=true"),
     ("type1/names", "glyphMap.lookupSeq", "calls=Lock,Unlock,getFile locked=true")] := rfl

end PsVerif.Props.Ties
