import PsVerif.Model.Init
import PsVerif.Generated.Consts
import PsVerif.Generated.SystemDict
/-! Ties: CMap block limit and the key list of the CIDInit procedure set (C07). -/
namespace PsVerif.Props.Ties
open PsVerif.Model PsVerif.Generated

/-- CMap blocks: `n < 0 || n > 100` in all seven `begin…` operators (C07) -/
theorem cmap_block_tests : Consts.root_cmapBlockTests = ["< 0", "> 100"] ∧ cmapBlockLimit = 100 := ⟨rfl, rfl⟩

theorem cidinit_keys : SystemDict.cidInitKeys = cidInitKeys := by decide

end PsVerif.Props.Ties
