import PsVerif.Model.Init
import PsVerif.Generated.Consts
import PsVerif.Generated.SystemDict
import PsVerif.Props.Ties.Within
/-! Ties: CMap block limit and the key list of the CIDInit procedure set (C07). -/
namespace PsVerif.Props.Ties
open PsVerif.Model PsVerif.Generated

/-- CMap blocks: `n < 0 || n > 100` in all seven `begin…` operators (C07) -/
theorem cmap_block_tests : allIn ["< 0", "> 100"] Consts.cmp_cmap = true ∧ cmapBlockLimit = 100 := ⟨by decide, rfl⟩

theorem cidinit_keys : SystemDict.cidInitKeys = cidInitKeys := by decide

end PsVerif.Props.Ties
