import PsVerif.Model.T1Num
import PsVerif.Generated.Consts
import PsVerif.Generated.T1Ops
import PsVerif.Props.Ties.Within
/-! Ties: charstring number formats, opcodes and limits (C20, C06, C08). -/
namespace PsVerif.Props.Ties
open PsVerif.Model PsVerif.Generated

/-! ## charstring number formats and opcodes (C20, C06, C08) -/
theorem appendInt_bounds :
    allIn [">= -107", "<= 107", ">= 108", "<= 1131", ">= -1131", "<= -108"] Consts.cmp_type1 = true := by decide

theorem decode_bounds :
    allIn [">= 32", "<= 246", ">= 247", "<= 250", ">= 251", "<= 254", "== 255", "== 12"] Consts.cmp_type1 = true := by decide

/-- the decoder checks that 2 (two-byte numbers, escape operator) resp. 5 bytes (32-bit number) are left before it
    reads them: the guards of `Model/T1Decode.lean` -/
theorem decode_len_guards : allIn ["> 0", "< 2", "< 5"] Consts.cmp_type1 = true := by decide

theorem approx_max_q : allIn ["<= 107"] Consts.cmp_type1 = true := by decide

theorem t1_limits : Consts.t1_maxStack = some 24 ∧ allIn ["> 0", "> 10"] Consts.cmp_type1 = true := ⟨rfl, by decide⟩

/-- every opcode the models use has the value the source gives it (further constants may be added to the source) -/
theorem t1_opcodes : (
    [("t1callothersubr", 3088), ("t1callsubr", 10), ("t1closepath", 9), ("t1div", 3084), ("t1dotsection", 3072),
     ("t1endchar", 14), ("t1hlineto", 6), ("t1hmoveto", 22), ("t1hsbw", 13), ("t1hstem", 1), ("t1hstem3", 3074),
     ("t1hvcurveto", 31), ("t1pop", 3089), ("t1return", 11), ("t1rlineto", 5), ("t1rmoveto", 21),
     ("t1rrcurveto", 8), ("t1sbw", 3079), ("t1seac", 3078), ("t1setcurrentpoint", 3105), ("t1vhcurveto", 30),
     ("t1vlineto", 7), ("t1vmoveto", 4), ("t1vstem", 3), ("t1vstem3", 3073)] : List (String × Nat)).all (fun e => T1Ops.ops.contains e) = true := by decide

end PsVerif.Props.Ties
