import PsVerif.Generated.Structure
/-! Tie: the AFM reader puts no limit on the length of a line (C15, C12).

The AFM model (`PsVerif.Model.AFM`) splits its input into lines of any length, and `Metrics.Write` puts all
ligatures of a glyph on one line, so that a limit would make some written files unreadable (13.3). The code
agrees as long as the one line scanner of package `afm` is given a limit that no input can reach. -/
namespace PsVerif.Props.Ties
open PsVerif.Generated

/-- package `afm` creates exactly one `bufio.Scanner` and raises its line limit to at least 2^62 bytes -/
theorem afm_no_line_limit :
    Structure.lineScanners.filter (fun s => s.1 == "afm") =
      [("afm", "", "limit >= 2^62"), ("afm", "", "scanner")] := by decide

end PsVerif.Props.Ties
