import PsVerif.Generated.Consts
import PsVerif.Props.Ties.Within
/-! Ties: PFB header tests (C14, C01). -/
namespace PsVerif.Props.Ties
open PsVerif.Generated

/-! ## PFB header (C14, C01) -/
theorem pfb_header_tests : allIn ["== 128", "== 0", "== 3", "> 3", "== 1", "== 2"] Consts.cmp_pfb = true := by decide

end PsVerif.Props.Ties
