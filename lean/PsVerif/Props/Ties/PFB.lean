import PsVerif.Generated.Consts
/-! Ties: PFB header tests (C14, C01). -/
namespace PsVerif.Props.Ties
open PsVerif.Generated

/-! ## PFB header (C14, C01) -/
theorem pfb_header_tests : Consts.pfb_headerTests = ["!= 128", "== 0", "== 128", "== 3", "> 3"] := rfl

end PsVerif.Props.Ties
