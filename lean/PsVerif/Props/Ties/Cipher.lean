import PsVerif.Model.Cipher
import PsVerif.Generated.Consts
/-! Ties: cipher constants (C05, C06, C08, C09). -/
namespace PsVerif.Props.Ties
open PsVerif.Model PsVerif.Generated

/-! ## ciphers (C05, C06, C08) -/
theorem cipher_consts :
    Consts.root_eexecR = some 55665 ∧ Consts.root_eexecC1 = some 52845 ∧ Consts.root_eexecC2 = some 22719 ∧
    Consts.root_eexecN = some 4 ∧ Consts.t1_eexecR0 = some 55665 ∧ Consts.t1_eexecC1 = some 52845 ∧
    Consts.t1_eexecC2 = some 22719 ∧ Consts.t1_obfuscateR = some 4330 ∧ Consts.t1_deobfuscateR = some 4330 := by
  decide

theorem cipher_model : Cipher.eexecR = 55665 ∧ Cipher.c1 = 52845 ∧ Cipher.c2 = 22719 ∧ Cipher.charstringR = 4330 := by
  decide

end PsVerif.Props.Ties
