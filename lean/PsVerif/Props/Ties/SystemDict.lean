import PsVerif.Model.Init
import PsVerif.Generated.SystemDict
/-! Ties: system dictionary, error names, resource dictionaries (C02, C18). -/
namespace PsVerif.Props.Ties
open PsVerif.Model PsVerif.Generated

/-! ## system dictionary (C02, C18) -/

def genKeys (kind : String) : List String :=
  (SystemDict.entries.filter (fun e => e.2.1 == kind)).map (·.1)

/-- the operators bound in `makeSystemDict` are exactly the ones the model implements -/
theorem systemdict_operators :
    (SystemDict.entries.filter (fun e => e.2.1 == "builtin")).map (·.1) =
      systemOperators := by decide

theorem systemdict_others :
    (SystemDict.entries.filter (fun e => e.2.1 != "builtin")).map (·.1) =
      systemNonOperators := by decide
theorem error_names : SystemDict.allErrors = allErrors := by decide

/-- how `NewInterpreter` obtains the resource dictionaries: fresh literals, and the CIDInit
procedure set is cloned, not shared (C18) -/
theorem resource_init :
    SystemDict.resourceInit =
      ["Font := fontDirectory", "CIDFont := ?", "CMap := cmapDirectory", "ProcSet := ?",
       "CIDInit := maps.Clone(cidInit)"] := rfl   -- `?` = a composite literal (fresh dictionary)

end PsVerif.Props.Ties
