import PsVerif.Generated.Structure
/-! Ties: map iteration sites, clock/address use (C17, C19). -/
namespace PsVerif.Props.Ties
open PsVerif.Generated

/-- multiset inclusion: every entry of `xs` occurs in `allowed` at least as often.  A site that disappears
from the source cannot hurt; a new one (or one more of a kind) breaks the tie and has to be reviewed. -/
def within (xs allowed : List (String × String × String)) : Bool :=
  xs.all (fun x => xs.count x ≤ allowed.count x)

/-! ## determinism (C17): every place where a Go map is iterated, and no clock/random/address use -/
def allowedMapSites : List (String × String × String) :=
    [(".", "NewInterpreter", "maps.Clone cidInit"),
     (".", "ReadCMap", "maps.Keys intp.CMapDirectory"),
     (".", "bCopy", "range a"),
     (".", "bForall", "range obj"),
     ("afm", "Metrics.FontBBoxPDF", "range f.Glyphs"),
     ("afm", "Metrics.GlyphList", "maps.Keys f.Glyphs"),
     ("afm", "Metrics.Write", "maps.Keys g.Ligatures"),
     ("type1", "Font.FontBBox", "range f.Glyphs"),
     ("type1", "Font.FontBBoxPDF", "range f.Glyphs"),
     ("type1", "Font.GlyphList", "maps.Keys f.Glyphs"),
     ("type1", "Font.WidthsMapPDF", "range f.Glyphs"),
     ("type1", "Font.encodeCharstrings", "range f.Glyphs"),
     ("type1", "Read", "maps.Keys cs"),
     ("type1", "Read", "range intp.FontDirectory")] 
theorem map_sites : within Structure.mapSites allowedMapSites = true := by decide

theorem no_clock_no_addr : Structure.clockSites = [] := rfl

end PsVerif.Props.Ties
