import PsVerif.Generated.Structure
import PsVerif.Props.Ties.Within
/-! Ties: map iteration sites, clock/address use (C17, C19). -/
namespace PsVerif.Props.Ties
open PsVerif.Generated

/-! ## determinism (C17): every place where a Go map is iterated, and no clock/random/address use -/
def allowedMapSites : List (String × String × String) :=
    [(".", "NewInterpreter", "maps.Clone cidInit"),
     (".", "ReadCMap", "maps.Keys (Interpreter).CMapDirectory"),
     (".", "bCopy", "range local:Dict"),
     (".", "bForall", "range local:Dict"),
     ("afm", "Metrics.FontBBoxPDF", "range (Metrics).Glyphs"),
     ("afm", "Metrics.GlyphList", "maps.Keys (Metrics).Glyphs"),
     ("afm", "Metrics.Write", "maps.Keys (GlyphInfo).Ligatures"),
     ("type1", "Font.FontBBox", "range (Font).Glyphs"),
     ("type1", "Font.FontBBoxPDF", "range (Font).Glyphs"),
     ("type1", "Font.GlyphList", "maps.Keys (Font).Glyphs"),
     ("type1", "Font.WidthsMapPDF", "range (Font).Glyphs"),
     ("type1", "Font.encodeCharstrings", "range (Font).Glyphs"),
     ("type1", "Read", "maps.Keys local:Dict"),
     ("type1", "Read", "range (Interpreter).FontDirectory")]
theorem map_sites : within Structure.mapSites allowedMapSites = true := by decide

theorem no_clock_no_addr : Structure.clockSites = [] := rfl

end PsVerif.Props.Ties
