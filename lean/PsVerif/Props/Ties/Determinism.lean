import PsVerif.Generated.Structure
/-! Ties: map iteration sites, clock/address use (C17, C19). -/
namespace PsVerif.Props.Ties
open PsVerif.Generated

/-! ## determinism (C17): every place where a Go map is iterated, and no clock/random/address use -/
theorem map_sites : Structure.mapSites =
    [(".", "NewInterpreter", "maps.Clone cidInit"),
     (".", "ReadCMap", "maps.Keys intp.CMapDirectory"),
     (".", "bCopy", "range a"),
     (".", "bForall", "range obj"),
     ("afm", "Metrics.FontBBoxPDF", "range f.Glyphs"),
     ("afm", "Metrics.GlyphList", "maps.Keys f.Glyphs"),
     ("afm", "Metrics.Write", "maps.Keys g.Ligatures"),
     ("type1", "Font.FontBBox", "range f.Glyphs"),
     ("type1", "Font.FontBBoxPDF", "range f.Glyphs"),
     ("type1", "Font.GlyphList", "maps.Keys f.Glyphs"),
     ("type1", "Font.WidthsMapPDF", "range f.Glyphs"),
     ("type1", "Font.encodeCharstrings", "range f.Glyphs"),
     ("type1", "Read", "maps.Keys cs"),
     ("type1", "Read", "range intp.FontDirectory")] := rfl

theorem no_clock_no_addr : Structure.clockSites = [] := rfl

end PsVerif.Props.Ties
