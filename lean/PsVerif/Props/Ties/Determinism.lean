import PsVerif.Generated.Structure
import PsVerif.Props.Ties.Within
/-! Ties: map iteration sites, clock/address use (C17, C19). -/
namespace PsVerif.Props.Ties
open PsVerif.Generated

/-! ## determinism (C17): every place where a Go map is iterated, and no clock/random/address use -/
/-- `(package, does the iterating function sort?, which map)`; the description does not mention the function or the
way the keys are collected (`range`, `maps.Keys`), so that moving a loop into a helper does not change it; a new
place that iterates a map without sorting, or one more of a kind, has to be reviewed -/
def allowedMapSites : List (String × String × String) :=
    [(".", "copy", "clone cidInit"),
     (".", "sorted", "iterate (Interpreter).CMapDirectory"),      -- ReadCMap: smallest name
     (".", "sorted", "iterate local:Dict"),                       -- forall: keys sorted
     (".", "unsorted", "iterate local:Dict"),                     -- copy: insertion into another map
     ("afm", "sorted", "iterate (GlyphInfo).Ligatures"),
     ("afm", "sorted", "iterate (Metrics).Glyphs"),
     ("afm", "sorted", "iterate (Metrics).Glyphs"),               -- FontBBoxPDF: union in name order
     ("type1", "sorted", "iterate (Font).Glyphs"),                -- GlyphList, sortedGlyphNames (font boxes)
     ("type1", "sorted", "iterate (Font).Glyphs"),
     ("type1", "sorted", "iterate (Interpreter).FontDirectory"),
     ("type1", "sorted", "iterate local:Dict"),
     ("type1", "unsorted", "iterate (Font).Glyphs"),              -- WidthsMapPDF and encodeCharstrings: map to map
     ("type1", "unsorted", "iterate (Font).Glyphs")]
theorem map_sites : within Structure.mapSites allowedMapSites = true := by decide

theorem no_clock_no_addr : Structure.clockSites = [] := rfl

end PsVerif.Props.Ties
