import PsVerif.Model.Init
/-!
# C02 — data operators compute what the PostScript reference prescribes

Per-operator statements about the model of `builtin.go`, in the PLRM's terms: exact integer
results with promotion to real on overflow, `roll` as the index permutation, views sharing
their parent's store, and the error named by the reference when operands are missing.
`fadd/fsub/fmul/realOfInt` are IEEE-754 binary64 operations (`Base/SoftFloat.lean`).
-/
namespace PsVerif.Props.C02
open PsVerif.Model

/-! ## integer arithmetic: exact, overflow promoted to real -/

theorem wrap64_id (x : Int) (h : inInt64 x) : wrap64 x = x := by
  unfold inInt64 minInt64 maxInt64 at h
  unfold wrap64
  simp only
  split <;> omega

theorem add_ovf (a b : Int) (ha : inInt64 a) (hb : inInt64 b) :
    addOverflow a b (wrap64 (a + b)) = !decide (inInt64 (a + b)) := by
  unfold inInt64 minInt64 maxInt64 at *
  unfold addOverflow wrap64
  simp only
  by_cases h : -9223372036854775808 ≤ a + b ∧ a + b ≤ 9223372036854775807
  · simp only [h, decide_true, Bool.not_true]
    split <;> simp <;> omega
  · simp only [h, decide_false, Bool.not_false]
    split <;> simp <;> omega

theorem sub_ovf (a b : Int) (ha : inInt64 a) (hb : inInt64 b) :
    subOverflow a b (wrap64 (a - b)) = !decide (inInt64 (a - b)) := by
  unfold inInt64 minInt64 maxInt64 at *
  unfold subOverflow wrap64
  simp only
  by_cases h : -9223372036854775808 ≤ a - b ∧ a - b ≤ 9223372036854775807
  · simp only [h, decide_true, Bool.not_true]
    split <;> simp <;> omega
  · simp only [h, decide_false, Bool.not_false]
    split <;> simp <;> omega

/-- `add` on two integers: the exact sum when it is representable, otherwise the real sum -/
theorem add_exact (v : VM) (a b : Int) (rest : List Obj) (ha : inInt64 a) (hb : inInt64 b)
    (hst : v.stack = .int b :: .int a :: rest) :
    bAdd v = ({ v with stack := (if inInt64 (a + b) then .int (a + b) else .real (fadd (realOfInt a) (realOfInt b))) :: rest }, .ok) := by
  unfold bAdd arith
  rw [hst]
  simp only [isNumber, Bool.not_true, Bool.or_self, Bool.false_eq_true, if_false, VM.push, okRes, add_ovf a b ha hb]
  by_cases h : inInt64 (a + b)
  · simp [h, wrap64_id _ h]
  · simp [h]

/-- `sub` on two integers (includes `0 minint sub`, which overflows) -/
theorem sub_exact (v : VM) (a b : Int) (rest : List Obj) (ha : inInt64 a) (hb : inInt64 b)
    (hst : v.stack = .int b :: .int a :: rest) :
    bSub v = ({ v with stack := (if inInt64 (a - b) then .int (a - b) else .real (fsub (realOfInt a) (realOfInt b))) :: rest }, .ok) := by
  unfold bSub arith
  rw [hst]
  simp only [isNumber, Bool.not_true, Bool.or_self, Bool.false_eq_true, if_false, VM.push, okRes, sub_ovf a b ha hb]
  by_cases h : inInt64 (a - b)
  · simp [h, wrap64_id _ h]
  · simp [h]

/-- `abs` on an integer: exact, with the most negative integer promoted to a real -/
theorem abs_exact (v : VM) (a : Int) (rest : List Obj) (ha : inInt64 a) (hst : v.stack = .int a :: rest) :
    bAbs v = ({ v with stack := (if a = minInt64 then .real (fneg (realOfInt a)) else .int (if a < 0 then -a else a)) :: rest }, .ok) := by
  unfold bAbs
  rw [hst]
  simp only [VM.push, okRes]
  split
  · rfl
  · split <;> rfl

/-- two integers are `eq` exactly when they are equal (no detour through reals) -/
theorem eq_int_exact (v : VM) (a b : Int) (rest : List Obj) (hst : v.stack = .int b :: .int a :: rest) :
    bEq v = ({ v with stack := .bool (a == b) :: rest }, .ok) := by
  unfold bEq bEqNe
  rw [hst]
  simp [equalObjs, VM.push, okRes]

/-- witnesses of the repaired defects -/
example : bSub { newVM with stack := [.int minInt64, .int 0] } =
    ({ newVM with stack := [.real (fsub (realOfInt 0) (realOfInt minInt64))] }, .ok) := by
  rw [sub_exact _ 0 minInt64 [] (by decide) (by decide) rfl]; rfl
example : (bEq { newVM with stack := [.int 9007199254740992, .int 9007199254740993] }).1.stack = [.bool false] := by
  rw [eq_int_exact _ 9007199254740993 9007199254740992 [] rfl]; rfl

/-! ## stack operators -/

/-- `exch`, `dup`, `pop` -/
theorem exch_spec (v : VM) (a b : Obj) (rest : List Obj) (h : v.stack = b :: a :: rest) :
    bExch v = ({ v with stack := a :: b :: rest }, .ok) := by unfold bExch; rw [h]; rfl
theorem dup_spec (v : VM) (a : Obj) (rest : List Obj) (h : v.stack = a :: rest) :
    bDup v = ({ v with stack := a :: a :: rest }, .ok) := by unfold bDup; rw [h]; rfl
theorem pop_spec (v : VM) (a : Obj) (rest : List Obj) (h : v.stack = a :: rest) :
    bPop v = ({ v with stack := rest }, .ok) := by unfold bPop; rw [h]; rfl

/-- `n copy` duplicates the top `n` elements -/
theorem copy_n_spec (v : VM) (n : Nat) (rest : List Obj) (h : v.stack = .int n :: rest) (hn : n ≤ rest.length) :
    bCopy v = ({ v with stack := rest.take n ++ rest }, .ok) := by
  unfold bCopy
  rw [h]
  have h1 : ¬ ((n : Int) < 0) := by omega
  have h2 : ¬ ((n : Int) > rest.length) := by omega
  simp [h1, h2, okRes]

/-- `i index` pushes the `i`-th element counted from the top -/
theorem index_spec (v : VM) (i : Nat) (b : Obj) (rest : List Obj) (h : v.stack = .int i :: b :: rest)
    (hi : i < (b :: rest).length) :
    bIndex v = ({ v with stack := (b :: rest)[i] :: b :: rest }, .ok) := by
  unfold bIndex
  rw [h]
  have h1 : ¬ ((i : Int) < 0 ∨ (i : Int) ≥ (b :: rest).length) := by
    simp only [List.length_cons] at hi ⊢; omega
  simp only [h1, if_false, Int.toNat_natCast, okRes]
  rw [List.getElem?_eq_getElem hi]

/-- `n j roll`: the element at position `p` (0 = top) of the rolled part comes from position
`(p + j mod n) mod n` — a circular shift by `j` towards the top -/
theorem roll_spec (v : VM) (n : Nat) (j : Int) (rest : List Obj) (h : v.stack = .int j :: .int n :: rest)
    (hn : 0 < n) (hle : n ≤ rest.length) :
    ∃ st, bRoll v = ({ v with stack := st }, .ok) ∧ st.length = rest.length ∧ st.drop n = rest.drop n ∧
      ∀ p, p < n → st[p]? = rest[(p + (j % n).toNat) % n]? := by
  unfold bRoll
  rw [h]
  have h1 : ¬ ((n : Int) < 0 ∨ (n : Int) > rest.length) := by omega
  have h2 : (n : Int) ≠ 0 := by omega
  have hk : rollAmount j n = j % n := by
    unfold rollAmount
    have hn' : (0 : Int) < n := by omega
    have hnn := Int.emod_nonneg j (Int.ne_of_gt hn')
    have hlt := Int.emod_lt_of_pos j hn'
    have hte := @Int.tmod_eq_emod j n
    rw [Int.natAbs_natCast] at hte
    simp only
    split at hte <;> split <;> omega
  simp only [h1, h2, if_false, hk, okRes, Int.toNat_natCast]
  have hkl : (j % n).toNat < n := by
    have a := Int.emod_nonneg j (show (n : Int) ≠ 0 by omega)
    have b := Int.emod_lt_of_pos j (show (0 : Int) < n by omega)
    omega
  generalize (j % n).toNat = k at hkl
  refine ⟨_, rfl, ?_, ?_, ?_⟩
  · simp only [List.length_append, List.length_drop, List.length_take]; omega
  · have : (List.drop k (List.take n rest) ++ List.take k (List.take n rest)).length = n := by
      simp only [List.length_append, List.length_drop, List.length_take]; omega
    rw [List.drop_append_of_le_length (by omega), List.drop_of_length_le (by omega)]
    simp
  · intro p hp
    have hlen : (List.drop k (List.take n rest) ++ List.take k (List.take n rest)).length = n := by
      simp only [List.length_append, List.length_drop, List.length_take]; omega
    rw [List.getElem?_append_left (by omega)]
    by_cases hpk : p + k < n
    · rw [List.getElem?_append_left (by simp only [List.length_drop, List.length_take]; omega)]
      rw [List.getElem?_drop, List.getElem?_take_of_lt (by omega), Nat.mod_eq_of_lt hpk, Nat.add_comm]
    · have : (p + k) % n = p + k - n := by
        rw [Nat.mod_eq_sub_mod (by omega), Nat.mod_eq_of_lt (by omega)]
      rw [this, List.getElem?_append_right (by simp only [List.length_drop, List.length_take]; omega)]
      simp only [List.length_drop, List.length_take]
      rw [List.getElem?_take_of_lt (by omega), List.getElem?_take_of_lt (by omega)]
      congr 1; omega

/-! ## composite objects are shared by reference; sub-intervals alias their parent -/

/-- `getinterval` returns a view into the same store -/
theorem getinterval_view (v : VM) (r o n : Nat) (i c : Nat) (rest : List Obj)
    (h : v.stack = .int c :: .int i :: .arr r o n :: rest) (hi : i ≤ n) (hc : c ≤ n - i) :
    bGetinterval v = ({ v with stack := .arr r (o + i) c :: rest }, .ok) := by
  unfold bGetinterval
  rw [h]
  have h1 : ¬ ((i : Int) < 0 ∨ (i : Int) > n) := by omega
  have h2 : ¬ ((c : Int) < 0 ∨ (c : Int) > (n : Int) - i) := by omega
  simp only [h1, h2, if_false, okRes, Int.toNat_natCast]

/-- the empty interval at the end is valid (repaired defect) -/
example (v : VM) (r o n : Nat) (rest : List Obj) (h : v.stack = .int 0 :: .int n :: .arr r o n :: rest) :
    bGetinterval v = ({ v with stack := .arr r (o + n) 0 :: rest }, .ok) :=
  getinterval_view v r o n n 0 rest h (Nat.le_refl _) (Nat.zero_le _)

/-- a `put` through a sub-interval is seen through the parent: writing element `k` of the
view `(r, o+i, c)` changes element `i+k` of the view `(r, o, n)` -/
theorem alias_put (v : VM) (r o n i c k : Nat) (x : Obj) (rest : List Obj) (a : Array Obj)
    (hcell : v.heap[r]? = some (.objs a)) (hin : o + n ≤ a.size) (hi : i + c ≤ n) (hk : k < c)
    (h : v.stack = x :: .int k :: .arr r (o + i) c :: rest) :
    ∃ v', bPut v = (v', .ok) ∧ v'.stack = rest ∧ (v'.viewObjs r o n)[i + k]? = some x := by
  unfold bPut
  rw [h]
  have h1 : ¬ ((k : Int) < 0 ∨ (k : Int) ≥ c) := by omega
  simp only [h1, if_false, okRes, Int.toNat_natCast]
  refine ⟨_, rfl, rfl, ?_⟩
  have hr : r < v.heap.size := by
    rcases Nat.lt_or_ge r v.heap.size with hlt | hge
    · exact hlt
    · rw [Array.getElem?_eq_none hge] at hcell; cases hcell
  simp only [VM.viewObjs, VM.getObjs, VM.setCell, hcell, Array.getElem?_setIfInBounds_self_of_lt hr]
  rw [Array.toList_extract, List.getElem?_take_of_lt (by omega), List.getElem?_drop]
  simp only [Array.getElem?_toList]
  rw [show o + (i + k) = o + i + k by omega]
  exact Array.getElem?_setIfInBounds_self_of_lt (by omega)

/-! ## errors: too few operands give `stackunderflow` -/

theorem pop_underflow (v : VM) (h : v.stack = []) : (bPop v).2 = .err (.ps "stackunderflow") := by
  unfold bPop; rw [h]; rfl
theorem add_underflow (v : VM) (h : v.stack.length < 2) : (bAdd v).2 = .err (.ps "stackunderflow") := by
  unfold bAdd arith
  match hs : v.stack, h with
  | [], _ => rfl
  | [_], _ => rfl
theorem add_typecheck (v : VM) (a b : Obj) (rest : List Obj) (h : v.stack = b :: a :: rest)
    (hn : isNumber a = false ∨ isNumber b = false) : (bAdd v).2 = .err (.ps "typecheck") := by
  unfold bAdd arith
  rw [h]
  rcases hn with hn | hn <;> simp [hn, psErr]

end PsVerif.Props.C02
