import PsVerif.Proofs.C20Stems
import PsVerif.Props.C06Round
/-!
# C20 / C09 — stem hints are read back as written

Go code: `Glyph.encodeCharString` (`type1/t1encode.go`) writes, for every complete pair
`(a, b)` of `HStem` (`VStem`), the three tokens `a  (b-a)  hstem` (`vstem`); both operands are
computed in `int32` (edges are `funit.Int16`, so the width lies in `[-65535, 65535]`); `hstem3`
and `vstem3` are never written; a trailing unpaired value is dropped.
`decodeCharString` (`type1/t1decode.go`) computes, in `funit.Int16` arithmetic (wrap-around),
`a' = LsbY + Int16(Round(stack[0]))`, `b' = a' + Int16(Round(stack[1]))` and appends `a', b'`
(`LsbX` for `vstem`).

What is proved (all for lists of ANY length, any order, any sign of the widths):

* `encodeStems_decode` / `encodeStems_decode_v`: from ANY decoder state with empty operand stack,
  the decoder appends `wrap16 (lsb + e)` for every edge `e`, in order, two per `hstem`, nothing else
  changes except the token counter.  Because 16-bit wrap-around is a ring homomorphism the width
  `b - a`, which in general does NOT fit 16 bits, still gives back `b` exactly.
* `encodeStems_decode_exact(_v)`: if every `lsb + e` is a 16-bit value, the edges `lsb + e` come
  back; `encodeStems_decode_sb0(_v)`: with side bearing 0 (the only one the encoder writes) the
  list itself comes back.  The range hypothesis is needed: `sidebearing_wrap_counterexample`.
* `encodeStems_drop_odd`, `encodeStems_stemsNorm`: an unpaired last value is not written.
* `glyph_stems_roundtrip`: the whole charstring (`hsbw`/`sbw`, hstems, vstems, path, `endchar`)
  through the whole decoder gives back exactly `(g.hstem, g.vstem)`.
* separation from the seeded changes: `sorted_variant_fails`, `wrap16_variant_differs` (bytes and
  operand differ) together with the finding `wrap16_variant_same_edges` (the library's own
  decoder cannot see that change), `clamp_decoder_differs`.
-/
namespace PsVerif.Props.C20
open PsVerif.Model.T1Num PsVerif.Model.T1Encode PsVerif.Model.T1Decode
open PsVerif.Proofs.T1RoundTrip PsVerif.Proofs.C20Stems
open PsVerif.Props.C06Round (EGlyph DGlyph IntDomain decode_encode_int)

/-- the Go type of the edges: `funit.Int16` -/
def EdgesInt16 (l : List Int) : Prop := ∀ e ∈ l, -32768 ≤ e ∧ e ≤ 32767

theorem stemsFit_of_edges (l : List Int) (h : EdgesInt16 l) : stemsFit l = true := by
  simp only [stemsFit, List.all_eq_true, decide_eq_true_eq]
  exact fun e he => h e he

instance (l : List Int) : Decidable (EdgesInt16 l) := by unfold EdgesInt16; infer_instance

/-- three tokens per stem -/
theorem stemTokens_eq : ∀ l : List Int, stemTokens l = 3 * (l.length / 2)
  | [] => rfl
  | [_] => by simp [stemTokens]
  | _ :: _ :: l => by simp only [stemTokens, List.length_cons, stemTokens_eq l]; omega

/-! ## 1. the encoder drops an unpaired last value -/

theorem encodeStems_stemsNorm (op : Nat) : ∀ l : List Int, encodeStems op l = encodeStems op (stemsNorm l)
  | [] => rfl
  | [_] => rfl
  | a :: b :: l => by simp only [encodeStems, stemsNorm]; rw [← encodeStems_stemsNorm op l]

theorem encodeStems_drop_odd (op : Nat) : ∀ (l : List Int) (x : Int), l.length % 2 = 0 →
    encodeStems op (l ++ [x]) = encodeStems op l
  | [], _, _ => rfl
  | [_], _, h => by simp at h
  | a :: b :: l, x, h => by
    simp only [List.length_cons] at h
    simp only [List.cons_append, encodeStems, encodeStems_drop_odd op l x (by omega)]

/-! ## 1. the decoder on the encoder's stems, from any state -/

section
variable (subrs : List (List Nat)) (callers : List (List Nat))

/-- **hstem**: any number of stems, any order, any widths; arbitrary side bearing `d.lsbY`,
arbitrary hints already read (`d.res.hstem`), arbitrary continuation `rest`. -/
theorem encodeStems_decode (f : Nat) (d : DState) (hs : List Int) (rest : List Nat)
    (hlen : hs.length % 2 = 0) (hr : EdgesInt16 hs)
    (hst : d.stack = []) (ho : d.numOps + stemTokens hs ≤ maxOps) :
    run subrs (f + stemTokens hs) d (encodeStems 1 hs ++ rest) callers
      = run subrs f { d with numOps := d.numOps + stemTokens hs,
                             res := { d.res with hstem := d.res.hstem ++ hs.map (fun e => wrap16 (d.lsbY + e)) } }
          rest callers := by
  rw [encodeStems_eq_W, run_hstemsW subrs callers _ rest hs f d
    (stemsFitW_sub hs (stemsFit_of_edges hs hr)) hst ho, stemsDecW_sub, stemsNorm_of_even hs hlen]

/-- **vstem**, with the horizontal side bearing `d.lsbX` -/
theorem encodeStems_decode_v (f : Nat) (d : DState) (vs : List Int) (rest : List Nat)
    (hlen : vs.length % 2 = 0) (hr : EdgesInt16 vs)
    (hst : d.stack = []) (ho : d.numOps + stemTokens vs ≤ maxOps) :
    run subrs (f + stemTokens vs) d (encodeStems 3 vs ++ rest) callers
      = run subrs f { d with numOps := d.numOps + stemTokens vs,
                             res := { d.res with vstem := d.res.vstem ++ vs.map (fun e => wrap16 (d.lsbX + e)) } }
          rest callers := by
  rw [encodeStems_eq_W, run_vstemsW subrs callers _ rest vs f d
    (stemsFitW_sub vs (stemsFit_of_edges vs hr)) hst ho, stemsDecW_sub, stemsNorm_of_even vs hlen]

/-- no wrap-around when the shifted edges are 16-bit values -/
theorem encodeStems_decode_exact (f : Nat) (d : DState) (hs : List Int) (rest : List Nat)
    (hlen : hs.length % 2 = 0) (hr : EdgesInt16 hs) (hsb : EdgesInt16 (hs.map (d.lsbY + ·)))
    (hst : d.stack = []) (ho : d.numOps + stemTokens hs ≤ maxOps) :
    run subrs (f + stemTokens hs) d (encodeStems 1 hs ++ rest) callers
      = run subrs f { d with numOps := d.numOps + stemTokens hs,
                             res := { d.res with hstem := d.res.hstem ++ hs.map (d.lsbY + ·) } }
          rest callers := by
  rw [encodeStems_decode subrs callers f d hs rest hlen hr hst ho]
  have : hs.map (fun e => wrap16 (d.lsbY + e)) = hs.map (d.lsbY + ·) := by
    apply List.map_congr_left
    intro e he
    exact wrap16_id _ (hsb _ (List.mem_map.mpr ⟨e, he, rfl⟩))
  rw [this]

theorem encodeStems_decode_exact_v (f : Nat) (d : DState) (vs : List Int) (rest : List Nat)
    (hlen : vs.length % 2 = 0) (hr : EdgesInt16 vs) (hsb : EdgesInt16 (vs.map (d.lsbX + ·)))
    (hst : d.stack = []) (ho : d.numOps + stemTokens vs ≤ maxOps) :
    run subrs (f + stemTokens vs) d (encodeStems 3 vs ++ rest) callers
      = run subrs f { d with numOps := d.numOps + stemTokens vs,
                             res := { d.res with vstem := d.res.vstem ++ vs.map (d.lsbX + ·) } }
          rest callers := by
  rw [encodeStems_decode_v subrs callers f d vs rest hlen hr hst ho]
  have : vs.map (fun e => wrap16 (d.lsbX + e)) = vs.map (d.lsbX + ·) := by
    apply List.map_congr_left
    intro e he
    exact wrap16_id _ (hsb _ (List.mem_map.mpr ⟨e, he, rfl⟩))
  rw [this]

/-- side bearing 0 (what `encodeCharString` writes): the list itself -/
theorem encodeStems_decode_sb0 (f : Nat) (d : DState) (hs : List Int) (rest : List Nat)
    (hlen : hs.length % 2 = 0) (hr : EdgesInt16 hs) (h0 : d.lsbY = 0)
    (hst : d.stack = []) (ho : d.numOps + stemTokens hs ≤ maxOps) :
    run subrs (f + stemTokens hs) d (encodeStems 1 hs ++ rest) callers
      = run subrs f { d with numOps := d.numOps + stemTokens hs,
                             res := { d.res with hstem := d.res.hstem ++ hs } } rest callers := by
  have e : hs.map (d.lsbY + ·) = hs := by
    rw [h0]; conv => rhs; rw [← List.map_id hs]
    apply List.map_congr_left; intro a _; simp
  rw [encodeStems_decode_exact subrs callers f d hs rest hlen hr (by rw [e]; exact hr) hst ho, e]

theorem encodeStems_decode_sb0_v (f : Nat) (d : DState) (vs : List Int) (rest : List Nat)
    (hlen : vs.length % 2 = 0) (hr : EdgesInt16 vs) (h0 : d.lsbX = 0)
    (hst : d.stack = []) (ho : d.numOps + stemTokens vs ≤ maxOps) :
    run subrs (f + stemTokens vs) d (encodeStems 3 vs ++ rest) callers
      = run subrs f { d with numOps := d.numOps + stemTokens vs,
                             res := { d.res with vstem := d.res.vstem ++ vs } } rest callers := by
  have e : vs.map (d.lsbX + ·) = vs := by
    rw [h0]; conv => rhs; rw [← List.map_id vs]
    apply List.map_congr_left; intro a _; simp
  rw [encodeStems_decode_exact_v subrs callers f d vs rest hlen hr (by rw [e]; exact hr) hst ho, e]

end

/-- The range hypothesis of `encodeStems_decode_exact` cannot be dropped: after `1 500 hsbw`-like
side bearing 1, the in-range edge 32767 comes back as -32768 (Go: `LsbY + funit.Int16(…)` wraps). -/
theorem sidebearing_wrap_counterexample :
    EdgesInt16 [32766, 32767] ∧
    [32766, 32767].map (fun e => wrap16 (1 + e)) = [32767, -32768] ∧
    [32766, 32767].map (1 + ·) = [32767, 32768] := by decide

/-! ## stems followed by `endchar`, through `decodeCharString` -/

theorem decode_stems_endchar (subrs : List (List Nat)) (hs vs : List Int)
    (hh : hs.length % 2 = 0) (hv : vs.length % 2 = 0) (hrh : EdgesInt16 hs) (hrv : EdgesInt16 vs)
    (hb : stemTokens hs + stemTokens vs + 1 ≤ maxOps) :
    (decodeCharString subrs (encodeStems 1 hs ++ encodeStems 3 vs ++ appendOp 14)).map
        (fun d => (d.res.hstem, d.res.vstem)) = .ok (hs, vs) := by
  have e14 : appendOp 14 = [14] := rfl
  have key : run subrs (2 * maxOps + 64) {} (encodeStems 1 hs ++ encodeStems 3 vs ++ appendOp 14) []
      = .ok { ({} : DState) with numOps := 0 + stemTokens hs + stemTokens vs + 1,
                                  res := { hstem := [] ++ hs, vstem := [] ++ vs } } := by
    have ef : 2 * maxOps + 64
        = (((2 * maxOps + 64 - (stemTokens hs + stemTokens vs + 1)) + 1) + stemTokens vs) + stemTokens hs := by
      omega
    rw [ef, List.append_assoc, e14]
    rw [encodeStems_decode_sb0 subrs [] _ {} hs _ hh hrh rfl rfl (by simp only; omega)]
    rw [encodeStems_decode_sb0_v subrs [] _ _ vs _ hv hrv rfl rfl (by simp only; omega)]
    rw [run_endchar subrs [] _ _ [] (by simp [maxStack]) (by simp only; omega)]
  rw [decodeCharString_eq subrs _ _ key]
  simp [finish, Except.map]

/-! ## 2. the whole glyph -/

/-- **Stem hints of a glyph are read back as written** (C20, and the hint part of C09): for
every glyph of the integer domain of C06 (`IntDomain`: widths `int32`, edges `int16`, path operands
integers that fit `int32`, token budget) whose hint lists consist of pairs, the whole decoder run on
the whole encoder output succeeds with exactly the hint lists of the glyph: same number of stems
(3 stems are NOT turned into `hstem3`), same order, same edges whatever the sign of the width. -/
theorem glyph_stems_roundtrip (subrs : List (List Nat)) (g : EGlyph) (wx wy : Int) (h : IntDomain g wx wy)
    (hh : g.hstem.length % 2 = 0) (hv : g.vstem.length % 2 = 0) :
    (decodeCharString subrs (encodeCharString g wx wy)).map (fun d => (d.res.hstem, d.res.vstem))
      = .ok (g.hstem, g.vstem) := by
  rw [decode_encode_int subrs g wx wy h]
  simp only [Except.map, PsVerif.Props.C06Round.decoded, stemsNorm_of_even _ hh, stemsNorm_of_even _ hv]

/-- without the parity hypothesis: the complete pairs -/
theorem glyph_stems_roundtrip_pairs (subrs : List (List Nat)) (g : EGlyph) (wx wy : Int) (h : IntDomain g wx wy) :
    (decodeCharString subrs (encodeCharString g wx wy)).map (fun d => (d.res.hstem, d.res.vstem))
      = .ok (stemsNorm g.hstem, stemsNorm g.vstem) := by
  rw [decode_encode_int subrs g wx wy h]
  simp only [Except.map, PsVerif.Props.C06Round.decoded]

/-- the same with every hypothesis spelled out, for a glyph without outline: any `int32` widths,
edges in the 16-bit range, lists of pairs, at most 499 997 hint values in total -/
theorem glyph_stems_roundtrip_nopath (subrs : List (List Nat)) (hs vs : List Int) (wx wy : Int)
    (hwx : inInt32 wx) (hwy : inInt32 wy) (hrh : EdgesInt16 hs) (hrv : EdgesInt16 vs)
    (hh : hs.length % 2 = 0) (hv : vs.length % 2 = 0) (hn : hs.length + vs.length ≤ 499997) :
    (decodeCharString subrs (encodeCharString { cmds := [], hstem := hs, vstem := vs } wx wy)).map
        (fun d => (d.res.hstem, d.res.vstem)) = .ok (hs, vs) := by
  apply glyph_stems_roundtrip subrs { cmds := [], hstem := hs, vstem := vs } wx wy _ hh hv
  refine ⟨hwx, hwy, stemsFit_of_edges hs hrh, stemsFit_of_edges vs hrv, rfl, ?_⟩
  have := tokens_le { cmds := [], hstem := hs, vstem := vs } wy
  simp only [List.length_nil] at this
  unfold maxOps; omega

/-! ## 4. separation from the seeded changes -/

/-- seeded change 1: the width computed in 16 bits -/
def encodeStemsWrap16 (op : Nat) : List Int → List Nat
  | a :: b :: rest => appendInt a ++ appendInt (wrap16 (b - a)) ++ appendOp op ++ encodeStemsWrap16 op rest
  | _ => []

/-- the bytes differ, and the width operand the reader sees is -25536 instead of 40000 -/
theorem wrap16_variant_differs :
    encodeStemsWrap16 1 [-20000, 20000] ≠ encodeStems 1 [-20000, 20000] ∧
    encodeStems 1 [-20000, 20000] = appendInt (-20000) ++ appendInt 40000 ++ [1] ∧
    encodeStemsWrap16 1 [-20000, 20000] = appendInt (-20000) ++ appendInt (-25536) ++ [1] ∧
    (∀ t, decodeNum (appendInt 40000 ++ t) = .ok 40000 t) ∧
    (∀ t, decodeNum (appendInt (-25536) ++ t) = .ok (-25536) t) :=
  ⟨by decide, by decide, by decide, fun t => int_rt 40000 (by decide) t, fun t => int_rt (-25536) (by decide) t⟩

theorem encodeStemsWrap16_eq_W (op : Nat) : ∀ l : List Int,
    encodeStemsWrap16 op l = encodeStemsW (fun a b => wrap16 (b - a)) op l
  | [] => rfl
  | [_] => rfl
  | a :: b :: l => by simp only [encodeStemsWrap16, encodeStemsW, encodeStemsWrap16_eq_W op l]

/-- **Finding**: the library's own decoder cannot see seeded change 1, because it adds the width
in 16-bit wrap-around arithmetic: for every list the decoded edges are the same as for the real
encoder.  Only the bytes (and what any other Type 1 interpreter reads) differ. -/
theorem wrap16_variant_same_edges (subrs callers : List (List Nat)) (f : Nat) (d : DState) (hs : List Int)
    (rest : List Nat) (hlen : hs.length % 2 = 0) (hr : EdgesInt16 hs)
    (hst : d.stack = []) (ho : d.numOps + stemTokens hs ≤ maxOps) :
    run subrs (f + stemTokens hs) d (encodeStemsWrap16 1 hs ++ rest) callers
      = run subrs (f + stemTokens hs) d (encodeStems 1 hs ++ rest) callers := by
  rw [encodeStems_decode subrs callers f d hs rest hlen hr hst ho]
  rw [encodeStemsWrap16_eq_W, run_hstemsW subrs callers _ rest hs f d
    (stemsFitW_wrap hs (stemsFit_of_edges hs hr)) hst ho, stemsDecW_wrap, stemsNorm_of_even hs hlen]

/-- seeded change 2 (decoder): clamping instead of wrapping.  `stemEdges conv` is the arithmetic of
the `hstem` case with the conversion to `Int16` given by `conv`; the theorems above pin the model to
`stemEdges wrap16`, which differs from `stemEdges clamp16` on the stem `(-20000, 20000)`. -/
def clamp16 (x : Int) : Int := if x > 32767 then 32767 else if x < -32768 then -32768 else x

def stemEdges (conv : Int → Int) (lsb a w : Int) : Int × Int :=
  (conv (lsb + conv a), conv (conv (lsb + conv a) + conv w))

theorem stemEdges_wrap16 (lsb a w : Int) :
    stemEdges wrap16 lsb a w = (wrap16 (lsb + a), wrap16 (lsb + a + w)) := by
  unfold stemEdges
  rw [wrap16_wrap16_add, wrap16_add_wrap16]
  congr 1
  have e : lsb + wrap16 a + w = (lsb + w) + wrap16 a := by omega
  rw [e, wrap16_add_wrap16]; congr 1; omega

theorem clamp_decoder_differs :
    stemEdges wrap16 0 (-20000) (20000 - -20000) = (-20000, 20000) ∧
    stemEdges clamp16 0 (-20000) (20000 - -20000) = (-20000, 12767) := by decide

/-- seeded change 3: the stems sorted by their first edge before they are written -/
def stemPairs : List Int → List (Int × Int)
  | a :: b :: rest => (a, b) :: stemPairs rest
  | _ => []

def insertStem (p : Int × Int) : List (Int × Int) → List (Int × Int)
  | [] => [p]
  | q :: qs => if p.1 ≤ q.1 then p :: q :: qs else q :: insertStem p qs

def sortStems (l : List Int) : List Int :=
  ((stemPairs l).foldr insertStem []).flatMap fun p => [p.1, p.2]

def encodeStemsSorted (op : Nat) (l : List Int) : List Nat := encodeStems op (sortStems l)

/-- three stems in `hstem3` arrangement, written top first: the real encoder gives them back in
the order written, the sorting variant does not -/
theorem sorted_variant_fails :
    (decodeCharString [] (encodeStems 1 [680, 700, 0, 20, 340, 360] ++ encodeStems 3 [] ++ appendOp 14)).map
        (fun d => d.res.hstem) = .ok [680, 700, 0, 20, 340, 360] ∧
    (decodeCharString [] (encodeStemsSorted 1 [680, 700, 0, 20, 340, 360] ++ encodeStems 3 [] ++ appendOp 14)).map
        (fun d => d.res.hstem) = .ok [0, 20, 340, 360, 680, 700] ∧
    encodeStemsSorted 1 [680, 700, 0, 20, 340, 360] ≠ encodeStems 1 [680, 700, 0, 20, 340, 360] := by
  have h1 := decode_stems_endchar [] [680, 700, 0, 20, 340, 360] [] (by decide) (by decide) (by decide) (by decide)
    (by decide)
  have h2 := decode_stems_endchar [] [0, 20, 340, 360, 680, 700] [] (by decide) (by decide) (by decide) (by decide)
    (by decide)
  have es : encodeStemsSorted 1 [680, 700, 0, 20, 340, 360] = encodeStems 1 [0, 20, 340, 360, 680, 700] := by
    decide
  refine ⟨?_, ?_, by decide⟩
  · cases hd : decodeCharString [] (encodeStems 1 [680, 700, 0, 20, 340, 360] ++ encodeStems 3 [] ++ appendOp 14) with
    | error e => rw [hd] at h1; simp [Except.map] at h1
    | ok d => rw [hd] at h1; simp only [Except.map, Except.ok.injEq, Prod.mk.injEq] at h1 ⊢; exact h1.1
  · rw [es]
    cases hd : decodeCharString [] (encodeStems 1 [0, 20, 340, 360, 680, 700] ++ encodeStems 3 [] ++ appendOp 14) with
    | error e => rw [hd] at h2; simp [Except.map] at h2
    | ok d => rw [hd] at h2; simp only [Except.map, Except.ok.injEq, Prod.mk.injEq] at h2 ⊢; exact h2.1

/-! ## 5. non-vacuity -/

/-- the bytes of a ghost stem `(100, 80)` (width -20), a zero-width stem, and the extreme stem
(width 65535, five-byte operand) -/
example : encodeStems 1 [100, 80] = [239, 119, 1] := by decide
example : encodeStems 1 [50, 50] = [189, 139, 1] := by decide
example : encodeStems 1 [-32768, 32767] = [255, 255, 255, 128, 0, 255, 0, 0, 255, 255, 1] := by decide
example : encodeStems 3 [121, 100] = [247, 13, 118, 3] := by decide     -- ghost width -21
example : encodeStems 1 [1, 2, 3] = encodeStems 1 [1, 2] := encodeStems_drop_odd 1 [1, 2] 3 rfl

/-- the 16-bit arithmetic on the extreme stem: the width 65535 is reduced to -1, and -32768 + -1
wraps to 32767 -/
example : wrap16 65535 = -1 ∧ wrap16 (-32768 + -1) = 32767 ∧ wrap16 (0 + -32768 + 65535) = 32767 := by decide

def sampleH : List Int := [100, 80, 50, 50, -32768, 32767, 700, 0, 21, 0]
def sampleV : List Int := [680, 700, 0, 20, 340, 360]

example : EdgesInt16 sampleH ∧ EdgesInt16 sampleV := by decide

/-- ghost stem, zero width, extreme stem, a negative width other than -20 and -21, ghost -21; three
unsorted vstems: through the whole encoder and the whole decoder -/
example : (decodeCharString [] (encodeCharString { cmds := [], hstem := sampleH, vstem := sampleV } 500 0)).map
    (fun d => (d.res.hstem, d.res.vstem)) = .ok (sampleH, sampleV) :=
  glyph_stems_roundtrip_nopath [] sampleH sampleV 500 0 (by decide) (by decide) (by decide) (by decide)
    (by decide) (by decide) (by decide)

/-- with an outline and a vertical width (`sbw`) -/
example : (decodeCharString [] (encodeCharString { PsVerif.Props.C06Round.sample with hstem := sampleH, vstem := sampleV }
      0 (-1000))).map (fun d => (d.res.hstem, d.res.vstem)) = .ok (sampleH, sampleV) :=
  glyph_stems_roundtrip [] _ 0 (-1000) (by decide +kernel) (by decide) (by decide)

/-- a foreign charstring state with side bearing 30: the edges are shifted by 30 -/
example (f : Nat) : run [] (f + 3) { lsbY := 30 } (encodeStems 1 [100, 80] ++ [14]) []
    = run [] f { lsbY := 30, numOps := 3, res := { hstem := [130, 110] } } [14] [] :=
  encodeStems_decode_exact [] [] f { lsbY := 30 } [100, 80] [14] (by decide) (by decide) (by decide) rfl
    (by decide)

#print axioms encodeStems_decode
#print axioms encodeStems_decode_v
#print axioms encodeStems_decode_exact
#print axioms encodeStems_decode_exact_v
#print axioms encodeStems_decode_sb0
#print axioms encodeStems_decode_sb0_v
#print axioms encodeStems_drop_odd
#print axioms encodeStems_stemsNorm
#print axioms sidebearing_wrap_counterexample
#print axioms decode_stems_endchar
#print axioms glyph_stems_roundtrip
#print axioms glyph_stems_roundtrip_pairs
#print axioms glyph_stems_roundtrip_nopath
#print axioms wrap16_variant_differs
#print axioms wrap16_variant_same_edges
#print axioms clamp_decoder_differs
#print axioms stemEdges_wrap16
#print axioms sorted_variant_fails

end PsVerif.Props.C20
