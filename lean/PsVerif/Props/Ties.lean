import PsVerif.Props.Ties.Limits
import PsVerif.Props.Ties.CMap
import PsVerif.Props.Ties.SystemDict
import PsVerif.Props.Ties.Cipher
import PsVerif.Props.Ties.T1
import PsVerif.Props.Ties.PFB
import PsVerif.Props.Ties.Determinism
import PsVerif.Props.Ties.Shared
import PsVerif.Props.Ties.Errors
/-!
# Ties between the facts regenerated from the Go source (`Generated/*`, written by
`tools/factgen` on every run) and the hand-written model.

Each theorem (in `Ties/*.lean`, one module per group of properties so that a changed fact only
breaks the checks of the properties it concerns) is closed by `rfl`/`decide`: when a constant,
table or structural fact changes in the Go source, the generated side changes and the theorem
no longer checks.
-/
