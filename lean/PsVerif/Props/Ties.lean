import PsVerif.Model.Init
import PsVerif.Model.T1Num
import PsVerif.Generated.Consts
import PsVerif.Generated.SystemDict
import PsVerif.Generated.T1Ops
import PsVerif.Generated.Structure
import PsVerif.Generated.Template
/-!
# Ties between the facts regenerated from the Go source (`Generated/*`, written by
`tools/factgen` on every run) and the hand-written model.

Each theorem is closed by `rfl`/`decide`: when a constant, table or structural fact changes
in the Go source, the generated side changes and the theorem no longer checks.
-/
namespace PsVerif.Props.Ties
open PsVerif.Model PsVerif.Generated

/-! ## interpreter limits (C01, C02, C11) -/
theorem interp_consts :
    Consts.root_maxArraySize = some maxArraySize ∧ Consts.root_maxDictSize = some maxDictSize ∧
    Consts.root_maxStringSize = some maxStringSize ∧
    Consts.root_maxDictStackDepth = some (maxDictStackDepth : Int) ∧
    Consts.root_maxOperandStackDepth = some (maxOperandStackDepth : Int) ∧
    Consts.root_maxBindDepth = some (maxBindDepth : Int) := by decide

/-- the literal tests in `executeOne`: `execStackDepth >= 100`, `level < 5`, `len(Stack) > 500` -/
theorem interp_literal_tests :
    Consts.root_execDepthTests = [">= 100"] ∧ Consts.root_errorLevelTests = ["< 5"] ∧
    Consts.root_stackDepthTests = ["> 500"] ∧ Consts.root_internaldictTests = ["!= 1183615869"] := by
  refine ⟨rfl, rfl, rfl, rfl⟩

theorem interp_literal_model : execDepthLimit = 100 ∧ errorNestingLimit = 5 ∧ maxOperandStackDepth = 500 ∧
    internalDictPasscode = 1183615869 := by decide

/-- CMap blocks: `n < 0 || n > 100` in all seven `begin…` operators (C07) -/
theorem cmap_block_tests : Consts.root_cmapBlockTests = ["< 0", "> 100"] ∧ cmapBlockLimit = 100 := ⟨rfl, rfl⟩

/-! ## system dictionary (C02, C18) -/

def genKeys (kind : String) : List String :=
  (SystemDict.entries.filter (fun e => e.2.1 == kind)).map (·.1)

/-- the operators bound in `makeSystemDict` are exactly the ones the model implements -/
theorem systemdict_operators :
    (SystemDict.entries.filter (fun e => e.2.1 == "builtin")).map (·.1) =
      systemOperators := by decide

theorem systemdict_others :
    (SystemDict.entries.filter (fun e => e.2.1 != "builtin")).map (·.1) =
      systemNonOperators := by decide

theorem cidinit_keys : SystemDict.cidInitKeys = cidInitKeys := by decide
theorem error_names : SystemDict.allErrors = allErrors := by decide

/-- how `NewInterpreter` obtains the resource dictionaries: fresh literals, and the CIDInit
procedure set is cloned, not shared (C18) -/
theorem resource_init :
    SystemDict.resourceInit =
      ["Font := fontDirectory", "CIDFont := ?", "CMap := cmapDirectory", "ProcSet := ?",
       "CIDInit := maps.Clone(cidInit)"] := rfl   -- `?` = a composite literal (fresh dictionary)

/-! ## ciphers (C05, C06, C08) -/
theorem cipher_consts :
    Consts.root_eexecR = some 55665 ∧ Consts.root_eexecC1 = some 52845 ∧ Consts.root_eexecC2 = some 22719 ∧
    Consts.root_eexecN = some 4 ∧ Consts.t1_eexecR0 = some 55665 ∧ Consts.t1_eexecC1 = some 52845 ∧
    Consts.t1_eexecC2 = some 22719 ∧ Consts.t1_obfuscateR = some 4330 ∧ Consts.t1_deobfuscateR = some 4330 := by
  decide

theorem cipher_model : Cipher.eexecR = 55665 ∧ Cipher.c1 = 52845 ∧ Cipher.c2 = 22719 ∧ Cipher.charstringR = 4330 := by
  decide

/-! ## charstring number formats and opcodes (C20, C06, C08) -/
theorem appendInt_bounds :
    T1Ops.appendIntTests = [">= -107", "<= 107", ">= 108", "<= 1131", ">= -1131", "<= -108"] := rfl

theorem decode_bounds :
    T1Ops.decodeOpTests = [">= 32", "<= 246", ">= 247", "<= 250", ">= 251", "<= 254", "== 255", "== 12"] := rfl

theorem approx_max_q : Consts.t1_appendNumberQTests = ["<= 107"] := rfl

theorem t1_limits : Consts.t1_maxStack = some 24 ∧ Consts.t1_callDepthTests = ["> 0", "> 10"] ∧
    Consts.t1_readShortCipherTests = ["< 4"] := ⟨rfl, rfl, rfl⟩

theorem t1_opcodes : T1Ops.ops =
    [("t1callothersubr", 3088), ("t1callsubr", 10), ("t1closepath", 9), ("t1div", 3084), ("t1dotsection", 3072),
     ("t1endchar", 14), ("t1hlineto", 6), ("t1hmoveto", 22), ("t1hsbw", 13), ("t1hstem", 1), ("t1hstem3", 3074),
     ("t1hvcurveto", 31), ("t1pop", 3089), ("t1return", 11), ("t1rlineto", 5), ("t1rmoveto", 21),
     ("t1rrcurveto", 8), ("t1sbw", 3079), ("t1seac", 3078), ("t1setcurrentpoint", 3105), ("t1vhcurveto", 30),
     ("t1vlineto", 7), ("t1vmoveto", 4), ("t1vstem", 3), ("t1vstem3", 3073)] := rfl

/-! ## PFB header (C14, C01) -/
theorem pfb_header_tests : Consts.pfb_headerTests = ["== 128", "== 3", "!= 128", "== 0", "> 3"] := rfl

/-! ## determinism (C17): every place where a Go map is iterated, and no clock/random/address use -/
theorem map_sites : Structure.mapSites =
    [(".", "NewInterpreter", "maps.Clone cidInit"),
     (".", "ReadCMap", "maps.Keys intp.CMapDirectory"),
     (".", "bCopy", "range a"),
     (".", "bForall", "range obj"),
     ("afm", "Metrics.FontBBoxPDF", "range f.Glyphs"),
     ("afm", "Metrics.GlyphList", "maps.Keys f.Glyphs"),
     ("afm", "Metrics.Write", "maps.Keys g.Ligatures"),
     ("type1", "Font.FontBBox", "range f.Glyphs"),
     ("type1", "Font.FontBBoxPDF", "range f.Glyphs"),
     ("type1", "Font.GlyphList", "maps.Keys f.Glyphs"),
     ("type1", "Font.WidthsMapPDF", "range f.Glyphs"),
     ("type1", "Font.encodeCharstrings", "range f.Glyphs"),
     ("type1", "Read", "maps.Keys cs"),
     ("type1", "Read", "range intp.FontDirectory")] := rfl

theorem no_clock_no_addr : Structure.clockSites = [] := rfl

/-! ## shared state (C18) -/
theorem pkg_ref_vars : Structure.pkgRefVars =
    [(".", "ErrExecutionLimitExceeded", "*postscript.postScriptError"),
     (".", "allErrors", "[]postscript.Name"),
     (".", "cidInit", "postscript.Dict"),
     (".", "radixNumberRe", "*regexp.Regexp"),
     (".", "realNumberRe", "*regexp.Regexp"),
     ("psenc", "StandardEncoding", "[256]string"),
     ("psenc", "StandardEncodingRev", "map[string]byte"),
     ("type1", "dateFormats", "[]string"),
     ("type1", "defaultWriterOptions", "*type1.WriterOptions"),
     ("type1", "tmpl", "*template.Template"),
     ("type1/names", "compat", "map[rune][]rune"),
     ("type1/names", "glyph", "*names.glyphMap")] := rfl

/-- no function writes to or through a package-level variable … -/
theorem pkg_var_writes : Structure.pkgVarWrites = [] := rfl

/-- … except the lazily filled glyph-name tables, whose every write happens in a method
that takes the lock or is only called from methods that do -/
theorem names_lock_protocol : Structure.namesRecvWrites =
    [("type1/names", "glyphMap.encode", "calls=getEncode locked=false"),
     ("type1/names", "glyphMap.getEncode", "calls=Lock,Unlock locked=true"),
     ("type1/names", "glyphMap.getEncode", "runeToName locked=true"),
     ("type1/names", "glyphMap.getFile", "calls= locked=false"),
     ("type1/names", "glyphMap.getFile", "nameToRune locked=false"),
     ("type1/names", "glyphMap.getFile", "nameToSeq locked=false"),
     ("type1/names", "glyphMap.lookup", "calls=Lock,Unlock,getFile locked=true"),
     ("type1/names", "glyphMap.lookupSeq", "calls=Lock,Unlock,getFile locked=true")] := rfl

/-! ## error propagation (C13): the only calls whose error result is not bound -/
theorem dropped_errors : Structure.droppedErrors =
    [(".", "scanner.SkipByte", "s.Next"),
     (".", "scanner.SkipN", "s.Next"),
     (".", "scanner.SkipOptionalByte", "s.Next"),
     (".", "scanner.readCommentKey", "buf.WriteByte"),
     (".", "scanner.readCommentValue", "buf.WriteByte"),
     (".", "scanner.readCommentValue", "buf.WriteByte"),
     ("type1", "writeEncoding", "b.WriteString"),
     ("type1", "writeEncoding", "b.WriteString"),
     ("type1", "writeEncoding", "b.WriteString"),
     ("type1", "writeEncoding", "fmt.Fprintf"),
     ("type1/names", "glyphMap.getEncode", "glyphData.Open (blank)"),
     ("type1/names", "glyphMap.getEncode", "strconv.ParseInt (blank)"),
     ("type1/names", "glyphMap.getFile", "strconv.ParseInt (blank)"),
     ("type1/names", "glyphMap.getFile", "strconv.ParseInt (blank)")] := rfl

end PsVerif.Props.Ties
