import PsVerif.Proofs.T1RoundTrip
/-!
# C06 — Type 1 glyph outlines survive encoding and decoding (integer domain, byte level)

`decode_encode_int`: for **every** glyph in the integer domain (no bound on the number of
commands other than the decoder's operation budget, which is shown to be linear in the size
of the glyph), running the model of `decodeCharString` on the bytes produced by the model of
`encodeCharString` succeeds and yields the glyph in the decoder's normal form:

* same commands with the same points (`hmoveto`/`vlineto`/`hvcurveto`/… shortcuts are expanded
  back exactly), with a `closePath` inserted before a `moveTo` inside an open contour and at the
  end of an open contour (`normCmds`; "open" = a `lineTo` was drawn since the last
  `closePath`/`moveTo` — a contour of `curveTo`s only is not closed, see the finding below);
* same hints, restricted to complete pairs (`stemsNorm`: the encoder drops a trailing odd value);
* `widthX = wx`, `widthY = wy` (`hsbw` when `wy = 0`, `sbw 0 0 wx wy` otherwise; left side
  bearing 0);
* no seac record, empty stacks, and exactly `tokens g wy` executed tokens.

`decode_encode_exact`: when the outline is already closed the way the decoder closes it and the
hint lists have even length, the decoded glyph **is** the input glyph.
-/
namespace PsVerif.Props.C06Round
open PsVerif.Model.T1Num PsVerif.Model.T1Encode PsVerif.Model.T1Decode
open PsVerif.Proofs.T1RoundTrip

abbrev EGlyph := PsVerif.Model.T1Encode.Glyph
abbrev DGlyph := PsVerif.Model.T1Decode.Glyph

/-- **The integer domain.**
* the widths are `int32` (the Go parameter type);
* the hints are `int16` (the Go type `funit.Int16`);
* every operand the encoder writes for the path is an integer that fits `int32`: started at
  `(0,0)`, the successive differences `x - px`, `y - py` (for curves `x1-px, y1-py, x2-x1, y2-y1,
  x3-x2, y3-y2`) satisfy `isInt32`, i.e. denominator 1 and `-2^31 ≤ · < 2^31` (`pathFits`);
  since the start is `(0,0)` this forces all coordinates to be integers;
* the number of tokens written (`tokens`, at most `7·#cmds + 2·#hints + 6`) does not exceed the
  decoder's budget `maxOps = 1 000 000`. -/
def IntDomain (g : EGlyph) (wx wy : Int) : Prop :=
  inInt32 wx ∧ inInt32 wy ∧ stemsFit g.hstem = true ∧ stemsFit g.vstem = true ∧
    pathFits 0 0 g.cmds = true ∧ tokens g wy ≤ maxOps

instance (g : EGlyph) (wx wy : Int) : Decidable (IntDomain g wx wy) := by
  unfold IntDomain; infer_instance

/-- A simpler sufficient domain: all coordinates are integers of absolute value at most
`2^30 - 1`, hints `int16`, widths `int32`, and `7·#cmds + 2·#hints + 6 ≤ 1 000 000`. -/
def SimpleDomain (g : EGlyph) (wx wy : Int) : Prop :=
  inInt32 wx ∧ inInt32 wy ∧ stemsFit g.hstem = true ∧ stemsFit g.vstem = true ∧
    g.cmds.all cmdSmall = true ∧ 7 * g.cmds.length + 2 * (g.hstem.length + g.vstem.length) + 6 ≤ 1000000

instance (g : EGlyph) (wx wy : Int) : Decidable (SimpleDomain g wx wy) := by
  unfold SimpleDomain; infer_instance

theorem simple_domain (g : EGlyph) (wx wy : Int) (h : SimpleDomain g wx wy) : IntDomain g wx wy := by
  obtain ⟨h1, h2, h3, h4, h5, h6⟩ := h
  refine ⟨h1, h2, h3, h4, pathFits_of_small g.cmds 0 0 (by decide +kernel) (by decide +kernel) h5, ?_⟩
  have := tokens_le g wy
  unfold maxOps; omega

/-- the state the decoder ends in -/
def decoded (g : EGlyph) (wx wy : Int) : DState :=
  { stack := [], ps := [], flex := [],
    res := { cmds := normCmds true g.cmds, hstem := stemsNorm g.hstem, vstem := stemsNorm g.vstem,
             widthX := wx, widthY := wy },
    posX := (pathEnd 0 0 g.cmds).1, posY := (pathEnd 0 0 g.cmds).2, lsbX := 0, lsbY := 0,
    isClosed := true, inFlex := false, seacs := [], numOps := tokens g wy }

/-- **C06, byte-level round trip on the whole integer domain** (any subroutine table; in
particular `subrs := []`). -/
theorem decode_encode_int (subrs : List (List Nat)) (g : EGlyph) (wx wy : Int) (h : IntDomain g wx wy) :
    decodeCharString subrs (encodeCharString g wx wy) = .ok (decoded g wx wy) := by
  obtain ⟨h1, h2, h3, h4, h5, h6⟩ := h
  exact decode_encode_state subrs g wx wy h1 h2 h3 h4 h5 h6

/-- the glyph part of the result -/
theorem decode_encode_int_glyph (g : EGlyph) (wx wy : Int) (h : IntDomain g wx wy) :
    (decodeCharString [] (encodeCharString g wx wy)).map (·.res)
      = .ok { cmds := normCmds true g.cmds, hstem := stemsNorm g.hstem, vstem := stemsNorm g.vstem,
              widthX := wx, widthY := wy } := by
  rw [decode_encode_int [] g wx wy h]; rfl

/-- the input glyph as a decoded glyph -/
def asDecoded (g : EGlyph) (wx wy : Int) : DGlyph :=
  { cmds := g.cmds, hstem := g.hstem, vstem := g.vstem, widthX := wx, widthY := wy }

/-- **exact round trip**: `decode (encode g) = g` — same commands, same points, same hints, same
width — for every glyph of the integer domain whose contours are closed (`wellClosed`) and whose
hint lists consist of pairs. -/
theorem decode_encode_exact (g : EGlyph) (wx wy : Int) (h : IntDomain g wx wy)
    (hc : wellClosed true g.cmds = true) (hh : g.hstem.length % 2 = 0) (hv : g.vstem.length % 2 = 0) :
    (decodeCharString [] (encodeCharString g wx wy)).map (·.res) = .ok (asDecoded g wx wy) := by
  rw [decode_encode_int_glyph g wx wy h, normCmds_of_wellClosed g.cmds true hc,
    stemsNorm_of_even _ hh, stemsNorm_of_even _ hv]
  rfl

/-- the decoder never reports an accented composite for an encoder output -/
theorem decode_encode_no_seac (g : EGlyph) (wx wy : Int) (h : IntDomain g wx wy) :
    (decodeCharString [] (encodeCharString g wx wy)).map (·.seacs) = .ok [] := by
  rw [decode_encode_int [] g wx wy h]; rfl

/-- **budget**: the decoder executes exactly `tokens g wy` tokens, which is linear in the glyph -/
theorem budget_linear (g : EGlyph) (wy : Int) :
    g.cmds.length ≤ tokens g wy ∧
    tokens g wy ≤ 7 * g.cmds.length + 2 * (g.hstem.length + g.vstem.length) + 6 := by
  refine ⟨?_, tokens_le g wy⟩
  have := length_le_pathTokens g.cmds 0 0
  unfold tokens; omega

/-! ## non-vacuity -/

/-- two contours; every instruction form (`hmoveto vmoveto rmoveto hlineto vlineto rlineto
hvcurveto vhcurveto rrcurveto closepath`), all four number formats, hints, a negative value -/
def sample : EGlyph :=
  { cmds := [.moveTo 100 0, .lineTo 100 700, .lineTo 300 650, .lineTo 500 650,
             .curveTo 500 500 450 400 450 200,          -- rrcurveto (x1 = px but y3 ≠ y2)
             .curveTo 300 200 250 100 250 (-2000),      -- hvcurveto (y1 = py, x3 = x2)
             .curveTo 250 (-1000) 150 50 120 50,        -- vhcurveto (x1 = px, y3 = y2)
             .closePath,
             .moveTo 120 100000, .lineTo 130 100010, .closePath,
             .moveTo 131 100010, .curveTo 140 100020 150 100030 160 100040, .closePath],
    hstem := [0, 20, 680, 700],
    vstem := [100, 180] }

example : IntDomain sample 1000 0 := by decide +kernel
example : SimpleDomain sample 1000 0 := by decide +kernel
example : wellClosed true sample.cmds = true := by decide +kernel
example : tokens sample 0 = 56 := by decide +kernel

/-- the theorem applied to the sample: exact identity -/
example : (decodeCharString [] (encodeCharString sample 1000 0)).map (·.res) = .ok (asDecoded sample 1000 0) :=
  decode_encode_exact sample 1000 0 (by decide +kernel) (by decide +kernel) (by decide) (by decide)

/-- vertical width (`sbw`) -/
example : IntDomain sample 0 (-1000) := by decide +kernel

/-- extreme operands: the differences `±(2^31 - 1)` and `-2^31` are in the domain -/
example : IntDomain { cmds := [.moveTo 2147483647 (-2147483648), .lineTo 0 (-1), .lineTo (-2147483648) (-1)],
                      hstem := [-32768, 32767], vstem := [] } 2147483647 (-2147483648) := by decide +kernel

-- independent check by evaluation: bytes, and the decoded commands
#eval encodeCharString sample 1000 0
#eval (decodeCharString [] (encodeCharString sample 1000 0)).map (fun d => decide (d.res.cmds = sample.cmds)
  && decide (d.res.hstem = sample.hstem) && decide (d.res.vstem = sample.vstem)
  && decide (d.res.widthX = 1000) && decide (d.res.widthY = 0) && decide (d.numOps = 56))

/-! ## what the normal form changes (findings, confirmed by evaluation)

1. An open contour is closed by the decoder: `[moveTo, lineTo]` comes back with a final `closePath`,
   and a `moveTo` after a `lineTo` gets a `closePath` in front of it.  This is the documented
   behaviour of the reader.
2. **A contour made of `curveTo`s only is not closed**, because `rCurveTo` in `decodeCharString`
   does not reset `isClosed` (only `rLineTo` does).  So `[moveTo, curveTo]` survives unchanged
   while `[moveTo, lineTo]` gains a `closePath`: the implicit closing depends on the segment type.
3. A trailing unpaired hint value is dropped by the encoder.
-/
#eval (decodeCharString [] (encodeCharString { cmds := [.moveTo 0 0, .lineTo 10 10], hstem := [], vstem := [] } 500 0)).map (·.res.cmds)
#eval (decodeCharString [] (encodeCharString { cmds := [.moveTo 0 0, .curveTo 10 10 20 20 30 0], hstem := [], vstem := [] } 500 0)).map (·.res.cmds)
#eval (decodeCharString [] (encodeCharString { cmds := [.moveTo 0 0, .curveTo 10 10 20 20 30 0, .moveTo 5 5, .lineTo 6 6, .moveTo 7 7], hstem := [1, 2, 3], vstem := [] } 500 0)).map (fun d => (d.res.cmds, d.res.hstem))

example : normCmds true [.moveTo 0 0, .lineTo 10 10] = [.moveTo 0 0, .lineTo 10 10, .closePath] := by decide +kernel
example : normCmds true [.moveTo 0 0, .curveTo 10 10 20 20 30 0] = [.moveTo 0 0, .curveTo 10 10 20 20 30 0] := by
  decide +kernel

#print axioms decode_encode_int
#print axioms decode_encode_int_glyph
#print axioms decode_encode_exact
#print axioms decode_encode_no_seac
#print axioms simple_domain
#print axioms budget_linear
#print axioms PsVerif.Proofs.T1RoundTrip.run_command
#print axioms PsVerif.Proofs.T1RoundTrip.run_path
#print axioms PsVerif.Proofs.T1RoundTrip.encodeCmdBytes_int

end PsVerif.Props.C06Round
