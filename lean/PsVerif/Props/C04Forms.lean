import PsVerif.Proofs.LexForms
/-
C04, first sentence: "Any sequence of objects written in any legal lexical form — signed decimal, radix and
real numbers; literal strings with escapes, octal codes, balanced nesting and line continuations;
hexadecimal and ASCII85 strings; literal and executable names; delimiters with or without surrounding
white space; comments anywhere between tokens — is read back as exactly that object sequence."

Proved on the scanner model for ALL values and ALL spellings, no length bounds.  The spelling relations
(`Sep`, `SpellInt`, `SpellRadix`, `SpellReal`, `SpellLitString`, `SpellHex`, `SpellA85`, `SpellExecName`,
`isSingle`, collected in `Spell`) are defined in `Proofs/LexForms.lean`.  Token level: strings are
`Tok.str bytes`, everything else `Tok.obj o` (`Model/Scanner.lean`).

Reading guide: `pend s` is the input still to be delivered (peek buffer, then source); `Reads m s a r`
means: `m` run on `s` returns `.ok a`, leaves exactly `r` pending, stays in plain mode (`OK`).

Comments that begin with `%%` are covered too (at the start of a line the tokenizer takes its DSC path:
key, value, `%%+` continuation lines; the theorems show it skips exactly the comment lines either way).

What is NOT covered (see the final report): what the DSC path records in `Scanner.dsc`; a number or name
that ends the input (no delimiter after it; for literal names see
`Proofs/ScanRoundTrip.scanToken_namePS_eof`), reals whose value overflows binary64.
Findings on the way (both fixed since, see the `#eval`s at the end): a form feed did not end a comment
(`skipToEOL`), and then still did not end a `%%Key: value` comment at the start of a line (`readLine`,
`skipBlanks`).
-/
namespace PsVerif.Props.C04Forms
open PsVerif.Model PsVerif.Model.Scan PsVerif.Proofs.LexForms

/-- the scanner state `Interpreter.Execute` installs for the input `input` -/
def fresh (input : List UInt8) : Scanner := { src := input }

theorem fresh_ok (input : List UInt8) : OK (fresh input) := ⟨rfl, rfl⟩
theorem fresh_pend (input : List UInt8) : pend (fresh input) = input := rfl

/-! ### the sequence theorem -/

/-- **C04 (first sentence).**  `its` is any list of written objects: each has a separator (white space and
comments, possibly empty), a spelling in one of the legal forms, and the token it denotes; numbers and
names are followed by white space or a delimiter (`Chained`).  From ANY plain-mode scanner state whose
pending input is that text followed by ANY `rest`, `its.length` calls of `ScanToken` return exactly the
tokens, in order, and leave exactly `rest` pending. -/
theorem lexical_forms_read_back (its : List Item) (s : Scanner) (rest : List UInt8)
    (hall : ∀ i ∈ its, Sep i.sep ∧ Spell i.tok i.bs i.nd) (hch : Chained its rest) (ok : OK s)
    (hp : pend s = text its ++ rest) :
    Reads (scanN its.length) s (its.map (·.tok)) rest :=
  reads_spelled_sequence its s rest hall hch ok hp

/-- the same from a fresh scanner, spelled out -/
theorem lexical_forms_read_back_fresh (its : List Item) (rest : List UInt8)
    (hall : ∀ i ∈ its, Sep i.sep ∧ Spell i.tok i.bs i.nd) (hch : Chained its rest) :
    (scanN its.length (fresh (text its ++ rest))).1 = .ok (its.map (·.tok)) ∧
    pend (scanN its.length (fresh (text its ++ rest))).2 = rest := by
  have := lexical_forms_read_back its (fresh (text its ++ rest)) rest hall hch (fresh_ok _) (fresh_pend _)
  exact ⟨this.val, this.rest⟩

/-! ### one theorem per form

In all of them: `s` any plain-mode state, `sp` any separator, `rest` any continuation (for numbers and
names: starting with white space or a delimiter, `Delimited rest`). -/

/-- signed decimal integers -/
theorem int_form (s : Scanner) (sp bs rest : List UInt8) (n : Int) (ok : OK s) (hsep : Sep sp) (h : SpellInt n bs)
    (hd : Delimited rest) (hp : pend s = sp ++ bs ++ rest) : Reads scanToken s (.obj (.int n)) rest :=
  reads_int s sp bs rest n ok hsep h hd hp

/-- radix numbers `base#digits` -/
theorem radix_form (s : Scanner) (sp bs rest : List UInt8) (n : Int) (ok : OK s) (hsep : Sep sp) (h : SpellRadix n bs)
    (hd : Delimited rest) (hp : pend s = sp ++ bs ++ rest) : Reads scanToken s (.obj (.int n)) rest :=
  reads_radix s sp bs rest n ok hsep h hd hp

/-- reals (and integers outside `int64`), relative to the model's `realValue`, i.e. the correctly rounded
`SoftFloat.ofDecimal neg (digits of ip ++ fp) (e - fp.length)`, when that is finite -/
theorem real_form (s : Scanner) (sp bs rest : List UInt8) (neg : Bool) (ip fp : List UInt8) (e : Int) (bits : UInt64)
    (ok : OK s) (hsep : Sep sp) (h : SpellReal neg ip fp e bs) (hv : realValue neg ip fp e = some bits)
    (hd : Delimited rest) (hp : pend s = sp ++ bs ++ rest) : Reads scanToken s (.obj (.real bits)) rest :=
  reads_real s sp bs rest neg ip fp e bits ok hsep h hv hd hp

/-- literal strings: escapes, octal codes, balanced nesting, line continuations, CR / CR LF as LF -/
theorem litString_form (s : Scanner) (sp bs rest v : List UInt8) (ok : OK s) (hsep : Sep sp) (h : SpellLitString v bs)
    (hp : pend s = sp ++ bs ++ rest) : Reads scanToken s (.str v) rest :=
  reads_litString s sp bs rest v ok hsep h hp

/-- hexadecimal strings -/
theorem hexString_form (s : Scanner) (sp bs rest v : List UInt8) (ok : OK s) (hsep : Sep sp) (h : SpellHex v bs)
    (hp : pend s = sp ++ bs ++ rest) : Reads scanToken s (.str v) rest :=
  reads_hex s sp bs rest v ok hsep h hp

/-- ASCII85 strings: groups, `z`, every length of the final partial group -/
theorem a85String_form (s : Scanner) (sp bs rest v : List UInt8) (ok : OK s) (hsep : Sep sp) (h : SpellA85 v bs)
    (hp : pend s = sp ++ bs ++ rest) : Reads scanToken s (.str v) rest :=
  reads_a85 s sp bs rest v ok hsep h hp

/-- literal names `/name` (the empty name `/` included) -/
theorem litName_form (s : Scanner) (sp n rest : List UInt8) (ok : OK s) (hsep : Sep sp)
    (hn : n.all isRegular = true) (hd : Delimited rest) (hp : pend s = sp ++ (47 :: n) ++ rest) :
    Reads scanToken s (.obj (.name (bytesToString n))) rest :=
  reads_litName s sp n rest ok hsep hn hd hp

/-- executable names: regular characters that do not form a number -/
theorem execName_form (s : Scanner) (sp bs rest : List UInt8) (ok : OK s) (hsep : Sep sp) (h : SpellExecName bs)
    (hd : Delimited rest) (hp : pend s = sp ++ bs ++ rest) : Reads scanToken s (.obj (.op (bytesToString bs))) rest :=
  reads_execName s sp bs rest ok hsep h hd hp

/-- a run of regular characters that does not begin with a digit, a sign or a dot is an executable name -/
theorem execName_of_first (b : UInt8) (t : List UInt8) (hr : (b :: t).all isRegular = true) (hd : isDigit b = false)
    (h43 : b ≠ 43) (h45 : b ≠ 45) (h46 : b ≠ 46) : SpellExecName (b :: t) :=
  ⟨by simp, hr, parseNumber_none b t hd h43 h45 h46⟩

/-- the delimiters `[ ] { }`, with or without white space around them -/
theorem delimiter_form (s : Scanner) (sp : List UInt8) (b : UInt8) (rest : List UInt8) (ok : OK s) (hsep : Sep sp)
    (hb : isSingle b = true) (hp : pend s = sp ++ [b] ++ rest) :
    Reads scanToken s (.obj (.op (bytesToString [b]))) rest :=
  reads_single s sp b rest ok hsep hb hp

/-- `<<` and `>>` -/
theorem dictOpen_form (s : Scanner) (sp rest : List UInt8) (ok : OK s) (hsep : Sep sp)
    (hp : pend s = sp ++ [60, 60] ++ rest) : Reads scanToken s (.obj (.op "<<")) rest :=
  reads_dictOpen s sp rest ok hsep hp
theorem dictClose_form (s : Scanner) (sp rest : List UInt8) (ok : OK s) (hsep : Sep sp)
    (hp : pend s = sp ++ [62, 62] ++ rest) : Reads scanToken s (.obj (.op ">>")) rest :=
  reads_dictClose s sp rest ok hsep hp

/-- separators: `SkipWhiteSpace` consumes exactly white space and comments up to the next token -/
theorem separator_form (sp : List UInt8) (h : Sep sp) (s : Scanner) (fuel : Nat) (rest : List UInt8) (ok : OK s)
    (hp : pend s = sp ++ rest) (ht : TokStart rest) (hf : sp.length + 1 ≤ fuel) :
    Reads (skipWhiteSpace fuel) s () rest :=
  reads_skipWhiteSpace sp h s fuel rest ok hp ht hf

/-! ### every value has a spelling -/

theorem every_int64_has_a_spelling (n : Int) (h1 : minInt64 ≤ n) (h2 : n ≤ maxInt64) : ∃ bs, SpellInt n bs :=
  exists_spellInt n h1 h2
theorem every_string_has_a_hex_spelling (v : List UInt8) : ∃ bs, SpellHex v bs := exists_spellHex v
/-- the library's own serialisation (`String.PS`) is a legal literal-string spelling of the bytes -/
theorem every_string_has_a_literal_spelling (v : List UInt8) : SpellLitString v (Ser.stringPS v) :=
  spellLitString_stringPS v

/-! ### non-vacuity: one text with every form -/

private def sp1 : List UInt8 := [32]
private theorem sep1 : Sep sp1 := .ws 32 [] (by decide) .nil
/-- `" % c<CR><LF>\t"`: a comment ended by CR LF inside white space -/
private def spC : List UInt8 := [32, 37, 32, 99, 13, 10, 9]
private theorem sepC : Sep spC :=
  .ws 32 _ (by decide) (.comment [32, 99] 13 [10, 9]
    (by intro x hx; simp at hx; rcases hx with h | h <;> subst h <;> decide) (Or.inr (Or.inr rfl))
    (.ws 10 _ (by decide) (.ws 9 _ (by decide) .nil)))
/-- `" % f<FF>"`: a comment ended by a form feed -/
private def spF : List UInt8 := [32, 37, 32, 102, 12]
private theorem sepF : Sep spF :=
  .ws 32 _ (by decide) (.comment [32, 102] 12 []
    (by intro x hx; simp at hx; rcases hx with h | h <;> subst h <;> decide) (Or.inr (Or.inl rfl)) .nil)
/-- `"%%T: a<FF>%%+ b<CR><LF>"` at the very start of the input: a DSC comment ended by a form feed, with a
continuation line -/
private def spD : List UInt8 := [37, 37, 84, 58, 32, 97, 12, 37, 37, 43, 32, 98, 13, 10]
private theorem sepD : Sep spD :=
  .comment [37, 84, 58, 32, 97] 12 _
    (by intro x hx; simp at hx; rcases hx with h | h | h | h | h <;> subst h <;> decide) (Or.inr (Or.inl rfl))
    (.comment [37, 43, 32, 98] 13 [10]
      (by intro x hx; simp at hx; rcases hx with h | h | h | h <;> subst h <;> decide) (Or.inr (Or.inr rfl))
      (.ws 10 _ (by decide) .nil))
/-- `" %% n<LF>"`: a `%%` comment that is not at the start of a line -/
private def spE : List UInt8 := [32, 37, 37, 32, 110, 10]
private theorem sepE : Sep spE :=
  .ws 32 _ (by decide) (.comment [37, 32, 110] 10 []
    (by intro x hx; simp at hx; rcases hx with h | h | h <;> subst h <;> decide) (Or.inl rfl) .nil)

/-- `-12` -/
private theorem exInt : SpellInt (-12) [45, 49, 50] :=
  ⟨true, [45], [49, 50], rfl, Or.inr (Or.inr ⟨rfl, rfl⟩), by simp, by decide, by decide, by decide, by decide⟩
/-- `16#fF` -/
private theorem exRadix : SpellRadix 255 [49, 54, 35, 102, 70] :=
  ⟨[49, 54], [102, 70], rfl, by decide, Or.inr rfl, by decide, by decide, by simp,
    by intro d hd; simp at hd; rcases hd with h | h <;> subst h <;> exact ⟨15, by decide, by decide⟩,
    by decide, by decide⟩
/-- `-1.5e+3` -/
private theorem exReal : SpellReal true [49] [53] 3 [45, 49, 46, 53, 101, 43, 51] :=
  ⟨[45], [46, 53], [101, 43, 51], rfl, Or.inr (Or.inr ⟨rfl, rfl⟩), by decide, by decide, Or.inr rfl, Or.inl (by simp),
    Or.inr ⟨101, [43], [51], false, rfl, Or.inl rfl, Or.inr (Or.inl ⟨rfl, rfl⟩), by simp, by decide, by decide⟩,
    Or.inl (by simp)⟩
/-- the binary64 value -1500.0 -/
private theorem exRealVal : realValue true [49] [53] 3 = some 0xC097700000000000 := by decide +kernel

/-- `(a\(b\101(x)\<LF>z<CR><LF>\53!)` denotes `a(bA(x)z<LF>+!` -/
private def exStrText : List UInt8 :=
  [40, 97, 92, 40, 98, 92, 49, 48, 49, 40, 120, 41, 92, 10, 122, 13, 10, 92, 53, 51, 33, 41]
private def exStrVal : List UInt8 := [97, 40, 98, 65, 40, 120, 41, 122, 10, 43, 33]
private theorem exStr : SpellLitString exStrVal exStrText :=
  ⟨[97, 92, 40, 98, 92, 49, 48, 49, 40, 120, 41, 92, 10, 122, 13, 10, 92, 53, 51, 33], rfl,
    .raw 0 97 _ _ (by decide) (by decide) (by decide) (by decide)
    (.esc 0 40 40 _ _ (by decide)
    (.raw 0 98 _ _ (by decide) (by decide) (by decide) (by decide)
    (.oct3 0 49 48 49 _ _ (by decide) (by decide) (by decide)
    (.open_ 0 _ _
    (.raw 1 120 _ _ (by decide) (by decide) (by decide) (by decide)
    (.close 0 _ _
    (.contLF 0 _ _
    (.raw 0 122 _ _ (by decide) (by decide) (by decide) (by decide)
    (.crlf 0 _ _
    (.oct2 0 53 51 _ _ (by decide) (by decide) (by intro c hc; simp at hc; subst hc; decide)
    (.raw 0 33 _ _ (by decide) (by decide) (by decide) (by decide) .nil)))))))))))⟩

/-- `<48 6 5 7>` denotes the bytes 48 65 70 -/
private theorem exHex : SpellHex [0x48, 0x65, 0x70] [60, 52, 56, 32, 54, 32, 53, 32, 55, 62] :=
  ⟨[52, 56, 32, 54, 32, 53, 32, 55], rfl,
    .pair 52 56 4 8 [] _ _ (by decide) (by decide) (by decide)
    (.ws 32 _ _ (by decide)
    (.pair 54 53 6 5 [32] _ _ (by decide) (by decide) (by decide)
    (.ws 32 _ _ (by decide) (.odd 55 7 [] (by decide) (by decide)))))⟩

private theorem wsNil : WS [] := fun _ h => by cases h
private theorem wsSp : WS [32] := by intro c hc; simp at hc; subst hc; decide

/-- `<~87c UR z DZ~>` denotes `Hell`, four zero bytes, `o` -/
private theorem exA85 : SpellA85 [0x48, 0x65, 0x6c, 0x6c, 0, 0, 0, 0, 0x6f]
    [60, 126, 56, 55, 99, 32, 85, 82, 32, 122, 32, 68, 90, 126, 62] :=
  ⟨[56, 55, 99, 32, 85, 82, 32, 122, 32], [0x48, 0x65, 0x6c, 0x6c, 0, 0, 0, 0], [68, 90], [0x6f], rfl,
    .group 56 55 99 85 82 0x48 0x65 0x6c 0x6c [] [] [32] [] _ _ (by decide) (by decide) (by decide) (by decide) (by decide)
      wsNil wsNil wsSp wsNil (by decide)
      (.ws 32 _ _ (by decide) (.z _ _ (.ws 32 _ _ (by decide) .nil))),
    .one 68 90 66 98 59 0x6f [] [] (by decide) (by decide) (by decide) (by decide) (by decide) wsNil wsNil
      (by decide), rfl⟩

/-- the written objects: `-12`, `16#fF`, `-1.5e+3`, `/nm`, `add`, `[`, `]`, `{`, `<<`, `>>`, `}`, the three strings, `/` -/
private def exItems : List Item := [
  ⟨spD, [45, 49, 50], .obj (.int (-12)), true⟩,
  ⟨spE, [49, 54, 35, 102, 70], .obj (.int 255), true⟩,
  ⟨spF, [45, 49, 46, 53, 101, 43, 51], .obj (.real 0xC097700000000000), true⟩,
  ⟨spC, 47 :: [110, 109], .obj (.name (bytesToString [110, 109])), true⟩,
  ⟨sp1, [97, 100, 100], .obj (.op (bytesToString [97, 100, 100])), true⟩,
  ⟨[], [91], .obj (.op (bytesToString [91])), false⟩,
  ⟨[], [93], .obj (.op (bytesToString [93])), false⟩,
  ⟨[], [123], .obj (.op (bytesToString [123])), false⟩,
  ⟨[], [60, 60], .obj (.op "<<"), false⟩,
  ⟨[], [62, 62], .obj (.op ">>"), false⟩,
  ⟨[], [125], .obj (.op (bytesToString [125])), false⟩,
  ⟨[], exStrText, .str exStrVal, false⟩,
  ⟨[], [60, 52, 56, 32, 54, 32, 53, 32, 55, 62], .str [0x48, 0x65, 0x70], false⟩,
  ⟨spC, [60, 126, 56, 55, 99, 32, 85, 82, 32, 122, 32, 68, 90, 126, 62], .str [0x48, 0x65, 0x6c, 0x6c, 0, 0, 0, 0, 0x6f], false⟩,
  ⟨[], 47 :: [], .obj (.name (bytesToString [])), true⟩]

private theorem exAll : ∀ i ∈ exItems, Sep i.sep ∧ Spell i.tok i.bs i.nd := by
  intro i hi
  simp only [exItems, List.mem_cons, List.not_mem_nil, or_false] at hi
  rcases hi with h | h | h | h | h | h | h | h | h | h | h | h | h | h | h <;> subst h
  · exact ⟨sepD, .int _ _ exInt⟩
  · exact ⟨sepE, .radix _ _ exRadix⟩
  · exact ⟨sepF, .real _ _ _ _ _ _ exReal exRealVal⟩
  · exact ⟨sepC, .litName _ (by decide)⟩
  · exact ⟨sep1, .execName _ (execName_of_first 97 [100, 100] (by decide) (by decide) (by decide) (by decide) (by decide))⟩
  · exact ⟨.nil, .single 91 (by decide)⟩
  · exact ⟨.nil, .single 93 (by decide)⟩
  · exact ⟨.nil, .single 123 (by decide)⟩
  · exact ⟨.nil, .dictOpen⟩
  · exact ⟨.nil, .dictClose⟩
  · exact ⟨.nil, .single 125 (by decide)⟩
  · exact ⟨.nil, .litString _ _ exStr⟩
  · exact ⟨.nil, .hexString _ _ exHex⟩
  · exact ⟨sepC, .a85String _ _ exA85⟩
  · exact ⟨.nil, .litName _ (by decide)⟩

/-- what follows the last object: `(` (a delimiter) and more -/
private def exRest : List UInt8 := [40, 120]

private theorem exChained : Chained exItems exRest := by
  refine ⟨fun _ => ⟨32, _, rfl, by decide⟩, fun _ => ⟨32, _, rfl, by decide⟩, fun _ => ⟨32, _, rfl, by decide⟩,
    fun _ => ⟨32, _, rfl, by decide⟩, fun _ => ⟨91, _, rfl, by decide⟩, ?_⟩
  have no : ∀ {p : Prop}, false = true → p := fun h => by cases h
  exact ⟨no, no, no, no, no, no, no, no, no, fun _ => ⟨40, _, rfl, by decide⟩, trivial⟩

/-- the theorem applied: 15 tokens, then `(x` is left -/
example : (scanN 15 (fresh (text exItems ++ exRest))).1 = .ok (exItems.map (·.tok)) ∧
    pend (scanN 15 (fresh (text exItems ++ exRest))).2 = exRest :=
  lexical_forms_read_back_fresh exItems exRest exAll exChained

/-- the bytes of that text: `%%T: a<FF>%%+ b<CR><LF>-12 %% n<LF>16#fF % f<FF>-1.5e+3 % c<CR><LF><TAB>/nm add[]{<<>>}(a\(b\101(x)\<LF>z<CR><LF>\53!)<48 6 5 7> % c<CR><LF><TAB><~87c UR z DZ~>/(x` -/
example : text exItems ++ exRest =
    [37, 37, 84, 58, 32, 97, 12, 37, 37, 43, 32, 98, 13, 10, 45, 49, 50, 32, 37, 37, 32, 110, 10,
     49, 54, 35, 102, 70, 32, 37, 32, 102, 12, 45, 49, 46, 53, 101, 43, 51,
     32, 37, 32, 99, 13, 10, 9, 47, 110, 109, 32, 97, 100, 100, 91, 93, 123, 60, 60, 62, 62, 125,
     40, 97, 92, 40, 98, 92, 49, 48, 49, 40, 120, 41, 92, 10, 122, 13, 10, 92, 53, 51, 33, 41,
     60, 52, 56, 32, 54, 32, 53, 32, 55, 62,
     32, 37, 32, 99, 13, 10, 9, 60, 126, 56, 55, 99, 32, 85, 82, 32, 122, 32, 68, 90, 126, 62, 47, 40, 120] := by decide

/-- independent check: the model evaluated on the same bytes -/
def showTok : Tok → String
  | .str b => "str" ++ toString (b.map UInt8.toNat)
  | .obj (.int v) => "int " ++ toString v
  | .obj (.real b) => "real 0x" ++ String.ofList (Nat.toDigits 16 b.toNat)
  | .obj (.name n) => "/" ++ n
  | .obj (.op n) => "op " ++ n
  | _ => "?"

/--
info: (["int -12", "int 255", "real 0xc097700000000000", "/nm", "op add", "op [", "op ]", "op {", "op <<", "op >>", "op }",
  "str[97, 40, 98, 65, 40, 120, 41, 122, 10, 43, 33]", "str[72, 101, 112]", "str[72, 101, 108, 108, 0, 0, 0, 0, 111]",
  "/"],
 [40, 120])
-/
#guard_msgs in
#eval
  let p := scanN 15 (fresh (text exItems ++ exRest))
  (match p.1 with | .ok ts => ts.map showTok | .error _ => ["error"], pend p.2)

/-! ### former finding (fixed): a form feed ends a comment

PLRM 3.3.1 (Comments): "The comment consists of all characters between the % and the next newline or form
feed".  `skipToEOL` used to end a comment only at LF or CR, so in `%a<FF>42<LF>7 ` the number 42 was
swallowed.  Fixed in the library (commit 5fb0286) and in the model; `Sep` has FF-terminated comments. -/

/-- info: ["int 42", "int 7"] -/
#guard_msgs in
#eval
  let p := scanN 2 (fresh [37, 97, 12, 52, 50, 10, 55, 32])
  (match p.1 with | .ok ts => ts.map showTok | .error _ => ["error"])

/-! ### former finding (fixed): a form feed ends a `%%Key: value` comment at the start of a line too

At column 0 a comment that begins with `%%` and has a key is read by `readCommentValue` (`skipBlanks`,
`readLine`), which used to stop at LF and CR only: `%%T: a<FF>42<LF>7 ` at the start of the input gave 7
(42 became part of the DSC value `a42`), while the same bytes after a space gave 42 and 7.  Fixed in the
library ("fix: a form feed also ends a structured comment line") and in the model; `Sep` has no
restriction on `%%` comments any more.  Now both give 42 and 7, and the DSC value is `a`. -/

/-- info: (["int 42", "int 7"], [("T", "a")], ["int 42", "int 7"]) -/
#guard_msgs in
#eval
  let p := scanN 2 (fresh [37, 37, 84, 58, 32, 97, 12, 52, 50, 10, 55, 32])
  let q := scanN 2 (fresh [32, 37, 37, 84, 58, 32, 97, 12, 52, 50, 10, 55, 32])
  (match p.1 with | .ok ts => ts.map showTok | .error _ => ["error"], p.2.dsc,
   match q.1 with | .ok ts => ts.map showTok | .error _ => ["error"])

#print axioms lexical_forms_read_back
#print axioms lexical_forms_read_back_fresh
#print axioms int_form
#print axioms radix_form
#print axioms real_form
#print axioms litString_form
#print axioms hexString_form
#print axioms a85String_form
#print axioms litName_form
#print axioms execName_form
#print axioms delimiter_form
#print axioms dictOpen_form
#print axioms dictClose_form
#print axioms separator_form
#print axioms every_int64_has_a_spelling
#print axioms every_string_has_a_hex_spelling
#print axioms every_string_has_a_literal_spelling

end PsVerif.Props.C04Forms
