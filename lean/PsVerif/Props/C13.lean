import PsVerif.Proofs.IoErr
/-!
# C13 (reader half) — a failure of the underlying reader is reported, never swallowed

"If the underlying reader fails at any byte offset, the reading call returns an error; no
fault is swallowed and none causes a panic."  Mechanisms: the first read error is remembered
and returned by every later refill; non-EOF scanner errors abort execution; only clean EOF
ends it normally.

`Model.execute fuel m s input (some t)` is `Interpreter.Execute` on a reader that delivers
the bytes `input` and then fails with the (non-EOF) error `t`.  All theorems hold for every
program `input` (hence every fault position), every start state, every budget `m` and every
fuel.  Proofs: `Proofs/IoErr.lean`.
-/
namespace PsVerif.Props.C13
open PsVerif.Model PsVerif.Proofs.IoErr

/-- **C13, reader half.**  If at the end of `Execute` the scanner has hit the read failure
(its sticky error is set) and no structured comment (`%%Key: value`) has been recorded, the
call returns exactly that read error (in particular neither `nil` nor the model's fuel
markers). -/
theorem io_fault_surfaces {fuel m : Nat} {s s' : State} {input : List UInt8} {t : String} {r : Res}
    (h : execute fuel m s input (some t) = (s', r))
    (hhit : s'.scanner.err ≠ none) (hdsc : s'.scanner.dsc = []) :
    r = .err (.io t) :=
  PsVerif.Proofs.IoErr.io_fault_surfaces h hhit hdsc

/-- the same with the hit stated as in the model: `err = some (.io t)` -/
theorem io_fault_surfaces' {fuel m : Nat} {s s' : State} {input : List UInt8} {t : String} {r : Res}
    (h : execute fuel m s input (some t) = (s', r))
    (hhit : s'.scanner.err = some (.io t)) (hdsc : s'.scanner.dsc = []) :
    r ≠ .ok ∧ r ≠ .fuel ∧ r = .err (.io t) := by
  have := PsVerif.Proofs.IoErr.io_fault_surfaces h (by rw [hhit]; simp) hdsc
  subst this
  simp

/-- **only clean EOF or `stop` end `Execute` normally; with a failing reader there is no clean
EOF**: a `nil` result means that the program executed `stop` (the result of the scanning loop
is `errStop`). -/
theorem ok_only_by_stop {fuel m : Nat} {s s' : State} {input : List UInt8} {t : String}
    (h : execute fuel m s input (some t) = (s', .ok)) :
    (scanRun fuel m (startState s input (some t))).2 = .err .stop :=
  PsVerif.Proofs.IoErr.ok_only_by_stop h

/-- a `nil` result after the failure has been hit is possible only through the look-ahead of
a structured comment (see the finding below) -/
theorem ok_after_hit_has_dsc {fuel m : Nat} {s s' : State} {input : List UInt8} {t : String}
    (h : execute fuel m s input (some t) = (s', .ok)) (hhit : s'.scanner.err ≠ none) :
    s'.scanner.dsc ≠ [] :=
  PsVerif.Proofs.IoErr.ok_after_hit_has_dsc h hhit

/-- the remembered error is the reader's error, never anything else (in particular never
`io.EOF`) -/
theorem final_scanner_err {fuel m : Nat} {s s' : State} {input : List UInt8} {t : String} {r : Res}
    (h : execute fuel m s input (some t) = (s', r)) :
    s'.scanner.err = none ∨ s'.scanner.err = some (.io t) :=
  PsVerif.Proofs.IoErr.final_scanner_err h

/-- `Execute` itself passes on every result that is not `exit`, `stop` or `nil`; the
corresponding one-step lemmas for the 13 functions of the interpreter are
`execOne_propagates`, `execBody_propagates`, `execTail_builtin_propagates`,
`execTail_handler_propagates`, `execTail_proc_propagates`, `runBody_propagates`,
`forLoop_propagates`, `repeatLoop_propagates`, `loopLoop_propagates`, `forallArr_propagates`,
`forallStr_propagates`, `forallDict_propagates`, `scanLoop_scan_propagates`,
`scanLoop_exec_propagates`, `scanRun_propagates`, `eexec_propagates`,
`eexec_begin_propagates` in `Proofs/IoErr.lean`. -/
theorem io_propagates_execute {fuel m : Nat} {s s1 : State} {input : List UInt8} {fault : Option String} {t : String}
    (h : scanRun fuel m (startState s input fault) = (s1, .err (.io t))) :
    execute fuel m s input fault = ({ s1 with dsc := s1.dsc ++ s1.scanner.dsc }, .err (.io t)) :=
  execute_propagates h (io_fatalRes t)

/-! ### non-vacuity -/

/-- `1 2 add ` and then the read failure: the sum is computed, the next token read hits the
failure, `Execute` returns it -/
def addProg : List UInt8 := [49, 32, 50, 32, 97, 100, 100, 32]

set_option maxRecDepth 100000 in
theorem addProg_run :
    (execute 200 0 newInterpreter addProg (some "boom")).2 = .err (.io "boom") ∧
    (execute 200 0 newInterpreter addProg (some "boom")).1.scanner.err = some (.io "boom") ∧
    (execute 200 0 newInterpreter addProg (some "boom")).1.scanner.dsc = [] ∧
    (execute 200 0 newInterpreter addProg (some "boom")).1.vm.stack = [.int 3] := by decide +kernel

/-- the hypotheses of `io_fault_surfaces` hold for this run -/
example : ∃ s' r, execute 200 0 newInterpreter addProg (some "boom") = (s', r) ∧
    s'.scanner.err ≠ none ∧ s'.scanner.dsc = [] ∧ r = .err (.io "boom") := by
  refine ⟨(execute 200 0 newInterpreter addProg (some "boom")).1,
    (execute 200 0 newInterpreter addProg (some "boom")).2, rfl, ?_, addProg_run.2.2.1, addProg_run.1⟩
  have := addProg_run.2.1
  intro h
  rw [h] at this
  cases this

/-- a fault in the middle of a token: `1 2 add` and then the failure — the name `add` is not
delivered, the error is -/
def addProgCut : List UInt8 := [49, 32, 50, 32, 97, 100, 100]

set_option maxRecDepth 100000 in
example :
    (execute 200 0 newInterpreter addProgCut (some "boom")).2 = .err (.io "boom") ∧
    (execute 200 0 newInterpreter addProgCut (some "boom")).1.vm.stack = [.int 2, .int 1] := by decide +kernel

/-! ### FINDING: the look-ahead after a structured comment drops the error

`/a {stop} def⏎%%K: v⏎a ` and then the read failure.  After the comment value the scanner
looks three bytes ahead for `%%+`; it gets `a`, ` ` and the failure, which `PeekN` drops.
The token `a` is scanned from the peek buffer, `stop` ends the run: `Execute` returns `nil`
although the failing read has been issued (sticky error set).  The real Go code behaves in
the same way (checked with a reader that returns the bytes and then a non-EOF error).  All
bytes the program consumed lie before the fault position, so this is a look-ahead artefact,
not a loss of data; but it shows that the hypothesis `dsc = []` in `io_fault_surfaces` cannot
be dropped. -/
def lookaheadProg : List UInt8 :=
  [47, 97, 32, 123, 115, 116, 111, 112, 125, 32, 100, 101, 102, 10, 37, 37, 75, 58, 32, 118, 10, 97, 32]

set_option maxRecDepth 100000 in
theorem lookahead_swallows :
    (execute 200 0 newInterpreter lookaheadProg (some "boom")).2 = .ok ∧
    (execute 200 0 newInterpreter lookaheadProg (some "boom")).1.scanner.err = some (.io "boom") ∧
    (execute 200 0 newInterpreter lookaheadProg (some "boom")).1.scanner.dsc = [("K", "v")] := by decide +kernel

/-- hence the ideal statement "sticky error set ⇒ result ≠ `nil`" is false -/
theorem ideal_statement_false :
    ¬ (∀ (fuel m : Nat) (s s' : State) (input : List UInt8) (t : String) (r : Res),
        execute fuel m s input (some t) = (s', r) → s'.scanner.err = some (.io t) → r ≠ .ok) := by
  intro h
  exact h 200 0 newInterpreter _ lookaheadProg "boom" _ rfl lookahead_swallows.2.1 lookahead_swallows.1

#print axioms io_fault_surfaces
#print axioms io_fault_surfaces'
#print axioms ok_only_by_stop
#print axioms ok_after_hit_has_dsc
#print axioms final_scanner_err
#print axioms io_propagates_execute
#print axioms addProg_run
#print axioms lookahead_swallows
#print axioms ideal_statement_false
#print axioms PsVerif.Proofs.IoErr.allGood
#print axioms PsVerif.Proofs.IoErr.tr_scanToken_clean
#print axioms PsVerif.Proofs.IoErr.eexec_propagates

end PsVerif.Props.C13
