import PsVerif.Proofs.AFM
/-!
# C15 – AFM metrics: write/read round trip and closure

"For metrics whose numbers are integral and in range and whose names are single tokens, writing and
re-reading returns equal metrics: every glyph's width, bounding box and ligatures, the code assigned
to each glyph, kerning pairs in order, and all header fields including version and notice; and the
reader understands the same data when an independent writer lays it out with different spacing,
field order and line ends.  For any input the reader accepts, one write/read cycle preserves all
names and text fields and changes numbers only by the writer's rounding to integers, and a second
cycle changes nothing."

Model: `PsVerif.Model.AFM` (`read`, `write`); proofs: `PsVerif.Proofs.AFM`.

* `Representable m` (decidable): `WF m` – glyph and ligature names are single tokens without `;`,
  `FontName` is empty or one token, `FullName`/`Version`/`Notice` are words joined by single spaces,
  widths and kerning adjustments are 16-bit integers, the glyph and ligature maps are sorted
  association lists, the encoding has 256 entries, names every glyph at most once and names only
  glyphs – and every header number and bounding box coordinate is the float of an integer of
  magnitude below 2^53.
* `roundM m`: what one cycle does to the numbers – header numbers rounded to the nearest integer,
  ties to even (`%.0f`), `ItalicAngle` kept (shortest round-trip digits), box corners `floor`/`ceil`;
  everything else is untouched (`roundM_keeps`).

Findings (confirmed against the Go code):
* (fixed in the repository, commit 1d80b4a) With `bufio.Scanner`'s default limit of 64 kB per line a
  text the reader accepted could be written back as a text the reader rejected: a character metrics
  line of 64008 bytes with 8000 ligatures `L xxx d;` is written as a line of 80030 bytes ("token too
  long").  `Read` now calls `scanner.Buffer(nil, math.MaxInt)`; the model has no limit and the
  theorems below need no hypothesis on line lengths.
* The *text* of the second cycle can differ from the text of the first in the `FontBBox` line (not in
  anything the reader looks at): with `B 0.5 0.5 -0.5 -0.5` for one glyph and `B 10 10 20 20` for
  another the first `Write` prints `FontBBox 0 0 20 20`, the second `FontBBox 10 10 20 20`, because
  the rounded box `0 0 -0 -0` counts as empty in `rect.Rect.Extend`.  So
  `write (read (write (read t))) = write (read t)` does not hold; what holds, and is proved, is that
  the second cycle returns the same metrics value.
-/
namespace PsVerif.Props.C15
open PsVerif.Base PsVerif.Base.SoftFloat PsVerif.Model PsVerif.Model.AFM PsVerif.Proofs.AFM

/-- C15, first half: reading what `Write` wrote for a representable value gives the value back –
every glyph's width, box and ligatures, the encoding, the kerning pairs in order and all header
fields. -/
theorem afm_write_read (m : Metrics) (h : Representable m) : AFM.read (write m) = .ok m :=
  readCore_write_representable m h

/-- the same with `\r\n` line ends -/
theorem afm_write_read_crlf (m : Metrics) (h : Representable m) : AFM.read (writeCRLF m) = .ok m := by
  rw [read_eq, readCore_writeCRLF m h.1]
  exact readCore_write_representable m h

/-- C15, "independent writer": a text whose lines carry the same tokens as the lines `Write` prints –
whatever white space separates them (blanks, tabs, Unicode spaces, several of them, trailing ones),
`\n`, `\r\n` or `\r` line ends, empty `;` groups or a missing final `;`, and the glyph lines in any
order `es` – is read to the same value; leading white space (an indented `EndCharMetrics` included)
makes no difference either.  (`SameTokens` compares, line by line, `strings.Fields` of
the line and of its `;`-separated groups.)  Not covered: another order of the header keys or of the
`C`/`WX`/`N`/`B` groups inside a line (exercised by the differential tests only). -/
theorem afm_independent_layout (m : Metrics) (h : Representable m) (es : List (Bytes × Glyph))
    (hp : es.Perm m.glyphs) (t : Bytes) (hs : SameTokens (scanLines t) (linesInOrder m es)) :
    AFM.read t = .ok m := by
  rw [read_eq]
  unfold readCore
  rw [readLines_tokens _ _ _ hs, readLines_inOrder m h.1 es hp, roundM_of_representable m h]
  rfl

/-- the reader is blind to white space in general: two texts whose lines carry the same tokens give
the same result, accepted or not -/
theorem afm_layout_blind (t1 t2 : Bytes) (h : SameTokens (scanLines t1) (scanLines t2)) :
    AFM.read t1 = AFM.read t2 := readCore_tokens t1 t2 h

/-- non-vacuity: the value of the package's own round-trip test (four glyphs, a ligature, a kerning
pair, two encoded glyphs) with a version and a notice is in the domain -/
example : Representable exampleMetrics := exampleMetrics_representable

example : AFM.read (write exampleMetrics) = .ok exampleMetrics :=
  afm_write_read exampleMetrics exampleMetrics_representable

instance decSameTokens : (a b : List Bytes) → Decidable (SameTokens a b)
  | [], [] => isTrue trivial
  | l1 :: r1, l2 :: r2 => by
    unfold SameTokens
    exact @instDecidableAnd _ _ inferInstance (decSameTokens r1 r2)
  | [], _ :: _ => isFalse (by simp [SameTokens])
  | _ :: _, [] => isFalse (by simp [SameTokens])

/-- another layout of the example: glyph lines in reverse name order, every blank replaced by a tab
and a blank, `\r\n` line ends -/
def exampleOtherLayout : Bytes :=
  unlinesCRLF ((linesInOrder exampleMetrics exampleMetrics.glyphs.reverse).map
    (fun l => l.flatMap (fun b => if b = 32 then [9, 32] else [b])))

/-- non-vacuity of `afm_independent_layout` -/
example : AFM.read exampleOtherLayout = .ok exampleMetrics :=
  afm_independent_layout exampleMetrics exampleMetrics_representable exampleMetrics.glyphs.reverse
    (List.reverse_perm _) exampleOtherLayout (by decide +kernel)

/-! ### an indented `EndCharMetrics` line ends the section (reader fix) -/

/-- the line `EndCharMetrics` ends the character metrics section whatever white space precedes it
(ASCII white space or any Unicode space rune, `WhiteSpace`), in every state -/
theorem indented_EndCharMetrics (st : St) (ws : Bytes) (h : WhiteSpace ws) :
    readLine st (ws ++ kEndCharMetrics) = .ok { st with charMetrics := false } := by
  unfold readLine
  rw [fields_whiteSpace ws _ h]
  have : isEndCharMetrics (fields kEndCharMetrics) = true := by decide
  rw [this]; rfl

/-- the special case of blanks, tabs and other ASCII white space -/
theorem indented_EndCharMetrics_ascii (st : St) (ws : Bytes) (h : ∀ b ∈ ws, isAsciiSpace b = true) :
    readLine st (ws ++ kEndCharMetrics) = .ok { st with charMetrics := false } :=
  indented_EndCharMetrics st ws (whiteSpace_of_ascii ws h)

/-- more generally, indenting a line does not change how it is read -/
theorem indented_line (st : St) (ws l : Bytes) (h : WhiteSpace ws) (h59 : 59 ∉ ws) :
    readLine st (ws ++ l) = readLine st l := by
  apply readLine_tokens
  · exact fields_whiteSpace ws l h
  · unfold groups
    cases hs : splitOn 59 l with
    | nil => exact absurd hs (splitOn_ne_nil 59 l)
    | cons p ps =>
      have : splitOn 59 (ws ++ l) = (ws ++ p) :: ps := by
        clear h
        induction ws with
        | nil => simpa using hs
        | cons b bs ih =>
          have hb : b ≠ 59 := fun e => h59 (by simp [e])
          have hbs : 59 ∉ bs := fun e => h59 (by simp [e])
          simp [splitOn, hb, ih hbs]
      rw [this, List.map_cons, List.map_cons, fields_whiteSpace ws p h]

/-- a small AFM text: two glyphs, a ligature, one kerning pair -/
def smallText : Bytes :=
  [83, 116, 97, 114, 116, 70, 111, 110, 116, 77, 101, 116, 114, 105, 99, 115, 32, 52, 46, 49, 10, 70, 111, 110, 116, 78, 97, 109, 101, 32, 84, 10, 70, 117, 108, 108, 78, 97, 109, 101, 32, 84, 32, 82, 101, 103, 117, 108, 97, 114, 10, 83, 116, 97, 114, 116, 67, 104, 97, 114, 77, 101, 116, 114, 105, 99, 115, 32, 50, 10, 67, 32, 54, 53, 32, 59, 32, 87, 88, 32, 53, 48, 48, 32, 59, 32, 78, 32, 65, 32, 59, 32, 66, 32, 48, 32, 48, 32, 49, 48, 32, 49, 48, 32, 59, 32, 76, 32, 66, 32, 65, 66, 32, 59, 10, 67, 32, 54, 54, 32, 59, 32, 87, 88, 32, 54, 48, 48, 32, 59, 32, 78, 32, 66, 32, 59, 32, 66, 32, 48, 32, 45, 53, 32, 50, 48, 32, 50, 48, 32, 59, 10, 69, 110, 100, 67, 104, 97, 114, 77, 101, 116, 114, 105, 99, 115, 10, 83, 116, 97, 114, 116, 75, 101, 114, 110, 68, 97, 116, 97, 10, 83, 116, 97, 114, 116, 75, 101, 114, 110, 80, 97, 105, 114, 115, 32, 49, 10, 75, 80, 88, 32, 65, 32, 66, 32, 45, 50, 48, 10, 69, 110, 100, 75, 101, 114, 110, 80, 97, 105, 114, 115, 10, 69, 110, 100, 75, 101, 114, 110, 68, 97, 116, 97, 10, 69, 110, 100, 70, 111, 110, 116, 77, 101, 116, 114, 105, 99, 115, 10]

/-- the same text with every line indented by two blanks -/
def smallTextIndented : Bytes := unlines ((scanLines smallText).map (fun l => [32, 32] ++ l))

/-- the indented text reads to the same metrics as the plain one; two glyphs and the kerning pair are
there (before the fix the indented `EndCharMetrics` was not seen and the kerning data was lost) -/
example : AFM.read smallTextIndented = AFM.read smallText ∧
    (match AFM.read smallTextIndented with
     | .ok m => decide (m.glyphs.length = 2) && decide (m.kern = [⟨[65], [66], -20⟩])
     | _ => false) = true := by decide +kernel

/-! ### the three line-end conventions (reader fix: `\n`, `\r\n` and a bare `\r`) -/

/-- the same as `afm_write_read_crlf` with every `\n` of the written text replaced by a bare `\r`
(classic Mac OS line ends) -/
theorem afm_write_read_cr (m : Metrics) (h : Representable m) : AFM.read (writeCR m) = .ok m := by
  rw [read_eq, readCore_writeCR m h.1]
  exact readCore_write_representable m h

/-- lines without `\r` and `\n`, each followed by a line end of its own choice (`IsTerm`: `\n`,
`\r\n` or `\r`; `joinWith` pairs the two lists), are split back into exactly those lines.  The one
exception is excluded by `NoMerge`: a bare `\r` followed by an *empty* line that is ended by `\n`
is the single line end `\r\n` – in Go as well; without empty lines there is no exception
(`scanLines_line_ends_nonempty`). -/
theorem scanLines_line_ends (ls ts : List Bytes) (hlen : ls.length = ts.length)
    (hl : ∀ l ∈ ls, 10 ∉ l ∧ 13 ∉ l) (ht : ∀ t ∈ ts, IsTerm t) (hnm : NoMerge ls ts) :
    scanLines (joinWith ls ts) = ls :=
  scanLines_joinWith ls ts hlen hl ht hnm

theorem scanLines_line_ends_nonempty (ls ts : List Bytes) (hlen : ls.length = ts.length)
    (hl : ∀ l ∈ ls, 10 ∉ l ∧ 13 ∉ l ∧ l ≠ []) (ht : ∀ t ∈ ts, IsTerm t) :
    scanLines (joinWith ls ts) = ls :=
  scanLines_joinWith ls ts hlen (fun l h => ⟨(hl l h).1, (hl l h).2.1⟩) ht
    (noMerge_of_nonempty ls ts (fun l h => (hl l h).2.2))

/-- the reader does not see which line ends a text uses: the same lines with any two choices of
line ends, also mixed ones, are read alike -/
theorem afm_line_ends_blind (ls ts1 ts2 : List Bytes) (h1 : ls.length = ts1.length)
    (h2 : ls.length = ts2.length) (hl : ∀ l ∈ ls, 10 ∉ l ∧ 13 ∉ l)
    (ht1 : ∀ t ∈ ts1, IsTerm t) (ht2 : ∀ t ∈ ts2, IsTerm t)
    (hn1 : NoMerge ls ts1) (hn2 : NoMerge ls ts2) :
    AFM.read (joinWith ls ts1) = AFM.read (joinWith ls ts2) := by
  rw [read_eq, read_eq]
  unfold readCore
  rw [scanLines_joinWith ls ts1 h1 hl ht1 hn1, scanLines_joinWith ls ts2 h2 hl ht2 hn2]

/-- in particular the three pure conventions: `\n` only, `\r\n` only, `\r` only -/
theorem afm_line_ends_blind_pure (ls : List Bytes) (hl : ∀ l ∈ ls, 10 ∉ l ∧ 13 ∉ l) :
    AFM.read (unlinesCRLF ls) = AFM.read (unlines ls) ∧ AFM.read (unlinesCR ls) = AFM.read (unlines ls) := by
  simp only [read_eq, readCore, scanLines_unlines ls hl, scanLines_unlinesCRLF ls hl, scanLines_unlinesCR ls hl,
    and_self]

/-- the small text with bare `\r` line ends -/
def smallTextCR : Bytes := smallText.map (fun b => if b = 10 then 13 else b)

/-- with `\r` line ends the small text reads to the same metrics as with `\n`: two glyphs and the
kerning pair (before the fix the whole file was one line and gave empty metrics) -/
example : AFM.read smallTextCR = AFM.read smallText ∧
    (match AFM.read smallTextCR with
     | .ok m => decide (m.glyphs.length = 2) && decide (m.kern = [⟨[65], [66], -20⟩])
     | _ => false) = true := by decide +kernel

/-- the end of the text, as in Go: `"a\n"`, `"a"`, `"a\r"`, `"a\r\n"`, `"a\n\n"`, `"\r\r\n"`, `""` -/
example : scanLines [97, 10] = [[97]] ∧ scanLines [97] = [[97]] ∧ scanLines [97, 13] = [[97]] ∧
    scanLines [97, 13, 10] = [[97]] ∧ scanLines [97, 10, 10] = [[97], []] ∧
    scanLines [13, 13, 10] = [[], []] ∧ scanLines [] = [] := by decide +kernel

/-- the excluded combination really is different: `a`, `\r`, empty line, `\n` is one line -/
example : scanLines (joinWith [[97], []] [[13], [10]]) = [[97]] := by decide +kernel

/-! ### `Write` does not depend on the order in which the glyphs are listed (`FontBBoxPDF` fix) -/

/-- `FontBBoxPDF` visits the glyphs in ascending order of their names: two lists of the same glyphs
(distinct names) give the same box -/
theorem fontBBox_order_independent (m1 m2 : Metrics) (hp : m1.glyphs.Perm m2.glyphs)
    (hnd : (m2.glyphs.map (·.1)).Nodup) : fontBBox m1 = fontBBox m2 := by
  unfold fontBBox
  rw [sortByName_perm m1.glyphs m2.glyphs hp hnd]

/-- two metrics values that differ only in the order of their glyph lists (the same map) are written
to the same text: the `FontBBox` line, the glyph count, the order and the content of the glyph lines -/
theorem write_order_independent (m1 m2 : Metrics) (hp : m1.glyphs.Perm m2.glyphs)
    (hnd : (m2.glyphs.map (·.1)).Nodup) (hrest : { m2 with glyphs := m1.glyphs } = m1) :
    write m1 = write m2 := by
  rw [← hrest]
  exact write_perm m2 m1.glyphs hp hnd

/-- for the values the reader returns (sorted lists) `fontBBox` is the plain fold over the list -/
theorem fontBBox_of_sorted (m : Metrics) (h : Sorted m.glyphs) :
    fontBBox m = (m.glyphs.map (fun g => g.2.bbox)).foldl Rect.extend Rect.zero := by
  unfold fontBBox
  rw [sortByName_of_sorted m.glyphs h]

/-- three degenerate boxes: `A: B 1 1 0 0`, `B: B 0 0 -1 -1`, `C: B 5 5 6 6` -/
def boxGlyphs : List (Bytes × Glyph) :=
  [([65], { widthX := 0, bbox := ⟨ofInt 1, ofInt 1, ofInt 0, ofInt 0⟩, ligs := [] }),
   ([66], { widthX := 0, bbox := ⟨ofInt 0, ofInt 0, ofInt (-1), ofInt (-1)⟩, ligs := [] }),
   ([67], { widthX := 0, bbox := ⟨ofInt 5, ofInt 5, ofInt 6, ofInt 6⟩, ligs := [] })]

/-- the same glyphs listed as C, A, B -/
def boxGlyphs' : List (Bytes × Glyph) := [boxGlyphs[2], boxGlyphs[0], boxGlyphs[1]]

/-- in name order A, B, C the union of A and B is `0 0 0 0`, which counts as empty, so the result is
C's box `5 5 6 6` – for both list orders (folding C, A, B in list order would give `0 0 6 6`) -/
example :
    fontBBox { emptyMetrics with glyphs := boxGlyphs } = ⟨ofInt 5, ofInt 5, ofInt 6, ofInt 6⟩ ∧
    fontBBox { emptyMetrics with glyphs := boxGlyphs' } = ⟨ofInt 5, ofInt 5, ofInt 6, ofInt 6⟩ ∧
    (boxGlyphs'.map (fun g => g.2.bbox)).foldl Rect.extend Rect.zero = ⟨ofInt 0, ofInt 0, ofInt 6, ofInt 6⟩ := by
  decide +kernel

/-- what a cycle keeps: all names and text fields, the encoding, the kerning pairs, the flag, and of
each glyph its name, width and ligatures -/
theorem roundM_keeps (m : Metrics) :
    (roundM m).fontName = m.fontName ∧ (roundM m).fullName = m.fullName ∧
    (roundM m).version = m.version ∧ (roundM m).notice = m.notice ∧
    (roundM m).isFixedPitch = m.isFixedPitch ∧ (roundM m).encoding = m.encoding ∧
    (roundM m).kern = m.kern ∧
    (roundM m).glyphs.map (fun e => (e.1, e.2.widthX, e.2.ligs)) =
      m.glyphs.map (fun e => (e.1, e.2.widthX, e.2.ligs)) := by
  refine ⟨rfl, rfl, rfl, rfl, rfl, rfl, rfl, ?_⟩
  simp [roundM, roundE, roundG, Function.comp_def]

/-- what a cycle does to the numbers -/
theorem roundM_numbers (m : Metrics) :
    (roundM m).capHeight = roundF m.capHeight ∧ (roundM m).xHeight = roundF m.xHeight ∧
    (roundM m).ascent = roundF m.ascent ∧ (roundM m).descent = roundF m.descent ∧
    (roundM m).underlinePosition = roundF m.underlinePosition ∧
    (roundM m).underlineThickness = roundF m.underlineThickness ∧
    (roundM m).italicAngle = roundI m.italicAngle ∧
    (roundM m).glyphs.map (fun e => e.2.bbox) =
      m.glyphs.map (fun e => (⟨floorF e.2.bbox.llx, floorF e.2.bbox.lly, ceilF e.2.bbox.urx,
        ceilF e.2.bbox.ury⟩ : Rect)) := by
  refine ⟨rfl, rfl, rfl, rfl, rfl, rfl, rfl, ?_⟩
  simp [roundM, roundE, roundG, Function.comp_def]

/-- C15, second half: for every text the reader accepts, the value read is well-formed; writing and
re-reading it gives the value with its numbers rounded (`roundM`, which keeps all names and texts:
`roundM_keeps`, and rounds as `roundM_numbers` says); writing and re-reading that value gives that
value again, and rounding twice is rounding once. -/
theorem afm_closure (t : Bytes) (m : Metrics) (h : AFM.read t = .ok m) :
    WF m ∧
    AFM.read (write m) = .ok (roundM m) ∧
    AFM.read (write (roundM m)) = .ok (roundM m) ∧
    roundM (roundM m) = roundM m := by
  have hwf := readCore_WF t m h
  have h1 := readCore_write m hwf
  have hwf2 := WF_roundM m hwf
  have h2 : readCore (write (roundM m)) = .ok (roundM m) := by
    rw [readCore_write (roundM m) hwf2, roundM_roundM]
  exact ⟨hwf, h1, h2, roundM_roundM m⟩

/-- in one line: `read (write (read t))` is `read t` rounded, and a further cycle is the identity -/
theorem afm_closure_cycles (t : Bytes) (m : Metrics) (h : AFM.read t = .ok m) :
    ∃ m2, AFM.read (write m) = .ok m2 ∧ m2 = roundM m ∧ AFM.read (write m2) = .ok m2 := by
  obtain ⟨_, h1, h2, _⟩ := afm_closure t m h
  exact ⟨roundM m, h1, rfl, h2⟩

/-- a value in the integral domain is a fixed point of the rounding -/
theorem roundM_representable (m : Metrics) (h : Representable m) : roundM m = m :=
  roundM_of_representable m h

#print axioms afm_write_read
#print axioms afm_write_read_crlf
#print axioms afm_closure
#print axioms afm_closure_cycles
#print axioms afm_independent_layout
#print axioms afm_layout_blind
#print axioms indented_EndCharMetrics
#print axioms indented_EndCharMetrics_ascii
#print axioms indented_line
#print axioms afm_write_read_cr
#print axioms scanLines_line_ends
#print axioms scanLines_line_ends_nonempty
#print axioms afm_line_ends_blind
#print axioms afm_line_ends_blind_pure
#print axioms fontBBox_order_independent
#print axioms write_order_independent
#print axioms fontBBox_of_sorted
#print axioms roundM_keeps
#print axioms roundM_numbers
#print axioms exampleMetrics_representable

end PsVerif.Props.C15
