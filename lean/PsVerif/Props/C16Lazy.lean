import PsVerif.Proofs.C16Lazy
/-!
# C16 — the lazy glyph-list loader answers what the pure tables say

`names.go` fills `glyphMap` on first use: `getFile(file)` parses a list file into
`nameToRune[file]` and, as a side effect, puts the entries denoting several characters into the
ONE shared map `nameToSeq` under the key `file + "/" + name`.  `Model/NamesLazy.lean` mirrors
`getFile`, `lookup`, `lookupSeq` line by line over an abstract parameter `files`
(file name -> entries in line order) and gives the pure reference (`pureLookup`,
`pureLookupSeq`: computed from `files` alone, last line for a name wins, the two
`Tcommaaccent`/`tcommaaccent` corrections on single entries).

## What is proved (for ALL `files`, ALL histories)

* `lazy_history_independent`: `runHistory files ops = pureAnswers files ops` for every list of
  look-ups `ops` (each `(seq?, file, name)`), provided the keys of different files cannot clash
  (`KeyInj files`) and every look-up names a file of `files` (the Go code panics otherwise).
  No distinctness of the file names is needed (the first pair for a name is the file).
* The hypothesis: `KeyInj files` says literally that `f1 ++ "/" ++ n1 = f2 ++ "/" ++ n2` forces
  `f1 = f2` for files of `files`.  It is EQUIVALENT (`keyInj_iff_noSlashPrefix`) to a condition on
  the file names alone: no file name followed by "/" is a prefix of a file name
  (`NoSlashPrefix`), which follows if no file name contains "/" (`noSlashPrefix_of_noSlash`)
  and holds for the repository's pair (`keyInj_repo`, by `decide`).  It cannot be dropped:
  `exClash` (files "a" and "a/b") is history dependent.
* The invariant `Inv files gm` with `inv_empty`, `inv_getFile`, `inv_lookup`, `inv_lookupSeq`,
  and the answers under the invariant (`getFile_answer`, `lookup_answer`, `lookupSeq_answer`).
* `lookupSeq_extends_lookup` (no hypothesis at all).
* Negative results on `tiny`: `early_misses_first_lookup` (variant (a): sequence table read
  before `getFile`), `firstOnly_loses_sequences` (variant (b): sequences installed only while
  `nameToSeq` is empty).  The two defects are separated by histories: on the single look-up
  `f/ab` variant (a) is wrong and variant (b) right (`firstOnly_right_when_first`); on the
  third look-up of `g/x, f/ab, f/ab` variant (a) is right and variant (b) still wrong
  (`retry_separates`).  Variant (b) needs the file loaded first to have a
  sequence entry of its own; with none it is invisible (`firstOnly_masked` on `tiny0`).
-/
namespace PsVerif.Props.C16
open PsVerif.Model PsVerif.Model.NamesLazy PsVerif.Proofs.C16Lazy

/-- the file names of `files` -/
def fileNames (files : Files) : List String := files.map (·.1)

/-- keys of the shared sequence table that belong to different files are different -/
def KeyInj (files : Files) : Prop :=
  ∀ f1 f2 n1 n2, f1 ∈ fileNames files → f2 ∈ fileNames files → key f1 n1 = key f2 n2 → f1 = f2

/-- no file name followed by "/" is a prefix of a file name -/
def NoSlashPrefix (names : List String) : Prop :=
  ∀ f1 ∈ names, ∀ f2 ∈ names, ¬ (f1.toList ++ ['/']) <+: f2.toList

instance (names : List String) : Decidable (NoSlashPrefix names) := by
  unfold NoSlashPrefix; infer_instance

theorem keyInj_of_noSlashPrefix (files : Files) (h : NoSlashPrefix (fileNames files)) :
    KeyInj files := by
  intro f1 f2 n1 n2 h1 h2 hk
  apply Classical.byContradiction
  intro hne
  rcases key_clash_prefix f1 f2 n1 n2 hk hne with hp | hp
  · exact h f1 h1 f2 h2 hp
  · exact h f2 h2 f1 h1 hp

/-- the condition on the file names is also necessary: `KeyInj` is exactly `NoSlashPrefix` -/
theorem keyInj_iff_noSlashPrefix (files : Files) :
    KeyInj files ↔ NoSlashPrefix (fileNames files) := by
  refine ⟨?_, keyInj_of_noSlashPrefix files⟩
  intro hk f1 h1 f2 h2 hp
  obtain ⟨r, hr⟩ := hp
  -- `f2 = f1 ++ "/" ++ r`, so the name `r ++ "/" ++ n` of `f1` has the key of the name `n` of `f2`
  have hkey : key f1 (String.ofList r ++ "/" ++ "") = key f2 "" := by
    apply String.toList_inj.1
    rw [key_toList, key_toList, ← hr]
    simp [String.toList_append]
  have := hk f1 f2 _ _ h1 h2 hkey
  subst this
  have hl := congrArg List.length hr
  simp at hl

theorem noSlashPrefix_of_noSlash (names : List String)
    (h : ∀ f ∈ names, '/' ∉ f.toList) : NoSlashPrefix names := by
  intro f1 _ f2 h2 hp
  obtain ⟨r, hr⟩ := hp
  apply h f2 h2
  rw [← hr]; simp

/-- the repository's two list files -/
theorem noSlashPrefix_repo : NoSlashPrefix ["glyphlist", "zapfdingbats"] := by decide

theorem keyInj_repo (files : Files) (h : fileNames files = ["glyphlist", "zapfdingbats"]) :
    KeyInj files :=
  keyInj_of_noSlashPrefix files (h ▸ noSlashPrefix_repo)

/-! ### the invariant -/

/-- every loaded file's map is the pure map of that file; the shared sequence table holds,
under the keys of each file of `files`, exactly the sequence entries of that file if it is
loaded and nothing if it is not -/
def Inv (files : Files) (gm : GM) : Prop :=
  (∀ f fm, NamesLazy.get gm.nameToRune f = some fm →
      ∀ n, NamesLazy.get fm n = pureSingle (content files f) n) ∧
  (∀ f n, f ∈ fileNames files →
      NamesLazy.get gm.nameToSeq (key f n) =
        if (NamesLazy.get gm.nameToRune f).isSome then pureSeq (content files f) n else none)

theorem inv_empty (files : Files) : Inv files GM.empty := by
  constructor
  · intro f fm h; simp [GM.empty, NamesLazy.get] at h
  · intro f n _; simp [GM.empty, NamesLazy.get]

/-- everything about `getFile` under the invariant: the invariant is kept, the returned map
is the pure map of the file, and the file is loaded afterwards -/
theorem getFile_spec (files : Files) (hk : KeyInj files) (gm : GM) (hinv : Inv files gm)
    (file : String) :
    Inv files (getFile files gm file).1 ∧
    (∀ n, NamesLazy.get (getFile files gm file).2 n = pureSingle (content files file) n) ∧
    (NamesLazy.get (getFile files gm file).1.nameToRune file).isSome = true := by
  unfold getFile
  cases h : NamesLazy.get gm.nameToRune file with
  | some fm =>
    exact ⟨hinv, hinv.1 file fm h, by simp [h]⟩
  | none =>
    have hfst : ∀ n, NamesLazy.get
        (loadLines file (content files file) [] gm.nameToSeq).1 n
          = pureSingle (content files file) n := by
      intro n; rw [loadLines_fst]; simp [NamesLazy.get]
    refine ⟨⟨?_, ?_⟩, hfst, by simp [get_put]⟩
    · intro f fm' hf n
      simp only [get_put] at hf
      by_cases hff : file = f
      · subst hff
        simp only [if_true, Option.some.injEq] at hf
        subst hf
        exact hfst n
      · simp only [hff, if_false] at hf
        exact hinv.1 f fm' hf n
    · intro f n hf
      simp only [loadLines_snd, get_put]
      by_cases hff : file = f
      · subst hff
        have hold := hinv.2 file n hf
        simp only [h, Option.isSome_none] at hold
        rw [pureSeqKey_key, hold]
        simp
      · have hnone : pureSeqKey file (content files file) (key f n) = none := by
          cases hs : pureSeqKey file (content files file) (key f n) with
          | none => rfl
          | some s =>
            exfalso
            obtain ⟨n', hn'⟩ := pureSeqKey_some _ _ _ _ hs
            have hmem : file ∈ fileNames files := by
              cases hg : NamesLazy.get files file with
              | none =>
                simp [content, hg, pureSeqKey_nil] at hs
              | some es => exact get_mem files file es hg
            exact hff (hk file f n' n hmem hf hn')
        rw [hnone, hinv.2 f n hf]
        simp [hff]

theorem inv_getFile (files : Files) (hk : KeyInj files) (gm : GM) (hinv : Inv files gm)
    (file : String) : Inv files (getFile files gm file).1 :=
  (getFile_spec files hk gm hinv file).1

theorem getFile_answer (files : Files) (hk : KeyInj files) (gm : GM) (hinv : Inv files gm)
    (file name : String) :
    NamesLazy.get (getFile files gm file).2 name = pureLookup files file name :=
  (getFile_spec files hk gm hinv file).2.1 name

theorem lookup_fst (files : Files) (gm : GM) (file name : String) :
    (lookup files gm file name).1 = (getFile files gm file).1 := rfl

theorem lookupSeq_fst (files : Files) (gm : GM) (file name : String) :
    (lookupSeq files gm file name).1 = (getFile files gm file).1 := by
  simp only [lookupSeq]
  split <;> rfl

theorem inv_lookup (files : Files) (hk : KeyInj files) (gm : GM) (hinv : Inv files gm)
    (file name : String) : Inv files (lookup files gm file name).1 :=
  inv_getFile files hk gm hinv file

theorem inv_lookupSeq (files : Files) (hk : KeyInj files) (gm : GM) (hinv : Inv files gm)
    (file name : String) : Inv files (lookupSeq files gm file name).1 := by
  rw [lookupSeq_fst]; exact inv_getFile files hk gm hinv file

/-- in every reachable state `lookup` answers what the pure table says -/
theorem lookup_answer (files : Files) (hk : KeyInj files) (gm : GM) (hinv : Inv files gm)
    (file name : String) :
    (lookup files gm file name).2 = pureLookup files file name :=
  getFile_answer files hk gm hinv file name

/-- in every reachable state `lookupSeq` answers what the pure tables say -/
theorem lookupSeq_answer (files : Files) (hk : KeyInj files) (gm : GM) (hinv : Inv files gm)
    (file name : String) (hfile : file ∈ fileNames files) :
    (lookupSeq files gm file name).2 = pureLookupSeq files file name := by
  obtain ⟨hinv', hans, hloaded⟩ := getFile_spec files hk gm hinv file
  unfold lookupSeq pureLookupSeq
  simp only [hans]
  cases pureSingle (content files file) name with
  | some c => rfl
  | none =>
    simp only
    rw [hinv'.2 file name hfile, hloaded]
    simp

/-- whenever `lookup` finds a single character, `lookupSeq` finds the same as a one-element
list (in ANY state: no invariant, no hypothesis on `files`) -/
theorem lookupSeq_extends_lookup (files : Files) (gm : GM) (file name : String) (c : Nat)
    (h : (lookup files gm file name).2 = some c) :
    (lookupSeq files gm file name).2 = some [c] := by
  unfold lookup at h
  unfold lookupSeq
  simp only at h ⊢
  rw [h]

/-! ### histories -/

theorem step_spec (files : Files) (hk : KeyInj files) (gm : GM) (hinv : Inv files gm)
    (op : Bool × String × String) (hfile : op.2.1 ∈ fileNames files) :
    Inv files (step files gm op).1 ∧ (step files gm op).2 = pureStep files op := by
  unfold step pureStep
  cases hop : op.1 with
  | true =>
    simp only [if_true]
    exact ⟨inv_lookupSeq files hk gm hinv _ _, lookupSeq_answer files hk gm hinv _ _ hfile⟩
  | false =>
    simp only [Bool.false_eq_true, if_false]
    exact ⟨inv_lookup files hk gm hinv _ _, by rw [lookup_answer files hk gm hinv]⟩

theorem runFrom_eq (files : Files) (hk : KeyInj files) (ops : List (Bool × String × String)) :
    ∀ (gm : GM), Inv files gm → (∀ op ∈ ops, op.2.1 ∈ fileNames files) →
      runFrom files gm ops = pureAnswers files ops := by
  induction ops with
  | nil => intro gm _ _; rfl
  | cons op ops ih =>
    intro gm hinv hops
    obtain ⟨hinv', hans⟩ := step_spec files hk gm hinv op (hops op (by simp))
    simp only [runFrom, pureAnswers, List.map_cons, hans]
    congr 1
    exact ih _ hinv' (fun o ho => hops o (by simp [ho]))

/-- every look-up answers what the pure tables say, whatever was looked up before and
whichever file was loaded first -/
theorem lazy_history_independent (files : List (String × List (String × List Nat)))
    (hk : KeyInj files) (ops : List (Bool × String × String))
    (hops : ∀ op ∈ ops, op.2.1 ∈ fileNames files) :
    runHistory files ops = pureAnswers files ops :=
  runFrom_eq files hk ops GM.empty (inv_empty files) hops

/-- the same with the condition on the file names alone -/
theorem lazy_history_independent_of_names (files : List (String × List (String × List Nat)))
    (hnames : NoSlashPrefix (fileNames files)) (ops : List (Bool × String × String))
    (hops : ∀ op ∈ ops, op.2.1 ∈ fileNames files) :
    runHistory files ops = pureAnswers files ops :=
  lazy_history_independent files (keyInj_of_noSlashPrefix files hnames) ops hops

/-- for the repository's two files, whatever their contents -/
theorem lazy_history_independent_repo (gl zd : List (String × List Nat))
    (ops : List (Bool × String × String))
    (hops : ∀ op ∈ ops, op.2.1 = "glyphlist" ∨ op.2.1 = "zapfdingbats") :
    runHistory [("glyphlist", gl), ("zapfdingbats", zd)] ops
      = pureAnswers [("glyphlist", gl), ("zapfdingbats", zd)] ops :=
  lazy_history_independent _ (keyInj_repo _ rfl) ops
    (fun op h => by simpa [fileNames] using hops op h)

/-! ### negative results: the two seeded defects, separated by the order of the history -/

/-- two files, one sequence entry in each (variant (b) needs the file loaded first to leave
something in `nameToSeq`, see `firstOnly_masked`) -/
def tiny : Files := [("f", [("ab", [1, 2])]), ("g", [("x", [3]), ("yz", [4, 5])])]

/-- two files, one sequence entry in the first, none in the second -/
def tiny0 : Files := [("f", [("ab", [1, 2])]), ("g", [("x", [3])])]

/-- variant (a): the first look-up of a sequence entry answers `none` (the pure answer is the
sequence), the second look-up finds it -/
theorem early_misses_first_lookup :
    (lookupSeqEarly tiny GM.empty "f" "ab").2 = none ∧
    pureLookupSeq tiny "f" "ab" = some [1, 2] ∧
    (lookupSeqEarly tiny (lookupSeqEarly tiny GM.empty "f" "ab").1 "f" "ab").2
      = some [1, 2] := by decide

/-- variant (a) is not hurt by loading the other file first -/
theorem early_same_after_other_file :
    (lookupSeqEarly tiny (lookupSeqEarly tiny GM.empty "g" "x").1 "f" "ab").2 = none := by
  decide

/-- variant (b): the first file's sequences are lost when the other file is loaded first -/
theorem firstOnly_loses_sequences :
    (lookupSeqFirstOnly tiny (lookupSeqFirstOnly tiny GM.empty "g" "x").1 "f" "ab").2
      = none ∧
    pureLookupSeq tiny "f" "ab" = some [1, 2] := by decide

/-- variant (b) answers correctly when the file with the sequence is loaded first: a first
look-up does not notice it (variant (a) fails exactly there) -/
theorem firstOnly_right_when_first :
    (lookupSeqFirstOnly tiny GM.empty "f" "ab").2 = some [1, 2] := by decide

/-- looking the sequence up again after the other file was loaded first: variant (a) has
recovered, variant (b) never does -/
theorem retry_separates :
    (lookupSeqEarly tiny (lookupSeqEarly tiny (lookupSeqEarly tiny GM.empty "g" "x").1
        "f" "ab").1 "f" "ab").2 = some [1, 2] ∧
    (lookupSeqFirstOnly tiny (lookupSeqFirstOnly tiny (lookupSeqFirstOnly tiny GM.empty "g" "x").1
        "f" "ab").1 "f" "ab").2 = none := by decide

/-- variant (b) is invisible if the file loaded first has no sequence entry (it leaves
`nameToSeq` empty); variant (a) is visible there too -/
theorem firstOnly_masked :
    (lookupSeqFirstOnly tiny0 (lookupSeqFirstOnly tiny0 GM.empty "g" "x").1 "f" "ab").2
      = some [1, 2] ∧
    (lookupSeqEarly tiny0 GM.empty "f" "ab").2 = none := by decide

/-! ### non-vacuity -/

theorem tiny_keyInj : KeyInj tiny := keyInj_of_noSlashPrefix tiny (by decide)

/-- both orders on the real loader -/
example : runHistory tiny [(true, "g", "x"), (true, "f", "ab"), (false, "f", "ab"),
    (true, "f", "zz"), (false, "g", "x")] = [some [3], some [1, 2], none, none, some [3]] := by
  decide
example : runHistory tiny [(true, "f", "ab"), (true, "g", "x")] = [some [1, 2], some [3]] := by
  decide
example : pureAnswers tiny [(true, "f", "ab"), (true, "g", "x")] = [some [1, 2], some [3]] := by
  decide

/-- a later line overwrites an earlier one, in both tables; a name with a single entry and a
sequence entry answers the single entry; the `Tcommaaccent` correction; an entry without code
point is the character 0 -/
def exOver : Files :=
  [("f", [("a", [1]), ("s", [1, 2]), ("a", [7]), ("s", [3, 4, 5]), ("b", [8, 9]), ("b", [6]),
          ("Tcommaaccent", [0x0162]), ("tcommaaccent", [0x0163]), ("e", [])])]

example : runHistory exOver [(true, "f", "a"), (true, "f", "s"), (true, "f", "b"),
      (false, "f", "Tcommaaccent"), (true, "f", "tcommaaccent"), (false, "f", "e")]
    = [some [7], some [3, 4, 5], some [6], some [0x021A], some [0x021B], some [0]] := by decide
example : pureAnswers exOver [(true, "f", "a"), (true, "f", "s"), (true, "f", "b"),
      (false, "f", "Tcommaaccent"), (true, "f", "tcommaaccent"), (false, "f", "e")]
    = [some [7], some [3, 4, 5], some [6], some [0x021A], some [0x021B], some [0]] := by decide

/-- the state after loading both files of `tiny`, and the invariant's second clause at work -/
example : (lookupSeq tiny (lookupSeq tiny GM.empty "g" "x").1 "f" "ab").1
    = { nameToRune := [("g", [("x", 3)]), ("f", [])],
        nameToSeq := [("g/yz", [4, 5]), ("f/ab", [1, 2])] } := by
  decide

/-- `KeyInj` cannot be dropped: with the files "a" and "a/b" the sequence `b/x` of "a" answers
for the name `x` of "a/b" once "a" is loaded, and not before -/
def exClash : Files := [("a", [("b/x", [1, 2])]), ("a/b", [])]

theorem exClash_not_keyInj : ¬ KeyInj exClash := by
  rw [keyInj_iff_noSlashPrefix]; decide

theorem exClash_history_dependent :
    runHistory exClash [(true, "a/b", "x"), (true, "a", "b/x"), (true, "a/b", "x")]
      = [none, some [1, 2], some [1, 2]] ∧
    pureAnswers exClash [(true, "a/b", "x"), (true, "a", "b/x"), (true, "a/b", "x")]
      = [none, some [1, 2], none] := by decide

#print axioms lazy_history_independent
#print axioms lazy_history_independent_of_names
#print axioms lazy_history_independent_repo
#print axioms keyInj_of_noSlashPrefix
#print axioms keyInj_iff_noSlashPrefix
#print axioms noSlashPrefix_of_noSlash
#print axioms noSlashPrefix_repo
#print axioms keyInj_repo
#print axioms inv_empty
#print axioms getFile_spec
#print axioms inv_getFile
#print axioms inv_lookup
#print axioms inv_lookupSeq
#print axioms getFile_answer
#print axioms lookup_answer
#print axioms lookupSeq_answer
#print axioms lookupSeq_extends_lookup
#print axioms step_spec
#print axioms runFrom_eq
#print axioms early_misses_first_lookup
#print axioms early_same_after_other_file
#print axioms firstOnly_loses_sequences
#print axioms firstOnly_right_when_first
#print axioms firstOnly_masked
#print axioms retry_separates
#print axioms tiny_keyInj
#print axioms exClash_not_keyInj
#print axioms exClash_history_dependent

end PsVerif.Props.C16
