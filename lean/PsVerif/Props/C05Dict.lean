import PsVerif.Proofs.C05Dict
import PsVerif.Proofs.EexecInterp
import PsVerif.Proofs.WFState
/-!
# C05 — the dictionary stack after `eexec`

"When the encrypted part closes its file, decryption stops, **the dictionary stack is restored** and the clear text
that follows is executed normally."  `eexec.go` remembers `k := len(DictStack)`, appends systemdict, runs the
section and executes `DictStack = DictStack[:k]` on every way out.  On a Go slice `[:k]` also RE-EXTENDS the slice
when the section popped more dictionaries than it pushed (`end end`): the stale entries above the length come back.
The model mirrors this with `truncDictStack` and the ghost list `VM.dictGhost` (stale entries, nearest first).

## What is proved (for ALL states, budgets, fuels; no hypothesis on the section)

1. `truncDictStack_length_exact`: the length after `DictStack[:k]` is `min k (len + ghost)`; so it is `k` iff
   `k ≤ len + ghost` (`truncDictStack_length`, `truncDictStack_length_iff`), in particular when `k ≤ len`
   (`truncDictStack_length_of_le`).  If the ghost is too short the result is shorter than `k`
   (`truncDictStack_length_short`; in Go this would be the run-time panic "slice bounds out of range", `k > cap`).
2. The invariant: `GhostOK vm c := c ≤ vm.dictStack.length + vm.dictGhost.length` ("the tracked capacity is at least
   the high-water mark `c`").  It holds for `c = vm.dictStack.length` in every state (`ghostOK_self`) and NOTHING in
   the interpreter ever destroys it: `pushDict`, `begin` (consume one ghost entry if there is one, else grow),
   `end` (move one entry from the stack to the ghost: the sum is unchanged), `truncDictStack` (the sum is unchanged),
   every other data operator (both lists untouched, `Keeps`), and all thirteen functions of the interpreter's mutual
   block (`ghostOK_interp`, from `allMono`: induction on the fuel, no hypothesis on the state).  So the hypothesis of
   1 is available for the state ANY inner run returns, and the theorem in 3 needs NO invariant on the start state.
   The question "can the ghost be too short after some operator?" has the answer NO: no operator truncates the
   ghost without lengthening the stack by as much.
3. `eexec_restores_dict_depth`: for every state with a scanner (`scannerDepth ≠ 0`), every fuel and budget, and every
   outcome (operand missing or not a file, `BeginEexec` refused — nested eexec, end of input, read error —, section
   ran to `closefile`, section failed, budget or fuel exhausted), the dictionary stack after the operator has the
   length it had before.  `eexec_vm_eq` is the structural fact behind it: past the operand check the data half of
   the result IS `truncDictStack (eexecInner …).vm k`, where `eexecInner` is the state `BeginEexec` left (on refusal)
   or the state the inner `scanRun` returned.
   The one excluded case, `eexec_no_scanner`: with `scannerDepth = 0` the model returns its panic value with
   systemdict still pushed (length `k + 1`); in Go this is the index panic of `intp.scanners[len(intp.scanners)-1]`
   and there is no state "after" (operators only run inside `Execute`, where a scanner exists: C01).
4. `eexec_restores_dict_entries_when_not_popped_below`: if the state the inner run returns still has the old stack
   as its bottom part (`pre ++ s.vm.dictStack`: never popped below `k`, or popped and pushed the same entries again),
   the dictionary stack after the operator EQUALS the stack before.  `eexec_refused_restores_dict_entries`: this is
   always so when `BeginEexec` refuses.  `eexec_restores_dict_entries_after_pops`: if the section only popped (the
   returned stack is the old one minus its top `j` entries, and these are the nearest ghost entries — what `end`
   leaves behind), the stack is restored EXACTLY as well: this is the re-extension of the Go slice.
5. `closeSection_restores_depth`, `eexec_operator_restores_depth_plain`: the same for the right-hand side of
   `eexec_operator_binary`/`eexec_operator_hex` (`closeSection k (scanRun … (plainState …))`).
6. Non-vacuity: `exPopTwice` — a state with three dictionaries, binary section with plaintext
   `end end currentfile closefile\n` run through the whole model by the kernel: result `ok`, the stack is `[2, 1, 0]`
   again (after the two `end`s it was `[1, 0]`); `exTruncGhost` the same at the level of `truncDictStack`; `exSeeded`
   shows what the seeded change ("truncate only if longer than k") would have left: length 2.
-/
namespace PsVerif.Props.C05
open PsVerif.Model PsVerif.Model.Scan PsVerif.Model.Cipher PsVerif.Proofs.C05Dict PsVerif.Proofs.EexecInterp

/-! ## 1. `DictStack[:k]` -/

/-- the length after `DictStack = DictStack[:k]`, in general -/
theorem truncDictStack_length_exact (vm : VM) (k : Nat) :
    (truncDictStack vm k).dictStack.length = min k (vm.dictStack.length + vm.dictGhost.length) := by
  unfold truncDictStack
  dsimp only
  split
  · simp only [List.length_drop]; omega
  · simp only [List.length_append, List.length_reverse, List.length_take]; omega

/-- **1.** enough stale entries: the length is `k` -/
theorem truncDictStack_length (vm : VM) (k : Nat) (h : k ≤ vm.dictStack.length + vm.dictGhost.length) :
    (truncDictStack vm k).dictStack.length = k := by
  rw [truncDictStack_length_exact]; omega

/-- the trivial case (a real truncation): no hypothesis on the ghost -/
theorem truncDictStack_length_of_le (vm : VM) (k : Nat) (h : k ≤ vm.dictStack.length) :
    (truncDictStack vm k).dictStack.length = k :=
  truncDictStack_length vm k (by omega)

/-- the ghost too short: everything comes back and the result is still shorter than `k` -/
theorem truncDictStack_length_short (vm : VM) (k : Nat) (h : vm.dictStack.length + vm.dictGhost.length < k) :
    (truncDictStack vm k).dictStack.length = vm.dictStack.length + vm.dictGhost.length ∧
    (truncDictStack vm k).dictGhost = [] := by
  refine ⟨by rw [truncDictStack_length_exact]; omega, ?_⟩
  unfold truncDictStack
  dsimp only
  rw [if_neg (by omega)]
  exact List.drop_eq_nil_of_le (by omega)

theorem truncDictStack_length_iff (vm : VM) (k : Nat) :
    (truncDictStack vm k).dictStack.length = k ↔ k ≤ vm.dictStack.length + vm.dictGhost.length := by
  rw [truncDictStack_length_exact]; omega

/-- what a real truncation does to the entries: the bottom `k` stay, the others become the nearest ghosts -/
theorem truncDictStack_of_append (vm : VM) (pre old : List Nat) (h : vm.dictStack = pre ++ old) :
    (truncDictStack vm old.length).dictStack = old ∧
    (truncDictStack vm old.length).dictGhost = pre.reverse ++ vm.dictGhost := by
  unfold truncDictStack
  dsimp only
  rw [if_pos (by rw [h, List.length_append]; omega)]
  have e : vm.dictStack.length - old.length = pre.length := by rw [h, List.length_append]; omega
  rw [e, h]
  exact ⟨List.drop_left, by rw [List.take_left]⟩

/-- what a re-extension does: the `j` nearest ghost entries come back on top, in their old order -/
theorem truncDictStack_of_ghost (vm : VM) (popped ghost : List Nat) (h : vm.dictGhost = popped.reverse ++ ghost) :
    (truncDictStack vm (vm.dictStack.length + popped.length)).dictStack = popped ++ vm.dictStack ∧
    (truncDictStack vm (vm.dictStack.length + popped.length)).dictGhost = ghost := by
  unfold truncDictStack
  dsimp only
  cases hp : popped with
  | nil =>
    subst hp
    rw [if_pos (by simp), h]
    simp
  | cons a as =>
    rw [if_neg (by simp only [List.length_cons]; omega)]
    have e : vm.dictStack.length + (a :: as).length - vm.dictStack.length = (a :: as).reverse.length := by
      rw [List.length_reverse]; omega
    rw [e, h, hp, List.take_left, List.drop_left, List.reverse_reverse]
    exact ⟨rfl, rfl⟩

/-! ## 2. The invariant -/

/-- the capacity the model keeps track of (live part plus stale part of the Go slice) is at least `c` -/
def GhostOK (vm : VM) (c : Nat) : Prop := c ≤ vm.dictStack.length + vm.dictGhost.length

theorem ghostOK_iff (vm : VM) (c : Nat) : GhostOK vm c ↔ c ≤ dcap vm := Iff.rfl

/-- it holds for the current height, in every state -/
theorem ghostOK_self (vm : VM) : GhostOK vm vm.dictStack.length := Nat.le_add_right _ _

/-- exactly what is needed in 1 -/
theorem GhostOK.trunc_length {vm : VM} {k : Nat} (h : GhostOK vm k) : (truncDictStack vm k).dictStack.length = k :=
  truncDictStack_length vm k h

theorem GhostOK.mono {vm vm' : VM} {c : Nat} (h : GhostOK vm c) (hle : dcap vm ≤ dcap vm') : GhostOK vm' c :=
  Nat.le_trans h hle

theorem ghostOK_pushDict {vm : VM} {c : Nat} (h : GhostOK vm c) (d : Nat) : GhostOK (pushDict vm d) c :=
  h.mono (dcap_pushDict vm d)

/-- `DictStack[:k]` keeps the sum exactly -/
theorem dcap_trunc (vm : VM) (k : Nat) : dcap (truncDictStack vm k) = dcap vm := dcap_truncDictStack vm k

theorem ghostOK_truncDictStack {vm : VM} {c : Nat} (h : GhostOK vm c) (k : Nat) : GhostOK (truncDictStack vm k) c :=
  h.mono (Nat.le_of_eq (dcap_truncDictStack vm k).symm)

/-- `end` moves one entry from the stack to the ghost (or fails and changes nothing): the sum stays -/
theorem dcap_end (vm : VM) : dcap (bEnd vm).1 = dcap vm := by
  unfold bEnd
  split
  · rfl
  · rename_i h
    unfold dcap okRes
    simp only [List.length_cons, List.length_tail]
    omega

/-- `begin` consumes one ghost entry if there is one: the sum stays, or grows by one when the ghost is empty -/
theorem dcap_begin (vm : VM) :
    dcap (bBegin vm).1 = dcap vm ∨ (vm.dictGhost = [] ∧ dcap (bBegin vm).1 = dcap vm + 1) := by
  unfold bBegin
  split
  · exact .inl rfl
  · split
    · exact .inl rfl
    · split
      · unfold dcap okRes
        simp only [List.length_cons, List.length_tail]
        cases hg : vm.dictGhost with
        | nil => exact .inr ⟨rfl, by simp⟩
        | cons a as => left; simp only [List.length_cons]; omega
      · exact .inl rfl

theorem ghostOK_begin {vm : VM} {c : Nat} (h : GhostOK vm c) : GhostOK (bBegin vm).1 c := h.mono (dcap_bBegin vm)
theorem ghostOK_end {vm : VM} {c : Nat} (h : GhostOK vm c) : GhostOK (bEnd vm).1 c := h.mono (dcap_bEnd vm)

/-- every data operator (all ids of `pureBuiltin`/`cmapBuiltin`) -/
theorem ghostOK_pureBuiltin {vm vm' : VM} {c : Nat} {id : String} {r : Res} (h : GhostOK vm c)
    (e : pureBuiltin id vm = some (vm', r)) : GhostOK vm' c :=
  h.mono (pure_mono id vm (vm', r) e)

/-- **2.** the whole interpreter: every function of the mutual block, any state, any fuel, any budget -/
theorem ghostOK_interp (fuel m : Nat) (c : Nat) :
    (∀ s o b, GhostOK s.vm c → GhostOK (execOne fuel m s o b).1.vm c) ∧
    (∀ s id, GhostOK s.vm c → GhostOK (callBuiltin fuel m s id).1.vm c) ∧
    (∀ s, GhostOK s.vm c → GhostOK (scanRun fuel m s).1.vm c) ∧
    (∀ s, GhostOK s.vm c → GhostOK (scanLoop fuel m s).1.vm c) ∧
    (∀ s o b c', GhostOK s.vm c → GhostOK (execTail fuel m s o b c').1.vm c) ∧
    (∀ s r o i n, GhostOK s.vm c → GhostOK (runBody fuel m s r o i n).1.vm c) ∧
    (∀ s v i l p, GhostOK s.vm c → GhostOK (forLoop fuel m s v i l p).1.vm c) ∧
    (∀ s k p, GhostOK s.vm c → GhostOK (repeatLoop fuel m s k p).1.vm c) ∧
    (∀ s p, GhostOK s.vm c → GhostOK (loopLoop fuel m s p).1.vm c) ∧
    (∀ s r o i n p, GhostOK s.vm c → GhostOK (forallArr fuel m s r o i n p).1.vm c) ∧
    (∀ s r o i n p, GhostOK s.vm c → GhostOK (forallStr fuel m s r o i n p).1.vm c) ∧
    (∀ s d ks p, GhostOK s.vm c → GhostOK (forallDict fuel m s d ks p).1.vm c) :=
  have a := allMono m fuel
  ⟨fun s o b h => h.mono (a.one s o b), fun s id h => h.mono (a.call s id), fun s h => h.mono (a.sRun s),
   fun s h => h.mono (a.sLoop s), fun s o b c' h => h.mono (a.tail s o b c'),
   fun s r o i n h => h.mono (a.run s r o i n), fun s v i l p h => h.mono (a.forL s v i l p),
   fun s k p h => h.mono (a.rep s k p), fun s p h => h.mono (a.loop s p),
   fun s r o i n p h => h.mono (a.fArr s r o i n p), fun s r o i n p h => h.mono (a.fStr s r o i n p),
   fun s d ks p h => h.mono (a.fDict s d ks p)⟩

/-- the form used below: what the nested scan loop returns still has capacity for the old height -/
theorem scanRun_capacity (fuel m : Nat) (s : State) : dcap s.vm ≤ dcap (scanRun fuel m s).1.vm :=
  (allMono m fuel).sRun s

/-! ## 3. The operator -/

/-- the state the operator cuts back: what `BeginEexec` left when it refused, else what the inner run returned -/
def eexecInner (fuel m : Nat) (s : State) (rest : List Obj) : State :=
  match withScanner { s with vm := pushDict { s.vm with stack := rest } s.vm.roots.systemDict } beginEexec with
  | (s2, .error _) => s2
  | (s2, .ok _) => (scanRun fuel m s2).1

/-- the inner state has room for the old height — with no hypothesis whatever -/
theorem eexecInner_capacity (fuel m : Nat) (s : State) (rest : List Obj) :
    GhostOK (eexecInner fuel m s rest).vm s.vm.dictStack.length := by
  have h0 : GhostOK (pushDict { s.vm with stack := rest } s.vm.roots.systemDict) s.vm.dictStack.length :=
    ghostOK_pushDict (ghostOK_self { s.vm with stack := rest }) _
  unfold eexecInner
  generalize hb : beginEexec s.scanner = b
  obtain ⟨rb, sc2⟩ := b
  simp only [withScanner, hb]
  cases rb with
  | error e => exact h0
  | ok u =>
    exact h0.mono (scanRun_capacity fuel m
      { s with vm := pushDict { s.vm with stack := rest } s.vm.roots.systemDict, scanner := sc2 })

/-- **3 (b).** past the operand check, in EVERY branch, the data half of the operator's result is literally
`truncDictStack` applied to the inner state, with the height `k` remembered at the start -/
theorem eexec_vm_eq (fuel m : Nat) (s : State) (rest : List Obj) (hst : s.vm.stack = .file :: rest)
    (hd : s.scannerDepth ≠ 0) :
    (callBuiltin (fuel + 1) m s "eexec").1.vm =
      truncDictStack (eexecInner fuel m s rest).vm s.vm.dictStack.length := by
  unfold callBuiltin eexecInner
  have hd' : (s.scannerDepth == 0) = false := by simpa using hd
  generalize hb : beginEexec s.scanner = b
  obtain ⟨rb, sc2⟩ := b
  simp only [hst, withScanner, hb, hd', Bool.false_eq_true, if_false]
  cases rb with
  | error e => rfl
  | ok u =>
    simp only
    generalize scanRun fuel m _ = p3
    obtain ⟨s3, r3⟩ := p3
    cases r3 with
    | ok => rfl
    | fuel => rfl
    | err e => cases e <;> rfl

/-- **3.** `eexec` restores the HEIGHT of the dictionary stack: every state with a scanner, every fuel, every
budget, every outcome -/
theorem eexec_restores_dict_depth (fuel m : Nat) (s : State) (hd : s.scannerDepth ≠ 0) :
    (callBuiltin fuel m s "eexec").1.vm.dictStack.length = s.vm.dictStack.length := by
  cases fuel with
  | zero => simp only [callBuiltin]
  | succ fuel =>
    cases hst : s.vm.stack with
    | nil => unfold callBuiltin; simp only [hst]; rfl
    | cons top rest =>
      by_cases ht : top = .file
      · subst ht
        rw [eexec_vm_eq fuel m s rest hst hd]
        exact (eexecInner_capacity fuel m s rest).trunc_length
      · unfold callBuiltin
        simp only [hst]
        cases top <;> first | rfl | exact absurd rfl ht

/-- the results of the cheap ways out, for the record: nothing but the error -/
theorem eexec_stackunderflow (fuel m : Nat) (s : State) (hst : s.vm.stack = []) :
    callBuiltin (fuel + 1) m s "eexec" = (s, .err (.ps "stackunderflow")) := by
  unfold callBuiltin; simp only [hst]; rfl

/-- `BeginEexec` refuses (nested `eexec`: `invalidaccess`; end of input; read error): the error is passed on, the
operand stays popped, the dictionary stack is the one before the call, entry by entry -/
theorem eexec_refused_restores_dict_entries (fuel m : Nat) (s : State) (rest : List Obj) (e : Err) (sc2 : Scanner)
    (hst : s.vm.stack = .file :: rest) (hd : s.scannerDepth ≠ 0) (hb : beginEexec s.scanner = (.error e, sc2)) :
    (callBuiltin (fuel + 1) m s "eexec").2 = .err e ∧
    (callBuiltin (fuel + 1) m s "eexec").1.vm.dictStack = s.vm.dictStack ∧
    (callBuiltin (fuel + 1) m s "eexec").1.vm.stack = rest ∧
    (callBuiltin (fuel + 1) m s "eexec").1.scanner = sc2 := by
  have hd' : (s.scannerDepth == 0) = false := by simpa using hd
  have hc : callBuiltin (fuel + 1) m s "eexec" =
      ({ s with vm := truncDictStack (pushDict { s.vm with stack := rest } s.vm.roots.systemDict) s.vm.dictStack.length,
                scanner := sc2 }, .err e) := by
    unfold callBuiltin
    simp only [hst, withScanner, hb, hd', Bool.false_eq_true, if_false]
  rw [hc]
  have ht := truncDictStack_of_append (pushDict { s.vm with stack := rest } s.vm.roots.systemDict)
    [s.vm.roots.systemDict] s.vm.dictStack rfl
  refine ⟨rfl, ht.1, ?_, rfl⟩
  show (truncDictStack _ _).stack = rest
  unfold truncDictStack
  dsimp only
  split <;> rfl

/-- nested `eexec` in particular -/
theorem eexec_nested_refused (fuel m : Nat) (s : State) (rest : List Obj)
    (hst : s.vm.stack = .file :: rest) (hd : s.scannerDepth ≠ 0) (hn : s.scanner.eexec ≠ 0) :
    (callBuiltin (fuel + 1) m s "eexec").2 = .err (.ps "invalidaccess") ∧
    (callBuiltin (fuel + 1) m s "eexec").1.vm.dictStack = s.vm.dictStack := by
  have hb := PsVerif.Proofs.WFState.beginEexec_busy s.scanner hn
  have h := eexec_refused_restores_dict_entries fuel m s rest _ _ hst hd hb
  exact ⟨h.1, h.2.1⟩

/-- the excluded case: no scanner. The model's panic value (Go: index panic), systemdict still pushed. -/
theorem eexec_no_scanner (fuel m : Nat) (s : State) (rest : List Obj) (hst : s.vm.stack = .file :: rest)
    (hd : s.scannerDepth = 0) :
    (callBuiltin (fuel + 1) m s "eexec").2 = .err (.panic "eexec: no scanner") ∧
    (callBuiltin (fuel + 1) m s "eexec").1.vm.dictStack = s.vm.roots.systemDict :: s.vm.dictStack := by
  unfold callBuiltin
  simp only [hst, hd, beq_self_eq_true, if_true]
  exact ⟨trivial, rfl⟩

/-! ## 4. The entries -/

/-- **4.** the inner state still has the old stack as its bottom part: the stack afterwards EQUALS the stack before -/
theorem eexec_restores_dict_entries_when_not_popped_below (fuel m : Nat) (s : State) (rest : List Obj)
    (hst : s.vm.stack = .file :: rest) (hd : s.scannerDepth ≠ 0) (pre : List Nat)
    (hkeep : (eexecInner fuel m s rest).vm.dictStack = pre ++ s.vm.dictStack) :
    (callBuiltin (fuel + 1) m s "eexec").1.vm.dictStack = s.vm.dictStack := by
  rw [eexec_vm_eq fuel m s rest hst hd]
  exact (truncDictStack_of_append _ pre _ hkeep).1

/-- the section only popped (`end … end`, `j = popped.length` times, below `k`): the stale entries come back and
the stack afterwards EQUALS the stack before — the re-extension the seeded change removed -/
theorem eexec_restores_dict_entries_after_pops (fuel m : Nat) (s : State) (rest : List Obj)
    (hst : s.vm.stack = .file :: rest) (hd : s.scannerDepth ≠ 0) (popped ghost : List Nat)
    (hstack : s.vm.dictStack = popped ++ (eexecInner fuel m s rest).vm.dictStack)
    (hghost : (eexecInner fuel m s rest).vm.dictGhost = popped.reverse ++ ghost) :
    (callBuiltin (fuel + 1) m s "eexec").1.vm.dictStack = s.vm.dictStack := by
  rw [eexec_vm_eq fuel m s rest hst hd]
  have hk : s.vm.dictStack.length = (eexecInner fuel m s rest).vm.dictStack.length + popped.length := by
    rw [hstack, List.length_append]; omega
  have h := (truncDictStack_of_ghost _ popped ghost hghost).1
  rw [← hk] at h
  rw [h, ← hstack]

/-! ## 5. The right-hand side of `eexec_operator_binary` / `eexec_operator_hex` -/

theorem closeSection_vm (k : Nat) (bF : State) (rF : Res) (seF : Scanner) :
    (closeSection k bF rF seF).1.vm = truncDictStack bF.vm k := by
  unfold closeSection
  split <;> rfl

theorem closeSection_restores_depth (k : Nat) (bF : State) (rF : Res) (seF : Scanner) (h : GhostOK bF.vm k) :
    (closeSection k bF rF seF).1.vm.dictStack.length = k := by
  rw [closeSection_vm]; exact h.trunc_length

/-- the plaintext side: whatever the plain run over the plaintext does, cutting back restores the height -/
theorem eexec_operator_restores_depth_plain (fuel m : Nat) (a0 : State) (st : List Obj) (sp seF : Scanner) :
    (closeSection a0.vm.dictStack.length (scanRun fuel m (plainState a0 st sp)).1
      (scanRun fuel m (plainState a0 st sp)).2 seF).1.vm.dictStack.length = a0.vm.dictStack.length := by
  apply closeSection_restores_depth
  have h0 : GhostOK (plainState a0 st sp).vm a0.vm.dictStack.length :=
    ghostOK_pushDict (ghostOK_self { a0.vm with stack := st }) _
  exact h0.mono (scanRun_capacity fuel m _)

/-! ## 6. Non-vacuity -/

/-- at the level of `truncDictStack`: two entries live, two stale ones (what `end end` leaves), `[:3]` -/
def exGhostVM : VM := { dictStack := [1, 0], dictGhost := [2, 0], roots := (default : Roots) }

theorem exTruncGhost : (truncDictStack exGhostVM 3).dictStack = [2, 1, 0] ∧
    (truncDictStack exGhostVM 3).dictStack.length = 3 ∧ (truncDictStack exGhostVM 3).dictGhost = [0] := by decide

example : (truncDictStack exGhostVM 3).dictStack.length = 3 :=
  truncDictStack_length exGhostVM 3 (by decide)

/-- the seeded change, "truncate only if longer than `k`" -/
def seededTrunc (vm : VM) (k : Nat) : VM := if k < vm.dictStack.length then truncDictStack vm k else vm

/-- … leaves the stack two high where the code (and `truncDictStack`) restores three -/
theorem exSeeded : (seededTrunc exGhostVM 3).dictStack.length = 2 := by decide

/-- random prefix `58 00 00 00` -/
def exPreD : List UInt8 := [88, 0, 0, 0]

/-- plaintext `end end currentfile closefile\n`: pops systemdict AND one more dictionary, then closes the section -/
def exPlainPop : List UInt8 :=
  [101, 110, 100, 32, 101, 110, 100, 32,
   99, 117, 114, 114, 101, 110, 116, 102, 105, 108, 101, 32, 99, 108, 111, 115, 101, 102, 105, 108, 101, 10]

/-- systemdict (cell 0) knows `end`, `currentfile`, `closefile`; cells 1 and 2 are two more dictionaries -/
def exHeapPop : Array Cell :=
  #[.dict [("end", .builtin "end"), ("currentfile", .builtin "currentfile"), ("closefile", .builtin "closefile")],
    .dict [], .dict []]

/-- three dictionaries on the stack (top first), no stale entries, `.file` on the operand stack -/
def exVMPop : VM := { stack := [Obj.file], dictStack := [2, 1, 0], heap := exHeapPop, roots := (default : Roots) }

/-- the scanner right after the token `eexec` (its delimiter `\n` peeked), clear text `\n7 ` after the section -/
def exScPop : Scanner := { peek := [10], src := encrypt eexecR (exPreD ++ exPlainPop) ++ [10, 55, 32] }
def exAPop : State := { vm := exVMPop, scanner := exScPop, scannerDepth := 1 }

/-- run through the whole model: the section is closed (`ok`), both `end`s succeeded (two stale entries remain in
the state the inner run returns, its stack is `[1, 0]`), and the operator hands back `[2, 1, 0]` -/
theorem exPopTwice :
    (callBuiltin 20 0 exAPop "eexec").2 = .ok ∧
    (eexecInner 19 0 exAPop []).vm.dictStack = [1, 0] ∧
    (eexecInner 19 0 exAPop []).vm.dictGhost = [2, 0] ∧
    (callBuiltin 20 0 exAPop "eexec").1.vm.dictStack = [2, 1, 0] ∧
    (callBuiltin 20 0 exAPop "eexec").1.vm.dictStack.length = exAPop.vm.dictStack.length ∧
    (callBuiltin 20 0 exAPop "eexec").1.scanner.eexec = 0 ∧
    (callBuiltin 20 0 exAPop "eexec").1.scanner.src = [10, 55, 32] := by decide +kernel

/-- the general theorems apply to this instance -/
example : (callBuiltin 20 0 exAPop "eexec").1.vm.dictStack.length = 3 :=
  eexec_restores_dict_depth 20 0 exAPop (by decide)

example : (callBuiltin 20 0 exAPop "eexec").1.vm.dictStack = exAPop.vm.dictStack :=
  eexec_restores_dict_entries_after_pops 19 0 exAPop [] rfl (by decide) [2] [0]
    (by rw [exPopTwice.2.1]; rfl) (by rw [exPopTwice.2.2.1]; rfl)

#print axioms truncDictStack_length_exact
#print axioms truncDictStack_length
#print axioms truncDictStack_length_of_le
#print axioms truncDictStack_length_short
#print axioms truncDictStack_length_iff
#print axioms truncDictStack_of_append
#print axioms truncDictStack_of_ghost
#print axioms ghostOK_self
#print axioms ghostOK_pushDict
#print axioms ghostOK_truncDictStack
#print axioms dcap_end
#print axioms dcap_begin
#print axioms ghostOK_begin
#print axioms ghostOK_end
#print axioms ghostOK_pureBuiltin
#print axioms ghostOK_interp
#print axioms scanRun_capacity
#print axioms eexecInner_capacity
#print axioms eexec_vm_eq
#print axioms eexec_restores_dict_depth
#print axioms eexec_stackunderflow
#print axioms eexec_refused_restores_dict_entries
#print axioms eexec_nested_refused
#print axioms eexec_no_scanner
#print axioms eexec_restores_dict_entries_when_not_popped_below
#print axioms eexec_restores_dict_entries_after_pops
#print axioms closeSection_vm
#print axioms closeSection_restores_depth
#print axioms eexec_operator_restores_depth_plain
#print axioms exTruncGhost
#print axioms exSeeded
#print axioms exPopTwice

end PsVerif.Props.C05
