import PsVerif.Proofs.Refill
/-!
# C12 — delivery independence, buffering layer

"The result of interpreting a program is the same whether the underlying reader delivers the
bytes all at once, one at a time, in arbitrary short reads, or together with the end-of-file
indication."

`Model/Scanner.lean` (and everything above it: `scanToken`, the interpreter) is a function of the
abstract scanner state, whose `src` is the whole remaining byte string.  This file closes the
gap below it: the real `refill`/`readByteRaw` over a buffer of any capacity `cap > 0` (512 in
`newScanner`) and a reader answering according to an ARBITRARY schedule `rd : Rd` is simulated
by the abstract scanner with `src := bs`, `fault := e`, where `(bs, e) = rd.delivered` is the
byte string the schedule delivers up to its first error and that error.

Quantifier: every schedule — any number of chunks of any size (larger than the buffer, one
byte, empty), an error with the last bytes or after them, `io.EOF` or any other error, any
finite number of `(0, nil)` answers, anything at all after the first error (the reader need
not repeat it: `refill` never calls it again, `no_read_after_error`).
Excluded: an endless sequence of `(0, nil)` answers (not expressible as a finite list; the Go
loop would spin for ever, as with `bufio` before its 100-empty-reads check); readers that break the
`io.Reader` contract (`n > len(p)`).  Chunks do not depend on the length of the slice offered
except by truncation; since that length is always `cap` (`read_never_empty_slice`) this loses
nothing.

What the upper layers can observe of this layer is exactly: the results of `readByteRaw`,
the field `s.err` (read by `ScanToken` '>', `BeginEexec`, `executeScanner`/`CheckStart`), and
`peek`/`regurgitate`, which they own.  All of it is covered by `Op`/`Obs`.

FINDING (fixed in /repo by 3164b19 and f155a2c, kept as a remark in `Model/Refill.lean`):
before the fix `refill` stored the reader's error in `s.err` while bytes delivered with it were
still unread, so the direct reads of `s.err` saw it early under "data together with the
error" schedules only.  After the fix (`srcErr`/`err` split, modelled here) the relation below
has `a.err = b.err` for every schedule.
-/
namespace PsVerif.Props.C12
open PsVerif.Model PsVerif.Model.Refill PsVerif.Proofs.Refill

/-- The simulation: `R` (see `Proofs/Refill.lean`: abstract `src` = unread buffer bytes ++ what
the schedule still delivers; `fault` = its final error; `peek`, `regurgitate`, `err` equal) is
preserved by every raw operation, with equal observations. -/
theorem refill_simulation (op : Op) (b : Buf) (a : Scanner) (h : R b a) :
    (stepB op b).1 = (stepA op a).1 ∧ R (stepB op b).2 (stepA op a).2 :=
  step_sim op b a h

/-- … and holds initially, for every schedule delivering `bs` then `e` and every capacity -/
theorem refill_simulation_init (cap : Nat) (hc : 0 < cap) (rd : Rd) (bs : List UInt8) (e : RdErr)
    (hd : rd.delivered = (bs, e)) : R (newBuf cap rd) (absInit bs e) :=
  init_sim cap hc rd bs e hd

/-- Refinement: for EVERY schedule that delivers the byte string `bs` and then the error `e`, any
sequence of raw operations (reads, looks at `s.err`, changes of `peek`/`regurgitate`) observes
on the buffered scanner exactly what it observes on the abstract scanner with `src := bs`. -/
theorem refill_refines (cap : Nat) (hc : 0 < cap) (rd : Rd) (bs : List UInt8) (e : RdErr)
    (hd : rd.delivered = (bs, e)) (ops : List Op) :
    runB ops (newBuf cap rd) = runA ops (absInit bs e) :=
  run_sim ops _ _ (init_sim cap hc rd bs e hd)

/-- the same for the real `newScanner` (512 bytes) -/
theorem newScanner_refines (rd : Rd) (bs : List UInt8) (e : RdErr) (hd : rd.delivered = (bs, e))
    (ops : List Op) : runB ops (newScanner rd) = runA ops (absInit bs e) :=
  refill_refines 512 (by decide) rd bs e hd ops

/-- … and for clients that choose each operation after seeing all earlier results (this is
what the rest of the scanner is: a deterministic function of what these operations return) -/
theorem refill_refines_adaptive (cap : Nat) (hc : 0 < cap) (rd : Rd) (bs : List UInt8) (e : RdErr)
    (hd : rd.delivered = (bs, e)) (c : Client) (n : Nat) :
    driveB c n [] (newBuf cap rd) = driveA c n [] (absInit bs e) :=
  drive_sim c n [] _ _ (init_sim cap hc rd bs e hd)

/-- Schedule independence: two schedules delivering the same bytes and the same final error
give the same observations for any sequence of raw operations — also with different buffer
capacities. -/
theorem refill_schedule_independent (cap1 cap2 : Nat) (h1 : 0 < cap1) (h2 : 0 < cap2) (rd1 rd2 : Rd)
    (hd : rd1.delivered = rd2.delivered) (ops : List Op) :
    runB ops (newBuf cap1 rd1) = runB ops (newBuf cap2 rd2) := by
  rw [refill_refines cap1 h1 rd1 rd1.delivered.1 rd1.delivered.2 rfl ops,
    refill_refines cap2 h2 rd2 rd1.delivered.1 rd1.delivered.2 (by rw [hd]) ops]

theorem refill_schedule_independent_adaptive (cap1 cap2 : Nat) (h1 : 0 < cap1) (h2 : 0 < cap2)
    (rd1 rd2 : Rd) (hd : rd1.delivered = rd2.delivered) (c : Client) (n : Nat) :
    driveB c n [] (newBuf cap1 rd1) = driveB c n [] (newBuf cap2 rd2) := by
  rw [refill_refines_adaptive cap1 h1 rd1 rd1.delivered.1 rd1.delivered.2 rfl c n,
    refill_refines_adaptive cap2 h2 rd2 rd1.delivered.1 rd1.delivered.2 (by rw [hd]) c n]

/-- `refill_stream` of DESIGN.md 8.12: under every schedule successive `readByteRaw` calls
return the delivered bytes in order and then the final error, for ever (no byte lost,
duplicated or reordered when unread bytes are moved; the error is never returned early) -/
theorem refill_stream (cap : Nat) (hc : 0 < cap) (rd : Rd) (n : Nat) :
    runB (List.replicate n .read) (newBuf cap rd)
      = (rd.delivered.1.map Obs.byte ++ List.replicate n (Obs.fail rd.delivered.2.toErr)).take n := by
  rw [refill_refines cap hc rd rd.delivered.1 rd.delivered.2 rfl,
    runA_reads n _ rfl (by intro e h; simp [absInit] at h)]
  simp [absInit, faultErr_toFault]

/-- `readByteRaw` never panics (index and slice bounds) and its loop always ends: it returns
a byte or the reader's error -/
theorem refill_no_panic (b : Buf) (a : Scanner) (h : R b a) :
    (∃ y, (readByteRaw b).1 = .ok y) ∨ (readByteRaw b).1 = .error (stream b).2.toErr :=
  readByteRaw_result b a h

/-- `refill` keeps the unread bytes `buf[pos:used]` (for any `pos ≤ used`, not only for the
empty buffer it is called with), appends what was read, and leaves the capacity alone -/
theorem refill_keeps_unread (b : Buf) (hw : WF b) (h : b.srcErr = none) :
    pending (refill b).2 = pending b ++ (rr b).1 ∧ WF (refill b).2
    ∧ (refill b).2.buf.length = b.buf.length := by
  obtain ⟨h1, h2, h3, _⟩ := refill_spec b hw h
  exact ⟨h3, h1, h2⟩

/-- `Read` is always offered the whole (non-empty) buffer -/
theorem read_never_empty_slice (b : Buf) (hw : WF b) (hp : b.pos ≥ b.used) :
    rr b = b.rd.read b.buf.length ∧ 0 < b.buf.length :=
  fillLoop_offers_cap b hw hp

/-- once the reader has returned an error it is not called again -/
theorem no_read_after_error (b : Buf) (e : RdErr) (h : b.srcErr = some e) : (refill b).2 = b :=
  PsVerif.Proofs.Refill.no_read_after_error b e h

/-! ### `type1/peekreader.go` -/

/-- a `peekReader` over the reader `p.r` answers every sequence of `Read` calls exactly like
the schedule "first the peeked bytes, then `p.r`" -/
theorem peekreader_is_schedule (ks : List Nat) (p : PeekRd) : PeekRd.reads ks p = Rd.reads ks p.toRd :=
  peekRd_reads ks p

/-- reading through `peek(r, n)`'s reader yields the same byte stream and the same final error
as `r` itself, for every schedule of a reader that repeats its error once it has returned one
(`sticky`; only needed when the error arrives during the `n`-byte look-ahead), and `head` is
the first `n` bytes (fewer at the end of input) -/
theorem peek_same_stream (r : Rd) (n : Nat) (hs : r.sticky = true) (head : List UInt8) (p : PeekRd)
    (h : peek r n = .ok (head, p)) :
    p.toRd.delivered = r.delivered ∧ head = r.delivered.1.take n ∧ p.buf = head :=
  peek_ok r n hs head p h

/-- `peek` fails only with the reader's own non-EOF error arriving before `n` bytes -/
theorem peek_fails_only_with_reader (r : Rd) (n : Nat) (e : RdErr) (h : peek r n = .error e) :
    r.delivered.2 = e ∧ r.delivered.1.length < n ∧ e ≠ .eof :=
  peek_error r n e h

/-- `peek_equiv` of DESIGN.md 8.12 for the scanner: interpreting through the `peekReader`
(non-seekable source) and interpreting the reader directly (what the seekable branch does
after seeking back) observe the same -/
theorem peek_equiv (cap : Nat) (hc : 0 < cap) (r : Rd) (n : Nat) (hs : r.sticky = true)
    (head : List UInt8) (p : PeekRd) (h : peek r n = .ok (head, p)) (ops : List Op) :
    runB ops (newBuf cap p.toRd) = runB ops (newBuf cap r) :=
  refill_schedule_independent cap cap hc hc _ _ (peek_ok r n hs head p h).1 ops

/-! ### non-vacuity -/

/-- a schedule with a chunk larger than the buffer, a `(0, nil)` answer, a one-byte read and
the error arriving together with the last two bytes -/
def exRd : Rd :=
  { chunks := [⟨[37, 33, 10], none⟩, ⟨[], none⟩, ⟨[49], none⟩, ⟨[32, 62], some .eof⟩, ⟨[99], none⟩] }

/-- the same bytes in one piece, EOF afterwards -/
def exRd1 : Rd := { chunks := [⟨[37, 33, 10, 49, 32, 62], none⟩] }

example : exRd.delivered = ([37, 33, 10, 49, 32, 62], .eof) := by decide
example : exRd1.delivered = exRd.delivered := by decide

/-- with a 2-byte buffer: six bytes, `s.err` still nil after the last of them (although the
reader has already reported EOF together with it), then EOF, then `s.err = EOF` -/
example :
    runB [.read, .read, .read, .read, .read, .getErr, .read, .getErr, .read, .getErr, .read] (newBuf 2 exRd)
      = [.byte 37, .byte 33, .byte 10, .byte 49, .byte 32, .errField none, .byte 62, .errField none,
         .fail .eof, .errField (some .eof), .fail .eof] := by decide

example : runB [.read, .read, .read, .read, .read, .getErr, .read, .getErr, .read, .getErr, .read] (newScanner exRd1)
      = runB [.read, .read, .read, .read, .read, .getErr, .read, .getErr, .read, .getErr, .read] (newBuf 2 exRd) :=
  refill_schedule_independent 512 2 (by decide) (by decide) exRd1 exRd (by decide) _

/-- `peek(r, 1)` on that schedule with a 1-byte look-ahead -/
example : exRd.sticky = false := by decide     -- `⟨[99], none⟩` after the EOF chunk
def exRd2 : Rd := { chunks := [⟨[], none⟩, ⟨[128, 1], none⟩, ⟨[7], some (.fault "x")⟩], fin := .fault "x" }
example : exRd2.sticky = true := by decide
example : ∃ p, peek exRd2 1 = .ok ([128], p) ∧ p.toRd.delivered = exRd2.delivered :=
  ⟨_, rfl, by decide⟩

/-- Why `sticky` is assumed for `peek`: `io.ReadFull` drops an error that arrives together with
the last byte it asked for; a reader that does not repeat that error (here: it goes on with
byte 66) is then read past its error.  Not a defect of `peek` for readers that keep failing
(files, `bytes.Reader`, network connections after a fatal error). -/
example :
    let r : Rd := { chunks := [⟨[65], some (.fault "x")⟩, ⟨[66], none⟩] }
    ∃ p, peek r 1 = .ok ([65], p) ∧ r.delivered = ([65], .fault "x") ∧ p.toRd.delivered = ([65, 66], .eof) :=
  ⟨_, rfl, by decide, by decide⟩

#print axioms refill_simulation
#print axioms refill_simulation_init
#print axioms refill_refines
#print axioms refill_refines_adaptive
#print axioms refill_schedule_independent
#print axioms refill_schedule_independent_adaptive
#print axioms refill_stream
#print axioms refill_no_panic
#print axioms refill_keeps_unread
#print axioms read_never_empty_slice
#print axioms peekreader_is_schedule
#print axioms peek_same_stream
#print axioms peek_fails_only_with_reader
#print axioms peek_equiv

end PsVerif.Props.C12
