import PsVerif.Props.C11
import PsVerif.Proofs.C11Start
/-!
# C11, last sentence — the start check: "once passed the check is not repeated on later calls"

`checkstart_rejects` (in `Props/C11.lean`) is the rejection half.  Here: the flag is cleared as soon
as the check has passed, whatever the call then returns; a rejected call leaves it armed; nothing in
the interpreter ever arms it; with the flag off the not-a-PostScript-file error is never returned;
and the corollary over histories of calls.
-/
namespace PsVerif.Props.C11
open PsVerif.Model PsVerif.Proofs.InterpCtl PsVerif.Proofs.C11Start

/-- one `Execute` call with the start check off (fresh scanner, so its sticky error is unset) -/
theorem execute_off (fuel m : Nat) (s : State) (input : List UInt8) (fault : Option String)
    (hcs : s.checkStart = false) :
    (execute fuel m s input fault).2 ≠ .err .noPS ∧ (execute fuel m s input fault).1.checkStart = false := by
  unfold execute
  dsimp only
  have g := (allOk m fuel).2.2.2.2.2.2.2.2.2.2.2.1 { s with scanner := { src := input, fault := fault } } hcs
  generalize scanRun fuel m { s with scanner := { src := input, fault := fault } } = p at g ⊢
  obtain ⟨s1, r⟩ := p
  have g2 := g.2 (by simp [J])
  dsimp only at g g2 ⊢
  refine ⟨?_, ?_⟩
  · split
    · simp
    · simp
    · simp
    · exact g2.2
  · split <;> exact g.1

/-- **3. with the start check off** a call never returns the not-a-PostScript-file error, and the
flag stays off: running a program never arms the check.  Every fuel, budget, state, input, fault. -/
theorem checkstart_off_never_rejects (fuel m : Nat) (s : State) (input : List UInt8) (fault : Option String)
    (hcs : s.checkStart = false) :
    (execute fuel m s input fault).2 ≠ .err .noPS ∧ (execute fuel m s input fault).1.checkStart = false :=
  execute_off fuel m s input fault hcs

/-- the check itself, on a fresh scanner whose input begins with `%!` -/
theorem scanRun_pass (fuel m : Nat) (s : State) (rest : List UInt8) (fault : Option String)
    (hcs : s.checkStart = true) :
    ∃ s1 : State, s1.checkStart = false ∧
      scanRun (fuel + 1) m { s with scanner := { src := 37 :: 33 :: rest, fault := fault } } =
        ({ (scanLoop fuel m s1).1 with scannerDepth := (scanLoop fuel m s1).1.scannerDepth - 1 }, (scanLoop fuel m s1).2) := by
  let sc1 : Scanner := { src := rest, fault := fault, peek := [37, 33] }
  refine ⟨{ s with scanner := sc1, checkStart := false, scannerDepth := s.scannerDepth + 1 }, rfl, ?_⟩
  simp [sc1, scanRun, hcs, withScanner, Scan.peekN, Scan.getS, Scan.attempt, Scan.readByte, Scan.readByteRaw,
    Scan.modS, bind, ExceptT.bind, ExceptT.mk, ExceptT.bindCont, StateT.bind, pure, ExceptT.pure, StateT.pure]

/-- **1. once passed, the flag is cleared — whatever the call returns** (normal end, `stop`, a stray
`exit`, a PostScript error, the budget error, a read error, the model's fuel running out): with the
start check on and input beginning with `%!`, the state after the call has `checkStart = false`, for
every fuel ≥ 1, every budget and every read fault. -/
theorem checkstart_passed_clears (fuel m : Nat) (s : State) (input : List UInt8) (fault : Option String)
    (hfuel : 1 ≤ fuel) (hcs : s.checkStart = true) (hin : input.take 2 = [37, 33]) :
    (execute fuel m s input fault).1.checkStart = false := by
  obtain ⟨f, rfl⟩ : ∃ f, fuel = f + 1 := ⟨fuel - 1, by omega⟩
  match input, hin with
  | a :: b :: rest, hin =>
    simp only [List.take_succ_cons, List.take_zero, List.cons.injEq, and_true] at hin
    obtain ⟨rfl, rfl⟩ := hin
    obtain ⟨s1, h1, e⟩ := scanRun_pass f m s rest fault hcs
    unfold execute
    dsimp only
    rw [e]
    have g := (allOk m f).2.2.2.2.2.2.2.2.2.2.2.2 s1 h1
    generalize scanLoop f m s1 = p at g ⊢
    obtain ⟨s2, r⟩ := p
    dsimp only
    split <;> exact g.1

/-- **2. a rejected call leaves the check armed** and the interpreter as it was: under the
hypotheses of `checkstart_rejects` the state after the call is the state before it, except that the
scanner of the call holds the two bytes it looked at in its look-ahead buffer. -/
theorem checkstart_rejected_state (fuel m : Nat) (s : State) (input : List UInt8)
    (hcs : s.checkStart = true) (hbad : input.take 2 ≠ [37, 33]) (hlen : input.length ≥ 2) :
    (execute (fuel + 1) m s input none).1 =
      { s with scanner := { src := input.drop 2, peek := input.take 2 } } := by
  match input, hlen, hbad with
  | a :: b :: rest, _, hbad =>
    have hne : ([a, b] == [37, 33]) = false := by
      simp only [List.take_succ_cons, List.take_zero] at hbad
      simpa using hbad
    simp [execute, scanRun, hcs, withScanner, Scan.peekN, Scan.getS, Scan.attempt, Scan.readByte, Scan.readByteRaw,
      Scan.modS, bind, ExceptT.bind, ExceptT.mk, ExceptT.bindCont, StateT.bind, pure, ExceptT.pure, StateT.pure, hne]

theorem checkstart_rejected_stays_armed (fuel m : Nat) (s : State) (input : List UInt8)
    (hcs : s.checkStart = true) (hbad : input.take 2 ≠ [37, 33]) (hlen : input.length ≥ 2) :
    (execute (fuel + 1) m s input none).1.checkStart = true := by
  rw [checkstart_rejected_state fuel m s input hcs hbad hlen]
  exact hcs

/-! ### histories of calls (`history` of `Props/C11.lean`) -/

/-- the part of a history after a prefix of calls is itself a history (from the state the prefix left) -/
theorem history_drop (m : Nat) (s : State) (pre post : List Call) :
    ∃ s', (history m s (pre ++ post)).drop pre.length = history m s' post := by
  induction pre generalizing s with
  | nil => exact ⟨s, rfl⟩
  | cons c pre ih =>
    simp only [List.cons_append, history, List.length_cons, List.drop_succ_cons]
    exact ih _

/-- from a state with the check off, no call of any history returns the not-a-PostScript-file error
and the check stays off -/
theorem checkstart_off_history (m : Nat) (s : State) (hcs : s.checkStart = false) (calls : List Call) :
    ∀ p ∈ history m s calls, p.2 ≠ .err .noPS ∧ p.1.checkStart = false := by
  induction calls generalizing s with
  | nil => intro p hp; simp [history] at hp
  | cons c rest ih =>
    intro p hp
    have h1 := execute_off c.fuel m s c.input c.fault hcs
    simp only [history, List.mem_cons] at hp
    rcases hp with rfl | hp
    · exact h1
    · exact ih _ h1.2 p hp

/-- **4. once one call has passed the check, no later call is rejected**: if a call `c` of a history
gets input beginning with `%!` (and at least one unit of fuel), then whatever `c` and the calls before
it returned, and whether or not the check was armed before `c`, every call after `c` returns something
other than the not-a-PostScript-file error, and the check is off after each of them. -/
theorem checkstart_not_repeated (m : Nat) (s : State) (pre : List Call) (c : Call) (post : List Call)
    (hfuel : 1 ≤ c.fuel) (hin : c.input.take 2 = [37, 33]) :
    ∀ p ∈ (history m s (pre ++ c :: post)).drop (pre.length + 1), p.2 ≠ .err .noPS ∧ p.1.checkStart = false := by
  obtain ⟨s', hs'⟩ := history_drop m s pre (c :: post)
  rw [← List.drop_drop, hs']
  simp only [history, List.drop_succ_cons, List.drop_zero]
  apply checkstart_off_history
  cases hs : s'.checkStart with
  | false => exact (execute_off c.fuel m s' c.input c.fault hs).2
  | true => exact checkstart_passed_clears c.fuel m s' c.input c.fault hfuel hs hin

/-! ### non-vacuity -/

/-- `%!⏎1 stop 2`: the call ends through `stop` (reported as success, `2` is never pushed) and the
flag is off afterwards -/
example : let p := execute 50 0 { newInterpreter with checkStart := true } [37, 33, 10, 49, 32, 115, 116, 111, 112, 32, 50] none
    (p.2, p.1.checkStart, p.1.vm.stack) = (.ok, false, [.int 1]) := by decide +kernel

/-- `%!⏎pop`: the call ends with `stackunderflow`, the flag is off afterwards -/
example : let p := execute 50 0 { newInterpreter with checkStart := true } [37, 33, 10, 112, 111, 112] none
    (p.2, p.1.checkStart) = (.err (.ps "stackunderflow"), false) := by decide +kernel

/-- `%!⏎1 2 3` under budget 2: the call ends with the budget error, the flag is off afterwards -/
example : let p := execute 50 2 { newInterpreter with checkStart := true } [37, 33, 10, 49, 32, 50, 32, 51] none
    (p.2, p.1.checkStart) = (.err .limit, false) := by decide +kernel

/-- `%!⏎exit`: a stray `exit` becomes `invalidexit`; too little fuel: `Res.fuel`; flag off both times -/
example : let p := execute 50 0 { newInterpreter with checkStart := true } [37, 33, 10, 101, 120, 105, 116] none
    (p.2, p.1.checkStart) = (.err (.ps "invalidexit"), false) := by decide +kernel
example : let p := execute 2 0 { newInterpreter with checkStart := true } [37, 33, 10, 49, 32, 50] none
    (p.2, p.1.checkStart) = (.fuel, false) := by decide +kernel

/-- a history: rejected (`(a)`), still armed; passed and stopped; then `(a)` again is accepted -/
example : (history 0 { newInterpreter with checkStart := true }
      [⟨50, [40, 97, 41], none⟩, ⟨50, [37, 33, 10, 49, 32, 115, 116, 111, 112], none⟩, ⟨50, [40, 97, 41], none⟩]).map
    (fun p => (p.2, p.1.checkStart)) = [(.err .noPS, true), (.ok, false), (.ok, false)] := by decide +kernel

/-- the hypotheses of the theorems are met by these examples -/
example : (execute 50 0 { newInterpreter with checkStart := true } [37, 33, 10, 112, 111, 112] none).1.checkStart = false :=
  checkstart_passed_clears 50 0 _ _ none (by decide) rfl (by decide)

#print axioms checkstart_off_never_rejects
#print axioms checkstart_passed_clears
#print axioms checkstart_rejected_state
#print axioms checkstart_rejected_stays_armed
#print axioms checkstart_off_history
#print axioms checkstart_not_repeated

end PsVerif.Props.C11
