import PsVerif.Model.Cipher
/-!
Cipher theorems shared by C05, C06, C08, C09 (all states, all bytes, any length).
-/
namespace PsVerif.Props.Cipher
open PsVerif.Model.Cipher

theorem xor_cancel (a b : UInt8) : (a ^^^ b) ^^^ b = a := by
  rw [UInt8.xor_assoc, UInt8.xor_self, UInt8.xor_zero]

/-- decrypting what was encrypted gives the plaintext back, from every cipher state -/
theorem dec_enc (r : UInt16) (ps : List UInt8) : decrypt r (encrypt r ps) = ps := by
  induction ps generalizing r with
  | nil => rfl
  | cons p ps ih =>
    simp only [encrypt, decrypt, encStep, decStep, xor_cancel]
    rw [ih]

/-- and the other way round -/
theorem enc_dec (r : UInt16) (cs : List UInt8) : encrypt r (decrypt r cs) = cs := by
  induction cs generalizing r with
  | nil => rfl
  | cons c cs ih =>
    simp only [encrypt, decrypt, encStep, decStep, xor_cancel]
    rw [ih]

theorem encrypt_length (r : UInt16) (ps : List UInt8) : (encrypt r ps).length = ps.length := by
  induction ps generalizing r with
  | nil => rfl
  | cons p ps ih => simp [encrypt, ih]

theorem decrypt_length (r : UInt16) (cs : List UInt8) : (decrypt r cs).length = cs.length := by
  induction cs generalizing r with
  | nil => rfl
  | cons c cs ih => simp [decrypt, ih]

/-- L1 of C06/C08: for every `lenIV = iv.length ≥ 0`, every iv and every charstring -/
theorem deobf_obf (iv plain : List UInt8) :
    deobfuscate (obfuscate iv plain) iv.length = some plain := by
  unfold deobfuscate obfuscate
  have h1 : ¬ ((iv.length : Int) < 0) := by omega
  have h2 : ¬ (((encrypt charstringR (iv ++ plain)).length : Int) < iv.length) := by
    rw [encrypt_length]; simp; omega
  simp only [h1, h2, or_self, if_false, dec_enc]
  simp

/-- non-vacuity / regression: the documented example of the Type 1 book style -/
example : decrypt eexecR (encrypt eexecR [0x58, 0, 0, 0, 0x64, 0x75, 0x70]) = [0x58, 0, 0, 0, 0x64, 0x75, 0x70] := by
  decide

/-- negative or too large lenIV gives the Go `nil` (fix for the lenIV panic) -/
theorem deobf_negative (cs : List UInt8) (n : Int) (h : n < 0) : deobfuscate cs n = none := by
  simp [deobfuscate, h]

end PsVerif.Props.Cipher
