import PsVerif.Model.Cipher
/-!
Cipher theorems shared by C05, C06, C08, C09 (all states, all bytes, any length).
-/
namespace PsVerif.Props.Cipher
open PsVerif.Model.Cipher

theorem xor_cancel (a b : UInt8) : (a ^^^ b) ^^^ b = a := by
  rw [UInt8.xor_assoc, UInt8.xor_self, UInt8.xor_zero]

/-- decrypting what was encrypted gives the plaintext back, from every cipher state -/
theorem dec_enc (r : UInt16) (ps : List UInt8) : decrypt r (encrypt r ps) = ps := by
  induction ps generalizing r with
  | nil => rfl
  | cons p ps ih =>
    simp only [encrypt, decrypt, encStep, decStep, xor_cancel]
    rw [ih]

/-- and the other way round -/
theorem enc_dec (r : UInt16) (cs : List UInt8) : encrypt r (decrypt r cs) = cs := by
  induction cs generalizing r with
  | nil => rfl
  | cons c cs ih =>
    simp only [encrypt, decrypt, encStep, decStep, xor_cancel]
    rw [ih]

theorem encrypt_length (r : UInt16) (ps : List UInt8) : (encrypt r ps).length = ps.length := by
  induction ps generalizing r with
  | nil => rfl
  | cons p ps ih => simp [encrypt, ih]

theorem decrypt_length (r : UInt16) (cs : List UInt8) : (decrypt r cs).length = cs.length := by
  induction cs generalizing r with
  | nil => rfl
  | cons c cs ih => simp [decrypt, ih]

/-- L1 of C06/C08: for every `lenIV = iv.length ≥ 0`, every iv and every charstring -/
theorem deobf_obf (iv plain : List UInt8) :
    deobfuscate (obfuscate iv plain) iv.length = some plain := by
  unfold deobfuscate obfuscate
  have h1 : ¬ ((iv.length : Int) < 0) := by omega
  have h2 : ¬ (((encrypt charstringR (iv ++ plain)).length : Int) < iv.length) := by
    rw [encrypt_length]; simp; omega
  simp only [h1, h2, or_self, if_false, dec_enc]
  simp

/-- non-vacuity / regression: the documented example of the Type 1 book style -/
example : decrypt eexecR (encrypt eexecR [0x58, 0, 0, 0, 0x64, 0x75, 0x70]) = [0x58, 0, 0, 0, 0x64, 0x75, 0x70] := by
  decide

/-- negative or too large lenIV gives the Go `nil` (fix for the lenIV panic) -/
theorem deobf_negative (cs : List UInt8) (n : Int) (h : n < 0) : deobfuscate cs n = none := by
  simp [deobfuscate, h]

/-! ### No information is lost, and decoding never retracts (added for C05/C06/C08/C09)

The reader decrypts a stream as it arrives; the writer encrypts chunk by chunk.  What a user relies on beyond the
round trip: two different plaintexts never share a ciphertext (from any state), the plaintext of a prefix of the
ciphertext is the prefix of the plaintext (so bytes already handed to the scanner are never revised by later input),
and `deobfuscateCharstring` answers `nil` exactly outside `0 ≤ lenIV ≤ len`. -/

/-- encryption is injective from every cipher state -/
theorem encrypt_inj (r : UInt16) (a b : List UInt8) (h : encrypt r a = encrypt r b) : a = b := by
  have := congrArg (decrypt r) h
  rwa [dec_enc, dec_enc] at this

/-- decryption is injective from every cipher state -/
theorem decrypt_inj (r : UInt16) (a b : List UInt8) (h : decrypt r a = decrypt r b) : a = b := by
  have := congrArg (encrypt r) h
  rwa [enc_dec, enc_dec] at this

/-- every byte string is the ciphertext of exactly one plaintext (and vice versa): the cipher is a bijection
on strings of each length, from every state -/
theorem encrypt_surj (r : UInt16) (cs : List UInt8) : ∃ ps, encrypt r ps = cs ∧ ps.length = cs.length :=
  ⟨decrypt r cs, enc_dec r cs, decrypt_length r cs⟩

/-- the plaintext of a prefix is the prefix of the plaintext: later cipher bytes never change earlier plain bytes -/
theorem decrypt_take (r : UInt16) (cs : List UInt8) (n : Nat) :
    decrypt r (cs.take n) = (decrypt r cs).take n := by
  induction cs generalizing r n with
  | nil => simp [decrypt]
  | cons c cs ih =>
    cases n with
    | zero => simp [decrypt]
    | succ n => simp only [List.take_succ_cons, decrypt, ih]

/-- the same for the writer: the ciphertext of a prefix is the prefix of the ciphertext -/
theorem encrypt_take (r : UInt16) (ps : List UInt8) (n : Nat) :
    encrypt r (ps.take n) = (encrypt r ps).take n := by
  induction ps generalizing r n with
  | nil => simp [encrypt]
  | cons p ps ih =>
    cases n with
    | zero => simp [encrypt]
    | succ n => simp only [List.take_succ_cons, encrypt, ih]

/-- `deobfuscateCharstring` answers `nil` exactly when `lenIV` is negative or exceeds the length -/
theorem deobf_none_iff (cs : List UInt8) (n : Int) :
    deobfuscate cs n = none ↔ (n < 0 ∨ (cs.length : Int) < n) := by
  unfold deobfuscate
  split <;> simp_all

/-- and otherwise returns exactly `len - lenIV` bytes, the tail of the decryption -/
theorem deobf_some_length (cs p : List UInt8) (n : Int) (h : deobfuscate cs n = some p) :
    0 ≤ n ∧ n ≤ cs.length ∧ (p.length : Int) = cs.length - n := by
  unfold deobfuscate at h
  split at h
  · cases h
  · rename_i hn
    have h0 : 0 ≤ n := by omega
    have h1 : n ≤ cs.length := by omega
    injection h with h
    subst h
    refine ⟨h0, h1, ?_⟩
    rw [List.length_drop, decrypt_length]
    omega

/-- a charstring with too large a `lenIV` is rejected, never read out of bounds -/
theorem deobf_too_long (cs : List UInt8) (n : Int) (h : (cs.length : Int) < n) : deobfuscate cs n = none :=
  (deobf_none_iff cs n).2 (Or.inr h)

/-- the recovered charstring does not depend on which `lenIV` lead bytes the writer chose -/
theorem deobf_iv_irrelevant (iv iv' plain : List UInt8) (h : iv.length = iv'.length) :
    deobfuscate (obfuscate iv plain) iv.length = deobfuscate (obfuscate iv' plain) iv.length := by
  rw [deobf_obf, h, deobf_obf]

/-- non-vacuity: a prefix and the bounds -/
example : decrypt eexecR ([1, 2, 3, 4, 5].take 3) = (decrypt eexecR [1, 2, 3, 4, 5]).take 3 := by decide
example : deobfuscate [1, 2, 3] 4 = none ∧ deobfuscate [1, 2, 3] (-1) = none ∧
    (deobfuscate [1, 2, 3] 3) = some [] := by decide

end PsVerif.Props.Cipher
