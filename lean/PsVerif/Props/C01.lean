import PsVerif.Model.Init
import PsVerif.Props.Cipher
/-!
# C01 — hostile input never crashes the readers (interpreter part)

In the model every Go operation that could panic is an explicit `Err.panic` outcome.
Proved here: the guards that were missing in the repository (repaired by `fix:` commits)
now exclude the panic for *every* operand value, and the purely arithmetic panic sites are
unreachable.  The panic sites that depend on the heap invariant ("every view lies inside
its store") are covered by the correspondence suite `hostile` only — see DESIGN.md 8.1.
-/
namespace PsVerif.Props.C01
open PsVerif.Model

/-- `n copy` with any count larger than the stack (in particular `maxint`): stackunderflow,
never a slice out of range -/
theorem copy_huge (v : VM) (n : Int) (rest : List Obj) (h : v.stack = .int n :: rest) (hn : n > rest.length) :
    bCopy v = (v, .err (.ps "stackunderflow")) := by
  unfold bCopy
  rw [h]
  have : ¬ n < 0 := by omega
  simp [this, hn, psErr]

/-- `putinterval` with any index beyond `len(dst) - len(src)`: rangecheck for arrays and strings -/
theorem putinterval_huge (v : VM) (index : Int) (r o l r2 o2 l2 : Nat) (rest : List Obj)
    (h : v.stack = .arr r2 o2 l2 :: .int index :: .arr r o l :: rest) (hi : index > (l : Int) - l2) :
    bPutinterval v = (v, .err (.ps "rangecheck")) := by
  unfold bPutinterval
  rw [h]
  by_cases h0 : index < 0 <;> simp [h0, hi, psErr]

theorem putinterval_huge_str (v : VM) (index : Int) (r o l r2 o2 l2 : Nat) (rest : List Obj)
    (h : v.stack = .str r2 o2 l2 :: .int index :: .str r o l :: rest) (hi : index > (l : Int) - l2) :
    bPutinterval v = (v, .err (.ps "rangecheck")) := by
  unfold bPutinterval
  rw [h]
  by_cases h0 : index < 0 <;> simp [h0, hi, psErr]

/-- the default error handler outside of error handling returns normally -/
theorem default_handler_idle (s : State) (h : s.errors = []) : defaultErrorHandler s = (s, .ok) := by
  unfold defaultErrorHandler; rw [h]; rfl

/-- `bind` never recurses deeper than 100 levels: beyond that it answers `limitcheck` -/
theorem bind_depth_limit (fuel : Nat) (v : VM) (r o l depth : Nat) (h : depth > 100) :
    bindProc (fuel + 1) v r o l depth = (v, .err (.ps "limitcheck")) := by
  simp only [bindProc]
  have : depth > maxBindDepth := h
  simp [this, psErr]

/-- case analysis over all branches of an operator, then each leaf is a non-panic result -/
macro "nopanic" : tactic =>
  `(tactic| ((repeat' (first | split | dsimp only)) <;> simp [psErr, okRes, VM.push]))

/-- `index` never indexes outside the stack: the panic branch of the model is unreachable -/
theorem index_no_panic (v : VM) (site : String) : (bIndex v).2 ≠ .err (.panic site) := by
  unfold bIndex
  split
  · split
    · dsimp only
      split
      · simp [psErr]
      · next hnot =>
        split
        · simp [okRes]
        · next hnone =>
          exfalso
          rw [List.getElem?_eq_none_iff] at hnone
          simp only [List.length_cons] at hnot hnone
          omega
    · simp [psErr]
  · simp [psErr]

/-- the stack operators and arithmetic never panic, whatever the operands -/
theorem arith_no_panic (v : VM) (site : String) :
    (bAdd v).2 ≠ .err (.panic site) ∧ (bSub v).2 ≠ .err (.panic site) ∧ (bMul v).2 ≠ .err (.panic site) ∧
    (bAbs v).2 ≠ .err (.panic site) ∧ (bRoll v).2 ≠ .err (.panic site) ∧ (bCopy v).2 ≠ .err (.panic site) ∧
    (bPutinterval v).2 ≠ .err (.panic site) ∧ (bGetinterval v).2 ≠ .err (.panic site) := by
  refine ⟨?_, ?_, ?_, ?_, ?_, ?_, ?_, ?_⟩
  · unfold bAdd arith; nopanic
  · unfold bSub arith; nopanic
  · unfold bMul arith; nopanic
  · unfold bAbs; nopanic
  · unfold bRoll; nopanic
  · unfold bCopy; nopanic
  · unfold bPutinterval; nopanic
  · unfold bGetinterval; nopanic

/-- a negative `lenIV` gives the empty result instead of a huge allocation -/
theorem lenIV_negative (cs : List UInt8) (n : Int) (h : n < 0) : Cipher.deobfuscate cs n = none :=
  PsVerif.Props.Cipher.deobf_negative cs n h

end PsVerif.Props.C01
