import PsVerif.Proofs.C17Select
/-!
# C17 — which CMap / which font is returned does not depend on map iteration order

Go code: the end of `ReadCMap` (`cmap.go`) and the selection of the font dictionary in `type1.Read`
(`type1/read.go`); model `PsVerif/Model/Select.lean`.  `CMapDirectory` and `FontDirectory` are Go maps; a map is
modelled as an association list with distinct keys IN ARBITRARY ORDER, and "iteration order" is the order of that
list.  Two runs over the same bytes build the same map (the interpreter model is a function) but may visit it in
two different orders: two lists related by `List.Perm`.

What is proved, for every value type `V`, every test `isDict` and directories of any size:

* `pickCMap_perm`: with distinct keys, permuting the directory does not change the entry `ReadCMap` returns
  (nor whether it reports "no valid CMap found").
* `pickCMap_min`, `pickCMap_none_iff`, `pickCMap_unique`: the entry returned is the dictionary-valued entry with
  the smallest name in byte order, the empty name being the smallest of all (`empty_key_wins`); there is exactly
  one such entry; the error is reported iff no value is a dictionary.
* `pickCMap_anySort`, `pickCMap_mergeSort`: nothing depends on the sorting method: any sorted rearrangement of
  the key snapshot (in particular core's `List.mergeSort`) gives the same entry.
* `cmapNameAfter_*`: the `CMapName` stored in the returned dictionary.
* `pickFont_perm`, `pickFont_spec`, `pickFont_ok_iff`, `pickFont_error_iff`: `type1.Read` takes an entry iff the
  directory has exactly one entry and that entry is a dictionary; the outcome is independent of the order.
  (Finding, visible in the code: the Go variable `key` is never assigned in the loop, so a font dictionary
  without `FontName` gets the empty name rather than its `FontDirectory` key.  Not order-dependent.)
* separation from the seeded changes: `singlePass_differs` (the single pass with `""` as "none yet" returns two
  different CMaps for two orders of one directory, and neither is the one `ReadCMap` returns),
  `singlePass_loses_only_cmap` (a file whose only CMap has the empty name is rejected), `anyCount_differs`
  (accepting several fonts makes the result depend on the order).
-/
namespace PsVerif.Props.C17
open PsVerif.Model.Select PsVerif.Proofs.C17Select

/-- the keys of a Go map are distinct -/
def DistinctKeys {V : Type} (dir : List (Key × V)) : Prop := (dir.map (·.1)).Nodup

instance {V : Type} (dir : List (Key × V)) : Decidable (DistinctKeys dir) :=
  inferInstanceAs (Decidable (List.Nodup _))

/-- core has no `DecidableEq (Except ε α)`; used by the `decide` examples only -/
local instance {ε α : Type} [DecidableEq ε] [DecidableEq α] : DecidableEq (Except ε α)
  | .ok a, .ok b => if h : a = b then isTrue (by rw [h]) else isFalse (fun e => h (by cases e; rfl))
  | .error a, .error b => if h : a = b then isTrue (by rw [h]) else isFalse (fun e => h (by cases e; rfl))
  | .ok _, .error _ => isFalse (fun e => by cases e)
  | .error _, .ok _ => isFalse (fun e => by cases e)

theorem DistinctKeys.perm {V : Type} {d₁ d₂ : List (Key × V)} (p : d₁.Perm d₂) (h : DistinctKeys d₁) :
    DistinctKeys d₂ :=
  (List.Perm.nodup_iff (List.Perm.map _ p)).mp h

/-! ## `ReadCMap` -/

/-- The entry returned is an entry of the directory, its value is a dictionary, and its name is `≤` (byte order)
the name of every dictionary-valued entry. -/
theorem pickCMap_min {V : Type} (isDict : V → Bool) (dir : List (Key × V)) (hn : DistinctKeys dir) (e : Key × V)
    (h : pickCMap isDict dir = some e) :
    e ∈ dir ∧ isDict e.2 = true ∧ ∀ e' ∈ dir, isDict e'.2 = true → nameLe e.1 e'.1 = true := by
  obtain ⟨k, v⟩ := e
  obtain ⟨_, hl, hd, hmin⟩ := firstDict_some isDict dir k v _ (sortKeys_sorted _) h
  refine ⟨lookup_some_mem k v dir hl, hd, ?_⟩
  intro e' he' hd'
  obtain ⟨k', v'⟩ := e'
  have hk' : k' ∈ sortKeys (dir.map (·.1)) := (mem_sortKeys _ _).mpr (List.mem_map.mpr ⟨(k', v'), he', rfl⟩)
  exact hmin k' hk' v' (lookup_of_mem k' v' dir hn he') hd'

/-- "no valid CMap found" iff no value is a dictionary -/
theorem pickCMap_none_iff {V : Type} (isDict : V → Bool) (dir : List (Key × V)) (hn : DistinctKeys dir) :
    pickCMap isDict dir = none ↔ ∀ e ∈ dir, isDict e.2 = false := by
  unfold pickCMap
  rw [firstDict_none]
  constructor
  · intro h e he
    obtain ⟨k, v⟩ := e
    exact h k ((mem_sortKeys _ _).mpr (List.mem_map.mpr ⟨(k, v), he, rfl⟩)) v (lookup_of_mem k v dir hn he)
  · intro h k _ v hl
    exact h (k, v) (lookup_some_mem k v dir hl)

/-- the minimal dictionary-valued entry is unique: the specification `pickCMap_min` determines the result -/
theorem pickCMap_unique {V : Type} (isDict : V → Bool) (dir : List (Key × V)) (hn : DistinctKeys dir) (e : Key × V)
    (he : e ∈ dir) (hd : isDict e.2 = true) (hmin : ∀ e' ∈ dir, isDict e'.2 = true → nameLe e.1 e'.1 = true) :
    pickCMap isDict dir = some e := by
  cases hp : pickCMap isDict dir with
  | none =>
    have := (pickCMap_none_iff isDict dir hn).mp hp e he
    rw [hd] at this
    cases this
  | some e₀ =>
    obtain ⟨he₀, hd₀, hmin₀⟩ := pickCMap_min isDict dir hn e₀ hp
    have hk : e₀.1 = e.1 := nameLe_antisymm _ _ (hmin₀ e he hd) (hmin e₀ he₀ hd₀)
    rw [entry_unique dir hn e₀ e he₀ he hk]

/-- **Order independence of `ReadCMap`.**  Two visits of the same map (distinct keys) in two different orders
return the same entry, or both report "no valid CMap found". -/
theorem pickCMap_perm {V : Type} (isDict : V → Bool) (dir₁ dir₂ : List (Key × V)) (hn : DistinctKeys dir₁)
    (p : dir₁.Perm dir₂) : pickCMap isDict dir₁ = pickCMap isDict dir₂ := by
  have hn₂ := hn.perm p
  cases h₁ : pickCMap isDict dir₁ with
  | none =>
    symm
    rw [pickCMap_none_iff isDict dir₂ hn₂]
    intro e he
    exact (pickCMap_none_iff isDict dir₁ hn).mp h₁ e (p.mem_iff.mpr he)
  | some e =>
    obtain ⟨he, hd, hmin⟩ := pickCMap_min isDict dir₁ hn e h₁
    symm
    exact pickCMap_unique isDict dir₂ hn₂ e (p.mem_iff.mp he) hd
      (fun e' he' hd' => hmin e' (p.mem_iff.mpr he') hd')

/-- a CMap registered under the empty name is the one returned -/
theorem empty_key_wins {V : Type} (isDict : V → Bool) (dir : List (Key × V)) (hn : DistinctKeys dir) (v : V)
    (he : ([], v) ∈ dir) (hd : isDict v = true) : pickCMap isDict dir = some ([], v) :=
  pickCMap_unique isDict dir hn ([], v) he hd (fun e' _ _ => nameLe_nil e'.1)

/-- Nothing depends on the sorting method: the loop over ANY sorted rearrangement of the key snapshot returns the
same entry. -/
theorem pickCMap_anySort {V : Type} (isDict : V → Bool) (dir : List (Key × V)) (ks : List Key)
    (hp : ks.Perm (dir.map (·.1))) (hs : ks.Pairwise (fun a b => nameLe a b = true)) :
    firstDict isDict dir ks = pickCMap isDict dir := by
  have : ks = sortKeys (dir.map (·.1)) :=
    List.Perm.eq_of_pairwise (fun a b _ _ h1 h2 => nameLe_antisymm a b h1 h2) hs (sortKeys_sorted _)
      (hp.trans (sortKeys_perm _).symm)
  rw [this]
  rfl

/-- in particular with core's merge sort -/
theorem pickCMap_mergeSort {V : Type} (isDict : V → Bool) (dir : List (Key × V)) :
    firstDict isDict dir ((dir.map (·.1)).mergeSort nameLe) = pickCMap isDict dir :=
  pickCMap_anySort isDict dir _ (List.mergeSort_perm _ _)
    (List.pairwise_mergeSort (fun a b c => nameLe_trans a b c) (fun a b => nameLe_total a b) _)

/-- the sorted key snapshot is the same for every iteration order -/
theorem sortKeys_unique (ks₁ ks₂ : List Key) (p : ks₁.Perm ks₂) : sortKeys ks₁ = sortKeys ks₂ :=
  List.Perm.eq_of_pairwise (fun a b _ _ h1 h2 => nameLe_antisymm a b h1 h2) (sortKeys_sorted _) (sortKeys_sorted _)
    ((sortKeys_perm ks₁).trans (p.trans (sortKeys_perm ks₂).symm))

/-! ## the `CMapName` of the returned dictionary -/

theorem cmapNameAfter_keeps (key n : Key) (h : n ≠ []) : cmapNameAfter key (some n) = n := by
  simp [cmapNameAfter, h]

theorem cmapNameAfter_fills (key : Key) (current : Option Key) (h : current = none ∨ current = some []) :
    cmapNameAfter key current = key := by
  rcases h with h | h <;> simp [cmapNameAfter, h]

/-- the name stored depends only on the returned entry, hence not on the iteration order either -/
theorem cmapName_perm {V : Type} (isDict : V → Bool) (nameOf : V → Option Key) (dir₁ dir₂ : List (Key × V))
    (hn : DistinctKeys dir₁) (p : dir₁.Perm dir₂) :
    (pickCMap isDict dir₁).map (fun e => cmapNameAfter e.1 (nameOf e.2)) =
    (pickCMap isDict dir₂).map (fun e => cmapNameAfter e.1 (nameOf e.2)) := by
  rw [pickCMap_perm isDict dir₁ dir₂ hn p]

/-! ## `type1.Read` -/

/-- an entry is taken iff it is the only entry and a dictionary -/
theorem pickFont_spec {V : Type} (isDict : V → Bool) (dir : List (Key × V)) (e : Key × V) :
    pickFont isDict dir = .ok e ↔ dir = [e] ∧ isDict e.2 = true := by
  unfold pickFont
  match dir with
  | [] => simp
  | [(k, v)] =>
    by_cases hd : isDict v = true
    · simp only [List.length_cons, List.length_nil, ne_eq, not_true_eq_false, ↓reduceIte, firstDictEntry, hd]
      constructor
      · intro h; cases h; exact ⟨rfl, hd⟩
      · rintro ⟨h, _⟩; cases h; rfl
    · simp only [List.length_cons, List.length_nil, ne_eq, not_true_eq_false, ↓reduceIte, firstDictEntry, hd]
      constructor
      · intro h; cases h
      · rintro ⟨h, h'⟩; cases h; exact absurd h' hd
  | _ :: _ :: _ => simp

/-- the call succeeds iff the directory has exactly one entry and it is a dictionary -/
theorem pickFont_ok_iff {V : Type} (isDict : V → Bool) (dir : List (Key × V)) :
    (∃ e, pickFont isDict dir = .ok e) ↔ dir.length = 1 ∧ ∀ e ∈ dir, isDict e.2 = true := by
  constructor
  · rintro ⟨e, h⟩
    obtain ⟨rfl, hd⟩ := (pickFont_spec isDict dir e).mp h
    exact ⟨rfl, fun e' he' => by rw [List.mem_singleton.mp he']; exact hd⟩
  · rintro ⟨hl, hd⟩
    match dir, hl, hd with
    | [e], _, hd => exact ⟨e, (pickFont_spec isDict [e] e).mpr ⟨rfl, hd e List.mem_cons_self⟩⟩

/-- "expected exactly one font in file" iff the number of entries is not 1; "wrong FontType" iff the only entry is
not a dictionary -/
theorem pickFont_error_iff {V : Type} (isDict : V → Bool) (dir : List (Key × V)) :
    (pickFont isDict dir = .error .notOneFont ↔ dir.length ≠ 1) ∧
    (pickFont isDict dir = .error .wrongFontType ↔ ∃ e, dir = [e] ∧ isDict e.2 = false) := by
  unfold pickFont
  match dir with
  | [] => simp
  | [(k, v)] => cases hd : isDict v <;> simp [firstDictEntry, hd]
  | _ :: _ :: _ => simp

/-- **Order independence of the font selection** (no hypothesis on the keys is needed) -/
theorem pickFont_perm {V : Type} (isDict : V → Bool) (dir₁ dir₂ : List (Key × V)) (p : dir₁.Perm dir₂) :
    pickFont isDict dir₁ = pickFont isDict dir₂ := by
  by_cases hl : dir₁.length = 1
  · match dir₁, hl with
    | [e], _ => rw [List.singleton_perm.mp p]
  · have hl₂ : dir₂.length ≠ 1 := fun h => hl (p.length_eq.trans h)
    simp [pickFont, hl, hl₂]

/-! ## separation from the seeded changes -/

def kBeta : Key := [66, 101, 116, 97]
def kAlpha : Key := [65, 108, 112, 104, 97]

#guard kBeta = ofString "Beta" && kAlpha = ofString "Alpha"

/-- three CMaps, one registered under the empty name; the values are labels, all of them dictionaries -/
def dirA : List (Key × Nat) := [(kBeta, 1), ([], 2), (kAlpha, 3)]
/-- the same map visited in another order -/
def dirB : List (Key × Nat) := [(kAlpha, 3), ([], 2), (kBeta, 1)]

/-- The single pass that reads `""` as "nothing found yet" returns two different CMaps for two iteration orders
of one and the same directory, and neither is the one `ReadCMap` returns (the CMap with the empty name, in both
orders). -/
theorem singlePass_differs :
    dirA.Perm dirB ∧ DistinctKeys dirA ∧
    pickCMap (fun _ => true) dirA = some ([], 2) ∧
    pickCMap (fun _ => true) dirB = some ([], 2) ∧
    pickCMapSinglePass (fun _ => true) dirA = some (kAlpha, 3) ∧
    pickCMapSinglePass (fun _ => true) dirB = some (kBeta, 1) := by
  refine ⟨?_, by decide, by decide, by decide, by decide, by decide⟩
  decide

/-- with the empty-named CMap as the only one the single pass reports "no valid CMap found" -/
theorem singlePass_loses_only_cmap :
    pickCMap (fun _ => true) [(([] : Key), 7)] = some ([], 7) ∧
    pickCMapSinglePass (fun _ => true) [(([] : Key), 7)] = none := by
  decide

/-- accepting several fonts and taking "the first": the result follows the iteration order, while `Read` rejects
the file in both orders -/
theorem anyCount_differs :
    pickFontAnyCount (fun _ => true) dirA = .ok (kBeta, 1) ∧
    pickFontAnyCount (fun _ => true) dirB = .ok (kAlpha, 3) ∧
    pickFont (fun _ => true) dirA = .error .notOneFont ∧
    pickFont (fun _ => true) dirB = .error .notOneFont := by
  decide

/-! ## non-vacuity -/

/-- `isDict`: even labels are dictionaries -/
def evenDict (n : Nat) : Bool := n % 2 == 0

/-- a directory where the smallest names are NOT dictionaries: they are skipped, in every order -/
def dirC : List (Key × Nat) := [(kBeta, 4), ([], 1), (kAlpha, 3), ([90], 6)]

example : DistinctKeys dirC := by decide
example : pickCMap evenDict dirC = some (kBeta, 4) := by decide
example : pickCMap evenDict dirC.reverse = some (kBeta, 4) := by decide
example : pickCMap evenDict [(kBeta, 4), ([], 1), (kAlpha, 3), ([90], 6)] =
    pickCMap evenDict [([90], 6), (kAlpha, 3), (kBeta, 4), ([], 1)] :=
  pickCMap_perm evenDict _ _ (by decide) (by decide)
/-- no dictionary at all: the error -/
example : pickCMap evenDict [(kBeta, 1), (kAlpha, 3)] = none := by decide
/-- the hypothesis of distinct keys is needed (a list with a repeated key is not a Go map): -/
example : pickCMap evenDict [(kBeta, 1), (kBeta, 2)] ≠ pickCMap evenDict [(kBeta, 2), (kBeta, 1)] := by decide
/-- the byte order is not the order of lengths nor case-insensitive: "Beta" < "alpha", "Alpha" < "Beta", "" first -/
example : nameLe kBeta (97 :: kAlpha.tail) = true ∧ nameLe kAlpha kBeta = true ∧ nameLe kBeta kAlpha = false ∧
    nameLe [] kAlpha = true ∧ nameLe kAlpha [] = false := by decide
example : sortKeys [kBeta, [], kAlpha] = [[], kAlpha, kBeta] := by decide
example : pickFont evenDict [(kBeta, 4)] = .ok (kBeta, 4) := by decide
example : pickFont evenDict [(kBeta, 3)] = .error .wrongFontType := by decide
example : pickFont evenDict ([] : List (Key × Nat)) = .error .notOneFont := by decide
example : cmapNameAfter kBeta (some kAlpha) = kAlpha ∧ cmapNameAfter kBeta (some []) = kBeta ∧
    cmapNameAfter kBeta none = kBeta := by decide

end PsVerif.Props.C17

#print axioms PsVerif.Props.C17.pickCMap_min
#print axioms PsVerif.Props.C17.pickCMap_none_iff
#print axioms PsVerif.Props.C17.pickCMap_unique
#print axioms PsVerif.Props.C17.pickCMap_perm
#print axioms PsVerif.Props.C17.empty_key_wins
#print axioms PsVerif.Props.C17.pickCMap_anySort
#print axioms PsVerif.Props.C17.pickCMap_mergeSort
#print axioms PsVerif.Props.C17.sortKeys_unique
#print axioms PsVerif.Props.C17.cmapNameAfter_keeps
#print axioms PsVerif.Props.C17.cmapNameAfter_fills
#print axioms PsVerif.Props.C17.cmapName_perm
#print axioms PsVerif.Props.C17.pickFont_spec
#print axioms PsVerif.Props.C17.pickFont_ok_iff
#print axioms PsVerif.Props.C17.pickFont_error_iff
#print axioms PsVerif.Props.C17.pickFont_perm
#print axioms PsVerif.Props.C17.singlePass_differs
#print axioms PsVerif.Props.C17.singlePass_loses_only_cmap
#print axioms PsVerif.Props.C17.anyCount_differs
