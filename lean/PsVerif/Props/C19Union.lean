import PsVerif.Props.C19
/-!
# C19 — the font box is the union of the non-empty glyph boxes

`PsVerif.Props.C19` shows that the accumulated box does not depend on the order in which the
glyph boxes are visited.  This module says *what* the accumulated box is: the union of the
non-zero boxes — the zero rectangle when there are none, otherwise the smallest rectangle that
contains every one of them (each side of the result is a side of one of the boxes).  The
specification determines the result (`union_unique`).
-/
namespace PsVerif.Props.C19Union
open PsVerif.Model.Query
open PsVerif.Props.C19 (proper isZero_iff fontBBox_eq_fold)

/-- the boxes that count: the non-zero ones (a blank glyph has the zero box) -/
def nonzero (boxes : List Rect) : List Rect := boxes.filter (fun b => !b.isZero)

/-- `r` is the union of the members of `nz` -/
def UnionOf (nz : List Rect) (r : Rect) : Prop :=
  (nz = [] → r = Rect.zero) ∧
  (nz ≠ [] →
    (∀ b ∈ nz, r.llx ≤ b.llx ∧ r.lly ≤ b.lly ∧ b.urx ≤ r.urx ∧ b.ury ≤ r.ury) ∧
    (∃ b ∈ nz, r.llx = b.llx) ∧ (∃ b ∈ nz, r.lly = b.lly) ∧ (∃ b ∈ nz, r.urx = b.urx) ∧ (∃ b ∈ nz, r.ury = b.ury))

/-- `r` is the union of the non-zero members of `boxes`: zero if there are none, otherwise the smallest rectangle containing all of them (every side is attained) -/
def IsUnion (boxes : List Rect) (r : Rect) : Prop :=
  let nz := boxes.filter (fun b => !b.isZero)
  (nz = [] → r = Rect.zero) ∧
  (nz ≠ [] →
    (∀ b ∈ nz, r.llx ≤ b.llx ∧ r.lly ≤ b.lly ∧ b.urx ≤ r.urx ∧ b.ury ≤ r.ury) ∧
    (∃ b ∈ nz, r.llx = b.llx) ∧ (∃ b ∈ nz, r.lly = b.lly) ∧ (∃ b ∈ nz, r.urx = b.urx) ∧ (∃ b ∈ nz, r.ury = b.ury))

theorem isUnion_iff (boxes : List Rect) (r : Rect) : IsUnion boxes r ↔ UnionOf (nonzero boxes) r := Iff.rfl

/-! ## `Extend`, case by case -/

theorem extend_of_isZero (r x : Rect) (hx : x.isZero = true) : r.extend x = r := by
  simp [Rect.extend, hx]

theorem extend_zero (r : Rect) : r.extend Rect.zero = r :=
  extend_of_isZero r Rect.zero (by decide)

theorem zero_extend (x : Rect) (hx : ¬ x.isZero = true) : Rect.zero.extend x = x := by
  simp only [Rect.extend, hx, Bool.false_eq_true, if_false]
  rfl

theorem extend_nonzero (r x : Rect) (hr : ¬ r.isZero = true) (hx : ¬ x.isZero = true) :
    r.extend x = ⟨min r.llx x.llx, min r.lly x.lly, max r.urx x.urx, max r.ury x.ury⟩ := by
  simp only [Rect.extend, hr, hx, Bool.false_eq_true, if_false]

/-- the union of two proper non-zero boxes is itself non-zero (and proper): this is what keeps
the accumulator from falling back to "nothing seen yet" -/
theorem union_nonzero_proper (a b : Rect) (ha : proper a) (hb : proper b)
    (hna : ¬ a.isZero = true) (hnb : ¬ b.isZero = true) :
    ¬ ((⟨min a.llx b.llx, min a.lly b.lly, max a.urx b.urx, max a.ury b.ury⟩ : Rect).isZero = true) ∧
    proper ⟨min a.llx b.llx, min a.lly b.lly, max a.urx b.urx, max a.ury b.ury⟩ := by
  have ha0 := (not_congr (isZero_iff a)).mp hna
  have hb0 := (not_congr (isZero_iff b)).mp hnb
  unfold proper at ha hb ⊢
  rw [isZero_iff]
  simp only
  refine ⟨?_, ?_, ?_⟩ <;> omega

theorem rect_ext (a b : Rect) (h1 : a.llx = b.llx) (h2 : a.lly = b.lly) (h3 : a.urx = b.urx)
    (h4 : a.ury = b.ury) : a = b := by
  cases a; cases b
  simp only at h1 h2 h3 h4
  subst h1 h2 h3 h4
  rfl

/-! ## the invariant of the loop -/

/-- a union of (at least one) proper non-zero boxes is non-zero and proper -/
theorem unionOf_nonzero (nz : List Rect) (r : Rect) (hu : UnionOf nz r) (hne : nz ≠ [])
    (hp : ∀ b ∈ nz, proper b) (hz : ∀ b ∈ nz, ¬ b.isZero = true) :
    ¬ r.isZero = true ∧ proper r := by
  obtain ⟨b, hb⟩ := List.exists_mem_of_ne_nil nz hne
  have h1 := (hu.2 hne).1 b hb
  have h2 := hp b hb
  have h3 := hz b hb
  unfold proper at *
  rw [isZero_iff] at *
  refine ⟨?_, ?_, ?_⟩ <;> omega

/-- one more non-zero box -/
theorem unionOf_snoc (nz : List Rect) (r x : Rect) (hu : UnionOf nz r)
    (hp : ∀ b ∈ nz, proper b) (hz : ∀ b ∈ nz, ¬ b.isZero = true)
    (hx : proper x) (hxz : ¬ x.isZero = true) : UnionOf (nz ++ [x]) (r.extend x) := by
  refine ⟨fun h => absurd h (by simp), fun _ => ?_⟩
  by_cases hne : nz = []
  · subst hne
    have hr := hu.1 rfl
    subst hr
    rw [zero_extend x hxz]
    simp
  · obtain ⟨hb, ⟨b1, m1, e1⟩, ⟨b2, m2, e2⟩, ⟨b3, m3, e3⟩, ⟨b4, m4, e4⟩⟩ := hu.2 hne
    obtain ⟨hrz, _⟩ := unionOf_nonzero nz r hu hne hp hz
    rw [extend_nonzero r x hrz hxz]
    have hxm : x ∈ nz ++ [x] := by simp
    refine ⟨?_, ?_, ?_, ?_, ?_⟩
    · intro b hb'
      rcases List.mem_append.mp hb' with h | h
      · have := hb b h
        simp only
        omega
      · simp only [List.mem_singleton] at h
        subst h
        simp only
        omega
    · simp only
      by_cases hle : r.llx ≤ x.llx
      · exact ⟨b1, List.mem_append_left _ m1, by omega⟩
      · exact ⟨x, hxm, by omega⟩
    · simp only
      by_cases hle : r.lly ≤ x.lly
      · exact ⟨b2, List.mem_append_left _ m2, by omega⟩
      · exact ⟨x, hxm, by omega⟩
    · simp only
      by_cases hle : x.urx ≤ r.urx
      · exact ⟨b3, List.mem_append_left _ m3, by omega⟩
      · exact ⟨x, hxm, by omega⟩
    · simp only
      by_cases hle : x.ury ≤ r.ury
      · exact ⟨b4, List.mem_append_left _ m4, by omega⟩
      · exact ⟨x, hxm, by omega⟩

theorem nonzero_append (a b : List Rect) : nonzero (a ++ b) = nonzero a ++ nonzero b := by
  simp [nonzero]

theorem mem_nonzero {boxes : List Rect} {b : Rect} (h : b ∈ nonzero boxes) :
    b ∈ boxes ∧ ¬ b.isZero = true := by
  have := List.mem_filter.mp h
  exact ⟨this.1, by simpa using this.2⟩

/-- one step of the loop keeps "the accumulator is the union of the boxes seen so far" -/
theorem isUnion_snoc (seen : List Rect) (r x : Rect) (hu : IsUnion seen r)
    (hp : ∀ b ∈ seen, proper b) (hx : proper x) : IsUnion (seen ++ [x]) (r.extend x) := by
  rw [isUnion_iff] at *
  rw [nonzero_append]
  by_cases hxz : x.isZero = true
  · have : nonzero [x] = [] := by simp [nonzero, hxz]
    rw [this, List.append_nil, extend_of_isZero r x hxz]
    exact hu
  · have : nonzero [x] = [x] := by simp [nonzero, hxz]
    rw [this]
    exact unionOf_snoc _ _ _ hu (fun b hb => hp b (mem_nonzero hb).1)
      (fun b hb => (mem_nonzero hb).2) hx hxz

/-- the generalised statement: starting from the union of `seen`, folding `rest` gives the
union of `seen ++ rest` -/
theorem fold_extend_union_gen (rest : List Rect) : ∀ (seen : List Rect) (acc : Rect),
    (∀ b ∈ seen ++ rest, proper b) → IsUnion seen acc →
    IsUnion (seen ++ rest) (rest.foldl Rect.extend acc) := by
  induction rest with
  | nil => intro seen acc _ hu; simpa using hu
  | cons x rest ih =>
    intro seen acc hp hu
    rw [List.foldl_cons]
    have hstep := isUnion_snoc seen acc x hu (fun b hb => hp b (by simp [hb])) (hp x (by simp))
    have := ih (seen ++ [x]) (acc.extend x) (by simpa [List.append_assoc] using hp) hstep
    simpa [List.append_assoc] using this

theorem isUnion_nil : IsUnion [] Rect.zero := ⟨fun _ => rfl, fun h => absurd rfl h⟩

/-! ## the theorems -/

/-- **the accumulated box is the union of the non-empty boxes** -/
theorem fold_extend_union (boxes : List Rect) (h : ∀ b ∈ boxes, proper b) :
    IsUnion boxes (boxes.foldl Rect.extend Rect.zero) := by
  have := fold_extend_union_gen boxes [] Rect.zero (by simpa using h) isUnion_nil
  simpa using this

/-- `type1.Font.FontBBox` (the loop with the `first` flag): the font box is the union of the
non-empty glyph boxes -/
theorem fontBBox_union (boxes : List Rect) (h : ∀ b ∈ boxes, proper b) :
    IsUnion boxes (fontBBox boxes) := by
  rw [fontBBox_eq_fold]
  exact fold_extend_union boxes h

/-- `afm.Metrics.FontBBoxPDF` likewise -/
theorem afmFontBBox_union (boxes : List Rect) (h : ∀ b ∈ boxes, proper b) :
    IsUnion boxes (afmFontBBox boxes) :=
  fold_extend_union boxes h

/-- the same statement for the Go package `funit`: `funit.Rect16.Extend` and `funit.Rect.Extend`
are the same function as `Rect.extend` (skip a zero argument, take the argument when the
receiver is zero, otherwise componentwise min/min/max/max), so a zero `Rect16` extended in turn
by a sequence of proper boxes is the union of the non-zero ones -/
theorem funit_extend_union (boxes : List Rect) (h : ∀ b ∈ boxes, proper b) :
    IsUnion boxes (boxes.foldl Rect.extend Rect.zero) :=
  fold_extend_union boxes h

/-- **the specification determines the result**: there is only one union -/
theorem union_unique (boxes : List Rect) (r1 r2 : Rect) : IsUnion boxes r1 → IsUnion boxes r2 → r1 = r2 := by
  intro h1 h2
  rw [isUnion_iff] at h1 h2
  by_cases hne : nonzero boxes = []
  · rw [h1.1 hne, h2.1 hne]
  · obtain ⟨hb, ⟨a1, ma1, ea1⟩, ⟨a2, ma2, ea2⟩, ⟨a3, ma3, ea3⟩, ⟨a4, ma4, ea4⟩⟩ := h1.2 hne
    obtain ⟨hc, ⟨c1, mc1, ec1⟩, ⟨c2, mc2, ec2⟩, ⟨c3, mc3, ec3⟩, ⟨c4, mc4, ec4⟩⟩ := h2.2 hne
    have p1 := hb c1 mc1
    have p2 := hb c2 mc2
    have p3 := hb c3 mc3
    have p4 := hb c4 mc4
    have q1 := hc a1 ma1
    have q2 := hc a2 ma2
    have q3 := hc a3 ma3
    have q4 := hc a4 ma4
    apply rect_ext <;> omega

/-- a blank glyph (zero box) anywhere in the sequence changes nothing — for any boxes at all -/
theorem blank_box_ignored_any (pre post : List Rect) (acc : Rect) :
    (pre ++ Rect.zero :: post).foldl Rect.extend acc = (pre ++ post).foldl Rect.extend acc := by
  rw [List.foldl_append, List.foldl_append, List.foldl_cons, extend_zero]

/-- **a blank glyph anywhere in the sequence changes nothing** (the properness hypothesis is
that of the other theorems; this one holds without it, see `blank_box_ignored_any`) -/
theorem blank_box_ignored (pre post : List Rect) (_h : ∀ b ∈ pre ++ post, proper b) :
    (pre ++ Rect.zero :: post).foldl Rect.extend Rect.zero = (pre ++ post).foldl Rect.extend Rect.zero :=
  blank_box_ignored_any pre post Rect.zero

/-- … and so both sequences have the same union -/
theorem blank_box_union (pre post : List Rect) (h : ∀ b ∈ pre ++ post, proper b) :
    IsUnion (pre ++ post) ((pre ++ Rect.zero :: post).foldl Rect.extend Rect.zero) := by
  rw [blank_box_ignored pre post h]
  exact fold_extend_union _ h

/-! ## the statements are not vacuous, and properness is needed -/

/-- two glyphs with outlines and a blank one between them -/
example : [(⟨10, -20, 500, 700⟩ : Rect), Rect.zero, ⟨30, 0, 450, 650⟩].foldl Rect.extend Rect.zero
    = ⟨10, -20, 500, 700⟩ := by decide

example : [(⟨10, -20, 400, 700⟩ : Rect), Rect.zero, ⟨30, -5, 450, 650⟩].foldl Rect.extend Rect.zero
    = ⟨10, -20, 450, 700⟩ := by decide

example : fontBBox [(⟨10, -20, 400, 700⟩ : Rect), Rect.zero, ⟨30, -5, 450, 650⟩] = ⟨10, -20, 450, 700⟩ := by
  decide

/-- the hypotheses of `fold_extend_union` are satisfiable by such a list, and the conclusion
then pins down the value -/
example : IsUnion [(⟨10, -20, 400, 700⟩ : Rect), Rect.zero, ⟨30, -5, 450, 650⟩] ⟨10, -20, 450, 700⟩ := by
  have h : ∀ b ∈ [(⟨10, -20, 400, 700⟩ : Rect), Rect.zero, ⟨30, -5, 450, 650⟩], proper b := by
    intro b hb
    simp only [List.mem_cons, List.not_mem_nil, or_false] at hb
    rcases hb with rfl | rfl | rfl <;> (unfold proper; decide)
  exact fold_extend_union _ h

/-- only blank glyphs: the zero box -/
example : [Rect.zero, Rect.zero].foldl Rect.extend Rect.zero = Rect.zero := by decide

/-- **properness is needed**: two improper non-zero boxes whose componentwise min/max box is the
zero rectangle; the accumulator then looks like "nothing seen yet" and the next box restarts the
union — the result `⟨1,1,2,2⟩` does not contain `⟨5,0,-5,0⟩` -/
example : [(⟨5, 0, -5, 0⟩ : Rect), ⟨0, 5, 0, -5⟩].foldl Rect.extend Rect.zero = Rect.zero := by decide

example : [(⟨5, 0, -5, 0⟩ : Rect), ⟨0, 5, 0, -5⟩, ⟨1, 1, 2, 2⟩].foldl Rect.extend Rect.zero
    = ⟨1, 1, 2, 2⟩ := by decide

/-- so without properness the conclusion of `fold_extend_union` fails -/
example : ¬ IsUnion [(⟨5, 0, -5, 0⟩ : Rect), ⟨0, 5, 0, -5⟩, ⟨1, 1, 2, 2⟩]
    ([(⟨5, 0, -5, 0⟩ : Rect), ⟨0, 5, 0, -5⟩, ⟨1, 1, 2, 2⟩].foldl Rect.extend Rect.zero) := by
  intro h
  have e : [(⟨5, 0, -5, 0⟩ : Rect), ⟨0, 5, 0, -5⟩, ⟨1, 1, 2, 2⟩].foldl Rect.extend Rect.zero
      = ⟨1, 1, 2, 2⟩ := by decide
  rw [e] at h
  have hm : (⟨5, 0, -5, 0⟩ : Rect) ∈ nonzero [(⟨5, 0, -5, 0⟩ : Rect), ⟨0, 5, 0, -5⟩, ⟨1, 1, 2, 2⟩] := by
    decide
  have hne : nonzero [(⟨5, 0, -5, 0⟩ : Rect), ⟨0, 5, 0, -5⟩, ⟨1, 1, 2, 2⟩] ≠ [] :=
    List.ne_nil_of_mem hm
  have := ((h.2 hne).1 _ hm).2.1
  simp only at this
  omega

end PsVerif.Props.C19Union

#print axioms PsVerif.Props.C19Union.union_nonzero_proper
#print axioms PsVerif.Props.C19Union.fold_extend_union
#print axioms PsVerif.Props.C19Union.fontBBox_union
#print axioms PsVerif.Props.C19Union.afmFontBBox_union
#print axioms PsVerif.Props.C19Union.funit_extend_union
#print axioms PsVerif.Props.C19Union.union_unique
#print axioms PsVerif.Props.C19Union.blank_box_ignored_any
#print axioms PsVerif.Props.C19Union.blank_box_ignored
#print axioms PsVerif.Props.C19Union.blank_box_union
