import PsVerif.Props.Cipher
import PsVerif.Props.C20
