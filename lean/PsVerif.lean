import PsVerif.Props.Cipher
import PsVerif.Props.Ties
import PsVerif.Props.C01
import PsVerif.Props.C02
import PsVerif.Props.C03
import PsVerif.Props.C11
import PsVerif.Props.C20
