import Driver.Util
import PsVerif.Model.Serialise
/-
Driver verb for the serialiser model (`Model/Serialise.lean`).

    ser s <hex bytes>   ->  hex of `String(bytes).PS()`
    ser n <hex bytes>   ->  hex of `Name(bytes).PS()`, or `panic` when `Name.PS` panics

`<hex bytes>` is `-` for the empty byte string (the convention of `Driver/Util.lean`).
-/
namespace Driver
open PsVerif.Model

def serToU8 (bs : List Nat) : List UInt8 := bs.map UInt8.ofNat
def serOfU8 (bs : List UInt8) : List Nat := bs.map UInt8.toNat

/-- answers one `ser …` case line (the whole line is passed in) -/
def serVerb (line : String) : String :=
  match line.splitOn " " with
  | ["ser", "s", h] =>
    match bytesOfHex h with
    | some bs => hexOfBytes (serOfU8 (Ser.stringPS (serToU8 bs)))
    | none => "bad-op"
  | ["ser", "n", h] =>
    match bytesOfHex h with
    | some bs =>
      match Ser.namePS? (serToU8 bs) with
      | some out => hexOfBytes (serOfU8 out)
      | none => "panic"
    | none => "bad-op"
  | _ => "bad-op"

end Driver
