import Driver.Util
import PsVerif.Model.AFM
/-!
Line-protocol verb for the AFM model:

  `afmrw <hex of an AFM text>`  →  `error`                 the model reader rejects the text
                                   `unsupported`           a number is outside the modelled syntax, or
                                                           what `Write` prints is not determined
                                                           (NaN / huge values in `FontBBox`)
                                   `ok <hex>`              the text the model writer produces for the
                                                           value read
-/
namespace Driver
open PsVerif.Model

def afmReadWrite (t : List Nat) : String :=
  match AFM.read t with
  | .error => "error"
  | .unsupported => "unsupported"
  | .ok m => if AFM.writeSupported m then "ok " ++ hexOfBytes (AFM.write m) else "unsupported"

def afmVerb (line : String) : String :=
  match line.splitOn " " with
  | ["afmrw", h] =>
    match bytesOfHex h with
    | some bs => afmReadWrite bs
    | none => "bad-op"
  | _ => "bad-op"

end Driver
