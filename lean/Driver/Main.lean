import Driver.Util
import PsVerif.Model.Cipher
import PsVerif.Model.T1Encode
import Driver.Canon
import PsVerif.Model.PFB
import PsVerif.Model.PFBEager
import PsVerif.Model.T1Writers
import PsVerif.Model.Select
import PsVerif.Model.Names
import PsVerif.Model.Query
import PsVerif.Model.T1Decode
import Driver.SerDriver
import Driver.T1WriteDriver
import Driver.AFMDriver
import Driver.RefillDriver
import Driver.T1ReadDriver
/-!
`psdriver`: reads one case per line from stdin, prints the model's canonical result
line for each.  A line the driver cannot parse gives `bad-op` (never a default).
-/
open Driver
open PsVerif.Model

def parseCmd (s : String) : Option T1Encode.Cmd :=
  match s.splitOn ":" with
  | ["m", x, y] => do pure (.moveTo (← parseRat x) (← parseRat y))
  | ["l", x, y] => do pure (.lineTo (← parseRat x) (← parseRat y))
  | ["c", a, b, c, d, e, f] => do
    pure (.curveTo (← parseRat a) (← parseRat b) (← parseRat c) (← parseRat d) (← parseRat e) (← parseRat f))
  | ["z"] => some .closePath
  | _ => none

def toU8 (bs : List Nat) : List UInt8 := bs.map (fun b => UInt8.ofNat b)
def ofU8 (bs : List UInt8) : List Nat := bs.map (fun b => b.toNat)

/-- fuel: enough for every run that the budget `m` allows (each unit of fuel is one Go call,
tail-loop turn, loop turn or token; all of them are bounded by tokens + a multiple of the
operation budget); without a budget a large constant. -/
def fuelFor (m : Nat) (len : Nat) : Nat :=
  if m == 0 then 20000000 else 40 * (m + len) + 100000

def cmdStr : T1Encode.Cmd → String
  | .moveTo x y => s!"m:{ratStr x}:{ratStr y}"
  | .lineTo x y => s!"l:{ratStr x}:{ratStr y}"
  | .curveTo a b c d e f => s!"c:{ratStr a}:{ratStr b}:{ratStr c}:{ratStr d}:{ratStr e}:{ratStr f}"
  | .closePath => "z"

def csResult (subrs : List (List Nat)) (code : List Nat) : String :=
  match T1Decode.decodeCharString subrs code with
  | .error .stackOverflow => "err:stackoverflow"
  | .error .incomplete => "err:incomplete"
  | .error (.invalid _) => "err:invalid"
  | .error .nonfinite => "nonfinite"
  | .error .fuel => "fuel"
  | .ok d =>
    let g := d.res
    "ok w=" ++ ratStr g.widthX ++ "," ++ ratStr g.widthY ++ " cmds=" ++ String.intercalate ";" (g.cmds.map cmdStr) ++
      " hs=" ++ String.intercalate "," (g.hstem.map toString) ++ " vs=" ++ String.intercalate "," (g.vstem.map toString)

/-- `ReadCMap`'s choice among the entries of the CMap directory: `key:given,...` (hex; given = `none` or a hex name) -/
def pickCMapLine (entries : String) : String :=
  let parsed : Option (List (List Nat × Option (List Nat))) := mapM? (fun (e : String) =>
    match e.splitOn ":" with
    | [k, g] => do
      let kb ← bytesOfHex k
      let gb ← if g == "none" then some none else (bytesOfHex g).map some
      pure (kb, gb)
    | _ => none) (entries.splitOn ",")
  match parsed with
  | some es =>
    let dir : List (Select.Key × (Nat × Option Select.Key)) :=
      (es.zipIdx).map (fun p => (toU8 p.1.1, (p.2, p.1.2.map toU8)))
    match Select.pickCMap (fun _ => true) dir with
    | some (k, (i, g)) => toString i ++ " " ++ hexOfBytes (ofU8 (Select.cmapNameAfter k g))
    | none => "none"
  | none => "bad-op"

/-- the buffering stream writers of package type1 over an underlying writer that fails at call `failAt` -/
def writersLine (eexec : Bool) (failAt chunks : String) : String :=
  let fa : Option (Option Nat) := if failAt == "-" then some none else failAt.toNat?.map some
  let cs : Option (List (List Nat)) := if chunks == "none" then some [] else mapM? bytesOfHex (chunks.splitOn ",")
  match fa, cs with
  | some fa, some cs =>
    let r := if eexec then T1Writers.runEexec fa (cs.map toU8) else T1Writers.runHex fa (cs.map toU8)
    ",".intercalate (r.1.map toString) ++ ";" ++ (if r.2.1 then "ok" else "err") ++ ";" ++
      "|".intercalate (r.2.2.map (fun b => hexOfBytes (ofU8 b)))
  | _, _ => "bad-op"

def handle (line : String) : String :=
  match line.splitOn " " with
  | ["enc", wx, wy, hs, vs, cmds] =>
    match parseInt wx, parseInt wy, mapM? parseInt (splitList hs ","), mapM? parseInt (splitList vs ","),
          mapM? parseCmd (splitList cmds ";") with
    | some wx, some wy, some hs, some vs, some cs =>
      hexOfBytes (T1Encode.encodeCharString { cmds := cs, hstem := hs, vstem := vs } wx wy)
    | _, _, _, _, _ => "bad-op"
  | ["cs", subrs, code] =>
    match mapM? bytesOfHex (splitList subrs ";"), bytesOfHex code with
    | some ss, some c => csResult ss c
    | _, _ => "bad-op"
  | ["csf", _, _] => "skip"
  | "ser" :: _ => serVerb line
  | "t1w" :: _ => t1wVerb line
  | "t1r" :: _ => t1rVerb line
  | "afmrw" :: _ => afmVerb line
  | "refill" :: _ => refillVerb line
  | "cmap" :: _ => "skip"
  | "cmapmulti" :: _ => "skip"
  | "afm" :: _ => "skip"
  | "sched" :: _ => "skip"
  | "deep" :: _ => "skip"
  | "hist" :: _ => "skip"
  | "hostilefile" :: _ => "skip"
  | "fault" :: _ => "skip"
  | "det" :: _ => "skip"
  | "iso" :: _ => "skip"
  | "t1read" :: _ => "skip"      -- whole-font cases are decided by the harness oracles
  | "t1readbig" :: _ => "skip"
  | "t1rt" :: _ => "skip"
  | "t1write" :: _ => "skip"
  | "t1closure" :: _ => "skip"
  | ["encf", _, _, _, _, _] => "skip"   -- oracle-only case (float arithmetic not exact)
  | ["num", x] =>
    match parseRat x with
    | some r => let a := T1Encode.appendNumber r; hexOfBytes a.1 ++ " " ++ ratStr a.2
    | none => "bad-op"
  | ["run", maxOps, checkStart, prog] =>
    -- one Execute call on a fresh interpreter
    match maxOps.toNat?, bytesOfHex prog with
    | some m, some bs =>
      let s0 := { newInterpreter with checkStart := checkStart == "1" }
      let (s1, r) := execute (fuelFor m bs.length) m s0 (toU8 bs) none
      Driver.Canon.render s1 r
    | _, _ => "bad-op"
  | ["runs", maxOps, checkStart, progs] =>
    -- consecutive Execute calls on one interpreter; the calls stop at the first one that returns an error
    match maxOps.toNat?, mapM? bytesOfHex (progs.splitOn ",") with
    | some m, some parts =>
      let s0 := { newInterpreter with checkStart := checkStart == "1" }
      let rec go (s : State) : List (List Nat) → State × Res
        | [] => (s, .ok)
        | bs :: rest =>
          let (s1, r) := execute (fuelFor m bs.length) m s (toU8 bs) none
          match r with
          | .ok => go s1 rest
          | _ => (s1, r)
      let (s1, r) := go s0 parts
      Driver.Canon.render s1 r
    | _, _ => "bad-op"
  | ["runsall", maxOps, checkStart, progs] =>
    -- consecutive Execute calls on one interpreter, every call made whatever the earlier ones returned;
    -- answer: result class and operation counter after each call, then the final state
    match maxOps.toNat?, mapM? bytesOfHex (progs.splitOn ",") with
    | some m, some parts =>
      let s0 := { newInterpreter with checkStart := checkStart == "1" }
      let rec goAll (s : State) (acc : List String) : List (List Nat) → State × Res × List String
        | [] => (s, .ok, acc.reverse)
        | bs :: rest =>
          let (s1, r) := execute (fuelFor m bs.length) m s (toU8 bs) none
          match rest with
          | [] => (s1, r, (s!"{s1.numOps}" :: acc).reverse)
          | _ => goAll s1 (s!"{s1.numOps}" :: acc) rest
      let (s1, r, counts) := goAll s0 [] parts
      "counts=" ++ ",".intercalate counts ++ " " ++ Driver.Canon.render s1 r
    | _, _ => "bad-op"
  | ["pfb", stream, sizes, sched] =>
    match bytesOfHex stream, mapM? String.toNat? (splitList sizes ","), mapM? String.toNat? (splitList sched ",") with
    | some bs, some ns, some sc =>
      let calls := PFB.drain { src := toU8 bs, sched := sc } ns
      String.intercalate "|" (calls.map (fun c =>
        hexOfBytes (ofU8 c.1) ++ ":" ++ (match c.2 with
          | none => "nil" | some .eof => "EOF" | some .unexpectedEOF => "unexpectedEOF" | some .invalidPFB => "invalidPFB")))
    | _, _, _ => "bad-op"
  | ["pfbe", stream, sizes, sched] =>
    -- the same decoder over a source that reports EOF together with its last bytes
    match bytesOfHex stream, mapM? String.toNat? (splitList sizes ","), mapM? String.toNat? (splitList sched ",") with
    | some bs, some ns, some sc =>
      let calls := PFBEager.drainE { src := toU8 bs, sched := sc } ns
      String.intercalate "|" (calls.map (fun c =>
        hexOfBytes (ofU8 c.1) ++ ":" ++ (match c.2 with
          | none => "nil" | some .eof => "EOF" | some .unexpectedEOF => "unexpectedEOF" | some .invalidPFB => "invalidPFB")))
    | _, _, _ => "bad-op"
  | ["pickcmap", entries] => pickCMapLine entries
  | ["eexecw", failAt, chunks] => writersLine true failAt chunks
  | ["hexw", failAt, chunks] => writersLine false failAt chunks
  | ["glist", keys, enc] =>
    match mapM? bytesOfHex (splitList keys ","), mapM? bytesOfHex (splitList enc ",") with
    | some ks, some en => String.intercalate "," ((Query.glyphList ks en).map hexOfBytes) ++ " " ++ toString (Query.numGlyphs ks)
    | _, _ => "bad-op"
  | ["bbox", pts] =>
    match mapM? (fun (p : String) => match p.splitOn ":" with
        | [x, y] => do pure ((← parseInt x), (← parseInt y))
        | _ => none) (splitList pts ";") with
    | some ps => let r := Query.glyphBBox ps; s!"{r.llx} {r.lly} {r.urx} {r.ury}"
    | none => "bad-op"
  | ["fbox", kind, rects] =>
    match mapM? (fun (p : String) => match p.splitOn ":" with
        | [a, b, c, d] => do pure (Query.Rect.mk (← parseInt a) (← parseInt b) (← parseInt c) (← parseInt d))
        | _ => none) (splitList rects ";") with
    | some rs => let r := if kind == "afm" || kind == "funit" || kind == "funit16" then Query.afmFontBBox rs else Query.fontBBox rs; s!"{r.llx} {r.lly} {r.urx} {r.ury}"
    | none => "bad-op"
  | ["tou", d, h] =>
    match bytesOfHex h with
    | some bs => String.intercalate "," ((Names.toUnicode bs (d == "1")).map toString)
    | none => "bad-op"
  | ["fromu", r] =>
    match r.toNat? with
    | some r => hexOfBytes (Names.fromUnicode r)
    | none => "bad-op"
  | ["valid", h] =>
    match bytesOfHex h with
    | some bs => toString (Names.isValid bs)
    | none => "bad-op"
  | ["eexecdec", r, h] =>
    match r.toNat?, bytesOfHex h with
    | some r, some bs => hexOfBytes (ofU8 (Cipher.decrypt (UInt16.ofNat r) (toU8 bs)))
    | _, _ => "bad-op"
  | ["eexecenc", r, h] =>
    match r.toNat?, bytesOfHex h with
    | some r, some bs => hexOfBytes (ofU8 (Cipher.encrypt (UInt16.ofNat r) (toU8 bs)))
    | _, _ => "bad-op"
  | ["deobf", n, h] =>
    match parseInt n, bytesOfHex h with
    | some n, some bs =>
      match Cipher.deobfuscate (toU8 bs) n with
      | some p => "some " ++ hexOfBytes (ofU8 p)
      | none => "nil"
    | _, _ => "bad-op"
  | _ => "bad-op"

partial def loop (h : IO.FS.Stream) (out : IO.FS.Stream) : IO Unit := do
  let line ← h.getLine
  if line.isEmpty then return ()
  let l := if line.endsWith "\n" then (line.dropEnd 1).toString else line
  out.putStrLn (handle l)
  loop h out

def main : IO Unit := do
  let stdin ← IO.getStdin
  let stdout ← IO.getStdout
  loop stdin stdout
