def main : IO Unit := IO.println "psdriver"
