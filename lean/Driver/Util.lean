/- parsing and printing helpers for the line protocol (core only) -/
namespace Driver

def hexDigit (n : Nat) : Char :=
  if n < 10 then Char.ofNat (48 + n) else Char.ofNat (87 + n)

def hexOfBytes (bs : List Nat) : String :=
  if bs.isEmpty then "-" else
  String.ofList (bs.foldr (fun b acc => hexDigit (b / 16 % 16) :: hexDigit (b % 16) :: acc) [])

def hexVal (c : Char) : Option Nat :=
  if '0' ≤ c ∧ c ≤ '9' then some (c.toNat - 48)
  else if 'a' ≤ c ∧ c ≤ 'f' then some (c.toNat - 87)
  else if 'A' ≤ c ∧ c ≤ 'F' then some (c.toNat - 55)
  else none

partial def bytesOfHexAux : List Char → List Nat → Option (List Nat)
  | [], acc => some acc.reverse
  | a :: b :: rest, acc =>
    match hexVal a, hexVal b with
    | some x, some y => bytesOfHexAux rest ((x * 16 + y) :: acc)
    | _, _ => none
  | _, _ => none

def bytesOfHex (s : String) : Option (List Nat) :=
  if s == "-" then some [] else bytesOfHexAux s.toList []

def parseInt (s : String) : Option Int := s.toInt?

/-- `n` or `n/d` -/
def parseRat (s : String) : Option Rat :=
  match s.splitOn "/" with
  | [n] => (fun (i : Int) => (i : Rat)) <$> n.toInt?
  | [n, d] =>
    match n.toInt?, d.toNat? with
    | some i, some k => if k == 0 then none else some ((i : Rat) / (k : Rat))
    | _, _ => none
  | _ => none

def ratStr (r : Rat) : String :=
  if r.den == 1 then toString r.num else toString r.num ++ "/" ++ toString r.den

def splitList (s : String) (sep : String) : List String :=
  if s == "-" || s == "" then [] else s.splitOn sep

def mapM? {α β : Type} (f : α → Option β) : List α → Option (List β)
  | [] => some []
  | a :: as => do
    let b ← f a
    let bs ← mapM? f as
    pure (b :: bs)

end Driver
