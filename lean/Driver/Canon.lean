import PsVerif.Model.Init
import Driver.Util
/-!
Canonical rendering of a model state; the format is the one produced by
`/verif/harness/canon.go` for the real interpreter (see there).
-/
open PsVerif.Model
namespace Driver.Canon

def esc (s : String) : String :=
  String.ofList (s.toList.foldr (fun c acc =>
    if c.isAlphanum || c == '.' || c == '_' || c == '-' then c :: acc
    else
      let n := c.toNat
      '%' :: (hexDigit (n / 16 % 16)).toUpper :: (hexDigit (n % 16)).toUpper :: acc) [])

def hex16 (b : UInt64) : String :=
  String.ofList ((List.range 16).map (fun i => hexDigit ((b.toNat >>> (4 * (15 - i))) % 16)))

def realStr (b : UInt64) : String :=
  if PsVerif.Base.SoftFloat.isNaN b then "rnan" else "r" ++ hex16 b

def hexBytes (bs : List UInt8) : String :=
  String.ofList (bs.foldr (fun b acc => hexDigit (b.toNat / 16) :: hexDigit (b.toNat % 16) :: acc) [])

/-- short strings in hex, long ones as prefix, length and checksum -/
def strBody (bs : List UInt8) : String :=
  if bs.length ≤ 48 then hexBytes bs
  else
    let sum := (bs.foldl (fun (acc : Nat × Nat) b => ((acc.1 + b.toNat * (acc.2 % 251 + 1)) % 1000000007, acc.2 + 1)) (0, 0)).1
    s!"{hexBytes (bs.take 16)}..#{bs.length}~{sum}"

structure St where
  minOff : List (Nat × Nat) := []        -- pass 1: store ref ↦ lowest reachable offset
  seenView : List (Nat × Nat × Nat × Nat) := []   -- (kind, ref, off, len)
  seenDict : List Nat := []
  ids : List (Nat × Nat) := []           -- heap ref ↦ printed id
  next : Nat := 0
  out : Array String := #[]

abbrev M := StateM St

def emit (s : String) : M Unit := modify fun st => { st with out := st.out.push s }

def noteOff (r off : Nat) : M Unit := modify fun st =>
  match st.minOff.find? (·.1 == r) with
  | some (_, m) => if off < m then { st with minOff := st.minOff.map (fun p => if p.1 == r then (r, off) else p) } else st
  | none => { st with minOff := (r, off) :: st.minOff }

def cmapObjs (c : CMapInfo) : List Obj :=
  c.codeSpaceRanges.flatMap (fun r => [r.low, r.high]) ++
  c.cidChars.flatMap (fun e => [e.src, e.dst]) ++ c.cidRanges.flatMap (fun e => [e.low, e.high, e.dst]) ++
  c.bfChars.flatMap (fun e => [e.src, e.dst]) ++ c.bfRanges.flatMap (fun e => [e.low, e.high, e.dst]) ++
  c.notdefChars.flatMap (fun e => [e.src, e.dst]) ++ c.notdefRanges.flatMap (fun e => [e.low, e.high, e.dst])

def sortedDict (d : List (Name × Obj)) : List (Name × Obj) :=
  d.mergeSort (fun a b => a.1 ≤ b.1)

/-- pass 1: lowest reachable offset of every store -/
partial def collect (s : VM) (o : Obj) : M Unit := do
  match o with
  | .str r off len => if len > 0 then noteOff r off
  | .arr r off len | .proc r off len =>
    if len > 0 then
      noteOff r off
      let kind := match o with | .arr .. => 0 | _ => 1
      let st ← get
      if !st.seenView.contains (kind, r, off, len) then
        modify fun st => { st with seenView := (kind, r, off, len) :: st.seenView }
        for e in s.viewObjs r off len do collect s e
  | .dict r =>
    let st ← get
    if !st.seenDict.contains r then
      modify fun st => { st with seenDict := r :: st.seenDict }
      for (_, v) in sortedDict (s.getDict r) do collect s v
  | .cmapInfo r =>
    let st ← get
    if !st.seenDict.contains r then
      modify fun st => { st with seenDict := r :: st.seenDict }
      for e in cmapObjs (s.getCMap r) do collect s e
  | _ => pure ()

def idOf (r : Nat) : M Nat := do
  let st ← get
  match st.ids.find? (·.1 == r) with
  | some (_, i) => pure i
  | none =>
    let i := st.next + 1
    set { st with ids := (r, i) :: st.ids, next := i }
    pure i

def relOff (r off : Nat) : M Nat := do
  let st ← get
  match st.minOff.find? (·.1 == r) with
  | some (_, m) => pure (off - m)
  | none => pure off

def unchanged (cur : Obj) (init : Option Obj) : Bool :=
  match init with
  | some i => cur == i
  | none => false

mutual
partial def writeDiff (s : VM) (tag : String) (d : List (Name × Obj)) (init : List (Name × Obj)) : M Unit := do
  emit ("=" ++ tag ++ "{")
  let mut first := true
  for (k, v) in sortedDict d do
    if unchanged v (dictLookup init k) then continue
    if !first then emit " "
    first := false
    emit (esc k ++ ":")
    write s v
  emit "}"

partial def writeList (s : VM) (os : List Obj) : M Unit := do
  let mut first := true
  for o in os do
    if !first then emit " "
    first := false
    write s o

partial def write (s : VM) (o : Obj) : M Unit := do
  match o with
  | .file => emit "-file-"
  | .int v => emit (toString v)
  | .real b => emit (realStr b)
  | .bool b => emit (toString b)
  | .name n => emit ("/" ++ esc n)
  | .op n => emit ("x:" ++ esc n)
  | .mark => emit "-mark-"
  | .builtin id => emit ("B:" ++ id)
  | .str r off len =>
    if len == 0 then emit "S()"
    else
      let i ← idOf r
      let ro ← relOff r off
      emit s!"S{i}+{ro}({strBody (s.viewBytes r off len)})"
  | .arr r off len | .proc r off len =>
    let isArr := match o with | .arr .. => true | _ => false
    let (letter, op, cl) := if isArr then ("A", "[", "]") else ("P", "{", "}")
    if len == 0 then emit (letter ++ op ++ cl)
    else
      let i ← idOf r
      let ro ← relOff r off
      let kind := if isArr then 0 else 1
      let st ← get
      if st.seenView.contains (kind, r, off, len) then emit s!"{letter}{i}+{ro}:{len}"
      else
        modify fun st => { st with seenView := (kind, r, off, len) :: st.seenView }
        if isArr && r == refStdEnc && off == 0 && len == 256 then
          emit s!"A{i}+{ro}=enc\{"
          let mut first := true
          let mut idx := 0
          for (e, nm) in (s.viewObjs r off len).zip standardEncoding do
            if e != .name nm then
              if !first then emit " "
              first := false
              emit s!"{idx}:"
              write s e
            idx := idx + 1
          emit "}"
        else
          emit s!"{letter}{i}+{ro}{op}"
          writeList s (s.viewObjs r off len)
          emit cl
  | .dict r =>
    let i ← idOf r
    emit s!"D{i}"
    let st ← get
    if !st.seenDict.contains r then
      modify fun st => { st with seenDict := r :: st.seenDict }
      if r == refSystemDict then writeDiff s "sys" (s.getDict r) initSystemDict
      else if r == refErrorDict then writeDiff s "err" (s.getDict r) initErrorDict
      else if r == refCIDInit then writeDiff s "cidinit" (s.getDict r) initCIDInit
      else
        emit "{"
        let mut first := true
        for (k, v) in sortedDict (s.getDict r) do
          if !first then emit " "
          first := false
          emit (esc k ++ ":")
          write s v
        emit "}"
  | .cmapInfo r =>
    let i ← idOf r
    emit s!"C{i}"
    let st ← get
    if !st.seenDict.contains r then
      modify fun st => { st with seenDict := r :: st.seenDict }
      let c := s.getCMap r
      emit ("{use=" ++ esc c.useCMap ++ ";csr=[")
      let mut first := true
      for e in c.codeSpaceRanges do
        if !first then emit " "
        first := false
        write s e.low; emit "-"; write s e.high
      for (tag, cs) in [("cc", c.cidChars)] do
        emit ("];" ++ tag ++ "=[")
        writeChars s cs
      emit "];cr=["
      writeRanges s c.cidRanges
      emit "];bc=["
      writeChars s c.bfChars
      emit "];br=["
      writeRanges s c.bfRanges
      emit "];nc=["
      writeChars s c.notdefChars
      emit "];nr=["
      writeRanges s c.notdefRanges
      emit "]}"

partial def writeChars (s : VM) (cs : List CharMap) : M Unit := do
  let mut first := true
  for e in cs do
    if !first then emit " "
    first := false
    write s e.src; emit ">"; write s e.dst

partial def writeRanges (s : VM) (rs : List RangeMap) : M Unit := do
  let mut first := true
  for e in rs do
    if !first then emit " "
    first := false
    write s e.low; emit "-"; write s e.high; emit ">"; write s e.dst
end

def outcomeStr : Res → String
  | .ok => "ok"
  | .err (.ps n) => "err:" ++ n
  | .err .limit => "limit"
  | .err .noPS => "nops"
  | .err .eof => "eof"
  | .err (.io t) => "io:" ++ t
  | .err .exit => "other"
  | .err .stop => "other"
  | .err (.other _) => "other"
  | .err (.panic site) => "panic:" ++ site
  | .fuel => "fuel"

def rootObjs (s : VM) : List Obj :=
  s.stack.reverse ++ s.dictStack.reverse.map Obj.dict ++
  [.dict s.roots.systemDict, .dict s.roots.userDict, .dict s.roots.errorDict, .dict s.roots.fontDirectory,
   .dict s.roots.internalDict, .dict s.roots.resources, .arr refStdEnc 0 256]

def render (st : State) (r : Res) : String :=
  let s := st.vm
  let head := s!"{outcomeStr r} n={st.numOps} sl={s.stack.length} dl={s.dictStack.length}"
  if r != .ok then head
  else
    let act : M Unit := do
      for o in rootObjs s do collect s o
      modify fun st => { st with seenView := [], seenDict := [] }
      emit " st=["
      writeList s s.stack.reverse
      emit "] ds=["
      writeList s (s.dictStack.reverse.map Obj.dict)
      emit "] sys="; write s (.dict s.roots.systemDict)
      emit " user="; write s (.dict s.roots.userDict)
      emit " err="; write s (.dict s.roots.errorDict)
      emit " font="; write s (.dict s.roots.fontDirectory)
      emit " int="; write s (.dict s.roots.internalDict)
      emit " res="; write s (.dict s.roots.resources)
      emit " enc="; write s (.arr refStdEnc 0 256)
      emit " dsc=["
      let mut first := true
      for (k, v) in st.dsc do
        if !first then emit ";"
        first := false
        emit (esc k ++ "=" ++ esc v)
      emit "]"
    let (_, st) := act.run {}
    head ++ String.join st.out.toList

end Driver.Canon
