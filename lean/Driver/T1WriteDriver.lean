import Driver.Util
import PsVerif.Model.T1Write
/-!
Line-protocol verb for the Type 1 writer model (`PsVerif/Model/T1Write.lean`):

  `t1w <format> <font spec>`   with `<format>` one of `pfa`, `pfb`, `bin`, `noeexec`, `pdf`

answers

  `ok <hex of the output>`             `Font.Write` succeeds with these bytes (`-` for no bytes)
  `ok <hex of the output> <l1> <l2>`   format `pdf`: `Font.WritePDF` writes these bytes and returns `l1`, `l2`
  `error`                              Go returns an error (a name that `Name.PS` refuses)
  `unsupported`                        outside the modelled subset (see the model), e.g. a NaN coordinate
  `bad-op`                             the line does not parse

## The font spec

One token without blanks: fields `key=value` joined by `;`, in any order, all of them required.
`<hex>` is the lower-case hexadecimal of a byte string, `-` for the empty string.  `<f>` is a `float64` as the 16
hexadecimal digits of `math.Float64bits`.  `<int>` is a decimal integer.

  fn ver not cop full fam wt   `<hex>`    FontName Version Notice Copyright FullName FamilyName Weight
  ia up ut bs hw vw            `<f>`      ItalicAngle UnderlinePosition UnderlineThickness BlueScale StdHW StdVW
  fm                           six `<f>` joined by `_`                       FontMatrix
  fp fb                        `0` / `1`                                     IsFixedPitch ForceBold
  bv ob                        `<int>`s joined by `,` (empty for none)       BlueValues OtherBlues
  bsh bf                       `<int>`                                       BlueShift BlueFuzz
  date                         `<hex>` of `CreationDate.Format("2006-01-02 15:04:05 -0700 MST")`, empty for the zero time
  enc                          entries joined by `,` (empty value: no entries); an entry is `<hex>` or `n` for `.notdef`
  gl                           glyphs joined by `|` (empty value: no glyphs); a glyph is
                               `<hex name>:<f WidthX>:<f WidthY>:<HStem ints>:<VStem ints>:<cmds>`,
                               cmds joined by `,`: `m<f>_<f>`  `l<f>_<f>`  `c<f>_<f>_<f>_<f>_<f>_<f>`  `z`

A Go function producing this encoding:

```go
func fontSpec(f *type1.Font) string {
	hx := func(s string) string {
		if s == "" {
			return "-"
		}
		return hex.EncodeToString([]byte(s))
	}
	fl := func(x float64) string { return fmt.Sprintf("%016x", math.Float64bits(x)) }
	b := func(x bool) string { return map[bool]string{false: "0", true: "1"}[x] }
	ints := func(xs []funit.Int16) string {
		var ss []string
		for _, x := range xs {
			ss = append(ss, strconv.Itoa(int(x)))
		}
		return strings.Join(ss, ",")
	}
	fls := func(xs []float64) string {
		var ss []string
		for _, x := range xs {
			ss = append(ss, fl(x))
		}
		return strings.Join(ss, "_")
	}
	fi, p := f.FontInfo, f.Private
	var enc, gl []string
	for _, e := range f.Encoding {
		if e == ".notdef" {
			enc = append(enc, "n")
		} else {
			enc = append(enc, hx(e))
		}
	}
	names := maps.Keys(f.Glyphs) // golang.org/x/exp/maps
	sort.Strings(names)
	for _, name := range names {
		g := f.Glyphs[name]
		var cmds []string
		for _, c := range g.Cmds {
			cmds = append(cmds, string("?mlcz"[c.Op%5])+fls(c.Args))
		}
		gl = append(gl, strings.Join([]string{hx(name), fl(g.WidthX), fl(g.WidthY),
			ints(g.HStem), ints(g.VStem), strings.Join(cmds, ",")}, ":"))
	}
	date := ""
	if !f.CreationDate.IsZero() {
		date = hx(f.CreationDate.Format("2006-01-02 15:04:05 -0700 MST"))
	}
	return strings.Join([]string{
		"fn=" + hx(fi.FontName), "ver=" + hx(fi.Version), "not=" + hx(fi.Notice),
		"cop=" + hx(fi.Copyright), "full=" + hx(fi.FullName), "fam=" + hx(fi.FamilyName),
		"wt=" + hx(fi.Weight), "ia=" + fl(fi.ItalicAngle), "fp=" + b(fi.IsFixedPitch),
		"up=" + fl(float64(fi.UnderlinePosition)), "ut=" + fl(float64(fi.UnderlineThickness)),
		"fm=" + fls(fi.FontMatrix[:]), "bv=" + ints(p.BlueValues), "ob=" + ints(p.OtherBlues),
		"bs=" + fl(p.BlueScale), "bsh=" + strconv.Itoa(int(p.BlueShift)),
		"bf=" + strconv.Itoa(int(p.BlueFuzz)), "hw=" + fl(p.StdHW), "vw=" + fl(p.StdVW),
		"fb=" + b(p.ForceBold), "date=" + date, "enc=" + strings.Join(enc, ","),
		"gl=" + strings.Join(gl, "|"),
	}, ";")
}
```
-/
namespace Driver
open PsVerif.Base PsVerif.Model PsVerif.Model.T1Write

/-- parse outcome: a value, a syntax error, or a value the model cannot hold (NaN coordinate, …) -/
inductive T1P (α : Type) where
  | ok (a : α)
  | bad
  | unsupported

def T1P.bind {α β : Type} (r : T1P α) (f : α → T1P β) : T1P β :=
  match r with
  | .ok a => f a
  | .bad => .bad
  | .unsupported => .unsupported

instance : Monad T1P where
  pure := T1P.ok
  bind := T1P.bind

def t1pOpt {α : Type} : Option α → T1P α
  | some a => .ok a
  | none => .bad

def t1pMap {α β : Type} (f : α → T1P β) : List α → T1P (List β)
  | [] => .ok []
  | a :: as => do
    let b ← f a
    let bs ← t1pMap f as
    pure (b :: bs)

def t1wBytes (s : String) : T1P Bytes := t1pOpt ((bytesOfHex s).map (·.map UInt8.ofNat))

def t1wFloat (s : String) : T1P UInt64 :=
  if s.length != 16 then .bad
  else t1pOpt ((bytesOfHex s).map (fun bs => UInt64.ofNat (bs.foldl (fun a b => a * 256 + b) 0)))

/-- a float that must have an exact rational value -/
def t1wRat (s : String) : T1P Rat := do
  let x ← t1wFloat s
  if SoftFloat.isNaN x || SoftFloat.isInf x then .unsupported else pure (fval x)

def t1wList (s : String) (sep : String) : List String := if s == "" then [] else s.splitOn sep

def t1wInts (s : String) : T1P (List Int) := t1pMap (fun x => t1pOpt x.toInt?) (t1wList s ",")

def t1wBool (s : String) : T1P Bool :=
  if s == "1" then .ok true else if s == "0" then .ok false else .bad

def t1wCmd (s : String) : T1P T1Encode.Cmd := do
  let args ← t1pMap t1wRat (t1wList (String.ofList (s.toList.drop 1)) "_")
  match s.toList.head?, args with
  | some 'm', [x, y] => pure (.moveTo x y)
  | some 'l', [x, y] => pure (.lineTo x y)
  | some 'c', [x1, y1, x2, y2, x3, y3] => pure (.curveTo x1 y1 x2 y2 x3 y3)
  | some 'z', [] => pure .closePath
  | _, _ => .bad

def t1wGlyph (s : String) : T1P (Bytes × Glyph) :=
  match s.splitOn ":" with
  | [name, wx, wy, hs, vs, cmds] => do
    let name ← t1wBytes name
    let wx ← t1wRat wx
    let wy ← t1wRat wy
    let hs ← t1wInts hs
    let vs ← t1wInts vs
    let cmds ← t1pMap t1wCmd (t1wList cmds ",")
    pure (name, { outline := { cmds := cmds, hstem := hs, vstem := vs }, widthX := wx, widthY := wy })
  | _ => .bad

def t1wField (fields : List (String × String)) (k : String) : T1P String :=
  t1pOpt (fields.lookup k)

def t1wFont (spec : String) : T1P Font := do
  let fields := (spec.splitOn ";").filterMap (fun kv =>
    match kv.splitOn "=" with
    | [k, v] => some (k, v)
    | _ => none)
  let get := t1wField fields
  let fn ← (get "fn") >>= t1wBytes
  let ver ← (get "ver") >>= t1wBytes
  let notice ← (get "not") >>= t1wBytes
  let cop ← (get "cop") >>= t1wBytes
  let full ← (get "full") >>= t1wBytes
  let fam ← (get "fam") >>= t1wBytes
  let wt ← (get "wt") >>= t1wBytes
  let ia ← (get "ia") >>= t1wFloat
  let fp ← (get "fp") >>= t1wBool
  let up ← (get "up") >>= t1wFloat
  let ut ← (get "ut") >>= t1wFloat
  let fmS ← get "fm"
  let fm ← t1pMap t1wFloat (t1wList fmS "_")
  let bv ← (get "bv") >>= t1wInts
  let ob ← (get "ob") >>= t1wInts
  let bs ← (get "bs") >>= t1wFloat
  let bsh ← (get "bsh") >>= (fun s => t1pOpt s.toInt?)
  let bf ← (get "bf") >>= (fun s => t1pOpt s.toInt?)
  let hw ← (get "hw") >>= t1wFloat
  let vw ← (get "vw") >>= t1wFloat
  let fb ← (get "fb") >>= t1wBool
  let dateS ← get "date"
  let date ← if dateS == "" then pure none else (some <$> t1wBytes dateS)
  let encS ← get "enc"
  let enc ← t1pMap (fun e => if e == "n" then pure notdef else t1wBytes e) (t1wList encS ",")
  let glS ← get "gl"
  let gl ← t1pMap t1wGlyph (t1wList glS "|")
  match fm with
  | [a, b, c, d, e, f] =>
    pure { info := { fontName := fn, version := ver, notice := notice, copyright := cop, fullName := full,
                     familyName := fam, weight := wt, italicAngle := ia, isFixedPitch := fp,
                     underlinePosition := up, underlineThickness := ut, fontMatrix := ⟨a, b, c, d, e, f⟩ },
           glyphs := gl,
           priv := { blueValues := bv, otherBlues := ob, blueScale := bs, blueShift := bsh, blueFuzz := bf,
                     stdHW := hw, stdVW := vw, forceBold := fb },
           encoding := enc, creationDate := date }
  | _ => .bad

def t1wHex (bs : Bytes) : String := hexOfBytes (bs.map UInt8.toNat)

def t1wRun (fmt : String) (f : Font) : String :=
  let show1 (r : Except T1Write.Err Bytes) : String :=
    match r with
    | .ok bs => "ok " ++ t1wHex bs
    | .error .error => "error"
    | .error .unsupported => "unsupported"
  match fmt with
  | "pfa" => show1 (writeFont f .pfa)
  | "pfb" => show1 (writeFont f .pfb)
  | "bin" => show1 (writeFont f .binary)
  | "noeexec" => show1 (writeFont f .noEExec)
  | "pdf" =>
    match writePDF f with
    | .ok (bs, l1, l2) => "ok " ++ t1wHex bs ++ " " ++ toString l1 ++ " " ++ toString l2
    | .error .error => "error"
    | .error .unsupported => "unsupported"
  | _ => "bad-op"

def t1wVerb (line : String) : String :=
  match line.splitOn " " with
  | ["t1w", fmt, spec] =>
    match t1wFont spec with
    | .ok f => t1wRun fmt f
    | .bad => "bad-op"
    | .unsupported => "unsupported"
  | _ => "bad-op"

end Driver
