import Driver.Util
import PsVerif.Model.T1Read
/-!
Verb `t1r` of the line protocol: `t1r <hex of the font file>` is answered by `error` (Go: `type1.Read` returned an
error) or `ok <canonical font text>`; `unsupported:<why>` when the model does not determine the outcome (model fuel,
a division by zero inside a charstring) and `panic:<site>` (proved impossible) are never equal to a Go answer.

## The canonical text of a font (one line, blank-separated `key=value` fields, in this order)

```
name= version= notice= copyright= fullname= family= weight=     byte strings: lower-case hex, `-` when empty
italic= fixed= ulpos= ulthick=                                  <num>, true|false, <num>, <num>
matrix=<num>,<num>,<num>,<num>,<num>,<num>
bv= ob=                                                         integers joined by `,`, `-` when empty
bs=<num> bsh=<int> bf=<int> hw=<num> vw=<num> fb=true|false
enc=none | <hexname>,…(256)
glyphs=<glyph>|<glyph>|…                                        sorted by name (bytewise)
   <glyph> = <hexname>:w=<num>,<num>:hs=<ints>:vs=<ints>:c=<cmd>;<cmd>;…      (`-` for an empty list)
   <cmd>   = m_<num>_<num>  l_<num>_<num>  c_<num>_<num>_<num>_<num>_<num>_<num>  z
```

`<num>` is the exact value of the `float64`: an integer `n`, or a reduced fraction `n/d` (Go: `big.Rat.RatString`),
or `nan`, `+inf`, `-inf`; `-0` is `0`.  The creation date is not part of the text (the model keeps the raw comment,
see `Model/T1Read.lean`).

The Go side (`import ("encoding/hex"; "fmt"; "math"; "math/big"; "sort"; "strings"; "seehuhn.de/go/postscript/type1")`):

```go
func fontCanon(f *type1.Font) string {
	hx := func(s string) string {
		if s == "" {
			return "-"
		}
		return hex.EncodeToString([]byte(s))
	}
	num := func(x float64) string {
		switch {
		case math.IsNaN(x):
			return "nan"
		case math.IsInf(x, 1):
			return "+inf"
		case math.IsInf(x, -1):
			return "-inf"
		}
		return new(big.Rat).SetFloat64(x).RatString()
	}
	join := func(n int, sep string, at func(i int) string) string {
		if n == 0 {
			return "-"
		}
		parts := make([]string, n)
		for i := range parts {
			parts[i] = at(i)
		}
		return strings.Join(parts, sep)
	}
	fi, p := f.FontInfo, f.Private
	var sb strings.Builder
	fmt.Fprintf(&sb, "name=%s version=%s notice=%s copyright=%s fullname=%s family=%s weight=%s", hx(fi.FontName), hx(fi.Version),
		hx(fi.Notice), hx(fi.Copyright), hx(fi.FullName), hx(fi.FamilyName), hx(fi.Weight))
	fmt.Fprintf(&sb, " italic=%s fixed=%v ulpos=%s ulthick=%s matrix=%s", num(fi.ItalicAngle), fi.IsFixedPitch,
		num(float64(fi.UnderlinePosition)), num(float64(fi.UnderlineThickness)), join(6, ",", func(i int) string { return num(fi.FontMatrix[i]) }))
	fmt.Fprintf(&sb, " bv=%s ob=%s bs=%s bsh=%d bf=%d hw=%s vw=%s fb=%v", join(len(p.BlueValues), ",", func(i int) string { return fmt.Sprint(int(p.BlueValues[i])) }),
		join(len(p.OtherBlues), ",", func(i int) string { return fmt.Sprint(int(p.OtherBlues[i])) }), num(p.BlueScale), p.BlueShift, p.BlueFuzz,
		num(p.StdHW), num(p.StdVW), p.ForceBold)
	if len(f.Encoding) == 0 {
		sb.WriteString(" enc=none")
	} else {
		sb.WriteString(" enc=" + join(len(f.Encoding), ",", func(i int) string { return hx(f.Encoding[i]) }))
	}
	names := make([]string, 0, len(f.Glyphs))
	for n := range f.Glyphs {
		names = append(names, n)
	}
	sort.Strings(names)
	sb.WriteString(" glyphs=" + join(len(names), "|", func(i int) string {
		g := f.Glyphs[names[i]]
		cmd := func(k int) string {
			c := g.Cmds[k]
			if c.Op == type1.OpClosePath {
				return "z"
			}
			return string("?mlc"[c.Op]) + "_" + join(len(c.Args), "_", func(j int) string { return num(c.Args[j]) })
		}
		return fmt.Sprintf("%s:w=%s,%s:hs=%s:vs=%s:c=%s", hx(names[i]), num(g.WidthX), num(g.WidthY),
			join(len(g.HStem), ",", func(j int) string { return fmt.Sprint(int(g.HStem[j])) }),
			join(len(g.VStem), ",", func(j int) string { return fmt.Sprint(int(g.VStem[j])) }), join(len(g.Cmds), ";", cmd))
	}))
	return sb.String()
}
```
-/
open PsVerif.Base PsVerif.Model
namespace Driver
open PsVerif.Model.T1Read

def t1rHex (b : List UInt8) : String := hexOfBytes (b.map UInt8.toNat)

/-- `<num>` for a `float64` given by its bits -/
def t1rNum (x : UInt64) : String :=
  if SoftFloat.isNaN x then "nan"
  else if SoftFloat.isInf x then (if SoftFloat.signOf x then "-inf" else "+inf")
  else ratStr (T1Write.fval x)

def t1rJoin (sep : String) (l : List String) : String :=
  if l.isEmpty then "-" else sep.intercalate l

def t1rInts (l : List Int) : String := t1rJoin "," (l.map toString)

def t1rCmd : T1Encode.Cmd → String
  | .moveTo x y => s!"m_{ratStr x}_{ratStr y}"
  | .lineTo x y => s!"l_{ratStr x}_{ratStr y}"
  | .curveTo a b c d e f => s!"c_{ratStr a}_{ratStr b}_{ratStr c}_{ratStr d}_{ratStr e}_{ratStr f}"
  | .closePath => "z"

def t1rGlyph (p : T1Write.Bytes × T1Decode.Glyph) : String :=
  let g := p.2
  s!"{t1rHex p.1}:w={ratStr g.widthX},{ratStr g.widthY}:hs={t1rInts g.hstem}:vs={t1rInts g.vstem}:c={t1rJoin ";" (g.cmds.map t1rCmd)}"

/-- the canonical text (the glyph list of the model is sorted by name already) -/
def fontCanon (f : T1Read.Font) : String :=
  let i := f.info
  let p := f.priv
  s!"name={t1rHex i.fontName} version={t1rHex i.version} notice={t1rHex i.notice} copyright={t1rHex i.copyright}" ++
  s!" fullname={t1rHex i.fullName} family={t1rHex i.familyName} weight={t1rHex i.weight}" ++
  s!" italic={t1rNum i.italicAngle} fixed={i.isFixedPitch} ulpos={t1rNum i.underlinePosition} ulthick={t1rNum i.underlineThickness}" ++
  s!" matrix={t1rJoin "," (i.fontMatrix.toList.map t1rNum)}" ++
  s!" bv={t1rInts p.blueValues} ob={t1rInts p.otherBlues} bs={t1rNum p.blueScale} bsh={p.blueShift} bf={p.blueFuzz}" ++
  s!" hw={t1rNum p.stdHW} vw={t1rNum p.stdVW} fb={p.forceBold}" ++
  " enc=" ++ (if f.encoding.isEmpty then "none" else t1rJoin "," (f.encoding.map t1rHex)) ++
  " glyphs=" ++ t1rJoin "|" (f.glyphs.map t1rGlyph)

def t1rResult : ReadResult → String
  | .ok f => "ok " ++ fontCanon f
  | .error _ => "error"
  | .unsupported why => "unsupported:" ++ why
  | .panic site => "panic:" ++ site

/-- `t1r <hex>` -/
def t1rVerb (line : String) : String :=
  match line.splitOn " " with
  | ["t1r", h] =>
    match bytesOfHex h with
    | some bs => t1rResult (readFont (bs.map UInt8.ofNat))
    | none => "bad-op"
  | _ => "bad-op"

end Driver
