import Driver.Util
import PsVerif.Model.Refill
/-
Driver verb for the buffering layer (`Model/Refill.lean`):

    refill <n> <fin> <chunk>,<chunk>,…     chunk = <hex data>:<err>,  err/fin ∈ {-, eof, f}

answers, for `n` calls of `readByteRaw` on `newScanner`, the byte or error of each call followed by
`/` and the value of the `err` field after it.
-/
namespace Driver
open PsVerif.Model PsVerif.Model.Refill

def rdErrOf : String → Option (Option RdErr)
  | "-" => some none
  | "eof" => some (some .eof)
  | "f" => some (some (.fault "t"))
  | _ => none

def chunkOf (s : String) : Option Chunk :=
  match s.splitOn ":" with
  | [h, e] =>
    match bytesOfHex h, rdErrOf e with
    | some bs, some e => some { data := bs.map UInt8.ofNat, err := e }
    | _, _ => none
  | _ => none

def errName : Err → String
  | .eof => "eof"
  | .io _ => "io"
  | _ => "other"

def obsStr : Obs → String
  | .byte b => hexOfBytes [b.toNat]
  | .fail e => "!" ++ errName e
  | .errField none => "/-"
  | .errField (some e) => "/" ++ errName e
  | .done => "."

def pairUp : List String → List String
  | a :: b :: rest => (a ++ b) :: pairUp rest
  | l => l

def refillVerb (line : String) : String :=
  match line.splitOn " " with
  | ["refill", n, fin, chunks] =>
    match n.toNat?, rdErrOf fin, mapM? chunkOf (if chunks == "-" then [] else chunks.splitOn ",") with
    | some n, some (some fin), some cs =>
      let ops := (List.replicate n [Op.read, Op.getErr]).flatten
      String.intercalate " " (pairUp ((runB ops (newScanner { chunks := cs, fin := fin })).map obsStr))
    | _, _, _ => "bad-op"
  | _ => "bad-op"

end Driver
