#!/bin/sh
# Build the framework from files on disk only (offline).
set -e
cd "$(dirname "$0")"
export GOFLAGS=-mod=mod GOPROXY=off GOSUMDB=off GOTOOLCHAIN=local CGO_ENABLED=0
mkdir -p bin .build work replays evidence
(cd tools/factgen && go build -o ../../bin/factgen .)
./bin/factgen -repo "${VERIF_REPO:-/repo}" -out lean/PsVerif/Generated
(cd lean && lake build PsVerif psdriver)
echo "setup done"
