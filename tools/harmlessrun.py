#!/usr/bin/env python3
"""Runs every quick check against a behaviour-preserving change: tools/harmlessrun.py <dir with patch.diff>.
Expectation: no VIOLATION line (a broken tie reported as no-failing-input-found is listed separately)."""
import json, os, re, subprocess, sys, time
ROOT = os.path.dirname(os.path.dirname(os.path.abspath(__file__)))
SEED_REPO = os.environ.get("SEED_REPO", "/repo")
ENV = dict(os.environ, GOFLAGS="-mod=mod", GOPROXY="off", GOSUMDB="off", GOTOOLCHAIN="local", VERIF_REPO=SEED_REPO,
           VERIF_EVIDENCE_DIR=os.path.join(ROOT, "work", "seed-evidence"))
d = os.path.abspath(sys.argv[1])
if subprocess.run(["git", "-C", SEED_REPO, "status", "--porcelain"], stdout=subprocess.PIPE, text=True).stdout.strip():
    sys.exit(SEED_REPO + " is not clean")
res = {"change": d, "runs": []}
try:
    r = subprocess.run(["git", "-C", SEED_REPO, "apply", os.path.join(d, "patch.diff")], stdout=subprocess.PIPE, stderr=subprocess.STDOUT, text=True)
    if r.returncode != 0:
        sys.exit("patch does not apply: " + r.stdout)
    for pid in sorted(json.load(open(os.path.join(ROOT, "props.json")))):
        t = time.time()
        p = subprocess.run(["./check", pid, "--tier", "quick"], cwd=ROOT, env=ENV, stdout=subprocess.PIPE, stderr=subprocess.STDOUT, text=True)
        viol = re.findall(r"^VIOLATION property=(\S+) replay=(\S+)(.*)$", p.stdout, re.M)
        bad = re.findall(r"NOT DISCHARGED: (.*)", p.stdout)
        first = None
        if viol:
            try:
                v = json.load(open(viol[0][1]))
                first = {k: (v.get(k) or "")[:300] if isinstance(v.get(k), str) else v.get(k) for k in ("suite", "oracle", "op_line", "expected", "observed")}
            except Exception as e:  # noqa
                first = {"error": str(e)}
        res["runs"].append({"property": pid, "exit": p.returncode, "violations": len(viol), "nofail": any("no-failing-input-found" in v[2] for v in viol),
                            "not_discharged": [b[:200] for b in bad][:4], "first": first, "wall_s": round(time.time() - t, 1)})
finally:
    subprocess.run(["git", "-C", SEED_REPO, "checkout", "--", "."])
    subprocess.run(["git", "-C", SEED_REPO, "clean", "-fdq"])
res["alarms"] = sorted(r["property"] for r in res["runs"] if r["exit"] != 0)
json.dump(res, open(os.path.join(d, "result.json"), "w"), indent=1)
print(d, "alarms:", ", ".join(res["alarms"]) or "none")
for r in res["runs"]:
    if r["exit"] != 0:
        print("   ", r["property"], "|", ((r["first"] or {}).get("oracle") or "")[:80], "|", ((r["first"] or {}).get("op_line") or "")[:80], "|", "; ".join(r["not_discharged"])[:200])
