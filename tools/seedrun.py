#!/usr/bin/env python3
"""Rehearsal of the checks against a seeded change.

  tools/seedrun.py import <pid> <srcdir>   copy patch<k>.diff / meta<k>.json / demo<k>* from a sub-agent's
                                           output directory to /verif/seeded/<pid>/<k>/
  tools/seedrun.py run <pid> <k> [--all]   apply /verif/seeded/<pid>/<k>/patch.diff to /repo, run the property's own
                                           check (quick; thorough if quick misses), with --all also every other quick
                                           check, undo the change, write result.json next to the patch

/repo is restored (git checkout -- .) in every case; evidence of these runs goes to work/seed-evidence.
"""
import json, os, re, shutil, subprocess, sys, glob, concurrent.futures, time
ROOT = os.path.dirname(os.path.dirname(os.path.abspath(__file__)))
# SEED_REPO: tree the change is applied to. Default /repo itself; while other work reads /repo, a scratch
# worktree (git -C /repo worktree add --detach /tmp/seedrepo HEAD) can be used instead (VERIF_REPO selects it).
SEED_REPO = os.environ.get("SEED_REPO", "/repo")
ENV = dict(os.environ, GOFLAGS="-mod=mod", GOPROXY="off", GOSUMDB="off", GOTOOLCHAIN="local", VERIF_REPO=SEED_REPO,
           VERIF_EVIDENCE_DIR=os.path.join(ROOT, "work", "seed-evidence"))


def check(pid, tier):
    t = time.time()
    p = subprocess.run(["./check", pid, "--tier", tier], cwd=ROOT, env=ENV, stdout=subprocess.PIPE, stderr=subprocess.STDOUT, text=True)
    viol = re.findall(r"^VIOLATION property=(\S+) replay=(\S+)(.*)$", p.stdout, re.M)
    bad = re.findall(r"NOT DISCHARGED: (.*)", p.stdout)
    first = None
    if viol:
        try:
            v = json.load(open(viol[0][1]))
            first = {k: (v.get(k) or "")[:400] if isinstance(v.get(k), str) else v.get(k) for k in ("suite", "oracle", "op_line", "expected", "observed", "found_input")}
        except Exception as e:  # noqa
            first = {"error": str(e)}
    return {"property": pid, "tier": tier, "exit": p.returncode, "violations": len(viol), "not_discharged": [b[:200] for b in bad][:8],
            "no_failing_input_found": any("no-failing-input-found" in v[2] for v in viol), "first": first, "wall_s": round(time.time() - t, 1)}


def main():
    cmd = sys.argv[1]
    if cmd == "import":
        pid, src = sys.argv[2], sys.argv[3]
        for mp in sorted(glob.glob(os.path.join(src, "patch*.diff"))):
            k = re.search(r"patch(\d+)\.diff", mp).group(1)
            dst = os.path.join(ROOT, "seeded", pid, k)
            os.makedirs(dst, exist_ok=True)
            shutil.copy(mp, os.path.join(dst, "patch.diff"))
            meta = os.path.join(src, "meta%s.json" % k)
            if os.path.exists(meta):
                shutil.copy(meta, os.path.join(dst, "meta.json"))
            demo = os.path.join(dst, "demonstration")
            os.makedirs(demo, exist_ok=True)
            for f in glob.glob(os.path.join(src, "demo%s*" % k)):
                if os.path.isdir(f):
                    for g in glob.glob(os.path.join(f, "*")):
                        if os.path.isfile(g) and os.path.getsize(g) < 200000 and not g.endswith((".sum",)):
                            shutil.copy(g, demo)
                elif os.path.getsize(f) < 200000:
                    shutil.copy(f, demo)
            print("imported", dst)
        return
    pid, k = sys.argv[2], sys.argv[3]
    d = os.path.join(ROOT, "seeded", pid, k)
    patch = os.path.join(d, "patch.diff")
    if subprocess.run(["git", "-C", SEED_REPO, "status", "--porcelain"], stdout=subprocess.PIPE, text=True).stdout.strip():
        sys.exit(SEED_REPO + " is not clean")
    res = {"property": pid, "change": k, "runs": []}
    try:
        r = subprocess.run(["git", "-C", SEED_REPO, "apply", patch], stdout=subprocess.PIPE, stderr=subprocess.STDOUT, text=True)
        if r.returncode != 0:
            sys.exit("patch does not apply: " + r.stdout)
        own = check(pid, "quick")
        res["runs"].append(own)
        if own["exit"] == 0:
            res["runs"].append(check(pid, "thorough"))
        if "--all" in sys.argv:
            others = [p for p in json.load(open(os.path.join(ROOT, "props.json"))) if p != pid]
            with concurrent.futures.ThreadPoolExecutor(6) as ex:
                res["runs"] += list(ex.map(lambda p: check(p, "quick"), sorted(others)))
    finally:
        subprocess.run(["git", "-C", SEED_REPO, "checkout", "--", "."])
        subprocess.run(["git", "-C", SEED_REPO, "clean", "-fdq"])
    res["caught_by_own_check"] = any(r["property"] == pid and r["exit"] != 0 for r in res["runs"])
    res["caught_by"] = sorted(set(r["property"] + ":" + r["tier"] for r in res["runs"] if r["exit"] != 0))
    json.dump(res, open(os.path.join(d, "result.json"), "w"), indent=1)
    print(pid, k, "caught by:", ", ".join(res["caught_by"]) or "NOTHING")
    for r in res["runs"]:
        if r["exit"] != 0 and r["first"]:
            print("   ", r["property"], r["tier"], "|", (r["first"].get("oracle") or "")[:90], "|", (r["first"].get("op_line") or "")[:100])


if __name__ == "__main__":
    main()
