module factgen

go 1.23.2
