// factgen extracts constants, tables and structural facts from the Go source
// of seehuhn/go-postscript and writes them as Lean definitions
// (lean/PsVerif/Generated/*.lean).  It only reads the source tree (go/parser,
// go/ast); nothing is executed.
//
// A fact that cannot be found is written as `none` (or an empty list), never
// guessed: the Lean obligation that consumes it then fails to check.
package main

import (
	"bufio"
	"flag"
	"fmt"
	"go/ast"
	"go/constant"
	"go/parser"
	"go/token"
	"math/big"
	"os"
	"path/filepath"
	"sort"
	"strconv"
	"strings"
)

var fset = token.NewFileSet()

type pkgInfo struct {
	dir   string
	files map[string]*ast.File // base name -> file
}

func loadPkg(repo, rel string) *pkgInfo {
	dir := filepath.Join(repo, rel)
	pkgs, err := parser.ParseDir(fset, dir, func(fi os.FileInfo) bool {
		n := fi.Name()
		return !strings.HasSuffix(n, "_test.go") && !strings.HasPrefix(n, "verif_")
	}, parser.ParseComments)
	if err != nil {
		fmt.Fprintln(os.Stderr, "factgen: parse", dir, err)
		os.Exit(2)
	}
	p := &pkgInfo{dir: dir, files: map[string]*ast.File{}}
	for _, pk := range pkgs {
		for name, f := range pk.Files {
			p.files[filepath.Base(name)] = f
		}
	}
	return p
}

// evalConst evaluates integer constant expressions made of literals, other
// constants of the package, iota and + - * / << >> | & ^.
func (p *pkgInfo) evalConst(e ast.Expr, iota int, env map[string]constant.Value) (constant.Value, bool) {
	switch e := e.(type) {
	case *ast.BasicLit:
		switch e.Kind {
		case token.INT, token.CHAR, token.FLOAT:
			v := constant.MakeFromLiteral(e.Value, e.Kind, 0)
			return v, v.Kind() != constant.Unknown
		}
	case *ast.Ident:
		if e.Name == "iota" {
			return constant.MakeInt64(int64(iota)), true
		}
		if v, ok := env[e.Name]; ok {
			return v, true
		}
	case *ast.ParenExpr:
		return p.evalConst(e.X, iota, env)
	case *ast.UnaryExpr:
		x, ok := p.evalConst(e.X, iota, env)
		if ok && (e.Op == token.SUB || e.Op == token.ADD || e.Op == token.XOR) {
			return constant.UnaryOp(e.Op, x, 0), true
		}
	case *ast.BinaryExpr:
		x, ok1 := p.evalConst(e.X, iota, env)
		y, ok2 := p.evalConst(e.Y, iota, env)
		if ok1 && ok2 {
			switch e.Op {
			case token.SHL, token.SHR:
				s, ok := constant.Uint64Val(y)
				if ok {
					return constant.Shift(x, e.Op, uint(s)), true
				}
			case token.ADD, token.SUB, token.MUL, token.QUO, token.REM, token.AND, token.OR, token.XOR:
				op := e.Op
				if op == token.QUO && x.Kind() == constant.Int && y.Kind() == constant.Int {
					op = token.QUO_ASSIGN // integer division
				}
				return constant.BinaryOp(x, op, y), true
			}
		}
	case *ast.CallExpr: // conversions such as t1op(1), byte(x), uint16(x)
		if len(e.Args) == 1 {
			return p.evalConst(e.Args[0], iota, env)
		}
	}
	return nil, false
}

// consts returns all package-level constants with a computable value.
func (p *pkgInfo) consts() map[string]constant.Value {
	env := map[string]constant.Value{}
	for pass := 0; pass < 3; pass++ {
		for _, f := range sortedFiles(p.files) {
			for _, d := range f.Decls {
				gd, ok := d.(*ast.GenDecl)
				if !ok || gd.Tok != token.CONST {
					continue
				}
				var last []ast.Expr
				for i, s := range gd.Specs {
					vs := s.(*ast.ValueSpec)
					vals := vs.Values
					if len(vals) == 0 {
						vals = last
					} else {
						last = vals
					}
					for j, name := range vs.Names {
						if j < len(vals) {
							if v, ok := p.evalConst(vals[j], i, env); ok {
								env[name.Name] = v
							}
						}
					}
				}
			}
		}
	}
	return env
}

func sortedFiles(m map[string]*ast.File) []*ast.File {
	var names []string
	for n := range m {
		names = append(names, n)
	}
	sort.Strings(names)
	var res []*ast.File
	for _, n := range names {
		res = append(res, m[n])
	}
	return res
}

func (p *pkgInfo) funcDecl(name string) *ast.FuncDecl {
	for _, f := range sortedFiles(p.files) {
		for _, d := range f.Decls {
			if fd, ok := d.(*ast.FuncDecl); ok {
				fn := fd.Name.Name
				if fd.Recv != nil && len(fd.Recv.List) == 1 {
					fn = strings.TrimPrefix(exprString(fd.Recv.List[0].Type), "*") + "." + fn
				}
				if fn == name {
					return fd
				}
			}
		}
	}
	return nil
}

func (p *pkgInfo) varDecl(name string) ast.Expr {
	for _, f := range sortedFiles(p.files) {
		for _, d := range f.Decls {
			gd, ok := d.(*ast.GenDecl)
			if !ok || gd.Tok != token.VAR {
				continue
			}
			for _, s := range gd.Specs {
				vs := s.(*ast.ValueSpec)
				for i, n := range vs.Names {
					if n.Name == name && i < len(vs.Values) {
						return vs.Values[i]
					}
				}
			}
		}
	}
	return nil
}

// localVarInit finds `var <name> T = <const expr>` or `<name> := <const expr>`
// inside the named function.
func (p *pkgInfo) localVarInit(fn, name string, env map[string]constant.Value) (constant.Value, bool) {
	fd := p.funcDecl(fn)
	if fd == nil || fd.Body == nil {
		return nil, false
	}
	var res constant.Value
	found := false
	ast.Inspect(fd.Body, func(n ast.Node) bool {
		if found {
			return false
		}
		switch n := n.(type) {
		case *ast.ValueSpec:
			for i, nm := range n.Names {
				if strings.EqualFold(nm.Name, name) && i < len(n.Values) { // the register is called R or r
					if v, ok := p.evalConst(n.Values[i], 0, env); ok {
						res, found = v, true
					}
				}
			}
		case *ast.AssignStmt:
			if n.Tok == token.DEFINE {
				for i, l := range n.Lhs {
					if id, ok := l.(*ast.Ident); ok && strings.EqualFold(id.Name, name) && i < len(n.Rhs) {
						if v, ok := p.evalConst(n.Rhs[i], 0, env); ok {
							res, found = v, true
						}
					}
				}
			}
		}
		return true
	})
	return res, found
}

// intLiteralsComparedWith collects the integer literals that are compared
// (<, <=, >, >=, ==, !=) with an expression whose source text contains `needle`
// inside function fn (or in the whole package when fn == "").
func (p *pkgInfo) intLiteralsComparedWith(fn, needle string, env map[string]constant.Value) []string {
	var roots []ast.Node
	if fn == "" {
		for _, f := range sortedFiles(p.files) {
			roots = append(roots, f)
		}
	} else if fd := p.funcDecl(fn); fd != nil {
		roots = append(roots, fd)
	}
	var res []string
	for _, r := range roots {
		ast.Inspect(r, func(n ast.Node) bool {
			be, ok := n.(*ast.BinaryExpr)
			if !ok {
				return true
			}
			switch be.Op {
			case token.LSS, token.LEQ, token.GTR, token.GEQ, token.EQL, token.NEQ:
			default:
				return true
			}
			xs, ys := exprString(be.X), exprString(be.Y)
			if strings.Contains(xs, needle) {
				if v, ok := p.evalConst(be.Y, 0, env); ok {
					res = append(res, be.Op.String()+" "+v.ExactString())
				}
			} else if strings.Contains(ys, needle) {
				if v, ok := p.evalConst(be.X, 0, env); ok {
					res = append(res, v.ExactString()+" "+be.Op.String())
				}
			}
			return true
		})
	}
	return res
}

// pkgComparisons gives the set of comparisons of a non-constant expression with an integer constant found anywhere
// in the package, each in the normal form "op constant" (the constant on the right: `32 <= op` is ">= 32"; `!=` is
// recorded as `==`, a test and its negation splitting the values the same way; `case c:` of a tagged switch is
// "== c"), sorted, without duplicates.  The facts do not depend on the names of variables or functions, on the
// order of the tests, on which helper a test lives in, or on whether a bound is written as a literal or as a named
// constant; they do change when a bound or the direction of a test changes.
func (p *pkgInfo) pkgComparisons(env map[string]constant.Value, onlyFile string) []string {
	flip := map[token.Token]string{token.LSS: ">", token.LEQ: ">=", token.GTR: "<", token.GEQ: "<=", token.EQL: "==", token.NEQ: "=="}
	same := map[token.Token]string{token.LSS: "<", token.LEQ: "<=", token.GTR: ">", token.GEQ: ">=", token.EQL: "==", token.NEQ: "=="}
	seen := map[string]bool{}
	// constants declared inside functions count like package-level ones
	local := map[string]constant.Value{}
	for k, v := range env {
		local[k] = v
	}
	for _, f := range sortedFiles(p.files) {
		ast.Inspect(f, func(n ast.Node) bool {
			if gd, ok := n.(*ast.GenDecl); ok && gd.Tok == token.CONST {
				for _, sp := range gd.Specs {
					if vs, ok := sp.(*ast.ValueSpec); ok && len(vs.Values) == len(vs.Names) {
						for i, nm := range vs.Names {
							if _, have := local[nm.Name]; !have {
								if v, ok := p.evalConst(vs.Values[i], 0, local); ok {
									local[nm.Name] = v
								}
							}
						}
					}
				}
			}
			return true
		})
	}
	env = local
	intConst := func(e ast.Expr) (string, bool) {
		v, ok := p.evalConst(e, 0, env)
		if !ok || v.Kind() != constant.Int {
			return "", false
		}
		return v.ExactString(), true
	}
	for _, f := range sortedFiles(p.files) {
		if onlyFile != "" && !strings.HasSuffix(fset.Position(f.Pos()).Filename, onlyFile) {
			continue
		}
		ast.Inspect(f, func(n ast.Node) bool {
			switch n := n.(type) {
			case *ast.BinaryExpr:
				if _, ok := same[n.Op]; !ok {
					return true
				}
				xc, xok := intConst(n.X)
				yc, yok := intConst(n.Y)
				if yok && !xok {
					seen[same[n.Op]+" "+yc] = true
				} else if xok && !yok {
					seen[flip[n.Op]+" "+xc] = true
				}
			case *ast.SwitchStmt:
				if n.Tag == nil {
					return true
				}
				if _, ok := intConst(n.Tag); ok {
					return true
				}
				for _, st := range n.Body.List {
					if cc, ok := st.(*ast.CaseClause); ok {
						for _, e := range cc.List {
							if c, ok := intConst(e); ok {
								seen["== "+c] = true
							}
						}
					}
				}
			}
			return true
		})
	}
	var res []string
	for k := range seen {
		res = append(res, k)
	}
	sort.Strings(res)
	return res
}

// comparisonsWith gives the source text "op other-side" of every comparison in fn one side of which contains needle
func (p *pkgInfo) comparisonsWith(fn, needle string) []string {
	fd := p.funcDecl(fn)
	if fd == nil {
		return nil
	}
	var res []string
	ast.Inspect(fd, func(n ast.Node) bool {
		be, ok := n.(*ast.BinaryExpr)
		if !ok {
			return true
		}
		switch be.Op {
		case token.LSS, token.LEQ, token.GTR, token.GEQ, token.EQL, token.NEQ:
		default:
			return true
		}
		// a literal is recorded as written, any other expression (a variable, a conversion) only as <expr>,
		// so that renaming the variable does not change the fact
		side := func(e ast.Expr) string {
			if bl, ok := e.(*ast.BasicLit); ok {
				return bl.Value
			}
			return "<expr>"
		}
		xs, ys := exprString(be.X), exprString(be.Y)
		if strings.Contains(xs, needle) {
			res = append(res, be.Op.String()+" "+side(be.Y))
		} else if strings.Contains(ys, needle) {
			res = append(res, side(be.X)+" "+be.Op.String())
		}
		return true
	})
	return res
}

func exprString(e ast.Expr) string {
	var sb strings.Builder
	writeExpr(&sb, e)
	return sb.String()
}

func writeExpr(sb *strings.Builder, e ast.Expr) {
	switch e := e.(type) {
	case *ast.Ident:
		sb.WriteString(e.Name)
	case *ast.BasicLit:
		sb.WriteString(e.Value)
	case *ast.SelectorExpr:
		writeExpr(sb, e.X)
		sb.WriteString("." + e.Sel.Name)
	case *ast.CallExpr:
		writeExpr(sb, e.Fun)
		sb.WriteString("(")
		for i, a := range e.Args {
			if i > 0 {
				sb.WriteString(",")
			}
			writeExpr(sb, a)
		}
		sb.WriteString(")")
	case *ast.BinaryExpr:
		writeExpr(sb, e.X)
		sb.WriteString(e.Op.String())
		writeExpr(sb, e.Y)
	case *ast.UnaryExpr:
		sb.WriteString(e.Op.String())
		writeExpr(sb, e.X)
	case *ast.ParenExpr:
		sb.WriteString("(")
		writeExpr(sb, e.X)
		sb.WriteString(")")
	case *ast.IndexExpr:
		writeExpr(sb, e.X)
		sb.WriteString("[")
		writeExpr(sb, e.Index)
		sb.WriteString("]")
	case *ast.SliceExpr:
		writeExpr(sb, e.X)
		sb.WriteString("[:]")
	case *ast.StarExpr:
		sb.WriteString("*")
		writeExpr(sb, e.X)
	case *ast.TypeAssertExpr:
		writeExpr(sb, e.X)
		sb.WriteString(".(T)")
	default:
		sb.WriteString("?")
	}
}

func leanStr(s string) string {
	var sb strings.Builder
	sb.WriteByte('"')
	for _, r := range s {
		switch {
		case r == '"':
			sb.WriteString("\\\"")
		case r == '\\':
			sb.WriteString("\\\\")
		case r == '\n':
			sb.WriteString("\\n")
		case r == '\t':
			sb.WriteString("\\t")
		case r < 32 || r == 127:
			fmt.Fprintf(&sb, "\\x%02x", r)
		default:
			sb.WriteRune(r)
		}
	}
	sb.WriteByte('"')
	return sb.String()
}

func leanStrList(ss []string) string {
	var parts []string
	for _, s := range ss {
		parts = append(parts, leanStr(s))
	}
	return "[" + strings.Join(parts, ", ") + "]"
}

func optInt(v constant.Value, ok bool) string {
	if !ok || v == nil || v.Kind() != constant.Int {
		return "none"
	}
	s := v.ExactString()
	if strings.HasPrefix(s, "-") {
		return "some (" + s + ")"
	}
	return "some " + s
}

type leanFile struct {
	name string
	sb   strings.Builder
}

func newLean(name string) *leanFile {
	lf := &leanFile{name: name}
	fmt.Fprintf(&lf.sb, "/- GENERATED by /verif/tools/factgen from the Go source tree. Do not edit. -/\nnamespace PsVerif.Generated.%s\n\n", name)
	return lf
}

func (lf *leanFile) printf(format string, a ...any) { fmt.Fprintf(&lf.sb, format, a...) }

func (lf *leanFile) write(outDir string) {
	fmt.Fprintf(&lf.sb, "\nend PsVerif.Generated.%s\n", lf.name)
	path := filepath.Join(outDir, lf.name+".lean")
	newData := []byte(lf.sb.String())
	if old, err := os.ReadFile(path); err == nil && string(old) == string(newData) {
		return // unchanged: keep the time stamp so that lake does not rebuild
	}
	if err := os.WriteFile(path, newData, 0o644); err != nil {
		fmt.Fprintln(os.Stderr, "factgen:", err)
		os.Exit(2)
	}
}

func main() {
	repo := flag.String("repo", "/repo", "source tree")
	out := flag.String("out", "", "output directory (lean/PsVerif/Generated)")
	flag.Parse()
	if *out == "" {
		fmt.Fprintln(os.Stderr, "factgen: -out required")
		os.Exit(2)
	}
	os.MkdirAll(*out, 0o755)

	root := loadPkg(*repo, ".")
	t1 := loadPkg(*repo, "type1")
	pfbp := loadPkg(*repo, "pfb")
	names := loadPkg(*repo, "type1/names")
	psenc := loadPkg(*repo, "psenc")
	afmp := loadPkg(*repo, "afm")
	_ = afmp

	genConsts(*out, root, t1, pfbp, names)
	genSystemDict(*out, root)
	genT1Ops(*out, t1)
	genStdEnc(*out, psenc)
	genNameTables(*out, *repo, names)
	genTemplate(*out, t1)
	genStructure(*out, *repo)
}

func genConsts(out string, root, t1, pfbp, names *pkgInfo) {
	lf := newLean("Consts")
	rc := root.consts()
	tc := t1.consts()
	nc := names.consts()
	get := func(env map[string]constant.Value, n string) string {
		v, ok := env[n]
		return optInt(v, ok)
	}
	lf.printf("/-! constants of package postscript -/\n")
	for _, n := range []string{"maxArraySize", "maxDictSize", "maxDictStackDepth", "maxOperandStackDepth", "maxStringSize", "maxBindDepth", "eexecN", "eexecR", "eexecC1", "eexecC2"} {
		lf.printf("def root_%s : Option Int := %s\n", n, get(rc, n))
	}
	lf.printf("\n/-! constants of package type1 -/\n")
	for _, n := range []string{"eexecC1", "eexecC2", "eexecR0"} {
		lf.printf("def t1_%s : Option Int := %s\n", n, get(tc, n))
	}
	v, ok := t1.localVarInit("obfuscateCharstring", "R", tc)
	lf.printf("def t1_obfuscateR : Option Int := %s\n", optInt(v, ok))
	v, ok = t1.localVarInit("deobfuscateCharstring", "R", tc)
	lf.printf("def t1_deobfuscateR : Option Int := %s\n", optInt(v, ok))
	v, ok = t1.localVarInit("decodeInfo.decodeCharString", "maxStack", tc)
	lf.printf("def t1_maxStack : Option Int := %s\n", optInt(v, ok))
	lf.printf("\n/-! literal limits inside the interpreter -/\n")
	lf.printf("\n/-! package type1/names -/\n")
	lf.printf("def names_maxNameLength : Option Int := %s\n", get(nc, "maxNameLength"))
	lf.printf("\n/-! package pfb: comparisons of the header bytes -/\n")
	// comparisons of the first two header bytes with constants, anywhere in the package (the header may be
	// decoded in a helper and the array may have any name), as a sorted set
	lf.printf("\n/-! comparisons with integer constants, per package, in normal form (see pkgComparisons) -/\n")
	lf.printf("def cmp_root : List String := %s\n", leanStrList(root.pkgComparisons(rc, "")))
	lf.printf("def cmp_cmap : List String := %s\n", leanStrList(root.pkgComparisons(rc, "cmap.go")))
	lf.printf("def cmp_type1 : List String := %s\n", leanStrList(t1.pkgComparisons(tc, "")))
	lf.printf("def cmp_pfb : List String := %s\n", leanStrList(pfbp.pkgComparisons(pfbp.consts(), "")))
	lf.write(out)
}

func dedup(ss []string) []string {
	seen := map[string]bool{}
	var res []string
	for _, s := range ss {
		if !seen[s] {
			seen[s] = true
			res = append(res, s)
		}
	}
	sort.Strings(res)
	return res
}

// cmapLimitTests collects the comparisons of `n` inside the begin* builtins of cidInit.
func cmapLimitTests(root *pkgInfo, env map[string]constant.Value) []string {
	e := root.varDecl("cidInit")
	if e == nil {
		return nil
	}
	var res []string
	ast.Inspect(e, func(n ast.Node) bool {
		be, ok := n.(*ast.BinaryExpr)
		if !ok {
			return true
		}
		if id, ok := be.X.(*ast.Ident); ok && id.Name == "n" {
			if v, ok := root.evalConst(be.Y, 0, env); ok {
				res = append(res, be.Op.String()+" "+v.ExactString())
			}
		}
		return true
	})
	if len(res) == 0 {
		// the test may live in a helper shared by the seven begin* operators: comparisons of `n` in cmap.go
		for _, f := range sortedFiles(root.files) {
			if !strings.HasSuffix(fset.Position(f.Pos()).Filename, "cmap.go") {
				continue
			}
			ast.Inspect(f, func(n ast.Node) bool {
				be, ok := n.(*ast.BinaryExpr)
				if !ok {
					return true
				}
				if id, ok := be.X.(*ast.Ident); ok && id.Name == "n" {
					if v, ok := root.evalConst(be.Y, 0, env); ok {
						res = append(res, be.Op.String()+" "+v.ExactString())
					}
				}
				return true
			})
		}
	}
	return res
}

func genSystemDict(out string, root *pkgInfo) {
	lf := newLean("SystemDict")
	// keys of the composite literal assigned to systemDict in makeSystemDict
	type entry struct{ key, kind, val string }
	var entries []entry
	if fd := root.funcDecl("makeSystemDict"); fd != nil {
		ast.Inspect(fd.Body, func(n ast.Node) bool {
			as, ok := n.(*ast.AssignStmt)
			if !ok || len(as.Lhs) != 1 || len(as.Rhs) != 1 {
				return true
			}
			switch l := as.Lhs[0].(type) {
			case *ast.Ident:
				if l.Name != "systemDict" {
					return true
				}
				cl, ok := as.Rhs[0].(*ast.CompositeLit)
				if !ok {
					return true
				}
				for _, el := range cl.Elts {
					kv := el.(*ast.KeyValueExpr)
					k, _ := strconv.Unquote(kv.Key.(*ast.BasicLit).Value)
					kind, val := "other", exprString(kv.Value)
					if c, ok := kv.Value.(*ast.CallExpr); ok && len(c.Args) == 1 {
						if id, ok := c.Fun.(*ast.Ident); ok {
							kind = id.Name
							val = exprString(c.Args[0])
						}
					}
					entries = append(entries, entry{k, kind, val})
				}
			case *ast.IndexExpr:
				if id, ok := l.X.(*ast.Ident); ok && id.Name == "systemDict" {
					if bl, ok := l.Index.(*ast.BasicLit); ok {
						k, _ := strconv.Unquote(bl.Value)
						entries = append(entries, entry{k, "other", exprString(as.Rhs[0])})
					}
				}
			}
			return true
		})
	}
	sort.Slice(entries, func(i, j int) bool { return entries[i].key < entries[j].key })
	lf.printf("/-- (key, constructor, Go value) of every entry of the system dictionary, sorted by key -/\ndef entries : List (String × String × String) := [\n")
	for i, e := range entries {
		sep := ","
		if i == len(entries)-1 {
			sep = ""
		}
		lf.printf("  (%s, %s, %s)%s\n", leanStr(e.key), leanStr(e.kind), leanStr(e.val), sep)
	}
	lf.printf("]\n\n")

	var cid []string
	if e := root.varDecl("cidInit"); e != nil {
		if cl, ok := e.(*ast.CompositeLit); ok {
			for _, el := range cl.Elts {
				kv := el.(*ast.KeyValueExpr)
				k, _ := strconv.Unquote(kv.Key.(*ast.BasicLit).Value)
				cid = append(cid, k)
			}
		}
	}
	sort.Strings(cid)
	lf.printf("/-- keys of the CIDInit procedure set, sorted -/\ndef cidInitKeys : List String := %s\n\n", leanStrList(cid))

	// allErrors: names via the e* variables
	errVals := map[string]string{}
	for _, f := range sortedFiles(root.files) {
		for _, d := range f.Decls {
			gd, ok := d.(*ast.GenDecl)
			if !ok || gd.Tok != token.VAR {
				continue
			}
			for _, s := range gd.Specs {
				vs := s.(*ast.ValueSpec)
				for i, n := range vs.Names {
					if i < len(vs.Values) {
						if c, ok := vs.Values[i].(*ast.CallExpr); ok && len(c.Args) == 1 {
							if id, ok := c.Fun.(*ast.Ident); ok && id.Name == "Name" {
								if bl, ok := c.Args[0].(*ast.BasicLit); ok {
									v, _ := strconv.Unquote(bl.Value)
									errVals[n.Name] = v
								}
							}
						}
					}
				}
			}
		}
	}
	var allErr []string
	if e := root.varDecl("allErrors"); e != nil {
		if cl, ok := e.(*ast.CompositeLit); ok {
			for _, el := range cl.Elts {
				if id, ok := el.(*ast.Ident); ok {
					allErr = append(allErr, errVals[id.Name])
				}
			}
		}
	}
	lf.printf("/-- the error names installed in errordict by NewInterpreter, in source order -/\ndef allErrors : List String := %s\n", leanStrList(allErr))

	// how NewInterpreter obtains each dictionary
	var clone []string
	if fd := root.funcDecl("NewInterpreter"); fd != nil {
		ast.Inspect(fd.Body, func(n ast.Node) bool {
			if kv, ok := n.(*ast.KeyValueExpr); ok {
				if bl, ok := kv.Key.(*ast.BasicLit); ok {
					k, _ := strconv.Unquote(bl.Value)
					clone = append(clone, k+" := "+exprString(kv.Value))
				}
			}
			return true
		})
	}
	lf.printf("\n/-- resource categories created by NewInterpreter and how their value is obtained -/\ndef resourceInit : List String := %s\n", leanStrList(clone))
	lf.write(out)
}

func genT1Ops(out string, t1 *pkgInfo) {
	lf := newLean("T1Ops")
	tc := t1.consts()
	var names []string
	for n := range tc {
		if strings.HasPrefix(n, "t1") && n != "t1op" {
			names = append(names, n)
		}
	}
	sort.Strings(names)
	lf.printf("/-- the charstring opcodes (two-byte opcodes are 12*256+b), sorted by name -/\ndef ops : List (String × Nat) := [\n")
	for i, n := range names {
		sep := ","
		if i == len(names)-1 {
			sep = ""
		}
		lf.printf("  (%s, %s)%s\n", leanStr(n), tc[n].ExactString(), sep)
	}
	lf.printf("]\n\n")
	lf.write(out)
}

func genStdEnc(out string, psenc *pkgInfo) {
	lf := newLean("StdEnc")
	var tbl []string
	if e := psenc.varDecl("StandardEncoding"); e != nil {
		if cl, ok := e.(*ast.CompositeLit); ok {
			for _, el := range cl.Elts {
				if bl, ok := el.(*ast.BasicLit); ok {
					s, _ := strconv.Unquote(bl.Value)
					tbl = append(tbl, s)
				}
			}
		}
	}
	lf.printf("/-- psenc.StandardEncoding -/\ndef standardEncoding : List String := [\n")
	for i, s := range tbl {
		sep := ","
		if i == len(tbl)-1 {
			sep = ""
		}
		lf.printf("  %s%s\n", leanStr(s), sep)
	}
	lf.printf("]\n")
	lf.write(out)
}

// packName packs an ASCII name into a natural number, base 256, first byte
// most significant, with a leading 1 so that lengths are distinguished.
func packName(s string) string {
	// computed with big arithmetic via constant package
	v := constant.MakeInt64(1)
	for i := 0; i < len(s); i++ {
		v = constant.BinaryOp(constant.BinaryOp(v, token.MUL, constant.MakeInt64(256)), token.ADD, constant.MakeInt64(int64(s[i])))
	}
	return v.ExactString()
}

func readTable(path string, sep int) [][]string {
	fd, err := os.Open(path)
	if err != nil {
		return nil
	}
	defer fd.Close()
	var res [][]string
	sc := bufio.NewScanner(fd)
	for sc.Scan() {
		line := sc.Text()
		if len(line) == 0 || line[0] == '#' {
			continue
		}
		res = append(res, strings.SplitN(line, ";", sep))
	}
	return res
}

func genNameTables(out, repo string, names *pkgInfo) {
	dir := filepath.Join(repo, "type1/names/agl-aglfn")
	// name tables: (name packed into a natural number, code points), sorted by the packed
	// key so that "no duplicate keys" is a check of adjacent entries
	emit := func(lean, file string, rows [][2]string) {
		lf := newLean(lean)
		lf.printf("/-- entries of %s as (packed name, code points), sorted by packed name.\nA name is packed as the base-256 number of its bytes with a leading 1. -/\n", file)
		type ent struct {
			key *big.Int
			cps string
		}
		var ents []ent
		for _, r := range rows {
			var cps []string
			for _, w := range strings.Fields(r[1]) {
				c, err := strconv.ParseUint(w, 16, 32)
				if err != nil {
					c = 0
				}
				cps = append(cps, strconv.FormatUint(c, 10))
			}
			k := big.NewInt(1)
			for i := 0; i < len(r[0]); i++ {
				k.Mul(k, big.NewInt(256))
				k.Add(k, big.NewInt(int64(r[0][i])))
			}
			ents = append(ents, ent{k, "[" + strings.Join(cps, ", ") + "]"})
		}
		sort.SliceStable(ents, func(i, j int) bool { return ents[i].key.Cmp(ents[j].key) < 0 })
		const chunk = 64
		n := 0
		for i := 0; i < len(ents); i += chunk {
			j := i + chunk
			if j > len(ents) {
				j = len(ents)
			}
			lf.printf("def part%d : List (Nat × List Nat) := [\n", n)
			for k := i; k < j; k++ {
				sep := ","
				if k == j-1 {
					sep = ""
				}
				lf.printf("  (%s, %s)%s\n", ents[k].key.String(), ents[k].cps, sep)
			}
			lf.printf("]\n")
			n++
		}
		lf.printf("def parts : List (List (Nat × List Nat)) := [")
		for i := 0; i < n; i++ {
			if i > 0 {
				lf.printf(", ")
			}
			lf.printf("part%d", i)
		}
		lf.printf("]\n")
		lf.printf("def numEntries : Nat := %d\n", len(ents))
		lf.write(out)
	}
	var gl [][2]string
	for _, r := range readTable(filepath.Join(dir, "glyphlist.txt"), 2) {
		if len(r) == 2 {
			gl = append(gl, [2]string{r[0], r[1]})
		}
	}
	emit("Glyphlist", "glyphlist.txt", gl)
	var zd [][2]string
	for _, r := range readTable(filepath.Join(dir, "zapfdingbats.txt"), 2) {
		if len(r) == 2 {
			zd = append(zd, [2]string{r[0], r[1]})
		}
	}
	emit("Dingbats", "zapfdingbats.txt", zd)
	// aglfn: code point -> name bytes, in file order (later entries win in the Go map)
	{
		lf := newLean("Aglfn")
		lf.printf("/-- entries of aglfn.txt as (code point, bytes of the glyph name), in file order -/\ndef entries : List (Nat × List Nat) := [\n")
		rows := readTable(filepath.Join(dir, "aglfn.txt"), 3)
		for i, r := range rows {
			if len(r) < 2 {
				continue
			}
			c, _ := strconv.ParseUint(r[0], 16, 32)
			var bs []string
			for k := 0; k < len(r[1]); k++ {
				bs = append(bs, strconv.Itoa(int(r[1][k])))
			}
			sep := ","
			if i == len(rows)-1 {
				sep = ""
			}
			lf.printf("  (%d, [%s])%s\n", c, strings.Join(bs, ", "), sep)
		}
		lf.printf("]\n")
		lf.write(out)
	}

	// compat table from compat.go
	lf := newLean("Compat")
	lf.printf("/-- names.compat: code point ↦ expansion, sorted by code point -/\ndef compat : List (Nat × List Nat) := [\n")
	type ce struct {
		k  uint64
		vs []string
	}
	var ces []ce
	if e := names.varDecl("compat"); e != nil {
		if cl, ok := e.(*ast.CompositeLit); ok {
			for _, el := range cl.Elts {
				kv, ok := el.(*ast.KeyValueExpr)
				if !ok {
					continue
				}
				kl, ok := kv.Key.(*ast.BasicLit)
				if !ok {
					continue
				}
				k, _ := strconv.ParseUint(kl.Value, 0, 32)
				var vs []string
				if vl, ok := kv.Value.(*ast.CompositeLit); ok {
					for _, x := range vl.Elts {
						if bl, ok := x.(*ast.BasicLit); ok {
							v, _ := strconv.ParseUint(bl.Value, 0, 32)
							vs = append(vs, strconv.FormatUint(v, 10))
						}
					}
				}
				ces = append(ces, ce{k, vs})
			}
		}
	}
	sort.Slice(ces, func(i, j int) bool { return ces[i].k < ces[j].k })
	for i, c := range ces {
		sep := ","
		if i == len(ces)-1 {
			sep = ""
		}
		lf.printf("  (%d, [%s])%s\n", c.k, strings.Join(c.vs, ", "), sep)
	}
	lf.printf("]\n\n")
	// the special cases applied while the glyph list is parsed
	var fix []string
	if fd := names.funcDecl("glyphMap.getFile"); fd != nil {
		ast.Inspect(fd.Body, func(n ast.Node) bool {
			cc, ok := n.(*ast.CaseClause)
			if !ok || len(cc.List) != 1 || len(cc.Body) != 1 {
				return true
			}
			as, ok := cc.Body[0].(*ast.AssignStmt)
			if !ok {
				return true
			}
			fix = append(fix, exprString(cc.List[0])+" => "+exprString(as.Lhs[0])+"="+exprString(as.Rhs[0]))
			return true
		})
	}
	lf.printf("/-- corrections applied while parsing the glyph list -/\ndef glyphlistFixups : List String := %s\n", leanStrList(fix))
	lf.write(out)
}

func genTemplate(out string, t1 *pkgInfo) {
	lf := newLean("Template")
	text := ""
	if e := t1.varDecl("tmpl"); e != nil {
		ast.Inspect(e, func(n ast.Node) bool {
			if c, ok := n.(*ast.CallExpr); ok {
				if se, ok := c.Fun.(*ast.SelectorExpr); ok && se.Sel.Name == "Parse" && len(c.Args) == 1 {
					if bl, ok := c.Args[0].(*ast.BasicLit); ok {
						text, _ = strconv.Unquote(bl.Value)
					}
				}
			}
			return true
		})
	}
	// split at {{ }} actions
	var chunks, actions []string
	rest := text
	for {
		i := strings.Index(rest, "{{")
		if i < 0 {
			chunks = append(chunks, rest)
			break
		}
		j := strings.Index(rest[i:], "}}")
		if j < 0 {
			chunks = append(chunks, rest)
			break
		}
		chunks = append(chunks, rest[:i])
		actions = append(actions, rest[i:i+j+2])
		rest = rest[i+j+2:]
	}
	lf.printf("/-- literal text between the actions of the font template (type1/write.go), in order -/\ndef chunks : List String := [\n")
	for i, c := range chunks {
		sep := ","
		if i == len(chunks)-1 {
			sep = ""
		}
		lf.printf("  %s%s\n", leanStr(c), sep)
	}
	lf.printf("]\n\n/-- the actions, in order -/\ndef actions : List String := [\n")
	for i, c := range actions {
		sep := ","
		if i == len(actions)-1 {
			sep = ""
		}
		lf.printf("  %s%s\n", leanStr(c), sep)
	}
	lf.printf("]\n")
	lf.write(out)
}
