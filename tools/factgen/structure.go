package main

import (
	"fmt"
	"go/ast"
	"go/constant"
	"go/importer"
	"go/token"
	"go/types"
	"os"
	"path/filepath"
	"sort"
	"strings"
)

// genStructure extracts facts which need type information:
//   - every `range` over a map and every call of maps.Keys/Values/Clone
//   - every package-level variable of reference type and the functions which
//     write through it
//   - calls whose error result is discarded in the readers and writers
//   - uses of time.Now, math/rand, %p, unsafe
func genStructure(out, repo string) {
	lf := newLean("Structure")
	type site struct{ pkg, fn, what string }
	var mapSites, pkgWrites, dropped, clocks, refVars, recvWrites, scanners []site

	pkgs := []string{".", "type1", "afm", "pfb", "type1/names", "psenc", "funit", "cid"}
	for _, rel := range pkgs {
		p := loadPkg(repo, rel)
		var files []*ast.File
		for _, f := range sortedFiles(p.files) {
			files = append(files, f)
		}
		if len(files) == 0 {
			continue
		}
		conf := types.Config{Importer: importer.ForCompiler(fset, "source", nil), Error: func(err error) {}}
		info := &types.Info{Types: map[ast.Expr]types.TypeAndValue{}, Uses: map[*ast.Ident]types.Object{}, Defs: map[*ast.Ident]types.Object{}}
		cwd, _ := os.Getwd()
		os.Chdir(filepath.Join(repo, rel)) // the source importer resolves relative to the module
		pkg, _ := conf.Check("seehuhn.de/go/postscript/"+rel, fset, files, info)
		os.Chdir(cwd)
		if pkg == nil {
			continue
		}
		isMap := func(e ast.Expr) bool {
			tv, ok := info.Types[e]
			if !ok || tv.Type == nil {
				return false
			}
			_, ok = tv.Type.Underlying().(*types.Map)
			return ok
		}
		// package-level variables of reference type
		pkgVars := map[types.Object]bool{}
		for _, name := range pkg.Scope().Names() {
			if v, ok := pkg.Scope().Lookup(name).(*types.Var); ok {
				switch v.Type().Underlying().(type) {
				case *types.Map, *types.Slice, *types.Pointer, *types.Array:
					pkgVars[v] = true
					refVars = append(refVars, site{rel, name, types.TypeString(v.Type(), func(p *types.Package) string { return p.Name() })})
				}
			}
		}
		rootVar := func(e ast.Expr) types.Object {
			for {
				switch x := e.(type) {
				case *ast.IndexExpr:
					e = x.X
				case *ast.SelectorExpr:
					// field of a package-level pointer (glyph.nameToRune)
					e = x.X
				case *ast.StarExpr:
					e = x.X
				case *ast.ParenExpr:
					e = x.X
				case *ast.Ident:
					return info.Uses[x]
				default:
					return nil
				}
			}
		}
		for _, f := range files {
			for _, d := range f.Decls {
				fd, ok := d.(*ast.FuncDecl)
				if !ok || fd.Body == nil {
					continue
				}
				fn := fd.Name.Name
				if fd.Recv != nil && len(fd.Recv.List) == 1 {
					fn = strings.TrimPrefix(exprString(fd.Recv.List[0].Type), "*") + "." + fn
				}
				locks := false
				recvName := ""
				if fd.Recv != nil && len(fd.Recv.List) == 1 && len(fd.Recv.List[0].Names) == 1 {
					recvName = fd.Recv.List[0].Names[0].Name
				}
				var calls []string
				ast.Inspect(fd.Body, func(n ast.Node) bool {
					if c, ok := n.(*ast.CallExpr); ok {
						if se, ok := c.Fun.(*ast.SelectorExpr); ok && se.Sel.Name == "Lock" {
							locks = true
						}
						if se, ok := c.Fun.(*ast.SelectorExpr); ok {
							if id, ok := se.X.(*ast.Ident); ok && recvName != "" && id.Name == recvName {
								calls = append(calls, se.Sel.Name)
							}
						}
					}
					return true
				})
				// does the function sort anything?  A site is described by the map and by whether the function that
				// iterates it sorts (not by the function's name or by the way the keys are collected), so that moving
				// the loop into a helper or replacing maps.Keys by a range loop does not change the fact
				sorts := "unsorted"
				ast.Inspect(fd.Body, func(n ast.Node) bool {
					if c, ok := n.(*ast.CallExpr); ok {
						if se, ok := c.Fun.(*ast.SelectorExpr); ok {
							if id, ok := se.X.(*ast.Ident); ok {
								if pn, ok := info.Uses[id].(*types.PkgName); ok {
									path := pn.Imported().Path()
									if path == "sort" || strings.HasSuffix(path, "slices") && (strings.HasPrefix(se.Sel.Name, "Sort") || se.Sel.Name == "Sorted" || se.Sel.Name == "SortedFunc") {
										sorts = "sorted"
									}
								}
							}
						}
					}
					return true
				})
				_ = fn
				ast.Inspect(fd.Body, func(n ast.Node) bool {
					switch n := n.(type) {
					case *ast.RangeStmt:
						if isMap(n.X) {
							mapSites = append(mapSites, site{rel, sorts, "iterate " + describe(info, n.X)})
						}
					case *ast.CallExpr:
						if se, ok := n.Fun.(*ast.SelectorExpr); ok {
							// line scanners and the limit on the line length they are given
							if tv, ok := info.Types[se.X]; ok && tv.Type != nil && tv.Type.String() == "*bufio.Scanner" && se.Sel.Name == "Buffer" && len(n.Args) == 2 {
								what := "limit not constant"
								if v := info.Types[n.Args[1]].Value; v != nil {
									if constant.Compare(v, token.GEQ, constant.Shift(constant.MakeInt64(1), token.SHL, 62)) {
										what = "limit >= 2^62"
									} else {
										what = "limit " + v.ExactString()
									}
								}
								scanners = append(scanners, site{rel, "", what})
							}
							if id, ok := se.X.(*ast.Ident); ok {
								if pn, ok := info.Uses[id].(*types.PkgName); ok {
									path := pn.Imported().Path()
									if path == "bufio" && se.Sel.Name == "NewScanner" {
										scanners = append(scanners, site{rel, "", "scanner"})
									}
									if strings.HasSuffix(path, "maps") && (se.Sel.Name == "Keys" || se.Sel.Name == "Values" || se.Sel.Name == "Clone") && len(n.Args) == 1 {
										if se.Sel.Name == "Clone" {
											mapSites = append(mapSites, site{rel, "copy", "clone " + describe(info, n.Args[0])})
										} else {
											mapSites = append(mapSites, site{rel, sorts, "iterate " + describe(info, n.Args[0])})
										}
									}
									if path == "time" && se.Sel.Name == "Now" || path == "math/rand" || path == "math/rand/v2" || path == "unsafe" || path == "crypto/rand" {
										clocks = append(clocks, site{rel, fn, path + "." + se.Sel.Name})
									}
								}
							}
						}
					case *ast.BasicLit:
						if n.Kind == token.STRING && strings.Contains(n.Value, "%p") {
							clocks = append(clocks, site{rel, fn, "%p"})
						}
					case *ast.AssignStmt:
						if rel == "type1/names" && recvName != "" {
							for _, l := range n.Lhs {
								e := l
								if ix, ok := e.(*ast.IndexExpr); ok {
									e = ix.X
								}
								if se, ok := e.(*ast.SelectorExpr); ok {
									if id, ok := se.X.(*ast.Ident); ok && id.Name == recvName {
										recvWrites = append(recvWrites, site{rel, fn, fmt.Sprintf("%s locked=%v", se.Sel.Name, locks)})
									}
								}
							}
						}
						for _, l := range n.Lhs {
							if _, isIdent := l.(*ast.Ident); isIdent {
								if o := info.Uses[l.(*ast.Ident)]; o != nil && pkgVars[o] {
									pkgWrites = append(pkgWrites, site{rel, fn, fmt.Sprintf("%s (assign, locked=%v)", o.Name(), locks)})
								}
								continue
							}
							if o := rootVar(l); o != nil && pkgVars[o] {
								pkgWrites = append(pkgWrites, site{rel, fn, fmt.Sprintf("%s (store, locked=%v)", o.Name(), locks)})
							}
						}
					case *ast.ExprStmt:
						// a call statement whose callee returns an error
						if c, ok := n.X.(*ast.CallExpr); ok {
							if tv, ok := info.Types[c]; ok && returnsError(tv.Type) && !infallibleWriter(info, c) {
								dropped = append(dropped, site{rel, fn, exprString(c.Fun)})
							}
						}
					}
					return true
				})
				if rel == "type1/names" && recvName != "" {
					sort.Strings(calls)
					recvWrites = append(recvWrites, site{rel, fn, fmt.Sprintf("calls=%s locked=%v", strings.Join(dedupStr(calls), ","), locks)})
				}
				// `_ =`/`_, _ :=` assignments of error values
				ast.Inspect(fd.Body, func(n ast.Node) bool {
					as, ok := n.(*ast.AssignStmt)
					if !ok || len(as.Rhs) != 1 {
						return true
					}
					c, ok := as.Rhs[0].(*ast.CallExpr)
					if !ok {
						return true
					}
					tv, ok := info.Types[c]
					if !ok {
						return true
					}
					idx := errorIndex(tv.Type)
					if idx < 0 || idx >= len(as.Lhs) {
						return true
					}
					if id, ok := as.Lhs[idx].(*ast.Ident); ok && id.Name == "_" {
						dropped = append(dropped, site{rel, fn, exprString(c.Fun) + " (blank)"})
					}
					return true
				})
			}
		}
	}
	emit := func(name, doc string, ss []site) {
		sort.Slice(ss, func(i, j int) bool {
			a, b := ss[i], ss[j]
			if a.pkg != b.pkg {
				return a.pkg < b.pkg
			}
			if a.fn != b.fn {
				return a.fn < b.fn
			}
			return a.what < b.what
		})
		lf.printf("/-- %s -/\ndef %s : List (String × String × String) := [\n", doc, name)
		for i, s := range ss {
			sep := ","
			if i == len(ss)-1 {
				sep = ""
			}
			lf.printf("  (%s, %s, %s)%s\n", leanStr(s.pkg), leanStr(s.fn), leanStr(s.what), sep)
		}
		lf.printf("]\n\n")
	}
	emit("mapSites", "every range over a map and every maps.Keys/Values/Clone call: (package, function, expression)", mapSites)
	emit("pkgVarWrites", "every write to or through a package-level variable of reference type", pkgWrites)
	emit("droppedErrors", "calls returning an error whose error value is not bound", dropped)
	emit("pkgRefVars", "package-level variables of map, slice, pointer or array type: (package, name, type)", refVars)
	emit("namesRecvWrites", "type1/names: per method of the shared glyph map, the fields it assigns, the methods it calls and whether it takes the lock", recvWrites)
	emit("clockSites", "uses of time.Now, math/rand, crypto/rand, unsafe or the %p verb", clocks)
	emit("lineScanners", "every bufio.NewScanner call and every limit given to a scanner with Buffer: (package, -, what)", scanners)
	lf.write(out)
}

// describe names the map an expression denotes in a way that survives renaming of local variables and
// receivers: a field is named by the type it belongs to, a local variable by its type, a package-level
// variable by its own name.
func describe(info *types.Info, e ast.Expr) string {
	tname := func(t types.Type) string {
		if p, ok := t.(*types.Pointer); ok {
			t = p.Elem()
		}
		if n, ok := t.(*types.Named); ok {
			return n.Obj().Name()
		}
		return t.String()
	}
	switch x := e.(type) {
	case *ast.SelectorExpr:
		if tv, ok := info.Types[x.X]; ok && tv.Type != nil {
			return "(" + tname(tv.Type) + ")." + x.Sel.Name
		}
	case *ast.Ident:
		if o := info.Uses[x]; o != nil {
			if o.Parent() == o.Pkg().Scope() {
				return x.Name // package-level variable
			}
			return "local:" + tname(o.Type())
		}
	}
	return exprString(e)
}

func returnsError(t types.Type) bool { return errorIndex(t) >= 0 }

// infallibleWriter: a method of bytes.Buffer or strings.Builder (their Write* methods are documented never to
// return an error), or fmt.Fprint* into one of them
func infallibleWriter(info *types.Info, c *ast.CallExpr) bool {
	isBuf := func(e ast.Expr) bool {
		tv, ok := info.Types[e]
		if !ok {
			return false
		}
		t := tv.Type
		if p, ok := t.(*types.Pointer); ok {
			t = p.Elem()
		}
		if n, ok := t.(*types.Named); ok && n.Obj().Pkg() != nil {
			q := n.Obj().Pkg().Path() + "." + n.Obj().Name()
			return q == "bytes.Buffer" || q == "strings.Builder"
		}
		return false
	}
	sel, ok := c.Fun.(*ast.SelectorExpr)
	if !ok {
		return false
	}
	if isBuf(sel.X) {
		return true
	}
	if id, ok := sel.X.(*ast.Ident); ok && id.Name == "fmt" && strings.HasPrefix(sel.Sel.Name, "Fprint") && len(c.Args) > 0 {
		return isBuf(c.Args[0])
	}
	return false
}

func errorIndex(t types.Type) int {
	isErr := func(t types.Type) bool {
		n, ok := t.(*types.Named)
		return ok && n.Obj().Name() == "error" && n.Obj().Pkg() == nil
	}
	switch t := t.(type) {
	case *types.Tuple:
		for i := 0; i < t.Len(); i++ {
			if isErr(t.At(i).Type()) {
				return i
			}
		}
	default:
		if t != nil && isErr(t) {
			return 0
		}
	}
	return -1
}

func dedupStr(ss []string) []string {
	var res []string
	for i, s := range ss {
		if i == 0 || s != ss[i-1] {
			res = append(res, s)
		}
	}
	return res
}
