#!/bin/bash
# Unchanged-tree sweep: every check, quick tier, for several seeds; prints one line per run.
# usage: tools/sweep.sh "2 3 4" [tier]
cd /verif
export GOFLAGS=-mod=mod GOPROXY=off GOSUMDB=off GOTOOLCHAIN=local VERIF_EVIDENCE_DIR=/verif/work/sweep-evidence
tier=${2:-quick}
for seed in $1; do
  for p in $(python3 -c "import json;print(' '.join(sorted(json.load(open('props.json')))))"); do
    out=$(VERIF_SEED=$seed ./check $p --tier $tier 2>&1)
    echo "seed=$seed $(echo "$out" | grep '^\[check\] C' | head -1) $(echo "$out" | grep -c '^VIOLATION') violations"
    echo "$out" | grep "NOT DISCHARGED" | cut -c1-300
  done
done
