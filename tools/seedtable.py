#!/usr/bin/env python3
"""Prints the markdown table of seeded changes and which checks caught them (DESIGN.md 13.7)."""
import json, glob, os, re
ROOT = os.path.dirname(os.path.dirname(os.path.abspath(__file__)))
rows = []
for d in sorted(glob.glob(os.path.join(ROOT, "seeded", "*", "*"))):
    pid, k = d.split("/")[-2:]
    meta = json.load(open(os.path.join(d, "meta.json"))) if os.path.exists(os.path.join(d, "meta.json")) else {}
    res = json.load(open(os.path.join(d, "result.json"))) if os.path.exists(os.path.join(d, "result.json")) else None
    title = (meta.get("title") or "").replace("|", "/").strip()
    files = ", ".join(meta.get("files") or [])
    if res is None:
        caught, how = ("neutralised" if (meta.get("status_note") or "").startswith("neutralised") else "not run"), ""
    else:
        own = [r for r in res["runs"] if r["property"] == pid and r["exit"] != 0]
        if own:
            r = own[0]
            caught = r["tier"]
            f = r.get("first") or {}
            how = (f.get("oracle") or "; ".join(r.get("not_discharged", [])[:1]) or "")
            how = re.sub(r"\s+", " ", how)[:110].replace("|", "/")
            if f.get("suite"):
                how = f["suite"] + ": " + how
        else:
            caught, how = ("neutralised" if (meta.get("status_note") or "").startswith("neutralised") else "MISSED"), ""
        others = sorted(set(r["property"] for r in res["runs"] if r["property"] != pid and r["exit"] != 0))
        if others:
            how += " (also: " + ", ".join(others) + ")"
    note = meta.get("status_note", "")
    if note:
        how = (how + " — " if how else "") + note[:120]
    rows.append((pid, k, title[:95], files, caught, how))
print("| change | what it does | file | caught by own check | how |")
print("|---|---|---|---|---|")
for pid, k, title, files, caught, how in rows:
    print("| %s/%s | %s | %s | %s | %s |" % (pid, k, title, files, caught, how))
tot = len(rows); c = sum(1 for r in rows if r[4] in ("quick", "thorough")); q = sum(1 for r in rows if r[4] == "quick")
print("\n%d changes, %d caught by the property's own check (%d in the quick tier), %d missed, %d neutralised by a later fix, %d not run." %
      (tot, c, q, sum(1 for r in rows if r[4] == "MISSED"), sum(1 for r in rows if r[4] == "neutralised"), sum(1 for r in rows if r[4] == "not run")))
