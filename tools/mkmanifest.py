#!/usr/bin/env python3
"""Regenerates /verif/MANIFEST.json from props.json (claimed checks) and properties.jsonl."""
import json, os, subprocess
ROOT = os.path.dirname(os.path.dirname(os.path.abspath(__file__)))
props = [json.loads(l) for l in open(os.path.join(ROOT, "properties.jsonl"))]
cfg = json.load(open(os.path.join(ROOT, "props.json")))
checks, na = [], []
for p in props:
    pid = p["id"]
    c = cfg.get(pid)
    if not c or c.get("not_applicable"):
        na.append({"property_id": pid, "reason": (c or {}).get("not_applicable", "check not built yet in this round; see DESIGN.md section 8")})
        continue
    checks.append({
        "property_id": pid,
        "quick_cmd": "./check %s --tier quick" % pid,
        "thorough_cmd": "./check %s --tier thorough" % pid,
        "evidence_file": "/verif/evidence/%s.json" % pid,
        "replay_cmd_template": "./check %s --replay {path}" % pid,
        "engine": "lean+harness",
        "level_claimed": {"category": c.get("level", "proof"), "text": c["level_text"], "design_ref": "DESIGN.md section " + c.get("design_ref", "8")},
        "level_note": c["level_note"],
        "technique": c.get("technique", "Lean 4 theorems about an executable model + Go/Lean correspondence check + generated source facts"),
    })
m = {
    "version": 1,
    "setup_cmd": "./setup.sh",
    "hooks": {
        "guard": "verif",
        "enable": "go build -tags verif (the harness is always built with the tag; two hook files: /repo/verif_hooks.go - VerifRawReads drives the scanner's unexported readByteRaw for the C12 refill correspondence - and /repo/type1/verif_hooks.go - VerifEexecWriter and VerifHexWriter drive the unexported eexec and hex stream writers for the C13/C08 writer correspondence)",
        "baseline_off_cmd": "cd /repo && go test -json -vet=off -count=1 -timeout 25m ./...",
        "source_commits": ["486b693", "3c1e3e5"],
        "add_only": True,
    },
    "engines": [
        {"name": "lean", "path": "/verif/lean", "serves_properties": [c["property_id"] for c in checks],
         "kind_free_text": "Lean 4.33.0 project (core only, no Mathlib): Model/, Proofs/, Props/ (one file per property), Generated/ (facts regenerated from the Go source on every run), Driver/ (psdriver: line protocol to the model)"},
        {"name": "factgen", "path": "/verif/tools/factgen", "serves_properties": [c["property_id"] for c in checks],
         "kind_free_text": "Go program (go/ast, go/types): constants, tables, template text and structural facts of /repo -> Lean definitions"},
        {"name": "harness", "path": "/verif/harness", "serves_properties": [c["property_id"] for c in checks],
         "kind_free_text": "Go module linked against the tree under test: case generators, in-process runs of the real code, independent writers/decoders used as direct oracles"},
        {"name": "check", "path": "/verif/check", "serves_properties": [c["property_id"] for c in checks],
         "kind_free_text": "Python driver: build, axiom audit, suites, model/implementation diff, VIOLATION / KNOWN-FINDING protocol, evidence"},
    ],
    "checks": checks,
    "not_applicable": na,
    "notes": "VERIF_REPO selects the tree under test (default /repo); VERIF_SEED seeds every random choice. "
             "Fix commits in /repo and their witnesses are listed in known_findings.json (status fixed).",
}
json.dump(m, open(os.path.join(ROOT, "MANIFEST.json"), "w"), indent=1)
print("MANIFEST: %d checks, %d not_applicable" % (len(checks), len(na)))
