#!/usr/bin/env python3
"""Splices tools/design13.md (and the seeded-change table) into section 13 of DESIGN.md."""
import os, subprocess
ROOT = os.path.dirname(os.path.dirname(os.path.abspath(__file__)))
d = open(os.path.join(ROOT, "DESIGN.md")).read()
i = d.index("## 13. Build log")
head = d[:i]
intro = '''## 13. Build log: what exists after the build round, and how it differs from the plan

Sections 1-12 are the round-0 design and stay as written (section numbers are
referred to from MANIFEST.json and props.json). This section records what was
actually built, where the build deviated, what was found, and which checks
catch which seeded changes. `props.json` is the registry from which
`MANIFEST.json` is generated (`tools/mkmanifest.py`); its `level_text` /
`level_note` entries are the authoritative statement of what each check
claims.

'''
body = open(os.path.join(ROOT, "tools", "design13.md")).read()
table = subprocess.run(["python3", os.path.join(ROOT, "tools", "seedtable.py")], stdout=subprocess.PIPE, text=True).stdout
body = body.replace("@@SEEDTABLE@@", table)
import glob, json
rows = []
for f in sorted(glob.glob(os.path.join(ROOT, "harmless", "*", "*", "result.json"))):
    r = json.load(open(f))
    d = os.path.dirname(f)
    meta = json.load(open(os.path.join(d, "meta.json"))) if os.path.exists(os.path.join(d, "meta.json")) else {}
    tag = "/".join(d.split("/")[-2:])
    alarms = []
    for x in r["runs"]:
        if x["exit"] != 0:
            alarms.append(x["property"] + (" (no-failing-input-found: " + "; ".join(x["not_discharged"])[:90] + ")" if x["nofail"] else " (" + ((x["first"] or {}).get("oracle") or "")[:60] + ")"))
    rows.append("| %s | %s | %s | %s |" % (tag, (meta.get("title") or "")[:110].replace("|", "/"), ", ".join(meta.get("files") or []), "; ".join(alarms) or "none"))
h = "| change | what it does | files | alarms raised by the 20 quick checks |\n|---|---|---|---|\n" + "\n".join(rows)
h += "\n\n%d changes, %d without any alarm." % (len(rows), sum(1 for r in rows if r.endswith("| none |")))
body = body.replace("@@HARMLESS@@", h)
open(os.path.join(ROOT, "DESIGN.md"), "w").write(head + intro + body)
print("DESIGN.md section 13 regenerated (%d lines)" % (intro + body).count("\n"))
