#!/usr/bin/env python3
"""Splices tools/design13.md (and the seeded-change table) into section 13 of DESIGN.md."""
import os, subprocess
ROOT = os.path.dirname(os.path.dirname(os.path.abspath(__file__)))
d = open(os.path.join(ROOT, "DESIGN.md")).read()
i = d.index("## 13. Build log")
head = d[:i]
intro = '''## 13. Build log: what exists after the build round, and how it differs from the plan

Sections 1-12 are the round-0 design and stay as written (section numbers are
referred to from MANIFEST.json and props.json). This section records what was
actually built, where the build deviated, what was found, and which checks
catch which seeded changes. `props.json` is the registry from which
`MANIFEST.json` is generated (`tools/mkmanifest.py`); its `level_text` /
`level_note` entries are the authoritative statement of what each check
claims.

'''
body = open(os.path.join(ROOT, "tools", "design13.md")).read()
table = subprocess.run(["python3", os.path.join(ROOT, "tools", "seedtable.py")], stdout=subprocess.PIPE, text=True).stdout
body = body.replace("@@SEEDTABLE@@", table)
open(os.path.join(ROOT, "DESIGN.md"), "w").write(head + intro + body)
print("DESIGN.md section 13 regenerated (%d lines)" % (intro + body).count("\n"))
