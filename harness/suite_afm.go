package main

// Suite `afm` (C15): AFM metrics through Write/Read, an independent layout
// writer, and write/read closure on arbitrary accepted texts.

import (
	"bytes"
	"fmt"
	"math"
	"sort"
	"strings"

	"seehuhn.de/go/geom/rect"
	"seehuhn.de/go/postscript/afm"
	"seehuhn.de/go/postscript/funit"
)

func randMetrics(r *rng) *afm.Metrics {
	m := &afm.Metrics{Glyphs: map[string]*afm.GlyphInfo{}, Encoding: make([]string, 256)}
	for i := range m.Encoding {
		m.Encoding[i] = ".notdef"
	}
	m.FontName = pick(r, []string{"Test-Regular", "X", "ABCDEF+Foo"})
	// text fields: words of arbitrary printable characters joined by single blanks (also the characters that mean
	// something to fmt, to PostScript and to the AFM syntax: % \ ( ) ; # and bytes above 127)
	word := func() string {
		if r.chance(1, 2) {
			return pick(r, []string{"Test", "Regular", "Bold", "100%", "50%", "%d", "%s%v", "%!", "%%", "%", "a%b", "(c)", "\\n", "C:\\Fonts", ";", "#1", "Gr\xfc\xdfe", "\xe9t\xe9", "N", "C", "EndCharMetrics", "Comment", "StartKernPairs", "-1", "1e5"})
		}
		b := make([]byte, r.rangeInt(1, 8))
		for i := range b {
			b[i] = byte(r.rangeInt(33, 126))
		}
		return string(b)
	}
	text := func(allowEmpty bool) string {
		if allowEmpty && r.chance(1, 4) {
			return ""
		}
		if r.chance(1, 3) {
			return pick(r, []string{"Test Regular", "X", "Foo Bold Italic", "001.002", "1.0 beta", "Copyright (c) 2023 Somebody. All rights reserved."})
		}
		var ws []string
		for k := r.rangeInt(1, 6); k > 0; k-- {
			ws = append(ws, word())
		}
		return strings.Join(ws, " ")
	}
	m.FullName = text(false)
	m.Version = text(true)
	m.Notice = text(true)
	m.CapHeight = float64(r.rangeInt(0, 900))
	m.XHeight = float64(r.rangeInt(0, 700))
	m.Ascent = float64(r.rangeInt(0, 1000))
	m.Descent = float64(r.rangeInt(-400, 0))
	m.UnderlinePosition = float64(r.rangeInt(-200, 0))
	m.UnderlineThickness = float64(r.rangeInt(0, 100))
	m.ItalicAngle = pick(r, []float64{0, -12, -9.5, 15.25})
	m.IsFixedPitch = r.chance(1, 3)
	names := []string{}
	for _, n := range glyphNamePool {
		if r.chance(1, 2) {
			names = append(names, n)
		}
	}
	if r.chance(2, 3) {
		names = append(names, ".notdef")
	}
	sort.Strings(names)
	codes := r.perm(256)
	for i, n := range names {
		x0, y0 := float64(r.rangeInt(-500, 500)), float64(r.rangeInt(-500, 500))
		wxv := float64(r.rangeInt(0, 2000))
		if r.chance(1, 15) {
			wxv = pick(r, []float64{-32768, -32767, 32767, -1, 0}) // the ends of the 16-bit range the reader stores widths in
		}
		g := &afm.GlyphInfo{WidthX: wxv, BBox: rect.Rect{LLx: x0, LLy: y0, URx: x0 + float64(r.rangeInt(0, 1500)), URy: y0 + float64(r.rangeInt(0, 1500))}}
		for k := r.intn(4); k > 0 && len(names) > 1; k-- {
			if g.Ligatures == nil {
				g.Ligatures = map[string]string{}
			}
			g.Ligatures[pick(r, names)] = pick(r, names)
		}
		m.Glyphs[n] = g
		if n != ".notdef" && r.chance(2, 3) {
			m.Encoding[codes[i]] = n // injective
		}
	}
	for k := r.intn(6); k > 0 && len(names) > 0; k-- {
		adj := r.rangeInt(-200, 200)
		if r.chance(1, 6) {
			adj = pick(r, []int{-32768, -32767, 32767, 32766, 0})
		}
		m.Kern = append(m.Kern, &afm.KernPair{Left: pick(r, names), Right: pick(r, names), Adjust: funit.Int16(adj)})
	}
	return m
}

func (r *rng) perm(n int) []int {
	p := make([]int, n)
	for i := range p {
		p[i] = i
	}
	for i := n - 1; i > 0; i-- {
		j := r.intn(i + 1)
		p[i], p[j] = p[j], p[i]
	}
	return p
}

func feq(a, b float64) bool { return a == b || math.IsNaN(a) && math.IsNaN(b) }

func compareMetrics(a, b *afm.Metrics, numbers bool) string {
	if a.FontName != b.FontName || a.FullName != b.FullName || a.Version != b.Version || a.Notice != b.Notice || a.IsFixedPitch != b.IsFixedPitch {
		return fmt.Sprintf("header text: %q %q %q %q %v vs %q %q %q %q %v", a.FontName, a.FullName, a.Version, a.Notice, a.IsFixedPitch, b.FontName, b.FullName, b.Version, b.Notice, b.IsFixedPitch)
	}
	if numbers {
		av := []float64{a.CapHeight, a.XHeight, a.Ascent, a.Descent, a.UnderlinePosition, a.UnderlineThickness, a.ItalicAngle}
		bv := []float64{b.CapHeight, b.XHeight, b.Ascent, b.Descent, b.UnderlinePosition, b.UnderlineThickness, b.ItalicAngle}
		for i := range av {
			if !feq(av[i], bv[i]) {
				return fmt.Sprintf("header number %d: %v vs %v", i, av[i], bv[i])
			}
		}
	}
	if len(a.Glyphs) != len(b.Glyphs) {
		return fmt.Sprintf("glyph count %d vs %d", len(a.Glyphs), len(b.Glyphs))
	}
	for n, ga := range a.Glyphs {
		gb := b.Glyphs[n]
		if gb == nil {
			return "glyph " + n + " missing"
		}
		if numbers && (!feq(ga.WidthX, gb.WidthX) || !feq(ga.BBox.LLx, gb.BBox.LLx) || !feq(ga.BBox.LLy, gb.BBox.LLy) || !feq(ga.BBox.URx, gb.BBox.URx) || !feq(ga.BBox.URy, gb.BBox.URy)) {
			return fmt.Sprintf("glyph %s: %v %v vs %v %v", n, ga.WidthX, ga.BBox, gb.WidthX, gb.BBox)
		}
		if len(ga.Ligatures) != len(gb.Ligatures) {
			return fmt.Sprintf("glyph %s ligatures %v vs %v", n, ga.Ligatures, gb.Ligatures)
		}
		for k, v := range ga.Ligatures {
			if gb.Ligatures[k] != v {
				return fmt.Sprintf("glyph %s ligature %s: %q vs %q", n, k, v, gb.Ligatures[k])
			}
		}
	}
	if len(a.Encoding) != len(b.Encoding) {
		return fmt.Sprintf("encoding length %d vs %d", len(a.Encoding), len(b.Encoding))
	}
	for i := range a.Encoding {
		if a.Encoding[i] != b.Encoding[i] {
			return fmt.Sprintf("encoding[%d]: %q vs %q", i, a.Encoding[i], b.Encoding[i])
		}
	}
	if len(a.Kern) != len(b.Kern) {
		return fmt.Sprintf("kern pairs %d vs %d", len(a.Kern), len(b.Kern))
	}
	for i := range a.Kern {
		if *a.Kern[i] != *b.Kern[i] {
			return fmt.Sprintf("kern %d: %v vs %v", i, *a.Kern[i], *b.Kern[i])
		}
	}
	return ""
}

func writeMetrics(m *afm.Metrics) (data []byte, err error, pan string) {
	defer func() {
		if r := recover(); r != nil {
			pan = fmt.Sprint(r)
		}
	}()
	var buf bytes.Buffer
	err = m.Write(&buf)
	return buf.Bytes(), err, ""
}

func readMetrics(data []byte) (m *afm.Metrics, err error, pan string) {
	defer func() {
		if r := recover(); r != nil {
			pan = fmt.Sprint(r)
		}
	}()
	m, err = afm.Read(bytes.NewReader(data))
	return m, err, ""
}

// renderAFM is the harness's own AFM writer: different spacing, field order
// within a C line, line ends.
func renderAFM(r *rng, m *afm.Metrics) []byte {
	eol := pick(r, []string{"\n", "\r\n"})
	sp := func() string { return pick(r, []string{" ", "  ", "\t", " \t "}) }
	var sb strings.Builder
	// some files indent every line, some only now and then (AFM files are often indented by section)
	indentAll := pick(r, []string{"", "", "", "  ", "\t"})
	line := func(format string, a ...any) {
		ind := indentAll
		if r.chance(1, 12) {
			ind += pick(r, []string{" ", "   ", "\t"})
		}
		sb.WriteString(ind + fmt.Sprintf(format, a...) + eol)
	}
	line("StartFontMetrics%s4.1", sp())
	line("Comment generated by the verification harness")
	hdr := []string{
		fmt.Sprintf("FontName%s%s", sp(), m.FontName), fmt.Sprintf("FullName%s%s", sp(), m.FullName),
		fmt.Sprintf("CapHeight%s%g", sp(), m.CapHeight), fmt.Sprintf("XHeight%s%g", sp(), m.XHeight), fmt.Sprintf("Ascender%s%g", sp(), m.Ascent),
		fmt.Sprintf("Descender%s%g", sp(), m.Descent), fmt.Sprintf("UnderlinePosition%s%g", sp(), m.UnderlinePosition),
		fmt.Sprintf("UnderlineThickness%s%g", sp(), m.UnderlineThickness), fmt.Sprintf("ItalicAngle%s%g", sp(), m.ItalicAngle),
		fmt.Sprintf("IsFixedPitch%s%v", sp(), m.IsFixedPitch), "EncodingScheme FontSpecific", "FontBBox -100 -200 1000 900",
	}
	if m.Version != "" {
		hdr = append(hdr, "Version "+m.Version)
	}
	if m.Notice != "" {
		hdr = append(hdr, "Notice "+m.Notice)
	}
	r.shuffleStrings(hdr)
	for _, h := range hdr {
		line("%s", h)
	}
	line("StartCharMetrics %d", len(m.Glyphs))
	var names []string
	for n := range m.Glyphs {
		names = append(names, n)
	}
	sort.Strings(names)
	r.shuffleStrings(names)
	for _, n := range names {
		g := m.Glyphs[n]
		code := -1
		for i, e := range m.Encoding {
			if e == n {
				code = i
			}
		}
		fields := []string{fmt.Sprintf("C%s%d", sp(), code), fmt.Sprintf("WX%s%g", sp(), g.WidthX), fmt.Sprintf("N%s%s", sp(), n),
			fmt.Sprintf("B%s%g %g%s%g %g", sp(), g.BBox.LLx, g.BBox.LLy, sp(), g.BBox.URx, g.BBox.URy)}
		var ls []string
		for k := range g.Ligatures {
			ls = append(ls, k)
		}
		sort.Strings(ls)
		for _, k := range ls {
			fields = append(fields, fmt.Sprintf("L%s%s %s", sp(), k, g.Ligatures[k]))
		}
		r.shuffleStrings(fields)
		line("%s", strings.Join(fields, sp()+";"+sp())+pick(r, []string{" ;", ";", ""}))
	}
	line("EndCharMetrics")
	if len(m.Kern) > 0 {
		line("StartKernData")
		line("StartKernPairs %d", len(m.Kern))
		for _, k := range m.Kern {
			line("KPX%s%s%s%s%s%d", sp(), k.Left, sp(), k.Right, sp(), k.Adjust)
		}
		line("EndKernPairs")
		line("EndKernData")
	}
	line("EndFontMetrics")
	return []byte(sb.String())
}

// roundedByWriter is what one write/read cycle may do to numbers: floor/ceil
// of box edges, round half-even of the %.0f fields.
func writerRounding(m *afm.Metrics) *afm.Metrics {
	c := *m
	rnd := func(x float64) float64 { return math.RoundToEven(x) }
	c.CapHeight, c.XHeight, c.Ascent, c.Descent = rnd(m.CapHeight), rnd(m.XHeight), rnd(m.Ascent), rnd(m.Descent)
	c.UnderlinePosition, c.UnderlineThickness = rnd(m.UnderlinePosition), rnd(m.UnderlineThickness)
	c.Glyphs = map[string]*afm.GlyphInfo{}
	for n, g := range m.Glyphs {
		gg := *g
		gg.WidthX = rnd(g.WidthX)
		gg.BBox = rect.Rect{LLx: math.Floor(g.BBox.LLx), LLy: math.Floor(g.BBox.LLy), URx: math.Ceil(g.BBox.URx), URy: math.Ceil(g.BBox.URy)}
		c.Glyphs[n] = &gg
	}
	return &c
}

// afmrwLine emits the model-comparison line for one AFM text: what Read followed by Write gives
func afmrwLine(o *suiteOut, text []byte) {
	if len(text) > 60000 {
		return
	}
	line := "afmrw " + hx(text)
	res := "error"
	m, err, pan := readMetrics(text)
	if pan != "" {
		res = "panic"
	} else if err == nil {
		d, err2, pan2 := writeMetrics(m)
		if err2 != nil || pan2 != "" {
			res = "write-error"
		} else {
			res = "ok " + hx(d)
		}
	}
	o.emit(line, res, res != "error")
}

func afmCase(o *suiteOut, line string) {
	f := strings.Split(line, " ")
	var seed uint64
	fmt.Sscan(f[1], &seed)
	r := newRng(seed)
	switch f[2] {
	case "rt":
		m := randMetrics(r)
		data, err, pan := writeMetrics(m)
		if err != nil || pan != "" {
			o.fail("C15", "writing metrics succeeds", line, "nil", fmt.Sprint(err, pan))
			break
		}
		afmrwLine(o, data)
		back, err, pan := readMetrics(data)
		if err != nil || pan != "" {
			o.fail("C15", "reading what was written succeeds", line, "nil", fmt.Sprint(err, pan))
			break
		}
		if d := compareMetrics(m, back, true); d != "" {
			o.fail("C15", "writing and re-reading returns equal metrics", line, "equal", d)
		}
	case "layout":
		m := randMetrics(r)
		laid := renderAFM(r, m)
		afmrwLine(o, laid)
		back, err, pan := readMetrics(laid)
		if pan != "" {
			o.fail("C01", "no panic in the AFM reader", line, "error value", pan)
			break
		}
		if err != nil {
			o.fail("C15", "the reader understands the data laid out by an independent writer", line, "metrics", err.Error())
			break
		}
		if d := compareMetrics(m, back, true); d != "" {
			o.fail("C15", "the reader understands the same data with different spacing, field order and line ends", line, "equal", d)
		}
	case "barecr":
		// line ends: LF, CR LF and the bare CR of classic Mac OS files
		m := randMetrics(r)
		laid := bytes.ReplaceAll(bytes.ReplaceAll(renderAFM(r, m), []byte("\r\n"), []byte("\n")), []byte("\n"), []byte("\r"))
		afmrwLine(o, laid)
		back, err, pan := readMetrics(laid)
		if pan != "" {
			o.fail("C01", "no panic in the AFM reader", line, "error value", pan)
			break
		}
		if err != nil {
			o.fail("C15", "the reader understands the data laid out by an independent writer", line, "metrics", err.Error())
			break
		}
		if d := compareMetrics(m, back, true); d != "" {
			o.fail("C15", "the reader understands the same data with bare CR line ends", line, "equal", d[:min(len(d), 200)])
		}
	case "mixedeol":
		// one file with all three line-end conventions, chosen line by line
		m := randMetrics(r)
		var laid []byte
		for _, l := range bytes.Split(bytes.ReplaceAll(renderAFM(r, m), []byte("\r\n"), []byte("\n")), []byte("\n")) {
			laid = append(laid, l...)
			laid = append(laid, pick(r, []string{"\n", "\r\n", "\r", "\r", "\n"})...)
		}
		afmrwLine(o, laid)
		back, err, pan := readMetrics(laid)
		if pan != "" {
			o.fail("C01", "no panic in the AFM reader", line, "error value", pan)
			break
		}
		if err != nil {
			o.fail("C15", "the reader understands the data laid out by an independent writer", line, "metrics", err.Error())
			break
		}
		if d := compareMetrics(m, back, true); d != "" {
			o.fail("C15", "the reader understands the same data with LF, CR LF and CR line ends mixed in one file", line, "equal", d[:min(len(d), 200)])
		}
	case "afterfail":
		// history: a Write that fails half-way (a writer that runs out of room at every possible size), then other
		// metrics are written: what is written is that of the second value alone, and it reads back equal
		m1, m2 := randMetrics(r), randMetrics(r)
		good, err, pan := writeMetrics(m2)
		if err != nil || pan != "" {
			break
		}
		full, _, _ := writeMetrics(m1)
		step := 1
		if len(full) > 600 {
			step = len(full) / 300
		}
		for cut := 0; cut < len(full); cut += step {
			safeErr(func() error { return m1.Write(&faultWriter{failCall: -1, shortAt: cut}) })
			again, err, pan := writeMetrics(m2)
			if err != nil || pan != "" || !bytes.Equal(good, again) {
				o.fail("C15", "what Write emits depends on the metrics value alone, not on an earlier Write that failed", fmt.Sprintf("%s (first write cut at byte %d)", line, cut), fmt.Sprintf("%d bytes", len(good)), fmt.Sprintf("%d bytes %v %v", len(again), err, pan))
				break
			}
		}
		afmrwLine(o, good)
	case "longline":
		// an accepted file whose written form has a line beyond bufio.Scanner's 64 kB token limit
		var sb strings.Builder
		sb.WriteString("StartFontMetrics 4.1\nFontName T\nStartCharMetrics 1\nC 1;N a;")
		for i := 0; i < 8000; i++ {
			const a36 = "abcdefghijklmnopqrstuvwxyz0123456789"
			fmt.Fprintf(&sb, "L %c%c%c d;", a36[i/1296%36], a36[i/36%36], a36[i%36]) // 8000 distinct three-letter names
		}
		sb.WriteString("\nEndCharMetrics\nEndFontMetrics\n")
		m1, err, _ := readMetrics([]byte(sb.String()))
		if err != nil {
			break // not accepted: nothing to preserve
		}
		d1, err, pan := writeMetrics(m1)
		if err != nil || pan != "" {
			o.fail("C15", "metrics that were read can be written", line, "nil", fmt.Sprint(err, pan))
			break
		}
		if _, err, _ := readMetrics(d1); err != nil {
			o.fail("C15", "the written metrics can be re-read (line longer than 64 kB)", line, "nil", err.Error())
		}
	case "longline2":
		// a line of more than a megabyte (a long Notice): what Write emits must be readable
		m := randMetrics(r)
		m.Notice = strings.TrimSpace(strings.Repeat("abcdefghi ", 130000))
		d1, err, pan := writeMetrics(m)
		if err != nil || pan != "" {
			o.fail("C15", "writing metrics succeeds", line, "nil", fmt.Sprint(err, pan))
			break
		}
		back, err, _ := readMetrics(d1)
		if err != nil {
			o.fail("C15", "the written metrics can be re-read (line longer than 1 MB)", line, "nil", err.Error())
			break
		}
		if back.Notice != m.Notice {
			o.fail("C15", "writing and re-reading returns equal metrics (long Notice)", line, "equal", fmt.Sprint(len(back.Notice)))
		}
	case "hugeline":
		// lines of 2^k - 1, 2^k and 2^k + 1 bytes for the powers of two from 1 MiB to 64 MiB (buffers grow by doubling,
		// and a limit on the line length would be one of these): one long Notice, written and read back
		m := randMetrics(r)
		k := 20 + int(seed%7)
		for _, d := range []int{-1, 0, 1} {
			m.Notice = strings.Repeat("y", (1<<k)+d-len("Notice "))
			d1, err, pan := writeMetrics(m)
			if err != nil || pan != "" {
				o.fail("C15", "writing metrics succeeds", line, "nil", fmt.Sprint(err, pan))
				break
			}
			back, err, _ := readMetrics(d1)
			if err != nil {
				o.fail("C15", fmt.Sprintf("the written metrics can be re-read (a line of 2^%d%+d bytes)", k, d), line, "nil", err.Error())
				break
			}
			if back.Notice != m.Notice {
				o.fail("C15", "writing and re-reading returns equal metrics (long Notice)", line, "equal", fmt.Sprint(len(back.Notice)))
			}
		}
	case "closure":
		m := randMetrics(r)
		// leave the integral domain: fractional and large numbers, odd texts
		for _, g := range m.Glyphs {
			if r.chance(1, 2) {
				g.BBox.LLx += pick(r, []float64{0.5, 0.25, -0.75, 1e30, -1e30})
				g.BBox.URy += pick(r, []float64{0.5, 0.1, 123456789012})
			}
		}
		m.CapHeight += pick(r, []float64{0.5, 0.49, 1.5, 2.5})
		text := renderAFM(r, m)
		if r.chance(1, 3) {
			text = append(text, []byte("C 300 ; WX 100 ; N big ; B 0 0 NaN 7.5 ;\nGarbage line\n")...)
		}
		afmrwLine(o, text)
		m1, err, pan := readMetrics(text)
		if pan != "" {
			o.fail("C01", "no panic in the AFM reader", line, "error value", pan)
			break
		}
		if err != nil {
			break
		}
		d1, err, pan := writeMetrics(m1)
		if err != nil || pan != "" {
			o.fail("C15", "metrics that were read can be written", line, "nil", fmt.Sprint(err, pan))
			break
		}
		m2, err, pan := readMetrics(d1)
		if err != nil || pan != "" {
			o.fail("C15", "the written metrics can be re-read", line, "nil", fmt.Sprint(err, pan))
			break
		}
		if d := compareMetrics(writerRounding(m1), m2, true); d != "" {
			o.fail("C15", "one cycle preserves names and text and changes numbers only by the writer's rounding", line, "equal up to rounding", d)
		}
		d2, _, _ := writeMetrics(m2)
		m3, err, _ := readMetrics(d2)
		if err != nil {
			o.fail("C15", "second cycle re-reads", line, "nil", err.Error())
			break
		}
		if d := compareMetrics(m2, m3, true); d != "" {
			o.fail("C15", "a second cycle changes nothing", line, "identical", d)
		}
	}
	o.emit(line, "skip", true)
	o.count("kind " + f[2])
}

func suiteAFM(o *suiteOut, r *rng, tier string, n int) {
	afmCase(o, "afm 0 longline")
	afmCase(o, "afm 1 longline2")
	afmCase(o, "afm 4 afterfail")
	afmCase(o, "afm 5 afterfail")
	afmCase(o, "afm 2 barecr")
	afmCase(o, "afm 3 barecr")
	for k := 0; k < 7; k++ {
		if k < 6 || tier == "thorough" {
			afmCase(o, fmt.Sprintf("afm %d hugeline", 7000+k)) // seeds chosen so that seed mod 7 runs through 0..6
		}
	}
	for i := 0; i < 40; i++ {
		afmCase(o, fmt.Sprintf("afm %d mixedeol", 600+i))
	}
	for _, l := range corpusLines("afm") {
		afmCase(o, l)
		o.count("corpus cases")
	}
	nr := 1500
	if tier == "thorough" {
		nr = 60000
	}
	if n > 0 {
		nr = n
	}
	for i := 0; i < nr; i++ {
		seed := r.next() % 1000000007
		afmCase(o, fmt.Sprintf("afm %d %s", seed, pick(r, []string{"rt", "layout", "closure"})))
	}
	o.notes = append(o.notes, "random metrics in the representable domain (integral numbers, single-token names, injective encodings, ligature maps, kerning lists, version and notice) through Write/Read; the same data laid out by the harness's own AFM writer (spacing, header and C-line field order, LF/CRLF); closure cycles on texts with fractional, huge and NaN numbers")
}

func init() {
	suites["afm"] = suiteAFM
	replayers["afm"] = afmCase
	replayers["afmrw"] = func(o *suiteOut, line string) { afmrwLine(o, unhx(strings.Split(line, " ")[1])) }
}
