package main

import (
	"fmt"
	"strings"

	postscript "seehuhn.de/go/postscript"
)

// plrmOpCases is a table written from the PostScript Language Reference (3rd ed., chapter 8), independently of the
// library and of the Lean model: program -> the operand stack the reference prescribes (bottom first, in the
// notation of psText), or the error name.  It is the oracle that a model mirroring the code cannot be.
var plrmOpCases = []struct{ prog, want string }{
	// type: "any type name" - the operand is consumed
	{"1 type", "/integertype"}, {"1.5 type", "/realtype"}, {"(a) type", "/stringtype"}, {"/a type", "/nametype"},
	{"true type", "/booleantype"}, {"[1] type", "/arraytype"}, {"{1} type", "/arraytype"}, {"1 dict type", "/dicttype"},
	{"mark type", "/marktype"}, {"/add load type", "/operatortype"}, {"currentfile type", "/filetype"}, {"7 (x) type", "7 /stringtype"},
	// stack
	{"1 2 exch", "2 1"}, {"1 dup", "1 1"}, {"1 2 pop", "1"}, {"1 2 3 2 copy", "1 2 3 2 3"}, {"1 2 3 0 copy", "1 2 3"},
	{"1 2 3 0 index", "1 2 3 3"}, {"1 2 3 2 index", "1 2 3 1"},
	{"(a) (b) (c) 3 -1 roll", "(b) (c) (a)"}, {"(a) (b) (c) 3 1 roll", "(c) (a) (b)"}, {"(a) (b) (c) 3 0 roll", "(a) (b) (c)"},
	{"1 2 3 4 5 5 2 roll", "4 5 1 2 3"}, {"1 2 3 3 -9223372036854775808 roll", "3 1 2"}, {"1 2 3 3 9223372036854775807 roll", "3 1 2"},
	{"1 2 3 4 5 5 -9223372036854775808 roll", "4 5 1 2 3"}, {"1 2 3 4 5 5 9223372036854775807 roll", "4 5 1 2 3"}, {"1 2 3 4 5 6 6 -9223372036854775808 roll", "3 4 5 6 1 2"},
	{"1 2 3 4 5 6 7 7 -9223372036854775808 roll", "2 3 4 5 6 7 1"}, {"1 2 3 3 -4 roll", "2 3 1"}, {"1 2 3 3 4 roll", "3 1 2"}, {"1 2 3 4 5 5 -7 roll", "3 4 5 1 2"},
	{"1 2 3 count", "1 2 3 3"}, {"count", "0"}, {"1 mark 2 3 cleartomark", "1"}, {"mark", "-mark-"},
	// arithmetic
	{"3 4 add", "7"}, {"9.5 1.25 add", "10.75"}, {"3 4 sub", "-1"}, {"2 3.5 mul", "7"}, {"-3 abs", "3"}, {"-2.5 abs", "2.5"}, {"1 0.5 sub", "0.5"},
	{"9223372036854775807 1 add", "9.223372036854776e+18"}, {"-9223372036854775808 1 sub", "-9.223372036854776e+18"},
	{"4294967296 4294967296 mul", "1.8446744073709552e+19"}, {"-9223372036854775808 abs", "9.223372036854776e+18"},
	{"0 -9223372036854775808 sub", "9.223372036854776e+18"}, {"-1 -9223372036854775808 mul", "9.223372036854776e+18"},
	{"9223372036854775807 -1 mul", "-9223372036854775807"}, {"3037000499 3037000499 mul", "9223372030926249001"},
	// boolean and bitwise
	{"true false and", "false"}, {"true true and", "true"}, {"99 1 and", "1"}, {"52 7 and", "4"}, {"true false or", "true"}, {"false false or", "false"},
	{"17 5 or", "21"}, {"true not", "false"}, {"52 not", "-53"}, {"0 not", "-1"}, {"true", "true"}, {"false", "false"},
	// comparison: simple objects by value, strings and names by content, composite objects by identity
	{"4.0 4 eq", "true"}, {"4 5 eq", "false"}, {"(abc) (abc) eq", "true"}, {"(abc) /abc eq", "true"}, {"/abc (abd) eq", "false"}, {"/a /b eq", "false"},
	{"1 (1) eq", "false"}, {"1 2 ne", "true"}, {"2 2.0 ne", "false"}, {"(a) (a) ne", "false"},
	{"true true eq", "true"}, {"true false eq", "false"}, {"true false ne", "true"}, {"false false ne", "false"}, {"true 1 eq", "false"}, {"(true) true eq", "false"},
	{"userdict userdict eq", "true"}, {"1 dict 1 dict eq", "false"}, {"1 dict dup eq", "true"}, {"userdict systemdict ne", "true"},
	{"[1 2 3] dup eq", "true"}, {"[1 2 3] [1 2 3] eq", "false"}, {"{1} dup eq", "true"}, {"mark mark eq", "true"}, {"[1] dup ne", "false"},
	// arrays
	{"3 array length", "3"}, {"0 array length", "0"}, {"[1 2 3] length", "3"}, {"[31 41 59] 0 get", "31"}, {"[31 41 59] 2 get", "59"},
	{"[1 2 3] dup 0 9 put", "[9 2 3]"}, {"[9 8 7 6 5] 1 3 getinterval", "[8 7 6]"}, {"[9 8 7] 3 0 getinterval", "[]"}, {"[9 8 7] 0 3 getinterval", "[9 8 7]"},
	{"[1 2 3 4 5] dup 1 [7 8] putinterval", "[1 7 8 4 5]"}, {"[1 2 3] dup 3 [] putinterval", "[1 2 3]"},
	{"/ar [5 8 2 7 3] def ar 1 3 getinterval 0 (x) put ar 1 get", "(x)"}, {"/ar [5 8 2 7 3] def ar 1 3 getinterval 1 2 getinterval 1 0 put ar", "[5 8 2 0 3]"},
	{"[1 2 3] [0 0 0] copy", "[1 2 3]"}, {"[1 2] [0 0 0] copy", "[1 2]"}, {"/b [0 0 0] def [1 2] b copy pop b", "[1 2 0]"}, {"/b [0 0 0] def [1 2] b copy 0 7 put b", "[7 2 0]"},
	{"[1 [2 3] (s)] 1 get 0 get", "2"}, {"/a [1 2] def /b a def b 0 5 put a", "[5 2]"}, {"[ 1 2 add ]", "[3]"}, {"mark 1 2 ]", "[1 2]"},
	// strings
	{"5 string length", "5"}, {"3 string", "(\\000\\000\\000)"}, {"(abc) 1 get", "98"}, {"(abc) dup 1 65 put", "(aAc)"}, {"(abcdef) 2 3 getinterval", "(cde)"},
	{"(abcdef) dup 2 (XY) putinterval", "(abXYef)"}, {"(ab) 5 string copy", "(ab)"}, {"/s (abcdef) def s 2 3 getinterval 0 88 put s", "(abXdef)"},
	{"/s 4 string def (ab) s copy pop s", "(ab\\000\\000)"}, {"(abc) 3 0 getinterval", "()"}, {"(abc) length", "3"}, {"(a) dup 0 255 put 0 get", "255"},
	// dictionaries
	{"5 dict length", "0"}, {"<< /a 1 /b 2 >> length", "2"}, {"<< /a 1 >> /a get", "1"}, {"<< /a 1 >> /a known", "true"}, {"<< /a 1 >> /b known", "false"},
	{"1 dict dup /k 5 put /k get", "5"}, {"/x 7 def x", "7"}, {"/x 7 def /x load", "7"}, {"/x 7 def /x where exch userdict eq", "true true"}, {"/nonesuch where", "false"},
	{"/add where exch systemdict eq", "true true"}, {"/d 2 dict def d begin /y 3 def end d /y get", "3"}, {"/d 1 dict def d begin currentdict d eq end", "true"},
	{"currentdict userdict eq", "true"}, {"/d << /a [1] >> def d /a get 0 5 put d /a get", "[5]"}, {"<< /a 1 >> << /b 2 >> copy length", "2"},
	{"/s << /a 1 >> def /t 1 dict def s t copy t eq t /a get", "true 1"}, {"/x 1 def 1 dict begin /x 2 def x end x", "2 1"}, {"/x 1 def /x 2 def x", "2"},
	{"1 dict begin /x 5 def currentdict end /x get", "5"}, {"<< /a 1 /a 2 >> /a get", "2"}, {"<< >> length", "0"}, {"<< /a 1 >> dup /a 2 put /a get", "2"},
	{"/p { 1 2 add } def p", "3"}, {"/p { 1 2 add } def /p load", "{1 2 add}"},
	// name look-up is done afresh every time: the topmost dictionary holding the key wins, however the key got there
	// (def, put, copy, definefont) and whatever was looked up before
	{"/x 1 def 5 dict begin x pop currentdict /x 2 put x", "2"}, {"/x 1 def 5 dict begin /x load pop currentdict /x 2 put /x load", "2"},
	{"/x 1 def 5 dict begin x pop currentdict /x 2 put /x where pop /x get x eq", "true"}, {"1 2 add pop userdict /add {sub} put 5 3 add", "2"},
	{"/x 1 def 3 dict begin x pop << /x 7 >> currentdict copy pop x", "7"}, {"/F 1 def FontDirectory begin F pop /F 3 dict definefont pop F type", "/dicttype"},
	{"/x 1 def 5 dict begin x pop /x 2 def x", "2"}, {"/x 1 def x pop userdict /x 2 put x", "2"}, {"/x 1 def 2 dict begin /x 2 def x end x 2 dict begin x", "2 1 1"},
	{"/d 2 dict def /x 1 def d begin x end d /x 5 put d begin x end x", "1 5 1"}, {"/x 1 def /p {x} def p 1 dict begin p currentdict /x 9 put p end p", "1 1 9 1"},
	{"/x 1 def /d1 1 dict def /d2 1 dict def d1 begin d2 begin x d1 /x 2 put x d2 /x 3 put x end x end x", "1 2 3 2 1"},
	// fonts and resources
	{"/F << /FontType 1 >> definefont /FontType get", "1"}, {"/F << /FontType 1 >> definefont pop /F findfont /FontType get", "1"},
	{"/F << /FontType 1 >> definefont /F findfont eq", "true"}, {"/F << /FontType 1 >> definefont pop FontDirectory /F known", "true"}, {"FontDirectory /Nope known", "false"},
	{"/R << /x 2 >> /Font defineresource /x get", "2"}, {"/CIDInit /ProcSet findresource type", "/dicttype"},
	{"/R << /x 1 >> /Font defineresource pop /R /Font findresource /x get", "1"},
	{"StandardEncoding 65 get", "/A"}, {"StandardEncoding length", "256"}, {"StandardEncoding 0 get", "/.notdef"}, {"StandardEncoding 32 get", "/space"}, {"StandardEncoding 251 get", "/germandbls"},
	{"StandardEncoding 39 get", "/quoteright"}, {"StandardEncoding 96 get", "/quoteleft"}, {"StandardEncoding 193 get", "/grave"}, {"StandardEncoding 128 get", "/.notdef"},
	// exactly one violated precondition -> the prescribed error
	{"pop", "err:stackunderflow"}, {"1 exch", "err:stackunderflow"}, {"dup", "err:stackunderflow"}, {"1 add", "err:stackunderflow"}, {"1 2 3 copy", "err:stackunderflow"},
	{"1 2 -1 1 roll", "err:rangecheck"}, {"1 -1 index", "err:rangecheck"}, {"1 -1 copy", "err:rangecheck"},
	{"1 (a) add", "err:typecheck"}, {"(a) 1 sub", "err:typecheck"}, {"/a 2 mul", "err:typecheck"}, {"(a) abs", "err:typecheck"}, {"1 true and", "err:typecheck"}, {"1.5 not", "err:typecheck"}, {"(a) true or", "err:typecheck"},
	{"[1 2] 2 get", "err:rangecheck"}, {"[1 2] -1 get", "err:rangecheck"}, {"(abc) 3 get", "err:rangecheck"}, {"[1 2] (a) get", "err:typecheck"}, {"1 0 get", "err:typecheck"},
	{"[1 2] 2 0 put", "err:rangecheck"}, {"(a) 0 256 put", "err:rangecheck"}, {"(a) 0 -1 put", "err:rangecheck"}, {"(a) 0 (b) put", "err:typecheck"},
	{"(abc) 2 2 getinterval", "err:rangecheck"}, {"(abc) -1 1 getinterval", "err:rangecheck"}, {"(abc) 0 -1 getinterval", "err:rangecheck"}, {"[1 2 3] 4 0 getinterval", "err:rangecheck"},
	{"[1 2] 1 [3 4] putinterval", "err:rangecheck"}, {"(ab) 0 [1] putinterval", "err:typecheck"}, {"[1 2 3] [0 0] copy", "err:rangecheck"}, {"(abc) 2 string copy", "err:rangecheck"},
	{"-1 array", "err:rangecheck"}, {"-1 string", "err:rangecheck"}, {"-1 dict", "err:rangecheck"}, {"(a) array", "err:typecheck"}, {"1.0 string", "err:typecheck"},
	{"<< /a 1 >> /b get", "err:undefined"}, {"nonesuch", "err:undefined"}, {"/nonesuch load", "err:undefined"}, {"1 cleartomark", "err:unmatchedmark"}, {"1 ]", "err:unmatchedmark"}, {"1 >>", "err:unmatchedmark"},
	{"<< /a >>", "err:rangecheck"}, {"end", "err:dictstackunderflow"}, {"1 begin", "err:typecheck"}, {"/a def", "err:stackunderflow"}, {"1 length", "err:typecheck"}, {"1 maxlength", "err:typecheck"},
	{"/Q /Font findresource", "err:undefinedresource"}, {"/Q /CMap findresource", "err:undefinedresource"}, {"/Q /ProcSet findresource", "err:undefinedresource"}, {"/R 5 /NoSuchCategory defineresource", "err:undefined"}, {"/R /NoSuchCategory findresource", "err:undefined"},
	{"/Nope findfont", "err:invalidfont"}, {"/F 1 definefont", "err:typecheck"},
}

// psText prints an object in PostScript notation (composite objects by content, dictionaries opaque)
func psText(v postscript.Object, depth int) string {
	if depth > 4 {
		return "..."
	}
	switch v := v.(type) {
	case nil:
		return "-null-"
	case postscript.Integer:
		return fmt.Sprint(int64(v))
	case postscript.Real:
		return fmt.Sprintf("%g", float64(v))
	case postscript.Boolean:
		return fmt.Sprint(bool(v))
	case postscript.Name:
		return "/" + string(v)
	case postscript.Operator:
		return string(v)
	case postscript.String:
		var b strings.Builder
		b.WriteByte('(')
		for _, c := range []byte(v) {
			if c < 32 || c > 126 || c == '(' || c == ')' || c == '\\' {
				fmt.Fprintf(&b, "\\%03o", c)
			} else {
				b.WriteByte(c)
			}
		}
		b.WriteByte(')')
		return b.String()
	case postscript.Array:
		var parts []string
		for _, e := range v {
			parts = append(parts, psText(e, depth+1))
		}
		return "[" + strings.Join(parts, " ") + "]"
	case postscript.Procedure:
		var parts []string
		for _, e := range v {
			parts = append(parts, psText(e, depth+1))
		}
		return "{" + strings.Join(parts, " ") + "}"
	case postscript.Dict:
		return "-dict-"
	}
	if fmt.Sprintf("%T", v) == "postscript.mark" {
		return "-mark-"
	}
	return fmt.Sprintf("-%T-", v)
}

func plrmOpTable(o *suiteOut, p *progSuite) {
	for _, c := range plrmOpCases {
		p.run(100000, false, c.prog) // also against the model
		line := runCaseLine(100000, false, c.prog)
		_, intp, class := runProgram(100000, false, []byte(c.prog))
		got := class
		if class == "ok" {
			var parts []string
			for _, v := range intp.Stack {
				parts = append(parts, psText(v, 0))
			}
			got = strings.Join(parts, " ")
		}
		if got != c.want {
			o.fail("C02", "data operators leave the operand stack, or raise the error, the language reference prescribes (PLRM operator table)", line, c.want, got)
		}
		o.count("PLRM operator table")
	}
}
