package main

// Random Type 1 fonts in the writable domain (C08, C09, C10, C13, C17) and
// field-by-field comparison of fonts.

import (
	"bytes"
	"fmt"
	"math"
	"sort"
	"strings"
	"time"

	"seehuhn.de/go/postscript/funit"
	"seehuhn.de/go/postscript/psenc"
	"seehuhn.de/go/postscript/type1"
)

var glyphNamePool = []string{"A", "B", "C", "AE", "a", "b", "c", "space", "zero", "one", "exclam", "quotedbl", "ampersand", "Aacute", "germandbls", "f_i", "a.alt", "uni0041", "x-y", "q#1", "w!", "dollar", "percent1", "Z"}

func randInfoString(r *rng) string {
	switch r.intn(7) {
	case 0:
		return ""
	case 1:
		return pick(r, []string{"Test Font", "Regular", "Bold", "1.0", "001.002", "Copyright (c) 2023 Somebody"})
	case 2:
		// parentheses (balanced and not), backslashes
		return pick(r, []string{"a(b)c", "a(b", "a)b", "((", "))", ")(", "\\", "a\\b", "\\(", "\\)", "(\\)", "a(b(c)d)e"})
	case 3:
		// control bytes incl. CR, LF, CRLF
		return pick(r, []string{"a\rb", "a\nb", "a\r\nb", "\r", "\n", "\t", "a\x00b", "\x7f", "tab\there", "\r\r\n\n"})
	case 4:
		b := make([]byte, r.rangeInt(1, 12))
		for i := range b {
			b[i] = byte(r.intn(256))
		}
		return string(b)
	default:
		b := make([]byte, r.rangeInt(1, 20))
		for i := range b {
			b[i] = " abcXYZ019()\\%/<>[]{}"[r.intn(21)]
		}
		return string(b)
	}
}

// wellFormedPath: moveto (lineto|curveto)* closepath, repeated.
func wellFormedPath(r *rng, integer bool) []type1.GlyphOp {
	var cmds []type1.GlyphOp
	coord := func() float64 {
		if integer {
			return float64(r.rangeInt(-1500, 1500))
		}
		switch r.intn(3) {
		case 0:
			return float64(r.rangeInt(-1500, 1500))
		case 1:
			return float64(r.rangeInt(-96000, 96000)) / 64
		default:
			return math.Round((r.float()*3000-1500)*1000) / 1000
		}
	}
	for k := r.intn(4); k > 0; k-- {
		x, y := coord(), coord()
		cmds = append(cmds, type1.GlyphOp{Op: type1.OpMoveTo, Args: []float64{x, y}})
		for j := r.rangeInt(1, 6); j > 0; j-- {
			if r.chance(1, 2) {
				nx, ny := coord(), coord()
				if r.chance(1, 3) {
					ny = y
				} else if r.chance(1, 3) {
					nx = x
				}
				cmds = append(cmds, type1.GlyphOp{Op: type1.OpLineTo, Args: []float64{nx, ny}})
				x, y = nx, ny
			} else {
				a := []float64{coord(), coord(), coord(), coord(), coord(), coord()}
				switch r.intn(3) {
				case 0:
					a[1], a[4] = y, a[2]
				case 1:
					a[0], a[5] = x, a[3]
				}
				cmds = append(cmds, type1.GlyphOp{Op: type1.OpCurveTo, Args: a})
				x, y = a[4], a[5]
			}
		}
		cmds = append(cmds, type1.GlyphOp{Op: type1.OpClosePath})
	}
	return cmds
}

func randStems(r *rng) []funit.Int16 {
	var s []funit.Int16
	if r.chance(1, 8) {
		// three stems in the arrangement of hstem3/vstem3 (equal outer widths, the middle one centred), in any order
		a, w, wm, gap := r.rangeInt(-200, 400), r.rangeInt(10, 60), r.rangeInt(10, 80), r.rangeInt(100, 300)
		tri := [][2]int{{a, a + w}, {a + gap + (w-wm)/2, a + gap + (w-wm)/2 + wm}, {a + 2*gap, a + 2*gap + w}}
		if (w-wm)%2 != 0 {
			tri[1][1]++ // keep the centres equidistant when the widths differ in parity: widen by one
			tri[1][0]--
		}
		for _, i := range r.perm(3) {
			s = append(s, funit.Int16(tri[i][0]), funit.Int16(tri[i][1]))
		}
		return s
	}
	nst := r.intn(3)
	if r.chance(1, 6) {
		nst = r.rangeInt(3, 6)
	}
	for k := nst; k > 0; k-- {
		a := r.rangeInt(-1000, 1000)
		if r.chance(1, 10) {
			// stems spanning more than 32767 units: the width operand does not fit 16 bits
			s = append(s, funit.Int16(pick(r, []int{-32768, -30000, -20000})), funit.Int16(pick(r, []int{20000, 30000, 32767})))
			continue
		}
		s = append(s, funit.Int16(a), funit.Int16(a+r.rangeInt(-100, 900)))
	}
	return s
}

// randFont builds a font in the domain of C09: integer widths, regular glyph
// names, well-formed contours, finite numbers, 256-entry or absent encoding.
func randFont(r *rng, integerCoords bool) *type1.Font {
	f := &type1.Font{
		FontInfo: &type1.FontInfo{
			FontName:           pick(r, []string{"Test", "Test-Bold", "ABCDEF+Font", "F1", "x"}),
			Version:            randInfoString(r),
			Notice:             randInfoString(r),
			Copyright:          randInfoString(r),
			FullName:           randInfoString(r),
			FamilyName:         randInfoString(r),
			Weight:             randInfoString(r),
			ItalicAngle:        pick(r, []float64{0, -12, -9.5, 15, 0.25}),
			IsFixedPitch:       r.chance(1, 3),
			UnderlinePosition:  funit.Float64(pick(r, []float64{-100, -75.5, 0, 12})),
			UnderlineThickness: funit.Float64(pick(r, []float64{50, 20.25, 0})),
			FontMatrix:         [6]float64{0.001, 0, 0, 0.001, 0, 0},
		},
		Private: &type1.PrivateDict{BlueScale: 0.039625, BlueShift: 7, BlueFuzz: 1},
		Glyphs:  map[string]*type1.Glyph{},
	}
	if r.chance(1, 4) {
		f.FontInfo.FontMatrix = [6]float64{0.002, 0, 0, 0.002, 0, 0}
	}
	if r.chance(1, 2) {
		f.Private.BlueValues = []funit.Int16{-10, 0, 500, 510, 700, 712}[:2*r.rangeInt(1, 3)]
	}
	if r.chance(1, 3) {
		f.Private.OtherBlues = []funit.Int16{-250, -240}
	}
	if r.chance(1, 3) {
		f.Private.BlueScale = pick(r, []float64{0.05, 0.0375, 0.04379})
	}
	if r.chance(1, 3) {
		f.Private.BlueShift = int32(r.rangeInt(0, 20))
	}
	if r.chance(1, 3) {
		f.Private.BlueFuzz = int32(r.rangeInt(0, 5))
	}
	if r.chance(1, 2) {
		f.Private.StdHW = pick(r, []float64{50, 62.5, 100})
	}
	if r.chance(1, 2) {
		f.Private.StdVW = pick(r, []float64{80, 91.25})
	}
	f.Private.ForceBold = r.chance(1, 4)
	// glyphs
	f.Glyphs[".notdef"] = &type1.Glyph{WidthX: float64(r.rangeInt(0, 1000))}
	for _, n := range glyphNamePool {
		if r.chance(1, 3) || (n == "germandbls" && r.chance(1, 3)) {
			f.Glyphs[n] = &type1.Glyph{Cmds: wellFormedPath(r, integerCoords), HStem: randStems(r), VStem: randStems(r), WidthX: float64(r.rangeInt(0, 2000))}
		}
	}
	for _, n := range []string{"A", "B", "space"} {
		if r.chance(2, 3) && f.Glyphs[n] == nil {
			f.Glyphs[n] = &type1.Glyph{Cmds: wellFormedPath(r, integerCoords), WidthX: float64(r.rangeInt(0, 2000))}
		}
	}
	// encoding
	switch r.intn(6) {
	case 5:
		// StandardEncoding with exactly one existing glyph left unassigned, preferably at the ends of the
		// standard code range (space = 32, germandbls = 251)
		f.Encoding = make([]string, 256)
		var present []int
		for i, n := range psenc.StandardEncoding {
			f.Encoding[i] = ".notdef"
			if _, ok := f.Glyphs[n]; ok && n != ".notdef" {
				f.Encoding[i] = n
				present = append(present, i)
			}
		}
		if len(present) > 0 {
			victim := pick(r, present)
			if r.chance(1, 2) {
				victim = pick(r, []int{present[0], present[len(present)-1]})
			}
			f.Encoding[victim] = ".notdef"
		}
	case 0:
		f.Encoding = nil
	case 1:
		// StandardEncoding restricted to the present glyphs
		f.Encoding = make([]string, 256)
		for i, n := range psenc.StandardEncoding {
			if _, ok := f.Glyphs[n]; ok {
				f.Encoding[i] = n
			} else {
				f.Encoding[i] = ".notdef"
			}
		}
	case 2:
		// StandardEncoding with the code of an existing glyph left unassigned
		f.Encoding = make([]string, 256)
		for i, n := range psenc.StandardEncoding {
			if _, ok := f.Glyphs[n]; ok && !r.chance(1, 3) {
				f.Encoding[i] = n
			} else {
				f.Encoding[i] = ".notdef"
			}
		}
	default:
		f.Encoding = make([]string, 256)
		for i := range f.Encoding {
			f.Encoding[i] = ".notdef"
		}
		var present []string
		for n := range f.Glyphs {
			present = append(present, n)
		}
		sort.Strings(present)
		for k := r.intn(20); k > 0; k-- {
			f.Encoding[r.intn(256)] = pick(r, present)
		}
	}
	if r.chance(2, 3) {
		zone := pick(r, []*time.Location{time.UTC, time.FixedZone("CET", 3600), time.FixedZone("NST", -3*3600-1800), time.FixedZone("+0545", 5*3600+2700), time.FixedZone("", 9*3600)})
		f.CreationDate = time.Date(1990+r.intn(40), time.Month(1+r.intn(12)), 1+r.intn(28), r.intn(24), r.intn(60), r.intn(60), 0, zone)
	}
	return f
}

func closeF(a, b, tol float64) bool {
	return a == b || math.Abs(a-b) <= tol
}

// compareFonts reports the first difference between two fonts; coordinate
// tolerance `ctol` (0 = exact).
func compareFonts(a, b *type1.Font, ctol float64, integerCoords bool) string {
	if *a.FontInfo != *b.FontInfo {
		return fmt.Sprintf("FontInfo: %+v vs %+v", *a.FontInfo, *b.FontInfo)
	}
	pa, pb := a.Private, b.Private
	if fmt.Sprint(pa.BlueValues, pa.OtherBlues, pa.BlueShift, pa.BlueFuzz, pa.ForceBold) != fmt.Sprint(pb.BlueValues, pb.OtherBlues, pb.BlueShift, pb.BlueFuzz, pb.ForceBold) ||
		!closeF(pa.BlueScale, pb.BlueScale, 1e-9) || !closeF(pa.StdHW, pb.StdHW, 1e-9) || !closeF(pa.StdVW, pb.StdVW, 1e-9) {
		return fmt.Sprintf("Private: %+v vs %+v", *pa, *pb)
	}
	if len(a.Glyphs) != len(b.Glyphs) {
		return fmt.Sprintf("glyph count %d vs %d", len(a.Glyphs), len(b.Glyphs))
	}
	for name, ga := range a.Glyphs {
		gb := b.Glyphs[name]
		if gb == nil {
			return "glyph " + name + " missing"
		}
		if ga.WidthX != gb.WidthX || ga.WidthY != gb.WidthY {
			return fmt.Sprintf("glyph %s width %v,%v vs %v,%v", name, ga.WidthX, ga.WidthY, gb.WidthX, gb.WidthY)
		}
		if fmt.Sprint(evenPrefix(ga.HStem), evenPrefix(ga.VStem)) != fmt.Sprint(evenPrefix(gb.HStem), evenPrefix(gb.VStem)) {
			return fmt.Sprintf("glyph %s stems %v %v vs %v %v", name, ga.HStem, ga.VStem, gb.HStem, gb.VStem)
		}
		if len(ga.Cmds) != len(gb.Cmds) {
			return fmt.Sprintf("glyph %s: %d commands vs %d: %v vs %v", name, len(ga.Cmds), len(gb.Cmds), ga.Cmds, gb.Cmds)
		}
		glyphInt := glyphAllInt(ga)
		for i := range ga.Cmds {
			if ga.Cmds[i].Op != gb.Cmds[i].Op || len(ga.Cmds[i].Args) != len(gb.Cmds[i].Args) {
				return fmt.Sprintf("glyph %s command %d: %v vs %v", name, i, ga.Cmds[i], gb.Cmds[i])
			}
			for k := range ga.Cmds[i].Args {
				x, y := ga.Cmds[i].Args[k], gb.Cmds[i].Args[k]
				tol := ctol
				if integerCoords || glyphInt {
					tol = 0
				}
				if !closeF(x, y, tol) {
					return fmt.Sprintf("glyph %s command %d arg %d: %v vs %v", name, i, k, x, y)
				}
			}
		}
	}
	ea, eb := a.Encoding, b.Encoding
	if (ea == nil) != (eb == nil) {
		// an absent encoding is written as nothing; the reader returns nil as well
		return fmt.Sprintf("encoding presence: %v vs %v", ea != nil, eb != nil)
	}
	for i := range ea {
		if ea[i] != eb[i] {
			return fmt.Sprintf("encoding[%d]: %q vs %q", i, ea[i], eb[i])
		}
	}
	if !a.CreationDate.Equal(b.CreationDate) {
		return fmt.Sprintf("creation date %v vs %v", a.CreationDate, b.CreationDate)
	}
	if !a.CreationDate.IsZero() {
		_, oa := a.CreationDate.Zone()
		_, ob := b.CreationDate.Zone()
		if oa != ob {
			return fmt.Sprintf("creation date zone offset %d vs %d", oa, ob)
		}
	}
	return ""
}

// glyphAllInt reports whether every coordinate of the glyph is an integer; then all
// deltas are integers and the outline must survive exactly.
func glyphAllInt(g *type1.Glyph) bool {
	for _, c := range g.Cmds {
		for _, a := range c.Args {
			if a != math.Trunc(a) {
				return false
			}
		}
	}
	return true
}

func evenPrefix(s []funit.Int16) []funit.Int16 { return s[:len(s)/2*2] }

var allFormats = []type1.FileFormat{type1.FormatPFA, type1.FormatPFB, type1.FormatBinary, type1.FormatNoEExec}

func formatName(f type1.FileFormat) string {
	return [...]string{"?", "pfa", "pfb", "binary", "noeexec"}[f]
}

func writeFont(f *type1.Font, format type1.FileFormat) (data []byte, err error, panicked string) {
	defer func() {
		if r := recover(); r != nil {
			panicked = fmt.Sprint(r)
		}
	}()
	var buf bytes.Buffer
	err = f.Write(&buf, &type1.WriterOptions{Format: format})
	return buf.Bytes(), err, ""
}

func readFont(data []byte) (f *type1.Font, err error, panicked string) {
	defer func() {
		if r := recover(); r != nil {
			panicked = fmt.Sprint(r)
		}
	}()
	f, err = type1.Read(bytes.NewReader(data))
	return f, err, ""
}

// fontDigest is a short description of a font for case lines.
func fontDigest(f *type1.Font) string {
	var names []string
	for n := range f.Glyphs {
		names = append(names, n)
	}
	sort.Strings(names)
	enc := "noenc"
	if f.Encoding != nil {
		enc = "enc"
	}
	return fmt.Sprintf("%s glyphs=%s %s", f.FontInfo.FontName, strings.Join(names, ","), enc)
}

type funitInt16 = funit.Int16

func funitFloat(x float64) funit.Float64 { return funit.Float64(x) }
