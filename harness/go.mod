module psharness

go 1.23.2

require (
	seehuhn.de/go/geom v0.0.0-20250114140758-af83eac7b27c
	seehuhn.de/go/postscript v0.0.0
)

require golang.org/x/exp v0.0.0-20240409090435-93d18d7e34b8 // indirect

replace seehuhn.de/go/postscript => /repo
