package main

// Suite `hostilefiles` (C01): adversarial inputs for type1.Read, ReadCMap, afm.Read and pfb.Decode.
// The inputs are built structurally (so they get through eexec and charstring encryption) and then
// sabotaged; the only oracle is: the call returns (value or error) - no panic, no abort, no hang.

import (
	"bytes"
	"fmt"
	"io"
	"os"
	"path/filepath"
	"strings"
	"time"

	"seehuhn.de/go/postscript"
	"seehuhn.de/go/postscript/afm"
	"seehuhn.de/go/postscript/pfb"
	"seehuhn.de/go/postscript/type1"
)

var extremeInts = []int{0, 1, -1, 2, 3, 4, 5, 23, 24, 25, 65, 100, 255, 256, 257, 300, 1000, 32767, 32768, -32768, -32769, 65535, 65536, 1 << 30, -(1 << 30), 2147483647, -2147483648}

func hostileCharstring(r *rng, nsubrs int) []byte {
	var b []byte
	num := func() {
		v := pick(r, extremeInts)
		if r.chance(1, 3) {
			v = r.rangeInt(-5, 40)
		}
		if r.chance(1, 6) {
			b = append(b, csInt5(v)...)
		} else {
			b = append(b, csInt(v)...)
		}
	}
	ops := []int{opHsbw, opSbw, opHstem, opVstem, opHstem3, opVstem3, opRmoveto, opHmoveto, opVmoveto, opRlineto, opHlineto, opVlineto, opRrcurveto,
		opVhcurveto, opHvcurveto, opClosepath, opCallsubr, opReturn, opCallothersubr, opPop, opSetcurrentpoint, opDiv, opSeac, opDotsection, opEndchar}
	if r.chance(2, 3) {
		b = append(b, csInt(r.rangeInt(-50, 50))...)
		b = append(b, csInt(r.rangeInt(0, 1000))...)
		b = append(b, csOp(opHsbw)...)
	}
	for k := r.rangeInt(0, 14); k > 0; k-- {
		switch r.intn(8) {
		case 0: // seac with arbitrary operands
			for j := 0; j < 5; j++ {
				num()
			}
			b = append(b, csOp(opSeac)...)
		case 1: // callsubr with arbitrary index
			b = append(b, csInt(pick(r, []int{0, 1, 2, 3, 4, nsubrs - 1, nsubrs, nsubrs + 1, -1, 1 << 20}))...)
			b = append(b, csOp(opCallsubr)...)
		case 2: // callothersubr with arbitrary count / index
			for j := r.intn(4); j > 0; j-- {
				num()
			}
			b = append(b, csInt(pick(r, []int{0, 1, 2, 3, 4, -1, 30, 1 << 20}))...)
			b = append(b, csInt(pick(r, []int{0, 1, 2, 3, 4, 12, 13, -1, 1 << 20}))...)
			b = append(b, csOp(opCallothersubr)...)
		case 3: // many numbers
			for j := r.rangeInt(0, 30); j > 0; j-- {
				num()
			}
		case 4: // raw bytes
			for j := r.rangeInt(1, 4); j > 0; j-- {
				b = append(b, byte(r.intn(256)))
			}
		default:
			for j := r.intn(7); j > 0; j-- {
				num()
			}
			b = append(b, csOp(pick(r, ops))...)
		}
	}
	if r.chance(2, 3) {
		b = append(b, csOp(opEndchar)...)
	}
	return b
}

func hostileFont(r *rng) ([]byte, string) {
	mf := randModelFont(newRng(r.next()))
	rf, l := mf.renderParts(r)
	var what []string
	sab := func(s string) { what = append(what, s) }
	for k := r.rangeInt(1, 3); k > 0; k-- {
		switch r.intn(10) {
		case 0:
			rf.StdEncoding, rf.Encoding = false, nil
			sab("no Encoding")
		case 1:
			rf.EncodingText = pick(r, []string{"/Encoding 5 def\n", "/Encoding [/A /B] def\n", "/Encoding 10 array def\n", "/Encoding (abc) def\n", "/Encoding 257 array def\n",
				"/Encoding 256 array def\n", "/Encoding << /a 1 >> def\n", "/Encoding /StandardEncoding def\n", "/Encoding 256 array 0 1 255 {1 index exch 7 put} for def\n"})
			sab("Encoding " + strings.TrimSpace(rf.EncodingText))
		case 2:
			rf.LenIVText = pick(r, []string{"-1", "-4611686018427387904", "100000", "2147483648", "4611686018427387904", "(x)", "1.5", "/a", "true", "65536"})
			sab("lenIV " + rf.LenIVText)
		case 3:
			key := pick(r, []string{"BlueValues", "OtherBlues", "StdHW", "StdVW", "BlueScale", "BlueShift", "BlueFuzz", "ForceBold", "StemSnapH", "UniqueID"})
			val := pick(r, []string{"(s)", "5", "[1 (a) 3]", "[1.5 /x]", "/n", "true", "[ ]", "[1 2 3 4 5 6 7 8 9 10 11 12 13 14 15 16 17 18 19 20]", "<< >>", "{1 2}", "1e300", "-9223372036854775808", "[1e300 -1e300]"})
			rf.Private = append(rf.Private, [2]string{key, val})
			sab("Private " + key + " " + val)
		case 4:
			key := pick(r, []string{"ItalicAngle", "isFixedPitch", "UnderlinePosition", "UnderlineThickness", "version", "Notice", "FullName", "Weight"})
			val := pick(r, []string{"(s)", "5", "[1]", "/n", "true", "1e300", "<< >>", "{ }", "9223372036854775807"})
			rf.Info = append(rf.Info, [2]string{key, val})
			sab("FontInfo " + key + " " + val)
		case 5:
			rf.FontMatrix = pick(r, []string{"[1 2]", "5", "[(a) 0 0 1 0 0]", "[]", "[0 0 0 0 0 0]", "[1e300 0 0 1e300 0 0]", "[1 2 3 4 5 6 7]", "{1 0 0 1 0 0}", "(abc)", "/x"})
			sab("FontMatrix " + rf.FontMatrix)
		case 6:
			rf.BBoxText = pick(r, []string{"5", "[1 2]", "{(a) 0 0 0}", "[1e300 0 0 0]", "(s)", "{}", "{1 2 3 4 5}"})
			sab("FontBBox " + rf.BBoxText)
		case 7:
			rf.FontName = pick(r, []string{"A", "a.b", "x123456789012345678901234567890123456789"})
		default:
			names := rf.GlyphOrder
			if names == nil {
				for n := range rf.Glyphs {
					names = append(names, n)
				}
			}
			if len(names) == 0 {
				names = []string{"A"}
			}
			for j := r.rangeInt(1, 3); j > 0; j-- {
				rf.Glyphs[pick(r, names)] = hostileCharstring(r, len(rf.Subrs))
			}
			if r.chance(1, 3) && len(rf.Subrs) > 0 {
				rf.Subrs[r.intn(len(rf.Subrs))] = hostileCharstring(r, len(rf.Subrs))
			}
			if r.chance(1, 5) {
				// subroutines calling each other
				n := len(rf.Subrs)
				for i := range rf.Subrs {
					rf.Subrs[i] = cat(csInt((i+1)%n), csOp(opCallsubr), csOp(opReturn))
				}
			}
			sab("hostile charstrings")
		}
	}
	data := rf.render(l)
	if l.Format == "clear" && r.chance(1, 2) {
		// byte-level damage of the clear text
		for j := r.rangeInt(1, 4); j > 0 && len(data) > 0; j-- {
			i := r.intn(len(data))
			switch r.intn(3) {
			case 0:
				data[i] = byte(r.intn(256))
			case 1:
				data = append(data[:i:i], data[i+1:]...)
			default:
				data = append(data[:i:i], append([]byte{byte(r.intn(256))}, data[i:]...)...)
			}
		}
		sab("byte damage")
	}
	if r.chance(1, 8) {
		data = data[:r.intn(len(data)+1)]
		sab("truncated")
	}
	return data, l.Format + ": " + strings.Join(what, "; ")
}

func hostileCall(o *suiteOut, cur, line, desc string, f func()) {
	os.WriteFile(cur, []byte(line), 0o644)
	done := make(chan string, 1)
	go func() {
		defer func() {
			if r := recover(); r != nil {
				done <- "panic: " + fmt.Sprint(r)
			}
		}()
		f()
		done <- ""
	}()
	select {
	case res := <-done:
		if res != "" {
			o.fail("C01", "no panic", line+" ("+desc+")", "result or error value", res)
		}
	case <-time.After(60 * time.Second):
		o.fail("C01", "the call terminates (60 s)", line+" ("+desc+")", "returns", "still running")
	}
	o.emit(line, "skip", true)
}

func suiteHostileFiles(o *suiteOut, r *rng, tier string, n int) {
	cur := filepath.Join(o.dir, "hostilefiles.current")
	nr := 1500
	if tier == "thorough" {
		nr = 60000
	}
	if n > 0 {
		nr = n
	}
	for _, l := range corpusLines("hostilefiles") {
		hostileFileCase(o, cur, l)
	}
	// declared counts (StartCharMetrics, StartKernPairs, StartKernData ...) of every absurd size: a reader must not
	// size anything from them
	for _, cnt := range []string{"0", "-1", "1", "65536", "1000000000000", "4611686018427387904", "9223372036854775807", "9223372036854775808", "1e30", "NaN", "0x10", ""} {
		for _, kw := range []string{"StartCharMetrics", "StartKernPairs", "StartKernData", "StartComposites", "StartTrackKern", "StartFontMetrics"} {
			text := "StartFontMetrics 4.1\nFontName T\nStartCharMetrics 1\nC 65 ; WX 500 ; N A ; B 0 0 10 10 ;\nEndCharMetrics\nStartKernData\nStartKernPairs 1\nKPX A A -20\nEndKernPairs\nEndKernData\nEndFontMetrics\n"
			if kw == "StartComposites" || kw == "StartTrackKern" {
				text = strings.Replace(text, "StartKernData\n", "StartKernData\n"+kw+" "+cnt+"\n", 1)
			} else {
				i := strings.Index(text, kw)
				j := i + strings.Index(text[i:], "\n")
				text = text[:i] + kw + " " + cnt + text[j:]
			}
			line := fmt.Sprintf("hostilefile afmcount %s %s", kw, hx([]byte(cnt)))
			hostileCall(o, cur, line, "AFM with declared count "+cnt, func() {
				m, err := afm.Read(strings.NewReader(text))
				if err == nil && m != nil {
					m.Write(io.Discard)
				}
			})
			afmrwLine(o, []byte(text))
			o.count("AFM declared counts")
		}
	}
	// CMap blocks whose operands are self-referential objects (an operator that prints or copies the offending
	// value recursively never returns)
	for _, blk := range []string{"cidchar", "cidrange", "bfchar", "bfrange", "notdefchar", "notdefrange", "codespacerange"} {
		for _, cyc := range []string{"/A [0] def A 0 A put A", "/P {0} def P 0 P put P", "/D 1 dict def D /self D put D", "/A [0 0] def A 0 A put A 1 A put A"} {
			for pos := 0; pos < 3; pos++ {
				ops := []string{"<41>", "<42>", "7"}
				if !strings.HasSuffix(blk, "range") {
					ops = []string{"<41>", "7"}
				}
				if blk == "codespacerange" {
					ops = []string{"<00>", "<ff>"}
				}
				if pos >= len(ops) {
					continue
				}
				ops[pos] = cyc
				prog := "/CIDInit /ProcSet findresource begin 12 dict begin begincmap 1 begin" + blk + " " + strings.Join(ops, " ") + " end" + blk + " endcmap"
				line := "hostilefile cmapcyc " + hx([]byte(prog))
				hostileCall(o, cur, line, "self-referential operand of end"+blk, func() {
					intp := postscript.NewInterpreter()
					intp.MaxOps = 100000
					intp.Execute(strings.NewReader(prog))
				})
				res, _, _ := runProgram(100000, false, []byte(prog))
				o.emit(runCaseLine(100000, false, prog), res, true) // and against the model
				o.count("CMap operands that contain themselves")
			}
		}
	}
	for _, depth := range []int{1, 2, 3, 8, 16, 20} {
		hostileFileCase(o, cur, fmt.Sprintf("hostilefile t1chain %d", depth))
		o.count("chains of composites")
	}
	for i := 0; i < nr; i++ {
		seed := r.next() % 1000000007
		kind := pick(r, []string{"t1", "t1", "t1", "cmap", "afm", "pfb"})
		hostileFileCase(o, cur, fmt.Sprintf("hostilefile %s %d", kind, seed))
		o.count("files of kind " + kind)
	}
	os.Remove(cur)
	o.notes = append(o.notes, "fonts written by the independent writer and then sabotaged structurally (no or malformed Encoding, lenIV of every sign/size/type, wrong-typed Private/FontInfo/FontMatrix/FontBBox entries, charstrings and subroutines made of opcode soup with extreme operands, seac/callsubr/callothersubr with arbitrary operands, mutually recursive subroutines), byte damage of clear-text fonts, truncation; CMaps, AFM and PFB files with mutated tokens, numbers and headers; oracle: the reader returns within 60 s without panic")
}

func hostileFileCase(o *suiteOut, cur, line string) {
	f := strings.Split(line, " ")
	var seed uint64
	fmt.Sscan(f[2], &seed)
	r := newRng(seed)
	switch f[1] {
	case "t1":
		data, desc := hostileFont(r)
		hostileCall(o, cur, line, desc, func() {
			font, err := type1.Read(bytes.NewReader(data))
			if err == nil && font != nil {
				// what was read must also be writable and queryable without a crash
				font.GlyphList()
				font.FontBBox()
				font.FontBBoxPDF()
				for _, ff := range allFormats {
					font.Write(io.Discard, &type1.WriterOptions{Format: ff})
				}
			}
		})
		if len(data) < 20000 {
			t1rLine(o, data)
			o.count("sabotaged fonts through the reader model (t1r)")
		}
	case "t1chain":
		// a chain of composites, each with the previous one as base and accent: glyphs A (plain), B = seac(A, A),
		// C = seac(B, B), ...; the result must stay small (resolving composites from resolved composites doubles
		// the outline at every link)
		depth := int(seed)
		rf := &renderFont{FontName: "Chain", Info: [][2]string{{"version", "(1)"}}, FontMatrix: "[0.001 0 0 0.001 0 0]", LenIV: 4, StdEncoding: true,
			Glyphs: map[string][]byte{".notdef": cat(csInt(0), csInt(0), csOp(opHsbw), csOp(opEndchar))}}
		rf.Glyphs["A"] = cat(csInt(0), csInt(500), csOp(opHsbw), csInt(10), csInt(10), csOp(opRmoveto), csInt(100), csOp(opHlineto), csInt(100), csOp(opVlineto), csOp(opClosepath), csOp(opEndchar))
		for k := 1; k <= depth && k < 26; k++ {
			rf.Glyphs[string(rune('A'+k))] = cat(csInt(0), csInt(500+k), csOp(opHsbw), csInt(0), csInt(10), csInt(10), csInt(64+k), csInt(64+k), csOp(opSeac))
		}
		data := rf.render(renderLayout{Format: "clear", IV: [4]byte{1, 2, 3, 4}})
		hostileCall(o, cur, line, fmt.Sprintf("chain of %d composites, %d bytes", depth, len(data)), func() {
			font, err := type1.Read(bytes.NewReader(data))
			if err == nil && font != nil {
				total := 0
				for _, g := range font.Glyphs {
					total += len(g.Cmds)
				}
				if total > 64*len(data) {
					o.fail("C01", "the result of reading a font stays within a small multiple of the input size (no runaway allocation)", line, fmt.Sprint("<= ", 64*len(data), " path commands"), fmt.Sprint(total))
				}
			}
		})
		t1rLine(o, data)
	case "cmap":
		rr := newRng(r.next())
		data := randCMap(rr).render(rr, "none")
		data = mutateTokens(r, data)
		hostileCall(o, cur, line, "mutated CMap", func() { postscript.ReadCMap(bytes.NewReader(data)) })
	case "afm":
		data, _, _ := writeMetrics(randMetrics(newRng(r.next())))
		data = mutateTokens(r, data)
		hostileCall(o, cur, line, "mutated AFM", func() {
			m, err := afm.Read(bytes.NewReader(data))
			if err == nil && m != nil {
				m.GlyphList()
				m.FontBBoxPDF()
				m.Write(io.Discard)
			}
		})
	case "pfb":
		var b []byte
		for k := r.rangeInt(0, 4); k > 0; k-- {
			l := pick(r, []int{0, 1, 2, 5, 100, 1 << 16, 1 << 24, 0x7fffffff, 0xffffffff})
			b = append(b, pick(r, []byte{0x80, 0x80, 0x80, 0x7f, 0}), pick(r, []byte{1, 2, 3, 0, 4, 255}), byte(l), byte(l>>8), byte(l>>16), byte(l>>24))
			for j := r.intn(40); j > 0; j-- {
				b = append(b, byte(r.intn(256)))
			}
		}
		hostileCall(o, cur, line, "PFB headers", func() {
			rd := pfb.Decode(bytes.NewReader(b))
			buf := make([]byte, pick(r, []int{1, 2, 3, 7, 512}))
			for i := 0; i < 1000000; i++ {
				if _, err := rd.Read(buf); err != nil {
					break
				}
			}
		})
	}
}

// mutateTokens damages a text file token-wise: replaces, drops or duplicates tokens, puts extreme numbers in
func mutateTokens(r *rng, data []byte) []byte {
	lines := strings.Split(string(data), "\n")
	for k := r.rangeInt(1, 5); k > 0 && len(lines) > 0; k-- {
		i := r.intn(len(lines))
		toks := strings.Fields(lines[i])
		if len(toks) == 0 {
			continue
		}
		j := r.intn(len(toks))
		switch r.intn(6) {
		case 0:
			toks[j] = pick(r, []string{"9223372036854775807", "-9223372036854775808", "1e308", "-1", "0", "101", "100", "65536", "NaN", "1e-400", "99999999999999999999"})
		case 1:
			toks = append(toks[:j], toks[j+1:]...)
		case 2:
			toks = append(toks, toks[j])
		case 3:
			toks[j] = pick(r, []string{"<>", "<00>", "<FFFFFFFFFF>", "(", ")", "[", "]", "<<", ">>", "{", "}", "/", "%", ";", "C", "WX", "N", "B", "L", "KPX"})
		case 4:
			toks[j] = strings.Repeat(toks[j], pick(r, []int{2, 100, 5000}))
		default:
			lines = append(lines[:i], lines[i+1:]...)
			continue
		}
		lines[i] = strings.Join(toks, " ")
	}
	out := strings.Join(lines, "\n")
	if r.chance(1, 6) {
		out = out[:r.intn(len(out)+1)]
	}
	return []byte(out)
}

func init() {
	suites["hostilefiles"] = suiteHostileFiles
	replayers["hostilefile"] = func(o *suiteOut, line string) {
		hostileFileCase(o, filepath.Join(o.dir, "hostilefiles.current"), line)
	}
}
