package main

import (
	"encoding/hex"
	"fmt"
	"math"
	"math/big"
	"sort"
	"strings"

	"seehuhn.de/go/postscript/type1"
)

// fontCanon is the canonical one-line text of a font, the format of the `t1r` verb (lean/Driver/T1ReadDriver.lean)
func fontCanon(f *type1.Font) string {
	hx := func(s string) string {
		if s == "" {
			return "-"
		}
		return hex.EncodeToString([]byte(s))
	}
	num := func(x float64) string {
		switch {
		case math.IsNaN(x):
			return "nan"
		case math.IsInf(x, 1):
			return "+inf"
		case math.IsInf(x, -1):
			return "-inf"
		}
		return new(big.Rat).SetFloat64(x).RatString()
	}
	join := func(n int, sep string, at func(i int) string) string {
		if n == 0 {
			return "-"
		}
		parts := make([]string, n)
		for i := range parts {
			parts[i] = at(i)
		}
		return strings.Join(parts, sep)
	}
	fi, p := f.FontInfo, f.Private
	var sb strings.Builder
	fmt.Fprintf(&sb, "name=%s version=%s notice=%s copyright=%s fullname=%s family=%s weight=%s", hx(fi.FontName), hx(fi.Version),
		hx(fi.Notice), hx(fi.Copyright), hx(fi.FullName), hx(fi.FamilyName), hx(fi.Weight))
	fmt.Fprintf(&sb, " italic=%s fixed=%v ulpos=%s ulthick=%s matrix=%s", num(fi.ItalicAngle), fi.IsFixedPitch,
		num(float64(fi.UnderlinePosition)), num(float64(fi.UnderlineThickness)), join(6, ",", func(i int) string { return num(fi.FontMatrix[i]) }))
	fmt.Fprintf(&sb, " bv=%s ob=%s bs=%s bsh=%d bf=%d hw=%s vw=%s fb=%v", join(len(p.BlueValues), ",", func(i int) string { return fmt.Sprint(int(p.BlueValues[i])) }),
		join(len(p.OtherBlues), ",", func(i int) string { return fmt.Sprint(int(p.OtherBlues[i])) }), num(p.BlueScale), p.BlueShift, p.BlueFuzz,
		num(p.StdHW), num(p.StdVW), p.ForceBold)
	if len(f.Encoding) == 0 {
		sb.WriteString(" enc=none")
	} else {
		sb.WriteString(" enc=" + join(len(f.Encoding), ",", func(i int) string { return hx(f.Encoding[i]) }))
	}
	names := make([]string, 0, len(f.Glyphs))
	for n := range f.Glyphs {
		names = append(names, n)
	}
	sort.Strings(names)
	sb.WriteString(" glyphs=" + join(len(names), "|", func(i int) string {
		g := f.Glyphs[names[i]]
		cmd := func(k int) string {
			c := g.Cmds[k]
			if c.Op == type1.OpClosePath {
				return "z"
			}
			return string("?mlc"[c.Op]) + "_" + join(len(c.Args), "_", func(j int) string { return num(c.Args[j]) })
		}
		return fmt.Sprintf("%s:w=%s,%s:hs=%s:vs=%s:c=%s", hx(names[i]), num(g.WidthX), num(g.WidthY),
			join(len(g.HStem), ",", func(j int) string { return fmt.Sprint(int(g.HStem[j])) }),
			join(len(g.VStem), ",", func(j int) string { return fmt.Sprint(int(g.VStem[j])) }), join(len(g.Cmds), ";", cmd))
	}))
	return sb.String()
}

// t1rLine emits one `t1r` case: the whole reader (interpreter, extraction of the font dictionaries, charstring
// decoding, composites) in the Lean model against type1.Read
func t1rLine(o *suiteOut, data []byte) {
	line := "t1r " + hex.EncodeToString(data)
	got, err, pan := readFont(data)
	switch {
	case pan != "":
		o.emit(line, "panic:"+strings.ReplaceAll(pan, "\n", " "), true)
	case err != nil:
		o.emit(line, "error", false)
	default:
		o.emit(line, "ok "+fontCanon(got), true)
	}
}
