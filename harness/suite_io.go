package main

// Suites over delivery and failure of I/O and over histories:
// `sched` (C12), `faults` (C13), `determinism` (C17), `isolation` and `race` (C18).
// These are direct (metamorphic) oracles on the real code; the case lines are
// oracle-only (`skip` in the model stream).

import (
	"bytes"
	"crypto/sha256"
	"errors"
	"fmt"
	"io"
	"math"
	"os"
	"os/exec"
	"regexp"
	"runtime"
	"sort"
	"strconv"
	"strings"
	"sync"

	"seehuhn.de/go/geom/rect"
	"seehuhn.de/go/postscript"
	"seehuhn.de/go/postscript/afm"
	"seehuhn.de/go/postscript/pfb"
	"seehuhn.de/go/postscript/type1"
	"seehuhn.de/go/postscript/type1/names"
)

type input struct {
	kind string // ps cmap t1 afm pfb
	data []byte
	desc string
}

func fontString(f *type1.Font) string {
	var sb strings.Builder
	fmt.Fprintf(&sb, "%+v|%+v|%v|%v|", *f.FontInfo, *f.Private, f.Encoding, f.CreationDate.UTC())
	var ns []string
	for n := range f.Glyphs {
		ns = append(ns, n)
	}
	sort.Strings(ns)
	for _, n := range ns {
		fmt.Fprintf(&sb, "%s=%+v;", n, *f.Glyphs[n])
	}
	return sb.String()
}

func metricsString(m *afm.Metrics) string {
	var sb strings.Builder
	c := *m
	c.Glyphs, c.Kern = nil, nil
	fmt.Fprintf(&sb, "%+v|", c)
	var ns []string
	for n := range m.Glyphs {
		ns = append(ns, n)
	}
	sort.Strings(ns)
	for _, n := range ns {
		g := m.Glyphs[n]
		var ls []string
		for k, v := range g.Ligatures {
			ls = append(ls, k+">"+v)
		}
		sort.Strings(ls)
		fmt.Fprintf(&sb, "%s=%v %v %v;", n, g.WidthX, g.BBox, ls)
	}
	for _, k := range m.Kern {
		fmt.Fprintf(&sb, "%v;", *k)
	}
	return sb.String()
}

// runInput applies the reading API of the input's kind to a reader and gives a
// canonical result (value or error class).
func runInput(kind string, rd io.Reader) (res string) {
	defer func() {
		if r := recover(); r != nil {
			res = "panic:" + fmt.Sprint(r)
		}
	}()
	switch kind {
	case "ps", "psc":
		intp := postscript.NewInterpreter()
		c := newCanon(intp)
		intp.MaxOps = 200000
		intp.CheckStart = kind == "psc"
		return c.render(errClass(intp.Execute(rd)))
	case "cmap":
		d, err := postscript.ReadCMap(rd)
		if err != nil {
			return "error"
		}
		intp := postscript.NewInterpreter()
		c := newCanon(intp)
		intp.Stack = append(intp.Stack, d)
		return c.render("ok")
	case "t1":
		f, err := type1.Read(rd)
		if err != nil {
			return "error"
		}
		return fontString(f)
	case "afm":
		m, err := afm.Read(rd)
		if err != nil {
			return "error"
		}
		return metricsString(m)
	case "pfb":
		data, err := io.ReadAll(pfb.Decode(rd))
		return fmt.Sprintf("%x|%v", data, err)
	}
	return "?"
}

func inputPool(r *rng, n int) []input {
	var pool []input
	for i := 0; i < n; i++ {
		switch r.intn(9) {
		case 0:
			g := &ctlGen{r: r}
			pool = append(pool, input{"ps", []byte("%!PS\n%%Title: t\n" + g.body(3, false)), "control program"})
		case 1:
			g := &progGen{r: r}
			pool = append(pool, input{"ps", []byte(g.dataProgram(r.rangeInt(5, 60), false) + " (" + strings.Repeat("x", r.intn(1200)) + ") pop"), "data program"})
		case 2:
			c := randCMap(newRng(r.next()))
			pool = append(pool, input{"cmap", c.render(r, "none"), "cmap"})
		case 3, 4:
			f := randFont(newRng(r.next()), r.chance(1, 2))
			ff := pick(r, allFormats)
			d, _, _ := writeFont(f, ff)
			pool = append(pool, input{"t1", d, "font " + formatName(ff)})
		case 5:
			rr := newRng(r.next())
			mf := randModelFont(rr)
			d, desc := mf.render(rr)
			pool = append(pool, input{"t1", d, "independent font " + desc})
		case 6:
			rr := newRng(r.next())
			m := randMetrics(rr)
			d, _, _ := writeMetrics(m)
			switch rr.intn(3) {
			case 0:
				// the layout of another writer: indentation, field order, CR LF
				pool = append(pool, input{"afm", renderAFM(rr, m), "afm, independent layout"})
			case 1:
				// keys of the AFM format the library does not use itself: hexadecimal codes, vertical widths, comments
				x := bytes.ReplaceAll(d, []byte("\nC "), []byte("\nCH <"))
				x = regexp.MustCompile(`(?m)^CH <(-?\d+) ;`).ReplaceAllFunc(x, func(b []byte) []byte {
					v, _ := strconv.Atoi(string(b[4 : len(b)-2]))
					if v < 0 {
						return []byte("C -1 ;")
					}
					return []byte(fmt.Sprintf("CH <%02X> ; W0X 5 ; VV 1 2 ;", v))
				})
				pool = append(pool, input{"afm", x, "afm with CH <hex> codes"})
			default:
				pool = append(pool, input{"afm", d, "afm"})
			}
		case 7:
			var segs []pfbSeg
			for k := r.intn(5); k > 0; k-- {
				d := make([]byte, r.intn(700))
				for j := range d {
					d[j] = byte(r.intn(256))
				}
				segs = append(segs, pfbSeg{byte(1 + r.intn(2)), d})
			}
			if r.chance(1, 3) {
				pool = append(pool, input{"pfb", pfbFrame(segs), "pfb without end marker"})
			} else {
				pool = append(pool, input{"pfb", append(pfbFrame(segs), 0x80, 3), "pfb"})
			}
		default:
			// an eexec program
			body := []byte("/a 1 def /b (xyz) def 3 4 add mark currentfile closefile\n")
			c := cipherEncrypt(55665, append([]byte{1, 2, 3, 200}, body...))
			var b bytes.Buffer
			b.WriteString("%!PS\ncurrentfile eexec\n")
			if r.chance(1, 2) {
				b.WriteString(hexArmour(r, c))
			} else {
				b.Write(c)
			}
			b.WriteString("\n" + strings.Repeat("0", 64) + "\ncleartomark\n")
			pool = append(pool, input{"ps", b.Bytes(), "eexec program"})
		}
	}
	// always present: a small AFM file with hexadecimal codes (CH), vertical widths and a comment inside the metrics
	pool = append(pool, input{"afm", []byte("StartFontMetrics 4.1\nFontName T\nFullName T\nStartCharMetrics 3\nCH <41> ; WX 600 ; N A ; B 0 0 500 700 ;\n" +
		"CH <42> ; W0X 610 ; N B ; B 0 0 510 700 ; L i fi ;\nComment between\nC -1 ; WX 250 ; N space ; B 0 0 0 0 ;\nEndCharMetrics\nEndFontMetrics\n"), "afm with CH <hex> codes (every split)"})
	return pool
}

// ---- readers with delivery schedules

type chunkedReader struct {
	data    []byte
	next    func(remaining int) int // bytes to deliver (>=1)
	eofWith bool                    // deliver the last bytes together with io.EOF
}

func (c *chunkedReader) Read(p []byte) (int, error) {
	if len(c.data) == 0 {
		return 0, io.EOF
	}
	if len(p) == 0 {
		return 0, nil
	}
	n := c.next(len(c.data))
	if n < 1 {
		n = 1
	}
	if n > len(p) {
		n = len(p)
	}
	if n > len(c.data) {
		n = len(c.data)
	}
	copy(p, c.data[:n])
	c.data = c.data[n:]
	if len(c.data) == 0 && c.eofWith {
		return n, io.EOF
	}
	return n, nil
}

type notSeekable struct{ r io.Reader }

func (n notSeekable) Read(p []byte) (int, error) { return n.r.Read(p) }

// seekFails has a Seek method that always fails, like an *os.File that is a pipe
type seekFails struct{ r io.Reader }

func (n seekFails) Read(p []byte) (int, error) { return n.r.Read(p) }
func (n seekFails) Seek(int64, int) (int64, error) {
	return 0, errors.New("seek: illegal seek")
}

func schedCase(o *suiteOut, in input, sched string, rd io.Reader, base string, idx int) {
	line := fmt.Sprintf("sched %s %d %s", in.kind, idx, sched)
	got := runInput(in.kind, rd)
	if strings.HasPrefix(got, "panic") {
		o.fail("C01", "no panic", line+" ("+in.desc+")", "result", got[:min(len(got), 200)])
	}
	if got != base {
		o.fail("C12", "the result does not depend on how the input stream is delivered", line+" ("+in.desc+", "+fmt.Sprint(len(in.data))+" bytes)", base[:min(len(base), 300)], got[:min(len(got), 300)])
	}
	o.emit(line, "skip", got != "error")
}

func suiteSched(o *suiteOut, r *rng, tier string, n int) {
	np := 60
	if tier == "thorough" {
		np = 400
	}
	if n > 0 {
		np = n
	}
	pool := inputPool(r, np)
	// inputs ending in the middle of a look-ahead: the scanner peeks two bytes after '<', '>' and at the
	// start check, four at `eexec`
	for _, p := range []string{"1 >x 2", "1 >", "1 > ", ">", "1 <", "1 <<", "1 <~", "(abc", "/", "/a", "1 2 add %", "1 2 add\r", "<41", "<~87cUR", "{ 1", "1 }",
		"currentfile eexec", "currentfile eexec ab", "currentfile eexec abc", "currentfile eexec \x01\x02\x03", "1 >x 2 >> 3 >", "1 currentfile eexec 982db53daa467azz 99 "} {
		pool = append(pool, input{"ps", []byte(p), "fixed program"})
	}
	// structured comments with %%+ continuations: the scanner looks three bytes ahead at every line start
	for _, p := range []string{"%!PS-Adobe-3.0\n%%Title: Test\n%%+ Font\n1 2 add\n", "%%A: 1\n%%+ 2\n%%+ 3\n%%B: x\n%%+\n1\n", "%%A: 1\r%%+ 2\r\n%%+3\n% c\n%%%\n%%+ z\n2 3\n",
		"1 2\n%%Key: v\n%+ no\n%%+ yes\n%%", "%%A: 1\n%%+ 2"} {
		pool = append(pool, input{"ps", []byte(p), "DSC with continuation lines"})
	}
	// long binary strings read with readstring at the very end of the input, and AFM files with the three line-end
	// conventions: under every two-chunk split
	{
		bin := make([]byte, 600)
		for i := range bin {
			bin[i] = byte(i*7 + 3)
		}
		pool = append(pool, input{"ps", append([]byte("/s currentfile 600 string readstring\n"), bin...), "every split"})
		pool = append(pool, input{"ps", append(append([]byte("currentfile 520 string readstring "), bin[:520]...), []byte(" pop length")...), "every split"})
		pool = append(pool, input{"ps", append([]byte("currentfile 600 string readstring "), bin[:300]...), "every split"})
		for _, p := range []string{"%!\ncurrentfile 3 string readstring ab\r%%Title: x\npop pop 7\n", "currentfile 2 string readstring \r\n%%A: b\npop pop\n",
			"currentfile 4 string readstring abc\r%%A: b\r%%+ c\npop pop\n", "currentfile 1 string readstring x\r\n%%K: v\n pop pop %%L: w\n%%M: u\n"} {
			pool = append(pool, input{"ps", []byte(p), "every split"})
		}
		mm := randMetrics(newRng(11))
		at, _, _ := writeMetrics(mm)
		if len(at) > 1400 {
			at = append(at[:1000:1000], []byte("\nEndCharMetrics\nEndFontMetrics\n")...)
		}
		pool = append(pool, input{"afm", bytes.ReplaceAll(at, []byte("\n"), []byte("\r")), "every split"})
		pool = append(pool, input{"afm", bytes.ReplaceAll(at, []byte("\n"), []byte("\r\n")), "every split"})
		pool = append(pool, input{"afm", at, "every split"})
	}
	for _, p := range []string{"xyz", "x", "", "%", "%!", "%!PS\n1 2", "%x", "% !", "%!\n>x"} {
		pool = append(pool, input{"psc", []byte(p), "start check"})
	}
	var wg sync.WaitGroup
	sem := make(chan struct{}, runtime.NumCPU())
	for idx, in := range pool {
		idx, in, r := idx, in, newRng(r.next())
		wg.Add(1)
		sem <- struct{}{}
		go func() {
			defer func() { <-sem; wg.Done() }()
			base := runInput(in.kind, bytes.NewReader(in.data))
			o.count("inputs of kind " + in.kind)
			cp := func() []byte { return append([]byte{}, in.data...) }
			schedCase(o, in, "one-byte", &chunkedReader{data: cp(), next: func(int) int { return 1 }}, base, idx)
			schedCase(o, in, "one-byte+eof", &chunkedReader{data: cp(), next: func(int) int { return 1 }, eofWith: true}, base, idx)
			schedCase(o, in, "all+eof", &chunkedReader{data: cp(), next: func(rem int) int { return rem }, eofWith: true}, base, idx)
			schedCase(o, in, "not-seekable", notSeekable{bytes.NewReader(in.data)}, base, idx)
			schedCase(o, in, "seek-fails", seekFails{bytes.NewReader(in.data)}, base, idx)
			{
				// a seekable source that does not start at offset 0 (a font inside a container file)
				junk := []byte("JUNK-BEFORE-THE-DATA\x00\x80\x01%!")
				sr := bytes.NewReader(append(append([]byte{}, junk...), in.data...))
				sr.Seek(int64(len(junk)), io.SeekStart)
				schedCase(o, in, "seekable-at-offset", sr, base, idx)
			}
			for k := 0; k < 3; k++ {
				rr := newRng(r.next())
				schedCase(o, in, fmt.Sprintf("random-%d", k), &chunkedReader{data: cp(), next: func(int) int { return pick(rr, []int{1, 2, 3, 7, 64, 511, 512, 513, 4000}) }, eofWith: rr.chance(1, 2)}, base, idx)
			}
			// two-chunk splits: every position for short inputs, a sample otherwise
			var cuts []int
			if len(in.data) <= 400 || in.desc == "every split" && len(in.data) <= 1500 || tier == "thorough" && len(in.data) <= 3000 {
				for k := 0; k <= len(in.data); k++ {
					cuts = append(cuts, k)
				}
			} else {
				cuts = []int{0, 1, 2, 511, 512, 513, 1023, 1024, 1025, len(in.data) - 1, len(in.data)}
				for k := 0; k < 25; k++ {
					cuts = append(cuts, r.intn(len(in.data)+1))
				}
			}
			for _, k := range cuts {
				if k < 0 || k > len(in.data) {
					continue
				}
				first := true
				kk := k
				// the second chunk arrives alone or together with the end-of-file indication
				schedCase(o, in, fmt.Sprintf("split-%d", k), &chunkedReader{data: cp(), eofWith: k%2 == 1, next: func(rem int) int {
					if first && kk > 0 {
						first = false
						return kk
					}
					return rem
				}}, base, idx)
			}
		}()
	}
	wg.Wait()
	// AFM files whose last line has 2^k bytes and no line end, or 2^k - 1 bytes and a bare CR (buffers grow by
	// doubling; a limit on the line length would sit at such a size): delivered whole, whole with EOF, and in 64 kB pieces
	maxK := 24
	if tier == "thorough" {
		maxK = 26
	}
	for k := 16; k <= maxK; k++ {
		for vi, tail := range []string{"", "\r"} {
			head := "StartFontMetrics 4.1\nFontName T\nFullName T\n"
			data := []byte(head + "Notice " + strings.Repeat("y", (1<<k)-len("Notice ")-len(tail)) + tail)
			in := input{"afm", data, fmt.Sprintf("last line of 2^%d bytes", k)}
			base := runInput("afm", bytes.NewReader(data))
			idx := 100000 + 2*k + vi
			schedCase(o, in, "all+eof", &chunkedReader{data: data, next: func(rem int) int { return rem }, eofWith: true}, base, idx)
			schedCase(o, in, "64k", &chunkedReader{data: data, next: func(int) int { return 65536 }}, base, idx)
			schedCase(o, in, "64k+eof", &chunkedReader{data: data, next: func(int) int { return 65536 }, eofWith: true}, base, idx)
			schedCase(o, in, "not-seekable", notSeekable{bytes.NewReader(data)}, base, idx)
			if base == "error" {
				o.fail("C12", "an AFM file with a long last line is read", fmt.Sprintf("sched afm %d base", idx), "metrics", "error")
			}
			o.count("AFM files with a last line of 2^k bytes")
		}
	}
	// a program fed in several consecutive Execute calls, split at token boundaries
	ns := 300
	if tier == "thorough" {
		ns = 10000
	}
	for i := 0; i < ns; i++ {
		var toks []string
		if r.chance(1, 2) {
			g := &ctlGen{r: r}
			toks = strings.Fields(g.body(3, false))
		} else {
			g := &progGen{r: r}
			toks = strings.Fields(g.dataProgram(r.rangeInt(5, 40), false))
		}
		// strings with spaces were split by Fields: rebuild a token list by re-joining parenthesised parts
		toks = rejoinStrings(toks)
		whole := strings.Join(toks, "\n")
		run := func(parts []string) string {
			intp := postscript.NewInterpreter()
			c := newCanon(intp)
			intp.MaxOps = 200000
			var err error
			for _, p := range parts {
				err = func() (e error) {
					defer func() {
						if r := recover(); r != nil {
							e = errors.New("panic")
						}
					}()
					return intp.ExecuteString(p)
				}()
				if err != nil {
					break
				}
			}
			return c.render(errClass(err))
		}
		base := run([]string{whole})
		if !strings.HasPrefix(base, "ok") {
			continue // after an error or stop the remaining calls would still run: only complete programs are split
		}
		k := r.rangeInt(1, 3)
		cutSet := map[int]bool{}
		for j := 0; j < k && len(toks) > 1; j++ {
			cutSet[r.rangeInt(1, len(toks)-1)] = true
		}
		var parts []string
		last := 0
		for j := 1; j < len(toks); j++ {
			if cutSet[j] {
				parts = append(parts, strings.Join(toks[last:j], "\n"))
				last = j
			}
		}
		parts = append(parts, strings.Join(toks[last:], "\n"))
		line := fmt.Sprintf("sched split-execute %d %d", i, len(parts))
		got := run(parts)
		// NumOps and the state must agree; `stop` inside an earlier part ends only that call
		if got != base && !strings.Contains(whole, "stop") {
			o.fail("C12", "feeding a program in several Execute calls split at token boundaries equals one call", line+" parts="+fmt.Sprintf("%q", parts), base[:min(len(base), 300)], got[:min(len(got), 300)])
		}
		o.emit(line, "skip", true)
		runsLine(o, 200000, false, parts) // the same history through the Lean model
		o.count("split executions")
	}
	for hi, parts := range [][]string{
		{"%%A: 1\n1", "%%B: 2\n2"}, {"%!PS\n%%Title: t\n/a 1 def", "%%Pages: 3\n%%+ more\na", "%%EOF\n"}, {"1 2", "%%X: y\n", "add"},
		{"%%First: a\n{ 1", "%%Inside: b\n2 add } exec", "%%Last: c\n"},
		{"%%Title: x\n1 2 add\n", "foo\n"}, {"%%A: 1\n1\n", "%%B: 2\n(a) 1 add\n"},
	} {
		whole := strings.Join(parts, "\n")
		one := runsLine(o, 200000, false, []string{whole})
		many := runsLine(o, 200000, false, parts)
		if one != many {
			o.fail("C12", "feeding a program in several Execute calls split at token boundaries equals one call (DSC comments)", fmt.Sprintf("sched split-dsc %d %q", hi, parts), one[:min(len(one), 400)], many[:min(len(many), 400)])
		}
		o.count("split executions with DSC comments")
	}
	// CMap files fed in two or three calls, cut at any line boundary (in particular between `n begin...` and the
	// matching `end...`: the entry count and the block state live in the interpreter between the calls)
	for ci := 0; ci < 6; ci++ {
		rr := newRng(r.next())
		c := randCMap(rr)
		data := string(c.render(newRng(3), "none"))
		data = strings.ReplaceAll(data, " % c\n", "\n")
		lines := strings.SplitAfter(data, "\n")
		one := runsLine(o, 1000000, false, []string{data})
		for cut := 1; cut < len(lines); cut++ {
			if strings.HasPrefix(lines[cut], "%%") && !strings.HasSuffix(lines[cut-1], "\n") {
				continue
			}
			if strings.HasPrefix(lines[cut], "%%+") {
				continue
			}
			parts := []string{strings.Join(lines[:cut], ""), strings.Join(lines[cut:], "")}
			if cut+3 < len(lines) && cut%3 == 0 {
				parts = []string{strings.Join(lines[:cut], ""), strings.Join(lines[cut:cut+3], ""), strings.Join(lines[cut+3:], "")}
			}
			many := runsLine(o, 1000000, false, parts)
			if one != many {
				o.fail("C12", "feeding a CMap file in several Execute calls split at line boundaries equals one call", fmt.Sprintf("sched split-cmap %d %d", ci, cut), one[:min(len(one), 300)], many[:min(len(many), 300)])
			}
			o.count("CMap files split between calls")
		}
	}
	// the parts concatenated as they are: what ends with each call - the scanner's column (a split in the middle of a
	// line, before a comment), a pending %%+ continuation, and `stop`
	for hi, parts := range [][]string{
		{"1 ", "%%Title: x\n2"}, {"1 ", "% plain\n2"}, {"1\t", "%%Title: x\n2"}, {"/a 1 def ", "%%+ more\na"},
		{"%%A: 1\n", "%%+ 2\n"}, {"1 stop", " 2"}, {"1 2 add\n", "3\n"}, {"%%A: 1\n1\n", "%%+ 2\n"},
	} {
		one := runsLine(o, 200000, false, []string{strings.Join(parts, "")})
		many := runsLine(o, 200000, false, parts)
		if one != many {
			o.fail("C12", "feeding a program in several Execute calls split at token boundaries equals one call (what ends with each call: column, %%+ continuation, stop)", fmt.Sprintf("sched split-midline %d %q", hi, parts), one[:min(len(one), 400)], many[:min(len(many), 400)])
		}
		o.count("split executions: what ends with each call")
	}
	o.notes = append(o.notes, "inputs of every kind (programs incl. eexec sections, CMaps, fonts in four formats and from the independent writer, AFM, PFB) under delivery schedules: one byte at a time, data together with EOF, random chunk sizes around the 512-byte buffer, every two-chunk split position (short inputs) or sampled positions, non-seekable source; programs fed in 2-4 Execute calls split at token boundaries (also inside open procedure bodies); oracle: identical result to the single-read run")
}

func rejoinStrings(toks []string) []string {
	var out []string
	depth := 0
	cur := ""
	for _, t := range toks {
		if depth > 0 {
			cur += " " + t
		} else {
			cur = t
		}
		depth += strings.Count(t, "(") - strings.Count(t, ")")
		if depth <= 0 {
			depth = 0
			out = append(out, cur)
		}
	}
	if depth > 0 {
		out = append(out, cur)
	}
	return out
}

// ---------------------------------------------------------------- faults (C13)

var errInjected = &faultError{tag: "injected"}

type faultReader struct {
	data   []byte
	failAt int
	pos    int
	issued bool
	// with: the error is reported once, together with the last bytes before the fault; afterwards the
	// reader answers io.EOF (a one-shot fault)
	with bool
	done bool
	// sticky: the error is repeated on later calls (readers built on io.ReadFull rely on that: the standard
	// library drops an error that arrives together with the last requested byte)
	sticky bool
	// err: the error the fault reports (default errInjected); an error that wraps io.EOF without being io.EOF
	// ("connection closed: EOF") is a fault like any other
	err error
}

var errWrappedEOF = fmt.Errorf("connection closed: %w", io.EOF)

func (f *faultReader) fault() error {
	if f.err != nil {
		return f.err
	}
	return errInjected
}

func (f *faultReader) Read(p []byte) (int, error) {
	if f.done {
		if f.sticky {
			return 0, f.fault()
		}
		return 0, io.EOF
	}
	if f.pos >= f.failAt {
		f.issued = true
		if f.with {
			f.done = true
		}
		return 0, f.fault()
	}
	n := copy(p, f.data[f.pos:f.failAt])
	f.pos += n
	if f.with && f.pos >= f.failAt {
		f.issued, f.done = true, true
		return n, f.fault()
	}
	return n, nil
}

type faultWriter struct {
	calls    int
	failCall int // fail at this call index (-1 = never)
	shortAt  int // total byte offset at which a short write happens (-1 = never)
	written  int
}

func (w *faultWriter) Write(p []byte) (int, error) {
	if w.calls == w.failCall {
		w.calls++
		return 0, errInjected
	}
	w.calls++
	if w.shortAt >= 0 && w.written+len(p) > w.shortAt {
		n := w.shortAt - w.written
		w.written += n
		w.shortAt = -1
		return n, io.ErrShortWrite
	}
	w.written += len(p)
	return len(p), nil
}

func suiteFaults(o *suiteOut, r *rng, tier string, n int) {
	np := 24
	if tier == "thorough" {
		np = 400
	}
	if n > 0 {
		np = n
	}
	pool := inputPool(r, np)
	for idx, in := range pool {
		full := runInput(in.kind, bytes.NewReader(in.data))
		o.count("inputs of kind " + in.kind)
		step := 1
		if len(in.data) > 1500 && tier != "thorough" {
			step = len(in.data) / 700
		}
		for k := 0; k <= len(in.data); k += step {
			// a read fault at offset k
			fr := &faultReader{data: in.data, failAt: k, with: k%3 == 1, sticky: in.kind != "ps" && in.kind != "cmap"}
			if k%4 == 2 {
				fr.err = errWrappedEOF
			}
			if k%4 == 3 && k < len(in.data) {
				// a source may fail with this very value (a truncated stream below it); at offset len the PFB decoder
				// takes it for a short end-of-file record (13.9), so that offset is left out
				fr.err = io.ErrUnexpectedEOF
			}
			got := runInput(in.kind, fr)
			line := fmt.Sprintf("fault read %s %d %d with=%v wrapped-eof=%v", in.kind, idx, k, fr.with, fr.err != nil)
			if strings.HasPrefix(got, "panic") {
				o.fail("C13", "a read fault causes no panic", line, "error", got[:min(200, len(got))])
			}
			isErr := got == "error" || (in.kind == "ps" && !strings.HasPrefix(got, "ok")) || (in.kind == "pfb" && !strings.HasSuffix(got, "|<nil>"))
			selfEnding := in.kind == "ps" && (bytes.Contains(in.data, []byte("stop")) || bytes.Contains(in.data, []byte("closefile")))
			if fr.issued && !isErr && !selfEnding {
				// the failing Read was issued and its error swallowed (a run ended by `stop`/closefile never issues it)
				o.fail("C13", "a read fault at any offset surfaces as an error", line+" ("+in.desc+")", "error", got[:min(200, len(got))])
			}
			o.emit(line, "skip", isErr)
			// truncation at offset k: an error or the complete result
			if in.kind == "t1" || in.kind == "cmap" {
				tr := runInput(in.kind, bytes.NewReader(in.data[:k]))
				line := fmt.Sprintf("fault trunc %s %d %d", in.kind, idx, k)
				if tr != "error" && tr != full {
					o.fail("C13", "a file cut off at any offset yields an error or the complete result", line+" ("+in.desc+")", "error or full result", tr[:min(300, len(tr))])
				}
				o.emit(line, "skip", tr == "error")
			}
		}
	}
	// write faults: every write call index and sampled byte offsets (short writes)
	nw := 12
	if tier == "thorough" {
		nw = 200
	}
	for i := 0; i < nw; i++ {
		f := randFont(newRng(r.next()), true)
		m := randMetrics(newRng(r.next()))
		type wr struct {
			name string
			fn   func(w io.Writer) error
		}
		var ws []wr
		for _, ff := range allFormats {
			ff := ff
			ws = append(ws, wr{"font-" + formatName(ff), func(w io.Writer) error { return f.Write(w, &type1.WriterOptions{Format: ff}) }})
		}
		// the hex writer flushes per line: more fonts in the hex form so that every alignment of the last line occurs
		for k := 0; k < 6; k++ {
			g := randFont(newRng(r.next()), true)
			ws = append(ws, wr{"font-pfa", func(w io.Writer) error { return g.Write(w, &type1.WriterOptions{Format: type1.FormatPFA}) }})
		}
		{
			// one glyph whose charstring is longer than the writers' internal buffers (512 bytes)
			lg := randFont(newRng(r.next()), true)
			long := &type1.Glyph{WidthX: 500, Cmds: []type1.GlyphOp{{Op: type1.OpMoveTo, Args: []float64{0, 0}}}}
			for k := 1; k <= 140+40*(i%3); k++ {
				long.Cmds = append(long.Cmds, type1.GlyphOp{Op: type1.OpLineTo, Args: []float64{float64(3 * k), float64((k * 37) % 101)}})
			}
			long.Cmds = append(long.Cmds, type1.GlyphOp{Op: type1.OpClosePath})
			lg.Glyphs["long"] = long
			for _, ff := range allFormats {
				ff := ff
				ws = append(ws, wr{"longglyph-" + formatName(ff), func(w io.Writer) error { return lg.Write(w, &type1.WriterOptions{Format: ff}) }})
			}
			ws = append(ws, wr{"longglyph-pdf", func(w io.Writer) error { _, _, err := lg.WritePDF(w); return err }})
		}
		if i == 0 {
			// a font whose encrypted section has more than 64 kB (and more than 128 kB): length fields above 16 bits,
			// writers that work in blocks
			bf, _, _ := fontFromCase([]string{"t1rt", fmt.Sprint(r.next() % 1000000007), "bigint", "pfb"})
			for _, ff := range allFormats {
				ff := ff
				ws = append(ws, wr{"bigfont-" + formatName(ff), func(w io.Writer) error { return bf.Write(w, &type1.WriterOptions{Format: ff}) }})
			}
			ws = append(ws, wr{"bigfont-pdf", func(w io.Writer) error { _, _, err := bf.WritePDF(w); return err }})
		}
		ws = append(ws, wr{"font-pdf", func(w io.Writer) error { _, _, err := f.WritePDF(w); return err }})
		ws = append(ws, wr{"afm", func(w io.Writer) error { return m.Write(w) }})
		for _, w := range ws {
			dry := &faultWriter{failCall: -1, shortAt: -1}
			if err := w.fn(dry); err != nil {
				o.fail("C13", "writing to a good writer succeeds", "fault write "+w.name, "nil", err.Error())
				continue
			}
			for c := 0; c < dry.calls; c++ {
				if strings.HasPrefix(w.name, "bigfont") && dry.calls > 60 && c >= 20 && c < dry.calls-20 && c%(dry.calls/20) != 0 {
					continue // a big font through a writer that flushes line by line: the first and last 20 calls and 20 in between
				}
				fw := &faultWriter{failCall: c, shortAt: -1}
				err := safeErr(func() error { return w.fn(fw) })
				line := fmt.Sprintf("fault write %s %d call %d/%d", w.name, i, c, dry.calls)
				if err == nil {
					o.fail("C13", "a write fault at any write call surfaces as an error", line, "error", "nil")
				} else if err.Error() == "panic" {
					o.fail("C13", "a write fault causes no panic", line, "error", "panic")
				}
				o.emit(line, "skip", true)
			}
			for k := 0; k < 12; k++ {
				off := r.intn(dry.written + 1)
				if k == 0 {
					off = 0
				}
				if off >= dry.written {
					continue
				}
				fw := &faultWriter{failCall: -1, shortAt: off}
				err := safeErr(func() error { return w.fn(fw) })
				line := fmt.Sprintf("fault short %s %d offset %d/%d", w.name, i, off, dry.written)
				if err == nil {
					o.fail("C13", "a short write at any byte offset surfaces as an error", line, "error", "nil")
				}
				o.emit(line, "skip", true)
			}
			o.count("writers " + w.name)
		}
	}
	o.notes = append(o.notes, "for each input a read fault at every byte offset (step > 1 only for inputs above 1.5 kB in the quick tier) and, for fonts and CMaps, a truncation at every offset; for each font/metrics value and output form a fault at every write call index and short writes at sampled byte offsets; complete per input/value (fault enumeration)")
}

func safeErr(f func() error) (err error) {
	defer func() {
		if r := recover(); r != nil {
			err = errors.New("panic")
		}
	}()
	return f()
}

// ---------------------------------------------------------------- determinism (C17)

func detOutputs(seed uint64, count int) []string {
	r := newRng(seed)
	var out []string
	// reading the same CMap bytes twice gives the same result even if the file writes into the procedure set
	{
		leak := "/CIDInit /ProcSet findresource begin\n12 dict begin begincmap\n/CMapName /Leak def\n" +
			"/CMapType /CIDInit /ProcSet findresource /leak__ known { 1 } { 0 } ifelse def\n" +
			"/CIDInit /ProcSet findresource /leak__ true put\n/CIDInit /ProcSet findresource /endbfchar { stop } put\n" +
			"1 begincodespacerange <00> <ff> endcodespacerange\nendcmap CMapName currentdict /CMap defineresource pop end end\n"
		out = append(out, fmt.Sprintf("cmap-leak:%x", sha256.Sum256([]byte(runInput("cmap", strings.NewReader(leak))))))
	}
	// the very first look-ups of a process (lazily loaded tables) answer like every later one
	out = append(out, fmt.Sprintf("names-first:%v %v %v %v", names.ToUnicode("dalethatafpatah", false), names.ToUnicode("a7_a8", true), names.FromUnicode(0x05D3), names.ToUnicode("Aacute", false)))
	// programs whose result depends on the order in which forall visits a dictionary
	for pi, prog := range []string{"<< /a 1 /b 2 /c 3 /d 4 >> { pop exit } forall", "<< /N1 1 /N2 2 /N3 3 /N4 4 /N5 5 /N6 6 >> { pop exit } forall",
		"[ << /q 1 /w 2 /e 3 /r 4 /t 5 /y 6 >> { pop } forall ]", "systemdict { pop exit } forall", "[ errordict { pop } forall ]"} {
		res, _, _ := runProgram(100000, false, []byte(prog))
		out = append(out, fmt.Sprintf("forall%d:%x", pi, sha256.Sum256([]byte(res))))
	}
	{
		// a CMap file that picks its name inside such a loop
		c := randCMap(newRng(5))
		c.name = "Picked"
		data := bytes.Replace(c.render(newRng(5), "none"), []byte("/CMapName /Picked def"), []byte("<< /N1 1 /N2 2 /N3 3 /N4 4 /N5 5 >> { pop /CMapName exch def exit } forall"), 1)
		out = append(out, fmt.Sprintf("cmap-forall:%x", sha256.Sum256([]byte(runInput("cmap", bytes.NewReader(data))))))
	}
	for i := 0; i < count; i++ {
		f := randFont(newRng(r.next()), false)
		for _, g := range f.Glyphs {
			_ = g
		}
		for _, ff := range allFormats {
			d, _, _ := writeFont(f, ff)
			out = append(out, fmt.Sprintf("font%d-%s:%x", i, formatName(ff), sha256.Sum256(d)))
		}
		var b bytes.Buffer
		l1, l2, _ := f.WritePDF(&b)
		out = append(out, fmt.Sprintf("font%d-pdf:%d,%d,%x", i, l1, l2, sha256.Sum256(b.Bytes())))
		out = append(out, fmt.Sprintf("font%d-q:%v|%v|%v|%v", i, f.GlyphList(), f.FontBBox(), f.FontBBoxPDF(), f.NumGlyphs()))
		{
			// a font with a NaN coordinate in one glyph (a charstring can produce one with `0 0 div`): the font boxes
			// must not depend on the order in which the glyph map is visited
			nf := randFont(newRng(r.next()), false)
			var nn []string
			for n, g := range nf.Glyphs {
				if len(g.Cmds) > 0 && len(g.Cmds[0].Args) > 0 {
					nn = append(nn, n)
				}
			}
			sort.Strings(nn)
			if len(nn) > 0 {
				g := nf.Glyphs[nn[i%len(nn)]]
				g.Cmds[0].Args[0] = math.NaN()
				out = append(out, fmt.Sprintf("font%d-nan:%v|%v", i, nf.FontBBox(), nf.FontBBoxPDF()))
			}
		}
		m := randMetrics(newRng(r.next()))
		// every number of ligatures per glyph (0, 1, 2, 3, ... 7), glyphs visited in name order
		var gnames []string
		for n := range m.Glyphs {
			gnames = append(gnames, n)
		}
		sort.Strings(gnames)
		for gi, n := range gnames {
			g := m.Glyphs[n]
			g.Ligatures = nil
			for k := 0; k < gi%8; k++ {
				if g.Ligatures == nil {
					g.Ligatures = map[string]string{}
				}
				g.Ligatures[fmt.Sprintf("s%d", (k*5+gi)%11)] = fmt.Sprintf("l%d", k)
			}
		}
		// kerning pairs without effect (adjustment 0) at the front, in the middle and at the end of the list
		if len(gnames) > 1 {
			zero := func() *afm.KernPair {
				return &afm.KernPair{Left: gnames[i%len(gnames)], Right: gnames[(i+1)%len(gnames)], Adjust: 0}
			}
			mid := len(m.Kern) / 2
			kern := append([]*afm.KernPair{zero()}, m.Kern[:mid]...)
			kern = append(append(kern, zero()), m.Kern[mid:]...)
			m.Kern = append(kern, zero())
		}
		d, _, _ := writeMetrics(m)
		out = append(out, fmt.Sprintf("afm%d:%x|%v|%v", i, sha256.Sum256(d), m.GlyphList(), m.FontBBoxPDF()))
		// the same value written again and again
		for k := 0; k < 3; k++ {
			if again, _, _ := writeMetrics(m); !bytes.Equal(d, again) {
				out = append(out, fmt.Sprintf("afm%d-write-%d-of-the-same-value:DIFFERS(%d vs %d bytes)", i, k+2, len(d), len(again)))
			}
		}
		for _, ff := range allFormats {
			d1, _, _ := writeFont(f, ff)
			for k := 0; k < 2; k++ {
				if again, _, _ := writeFont(f, ff); !bytes.Equal(d1, again) {
					out = append(out, fmt.Sprintf("font%d-%s-write-%d-of-the-same-value:DIFFERS(%d vs %d bytes)", i, formatName(ff), k+2, len(d1), len(again)))
				}
			}
		}
		{
			// metrics with degenerate boxes (inverted, NaN: afm.Read accepts them): the union must not depend on the
			// order in which the glyph map is visited
			dm := randMetrics(newRng(r.next()))
			for gi, n := range gnames {
				if g := dm.Glyphs[n]; g != nil {
					switch gi % 5 {
					case 0:
						g.BBox = rect.Rect{LLx: 1, LLy: 1, URx: 0, URy: 0}
					case 1:
						g.BBox = rect.Rect{LLx: 0, LLy: 0, URx: -1, URy: -1}
					case 2:
						g.BBox = rect.Rect{LLx: math.NaN(), LLy: 0, URx: 10, URy: 10}
					}
				}
			}
			dd, _, _ := writeMetrics(dm)
			out = append(out, fmt.Sprintf("afm-degenerate%d:%x|%v", i, sha256.Sum256(dd), dm.FontBBoxPDF()))
		}
		// a file with three CMaps, one of them under the empty name (the smallest name there is)
		{
			rr := newRng(r.next())
			var buf bytes.Buffer
			for _, nm := range []string{"Beta", "", "Alpha"} {
				c := randCMap(rr)
				c.name = nm
				buf.Write(c.render(rr, "none"))
			}
			out = append(out, fmt.Sprintf("cmap-emptyname%d:%x", i, sha256.Sum256([]byte(runInput("cmap", bytes.NewReader(buf.Bytes()))))))
		}
		// files with several CMaps
		rr := newRng(r.next())
		var buf bytes.Buffer
		for k := 0; k < 4; k++ {
			c := randCMap(rr)
			c.name = fmt.Sprintf("N%d", rr.intn(1000))
			buf.Write(c.render(rr, "none"))
		}
		out = append(out, fmt.Sprintf("cmap%d:%x", i, sha256.Sum256([]byte(runInput("cmap", bytes.NewReader(buf.Bytes()))))))
		fd, _, _ := writeFont(f, type1.FormatPFA)
		out = append(out, fmt.Sprintf("read%d:%x", i, sha256.Sum256([]byte(runInput("t1", bytes.NewReader(fd))))))
		// a file defining two fonts: whatever the reader does with it, it does it every time
		f2 := randFont(newRng(r.next()), true)
		f2.FontInfo.FontName = "Second"
		fd2, _, _ := writeFont(f2, type1.FormatNoEExec)
		fd1, _, _ := writeFont(f, type1.FormatNoEExec)
		out = append(out, fmt.Sprintf("read2fonts%d:%x", i, sha256.Sum256([]byte(runInput("t1", bytes.NewReader(append(append([]byte{}, fd1...), fd2...)))))))
		// a font the writers refuse (glyph names that are no PostScript names, several of them): what was written
		// before the refusal, and the error that reports it, are the same every time
		{
			bf := randFont(newRng(r.next()), true)
			for _, bad := range []string{"A B", "f(i)", "one/two", "x{y", "per%cent", ""} {
				bf.Glyphs[bad] = &type1.Glyph{WidthX: 100}
			}
			for _, ff := range allFormats {
				var b bytes.Buffer
				err := safeErr(func() error { return bf.Write(&b, &type1.WriterOptions{Format: ff}) })
				out = append(out, fmt.Sprintf("badnames%d-%s:%x|%v", i, formatName(ff), sha256.Sum256(b.Bytes()), err))
			}
			var b bytes.Buffer
			var l1, l2 int
			err := safeErr(func() (e error) { l1, l2, e = bf.WritePDF(&b); return })
			out = append(out, fmt.Sprintf("badnames%d-pdf:%x|%d,%d|%v", i, sha256.Sum256(b.Bytes()), l1, l2, err))
			bm := randMetrics(newRng(r.next()))
			for _, bad := range []string{"A B", "semi;colon", ""} {
				bm.Glyphs[bad] = &afm.GlyphInfo{WidthX: 100}
			}
			var mb bytes.Buffer
			merr := safeErr(func() error { return bm.Write(&mb) })
			out = append(out, fmt.Sprintf("badnames%d-afm:%x|%v", i, sha256.Sum256(mb.Bytes()), merr))
		}
		// ... and a file in which two different fonts carry the same /FontName, the second registered under another key
		f3 := randFont(newRng(r.next()), true)
		f3.FontInfo.FontName = f.FontInfo.FontName
		fd3, _, _ := writeFont(f3, type1.FormatNoEExec)
		fd3 = bytes.Replace(fd3, []byte("dup /FontName get exch definefont pop"), []byte("/Other-Key exch definefont pop"), 1)
		out = append(out, fmt.Sprintf("read2fonts-samename%d:%x", i, sha256.Sum256([]byte(runInput("t1", bytes.NewReader(append(append([]byte{}, fd1...), fd3...)))))))
		// history: a write that fails half-way must not influence the next write
		if i < 3 {
			for _, ff := range allFormats {
				good, _, _ := writeFont(f, ff)
				for _, off := range []int{0, 1, len(good) / 3, len(good) / 2, len(good) - 600, len(good) - 300, len(good) - 40, len(good) - 1} {
					if off < 0 {
						continue
					}
					safeErr(func() error {
						return f.Write(&faultWriter{failCall: -1, shortAt: off}, &type1.WriterOptions{Format: ff})
					})
					again, _, _ := writeFont(f, ff)
					if !bytes.Equal(good, again) {
						out = append(out, fmt.Sprintf("font%d-%s-after-failed-write-at-%d:DIFFERS(%d vs %d bytes)", i, formatName(ff), off, len(good), len(again)))
					}
				}
				var pb bytes.Buffer
				f.WritePDF(&pb)
				safeErr(func() error { _, _, err := f.WritePDF(&faultWriter{failCall: -1, shortAt: pb.Len() - 100}); return err })
				var pb2 bytes.Buffer
				f.WritePDF(&pb2)
				if !bytes.Equal(pb.Bytes(), pb2.Bytes()) {
					out = append(out, fmt.Sprintf("font%d-pdf-after-failed-write:DIFFERS", i))
				}
			}
		}
	}
	return out
}

func suiteDeterminism(o *suiteOut, r *rng, tier string, n int) {
	count, procs, reps := 10, 4, 12
	if tier == "thorough" {
		count, procs, reps = 120, 8, 20
	}
	seed := r.next() % 1000000007
	base := detOutputs(seed, count)
	for i, b := range base {
		if strings.Contains(b, "DIFFERS") {
			o.fail("C17", "writing the same font twice produces byte-identical output, whatever happened in between", fmt.Sprintf("det history %d", i), "identical", b)
		}
	}
	for rep := 1; rep < reps; rep++ {
		again := detOutputs(seed, count)
		for i := range base {
			line := fmt.Sprintf("det inprocess %d %d", rep, i)
			got := "<missing>"
			if i < len(again) {
				got = again[i]
			}
			if got != base[i] {
				o.fail("C17", "the same call twice in one process gives identical output", line, base[i], got)
			}
			o.emit(line, "skip", true)
		}
		if len(again) != len(base) {
			o.fail("C17", "the same call twice in one process gives identical output", fmt.Sprintf("det inprocess %d", rep), fmt.Sprint(len(base), " outputs"), fmt.Sprint(len(again), " outputs"))
		}
	}
	o.count("in-process repetitions")
	self, _ := os.Executable()
	for p := 0; p < procs; p++ {
		cmd := exec.Command(self, "detchild", "-seed", fmt.Sprint(seed), "-n", fmt.Sprint(count))
		outB, err := cmd.Output()
		line := fmt.Sprintf("det process %d", p)
		if err != nil {
			o.fail("C17", "child process runs", line, "exit 0", err.Error())
			continue
		}
		lines := strings.Split(strings.TrimSpace(string(outB)), "\n")
		for i := range base {
			if i >= len(lines) || lines[i] != base[i] {
				got := "<missing>"
				if i < len(lines) {
					got = lines[i]
				}
				o.fail("C17", "the same call in different processes gives identical output", fmt.Sprintf("%s item %d", line, i), base[i], got)
			}
		}
		o.emit(line, "skip", true)
		o.count("child processes")
	}
	o.notes = append(o.notes, "fonts (4 formats + PDF form, glyph list, font boxes), metrics with six ligatures per glyph, files with four CMaps, font reads: outputs hashed and compared across repetitions in one process (Go randomises map iteration per range statement) and across fresh processes (different hash seeds)")
}

// ---------------------------------------------------------------- isolation and races (C18)

var hostilePrograms = []string{
	// writing into the objects that operators hand out (each call must have made a new one)
	"matrix dup 0 42 put dup 3 /evil put pop 1 0 idiv", "matrix 0 /x put matrix 5 (s) put", "6 array dup 0 /evil put pop 3 string dup 0 88 put pop 2 dict dup /evil 1 put pop",
	"userdict /evil 1 put currentdict /evil2 2 put 1183615869 internaldict /evil3 3 put FontDirectory /evil4 4 put",
	// in-place changes of every array, procedure and string that is the value of an entry of a built-in dictionary
	// (replacing an entry only changes this interpreter's dictionary; writing into a shared value would change all)
	"/CIDInit /ProcSet findresource { exch pop dup type /arraytype eq { dup length 0 ne { dup 0 /stop load put } if } if pop } forall",
	"/CIDInit /ProcSet findresource { exch pop dup type /arraytype eq { dup length 0 ne { dup 0 42 put } if } if pop } forall",
	"systemdict { exch pop dup type /arraytype eq { dup length 0 ne { dup 0 /hacked put } if } if pop } forall",
	"errordict { exch pop dup type /arraytype eq { dup length 0 ne { dup 0 /stop load put } if } if pop } forall",
	"systemdict { exch pop dup type /stringtype eq { dup length 0 ne { dup 0 88 put } if } if pop } forall userdict { exch pop dup type /dicttype eq { /leak 1 put } { pop } ifelse } forall",
	"systemdict { exch pop dup type /dicttype eq { { exch pop dup type /arraytype eq { dup length 0 ne { dup 0 /deep put } if } if pop } forall } { pop } ifelse } forall",
	"systemdict /add { sub } put systemdict /def 5 put",
	"systemdict /dup 7 put /pop {stop} def systemdict /systemdict 0 put",
	"StandardEncoding 65 /hacked put StandardEncoding 32 /x put",
	"0 1 255 { StandardEncoding exch /zzz put } for",
	"/CIDInit /ProcSet findresource /begincmap { stop } put",
	"/CIDInit /ProcSet findresource dup /endcmap 1 put /begincidrange { pop } put",
	"errordict /typecheck { pop pop 42 } put errordict /undefined { } put (a) 1 add foo",
	"errordict /stackunderflow 7 put pop",
	"userdict /A 1 put FontDirectory /Fake << /FontType 1 >> put",
	"/F << /FontType 1 >> definefont pop /X << >> /Font defineresource pop",
	"/CIDInit /ProcSet findresource begin 12 dict begin begincmap /CMapName /Evil def endcmap CMapName currentdict /CMap defineresource pop end end",
	"1183615869 internaldict /secret 1 put",
	"systemdict /true false put systemdict /false true put",
	"systemdict { pop pop } forall systemdict /eexec { } put 1 2 3 (unterminated",
	"{ userdict begin } loop",
	"/CIDInit 5 /ProcSet defineresource pop",
	"/Font 5 /ProcSet defineresource pop /CMap << >> /Category defineresource",
	"currentfile eexec zzzz",
	"\n\n\n{ 1 pop } loop", "\n{ } loop", "\n\n\n\n\n\n/f { f 1 pop } def { f } loop",
}

// deepDump writes everything reachable from a fresh interpreter's dictionaries, including the elements of arrays
// and procedures that are values of entries (a shared object mutated in place shows here)
func deepDump(sb *strings.Builder, v postscript.Object, depth int, seen map[string]bool) {
	if depth > 6 {
		sb.WriteString("...")
		return
	}
	switch v := v.(type) {
	case postscript.Dict:
		id := fmt.Sprintf("%p", v)
		if seen[id] {
			sb.WriteString("<seen>")
			return
		}
		seen[id] = true
		keys := make([]string, 0, len(v))
		for k := range v {
			keys = append(keys, string(k))
		}
		sort.Strings(keys)
		sb.WriteString("<<")
		for _, k := range keys {
			sb.WriteString("/" + k + " ")
			deepDump(sb, v[postscript.Name(k)], depth+1, seen)
			sb.WriteString(" ")
		}
		sb.WriteString(">>")
	case postscript.Array:
		sb.WriteString("[")
		for _, e := range v {
			deepDump(sb, e, depth+1, seen)
			sb.WriteString(" ")
		}
		sb.WriteString("]")
	case postscript.Procedure:
		sb.WriteString("{")
		for _, e := range v {
			deepDump(sb, e, depth+1, seen)
			sb.WriteString(" ")
		}
		sb.WriteString("}")
	case postscript.String:
		fmt.Fprintf(sb, "(%x)", []byte(v))
	case postscript.Integer, postscript.Real, postscript.Boolean, postscript.Name, postscript.Operator:
		fmt.Fprintf(sb, "%T:%v", v, v)
	case nil:
		sb.WriteString("nil")
	default:
		fmt.Fprintf(sb, "%T", v) // builtins and other opaque values: the type only
	}
}

func probeResults() string {
	var sb strings.Builder
	{
		intp := postscript.NewInterpreter()
		seen := map[string]bool{}
		deepDump(&sb, intp.SystemDict, 0, seen)
		deepDump(&sb, intp.Resources, 0, seen)
		sb.WriteString("\n")
	}
	for _, p := range []string{"%%Title: probe\n%%Pages: 3\n%%+ more\n1", "1 2 add", "5 3 sub dup mul", "StandardEncoding 65 get StandardEncoding 32 get", "true false and", "/x 1 def x", "(a) 1 add",
		"/CIDInit /ProcSet findresource begin 12 dict begin begincmap /CMapName /P def 1 begincodespacerange <00> <ff> endcodespacerange 1 begincidrange <00> <10> 5 endcidrange endcmap CMapName currentdict /CMap defineresource pop end end /P /CMap findresource /CodeMap get type",
		"FontDirectory length userdict length errordict length systemdict length", "/Fake findfont", "matrix", "matrix matrix eq", "matrix dup 0 7 put matrix", "6 array 3 string 2 dict length", "currentdict length",
		"/CIDInit /ProcSet findresource length", "[ 1 2 ] ( ) << >> length", "1183615869 internaldict length", "foo", "pop"} {
		res, _, _ := runProgram(100000, false, []byte(p))
		sb.WriteString(res + "\n")
	}
	rr := newRng(12345)
	c := randCMap(rr)
	sb.WriteString(runInput("cmap", bytes.NewReader(c.render(rr, "none"))) + "\n")
	f := randFont(newRng(99), false)
	for _, ff := range allFormats {
		d, _, _ := writeFont(f, ff)
		fmt.Fprintf(&sb, "%x\n", sha256.Sum256(d))
		sb.WriteString(runInput("t1", bytes.NewReader(d)) + "\n")
	}
	mf := randModelFont(rr)
	d, _ := mf.render(rr)
	sb.WriteString(runInput("t1", bytes.NewReader(d)) + "\n")
	m := randMetrics(newRng(7))
	md, _, _ := writeMetrics(m)
	fmt.Fprintf(&sb, "%x\n", sha256.Sum256(md))
	sb.WriteString(runInput("afm", bytes.NewReader(md)) + "\n")
	fmt.Fprintf(&sb, "%v %v %v %v\n", names.ToUnicode("A_uni0042.alt", false), names.FromUnicode(0x1F600), names.IsValid("a.b"), names.ToUnicode("a100", true))
	// the text of the shared budget error, from interpreter runs and from the readers
	{
		intp := postscript.NewInterpreter()
		intp.MaxOps = 10
		fmt.Fprintf(&sb, "%v|", intp.ExecuteString("\n\n{ 1 pop } loop"))
		_, err := postscript.ReadCMap(strings.NewReader("{ 1 pop } loop"))
		fmt.Fprintf(&sb, "%v|%v\n", err, postscript.ErrExecutionLimitExceeded)
	}
	// writer options are read, never written: a caller's value and the package default stay as they are
	{
		opt := &type1.WriterOptions{}
		var b1, b2 bytes.Buffer
		e1 := f.Write(&b1, opt)
		e2 := f.Write(&b2, nil)
		fmt.Fprintf(&sb, "%v %v %+v %x %x\n", e1, e2, *opt, sha256.Sum256(b1.Bytes()), sha256.Sum256(b2.Bytes()))
	}
	return sb.String()
}

func suiteIsolation(o *suiteOut, r *rng, tier string, n int) {
	{
		// values handed in by the caller are read, never written (they may be shared between goroutines)
		f := randFont(newRng(5), false)
		opt := &type1.WriterOptions{}
		f.Write(io.Discard, opt)
		f.Write(io.Discard, nil)
		f.Write(io.Discard, opt)
		if *opt != (type1.WriterOptions{}) {
			o.fail("C18", "a caller's options value is not written to by Font.Write", "iso options", fmt.Sprintf("%+v", type1.WriterOptions{}), fmt.Sprintf("%+v", *opt))
		}
		o.emit("iso options", "skip", true)
	}
	before := probeResults()
	progs := append([]string{}, hostilePrograms...)
	extra := 200
	if tier == "thorough" {
		extra = 8000
	}
	for i := 0; i < extra; i++ {
		var toks []string
		for k := r.rangeInt(1, 5); k > 0; k-- {
			target := pick(r, []string{"systemdict", "errordict", "userdict", "FontDirectory", "StandardEncoding", "/CIDInit /ProcSet findresource"})
			key := pick(r, []string{"/add", "/def", "/begincmap", "/endcmap", "/typecheck", "/undefined", "/dup", "/findresource", "/systemdict", "/StandardEncoding", "65", "0"})
			val := pick(r, []string{"5", "{ stop }", "{ }", "(s)", "/n", "[1]", "true"})
			toks = append(toks, fmt.Sprintf("%s %s %s put", target, key, val))
		}
		if r.chance(1, 3) {
			toks = append(toks, pick(r, []string{"(a) 1 add", "foo", "stop", "(", "{"}))
		}
		progs = append(progs, strings.Join(toks, " "))
	}
	for i, p := range progs {
		res, _, _ := runProgram(100000, false, []byte(p))
		_ = res
		if i%20 == 0 || i < len(hostilePrograms) {
			after := probeResults()
			line := fmt.Sprintf("iso %d %s", i, hx([]byte(p)))
			if after != before {
				o.fail("C18", "a fresh interpreter and every reader and writer behave as if the hostile program had never run", line, firstDiff(before, after, true), firstDiff(before, after, false))
			}
			o.emit(line, "skip", true)
		}
		o.count("hostile programs")
	}
	// programs that fail inside an encrypted section: out of budget, a type error, a stack overflow, a user error handler
	for i, inner := range []string{"{ 1 pop } loop", "(a) 1 add", "{ 1 } loop", "/p { p } def p", "errordict /typecheck { stop } put (a) 1 add", "foo", "1 0 idiv", "stop"} {
		cipher := cipherEncrypt(55665, append([]byte{1, 2, 3, 200}, []byte(inner+"\n")...))
		for _, prog := range [][]byte{append([]byte("currentfile eexec "), cipher...), append([]byte("1 1 3 { pop } for currentfile eexec\n"), []byte(fmt.Sprintf("%X", cipher))...)} {
			for _, budget := range []int{100000, 7, 50} {
				runProgram(budget, false, prog)
			}
			runInput("t1", bytes.NewReader(append([]byte("%!PS-AdobeFont-1.0: X\n"), prog...)))
			runInput("cmap", bytes.NewReader(append([]byte("%!PS-Adobe-3.0 Resource-CMap\n"), prog...)))
		}
		after := probeResults()
		line := fmt.Sprintf("iso eexec-failure %d %s", i, hx([]byte(inner)))
		if after != before {
			o.fail("C18", "a fresh interpreter and every reader and writer behave as if the failing encrypted section had never been run", line, firstDiff(before, after, true), firstDiff(before, after, false))
		}
		o.emit(line, "skip", true)
		o.count("failures inside an eexec section")
	}
	// library calls of every kind between two probes: what one call does with a font, metrics or options value must
	// not show in calls on other values
	{
		of := randFont(newRng(4711), false)
		om := randMetrics(newRng(4712))
		calls := []struct {
			name string
			fn   func()
		}{
			{"WritePDF of another font", func() { of.WritePDF(io.Discard) }},
			{"Write of another font with every format", func() {
				for _, ff := range allFormats {
					of.Write(io.Discard, &type1.WriterOptions{Format: ff})
				}
			}},
			{"Write with nil options, then WritePDF, then nil options", func() { of.Write(io.Discard, nil); of.WritePDF(io.Discard); of.Write(io.Discard, nil) }},
			{"WritePDF into a failing writer", func() {
				safeErr(func() error { _, _, err := of.WritePDF(&faultWriter{failCall: 3, shortAt: -1}); return err })
			}},
			{"Write into a failing writer", func() {
				for _, ff := range allFormats {
					safeErr(func() error {
						return of.Write(&faultWriter{failCall: 2, shortAt: -1}, &type1.WriterOptions{Format: ff})
					})
				}
			}},
			{"AFM Write of other metrics, also into a failing writer", func() {
				om.Write(io.Discard)
				safeErr(func() error { return om.Write(&faultWriter{failCall: 2, shortAt: -1}) })
			}},
			{"queries on another font and other metrics", func() {
				of.GlyphList()
				of.FontBBox()
				of.FontBBoxPDF()
				of.WidthsMapPDF()
				om.GlyphList()
				om.FontBBoxPDF()
			}},
			{"reads of damaged files", func() {
				d, _, _ := writeFont(of, type1.FormatPFB)
				for _, cut := range []int{1, 7, len(d) / 2, len(d) - 3} {
					runInput("t1", bytes.NewReader(d[:cut]))
				}
				md, _, _ := writeMetrics(om)
				runInput("afm", bytes.NewReader(md[:len(md)/2]))
				runInput("cmap", strings.NewReader("/CIDInit /ProcSet findresource begin 12 dict begin begincmap 1 begincidchar <00> endcidchar"))
			}},
			{"name look-ups", func() {
				for _, n := range []string{"uni0041D800", "dalethatafpatah", "f_f_i.alt", "u1F600", "Tcommaaccent", ""} {
					names.ToUnicode(n, false)
					names.ToUnicode(n, true)
				}
				names.FromUnicode(0x10FFFF)
			}},
		}
		for i, c := range calls {
			c.fn()
			after := probeResults()
			line := fmt.Sprintf("iso libcall %d", i)
			if after != before {
				o.fail("C18", "library calls on one value leave every later call on other values as it was ("+c.name+")", line, firstDiff(before, after, true), firstDiff(before, after, false))
			}
			o.emit(line, "skip", true)
			o.count("library calls between two probes")
		}
	}
	o.notes = append(o.notes, "hostile programs (redefining and overwriting system operators, StandardEncoding slots, the CIDInit procedure set, errordict entries, resource categories; failing half-way) run on one interpreter; a probe workload (fresh interpreters on twelve programs incl. a CMap definition, ReadCMap, fonts written in four formats and read back, an independently written font, AFM write/read, name look-ups) is repeated afterwards and must reproduce the results obtained before")
}

func firstDiff(a, b string, first bool) string {
	al, bl := strings.Split(a, "\n"), strings.Split(b, "\n")
	for i := range al {
		if i >= len(bl) || al[i] != bl[i] {
			if first {
				return al[i][:min(300, len(al[i]))]
			}
			if i < len(bl) {
				return bl[i][:min(300, len(bl[i]))]
			}
			return "<missing>"
		}
	}
	return ""
}

// suiteRace is meant to run in the binary built with -race: goroutines mix all
// entry points; results must equal the sequential ones (and the race detector
// must stay silent: a report makes the process exit with status 66).
var sharedZeroOptions = &type1.WriterOptions{}

func suiteRace(o *suiteOut, r *rng, tier string, n int) {
	workers, rounds := 8, 6
	if tier == "thorough" {
		workers, rounds = 16, 40
	}
	type job struct {
		name string
		fn   func() string
	}
	var jobs []job
	for i := 0; i < 6; i++ {
		seed := r.next()
		jobs = append(jobs, job{fmt.Sprintf("font-%d", i), func() string {
			f := randFont(newRng(seed), false)
			var sb strings.Builder
			for _, ff := range allFormats {
				d, _, _ := writeFont(f, ff)
				sb.WriteString(runInput("t1", bytes.NewReader(d)))
			}
			return sb.String()
		}})
		jobs = append(jobs, job{fmt.Sprintf("write-default-%d", i), func() string {
			f := randFont(newRng(seed), false)
			var b1, b2 bytes.Buffer
			f.Write(&b1, nil)
			f.Write(&b2, sharedZeroOptions)
			return fmt.Sprintf("%x %x %+v", sha256.Sum256(b1.Bytes()), sha256.Sum256(b2.Bytes()), *sharedZeroOptions)
		}})
		jobs = append(jobs, job{fmt.Sprintf("limit-%d", i), func() string {
			intp := postscript.NewInterpreter()
			intp.MaxOps = 50 + i
			return fmt.Sprint(intp.ExecuteString(strings.Repeat("\n", i)+"{ 1 pop } loop"), intp.NumOps)
		}})
		jobs = append(jobs, job{fmt.Sprintf("cmap-%d", i), func() string {
			rr := newRng(seed)
			return runInput("cmap", bytes.NewReader(randCMap(rr).render(rr, "none")))
		}})
		jobs = append(jobs, job{fmt.Sprintf("afm-%d", i), func() string {
			d, _, _ := writeMetrics(randMetrics(newRng(seed)))
			return runInput("afm", bytes.NewReader(d))
		}})
		jobs = append(jobs, job{fmt.Sprintf("names-%d", i), func() string {
			rr := newRng(seed)
			var sb strings.Builder
			for k := 0; k < 200; k++ {
				v := rune(rr.intn(0x3000))
				nm := names.FromUnicode(v)
				fmt.Fprint(&sb, nm, names.ToUnicode(nm, rr.chance(1, 2)), names.IsValid(nm))
			}
			// names whose first component stands for several characters, with different tails: a result a caller
			// holds must not change when other names are looked up (the tables' own slices are never handed out)
			for k := 0; k < 40; k++ {
				first := pick(rr, []string{"lamedholamdagesh", "dalethatafpatah", "finalkafqamats", "rehatafsegol", "f_f_i", "a100", "uni004100420043", "A"})
				tail1, tail2 := string(rune('a'+rr.intn(26))), string(rune('A'+rr.intn(26)))
				held := names.ToUnicode(first+"_"+tail1, false)
				want := fmt.Sprint(held)
				other := names.ToUnicode(first+"_"+tail2, false)
				if fmt.Sprint(held) != want {
					fmt.Fprint(&sb, "CHANGED-UNDER-THE-CALLER:", first, tail1, tail2, want, held, other)
				}
				fmt.Fprint(&sb, held, other)
			}
			return sb.String()
		}})
		jobs = append(jobs, job{fmt.Sprintf("ps-%d", i), func() string {
			g := &ctlGen{r: newRng(seed)}
			res, _, _ := runProgram(100000, false, []byte(g.body(3, false)+" "+pick(newRng(seed), hostilePrograms)))
			return res
		}})
	}
	// first use of the glyph-name tables races with everything else: the concurrent phase runs first
	results := make([][]string, workers)
	var wg sync.WaitGroup
	for w := 0; w < workers; w++ {
		wg.Add(1)
		go func(w int) {
			defer wg.Done()
			for round := 0; round < rounds; round++ {
				for j := range jobs {
					k := (j + w*7 + round) % len(jobs)
					results[w] = append(results[w], jobs[k].name+"="+fmt.Sprintf("%x", sha256.Sum256([]byte(jobs[k].fn()))))
				}
			}
		}(w)
	}
	wg.Wait()
	seq := map[string]string{}
	for _, j := range jobs {
		out := j.fn()
		if i := strings.Index(out, "CHANGED-UNDER-THE-CALLER:"); i >= 0 {
			o.fail("C18", "a result handed to a caller does not change when other names are looked up", "iso race "+j.name, "unchanged", out[i:min(len(out), i+200)])
		}
		seq[j.name] = fmt.Sprintf("%x", sha256.Sum256([]byte(out)))
	}
	for w := range results {
		for _, res := range results[w] {
			kv := strings.SplitN(res, "=", 2)
			line := "iso race " + kv[0]
			if seq[kv[0]] != kv[1] {
				o.fail("C18", "concurrent use gives the same results as sequential use", line, seq[kv[0]], kv[1])
			}
			o.emit(line, "skip", true)
		}
	}
	o.count("goroutines")
	o.notes = append(o.notes, "goroutines mixing interpreter runs (incl. hostile programs), CMap/Type 1/AFM reads, all writers and glyph-name look-ups (first use of the lazily initialised tables happens inside the concurrent phase); built with the Go race detector; results are compared with sequential execution")
}

func init() {
	suites["sched"] = suiteSched
	suites["faults"] = suiteFaults
	suites["determinism"] = suiteDeterminism
	suites["isolation"] = suiteIsolation
	suites["race"] = suiteRace
}
