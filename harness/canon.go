package main

// Canonical rendering of an interpreter state.  The same format is produced
// by the Lean driver (Driver/Canon.lean) from the model's state.
//
// Identity of arrays, procedures and strings: Go slices that overlap in
// memory ([ptr, ptr+cap*size)) are views of one store.  Stores and
// dictionaries are numbered in order of first visit; offsets are relative to
// the lowest reachable offset of the store.  Empty views carry no identity.

import (
	"fmt"
	"math"
	"reflect"
	"sort"
	"strings"
	"unsafe"

	"seehuhn.de/go/postscript"
)

type interval struct{ lo, hi uintptr }

type canon struct {
	intp     *postscript.Interpreter
	ivs      []interval // merged, sorted
	storeID  map[uintptr]int
	dictID   map[uintptr]int
	cmapID   map[uintptr]int
	nextID   int
	seenView map[string]bool
	seenDict map[uintptr]bool
	names    map[uintptr]string // builtin func pointer -> id
	sysSnap  map[postscript.Name]postscript.Object
	errSnap  map[postscript.Name]postscript.Object
	cidSnap  map[postscript.Name]postscript.Object
	sysPtr   uintptr
	errPtr   uintptr
	cidPtr   uintptr
	encPtr   uintptr
	encSnap  []postscript.Object
	encArr   postscript.Array
	sb       strings.Builder
}

func typeName(o postscript.Object) string {
	if o == nil {
		return "nil"
	}
	return reflect.TypeOf(o).String()
}

func funcPtr(o postscript.Object) uintptr {
	v := reflect.ValueOf(o)
	if v.Kind() != reflect.Func {
		return 0 // not a builtin: a fresh interpreter whose system dictionary was corrupted through shared state
	}
	return v.Pointer()
}
func mapPtr(d postscript.Dict) uintptr { return reflect.ValueOf(d).Pointer() }

// newCanon must be called on a fresh interpreter, before any program runs.
func newCanon(intp *postscript.Interpreter) *canon {
	c := &canon{intp: intp, names: map[uintptr]string{}}
	c.sysSnap = map[postscript.Name]postscript.Object{}
	for k, v := range intp.SystemDict {
		c.sysSnap[k] = v
		if typeName(v) == "postscript.builtin" {
			c.names[funcPtr(v)] = string(k)
		}
	}
	c.errSnap = map[postscript.Name]postscript.Object{}
	for k, v := range intp.ErrorDict {
		c.errSnap[k] = v
		c.names[funcPtr(v)] = "defaultErrorHandler"
	}
	c.cidSnap = map[postscript.Name]postscript.Object{}
	if ps, ok := intp.Resources["ProcSet"].(postscript.Dict); ok {
		if cid, ok := ps["CIDInit"].(postscript.Dict); ok {
			c.cidPtr = mapPtr(cid)
			for k, v := range cid {
				c.cidSnap[k] = v
				c.names[funcPtr(v)] = "cid:" + string(k)
			}
		}
	}
	c.sysPtr = mapPtr(intp.SystemDict)
	c.errPtr = mapPtr(intp.ErrorDict)
	if enc, ok := intp.SystemDict["StandardEncoding"].(postscript.Array); ok && len(enc) == 256 {
		c.encPtr = uintptr(unsafe.Pointer(unsafe.SliceData(enc)))
		c.encSnap = append([]postscript.Object{}, enc...)
		c.encArr = enc
	}
	return c
}

func esc(s string) string {
	var sb strings.Builder
	for i := 0; i < len(s); i++ {
		b := s[i]
		if b >= 'A' && b <= 'Z' || b >= 'a' && b <= 'z' || b >= '0' && b <= '9' || b == '.' || b == '_' || b == '-' {
			sb.WriteByte(b)
		} else {
			fmt.Fprintf(&sb, "%%%02X", b)
		}
	}
	return sb.String()
}

func sliceExtent(o postscript.Object) (ptr uintptr, n, cp int, size uintptr, ok bool) {
	switch v := o.(type) {
	case postscript.Array:
		return uintptr(unsafe.Pointer(unsafe.SliceData(v))), len(v), cap(v), 16, true
	case postscript.Procedure:
		return uintptr(unsafe.Pointer(unsafe.SliceData(v))), len(v), cap(v), 16, true
	case postscript.String:
		return uintptr(unsafe.Pointer(unsafe.SliceData(v))), len(v), cap(v), 1, true
	}
	return 0, 0, 0, 0, false
}

// ---- pass 1: collect the extents of all reachable views ----

func (c *canon) collect(o postscript.Object, seenD map[uintptr]bool, seenV map[string]bool) {
	switch v := o.(type) {
	case postscript.Array, postscript.Procedure, postscript.String:
		ptr, n, cp, size, _ := sliceExtent(o)
		if n == 0 {
			return
		}
		c.ivs = append(c.ivs, interval{ptr, ptr + uintptr(cp)*size})
		key := fmt.Sprintf("%T%x:%d", o, ptr, n)
		if seenV[key] {
			return
		}
		seenV[key] = true
		switch w := v.(type) {
		case postscript.Array:
			for _, e := range w {
				c.collect(e, seenD, seenV)
			}
		case postscript.Procedure:
			for _, e := range w {
				c.collect(e, seenD, seenV)
			}
		}
	case postscript.Dict:
		p := mapPtr(v)
		if seenD[p] {
			return
		}
		seenD[p] = true
		for _, k := range sortedKeys(v) {
			c.collect(v[k], seenD, seenV)
		}
	case *postscript.CMapInfo:
		p := uintptr(unsafe.Pointer(v))
		if v == nil || seenD[p] {
			return
		}
		seenD[p] = true
		for _, e := range cmapObjects(v) {
			c.collect(e, seenD, seenV)
		}
	}
}

func cmapObjects(m *postscript.CMapInfo) []postscript.Object {
	var res []postscript.Object
	for _, r := range m.CodeSpaceRanges {
		res = append(res, postscript.String(r.Low), postscript.String(r.High))
	}
	chars := func(cs []postscript.CharMap) {
		for _, e := range cs {
			res = append(res, postscript.String(e.Src), e.Dst)
		}
	}
	ranges := func(rs []postscript.RangeMap) {
		for _, e := range rs {
			res = append(res, postscript.String(e.Low), postscript.String(e.High), e.Dst)
		}
	}
	chars(m.CidChars)
	ranges(m.CidRanges)
	chars(m.BfChars)
	ranges(m.BfRanges)
	chars(m.NotdefChars)
	ranges(m.NotdefRanges)
	return res
}

func sortedKeys(d postscript.Dict) []postscript.Name {
	keys := make([]postscript.Name, 0, len(d))
	for k := range d {
		keys = append(keys, k)
	}
	sort.Slice(keys, func(i, j int) bool { return keys[i] < keys[j] })
	return keys
}

func (c *canon) roots() []postscript.Object {
	intp := c.intp
	var r []postscript.Object
	for _, o := range intp.Stack {
		r = append(r, o)
	}
	for _, d := range intp.DictStack {
		r = append(r, d)
	}
	r = append(r, intp.SystemDict, intp.UserDict, intp.ErrorDict, intp.FontDirectory, intp.InternalDict, intp.Resources, c.encArr)
	return r
}

func (c *canon) mergeIntervals() {
	sort.Slice(c.ivs, func(i, j int) bool { return c.ivs[i].lo < c.ivs[j].lo })
	var out []interval
	for _, iv := range c.ivs {
		if len(out) > 0 && iv.lo < out[len(out)-1].hi {
			if iv.hi > out[len(out)-1].hi {
				out[len(out)-1].hi = iv.hi
			}
		} else {
			out = append(out, iv)
		}
	}
	c.ivs = out
}

func (c *canon) storeOf(ptr uintptr) (base uintptr) {
	i := sort.Search(len(c.ivs), func(i int) bool { return c.ivs[i].hi > ptr })
	return c.ivs[i].lo
}

// ---- pass 2: print ----

func (c *canon) id(m map[uintptr]int, key uintptr) int {
	if v, ok := m[key]; ok {
		return v
	}
	c.nextID++
	m[key] = c.nextID
	return c.nextID
}

// strBody prints short strings in hex and long ones as prefix, length and checksum.
func strBody(b []byte) string {
	if len(b) <= 48 {
		return fmt.Sprintf("%x", b)
	}
	sum := 0
	for i, x := range b {
		sum = (sum + int(x)*(i%251+1)) % 1000000007
	}
	return fmt.Sprintf("%x..#%d~%d", b[:16], len(b), sum)
}

func realBits(f float64) string {
	if math.IsNaN(f) {
		return "rnan"
	}
	return fmt.Sprintf("r%016x", math.Float64bits(f))
}

func (c *canon) sameAsSnap(cur, snap postscript.Object) bool {
	if typeName(cur) != typeName(snap) {
		return false
	}
	switch v := cur.(type) {
	case postscript.Dict:
		return mapPtr(v) == mapPtr(snap.(postscript.Dict))
	case postscript.Array:
		w := snap.(postscript.Array)
		return len(v) == len(w) && (len(v) == 0 || unsafe.SliceData(v) == unsafe.SliceData(w))
	case postscript.Boolean:
		return v == snap.(postscript.Boolean)
	}
	if typeName(cur) == "postscript.builtin" {
		return funcPtr(cur) == funcPtr(snap)
	}
	return false
}

func (c *canon) writeDictDiff(tag string, d postscript.Dict, snap map[postscript.Name]postscript.Object) {
	c.sb.WriteString("=" + tag + "{")
	first := true
	for _, k := range sortedKeys(d) {
		if s, ok := snap[k]; ok && c.sameAsSnap(d[k], s) {
			continue
		}
		if !first {
			c.sb.WriteByte(' ')
		}
		first = false
		c.sb.WriteString(esc(string(k)) + ":")
		c.write(d[k])
	}
	c.sb.WriteString("}")
}

func (c *canon) write(o postscript.Object) {
	switch v := o.(type) {
	case nil:
		c.sb.WriteString("-file-")
	case postscript.Integer:
		fmt.Fprintf(&c.sb, "%d", int64(v))
	case postscript.Real:
		c.sb.WriteString(realBits(float64(v)))
	case postscript.Boolean:
		fmt.Fprintf(&c.sb, "%t", bool(v))
	case postscript.Name:
		c.sb.WriteString("/" + esc(string(v)))
	case postscript.Operator:
		c.sb.WriteString("x:" + esc(string(v)))
	case postscript.String:
		if len(v) == 0 {
			c.sb.WriteString("S()")
			return
		}
		ptr, _, _, _, _ := sliceExtent(o)
		base := c.storeOf(ptr)
		fmt.Fprintf(&c.sb, "S%d+%d(%s)", c.id(c.storeID, base), ptr-base, strBody([]byte(v)))
	case postscript.Array, postscript.Procedure:
		ptr, n, _, _, _ := sliceExtent(o)
		letter, open, cl := "A", "[", "]"
		var elems []postscript.Object
		if a, ok := v.(postscript.Array); ok {
			elems = a
		} else {
			letter, open, cl = "P", "{", "}"
			elems = v.(postscript.Procedure)
		}
		if n == 0 {
			c.sb.WriteString(letter + open + cl)
			return
		}
		base := c.storeOf(ptr)
		off := (ptr - base) / 16
		sid := c.id(c.storeID, base)
		key := fmt.Sprintf("%s%d+%d:%d", letter, sid, off, n)
		if c.seenView[key] {
			c.sb.WriteString(key)
			return
		}
		c.seenView[key] = true
		if letter == "A" && ptr == c.encPtr && n == 256 && c.encSnap != nil {
			fmt.Fprintf(&c.sb, "A%d+%d=enc{", sid, off)
			first := true
			for i, e := range elems {
				if nm, ok := e.(postscript.Name); ok && nm == c.encSnap[i] { // the snapshot may itself be corrupted (shared state)
					continue
				}
				if !first {
					c.sb.WriteByte(' ')
				}
				first = false
				fmt.Fprintf(&c.sb, "%d:", i)
				c.write(e)
			}
			c.sb.WriteString("}")
			return
		}
		fmt.Fprintf(&c.sb, "%s%d+%d%s", letter, sid, off, open)
		for i, e := range elems {
			if i > 0 {
				c.sb.WriteByte(' ')
			}
			c.write(e)
		}
		c.sb.WriteString(cl)
	case postscript.Dict:
		p := mapPtr(v)
		fmt.Fprintf(&c.sb, "D%d", c.id(c.dictID, p))
		if c.seenDict[p] {
			return
		}
		c.seenDict[p] = true
		switch p {
		case c.sysPtr:
			c.writeDictDiff("sys", v, c.sysSnap)
		case c.errPtr:
			c.writeDictDiff("err", v, c.errSnap)
		case c.cidPtr:
			c.writeDictDiff("cidinit", v, c.cidSnap)
		default:
			c.sb.WriteString("{")
			for i, k := range sortedKeys(v) {
				if i > 0 {
					c.sb.WriteByte(' ')
				}
				c.sb.WriteString(esc(string(k)) + ":")
				c.write(v[k])
			}
			c.sb.WriteString("}")
		}
	case *postscript.CMapInfo:
		p := uintptr(unsafe.Pointer(v))
		fmt.Fprintf(&c.sb, "C%d", c.id(c.cmapID, p))
		if v == nil || c.seenDict[p] {
			return
		}
		c.seenDict[p] = true
		c.sb.WriteString("{use=" + esc(string(v.UseCMap)) + ";csr=[")
		for i, r := range v.CodeSpaceRanges {
			if i > 0 {
				c.sb.WriteByte(' ')
			}
			c.write(postscript.String(r.Low))
			c.sb.WriteByte('-')
			c.write(postscript.String(r.High))
		}
		chars := func(tag string, cs []postscript.CharMap) {
			c.sb.WriteString("];" + tag + "=[")
			for i, e := range cs {
				if i > 0 {
					c.sb.WriteByte(' ')
				}
				c.write(postscript.String(e.Src))
				c.sb.WriteByte('>')
				c.write(e.Dst)
			}
		}
		ranges := func(tag string, rs []postscript.RangeMap) {
			c.sb.WriteString("];" + tag + "=[")
			for i, e := range rs {
				if i > 0 {
					c.sb.WriteByte(' ')
				}
				c.write(postscript.String(e.Low))
				c.sb.WriteByte('-')
				c.write(postscript.String(e.High))
				c.sb.WriteByte('>')
				c.write(e.Dst)
			}
		}
		chars("cc", v.CidChars)
		ranges("cr", v.CidRanges)
		chars("bc", v.BfChars)
		ranges("br", v.BfRanges)
		chars("nc", v.NotdefChars)
		ranges("nr", v.NotdefRanges)
		c.sb.WriteString("]}")
	default:
		switch typeName(o) {
		case "postscript.builtin":
			name, ok := c.names[funcPtr(o)]
			if !ok {
				name = "?"
			}
			c.sb.WriteString("B:" + name)
		case "postscript.mark":
			c.sb.WriteString("-mark-")
		default:
			c.sb.WriteString("?" + typeName(o))
		}
	}
}

// errClass maps a Go error to the outcome class of the protocol.
func errClass(err error) string {
	if err == nil {
		return "ok"
	}
	if err == postscript.ErrExecutionLimitExceeded {
		return "limit"
	}
	if err == postscript.ErrNoPostScript {
		return "nops"
	}
	if err.Error() == "EOF" {
		return "eof"
	}
	if fe, ok := err.(*faultError); ok {
		return "io:" + fe.tag
	}
	if typeName(err) == "*postscript.postScriptError" {
		msg := err.Error()
		if i := strings.Index(msg, ":"); i > 0 {
			return "err:" + msg[:i]
		}
	}
	return "other"
}

type faultError struct{ tag string }

func (e *faultError) Error() string { return "injected fault " + e.tag }

// render gives the canonical line for the outcome of a run.
func (c *canon) render(outcome string) string {
	intp := c.intp
	c.sb.Reset()
	fmt.Fprintf(&c.sb, "%s n=%d sl=%d dl=%d", outcome, intp.NumOps, len(intp.Stack), len(intp.DictStack))
	if outcome != "ok" {
		return c.sb.String()
	}
	c.ivs = nil
	seenD, seenV := map[uintptr]bool{}, map[string]bool{}
	for _, o := range c.roots() {
		c.collect(o, seenD, seenV)
	}
	c.mergeIntervals()
	c.storeID, c.dictID, c.cmapID = map[uintptr]int{}, map[uintptr]int{}, map[uintptr]int{}
	c.nextID = 0
	c.seenView, c.seenDict = map[string]bool{}, map[uintptr]bool{}
	c.sb.WriteString(" st=[")
	for i, o := range intp.Stack {
		if i > 0 {
			c.sb.WriteByte(' ')
		}
		c.write(o)
	}
	c.sb.WriteString("] ds=[")
	for i, d := range intp.DictStack {
		if i > 0 {
			c.sb.WriteByte(' ')
		}
		c.write(d)
	}
	c.sb.WriteString("] sys=")
	c.write(intp.SystemDict)
	c.sb.WriteString(" user=")
	c.write(intp.UserDict)
	c.sb.WriteString(" err=")
	c.write(intp.ErrorDict)
	c.sb.WriteString(" font=")
	c.write(intp.FontDirectory)
	c.sb.WriteString(" int=")
	c.write(intp.InternalDict)
	c.sb.WriteString(" res=")
	c.write(intp.Resources)
	c.sb.WriteString(" enc=")
	c.write(c.encArr)
	c.sb.WriteString(" dsc=[")
	for i, d := range intp.DSC {
		if i > 0 {
			c.sb.WriteByte(';')
		}
		c.sb.WriteString(esc(d.Key) + "=" + esc(d.Value))
	}
	c.sb.WriteString("]")
	return c.sb.String()
}
