package main

// Suite `writers` (C13, C08): the two buffering stream writers of package type1 (eexecWriter, hexWriter), driven
// through the hooks VerifEexecWriter / VerifHexWriter over an underlying writer that fails at a chosen call.
// cases: `eexecw <failAt|-> <hex chunk>,<hex chunk>,...` and `hexw ...`; the result line is
// `<n of every Write call>;<ok|err>;<blocks accepted by the underlying writer, in hex, separated by |>`.

import (
	"bytes"
	"fmt"
	"strconv"
	"strings"

	"seehuhn.de/go/postscript/type1"
)

type blockWriter struct {
	blocks [][]byte
	calls  int
	failAt int // -1: never
}

func (w *blockWriter) Write(p []byte) (int, error) {
	if w.calls == w.failAt {
		w.calls++
		return 0, errInjected
	}
	w.calls++
	w.blocks = append(w.blocks, append([]byte{}, p...))
	return len(p), nil
}

func runWriterHook(kind string, failAt int, chunks [][]byte) (line string, ns []int, err error, w *blockWriter, pan string) {
	w = &blockWriter{failAt: failAt}
	func() {
		defer func() {
			if r := recover(); r != nil {
				pan = fmt.Sprint(r)
			}
		}()
		if kind == "eexecw" {
			ns, err = type1.VerifEexecWriter(w, chunks)
		} else {
			ns, err = type1.VerifHexWriter(w, chunks)
		}
	}()
	var nn, bb []string
	for _, n := range ns {
		nn = append(nn, strconv.Itoa(n))
	}
	for _, b := range w.blocks {
		bb = append(bb, hx(b))
	}
	st := "ok"
	if err != nil {
		st = "err"
	}
	if pan != "" {
		st = "panic"
	}
	return strings.Join(nn, ",") + ";" + st + ";" + strings.Join(bb, "|"), ns, err, w, pan
}

func writerCaseLine(kind string, failAt int, chunks [][]byte) string {
	fa := "-"
	if failAt >= 0 {
		fa = strconv.Itoa(failAt)
	}
	var cs []string
	for _, c := range chunks {
		cs = append(cs, hx(c))
	}
	if len(cs) == 0 {
		return fmt.Sprintf("%s %s none", kind, fa)
	}
	return fmt.Sprintf("%s %s %s", kind, fa, strings.Join(cs, ","))
}

func writerCase(o *suiteOut, kind string, failAt int, chunks [][]byte) (calls int) {
	caseLine := writerCaseLine(kind, failAt, chunks)
	line, ns, err, w, pan := runWriterHook(kind, failAt, chunks)
	if pan != "" {
		o.fail("C13", "a write fault causes no panic", caseLine, "error", pan)
	}
	var data []byte
	for _, c := range chunks {
		data = append(data, c...)
	}
	// the fault-free run of the same chunks, for the expectations below
	_, _, err0, w0, _ := runWriterHook(kind, -1, chunks)
	if failAt < 0 {
		var want []byte
		if kind == "eexecw" {
			want = cipherEncrypt(55665, append([]byte{'X' ^ byte(55665>>8), 0, 0, 0}, data...))
		} else {
			for i := 0; i < len(data); i += 39 {
				want = append(want, []byte(fmt.Sprintf("%x\n", data[i:min(i+39, len(data))]))...)
			}
		}
		if err != nil {
			o.fail("C13", "writing to a good writer succeeds", caseLine, "nil", err.Error())
		} else if got := bytes.Join(w.blocks, nil); !bytes.Equal(got, want) {
			o.fail("C08", "the stream writer's output is the cipher text (hex lines) of the data, however it is cut into Write calls", caseLine, hx(want[:min(len(want), 60)]), hx(got[:min(len(got), 60)]))
		}
		for i, n := range ns {
			if n != len(chunks[i]) {
				o.fail("C13", "a successful Write reports all its bytes as written", caseLine, fmt.Sprint(len(chunks[i])), fmt.Sprint(n))
			}
		}
	} else if err0 == nil {
		if failAt < w0.calls && err == nil {
			o.fail("C13", "a write fault at any write call surfaces as an error", caseLine, "error", "nil")
		}
		// what was accepted before the fault is the beginning of the fault-free output: nothing twice, nothing skipped
		for i, b := range w.blocks {
			if i >= len(w0.blocks) || !bytes.Equal(b, w0.blocks[i]) {
				o.fail("C13", "the blocks accepted before a fault are the first blocks of the fault-free run", caseLine, "prefix", fmt.Sprintf("block %d differs", i))
				break
			}
		}
	}
	o.emit(caseLine, line, len(data) > 0)
	return w0.calls
}

func replayWriters(o *suiteOut, line string) {
	f := strings.Split(line, " ")
	failAt := -1
	if f[1] != "-" {
		failAt, _ = strconv.Atoi(f[1])
	}
	var chunks [][]byte
	if len(f) > 2 && f[2] != "" && f[2] != "none" {
		for _, c := range strings.Split(f[2], ",") {
			chunks = append(chunks, unhx(c))
		}
	}
	writerCase(o, f[0], failAt, chunks)
}

func suiteWriters(o *suiteOut, r *rng, tier string, n int) {
	nr := 150
	if tier == "thorough" {
		nr = 4000
	}
	if n > 0 {
		nr = n
	}
	sizes := []int{0, 1, 2, 3, 4, 38, 39, 40, 77, 78, 79, 255, 256, 503, 504, 507, 508, 509, 511, 512, 513, 1019, 1020, 1021, 1023, 1024, 1025, 1500, 1536, 2048}
	mk := func(k int) []byte {
		b := make([]byte, k)
		for i := range b {
			b[i] = byte(r.intn(256))
		}
		return b
	}
	for _, kind := range []string{"eexecw", "hexw"} {
		// one chunk of every interesting size, under a fault at every underlying call
		for _, sz := range sizes {
			chunks := [][]byte{mk(sz)}
			calls := writerCase(o, kind, -1, chunks)
			for k := 0; k <= calls; k++ {
				writerCase(o, kind, k, chunks)
			}
			o.count(kind + ": single chunks at the buffer boundaries")
		}
		writerCase(o, kind, -1, nil)
		writerCase(o, kind, 0, nil)
		for i := 0; i < nr; i++ {
			var chunks [][]byte
			for k := r.intn(7); k > 0; k-- {
				chunks = append(chunks, mk(pick(r, sizes)))
			}
			calls := writerCase(o, kind, -1, chunks)
			// a fault at a few of the underlying calls (all of them when there are few)
			for k := 0; k <= calls; k++ {
				if calls <= 12 || r.chance(1, 4) {
					writerCase(o, kind, k, chunks)
				}
			}
			o.count(kind + ": random chunk lists")
		}
	}
	o.notes = append(o.notes, "the eexec and hex stream writers through the hooks VerifEexecWriter/VerifHexWriter: chunks of the sizes around the buffer (512 bytes) and line (39 bytes) boundaries, alone and in lists of up to six, fault-free and with a fault at every underlying write call; direct oracles: output = independent encryption / hex lines of the concatenated data, every fault surfaces, accepted blocks are a prefix of the fault-free run; every case also through the Lean state machines (T1Writers.runEexec / runHex)")
}

func init() {
	suites["writers"] = suiteWriters
	replayers["eexecw"] = replayWriters
	replayers["hexw"] = replayWriters
}
