package main

// Suites over the PostScript interpreter: `ops` (C02), `control` (C03),
// `budget` (C11), `hostile` (C01).  A case is one program run by a fresh
// interpreter: `run <MaxOps> <CheckStart> <hex program>`; the result line is
// the canonical state (canon.go).

import (
	"bytes"
	"fmt"
	"os"
	"path/filepath"
	"strings"

	"seehuhn.de/go/postscript"
)

func runProgram(maxOps int, checkStart bool, prog []byte) (line string, intp *postscript.Interpreter, class string) {
	intp = postscript.NewInterpreter()
	c := newCanon(intp)
	intp.MaxOps = maxOps
	intp.CheckStart = checkStart
	class = func() (cl string) {
		defer func() {
			if r := recover(); r != nil {
				cl = "panic:" + strings.ReplaceAll(fmt.Sprint(r), "\n", " ")
			}
		}()
		return errClass(intp.Execute(bytes.NewReader(prog)))
	}()
	if strings.HasPrefix(class, "panic") {
		return class, intp, class
	}
	return c.render(class), intp, class
}

func runCaseLine(maxOps int, checkStart bool, prog string) string {
	cs := 0
	if checkStart {
		cs = 1
	}
	return fmt.Sprintf("run %d %d %s", maxOps, cs, hx([]byte(prog)))
}

type progSuite struct {
	o    *suiteOut
	cur  string // file that names the case being run (for aborts and hangs)
	prop string
	seen map[string]bool
}

func newProgSuite(o *suiteOut, prop string) *progSuite {
	return &progSuite{o: o, cur: filepath.Join(o.dir, o.name+".current"), prop: prop, seen: map[string]bool{}}
}

// run executes one program and emits the case; returns the outcome class.
func (p *progSuite) run(maxOps int, checkStart bool, prog string) (string, *postscript.Interpreter) {
	line := runCaseLine(maxOps, checkStart, prog)
	if p.seen[line] {
		return "", nil
	}
	p.seen[line] = true
	os.WriteFile(p.cur, []byte(line), 0o644)
	res, intp, class := runProgram(maxOps, checkStart, []byte(prog))
	if strings.HasPrefix(class, "panic") {
		p.o.fail("C01", "no panic", line, "result or error value", res)
	}
	cl := class
	if i := strings.Index(cl, ":"); i > 0 && !strings.HasPrefix(cl, "err:") {
		cl = cl[:i]
	}
	p.o.count("outcome " + cl)
	p.o.emit(line, res, class != "err:undefined" && class != "err:stackunderflow" && class != "err:typecheck")
	return class, intp
}

// runsLine: consecutive Execute calls on one interpreter (stopping at the first error), as one case line for
// the model (`runs` verb)
func runsLine(o *suiteOut, maxOps int, checkStart bool, parts []string) string {
	var hs []string
	for _, p := range parts {
		hs = append(hs, hx([]byte(p)))
	}
	cs := "0"
	if checkStart {
		cs = "1"
	}
	line := fmt.Sprintf("runs %d %s %s", maxOps, cs, strings.Join(hs, ","))
	intp := postscript.NewInterpreter()
	c := newCanon(intp)
	intp.MaxOps = maxOps
	intp.CheckStart = checkStart
	class := "ok"
	for _, p := range parts {
		class = func() (cl string) {
			defer func() {
				if r := recover(); r != nil {
					cl = "panic:" + strings.ReplaceAll(fmt.Sprint(r), "\n", " ")
				}
			}()
			return errClass(intp.Execute(strings.NewReader(p)))
		}()
		if class != "ok" {
			break
		}
	}
	res := c.render(class)
	o.emit(line, res, len(parts) > 1)
	return res
}

// runsAllLine: consecutive Execute calls on one interpreter, every call made whatever the earlier ones returned;
// emits the operation counter after each call and the final state; returns the counters
func runsAllLine(o *suiteOut, maxOps int, checkStart bool, parts []string) []int {
	var hs []string
	for _, p := range parts {
		hs = append(hs, hx([]byte(p)))
	}
	cs := "0"
	if checkStart {
		cs = "1"
	}
	line := fmt.Sprintf("runsall %d %s %s", maxOps, cs, strings.Join(hs, ","))
	intp := postscript.NewInterpreter()
	c := newCanon(intp)
	intp.MaxOps = maxOps
	intp.CheckStart = checkStart
	class := "ok"
	var counts []int
	var cstr []string
	for _, p := range parts {
		class = func() (cl string) {
			defer func() {
				if r := recover(); r != nil {
					cl = "panic:" + strings.ReplaceAll(fmt.Sprint(r), "\n", " ")
				}
			}()
			return errClass(intp.Execute(strings.NewReader(p)))
		}()
		counts = append(counts, intp.NumOps)
		cstr = append(cstr, fmt.Sprint(intp.NumOps))
	}
	o.emit(line, "counts="+strings.Join(cstr, ",")+" "+c.render(class), true)
	return counts
}

func replayRun(o *suiteOut, line string) {
	f := strings.Split(line, " ")
	if len(f) != 4 {
		must(fmt.Errorf("bad run case %q", line))
	}
	var maxOps int
	fmt.Sscan(f[1], &maxOps)
	p := newProgSuite(o, "C02")
	p.run(maxOps, f[2] == "1", string(unhx(f[3])))
}

// ---------------------------------------------------------------- operand pool

var opArity = map[string]int{
	"pop": 1, "exch": 2, "dup": 1, "copy": 2, "index": 2, "roll": 4, "count": 0, "mark": 0, "cleartomark": 2,
	"add": 2, "sub": 2, "mul": 2, "abs": 1, "eq": 2, "ne": 2, "and": 2, "or": 2, "not": 1, "true": 0, "false": 0,
	"array": 1, "[": 0, "]": 2, "length": 1, "get": 2, "put": 3, "getinterval": 3, "putinterval": 3,
	"string": 1, "dict": 1, "<<": 0, ">>": 3, "maxlength": 1, "begin": 1, "end": 0, "def": 2, "load": 1, "known": 2,
	"where": 1, "currentdict": 0, "userdict": 0, "systemdict": 0, "errordict": 0,
	"definefont": 2, "findfont": 1, "FontDirectory": 0, "StandardEncoding": 0, "findresource": 2, "defineresource": 3,
	"type": 1, "cvx": 1, "matrix": 0, "readonly": 1, "executeonly": 1, "noaccess": 1, "internaldict": 1,
	"bind": 1, "exec": 1, "if": 2, "ifelse": 3, "for": 4, "forall": 2, "loop": 1, "repeat": 2, "exit": 0, "stop": 0,
	"currentfile": 0, "closefile": 1, "readstring": 2, "eexec": 1,
}

var dataOps = []string{
	"pop", "exch", "dup", "copy", "index", "roll", "count", "mark", "cleartomark",
	"add", "sub", "mul", "abs", "eq", "ne", "and", "or", "not", "true", "false",
	"array", "[", "]", "length", "get", "put", "getinterval", "putinterval", "string", "dict", "<<", ">>", "maxlength",
	"begin", "end", "def", "load", "known", "where", "currentdict", "userdict", "systemdict", "errordict",
	"definefont", "findfont", "FontDirectory", "StandardEncoding", "findresource", "defineresource", "type",
}

var otherOps = []string{"cvx", "matrix", "readonly", "executeonly", "noaccess", "internaldict", "bind", "exec", "if", "ifelse", "for", "forall", "loop", "repeat", "exit", "stop", "currentfile"}

// operand spellings; each leaves exactly one object on the stack
var operandPool = []string{
	"0", "1", "-1", "2", "3", "7", "255", "256", "65536", "65537", "2147483648", "-2147483648",
	"9007199254740993", "9007199254740992", "9223372036854775807", "-9223372036854775808", "4611686018427387904",
	"0.5", "-1.5", "1e10", "3.0",
	"true", "false", "/a", "/b", "/add", "/CMap", "/Font",
	"(abc)", "()", "(x)", "(abcdefgh)", "[1 2 3]", "[]", "[(s) /n 1.5 [9]]", "{1 add}", "{}", "{pop}",
	"<< /a 1 >>", "5 dict", "<< /a 1 /b (x) >>", "mark", "currentfile", "userdict", "systemdict",
	"[1 2 3 4 5] 1 3 getinterval", "(abcdef) 2 3 getinterval", "65536 array", "65536 string", "StandardEncoding",
}

// forall over dictionaries with several entries, with bodies whose effect does not depend on the order of visit
var dictForallPrograms = []string{
	"0 << /a 1 /b 2 /c 3 >> { exch pop add } forall", "systemdict { pop pop } forall", "<< /a 1 /b 2 >> { pop pop 7 } forall",
	"0 systemdict { pop pop 1 add } forall", "<< /a 1 /b (x) >> { pop pop } forall",
	"/n 0 def << /a 1 /b 2 >> { pop pop /n n 1 add def } forall n", "5 dict begin << /x 1 /y 2 >> { def } forall x y end",
	"<< /a 1 /b 2 >> { pop pop stop } forall", "errordict { pop pop } forall", "0 errordict { pop pop 1 add } forall",
	// the entries are visited in the order of their keys (bytewise), whatever order they were written or stored in
	"<< /b 2 /a 1 /c 3 >> { pop exit } forall", "<< /b 2 /a 1 >> { } forall", "<< /zz 1 /B 2 /a 3 /aa 4 /A 5 >> { pop } forall",
	"<< /a 1 /b 2 /c 3 /d 4 >> { pop exit } forall", "<< /d 4 /c 3 /b 2 /a 1 >> { pop exit } forall", "errordict { pop exit } forall", "systemdict { pop exit } forall",
	"/d << /b 2 /a 1 /c 3 >> def d { pop d exch undef } forall", "/d 5 dict def d /x 1 put d /m 2 put d /a 3 put d { } forall",
	"/d << /a 1 /b 2 /c 3 >> def d { pop pop d /b known { d /zz 9 put } if } forall d length",
	"<< /\351 1 /z 2 /\200 3 >> { pop } forall", "userdict /k2 1 put userdict /k1 2 put userdict { } forall",
}

var smallPool = []string{"0", "1", "-1", "3", "9223372036854775807", "-9223372036854775808", "0.5", "true", "/a", "(abc)", "[1 2 3]", "{1}", "<< /a 1 >>", "mark"}
var tinyPool = []string{"0", "1", "-1", "5", "9223372036854775807", "-9223372036854775808", "(ab)", "{pop}", "[1 2]"}

// aliasing programs: a composite, a second view of it, a write through one, reads through both
var aliasPrograms = []string{
	// putinterval / copy where source and destination overlap in one store (both directions, arrays and strings)
	"/a [1 2 3 4 5] def a 1 a 0 4 getinterval putinterval a", "/a [1 2 3 4 5] def a 0 a 1 4 getinterval putinterval a",
	"/s (abcdef) def s 2 s 0 4 getinterval putinterval s", "/s (abcdef) def s 0 s 2 4 getinterval putinterval s",
	"/a [1 2 3 4 5 6 7 8] def a 3 a 1 5 getinterval putinterval a 2 a 4 3 getinterval putinterval a",
	"/a [1 2 3 4 5] def a 0 4 getinterval a 1 4 getinterval copy a", "/a [1 2 3 4 5] def a 1 4 getinterval a 0 4 getinterval copy a",
	"/s (abcdef) def s 0 4 getinterval s 2 4 getinterval copy s", "/s (abcdef) def s 1 5 getinterval s 0 5 getinterval copy s",
	"/a [1 2 3] def a 0 a putinterval a", "/s (xyz) def s s copy s",
	// dictionary identity: eq compares identity, whatever keys the operands hold (numeral keys included)
	"<< /a 1 >> << /0 1 >> eq", "<< /0 1 >> << /a 1 >> eq", "<< /0 1 >> dup eq", "<< /0 1 /1 2 >> << /0 1 /2 2 >> ne", "<< /0 1 >> << /0 1 >> eq",
	"<< /0 1 /1 1 /2 1 >> << /3 1 /4 1 /5 1 >> eq", "<< >> << >> eq", "<< >> dup eq", "<< /1 1 >> << /0 1 >> ne", "userdict << /0 0 >> eq",
	// values a dictionary can hold: null and the file object are values like any other
	"/v 1 array 0 get def v", "/f 7 def 3 dict begin /f currentfile def f end", "<< /a 1 array 0 get >> /a get", "<< /a 1 array 0 get >> /a known",
	"/n 1 array 0 get def /n where", "/n 1 array 0 get def /n load", "5 dict begin /add 1 array 0 get def 1 2 add end", "/q currentfile def q currentfile eq",
	"userdict /z 1 array 0 get put z", "/k 1 array 0 get def 2 dict begin /k 5 def end k",
	"[1 2 3 4] dup 1 2 getinterval dup 0 99 put",
	"[1 2 3 4] dup 1 2 getinterval exch dup 2 77 put exch",
	"(abcdef) dup 2 3 getinterval dup 1 88 put",
	"(abcdef) dup dup 0 (XY) putinterval",
	"[1 2 3] dup 4 array copy dup 0 5 put",
	"(abc) dup 5 string copy dup 0 65 put",
	"<< /a 1 >> dup dup /b 2 put",
	"<< /a 1 >> dup 3 dict copy dup /c 3 put",
	"[1 2 3] dup dup 0 exch put",
	"{1 2 3} dup 0 {x} put",
	"[0 0 0] dup dup 1 [5 6] putinterval",
	"[1 2 3 4 5 6] dup 2 4 getinterval dup 1 2 getinterval dup 0 42 put",
	"(hello world) dup 6 5 getinterval dup 0 4 getinterval dup 0 87 put",
	"[1 2 3] dup 0 3 getinterval dup 3 0 getinterval",
	"/x [1 2] def x 0 9 put x",
	"userdict /k 5 put k",
	"<< /a [1 2] >> dup /a get 0 7 put",
	"5 dict dup begin /q 1 def end dup /q get",
	"/F << /FontType 1 >> definefont pop /F findfont",
	"/F 10 dict definefont /G exch definefont pop FontDirectory /G known",
	"/R << >> /Font defineresource pop /R /Font findresource",
	"/R (s) /Generic defineresource",
	"/CIDInit /ProcSet findresource begin 12 dict begin begincmap /CMapName /X def endcmap CMapName currentdict /CMap defineresource pop end end /X /CMap findresource /CMapName get",
	"StandardEncoding 65 get StandardEncoding dup 65 /foo put 65 get",
	"systemdict /add get type errordict /typecheck known",
	"[1 2 3] dup 1 1 getinterval exch 0 2 getinterval exch 0 55 put",
	"3 array dup 0 1 put dup 1 [2] put dup 2 get 0 get",
	"10 string dup 0 (abc) putinterval dup 3 (def) putinterval 0 6 getinterval",
	"1 2 3 4 5 5 2 roll 5 -2 roll 3 1 roll",
	"1 2 3 3 copy count 2 index",
	"mark 1 2 3 ] mark 4 5 cleartomark length",
	"9223372036854775807 1 add 9223372036854775807 9223372036854775807 mul -9223372036854775808 abs -9223372036854775808 -1 add",
	"0 -9223372036854775808 sub -1 -9223372036854775808 mul 4294967296 4294967296 mul 3037000500 3037000500 mul",
	"9007199254740993 9007199254740992 eq 1 1.0 eq (a) /a eq /a (b) ne 1 2 ne",
	"5 3 and 5 3 or 5 not true false and true not -1 0 or",
}

func suiteOps(o *suiteOut, r *rng, tier string, n int) {
	p := newProgSuite(o, "C02")
	for _, l := range corpusLines("ops") {
		replayRun(o, l)
		o.count("corpus cases")
	}
	plrmOpTable(o, p)
	for _, a := range aliasPrograms {
		p.run(100000, false, a)
		o.count("aliasing / sharing programs")
	}
	for _, a := range dictForallPrograms {
		p.run(100000, false, a)
		o.count("order-insensitive forall over dictionaries")
	}
	// bounded-exhaustive operator x operand tuples
	frac := 1.0
	if tier != "thorough" {
		frac = 0.06
	}
	ops := append(append([]string{}, dataOps...), otherOps...)
	for _, op := range ops {
		k := opArity[op]
		var pools [][]string
		switch k {
		case 0:
			pools = nil
		case 1:
			pools = [][]string{operandPool}
		case 2:
			pools = [][]string{operandPool, operandPool}
		case 3:
			pools = [][]string{smallPool, smallPool, smallPool}
		default:
			pools = [][]string{tinyPool, tinyPool, tinyPool, tinyPool}
		}
		var rec func(i int, acc []string)
		rec = func(i int, acc []string) {
			if i == len(pools) {
				if k >= 2 && r.float() > frac {
					return
				}
				prog := strings.Join(append(append([]string{}, acc...), op), " ")
				p.run(50000, false, prog)
				o.count("operator x operand tuples")
				return
			}
			for _, v := range pools[i] {
				rec(i+1, append(acc, v))
			}
		}
		rec(0, nil)
	}
	// random longer programs, type aware
	nr := 3000
	if tier == "thorough" {
		nr = 60000
	}
	if n > 0 {
		nr = n
	}
	for i := 0; i < nr; i++ {
		g := &progGen{r: r}
		prog := g.dataProgram(r.rangeInt(3, 60), r.chance(1, 6))
		p.run(100000, false, prog)
		o.count("random data programs")
	}
	o.notes = append(o.notes, "case = one program on a fresh interpreter; impl line = canonical final state (operand stack, dictionary stack, dictionary contents, sharing classes) or error name; non-trivial = outcome other than undefined/stackunderflow/typecheck")
	os.Remove(p.cur)
}

// ---------------------------------------------------------------- type-aware random programs

type progGen struct {
	r     *rng
	stack []byte // abstract types: i r b n s a p d m f ?
	toks  []string
	defs  []string
}

func (g *progGen) push(t byte, tok string) {
	g.stack = append(g.stack, t)
	g.toks = append(g.toks, tok)
}

func (g *progGen) top(k int) byte {
	if len(g.stack) <= k {
		return 0
	}
	return g.stack[len(g.stack)-1-k]
}

func (g *progGen) pop(k int) {
	if k > len(g.stack) {
		k = len(g.stack)
	}
	g.stack = g.stack[:len(g.stack)-k]
}

var intLits = []string{"0", "1", "2", "3", "5", "-1", "-7", "10", "100", "255", "256", "1000", "65535", "65536", "2147483647", "-2147483648", "4294967296", "9007199254740993", "9223372036854775807", "-9223372036854775808", "9223372036854775806"}

func (g *progGen) literal() {
	r := g.r
	switch r.intn(12) {
	case 0, 1, 2, 3:
		g.push('i', pick(r, intLits))
	case 4:
		g.push('r', pick(r, []string{"0.5", "1.5", "-2.25", "1e3", "3.", ".5", "1E-2", "100.0", "-0.0", "123456789012345678901234567890", "1e308"}))
	case 5:
		g.push('b', pick(r, []string{"true", "false"}))
	case 6:
		g.push('n', "/"+pick(r, []string{"a", "b", "c", "x", "y", "foo", "add", "Font", "CMap"}))
	case 7:
		g.push('s', pick(r, []string{"(abc)", "()", "(hello)", "(a(b)c)", "<4142>", "(x\\ny)", "(abcdefghij)"}))
	case 8:
		n := r.intn(5)
		var el []string
		for i := 0; i < n; i++ {
			el = append(el, pick(r, []string{"1", "2", "(s)", "/n", "true", "[7]", "0.5"}))
		}
		g.push('a', "["+strings.Join(el, " ")+"]")
	case 9:
		g.push('p', pick(r, []string{"{}", "{1}", "{pop}", "{1 add}", "{dup}", "{exch pop}"}))
	case 10:
		g.push('d', pick(r, []string{"<< >>", "<< /a 1 >>", "3 dict", "<< /a 1 /b [2] >>", "userdict"}))
	default:
		g.push('i', fmt.Sprint(r.rangeInt(-5, 20)))
	}
}

// step appends one operator application that fits the abstract stack (mostly).
func (g *progGen) step(malformed bool) {
	r := g.r
	if len(g.stack) > 40 {
		g.toks = append(g.toks, "pop")
		g.pop(1)
		return
	}
	if malformed && r.chance(1, 4) {
		op := pick(r, dataOps)
		g.toks = append(g.toks, op)
		g.stack = append(g.stack[:0], '?') // unknown after a likely error
		return
	}
	t0, t1, t2 := g.top(0), g.top(1), g.top(2)
	isNum := func(t byte) bool { return t == 'i' || t == 'r' }
	type cand struct {
		tok string
		f   func()
	}
	var cs []cand
	add := func(tok string, f func()) { cs = append(cs, cand{tok, f}) }
	add("", func() { g.literal() })
	add("", func() { g.literal() })
	if len(g.stack) >= 1 {
		add("dup", func() { g.stack = append(g.stack, t0) })
		add("pop", func() { g.pop(1) })
		add("type", func() { g.stack = append(g.stack, 'n') })
		add("count", func() { g.stack = append(g.stack, 'i') })
	}
	if len(g.stack) >= 2 {
		add("exch", func() { g.stack[len(g.stack)-1], g.stack[len(g.stack)-2] = t1, t0 })
		add(fmt.Sprintf("%d index", r.intn(len(g.stack))), func() { g.stack = append(g.stack, '?') })
		add(fmt.Sprintf("%d %d roll", r.rangeInt(1, min(len(g.stack), 5)), r.rangeInt(-3, 3)), func() {
			for i := range g.stack {
				if i >= len(g.stack)-5 {
					g.stack[i] = '?'
				}
			}
		})
		add(fmt.Sprintf("%d copy", r.intn(min(len(g.stack), 3)+1)), func() { g.stack = append(g.stack, '?', '?', '?')[:min(len(g.stack)+3, 45)] })
	}
	if isNum(t0) && isNum(t1) {
		for _, op := range []string{"add", "sub", "mul"} {
			op := op
			add(op, func() {
				g.pop(2)
				if t0 == 'r' || t1 == 'r' {
					g.stack = append(g.stack, 'r')
				} else {
					g.stack = append(g.stack, '?')
				}
			})
		}
		add("eq", func() { g.pop(2); g.stack = append(g.stack, 'b') })
		add("ne", func() { g.pop(2); g.stack = append(g.stack, 'b') })
	}
	if isNum(t0) {
		add("abs", func() { g.pop(1); g.stack = append(g.stack, '?') })
	}
	if t0 == 'i' && t1 == 'i' {
		add("and", func() { g.pop(2); g.stack = append(g.stack, 'i') })
		add("or", func() { g.pop(2); g.stack = append(g.stack, 'i') })
	}
	if t0 == 'i' {
		add("not", func() {})
	}
	if t0 == 'b' {
		add("not", func() {})
		if t1 == 'b' {
			add("and", func() { g.pop(1) })
			add("or", func() { g.pop(1) })
		}
	}
	if t0 == 's' || t0 == 'n' {
		if t1 == 's' || t1 == 'n' {
			add("eq", func() { g.pop(2); g.stack = append(g.stack, 'b') })
		}
		add("length", func() { g.pop(1); g.stack = append(g.stack, 'i') })
	}
	if t0 == 'a' || t0 == 's' {
		add("length", func() { g.pop(1); g.stack = append(g.stack, 'i') })
		add(fmt.Sprintf("dup %d get", r.intn(4)), func() { g.stack = append(g.stack, '?') })
		add(fmt.Sprintf("dup %d %d getinterval", r.intn(3), r.intn(3)), func() { g.stack = append(g.stack, t0) })
		if t0 == 'a' {
			add(fmt.Sprintf("dup %d %s put", r.intn(3), pick(r, []string{"42", "(z)", "/q", "[0]"})), func() {})
			add(fmt.Sprintf("dup %d [8 9] putinterval", r.intn(3)), func() {})
			add("dup 10 array copy", func() { g.stack = append(g.stack, 'a') })
		} else {
			add(fmt.Sprintf("dup %d %d put", r.intn(3), r.rangeInt(0, 300)), func() {})
			add(fmt.Sprintf("dup %d (XY) putinterval", r.intn(3)), func() {})
			add("dup 12 string copy", func() { g.stack = append(g.stack, 's') })
		}
	}
	if t0 == 'i' {
		add("", func() {
			// small container creation from a small integer
			g.toks = append(g.toks, "pop", fmt.Sprint(g.r.intn(6)), pick(r, []string{"array", "string", "dict"}))
			g.pop(1)
			g.stack = append(g.stack, '?')
		})
	}
	if t0 == 'd' {
		add("length", func() { g.pop(1); g.stack = append(g.stack, 'i') })
		add("maxlength", func() { g.pop(1); g.stack = append(g.stack, 'i') })
		add("dup /a known", func() { g.stack = append(g.stack, 'b') })
		add("dup /a 5 put", func() {})
		add("dup /zz (v) put", func() {})
		add("begin", func() { g.pop(1); g.defs = append(g.defs, "") })
		add("dup 4 dict copy", func() { g.stack = append(g.stack, 'd') })
		if t1 == 'd' {
			add("eq", func() { g.pop(2); g.stack = append(g.stack, 'b') })
		}
	}
	if t1 == 'n' && len(g.stack) >= 2 {
		add("def", func() { g.pop(2) })
	}
	if t0 == 'n' {
		add("where", func() { g.pop(1); g.stack = append(g.stack, '?') })
		add("load", func() { g.pop(1); g.stack = append(g.stack, '?') })
	}
	_ = t2
	add("currentdict", func() { g.stack = append(g.stack, 'd') })
	add("mark", func() { g.stack = append(g.stack, 'm') })
	add("[", func() { g.stack = append(g.stack, 'm') })
	hasMark := bytes.IndexByte(g.stack, 'm') >= 0
	if hasMark {
		add("]", func() { i := bytes.LastIndexByte(g.stack, 'm'); g.stack = append(g.stack[:i], 'a') })
		add("cleartomark", func() { i := bytes.LastIndexByte(g.stack, 'm'); g.stack = g.stack[:i] })
	}
	if len(g.defs) > 0 {
		add("end", func() { g.defs = g.defs[:len(g.defs)-1] })
	}
	add("/v1 exch def v1", func() {})
	add("StandardEncoding 66 get", func() { g.stack = append(g.stack, 'n') })
	add("FontDirectory length", func() { g.stack = append(g.stack, 'i') })
	c := pick(r, cs)
	if c.tok != "" {
		g.toks = append(g.toks, c.tok)
	}
	c.f()
}

func (g *progGen) dataProgram(n int, malformed bool) string {
	for i := 0; i < n; i++ {
		g.step(malformed)
	}
	return strings.Join(g.toks, " ")
}

func init() {
	suites["ops"] = suiteOps
	replayers["run"] = replayRun
	replayers["runs"] = func(o *suiteOut, line string) {
		f := strings.Split(line, " ")
		var m int
		fmt.Sscan(f[1], &m)
		var parts []string
		for _, h := range strings.Split(f[3], ",") {
			parts = append(parts, string(unhx(h)))
		}
		runsLine(o, m, f[2] == "1", parts)
	}
}
