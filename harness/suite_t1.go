package main

// Suites over whole fonts: `t1rt` (C09), `t1write` (C08), `t1closure` (C10).
// A case is `<verb> <font seed> <int|frac> <format>`: the font is regenerated
// from the seed, so a case line replays exactly.

import (
	"bytes"
	"fmt"
	"math"
	"math/big"
	"sort"
	"strconv"
	"strings"

	"seehuhn.de/go/postscript/psenc"
	"seehuhn.de/go/postscript/type1"
)

func fontFromCase(f []string) (*type1.Font, bool, type1.FileFormat) {
	seed, err := strconv.ParseUint(f[1], 10, 64)
	must(err)
	integer := f[2] == "int"
	var format type1.FileFormat
	for _, ff := range allFormats {
		if formatName(ff) == f[3] {
			format = ff
		}
	}
	font := randFont(newRng(seed), integer)
	if f[2] == "bigint" {
		// many glyphs: the encrypted section is longer than 64 kB (length fields above 16 bits)
		integer = true
		r := newRng(seed)
		font = randFont(r, true)
		for i := 0; i < 1800; i++ {
			font.Glyphs[fmt.Sprintf("g%04d", i)] = &type1.Glyph{Cmds: wellFormedPath(r, true), HStem: randStems(r), VStem: randStems(r), WidthX: float64(r.rangeInt(0, 2000))}
		}
	}
	if f[2] == "hvfrac" {
		// the two short curve forms (first tangent horizontal, last vertical, and the reverse) with fractional
		// coordinates the encoder cannot represent exactly: the last operand must compensate the error of the middle one
		integer = false
		r := newRng(seed)
		font = randFont(r, true)
		for i, fr := range []float64{0.0046, 0.0023, 0.00465, 0.0031, 1.0 / 3, 2.0 / 7, 0.0092, 0.5 - 0.0046} {
			font.Glyphs[fmt.Sprintf("hv%d", i)] = &type1.Glyph{WidthX: 500, Cmds: []type1.GlyphOp{
				{Op: type1.OpMoveTo, Args: []float64{0, 0}}, {Op: type1.OpCurveTo, Args: []float64{50 + fr, 0, 100, 10 + fr, 100, 20 + 2*fr}},
				{Op: type1.OpLineTo, Args: []float64{0, 20 + 2*fr}}, {Op: type1.OpClosePath}}}
			font.Glyphs[fmt.Sprintf("vh%d", i)] = &type1.Glyph{WidthX: 500, Cmds: []type1.GlyphOp{
				{Op: type1.OpMoveTo, Args: []float64{0, 0}}, {Op: type1.OpCurveTo, Args: []float64{0, 50 + fr, 10 + fr, 100, 20 + 2*fr, 100}},
				{Op: type1.OpLineTo, Args: []float64{20 + 2*fr, 0}}, {Op: type1.OpClosePath}}}
		}
	}
	if f[2] == "zeromatrix" {
		// a font matrix of zeros (degenerate, but a matrix of finite numbers): written and read back as it is
		integer = true
		font = randFont(newRng(seed), true)
		font.FontInfo.FontMatrix = [6]float64{}
	}
	if strings.HasPrefix(f[2], "longstr") {
		// long text fields with a byte that needs escaping at a chosen offset (a writer that breaks or escapes long
		// literals in blocks meets its block boundary there)
		integer = true
		k, _ := strconv.Atoi(f[2][len("longstr"):])
		r := newRng(seed)
		font = randFont(r, true)
		mk := func(special string) string {
			return strings.Repeat("a", k) + special + strings.Repeat("b", max(600-k, 40))
		}
		font.FontInfo.Notice = mk(pick(r, []string{"\\", "\\n", "\\1", "\r", "\r\n"}))
		font.FontInfo.Copyright = mk(pick(r, []string{"(", ")", ")(", "\x00", "\xff"}))
		font.FontInfo.FullName = mk("\\")
	}
	return font, integer, format
}

// ---------------------------------------------------------------- C09

func t1rtCase(o *suiteOut, line string) {
	f := strings.Split(line, " ")
	font, integer, format := fontFromCase(f)
	data, err, pan := writeFont(font, format)
	if pan != "" || err != nil {
		o.fail("C09", "writing a font of the writable domain succeeds", line, "nil", fmt.Sprint(err, pan))
		o.emit(line, "skip", true)
		return
	}
	back, err, pan := readFont(data)
	if pan != "" || err != nil {
		o.fail("C09", "reading what was written succeeds", line, "nil", fmt.Sprint(err, pan))
		o.emit(line, "skip", true)
		return
	}
	if d := compareFonts(font, back, 0.005, integer); d != "" {
		o.fail("C09", "reading what was written yields an equal font", line, "equal", d)
	}
	o.emit(line, "skip", len(font.Glyphs) > 1)
}

func suiteT1rt(o *suiteOut, r *rng, tier string, n int) {
	for _, l := range corpusLines("t1rt") {
		t1rtCase(o, l)
		o.count("corpus cases")
	}
	nr := 250
	if tier == "thorough" {
		nr = 12000
	}
	if n > 0 {
		nr = n
	}
	for _, ff := range allFormats {
		t1rtCase(o, fmt.Sprintf("t1rt 4243 zeromatrix %s", formatName(ff)))
		o.count("degenerate font matrix")
	}
	for _, ff := range allFormats {
		t1rtCase(o, fmt.Sprintf("t1rt 4242 hvfrac %s", formatName(ff)))
		o.count("short curve forms with awkward fractions")
	}
	for k := 0; k <= 700; k++ {
		// text fields of 600 bytes and more with a byte that needs escaping at every offset
		t1rtCase(o, fmt.Sprintf("t1rt %d longstr%d %s", 8000+k, k, formatName(allFormats[k%len(allFormats)])))
		o.count("long text fields with a special byte at every offset")
	}
	for i := 0; i < nr; i++ {
		seed := r.next() % 1000000007
		kind := pick(r, []string{"int", "frac"})
		if i == 0 || i%100 == 99 {
			kind = "bigint" // encrypted section longer than 64 kB
		}
		for _, ff := range allFormats {
			t1rtCase(o, fmt.Sprintf("t1rt %d %s %s", seed, kind, formatName(ff)))
			o.count("format " + formatName(ff))
		}
	}
	o.notes = append(o.notes, "random fonts of the writable domain (info strings over all bytes incl. parentheses, backslashes, CR/LF; curves, hints, non-default private values, every encoding shape incl. codes of existing glyphs left unassigned, creation times in several zones) x 4 formats; direct oracle: deep comparison of Read(Write(F)) with F")
}

// ---------------------------------------------------------------- C08

func ratOfFloat(x float64) *big.Rat { return new(big.Rat).SetFloat64(x) }

func compareSpecFont(font *type1.Font, sf *specFont, integer bool) string {
	if sf.FontName != font.FontInfo.FontName {
		return fmt.Sprintf("FontName %q vs %q", sf.FontName, font.FontInfo.FontName)
	}
	info := map[string]string{"version": font.Version, "FullName": font.FullName, "FamilyName": font.FamilyName, "Weight": font.Weight}
	if font.Notice != "" {
		info["Notice"] = font.Notice
	}
	if font.Copyright != "" {
		info["Copyright"] = font.Copyright
	}
	for k, v := range info {
		if sf.Info[k] != v {
			return fmt.Sprintf("FontInfo /%s: %q vs %q", k, sf.Info[k], v)
		}
	}
	if len(sf.Glyphs) != len(font.Glyphs) {
		return fmt.Sprintf("glyph count %d vs %d", len(sf.Glyphs), len(font.Glyphs))
	}
	bound := new(big.Rat).Add(bound214, floatSlack)
	for name, g := range font.Glyphs {
		sg := sf.Glyphs[name]
		if sg == nil {
			return "glyph " + name + " missing in the written file"
		}
		if sg.WX.Cmp(ratOfFloat(math.Round(g.WidthX))) != 0 || sg.WY.Cmp(ratOfFloat(math.Round(g.WidthY))) != 0 {
			return fmt.Sprintf("glyph %s width %s %s vs %v %v", name, ratStr(sg.WX), ratStr(sg.WY), g.WidthX, g.WidthY)
		}
		hs, vs := evenPrefix(g.HStem), evenPrefix(g.VStem)
		if len(sg.HStem) != len(hs) || len(sg.VStem) != len(vs) {
			return fmt.Sprintf("glyph %s stem counts", name)
		}
		for i, v := range hs {
			if sg.HStem[i].Cmp(ratOfFloat(float64(v))) != 0 {
				return fmt.Sprintf("glyph %s hstem %d: %s vs %d", name, i, ratStr(sg.HStem[i]), v)
			}
		}
		for i, v := range vs {
			if sg.VStem[i].Cmp(ratOfFloat(float64(v))) != 0 {
				return fmt.Sprintf("glyph %s vstem %d: %s vs %d", name, i, ratStr(sg.VStem[i]), v)
			}
		}
		if len(sg.Cmds) != len(g.Cmds) {
			return fmt.Sprintf("glyph %s: %d commands vs %d", name, len(sg.Cmds), len(g.Cmds))
		}
		glyphInt := glyphAllInt(g)
		for i, c := range g.Cmds {
			if c.Op.String() != sg.Cmds[i].Op {
				return fmt.Sprintf("glyph %s command %d: %s vs %s", name, i, sg.Cmds[i].Op, c.Op)
			}
			for k, a := range c.Args {
				if integer || glyphInt {
					if sg.Cmds[i].Args[k].Cmp(ratOfFloat(a)) != 0 {
						return fmt.Sprintf("glyph %s command %d arg %d: %s vs %v", name, i, k, ratStr(sg.Cmds[i].Args[k]), a)
					}
				} else if !nearRat(sg.Cmds[i].Args[k], a, bound) {
					return fmt.Sprintf("glyph %s command %d arg %d: %s vs %v (more than 1/214)", name, i, k, ratStr(sg.Cmds[i].Args[k]), a)
				}
			}
		}
	}
	// encoding: the file says StandardEncoding, an explicit array, or nothing
	if font.Encoding != nil {
		for i := 0; i < 256; i++ {
			var got string
			if sf.StdEnc {
				got = psenc.StandardEncoding[i]
				if _, ok := font.Glyphs[got]; !ok {
					got = ".notdef" // codes of absent glyphs mean .notdef
				}
			} else if sf.Encoding != nil {
				got = sf.Encoding[i]
			} else {
				return "encoding missing in the written file"
			}
			if got != font.Encoding[i] {
				return fmt.Sprintf("encoding[%d]: file says %q, font %q", i, got, font.Encoding[i])
			}
		}
	} else if sf.StdEnc || sf.Encoding != nil {
		return "encoding written although the font has none"
	}
	// numbers of the dictionaries
	num := func(s string) float64 { v, _ := strconv.ParseFloat(s, 64); return v }
	if !closeF(num(sf.InfoNum["ItalicAngle"]), font.ItalicAngle, 1e-9) || (sf.InfoNum["isFixedPitch"] == "true") != font.IsFixedPitch ||
		!closeF(num(sf.InfoNum["UnderlinePosition"]), float64(font.UnderlinePosition), 1e-9) || !closeF(num(sf.InfoNum["UnderlineThickness"]), float64(font.UnderlineThickness), 1e-9) {
		return fmt.Sprintf("FontInfo numbers: %v", sf.InfoNum)
	}
	if len(sf.FontMatrix) != 6 {
		return "FontMatrix"
	}
	for i, s := range sf.FontMatrix {
		if !closeF(num(s), font.FontMatrix[i], 1e-12) {
			return fmt.Sprintf("FontMatrix[%d] %s vs %v", i, s, font.FontMatrix[i])
		}
	}
	p := font.Private
	arr := func(vals []float64) string {
		if len(vals) == 0 {
			return ""
		}
		var parts []string
		for _, v := range vals {
			parts = append(parts, strconv.FormatFloat(v, 'g', -1, 64))
		}
		return "[" + strings.Join(parts, " ") + "]"
	}
	i16 := func(v []int16) []float64 { return nil }
	_ = i16
	var bv, ob []float64
	for _, v := range p.BlueValues {
		bv = append(bv, float64(v))
	}
	for _, v := range p.OtherBlues {
		ob = append(ob, float64(v))
	}
	if sf.PrivNum["BlueValues"] != arr(bv) || sf.PrivNum["OtherBlues"] != arr(ob) {
		return fmt.Sprintf("BlueValues/OtherBlues: %q %q vs %v %v", sf.PrivNum["BlueValues"], sf.PrivNum["OtherBlues"], bv, ob)
	}
	if s, ok := sf.PrivNum["BlueScale"]; ok {
		if !closeF(num(s), p.BlueScale, 1e-12) {
			return "BlueScale " + s
		}
	} else if math.Abs(p.BlueScale-0.039625) > 1e-6 {
		return "BlueScale omitted although it differs from the default"
	}
	if s, ok := sf.PrivNum["BlueShift"]; ok && num(s) != float64(p.BlueShift) || !ok && p.BlueShift != 7 {
		return "BlueShift"
	}
	if s, ok := sf.PrivNum["BlueFuzz"]; ok && num(s) != float64(p.BlueFuzz) || !ok && p.BlueFuzz != 1 {
		return "BlueFuzz"
	}
	if (sf.PrivNum["ForceBold"] == "true") != p.ForceBold {
		return "ForceBold"
	}
	if s := sf.PrivNum["StdHW"]; (s == "") != (p.StdHW == 0) || s != "" && s != arr([]float64{p.StdHW}) {
		return fmt.Sprintf("StdHW %q vs %v", s, p.StdHW)
	}
	if s := sf.PrivNum["StdVW"]; (s == "") != (p.StdVW == 0) || s != "" && s != arr([]float64{p.StdVW}) {
		return fmt.Sprintf("StdVW %q vs %v", s, p.StdVW)
	}
	return ""
}

// t1wLine emits the model-comparison line for the writer: the bytes Font.Write / WritePDF produce
func t1wLine(o *suiteOut, font *type1.Font, fmtName string) {
	if len(font.Glyphs) > 60 {
		return
	}
	verb := map[string]string{"pfa": "pfa", "pfb": "pfb", "binary": "bin", "noeexec": "noeexec", "pdf": "pdf"}[fmtName]
	line := "t1w " + verb + " " + fontSpec(font)
	res := "error"
	if fmtName == "pdf" {
		var buf bytes.Buffer
		l1, l2, err := func() (a, b int, err error) {
			defer func() {
				if r := recover(); r != nil {
					err = fmt.Errorf("panic")
				}
			}()
			return font.WritePDF(&buf)
		}()
		if err == nil {
			res = fmt.Sprintf("ok %s %d %d", hx(buf.Bytes()), l1, l2)
		}
	} else {
		var format type1.FileFormat
		for _, ff := range allFormats {
			if formatName(ff) == fmtName {
				format = ff
			}
		}
		data, err, pan := writeFont(font, format)
		if err == nil && pan == "" {
			res = "ok " + hx(data)
		}
	}
	o.emit(line, res, true)
}

// editInPlace changes a font through the pointers a caller holds: coordinates shifted, a stem value changed, one
// command replaced by another of the same kind, a width changed - all without changing any count
func editInPlace(font *type1.Font, step int) {
	var names []string
	for n := range font.Glyphs {
		names = append(names, n)
	}
	sort.Strings(names)
	for gi, n := range names {
		g := font.Glyphs[n]
		switch (gi + step) % 4 {
		case 0:
			for i := range g.Cmds {
				for k := range g.Cmds[i].Args {
					g.Cmds[i].Args[k] += float64(3 + step)
				}
			}
		case 1:
			if len(g.HStem) >= 2 {
				g.HStem[0] -= 2
			} else if len(g.Cmds) > 0 && len(g.Cmds[0].Args) > 0 {
				g.Cmds[0].Args[0] += 11
			}
		case 2:
			g.WidthX += 1
		}
	}
}

func t1writeCase(o *suiteOut, line string) {
	f := strings.Split(line, " ")
	font, integer, format := fontFromCase(f)
	t1wLine(o, font, f[3])
	if f[2] == "int" && len(font.Glyphs) <= 60 {
		// history: write, edit the font in place, write again (and once more): each output is that of the font as it
		// is now, nothing is remembered from the earlier write (the model is stateless)
		snap := deepCopyFont(font)
		editInPlace(font, 0)
		t1wLine(o, font, f[3])
		editInPlace(font, 1)
		t1wLine(o, font, f[3])
		o.count("writes after in-place edits")
		*font = *snap
	}
	if f[3] == "pdf" {
		var buf bytes.Buffer
		var l1, l2 int
		var err error
		pan := func() (p string) {
			defer func() {
				if r := recover(); r != nil {
					p = fmt.Sprint(r)
				}
			}()
			l1, l2, err = font.WritePDF(&buf)
			return ""
		}()
		if pan != "" || err != nil {
			o.fail("C08", "WritePDF succeeds", line, "nil", fmt.Sprint(err, pan))
			o.emit(line, "skip", true)
			return
		}
		data := buf.Bytes()
		sf, err := specDecodeFont(data)
		if err != nil {
			o.fail("C08", "the PDF embedding form is a conforming binary font program", line, "decodes", err.Error())
			o.emit(line, "skip", true)
			return
		}
		clearLen := len(sf.Clear)
		for clearLen < len(data) && isPSSpace(data[clearLen]) {
			clearLen++
		}
		if l1 != clearLen || l1+l2 != len(data) {
			o.fail("C08", "the two reported lengths are the sizes of the clear-text and of the encrypted portion", line, fmt.Sprintf("%d %d", clearLen, len(data)-clearLen), fmt.Sprintf("%d %d", l1, l2))
		}
		if d := compareSpecFont(font, sf, integer); d != "" {
			o.fail("C08", "an independent decoder recovers the font from the PDF embedding form", line, "equal", d)
		}
		o.emit(line, "skip", true)
		return
	}
	data, err, pan := writeFont(font, format)
	if pan != "" || err != nil {
		o.fail("C08", "writing a font of the writable domain succeeds", line, "nil", fmt.Sprint(err, pan))
		o.emit(line, "skip", true)
		return
	}
	sf, err := specDecodeFont(data)
	if err != nil {
		o.fail("C08", "the written bytes are a conforming Type 1 font program (container framing, eexec key 55665, charstring key 4330 with four lead bytes)", line, "decodes", err.Error())
		o.emit(line, "skip", true)
		return
	}
	if sf.Format != map[string]string{"pfa": "pfa", "pfb": "pfb", "binary": "binary", "noeexec": "clear"}[f[3]] {
		o.fail("C08", "the container format is the requested one", line, f[3], sf.Format)
	}
	if d := compareSpecFont(font, sf, integer); d != "" {
		o.fail("C08", "an independent decoder following the Adobe specification recovers the same font", line, "equal", d)
	}
	if sf.CipherHead != nil {
		h := sf.CipherHead
		allHex := isHexDigit(h[0]) && isHexDigit(h[1]) && isHexDigit(h[2]) && isHexDigit(h[3])
		if isPSSpace(h[0]) || allHex {
			o.fail("C08", "binary ciphertext starts with a non-white-space byte and has a non-hex byte among its first four", line, "not white / not all hex", fmt.Sprintf("%x", h))
		}
	}
	if format == type1.FormatPFB {
		if _, _, err := specUnwrapPFB(data); err != nil {
			o.fail("C08", "little-endian PFB segment framing ending in an end marker", line, "well-framed", err.Error())
		}
	}
	o.emit(line, "skip", len(font.Glyphs) > 1)
}

func suiteT1write(o *suiteOut, r *rng, tier string, n int) {
	for _, l := range corpusLines("t1write") {
		t1writeCase(o, l)
		o.count("corpus cases")
	}
	nr := 250
	if tier == "thorough" {
		nr = 12000
	}
	if n > 0 {
		nr = n
	}
	for i := 0; i < nr; i++ {
		seed := r.next() % 1000000007
		kind := pick(r, []string{"int", "frac"})
		if i == 0 || i%100 == 99 {
			kind = "bigint"
		}
		for _, ff := range []string{"pfa", "pfb", "binary", "noeexec", "pdf"} {
			t1writeCase(o, fmt.Sprintf("t1write %d %s %s", seed, kind, ff))
			o.count("format " + ff)
		}
	}
	for k := 236; k <= 260; k++ {
		for _, kk := range []int{k, k + 250} {
			t1writeCase(o, fmt.Sprintf("t1write %d longstr%d %s", 7000+kk, kk, []string{"pfa", "noeexec", "pdf"}[kk%3]))
			o.count("long text fields with a special byte at a chosen offset")
		}
	}
	o.notes = append(o.notes, "random fonts x {PFA, PFB, binary, no-eexec, PDF embedding}; direct oracle: the harness's own Type 1 decoder (written from the Adobe book) applied to the bytes the writer produced, the binary-start predicate, the PDF lengths, strict PFB framing")
}

// ---------------------------------------------------------------- C10

// unusualFont leaves the C09 domain in the ways C10 lists: fractional widths,
// odd hint counts, encodings naming absent glyphs, missing .notdef, empty strings.
func unusualFont(r *rng) *type1.Font {
	f := randFont(r, false)
	for _, g := range f.Glyphs {
		if r.chance(1, 2) {
			g.WidthX += pick(r, []float64{0.5, 0.25, 0.4999, 0.75})
		}
		if r.chance(1, 4) {
			g.HStem = append(g.HStem, 33)
		}
		if r.chance(1, 6) {
			g.WidthY = float64(r.rangeInt(-20, 20))
		}
		if r.chance(1, 5) {
			// negative and fractional advance widths (both axes): rounded to the nearest integer, halves away from zero
			g.WidthX = -float64(r.rangeInt(0, 300)) - pick(r, []float64{0, 0.2, 0.5, 0.7, 0.75})
			g.WidthY = pick(r, []float64{-8.0 / 3, -1.7, -0.5, 1.5, 2.5, -2.5, 0.4999})
		}
	}
	if r.chance(1, 3) {
		delete(f.Glyphs, ".notdef")
	}
	if f.Encoding != nil && r.chance(1, 2) {
		f.Encoding[r.intn(256)] = "absentglyph"
	}
	if r.chance(1, 3) {
		f.Private.BlueScale = 0.039625 + pick(r, []float64{5e-7, -5e-7, 2e-6})
	}
	return f
}

func quantisedEqual(a, b *type1.Font) string {
	// widths rounded, coordinates within 1/214, BlueScale snapped when within 1e-6 of its default
	a2 := *a
	glyphs := map[string]*type1.Glyph{}
	for n, g := range a.Glyphs {
		gg := *g
		gg.WidthX = math.Round(g.WidthX)
		gg.WidthY = math.Round(g.WidthY)
		glyphs[n] = &gg
	}
	a2.Glyphs = glyphs
	p := *a.Private
	if math.Abs(p.BlueScale-0.039625) <= 1e-6 {
		p.BlueScale = 0.039625
	}
	a2.Private = &p
	return compareFonts(&a2, b, 1.0/214+1e-9, false)
}

func t1closureCase(o *suiteOut, line string) {
	f := strings.Split(line, " ")
	seed, _ := strconv.ParseUint(f[1], 10, 64)
	var format type1.FileFormat
	for _, ff := range allFormats {
		if formatName(ff) == f[3] {
			format = ff
		}
	}
	var x []byte
	var err error
	var pan string
	if f[2] == "model" || f[2] == "bigmodel" || f[2] == "stdput" || strings.HasPrefix(f[2], "matrix") {
		// a font only a foreign writer produces: rendered by the harness's independent writer
		rr := newRng(seed)
		mf := randModelFont(rr)
		if f[2] == "bigmodel" {
			// more than 64 kB of charstrings (the length fields of a PFB file need more than two bytes)
			for i := 0; i < 1700; i++ {
				mf.glyphs[fmt.Sprintf("g%04d", i)] = randModelGlyph(rr)
			}
		}
		if strings.HasPrefix(f[2], "matrix") {
			// font matrices a reader accepts but no ordinary font has: all zeros, the identity, unequal, mirrored and tiny scales
			k, _ := strconv.Atoi(strings.TrimPrefix(f[2], "matrix"))
			sc := [][2]float64{{0, 0}, {1, 1}, {0.0005, 0.002}, {-0.001, 0.001}, {1e-300, 1e-300}, {0, 0.001}}[k%6]
			mf.matrix = [6]float64{sc[0], 0, 0, sc[1], 0, 0}
		}
		if f[2] == "stdput" {
			// the font has its own encoding array, which happens to say what the standard encoding says; glyphs A and B exist
			mf.stdEnc = false
			mf.encoding = append([]string{}, psenc.StandardEncoding[:]...)
			for _, n := range []string{"A", "B"} {
				if mf.glyphs[n] == nil {
					mf.glyphs[n] = randModelGlyph(rr)
				}
			}
		}
		x, _ = mf.render(rr)
		if f[2] == "stdput" {
			// ... and its program stores into StandardEncoding before that (legal: it is an ordinary array of this
			// interpreter); this must stay the private affair of the run that did it
			x = bytes.Replace(x, []byte("/FontName"), []byte("StandardEncoding 65 /B put StandardEncoding 39 /A put\n/FontName"), 1)
		}
	} else {
		src := unusualFont(newRng(seed))
		x, err, pan = writeFont(src, type1.FormatPFA)
		if err != nil || pan != "" {
			o.emit(line, "skip", false)
			return
		}
	}
	f1, err, pan := readFont(x)
	if pan != "" {
		o.fail("C01", "no panic in the Type 1 reader", line, "error value", pan)
	}
	if err != nil || f1 == nil {
		o.emit(line, "skip", false)
		return
	}
	d1, err, pan := writeFont(f1, format)
	if err != nil || pan != "" {
		o.fail("C10", "writing a font that was read succeeds without panic or error", line, "nil", fmt.Sprint(err, pan))
		o.emit(line, "skip", true)
		return
	}
	f2, err, pan := readFont(d1)
	if err != nil || pan != "" {
		o.fail("C10", "re-reading the written font succeeds", line, "nil", fmt.Sprint(err, pan))
		o.emit(line, "skip", true)
		return
	}
	if d := quantisedEqual(f1, f2); d != "" {
		o.fail("C10", "re-reading gives the same font up to the documented quantisation", line, "equal up to rounding", d)
	}
	d2, err, pan := writeFont(f2, format)
	if err != nil || pan != "" {
		o.fail("C10", "second write succeeds", line, "nil", fmt.Sprint(err, pan))
		o.emit(line, "skip", true)
		return
	}
	f3, err, pan := readFont(d2)
	if err != nil || pan != "" {
		o.fail("C10", "second re-read succeeds", line, "nil", fmt.Sprint(err, pan))
		o.emit(line, "skip", true)
		return
	}
	if d := compareFonts(f2, f3, 0, true); d != "" {
		o.fail("C10", "a second write/read cycle changes nothing at all", line, "identical", d)
	}
	o.emit(line, "skip", true)
}

func suiteT1closure(o *suiteOut, r *rng, tier string, n int) {
	for _, l := range corpusLines("t1closure") {
		t1closureCase(o, l)
		o.count("corpus cases")
	}
	nr := 200
	if tier == "thorough" {
		nr = 10000
	}
	if n > 0 {
		nr = n
	}
	for i, ff := range allFormats {
		t1closureCase(o, fmt.Sprintf("t1closure %d bigmodel %s", 9100+i, formatName(ff)))
		o.count("fonts with more than 64 kB of charstrings")
	}
	for k := 0; k < 6; k++ {
		for i, ff := range allFormats {
			t1closureCase(o, fmt.Sprintf("t1closure %d matrix%d %s", 9300+4*k+i, k, formatName(ff)))
			o.count("fonts with an unusual font matrix (zero, identity, unequal, mirrored, tiny)")
		}
	}
	for i := 0; i < 12; i++ {
		t1closureCase(o, fmt.Sprintf("t1closure %d stdput %s", 9200+i, formatName(allFormats[i%len(allFormats)])))
		o.count("font programs that store into StandardEncoding")
	}
	for i := 0; i < nr; i++ {
		seed := r.next() % 1000000007
		for _, ff := range allFormats {
			t1closureCase(o, fmt.Sprintf("t1closure %d frac %s", seed, formatName(ff)))
			t1closureCase(o, fmt.Sprintf("t1closure %d model %s", seed, formatName(ff)))
			o.count("format " + formatName(ff))
		}
	}
	o.notes = append(o.notes, "fonts with unusual but legal content (fractional widths and side bearings, sbw, odd hint counts, encodings naming absent glyphs, missing .notdef, BlueScale next to its default), and fonts rendered by the independent writer (every Private entry at and off its default, glyph names with bytes above 127, contours of up to 40 fractional segments, seac, flex, hint replacement), are read, written in each format, re-read twice; direct oracles: write never fails, F1~F2 up to rounding / 1/214 / BlueScale snap, F2 == F3")
}

func init() {
	suites["t1rt"] = suiteT1rt
	suites["t1write"] = suiteT1write
	suites["t1closure"] = suiteT1closure
	replayers["t1rt"] = t1rtCase
	replayers["t1write"] = t1writeCase
	replayers["t1closure"] = t1closureCase
}

func deepCopyFont(f *type1.Font) *type1.Font {
	c := *f
	c.Glyphs = map[string]*type1.Glyph{}
	for n, g := range f.Glyphs {
		gg := *g
		gg.Cmds = make([]type1.GlyphOp, len(g.Cmds))
		for i, cmd := range g.Cmds {
			gg.Cmds[i] = type1.GlyphOp{Op: cmd.Op, Args: append([]float64{}, cmd.Args...)}
		}
		gg.HStem = append(g.HStem[:0:0], g.HStem...)
		gg.VStem = append(g.VStem[:0:0], g.VStem...)
		c.Glyphs[n] = &gg
	}
	return &c
}
