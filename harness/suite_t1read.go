package main

// Suite `t1read` (C06): model fonts are written down by the harness's own
// Type 1 writer in every conforming way (container, lenIV, command choice,
// number encodings, subroutine factoring, flex, hint replacement, div, sbw,
// seac, RD/ND/NP vs -| |- |, StandardEncoding vs explicit array) and read by
// type1.Read; the result is compared field by field with the model font.
// The font program also goes through the Lean interpreter model (`run` line).

import (
	"fmt"
	"math"
	"sort"
	"strings"
	"time"

	"seehuhn.de/go/postscript/psenc"
	"seehuhn.de/go/postscript/type1"
)

type mPoint struct{ x, y rat2 }

// rat2 is p/q with small q (q = 1 for integers); value exactly representable
// decisions are made on p, q.
type rat2 struct{ p, q int }

func (r rat2) f() float64 { return float64(r.p) / float64(r.q) }

type mSeg struct {
	kind string // l, c
	pts  [3]mPoint
}

type mContour struct {
	start mPoint
	segs  []mSeg
}

type mGlyph struct {
	sbx, sby, wx, wy int
	useSbw           bool
	hstems, vstems   [][2]int // (pos, width) relative to the side bearing
	contours         []mContour
	seac             *[4]int // adx ady bchar achar (asb = sbx)
	sbxHalf          bool    // composites only: the side bearing (and asb) is sbx + 1/2
	wxr              rat2    // when wxr.q != 0: the advance width in x is this fraction (also negative), not wx
	dotsection       bool
}

type csWriter struct {
	r        *rng
	buf      []byte
	x, y     rat2 // current point as the interpreter will see it (absolute)
	subrs    *[][]byte
	depth    int
	lastKind string
}

func addR(a, b rat2) rat2 {
	if a.q == b.q {
		return rat2{a.p + b.p, a.q}
	}
	return rat2{a.p*b.q + b.p*a.q, a.q * b.q}
}

func subR(a, b rat2) rat2 { return addR(a, rat2{-b.p, b.q}) }

func (w *csWriter) num(v rat2) {
	if v.q != 1 && v.p%v.q == 0 {
		v = rat2{v.p / v.q, 1}
	}
	if v.q == 1 {
		if w.r.chance(1, 12) {
			w.buf = append(w.buf, csInt5(v.p)...)
		} else {
			w.buf = append(w.buf, csInt(v.p)...)
		}
		return
	}
	w.buf = append(w.buf, csInt(v.p)...)
	w.buf = append(w.buf, csInt(v.q)...)
	w.buf = append(w.buf, csOp(opDiv)...)
}

func (w *csWriter) op(o int) { w.buf = append(w.buf, csOp(o)...) }

func isZeroR(v rat2) bool { return v.p == 0 }

func (w *csWriter) moveTo(p mPoint) {
	dx, dy := subR(p.x, w.x), subR(p.y, w.y)
	switch {
	case isZeroR(dy) && w.r.chance(2, 3):
		w.num(dx)
		w.op(opHmoveto)
	case isZeroR(dx) && w.r.chance(2, 3):
		w.num(dy)
		w.op(opVmoveto)
	default:
		w.num(dx)
		w.num(dy)
		w.op(opRmoveto)
	}
	w.x, w.y = p.x, p.y
}

func (w *csWriter) lineTo(p mPoint) {
	dx, dy := subR(p.x, w.x), subR(p.y, w.y)
	switch {
	case isZeroR(dy) && w.r.chance(2, 3):
		w.num(dx)
		w.op(opHlineto)
	case isZeroR(dx) && w.r.chance(2, 3):
		w.num(dy)
		w.op(opVlineto)
	default:
		w.num(dx)
		w.num(dy)
		w.op(opRlineto)
	}
	w.x, w.y = p.x, p.y
}

func (w *csWriter) curveTo(a, b, c mPoint) {
	d := [6]rat2{subR(a.x, w.x), subR(a.y, w.y), subR(b.x, a.x), subR(b.y, a.y), subR(c.x, b.x), subR(c.y, b.y)}
	switch {
	case isZeroR(d[1]) && isZeroR(d[4]) && w.r.chance(2, 3):
		w.num(d[0])
		w.num(d[2])
		w.num(d[3])
		w.num(d[5])
		w.op(opHvcurveto)
	case isZeroR(d[0]) && isZeroR(d[5]) && w.r.chance(2, 3):
		w.num(d[1])
		w.num(d[2])
		w.num(d[3])
		w.num(d[4])
		w.op(opVhcurveto)
	default:
		for _, v := range d {
			w.num(v)
		}
		w.op(opRrcurveto)
	}
	w.x, w.y = c.x, c.y
}

// flex writes two curves (7 reference points) as a flex sequence.
func (w *csWriter) flex(c1, c2 mSeg) {
	w.num(rat2{0, 1})
	w.num(rat2{1, 1})
	w.op(opCallothersubr) // 0 1 callothersubr: flex start
	start := mPoint{w.x, w.y}
	// reference point: the joining point's x with the start's y (any point is legal)
	ref := mPoint{c1.pts[2].x, start.y}
	pts := []mPoint{ref, c1.pts[0], c1.pts[1], c1.pts[2], c2.pts[0], c2.pts[1], c2.pts[2]}
	for _, p := range pts {
		w.num(subR(p.x, w.x))
		w.num(subR(p.y, w.y))
		w.op(opRmoveto)
		w.x, w.y = p.x, p.y
		w.num(rat2{0, 1})
		w.num(rat2{2, 1})
		w.op(opCallothersubr) // 0 2 callothersubr: flex coordinate pair
	}
	w.num(rat2{50, 1})
	w.num(w.x)
	w.num(w.y)
	w.num(rat2{3, 1})
	w.num(rat2{0, 1})
	w.op(opCallothersubr)
	w.op(opPop)
	w.op(opPop)
	w.op(opSetcurrentpoint)
}

func (g *mGlyph) widthX() rat2 {
	if g.wxr.q != 0 {
		return g.wxr
	}
	return rat2{g.wx, 1}
}

func (g *mGlyph) charstring(r *rng, subrs *[][]byte) []byte {
	w := &csWriter{r: r, subrs: subrs}
	if g.useSbw {
		w.num(rat2{g.sbx, 1})
		w.num(rat2{g.sby, 1})
		w.num(g.widthX())
		w.num(rat2{g.wy, 1})
		w.op(opSbw)
	} else if g.seac != nil && g.sbxHalf {
		w.num(rat2{2*g.sbx + 1, 2})
		w.num(g.widthX())
		w.op(opHsbw)
	} else {
		w.num(rat2{g.sbx, 1})
		w.num(g.widthX())
		w.op(opHsbw)
	}
	w.x, w.y = rat2{g.sbx, 1}, rat2{g.sby, 1}
	if g.seac != nil && g.sbxHalf && !g.useSbw {
		// a side bearing that is not a whole number; asb repeats it exactly
		w.num(rat2{2*g.sbx + 1, 2})
		w.num(rat2{g.seac[0], 1})
		w.num(rat2{g.seac[1], 1})
		w.num(rat2{g.seac[2], 1})
		w.num(rat2{g.seac[3], 1})
		w.op(opSeac)
		return w.buf
	}
	if g.seac != nil {
		w.num(rat2{g.sbx, 1})
		w.num(rat2{g.seac[0], 1})
		w.num(rat2{g.seac[1], 1})
		w.num(rat2{g.seac[2], 1})
		w.num(rat2{g.seac[3], 1})
		w.op(opSeac)
		return w.buf
	}
	for _, s := range g.hstems {
		w.num(rat2{s[0], 1})
		w.num(rat2{s[1], 1})
		w.op(opHstem)
	}
	for _, s := range g.vstems {
		w.num(rat2{s[0], 1})
		w.num(rat2{s[1], 1})
		w.op(opVstem)
	}
	if g.dotsection {
		w.op(opDotsection)
	}
	for ci, c := range g.contours {
		if ci > 0 && r.chance(1, 4) {
			// hint replacement between contours: 4 1 3 callothersubr pop callsubr (subr 4 = return)
			w.num(rat2{3, 1})
			w.num(rat2{1, 1})
			w.num(rat2{3, 1})
			w.op(opCallothersubr)
			w.op(opPop)
			w.op(opCallsubr)
		}
		w.moveTo(c.start)
		for i := 0; i < len(c.segs); i++ {
			s := c.segs[i]
			if s.kind == "c" && i+1 < len(c.segs) && c.segs[i+1].kind == "c" && r.chance(1, 3) {
				w.flex(s, c.segs[i+1])
				i++
				continue
			}
			// factor a segment into a subroutine (nesting up to 3 here)
			if r.chance(1, 6) && len(*subrs) < 40 {
				save := w.buf
				w.buf = nil
				if s.kind == "l" {
					w.lineTo(s.pts[0])
				} else {
					w.curveTo(s.pts[0], s.pts[1], s.pts[2])
				}
				body := append(w.buf, csOp(opReturn)...)
				idx := len(*subrs)
				*subrs = append(*subrs, body)
				for k := r.intn(3); k > 0; k-- { // wrap in further levels
					*subrs = append(*subrs, cat(csInt(idx), csOp(opCallsubr), csOp(opReturn)))
					idx = len(*subrs) - 1
				}
				w.buf = save
				w.num(rat2{idx, 1})
				w.op(opCallsubr)
				continue
			}
			if s.kind == "l" {
				w.lineTo(s.pts[0])
			} else {
				w.curveTo(s.pts[0], s.pts[1], s.pts[2])
			}
		}
		w.op(opClosepath)
	}
	if r.chance(1, 8) && len(*subrs) < 100 {
		// the whole glyph in a subroutine: a charstring of three bytes (shorter than the customary four lead
		// bytes; with lenIV 0 or 1 it is shorter than 4 bytes even when encrypted)
		*subrs = append(*subrs, append(w.buf, csOp(opReturn)...))
		return cat(csInt(len(*subrs)-1), csOp(opCallsubr), csOp(opEndchar))
	}
	w.op(opEndchar)
	return w.buf
}

func (g *mGlyph) expected() *type1.Glyph {
	res := &type1.Glyph{WidthX: g.widthX().f(), WidthY: float64(g.wy)}
	for _, s := range g.hstems {
		res.HStem = append(res.HStem, funitI16(g.sby+s[0]), funitI16(g.sby+s[0]+s[1]))
	}
	for _, s := range g.vstems {
		res.VStem = append(res.VStem, funitI16(g.sbx+s[0]), funitI16(g.sbx+s[0]+s[1]))
	}
	for _, c := range g.contours {
		res.Cmds = append(res.Cmds, type1.GlyphOp{Op: type1.OpMoveTo, Args: []float64{c.start.x.f(), c.start.y.f()}})
		for _, s := range c.segs {
			if s.kind == "l" {
				res.Cmds = append(res.Cmds, type1.GlyphOp{Op: type1.OpLineTo, Args: []float64{s.pts[0].x.f(), s.pts[0].y.f()}})
			} else {
				res.Cmds = append(res.Cmds, type1.GlyphOp{Op: type1.OpCurveTo, Args: []float64{s.pts[0].x.f(), s.pts[0].y.f(), s.pts[1].x.f(), s.pts[1].y.f(), s.pts[2].x.f(), s.pts[2].y.f()}})
			}
		}
		res.Cmds = append(res.Cmds, type1.GlyphOp{Op: type1.OpClosePath})
	}
	return res
}

func randModelGlyph(r *rng) *mGlyph {
	g := &mGlyph{sbx: r.rangeInt(-50, 120), wx: r.rangeInt(0, 1500)}
	if r.chance(1, 8) {
		// fractional and negative advance widths (a foreign font may have them; the writer rounds to the nearest integer)
		g.wxr = pick(r, []rat2{{-17, 10}, {-3, 2}, {-1, 2}, {-8, 3}, {-1003, 4}, {5, 2}, {7, 2}, {1201, 2}, {-250, 1}})
	}
	if r.chance(1, 5) {
		g.useSbw = true
		g.sby = r.rangeInt(-30, 30)
		g.wy = r.rangeInt(-20, 20)
	}
	// widths: mostly positive; also the ghost stems (-20, -21), other negative widths and zero (a foreign font may
	// hold them: the edges are stored as given), in any order of positions
	width := func() int {
		if r.chance(1, 5) {
			return pick(r, []int{-20, -21, -19, -22, -1, -5, -100, 0})
		}
		return r.rangeInt(1, 200)
	}
	nh, nv := r.intn(3), r.intn(3)
	if r.chance(1, 8) {
		nh, nv = r.rangeInt(3, 5), r.rangeInt(3, 4)
	}
	for k := nh; k > 0; k-- {
		g.hstems = append(g.hstems, [2]int{r.rangeInt(-200, 800), width()})
	}
	for k := nv; k > 0; k-- {
		g.vstems = append(g.vstems, [2]int{r.rangeInt(-100, 800), width()})
	}
	g.dotsection = r.chance(1, 8)
	coord := func() rat2 {
		switch r.intn(6) {
		case 0:
			return rat2{r.rangeInt(-4000, 4000), pick(r, []int{2, 4, 8})}
		case 1:
			return rat2{r.rangeInt(-3000, 3000), pick(r, []int{3, 7, 10, 100})}
		case 2:
			// not representable by the library's encoder (denominator above 107): written back within 1/214
			return rat2{r.rangeInt(-300000, 300000), pick(r, []int{300, 997})}
		default:
			return rat2{r.rangeInt(-1200, 1200), 1}
		}
	}
	pt := func() mPoint { return mPoint{coord(), coord()} }
	if r.chance(1, 25) {
		// a glyph tens of millions of units from the origin, on a grid of halves (numerators of p/q beyond 2^31 / 107)
		base := pick(r, []int{60000001, -60000001, 40139889, 42949673, -45000003})
		pt = func() mPoint { return mPoint{rat2{base + 2*r.intn(2000), 2}, rat2{r.rangeInt(-1000, 1000), 1}} }
	}
	for k := r.intn(4); k > 0; k-- {
		c := mContour{start: pt()}
		cur := c.start
		nseg := r.rangeInt(1, 6)
		if r.chance(1, 12) {
			nseg = r.rangeInt(20, 40) // long contours: rounding must not accumulate along the path
		}
		for j := nseg; j > 0; j-- {
			if r.chance(1, 2) {
				p := pt()
				if r.chance(1, 3) {
					p.y = cur.y
				} else if r.chance(1, 3) {
					p.x = cur.x
				}
				c.segs = append(c.segs, mSeg{kind: "l", pts: [3]mPoint{p}})
				cur = p
			} else {
				a, b, e := pt(), pt(), pt()
				switch r.intn(3) {
				case 0:
					a.y, e.x = cur.y, b.x
				case 1:
					a.x, e.y = cur.x, b.y
				}
				c.segs = append(c.segs, mSeg{kind: "c", pts: [3]mPoint{a, b, e}})
				cur = e
			}
		}
		g.contours = append(g.contours, c)
	}
	return g
}

type modelFont struct {
	name        string
	forceFormat string // when set: the container of the rendering
	glyphs      map[string]*mGlyph
	info        map[string]string
	italic      float64
	fixed       bool
	ulPos       float64
	ulThick     float64
	matrix      [6]float64
	private     map[string]string
	encoding    []string // nil, or 256 names (possibly naming absent glyphs)
	stdEnc      bool
	date        time.Time
	dateText    string
}

func randModelFont(r *rng) *modelFont {
	f := &modelFont{name: pick(r, []string{"Test", "AB-Cd", "F"}), glyphs: map[string]*mGlyph{}, info: map[string]string{}, private: map[string]string{}}
	for _, k := range []string{"version", "Notice", "Copyright", "FullName", "FamilyName", "Weight"} {
		if r.chance(2, 3) {
			f.info[k] = randInfoString(r)
		}
	}
	f.italic = pick(r, []float64{0, -12, 7.5})
	f.fixed = r.chance(1, 3)
	f.ulPos = pick(r, []float64{-100, -75.5, 0})
	f.ulThick = pick(r, []float64{50, 12.25, 0})
	f.matrix = [6]float64{0.001, 0, 0, 0.001, 0, 0}
	if r.chance(1, 4) {
		f.matrix = [6]float64{0.0005, 0, 0, 0.0005, 0, 0}
	}
	std := []string{"A", "B", "C", "a", "b", "space", "zero", "exclam", "acute", "grave", "e"}
	other := []string{"uni0041", "a.alt", "f_i", "Aacute", "x-1", "\xc4\x80", "n\xc4\xa8", "\xff\xfe"} // names are byte strings: UTF-8 and non-UTF-8 bytes above 127
	for _, n := range append(std, other...) {
		if r.chance(1, 2) {
			f.glyphs[n] = randModelGlyph(r)
		}
	}
	if r.chance(4, 5) {
		f.glyphs[".notdef"] = &mGlyph{wx: r.rangeInt(0, 900)}
	}
	if f.glyphs["space"] == nil && r.chance(1, 2) {
		f.glyphs["space"] = &mGlyph{wx: r.rangeInt(100, 400)}
	}
	switch r.intn(4) {
	case 0:
	case 1:
		f.stdEnc = true
	default:
		f.encoding = make([]string, 256)
		for i := range f.encoding {
			f.encoding[i] = ".notdef"
		}
		for k := r.intn(15); k > 0; k-- {
			f.encoding[r.intn(256)] = pick(r, append(append([]string{}, std...), "absentglyph"))
		}
	}
	// accented composites: bchar and achar of seac are codes of the STANDARD encoding (e = 101, acute = 194,
	// grave = 193), whatever encoding the font itself has - or none; the composite declares its own width
	if f.glyphs["e"] != nil && f.glyphs["acute"] != nil && r.chance(1, 2) {
		bc, ac, gc := 101, 194, 193
		f.glyphs["eacute"] = &mGlyph{sbxHalf: r.chance(1, 2), sbx: r.rangeInt(0, 80), wx: r.rangeInt(0, 1500), seac: &[4]int{r.rangeInt(-50, 200), r.rangeInt(-50, 300), bc, ac}}
		// several composites on one base (and on one accent) must not influence each other
		if f.glyphs["grave"] != nil {
			f.glyphs["egrave"] = &mGlyph{sbxHalf: r.chance(1, 2), sbx: r.rangeInt(0, 80), wx: r.rangeInt(0, 1500), seac: &[4]int{r.rangeInt(-50, 200), r.rangeInt(-50, 300), bc, gc}}
		}
		if r.chance(1, 2) {
			f.glyphs["e.alt"] = &mGlyph{sbx: r.rangeInt(0, 80), wx: f.glyphs["e"].wx, seac: &[4]int{r.rangeInt(-50, 200), r.rangeInt(-50, 300), bc, ac}}
		}
	}
	if r.chance(1, 2) {
		f.private["BlueValues"] = "[-10 0 500 510]"
	}
	if r.chance(1, 3) {
		f.private["OtherBlues"] = "[-250 -240]"
	}
	if r.chance(1, 3) {
		f.private["BlueScale"] = pick(r, []string{"0.05", ".0375"})
	}
	if r.chance(1, 3) {
		f.private["BlueShift"] = fmt.Sprint(r.rangeInt(0, 20))
	}
	if r.chance(1, 3) {
		f.private["BlueFuzz"] = fmt.Sprint(r.rangeInt(0, 5))
	}
	if r.chance(1, 2) {
		f.private["StdHW"] = pick(r, []string{"[50]", "[62.5]"})
	}
	if r.chance(1, 2) {
		f.private["StdVW"] = pick(r, []string{"[80]", "[91.25]"})
	}
	if r.chance(1, 3) {
		f.private["ForceBold"] = pick(r, []string{"true", "false"})
	}
	if r.chance(2, 3) {
		f.date = time.Date(1990+r.intn(40), time.Month(1+r.intn(12)), 1+r.intn(28), r.intn(24), r.intn(60), r.intn(60), 0, time.UTC)
		switch r.intn(3) {
		case 0:
			f.dateText = f.date.Format("2006-01-02 15:04:05 -0700 MST")
		case 1:
			f.dateText = f.date.Format("Mon Jan 2 15:04:05 2006")
		default:
			f.dateText = f.date.Format("Mon, 2 Jan 2006 15:04:05")
		}
	}
	return f
}

func funitI16(v int) (r funitInt16) { return funitInt16(v) }

func (mf *modelFont) render(r *rng) ([]byte, string) {
	rf, l := mf.renderParts(r)
	desc := fmt.Sprintf("%s lenIV=%d alt=%v", l.Format, rf.LenIV, l.AltNames)
	return rf.render(l), desc
}

// renderParts gives the independent writer's view of the font and a random conforming layout
func (mf *modelFont) renderParts(r *rng) (*renderFont, renderLayout) {
	rf := &renderFont{FontName: mf.name, Glyphs: map[string][]byte{}, StdEncoding: mf.stdEnc, Encoding: mf.encoding, CreationDate: mf.dateText}
	var keys []string
	for k := range mf.info {
		keys = append(keys, k)
	}
	sort.Strings(keys)
	r.shuffleStrings(keys)
	for _, k := range keys {
		rf.Info = append(rf.Info, [2]string{k, psStringLit(mf.info[k])})
	}
	italic := fmt.Sprint(mf.italic)
	if mf.italic == math.Trunc(mf.italic) && r.chance(1, 2) {
		italic = fmt.Sprintf("%.1f", mf.italic) // a whole number spelled as a real
	}
	rf.Info = append(rf.Info, [2]string{"ItalicAngle", italic}, [2]string{"isFixedPitch", fmt.Sprint(mf.fixed)},
		[2]string{"UnderlinePosition", fmt.Sprint(mf.ulPos)}, [2]string{"UnderlineThickness", fmt.Sprint(mf.ulThick)})
	rf.FontMatrix = fmt.Sprintf("[%g 0 0 %g 0 0]", mf.matrix[0], mf.matrix[3])
	var pk []string
	for k := range mf.private {
		pk = append(pk, k)
	}
	sort.Strings(pk)
	r.shuffleStrings(pk)
	for _, k := range pk {
		rf.Private = append(rf.Private, [2]string{k, mf.private[k]})
	}
	subrs := [][]byte{cat(csInt(3), csInt(0), csOp(opCallothersubr), csOp(opPop), csOp(opPop), csOp(opSetcurrentpoint), csOp(opReturn)),
		cat(csInt(0), csInt(1), csOp(opCallothersubr), csOp(opReturn)), cat(csInt(0), csInt(2), csOp(opCallothersubr), csOp(opReturn)),
		csOp(opReturn), csOp(opReturn)}
	var names []string
	for n := range mf.glyphs {
		names = append(names, n)
	}
	sort.Strings(names)
	for _, n := range names {
		rf.Glyphs[n] = mf.glyphs[n].charstring(r, &subrs)
	}
	rf.Subrs = subrs
	rf.LenIV = pick(r, []int{-1, -1, 4, 0, 1, 7})
	_ = 0
	l := renderLayout{Format: pick(r, []string{"pfa", "pfa", "binary", "pfb", "clear"}), AltNames: r.chance(1, 2), HexUpper: r.chance(1, 2),
		HexWidth: pick(r, []int{32, 2, 3, 40, 1000000}), HexDigits: pick(r, []int{0, 0, 0, 1, 5, 7, 33, 63, 64, 65, 79, 255}), WS: pick(r, []string{" ", "  ", "\t", " % comment\n"}), CSIV: byte(r.intn(256))}
	if mf.forceFormat != "" {
		l.Format = mf.forceFormat
	}
	// every sixth layout: lead bytes whose first cipher byte is one of the bytes a sloppy white-space test would take
	// for white space or a delimiter (NUL, form feed, vertical tab, 0x85, 0xa0, '%', '('); all are legal first bytes
	wantFirst := -1
	if r.chance(1, 6) {
		wantFirst = pick(r, []int{0x00, 0x0c, 0x0b, 0x85, 0xa0, '%', '(', 0x1c, 0x7f, 0xff})
	}
	// ... and every eighth: four chosen cipher bytes - a hex digit followed by hex digits and white space (legal for
	// the binary form: not all four are hex digits, the first is not white space)
	var wantAll []byte
	if wantFirst < 0 && r.chance(1, 8) {
		wantAll = []byte(pick(r, []string{"a\nbc", "7 2F", "DE\r1", "0\t00", "f  f", "A\n\nB", "9\r\n0", "c0 \t"}))
	}
	for {
		l.IV = [4]byte{byte(r.intn(256)), byte(r.intn(256)), byte(r.intn(256)), byte(r.intn(256))}
		if wantFirst >= 0 {
			l.IV[0] = byte(wantFirst) ^ byte(55665>>8) // first cipher byte = plain ^ (R >> 8)
		}
		if wantAll != nil {
			// decrypting the wanted cipher bytes gives the lead bytes to use
			var R uint16 = 55665
			for i, c := range wantAll {
				l.IV[i] = c ^ byte(R>>8)
				R = (uint16(c)+R)*52845 + 22719
			}
		}
		// a legal prefix for binary eexec: the first cipher byte is not white space and
		// the first four cipher bytes are not all hex digits
		c := cipherEncrypt(55665, l.IV[:])
		allHex := isHexDigit(c[0]) && isHexDigit(c[1]) && isHexDigit(c[2]) && isHexDigit(c[3])
		if !(c[0] == ' ' || c[0] == '\t' || c[0] == '\r' || c[0] == '\n') && !allHex {
			break
		}
	}
	return rf, l
}

func (r *rng) shuffleStrings(s []string) {
	for i := len(s) - 1; i > 0; i-- {
		j := r.intn(i + 1)
		s[i], s[j] = s[j], s[i]
	}
}

func (mf *modelFont) expected() *type1.Font {
	f := &type1.Font{FontInfo: &type1.FontInfo{FontName: mf.name, Version: mf.info["version"], Notice: mf.info["Notice"], Copyright: mf.info["Copyright"],
		FullName: mf.info["FullName"], FamilyName: mf.info["FamilyName"], Weight: mf.info["Weight"], ItalicAngle: mf.italic, IsFixedPitch: mf.fixed,
		FontMatrix: mf.matrix}, Private: &type1.PrivateDict{BlueScale: 0.039625, BlueShift: 7, BlueFuzz: 1}, Glyphs: map[string]*type1.Glyph{}}
	f.FontInfo.UnderlinePosition = funitFloat(mf.ulPos)
	f.FontInfo.UnderlineThickness = funitFloat(mf.ulThick)
	p := f.Private
	for k, v := range mf.private {
		var a, b, c, d int
		var x float64
		switch k {
		case "BlueValues":
			fmt.Sscanf(v, "[%d %d %d %d]", &a, &b, &c, &d)
			p.BlueValues = []funitInt16{funitInt16(a), funitInt16(b), funitInt16(c), funitInt16(d)}
		case "OtherBlues":
			fmt.Sscanf(v, "[%d %d]", &a, &b)
			p.OtherBlues = []funitInt16{funitInt16(a), funitInt16(b)}
		case "BlueScale":
			fmt.Sscanf(v, "%g", &x)
			p.BlueScale = x
		case "BlueShift":
			fmt.Sscanf(v, "%d", &a)
			p.BlueShift = int32(a)
		case "BlueFuzz":
			fmt.Sscanf(v, "%d", &a)
			p.BlueFuzz = int32(a)
		case "StdHW":
			fmt.Sscanf(v, "[%g]", &x)
			p.StdHW = x
		case "StdVW":
			fmt.Sscanf(v, "[%g]", &x)
			p.StdVW = x
		case "ForceBold":
			p.ForceBold = v == "true"
		}
	}
	for n, g := range mf.glyphs {
		f.Glyphs[n] = g.expected()
	}
	// encoding: codes of absent glyphs map to .notdef
	var enc []string
	if mf.stdEnc {
		enc = append([]string{}, psenc.StandardEncoding[:]...)
	} else if mf.encoding != nil {
		enc = append([]string{}, mf.encoding...)
	}
	// composites: base outline plus the accent shifted by (adx, ady); hints of the base, the composite's own width
	for n, g := range mf.glyphs {
		if g.seac == nil {
			continue
		}
		base, accent := f.Glyphs[psenc.StandardEncoding[g.seac[2]]], f.Glyphs[psenc.StandardEncoding[g.seac[3]]]
		own := g.expected()
		comp := &type1.Glyph{WidthX: own.WidthX, WidthY: own.WidthY, HStem: base.HStem, VStem: base.VStem}
		comp.Cmds = append(comp.Cmds, base.Cmds...)
		for _, c := range accent.Cmds {
			args := append([]float64{}, c.Args...)
			for i := range args {
				if i%2 == 0 {
					args[i] += float64(g.seac[0])
				} else {
					args[i] += float64(g.seac[1])
				}
			}
			comp.Cmds = append(comp.Cmds, type1.GlyphOp{Op: c.Op, Args: args})
		}
		f.Glyphs[n] = comp
	}
	if _, ok := f.Glyphs[".notdef"]; !ok {
		w := 0.0
		if g, ok := f.Glyphs["space"]; ok {
			w = g.WidthX
		}
		f.Glyphs[".notdef"] = &type1.Glyph{WidthX: w}
	}
	for i, n := range enc {
		if _, ok := f.Glyphs[n]; !ok {
			enc[i] = ".notdef"
		}
	}
	f.Encoding = enc
	f.CreationDate = mf.date
	return f
}

func t1readCase(o *suiteOut, line string) {
	f := strings.Split(line, " ")
	var seed uint64
	fmt.Sscan(f[1], &seed)
	r := newRng(seed)
	mf := randModelFont(r)
	if f[0] == "t1readbig" {
		// a font whose eexec section is longer than 64 kB (PFB segment lengths need more than two bytes)
		for i := 0; i < 1700; i++ {
			mf.glyphs[fmt.Sprintf("g%04d", i)] = randModelGlyph(r)
		}
		mf.forceFormat = f[2]
	}
	data, desc := mf.render(r)
	got, err, pan := readFont(data)
	if pan != "" {
		o.fail("C01", "no panic in the Type 1 reader", line, "error value", pan)
		o.emit(line, "skip", true)
		return
	}
	if err != nil {
		o.fail("C06", "a conforming Type 1 program is accepted", line+" ("+desc+")", "font", err.Error())
		o.emit(line, "skip", true)
		return
	}
	want := mf.expected()
	if d := compareFontsLoose(want, got); d != "" {
		o.fail("C06", "the reader returns exactly the described font", line+" ("+desc+")", "equal", d)
	}
	o.emit(line, "skip", true)
	o.count("layout " + strings.Split(desc, " ")[0])
	// the same font program through the interpreter model (size limited)
	if len(data) < 12000 && strings.HasPrefix(f[0], "t1read") {
		res, _, _ := runProgram(3000000, true, data)
		o.emit(runCaseLine(3000000, true, string(data)), res, true)
		o.count("font programs through the interpreter model")
	}
	if len(data) < 20000 {
		t1rLine(o, data)
		o.count("fonts through the reader model (t1r)")
	}
}

// compareFontsLoose: exact where arithmetic is exact, 1e-9 relative otherwise;
// stems compared on the even prefix.
func compareFontsLoose(a, b *type1.Font) string {
	for n, ga := range a.Glyphs {
		gb := b.Glyphs[n]
		if gb == nil {
			return "glyph " + n + " missing"
		}
		if len(ga.Cmds) != len(gb.Cmds) {
			return fmt.Sprintf("glyph %s: %d commands vs %d\n%v\n%v", n, len(ga.Cmds), len(gb.Cmds), ga.Cmds, gb.Cmds)
		}
		for i := range ga.Cmds {
			if ga.Cmds[i].Op != gb.Cmds[i].Op {
				return fmt.Sprintf("glyph %s command %d: %v vs %v", n, i, ga.Cmds[i], gb.Cmds[i])
			}
			for k := range ga.Cmds[i].Args {
				x, y := ga.Cmds[i].Args[k], gb.Cmds[i].Args[k]
				if math.Abs(x-y) > 1e-9*math.Max(1, math.Abs(x)) {
					return fmt.Sprintf("glyph %s command %d arg %d: %v vs %v", n, i, k, x, y)
				}
			}
		}
	}
	return compareFonts(a, b, 1e9, false)
}

func suiteT1read(o *suiteOut, r *rng, tier string, n int) {
	for _, l := range corpusLines("t1read") {
		t1readCase(o, l)
		o.count("corpus cases")
	}
	nr := 400
	if tier == "thorough" {
		nr = 30000
	}
	if n > 0 {
		nr = n
	}
	for i := 0; i < nr; i++ {
		t1readCase(o, fmt.Sprintf("t1read %d", r.next()%1000000007))
	}
	nbig := 3
	if tier == "thorough" {
		nbig = 40
	}
	for i := 0; i < nbig; i++ {
		t1readCase(o, fmt.Sprintf("t1readbig %d %s", r.next()%1000000007, []string{"pfb", "binary", "pfa"}[i%3]))
		o.count("fonts with more than 64 kB of charstrings")
	}
	o.notes = append(o.notes, "model fonts (glyph sets, integer and rational coordinates, stems, sbw, composites, info strings over all bytes, private values, dates in three layouts) x layouts of the harness's own Type 1 writer (PFA upper/lower hex with any line width, binary, PFB, unencrypted; lenIV absent/0/1/4/7; hlineto vs rlineto, 5-byte numbers, p q div, subroutine factoring with nesting, flex after move/line/curve, hint replacement, dotsection; RD/ND/NP or -| |- |; StandardEncoding or explicit array naming absent glyphs); direct oracle: field-by-field comparison with the model font; the font programs below 12 kB also run through the Lean interpreter model")
}

func init() {
	suites["t1read"] = suiteT1read
	replayers["t1read"] = t1readCase
}
