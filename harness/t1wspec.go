package main

// fontSpec encodes a *type1.Font for the `t1w` verb of the Lean writer model (see lean/Driver/T1WriteDriver.lean).

import (
	"encoding/hex"
	"fmt"
	"math"
	"sort"
	"strconv"
	"strings"

	"seehuhn.de/go/postscript/funit"
	"seehuhn.de/go/postscript/type1"
)

func fontSpec(f *type1.Font) string {
	hx := func(s string) string {
		if s == "" {
			return "-"
		}
		return hex.EncodeToString([]byte(s))
	}
	fl := func(x float64) string { return fmt.Sprintf("%016x", math.Float64bits(x)) }
	b := func(x bool) string { return map[bool]string{false: "0", true: "1"}[x] }
	ints := func(xs []funit.Int16) string {
		var ss []string
		for _, x := range xs {
			ss = append(ss, strconv.Itoa(int(x)))
		}
		return strings.Join(ss, ",")
	}
	fls := func(xs []float64) string {
		var ss []string
		for _, x := range xs {
			ss = append(ss, fl(x))
		}
		return strings.Join(ss, "_")
	}
	fi, p := f.FontInfo, f.Private
	var enc, gl []string
	for _, e := range f.Encoding {
		if e == ".notdef" {
			enc = append(enc, "n")
		} else {
			enc = append(enc, hx(e))
		}
	}
	var names []string
	for n := range f.Glyphs {
		names = append(names, n)
	}
	sort.Strings(names)
	for _, name := range names {
		g := f.Glyphs[name]
		var cmds []string
		for _, c := range g.Cmds {
			cmds = append(cmds, string("?mlcz"[c.Op%5])+fls(c.Args))
		}
		gl = append(gl, strings.Join([]string{hx(name), fl(g.WidthX), fl(g.WidthY),
			ints(g.HStem), ints(g.VStem), strings.Join(cmds, ",")}, ":"))
	}
	date := ""
	if !f.CreationDate.IsZero() {
		date = hx(f.CreationDate.Format("2006-01-02 15:04:05 -0700 MST"))
	}
	return strings.Join([]string{
		"fn=" + hx(fi.FontName), "ver=" + hx(fi.Version), "not=" + hx(fi.Notice),
		"cop=" + hx(fi.Copyright), "full=" + hx(fi.FullName), "fam=" + hx(fi.FamilyName),
		"wt=" + hx(fi.Weight), "ia=" + fl(fi.ItalicAngle), "fp=" + b(fi.IsFixedPitch),
		"up=" + fl(float64(fi.UnderlinePosition)), "ut=" + fl(float64(fi.UnderlineThickness)),
		"fm=" + fls(fi.FontMatrix[:]), "bv=" + ints(p.BlueValues), "ob=" + ints(p.OtherBlues),
		"bs=" + fl(p.BlueScale), "bsh=" + strconv.Itoa(int(p.BlueShift)),
		"bf=" + strconv.Itoa(int(p.BlueFuzz)), "hw=" + fl(p.StdHW), "vw=" + fl(p.StdVW),
		"fb=" + b(p.ForceBold), "date=" + date, "enc=" + strings.Join(enc, ","),
		"gl=" + strings.Join(gl, "|"),
	}, ";")
}
