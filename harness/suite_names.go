package main

// Suite `names` (C16): glyph names <-> Unicode.
// cases: `tou <dingbats> <hex name>` -> code points; `fromu <r>` -> hex name; `valid <hex name>` -> bool.

import (
	"bufio"
	"fmt"
	"os"
	"os/exec"
	"path/filepath"
	"strconv"
	"strings"

	"seehuhn.de/go/postscript/type1/names"
)

var repoDir = "/repo"

func runesStr(rr []rune) string {
	p := make([]string, len(rr))
	for i, r := range rr {
		p[i] = strconv.Itoa(int(r))
	}
	return strings.Join(p, ",")
}

func readGlyphTable(file string, nameCol, codeCol, cols int) [][2]string {
	fd, err := os.Open(filepath.Join(repoDir, "type1/names/agl-aglfn", file))
	must(err)
	defer fd.Close()
	var res [][2]string
	sc := bufio.NewScanner(fd)
	for sc.Scan() {
		line := sc.Text()
		if line == "" || line[0] == '#' {
			continue
		}
		f := strings.SplitN(line, ";", cols)
		res = append(res, [2]string{f[nameCol], f[codeCol]})
	}
	return res
}

func parseCodes(s string) []rune {
	var res []rune
	for _, w := range strings.Fields(s) {
		v, err := strconv.ParseUint(w, 16, 32)
		must(err)
		res = append(res, rune(v))
	}
	return res
}

func equalRunes(a, b []rune) bool {
	if len(a) != len(b) {
		return false
	}
	for i := range a {
		if a[i] != b[i] {
			return false
		}
	}
	return true
}

// specIsValid is the validity rule of the AGL specification.
func specIsValid(s string) bool {
	if s == ".notdef" {
		return true
	}
	if len(s) < 1 || len(s) > 31 {
		return false
	}
	for i := 0; i < len(s); i++ {
		c := s[i]
		ok := c >= 'A' && c <= 'Z' || c >= 'a' && c <= 'z' || c >= '0' && c <= '9' || c == '.' || c == '_'
		if !ok {
			return false
		}
	}
	return !(s[0] >= '0' && s[0] <= '9' || s[0] == '.')
}

func touCase(o *suiteOut, name string, dingbats bool, want []rune, wantKnown bool, oracle string) {
	d := 0
	if dingbats {
		d = 1
	}
	line := fmt.Sprintf("tou %d %s", d, hx([]byte(name)))
	got := names.ToUnicode(name, dingbats)
	if wantKnown && !equalRunes(got, want) {
		o.fail("C16", oracle, line, runesStr(want), runesStr(got))
	}
	o.emit(line, runesStr(got), len(got) > 0)
}

func replayNames(o *suiteOut, line string) {
	f := strings.Split(line, " ")
	switch f[0] {
	case "tou":
		touCase(o, string(unhx(f[2])), f[1] == "1", nil, false, "")
	case "fromu":
		v, _ := strconv.Atoi(f[1])
		o.emit(line, hx([]byte(names.FromUnicode(rune(v)))), true)
	case "valid":
		o.emit(line, strconv.FormatBool(names.IsValid(string(unhx(f[1])))), true)
	}
}

// nameHistories: what a process may do first with the glyph-name functions. Every look-up must give the answer it gives
// in any other process, whatever was looked up before (the tables are loaded lazily, one per list).
var nameHistories = [][]string{
	{"1:a1", "0:dalethatafpatah", "0:A", "1:A_lamedholamdagesh.alt", "0:lamedholamdagesh"},
	{"1:a2_dalethatafpatah", "0:dalethatafpatah", "1:a2"},
	{"0:A", "0:dalethatafpatah", "1:a1", "0:a1"},
	{"1:dalethatafpatah", "0:dalethatafpatah", "1:A"},
	{"F:1425", "0:dalethatafpatah", "1:a7_a8"},
	{"V:a.b", "1:a100", "0:finalkafqamats", "F:10003"},
	{"0:nosuchname", "1:nosuchname", "0:rehatafsegol", "1:a5"},
	{"1:uni0041", "1:a1_a2", "0:f_f_i", "0:hehfinalalttwoarabic"},
	{"0:uni05D3", "1:a10", "0:dalethatafpatah", "0:Tcommaaccent"},
}

func namesHistory(i int) []string {
	var out []string
	for _, step := range nameHistories[i%len(nameHistories)] {
		arg := step[2:]
		switch step[0] {
		case 'F':
			v, _ := strconv.Atoi(arg)
			out = append(out, step+" -> "+names.FromUnicode(rune(v)))
		case 'V':
			out = append(out, step+" -> "+strconv.FormatBool(names.IsValid(arg)))
		default:
			out = append(out, step+" -> "+runesStr(names.ToUnicode(arg, step[0] == '1')))
		}
	}
	return out
}

func suiteNames(o *suiteOut, r *rng, tier string, n int) {
	defer func() {
		// histories in fresh processes against the answers of this (by now fully checked) process
		self, _ := os.Executable()
		for i := range nameHistories {
			outB, err := exec.Command(self, "nameschild", "-n", fmt.Sprint(i)).Output()
			line := fmt.Sprintf("names history %d", i)
			if err != nil {
				o.fail("C16", "child process runs", line, "exit 0", err.Error())
				continue
			}
			got := strings.Split(strings.TrimSpace(string(outB)), "\n")
			want := namesHistory(i)
			for k := range want {
				g := "<missing>"
				if k < len(got) {
					g = got[k]
				}
				if strings.TrimSpace(g) != strings.TrimSpace(want[k]) {
					o.fail("C16", "a look-up answers the same whatever this process looked up before (step "+fmt.Sprint(k)+" of a history in a fresh process)", line+" "+strings.Join(nameHistories[i][:k+1], ","), want[k], g)
				}
			}
			o.count("look-up histories in fresh processes")
		}
	}()
	// the very first look-up of the process (the tables are loaded lazily) answers like every later one
	for _, c := range []struct {
		name string
		want []rune
	}{{"dalethatafpatah", []rune{0x05D3, 0x05B2}}, {"Aacute", []rune{0xC1}}} {
		if got := names.ToUnicode(c.name, false); string(got) != string(c.want) {
			o.fail("C16", "the first look-up of a process gives the listed text", "tou 0 "+hx([]byte(c.name))+" (first call)", fmt.Sprint(c.want), fmt.Sprint(got))
		}
	}
	for _, l := range corpusLines("names") {
		replayNames(o, l)
		o.count("corpus cases")
	}
	// 1. every Unicode scalar value: name -> text -> same character (or its expansion), names distinct.
	//    Exhaustive on the implementation; every 16th value (and the whole BMP below U+3000) also goes to the model.
	seen := make(map[string]rune, 1200000)
	for v := rune(0); v <= 0x10FFFF; v++ {
		if v >= 0xD800 && v < 0xE000 {
			continue
		}
		name := names.FromUnicode(v)
		want, isCompat := compatExpansions[v]
		if !isCompat {
			want = []rune{v}
		}
		got := names.ToUnicode(name, false)
		if !equalRunes(got, want) {
			o.fail("C16", "the name chosen for a character maps back to it (or its documented expansion)", fmt.Sprintf("fromu %d", v), runesStr(want), name+" -> "+runesStr(got))
		}
		if prev, dup := seen[name]; dup {
			o.fail("C16", "different characters never share a name", fmt.Sprintf("fromu %d", v), "distinct names", fmt.Sprintf("%q also for U+%04X", name, prev))
		}
		seen[name] = v
		if v < 0x3000 || v%16 == 5 || v >= 0x10FF00 {
			o.emit(fmt.Sprintf("fromu %d", v), hx([]byte(name)), true)
		} else {
			o.n++
		}
	}
	o.count("scalar values (exhaustive on the implementation)")
	o.exhaustive = true
	// 2. every entry of the three lists
	for _, e := range readGlyphTable("glyphlist.txt", 0, 1, 2) {
		touCase(o, e[0], false, parseCodes(e[1]), true, "glyph list entry maps to the listed text")
		o.count("glyphlist entries")
	}
	for _, e := range readGlyphTable("zapfdingbats.txt", 0, 1, 2) {
		touCase(o, e[0], true, parseCodes(e[1]), true, "Zapf Dingbats entry maps to the listed text")
		o.count("dingbats entries")
	}
	// the same name under the other table right after a hit (the look-ups share lazily loaded state; a result must
	// not depend on what was looked up before): decided by the stateless model
	for i, e := range readGlyphTable("zapfdingbats.txt", 0, 1, 2) {
		touCase(o, e[0], true, nil, false, "")
		touCase(o, e[0], false, nil, false, "")
		if i%4 == 0 {
			touCase(o, e[0], true, nil, false, "")
			touCase(o, e[0]+"_A.alt", false, nil, false, "")
			touCase(o, "A_"+e[0], true, nil, false, "")
		}
		o.count("dingbats names under both tables in turn")
	}
	for i, e := range readGlyphTable("glyphlist.txt", 0, 1, 2) {
		if i%9 == 0 {
			touCase(o, e[0], false, nil, false, "")
			touCase(o, e[0], true, nil, false, "")
			touCase(o, e[0], false, nil, false, "")
		}
	}
	for _, e := range readGlyphTable("aglfn.txt", 1, 0, 3) {
		touCase(o, e[0], false, parseCodes(e[1]), true, "AGLFN name maps to its character")
		o.count("aglfn entries")
	}
	// names at the length limit of 31 characters: uni forms of 1..8 groups (7 groups = 31 characters), components
	// and suffixes that bring a name to 30, 31, 32 characters
	for g := 1; g <= 8; g++ {
		name := "uni"
		var want []rune
		for k := 0; k < g; k++ {
			name += fmt.Sprintf("%04X", 0x41+k)
			want = append(want, rune(0x41+k))
		}
		touCase(o, name, false, nil, false, "")
		touCase(o, name+".a", false, nil, false, "")
		touCase(o, "A_"+name, false, nil, false, "")
		o.emit("valid "+hx([]byte(name)), strconv.FormatBool(names.IsValid(name)), true)
		if g <= 7 && !equalRunes(names.ToUnicode(name, false), want) {
			o.fail("C16", "a well-formed uniXXXX... name of up to 31 characters maps to its characters", "tou 0 "+hx([]byte(name)), runesStr(want), runesStr(names.ToUnicode(name, false)))
		}
		o.count("uni names of 1..8 groups")
	}
	for _, ln := range []int{29, 30, 31, 32, 33} {
		for _, base := range []string{"A", "uni0041", "u1F600", "f_f_i", "a7"} {
			name := base + "." + strings.Repeat("x", ln-len(base)-1)
			touCase(o, name, false, nil, false, "")
			touCase(o, name, true, nil, false, "")
			name2 := base + strings.Repeat("_A", (ln-len(base))/2)
			touCase(o, name2, false, nil, false, "")
			o.emit("valid "+hx([]byte(name)), strconv.FormatBool(names.IsValid(name)), true)
			o.emit("valid "+hx([]byte(name2)), strconv.FormatBool(names.IsValid(name2)), true)
			o.count("names around 31 characters")
		}
	}
	// 3. uniXXXX and uXXXX.. forms
	step := 1
	if tier != "thorough" {
		step = 7
	}
	for v := 0; v <= 0xFFFF; v += step {
		var want []rune
		if v < 0xD800 || v >= 0xE000 {
			want = []rune{rune(v)}
		}
		touCase(o, fmt.Sprintf("uni%04X", v), false, want, true, "uniXXXX maps exactly when well-formed and not a surrogate")
		touCase(o, fmt.Sprintf("u%04X", v), false, want, true, "uXXXX maps exactly when well-formed and not a surrogate")
		o.count("uni/u names over the BMP")
	}
	for _, v := range []int{0x10000, 0x10FFFF, 0x110000, 0x1F600, 0xFFFFF, 0x100000, 0xFFFFFF, 0x1000000} {
		var want []rune
		if v < 0x110000 {
			want = []rune{rune(v)}
		}
		s := fmt.Sprintf("u%X", v)
		if len(s) > 7 {
			want = nil
		}
		touCase(o, s, false, want, true, "uXXXXXX maps exactly below 0x110000")
		touCase(o, fmt.Sprintf("u%06X", v), false, want, len(fmt.Sprintf("%06X", v)) == 6, "uXXXXXX maps exactly below 0x110000")
	}
	for _, s := range []string{"uni", "uni0041", "uni00410042", "uni004", "uni0041004", "unid800", "uniD800", "uniDFFF", "uniE000", "uni004g", "uni00a0", "uni00A0", "u0041", "u041", "u00041", "u000041", "u0000041", "uD800", "uDFFF", "ud800", "u00a0", "u110000", "u10FFFF", "uniFFFFFFFF", "uni0041D800", ".notdef", "", "_", "__", "A_", "_A", "A__B", "A.B_C", ".A", "A.", "A._B", "fi", "f_i", "ffi", "f_f_i", "Tcommaaccent", "tcommaaccent", "dalethatafpatah", "space_uni0020_u0020", "a100", "nonexistent", "A_nonexistent_B"} {
		touCase(o, s, false, nil, false, "")
		touCase(o, s, true, nil, false, "")
	}
	// 4. random composites: concatenation over underscores, suffix ignored
	gl := readGlyphTable("glyphlist.txt", 0, 1, 2)
	nr := 4000
	if tier == "thorough" {
		nr = 100000
	}
	db := readGlyphTable("zapfdingbats.txt", 0, 1, 2)
	for i := 0; i < nr; i++ {
		k := r.rangeInt(1, 4)
		var parts []string
		var want []rune
		dingbats := r.chance(1, 4) // composites in a Zapf Dingbats font: each component is looked up there first
		for j := 0; j < k; j++ {
			if dingbats && r.chance(1, 2) {
				e := db[r.intn(len(db))]
				parts = append(parts, e[0])
				want = append(want, parseCodes(e[1])...)
				continue
			}
			switch r.intn(5) {
			case 0:
				v := r.intn(0xD800)
				parts = append(parts, fmt.Sprintf("uni%04X", v))
				want = append(want, rune(v))
			case 1:
				v := 0xE000 + r.intn(0x110000-0xE000)
				parts = append(parts, fmt.Sprintf("u%04X", v))
				want = append(want, rune(v))
			case 2:
				parts = append(parts, pick(r, []string{"zzunknown", "uni12", "u12", "uniD800", "Uni0041", "u12345678"}))
			default:
				e := gl[r.intn(len(gl))]
				parts = append(parts, e[0])
				if e[0] == "Tcommaaccent" || e[0] == "tcommaaccent" {
					want = append(want, names.ToUnicode(e[0], false)...)
				} else {
					want = append(want, parseCodes(e[1])...)
				}
			}
		}
		name := strings.Join(parts, "_")
		if r.chance(1, 3) {
			name += pick(r, []string{".alt", ".sc", ".", ".a_b", ".x.y"})
		}
		touCase(o, name, dingbats, want, true, "components joined by underscores map to the concatenation; everything from the first period is ignored; unknown components contribute nothing")
		o.count("random composite names")
	}
	// 5. validity: exhaustive over short strings from the alphabet, random longer ones
	alpha := "Aaz09._-Z" + string([]byte{0xC3}) + " "
	var rec func(s string, depth int)
	rec = func(s string, depth int) {
		line := "valid " + hx([]byte(s))
		got := names.IsValid(s)
		if got != specIsValid(s) {
			o.fail("C16", "IsValid accepts exactly the names the specification allows", line, strconv.FormatBool(specIsValid(s)), strconv.FormatBool(got))
		}
		o.emit(line, strconv.FormatBool(got), got)
		if depth == 0 {
			return
		}
		for i := 0; i < len(alpha); i++ {
			rec(s+alpha[i:i+1], depth-1)
		}
	}
	rec("", 3)
	for i := 0; i < nr; i++ {
		l := r.rangeInt(1, 33)
		b := make([]byte, l)
		for j := range b {
			b[j] = "ABCXYZabcxyz0123456789._"[r.intn(24)]
			if r.chance(1, 40) {
				b[j] = byte(r.intn(256))
			}
		}
		s := string(b)
		line := "valid " + hx(b)
		got := names.IsValid(s)
		if got != specIsValid(s) {
			o.fail("C16", "IsValid accepts exactly the names the specification allows", line, strconv.FormatBool(specIsValid(s)), strconv.FormatBool(got))
		}
		o.emit(line, strconv.FormatBool(got), got)
		o.count("random validity strings")
	}
	o.notes = append(o.notes, "all 1,112,064 scalar values through FromUnicode/ToUnicode on the implementation (round trip and injectivity), the BMP below U+3000 and every 16th value also through the Lean model; all entries of glyphlist/zapfdingbats/aglfn; uni/u forms over the BMP; random composites; validity exhaustively over strings up to length 3 of an 11-character alphabet and random strings up to length 33")
}

func init() {
	suites["names"] = suiteNames
	replayers["tou"] = replayNames
	replayers["fromu"] = replayNames
	replayers["valid"] = replayNames
}
