package main

// Suite `cmap` (C07): CMap resource files in the standard form, written by the
// harness, read by postscript.ReadCMap; single-fault variants must be rejected.

import (
	"bytes"
	"fmt"
	"sort"
	"strings"

	"seehuhn.de/go/postscript"
)

type cmEntry struct {
	a, b []byte // source code / low, high
	dst  string // PostScript text of the destination
	dobj postscript.Object
}

type cmBlock struct {
	kind     string // codespacerange cidchar cidrange bfchar bfrange notdefchar notdefrange
	entries  []cmEntry
	declared int // when > 0: the count written before begin<kind> (an under-filled block)
}

type cmFile struct {
	name    string
	reg     string
	ord     string
	supp    int
	tp      int
	wmode   int
	usecmap string
	usePos  int // the usecmap line stands before block number usePos
	blocks  []cmBlock
}

func hexStr(b []byte) string { return fmt.Sprintf("<%x>", b) }

func (c *cmFile) render(r *rng, fault string) []byte {
	ws := func() string { return pick(r, []string{" ", "\n", "  ", "\t", " % c\n"}) }
	var sb strings.Builder
	sb.WriteString("%!PS-Adobe-3.0 Resource-CMap\n%%DocumentNeededResources: ProcSet (CIDInit)\n%%BeginResource: CMap (" + c.name + ")\n")
	sb.WriteString("/CIDInit /ProcSet findresource begin\n12 dict begin\n")
	if fault != "nobegincmap" {
		sb.WriteString("begincmap\n")
	}
	fmt.Fprintf(&sb, "/CIDSystemInfo 3 dict dup begin\n  /Registry (%s) def\n  /Ordering (%s) def\n  /Supplement %d def\nend def\n", c.reg, c.ord, c.supp)
	fmt.Fprintf(&sb, "/CMapName /%s def\n/CMapVersion 1.0 def\n/CMapType %d def\n/WMode %d def\n", c.name, c.tp, c.wmode)
	for bi, b := range c.blocks {
		if c.usecmap != "" && bi == c.usePos {
			fmt.Fprintf(&sb, "/%s usecmap\n", c.usecmap)
		}
		n := len(b.entries)
		declared := n
		if fault == "count+1" && bi == 0 {
			declared = n + 1
		}
		if fault == "count101" && bi == 0 {
			declared = 101
		}
		if b.declared > 0 {
			declared = b.declared
		}
		fmt.Fprintf(&sb, "%d begin%s%s", declared, b.kind, ws())
		for ei, e := range b.entries {
			a, bb, dst := hexStr(e.a), hexStr(e.b), e.dst
			if bi == 0 && ei == 0 {
				switch fault {
				case "srctype":
					a = "/notastring"
				case "unequal":
					if strings.HasSuffix(b.kind, "range") {
						bb = hexStr(append(append([]byte{}, e.b...), 0))
					}
				case "reversed":
					if strings.HasSuffix(b.kind, "range") {
						a, bb = hexStr(append([]byte{0xff}, e.b[1:]...)), hexStr(append([]byte{0x00}, e.b[1:]...))
					}
				case "dsttype":
					// every wrong type, in particular the type a sibling operator takes
					dst = pick(r, []string{"true", "1.5", "mark", "<41>", "/n", "[1]", "{1}"})
					if b.kind == "bfchar" {
						dst = pick(r, []string{"17", "[<0041>]", "[/a]", "true", "1.5", "{<41>}"})
					}
					if b.kind == "bfrange" {
						dst = pick(r, []string{"17", "/space", "/A", "true", "1.5", "{<41>}"})
					}
				}
			}
			switch b.kind {
			case "codespacerange":
				sb.WriteString(a + ws() + bb + ws())
			case "cidchar", "bfchar", "notdefchar":
				sb.WriteString(a + ws() + dst + ws())
			default:
				sb.WriteString(a + ws() + bb + ws() + dst + ws())
			}
		}
		fmt.Fprintf(&sb, "end%s\n", b.kind)
	}
	if c.usecmap != "" && c.usePos >= len(c.blocks) {
		fmt.Fprintf(&sb, "/%s usecmap\n", c.usecmap)
	}
	sb.WriteString("endcmap\nCMapName currentdict /CMap defineresource pop\nend\nend\n%%EndResource\n%%EOF\n")
	return []byte(sb.String())
}

func randCode(r *rng, n int) []byte {
	b := make([]byte, n)
	for i := range b {
		b[i] = byte(r.intn(256))
	}
	return b
}

func randCMap(r *rng) *cmFile {
	c := &cmFile{name: pick(r, []string{"Test-H", "Adobe-Identity-UCS", "X"}), reg: pick(r, []string{"Adobe", "Test"}), ord: pick(r, []string{"Japan1", "Identity", "UCS"}),
		supp: r.intn(7), tp: r.rangeInt(0, 2), wmode: r.intn(2)}
	if r.chance(1, 3) {
		c.usecmap = pick(r, []string{"Base-H", "Other"})
		c.usePos = r.intn(10) // anywhere between the blocks
	}
	kinds := []string{"codespacerange", "cidchar", "cidrange", "bfchar", "bfrange", "notdefchar", "notdefrange"}
	used := map[string]bool{} // distinct source codes per table so that the sorted order is unique
	nb := r.rangeInt(1, 8)
	for i := 0; i < nb; i++ {
		k := pick(r, kinds)
		if i == 0 {
			k = "codespacerange"
		}
		n := pick(r, []int{0, 1, 2, 3, 5, 100})
		if n == 100 && !r.chance(1, 4) {
			n = 4
		}
		b := cmBlock{kind: k}
		for j := 0; j < n; j++ {
			ln := r.rangeInt(1, 4)
			var e cmEntry
			for try := 0; try < 50; try++ {
				e.a = randCode(r, ln)
				if !used[k+string(e.a)] {
					break
				}
			}
			used[k+string(e.a)] = true
			e.b = append([]byte{}, e.a...)
			if strings.HasSuffix(k, "range") {
				// high >= low in every byte position
				for q := range e.b {
					e.b[q] = byte(r.rangeInt(int(e.a[q]), 255))
				}
			}
			switch k {
			case "cidchar", "cidrange", "notdefchar", "notdefrange":
				v := r.intn(65536)
				e.dst, e.dobj = fmt.Sprint(v), postscript.Integer(v)
			case "bfchar":
				if r.chance(1, 3) {
					nm := pick(r, []string{"space", "A", "uni0041"})
					e.dst, e.dobj = "/"+nm, postscript.Name(nm)
				} else {
					d := randCode(r, r.rangeInt(1, 4))
					e.dst, e.dobj = hexStr(d), postscript.String(d)
				}
			case "bfrange":
				if r.chance(1, 3) {
					d1, d2 := randCode(r, 2), randCode(r, 2)
					e.dst, e.dobj = "["+hexStr(d1)+" "+hexStr(d2)+"]", postscript.Array{postscript.String(d1), postscript.String(d2)}
				} else {
					d := randCode(r, 2)
					e.dst, e.dobj = hexStr(d), postscript.String(d)
				}
			}
			b.entries = append(b.entries, e)
		}
		if k != "codespacerange" && len(b.entries) > 0 && len(b.entries) < 99 && r.chance(1, 4) {
			// a code and its extension by zero bytes in one table, the longer one written first (<0500> before <05>):
			// tables are sorted by the bytes of the code
			src := b.entries[r.intn(len(b.entries))]
			if len(src.a) < 4 && !used[k+string(append(append([]byte{}, src.a...), 0))] {
				ext := src
				ext.a = append(append([]byte{}, src.a...), 0)
				ext.b = append(append([]byte{}, src.b...), 0)
				if bytes.Compare(ext.a, ext.b) <= 0 {
					used[k+string(ext.a)] = true
					b.entries = append([]cmEntry{ext}, b.entries...)
				}
			}
		}
		if len(b.entries) > 0 && len(b.entries) < 100 && r.chance(1, 5) {
			// the same mapping written twice (files do this): both entries are kept; being identical, their order
			// among each other does not matter
			b.entries = append(b.entries, b.entries[r.intn(len(b.entries))])
		}
		c.blocks = append(c.blocks, b)
	}
	if len(c.blocks) > 1 && r.chance(1, 6) {
		// ... or in a later block of the same kind
		src := c.blocks[r.intn(len(c.blocks))]
		if len(src.entries) > 0 {
			c.blocks = append(c.blocks, cmBlock{kind: src.kind, entries: []cmEntry{src.entries[r.intn(len(src.entries))]}})
		}
	}
	return c
}

func objEq(a, b postscript.Object) bool {
	switch x := a.(type) {
	case postscript.String:
		y, ok := b.(postscript.String)
		return ok && bytes.Equal(x, y)
	case postscript.Array:
		y, ok := b.(postscript.Array)
		if !ok || len(x) != len(y) {
			return false
		}
		for i := range x {
			if !objEq(x[i], y[i]) {
				return false
			}
		}
		return true
	}
	return a == b
}

// checkCMap compares the dictionary returned by ReadCMap with the file's content.
func checkCMap(c *cmFile, d postscript.Dict) string {
	if n, _ := d["CMapName"].(postscript.Name); string(n) != c.name {
		return fmt.Sprintf("CMapName %v", d["CMapName"])
	}
	si, _ := d["CIDSystemInfo"].(postscript.Dict)
	if si == nil || !objEq(si["Registry"], postscript.String(c.reg)) || !objEq(si["Ordering"], postscript.String(c.ord)) || si["Supplement"] != postscript.Integer(c.supp) {
		return fmt.Sprintf("CIDSystemInfo %v", si)
	}
	if d["CMapType"] != postscript.Integer(c.tp) || d["WMode"] != postscript.Integer(c.wmode) {
		return fmt.Sprintf("CMapType/WMode %v %v", d["CMapType"], d["WMode"])
	}
	info, _ := d["CodeMap"].(*postscript.CMapInfo)
	if info == nil {
		return "no CodeMap"
	}
	if string(info.UseCMap) != c.usecmap {
		return fmt.Sprintf("usecmap %q vs %q", info.UseCMap, c.usecmap)
	}
	collect := func(kind string) []cmEntry {
		var es []cmEntry
		for _, b := range c.blocks {
			if b.kind == kind {
				es = append(es, b.entries...)
			}
		}
		sort.SliceStable(es, func(i, j int) bool {
			if kind == "codespacerange" && len(es[i].a) != len(es[j].a) {
				return len(es[i].a) < len(es[j].a)
			}
			return bytes.Compare(es[i].a, es[j].a) < 0
		})
		return es
	}
	want := collect("codespacerange")
	if len(want) != len(info.CodeSpaceRanges) {
		return fmt.Sprintf("code space ranges: %d vs %d", len(info.CodeSpaceRanges), len(want))
	}
	for i, e := range want {
		if !bytes.Equal(info.CodeSpaceRanges[i].Low, e.a) || !bytes.Equal(info.CodeSpaceRanges[i].High, e.b) {
			return fmt.Sprintf("code space range %d: %x-%x vs %x-%x", i, info.CodeSpaceRanges[i].Low, info.CodeSpaceRanges[i].High, e.a, e.b)
		}
	}
	chars := func(kind string, got []postscript.CharMap) string {
		want := collect(kind)
		if len(want) != len(got) {
			return fmt.Sprintf("%s: %d entries vs %d", kind, len(got), len(want))
		}
		for i, e := range want {
			if !bytes.Equal(got[i].Src, e.a) || !objEq(got[i].Dst, e.dobj) {
				return fmt.Sprintf("%s %d: %x>%v vs %x>%v", kind, i, got[i].Src, got[i].Dst, e.a, e.dobj)
			}
		}
		return ""
	}
	ranges := func(kind string, got []postscript.RangeMap) string {
		want := collect(kind)
		if len(want) != len(got) {
			return fmt.Sprintf("%s: %d entries vs %d", kind, len(got), len(want))
		}
		for i, e := range want {
			if !bytes.Equal(got[i].Low, e.a) || !bytes.Equal(got[i].High, e.b) || !objEq(got[i].Dst, e.dobj) {
				return fmt.Sprintf("%s %d: %x-%x>%v vs %x-%x>%v", kind, i, got[i].Low, got[i].High, got[i].Dst, e.a, e.b, e.dobj)
			}
		}
		return ""
	}
	for _, s := range []string{chars("cidchar", info.CidChars), ranges("cidrange", info.CidRanges), chars("bfchar", info.BfChars), ranges("bfrange", info.BfRanges),
		chars("notdefchar", info.NotdefChars), ranges("notdefrange", info.NotdefRanges)} {
		if s != "" {
			return s
		}
	}
	return ""
}

func readCMapSafe(data []byte) (d postscript.Dict, err error, pan string) {
	defer func() {
		if r := recover(); r != nil {
			pan = fmt.Sprint(r)
		}
	}()
	d, err = postscript.ReadCMap(bytes.NewReader(data))
	return d, err, ""
}

func cmapCase(o *suiteOut, line string) {
	f := strings.Split(line, " ")
	var seed uint64
	fmt.Sscan(f[1], &seed)
	fault := f[2]
	r := newRng(seed)
	c := randCMap(r)
	if fault == "big" {
		// a long regular CMap: 350 blocks of 100 ranges (about 105,000 operations)
		c.blocks = []cmBlock{{kind: "codespacerange", entries: []cmEntry{{a: []byte{0, 0, 0}, b: []byte{0xff, 0xff, 0xff}}}}}
		code := 0
		for b := 0; b < 350; b++ {
			blk := cmBlock{kind: "cidrange"}
			for j := 0; j < 100; j++ {
				a := []byte{byte(code >> 16), byte(code >> 8), byte(code)}
				blk.entries = append(blk.entries, cmEntry{a: a, b: a, dst: fmt.Sprint(code), dobj: postscript.Integer(code)})
				code += 3
			}
			c.blocks = append(c.blocks, blk)
		}
	}
	if strings.HasPrefix(fault, "huge-") {
		// more than 65,536 entries in one table (700 blocks of 100): a legal file, well within the budget
		kind := strings.TrimPrefix(fault, "huge-")
		c.blocks = []cmBlock{{kind: "codespacerange", entries: []cmEntry{{a: []byte{0, 0, 0}, b: []byte{0xff, 0xff, 0xff}}}}}
		code := 0
		for b := 0; b < 700; b++ {
			blk := cmBlock{kind: kind}
			for j := 0; j < 100; j++ {
				a := []byte{byte(code >> 16), byte(code >> 8), byte(code)}
				e := cmEntry{a: a, b: a, dst: fmt.Sprint(code), dobj: postscript.Integer(code)}
				if strings.HasPrefix(kind, "bf") {
					d := []byte{byte(code >> 8), byte(code)}
					e.dst, e.dobj = hexStr(d), postscript.String(d)
				}
				blk.entries = append(blk.entries, e)
				code += 3
			}
			c.blocks = append(c.blocks, blk)
		}
		fault = "big"
	}
	applicable := true
	if fault == "unequal" || fault == "reversed" {
		applicable = len(c.blocks) > 0 && len(c.blocks[0].entries) > 0 // first block is a code space range
	} else if fault == "srctype" || fault == "dsttype" {
		applicable = len(c.blocks[0].entries) > 0
		if fault == "dsttype" {
			// needs a block with destinations: move one to the front
			applicable = false
			for i, b := range c.blocks {
				if b.kind != "codespacerange" && len(b.entries) > 0 {
					c.blocks[0], c.blocks[i] = c.blocks[i], c.blocks[0]
					applicable = true
					break
				}
			}
		}
	}
	if !applicable {
		return
	}
	data := c.render(r, fault)
	d, err, pan := readCMapSafe(data)
	if pan != "" {
		o.fail("C01", "no panic in the CMap reader", line, "error value", pan)
	}
	if fault == "none" || fault == "big" {
		if err != nil {
			o.fail("C07", "a CMap file in the standard form is accepted", line, "dictionary", err.Error())
		} else if diff := checkCMap(c, d); diff != "" {
			o.fail("C07", "the code map holds exactly the file's entries, each table sorted by source code", line, "equal", diff)
		}
	} else if err == nil && pan == "" {
		o.fail("C07", "a block with a "+fault+" fault is rejected with an error instead of being stored", line, "error", "accepted")
	}
	if fault != "none" && fault != "big" && err != nil {
		// a read that failed half-way leaves nothing behind: the next file, which lacks begincmap, is rejected as ever
		next := randCMap(newRng(seed+1)).render(newRng(seed+1), "nobegincmap")
		if d2, err2, _ := readCMapSafe(next); err2 == nil {
			o.fail("C07", "a file without begincmap is rejected, whatever was read (and rejected) before it", line+" then nobegincmap", "error", fmt.Sprint(len(d2), " entries accepted"))
		}
		o.count("rejected file followed by a file without begincmap")
	}
	o.emit(line, "skip", true)
	o.count("fault " + fault)
	if len(data) < 20000 {
		res, _, _ := runProgram(1000000, false, data)
		o.emit(runCaseLine(1000000, false, string(data)), res, true)
	}
}

// cmapUnderfill: every block kind with a declared count n and k < n entries supplied, for the k around 0, n/2 and n
// (the operators locate their operands by arithmetic on the declared count); the block must be rejected
func cmapUnderfill(o *suiteOut) {
	for _, kind := range []string{"codespacerange", "cidchar", "cidrange", "bfchar", "bfrange", "notdefchar", "notdefrange"} {
		for _, n := range []int{1, 2, 3, 4, 5, 8, 100} {
			ks := map[int]bool{}
			for _, k := range []int{0, 1, n/3 - 1, n / 3, n/3 + 1, n/2 - 1, n / 2, n/2 + 1, 2 * n / 3, n - 2, n - 1} {
				if k >= 0 && k < n {
					ks[k] = true
				}
			}
			for k := 0; k < n; k++ {
				if !ks[k] {
					continue
				}
				for _, lead := range []int{0, 1} { // with and without other operands below the block's on the stack
					line := fmt.Sprintf("cmapunder %s %d %d %d", kind, n, k, lead)
					c := &cmFile{name: "U", reg: "Adobe", ord: "Identity", tp: 1}
					c.blocks = append(c.blocks, cmBlock{kind: "codespacerange", entries: []cmEntry{{a: []byte{0, 0}, b: []byte{0xff, 0xff}}}})
					blk := cmBlock{kind: kind, declared: n}
					for j := 0; j < k; j++ {
						a := []byte{byte(j >> 8), byte(j)}
						e := cmEntry{a: a, b: a, dst: fmt.Sprint(j), dobj: postscript.Integer(j)}
						if kind == "bfchar" || kind == "bfrange" {
							e.dst = "<0041>"
						}
						blk.entries = append(blk.entries, e)
					}
					c.blocks = append(c.blocks, blk)
					data := c.render(newRng(1), "none")
					if lead == 1 {
						data = bytes.Replace(data, []byte("begincmap\n"), []byte("begincmap\n4 5 6 7 8 9\n"), 1)
					}
					_, err, pan := readCMapSafe(data)
					if pan != "" {
						o.fail("C01", "no panic in the CMap reader", line, "error value", pan)
					} else if err == nil {
						o.fail("C07", "a block declaring more entries than supplied is rejected with an error instead of being stored", line, "error", "accepted")
					}
					res, _, _ := runProgram(1000000, false, data)
					o.emit(runCaseLine(1000000, false, string(data)), res, true)
					o.count("under-filled blocks (kind x declared x supplied)")
				}
			}
		}
	}
}

// cmapBigArray: a block at the limits the property quantifies over: 100 bfrange entries, the last one mapping a
// range of 256 codes to an array of 256 strings (556 operands are on the stack when endbfrange runs)
func cmapBigArray(o *suiteOut) {
	c := &cmFile{name: "B", reg: "Adobe", ord: "Identity", tp: 2}
	c.blocks = append(c.blocks, cmBlock{kind: "codespacerange", entries: []cmEntry{{a: []byte{0, 0}, b: []byte{0xff, 0xff}}}})
	blk := cmBlock{kind: "bfrange"}
	for j := 0; j < 99; j++ {
		blk.entries = append(blk.entries, cmEntry{a: []byte{byte(j), 0}, b: []byte{byte(j), 0xff}, dst: "<4E00>"})
	}
	var sb strings.Builder
	sb.WriteString("[")
	for j := 0; j < 256; j++ {
		fmt.Fprintf(&sb, " <%04x>", 0x5000+j)
	}
	sb.WriteString(" ]")
	blk.entries = append(blk.entries, cmEntry{a: []byte{0x70, 0}, b: []byte{0x70, 0xff}, dst: sb.String()})
	c.blocks = append(c.blocks, blk)
	data := c.render(newRng(1), "none")
	_, err, pan := readCMapSafe(data)
	line := "cmapbigarray 100 256"
	if pan != "" {
		o.fail("C01", "no panic in the CMap reader", line, "error value", pan)
	} else if err != nil {
		o.fail("C07", "a CMap file in the standard form is accepted (100 bfrange entries, one with an array of 256 strings)", line, "dictionary", err.Error())
	}
	res, _, _ := runProgram(1000000, false, data)
	o.emit(runCaseLine(1000000, false, string(data)), res, true)
	o.count("block at the limits (100 entries, 256-element array)")
}

func suiteCMap(o *suiteOut, r *rng, tier string, n int) {
	cmapUnderfill(o)
	cmapBigArray(o)
	for _, l := range corpusLines("cmap") {
		cmapCase(o, l)
		o.count("corpus cases")
	}
	nr := 600
	if tier == "thorough" {
		nr = 40000
	}
	if n > 0 {
		nr = n
	}
	cmapCase(o, fmt.Sprintf("cmap %d big", r.next()%1000000007))
	for _, kind := range []string{"cidchar", "cidrange", "bfchar", "bfrange", "notdefchar", "notdefrange"} {
		cmapCase(o, fmt.Sprintf("cmap %d huge-%s", r.next()%1000000007, kind))
	}
	for i := 0; i < nr; i++ {
		seed := r.next() % 1000000007
		cmapCase(o, fmt.Sprintf("cmap %d none", seed))
		fault := pick(r, []string{"srctype", "unequal", "reversed", "dsttype", "count+1", "count101", "nobegincmap"})
		cmapCase(o, fmt.Sprintf("cmap %d %s", seed, fault))
	}
	// several CMaps in one file: the first by name is returned
	for i := 0; i < nr/10; i++ {
		rr := newRng(r.next())
		var names []string
		var buf bytes.Buffer
		for k := rr.rangeInt(2, 4); k > 0; k-- {
			c := randCMap(rr)
			c.name = fmt.Sprintf("%s%d", pick(rr, []string{"M", "A", "z", "B-"}), rr.intn(50))
			names = append(names, c.name)
			buf.Write(c.render(rr, "none"))
		}
		sort.Strings(names)
		d, err, _ := readCMapSafe(buf.Bytes())
		line := fmt.Sprintf("cmapmulti %d", i)
		if err != nil {
			o.fail("C07", "a file with several CMaps is accepted", line, "dictionary", err.Error())
		} else if n, _ := d["CMapName"].(postscript.Name); string(n) != names[0] {
			o.fail("C17", "the CMap returned from a file with several is the first by name", line, names[0], string(n))
		}
		o.emit(line, "skip", true)
		o.count("files with several CMaps")
	}
	// which of several resources ReadCMap returns: the smallest key in byte order (the empty name is the smallest of all),
	// whatever the order of registration; the dictionary gets the key as CMapName unless it has a non-empty one
	for i := 0; i < nr/5+40; i++ {
		rr := newRng(r.next())
		keyPool := []string{"", "A", "AB", "B", "Alpha", "Beta", "a", "Z", "0", "-", "~", "\xe9", "Aa", "A-", "AA"}
		perm := rr.perm(len(keyPool))
		nk := rr.rangeInt(1, 6)
		var prog strings.Builder
		var ents []string
		prog.WriteString("%!PS\n")
		for j := 0; j < nk; j++ {
			key := keyPool[perm[j]]
			given := "none"
			def := ""
			switch rr.intn(4) {
			case 0:
				g := pick(rr, []string{"Given", "", "zz"})
				given = hx([]byte(g))
				def = "/CMapName /" + g + " def\n"
			}
			fmt.Fprintf(&prog, "/CIDInit /ProcSet findresource begin\n12 dict begin\nbegincmap\n/Idx %d def\n%sendcmap\n/%s currentdict /CMap defineresource pop\nend\nend\n", j, def, key)
			ents = append(ents, hx([]byte(key))+":"+given)
		}
		line := "pickcmap " + strings.Join(ents, ",")
		d, err, pan := readCMapSafe([]byte(prog.String()))
		res := "none"
		if pan != "" {
			res = "panic"
			o.fail("C01", "no panic in the CMap reader", line, "error value", pan)
		} else if err == nil {
			idx, _ := d["Idx"].(postscript.Integer)
			nm, _ := d["CMapName"].(postscript.Name)
			res = fmt.Sprintf("%d %s", idx, hx([]byte(nm)))
		}
		o.emit(line, res, nk > 1)
		o.count("choice among several resources")
	}
	o.notes = append(o.notes, "CMap files with any number of blocks of the seven kinds in any order, 0-100 entries, code lengths 1-4 mixed, destinations of every allowed type, optional usecmap, varying white space and comments; each file also with one single-fault variant (wrong source type, unequal bound lengths, low > high, wrong destination type, declared count larger than the entries supplied, 101 entries, missing begincmap); direct oracle: returned dictionary equals the file's content with every table sorted; every file also runs through the Lean interpreter model (CIDInit operators)")
}

func init() {
	suites["cmap"] = suiteCMap
	replayers["cmap"] = cmapCase
}
