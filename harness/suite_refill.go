package main

// Suite `refill` (C12): the scanner's buffering layer against Model/Refill.lean, through the
// verification hook postscript.VerifRawReads (build tag verif).

import (
	"errors"
	"fmt"
	"io"
	"strings"

	"seehuhn.de/go/postscript"
)

type rchunk struct {
	data []byte
	err  string // "-", "eof", "f"
}

var errFaultT = errors.New("t")

func rerr(s string) error {
	switch s {
	case "eof":
		return io.EOF
	case "f":
		return errFaultT
	}
	return nil
}

// modelReader mirrors Rd.read of the Lean model
type modelReader struct {
	chunks []rchunk
	fin    string
}

func (r *modelReader) Read(p []byte) (int, error) {
	if len(r.chunks) == 0 {
		return 0, rerr(r.fin)
	}
	c := r.chunks[0]
	if len(c.data) <= len(p) {
		copy(p, c.data)
		r.chunks = r.chunks[1:]
		return len(c.data), rerr(c.err)
	}
	n := copy(p, c.data)
	r.chunks[0].data = c.data[n:]
	return n, nil
}

func refillCase(o *suiteOut, line string) {
	f := strings.Split(line, " ")
	var n int
	fmt.Sscan(f[1], &n)
	var chunks []rchunk
	var all []byte
	firstErr := ""
	if f[3] != "-" {
		for _, c := range strings.Split(f[3], ",") {
			p := strings.Split(c, ":")
			chunks = append(chunks, rchunk{unhx(p[0]), p[1]})
			if firstErr == "" {
				all = append(all, unhx(p[0])...)
				if p[1] != "-" {
					firstErr = p[1]
				}
			}
		}
	}
	if firstErr == "" {
		firstErr = f[2]
	}
	vals, errs, fields := postscript.VerifRawReads(&modelReader{chunks, f[2]}, n)
	name := func(e error) string {
		switch e {
		case nil:
			return "-"
		case io.EOF:
			return "eof"
		case errFaultT:
			return "io"
		}
		return "other"
	}
	var out []string
	for i := range vals {
		t := ""
		if errs[i] != nil {
			t = "!" + name(errs[i])
		} else {
			t = fmt.Sprintf("%02x", vals[i])
		}
		out = append(out, t+"/"+name(fields[i]))
		// direct oracle: the i-th call returns the i-th delivered byte, then the first error, forever
		want := "!" + map[string]string{"eof": "eof", "f": "io"}[firstErr]
		if i < len(all) {
			want = fmt.Sprintf("%02x", all[i])
		}
		if t != want {
			o.fail("C12", "the scanner's byte source returns exactly the delivered bytes, then the reader's first error", line, fmt.Sprintf("call %d: %s", i, want), t)
			break
		}
	}
	o.emit(line, strings.Join(out, " "), len(chunks) > 1)
}

func suiteRefill(o *suiteOut, r *rng, tier string, n int) {
	for _, l := range corpusLines("refill") {
		refillCase(o, l)
	}
	cases := 400
	if tier == "thorough" {
		cases = 20000
	}
	if n > 0 {
		cases = n
	}
	for i := 0; i < cases; i++ {
		nc := r.intn(7)
		var cs []string
		total := 0
		for k := 0; k < nc; k++ {
			l := pick(r, []int{0, 1, 1, 2, 3, 7, 100, 511, 512, 513, 1024, 1300})
			d := make([]byte, l)
			for j := range d {
				d[j] = byte(r.intn(256))
			}
			e := "-"
			if r.chance(1, 5) {
				e = pick(r, []string{"eof", "f"})
			}
			if l == 0 && e == "-" && r.chance(1, 2) {
				l = 1
				d = []byte{byte(r.intn(256))}
			}
			cs = append(cs, hx(d)+":"+e)
			total += l
		}
		chunks := "-"
		if len(cs) > 0 {
			chunks = strings.Join(cs, ",")
		}
		calls := total + r.rangeInt(1, 4)
		if calls > 2200 {
			calls = 2200
		}
		refillCase(o, fmt.Sprintf("refill %d %s %s", calls, pick(r, []string{"eof", "f"}), chunks))
		o.count("schedules")
	}
	o.notes = append(o.notes, "random reader schedules (chunks of 0..1300 bytes around the 512-byte buffer, errors delivered with or after data, empty non-error answers, answers after the first error) driven through the scanner's readByteRaw via the verif hook; per call the byte/error and the err field are compared with Model/Refill.lean, and with the delivered byte string directly")
}

func init() {
	suites["refill"] = suiteRefill
	replayers["refill"] = refillCase
}
