package main

// Independent writer of Type 1 font programs (C06, C01, C12, C13): written from
// the Adobe Type 1 book, it shares no code with the repository's writer.  It
// takes plain charstrings and dictionary values and lays them out in any of the
// container formats, with any lenIV >= 0 and either set of procedure names.

import (
	"bytes"
	"fmt"
	"sort"
	"strings"
)

type renderFont struct {
	FontName     string
	Info         [][2]string // key, PostScript-syntax value
	FontMatrix   string      // "[0.001 0 0 0.001 0 0]"
	Encoding     []string    // nil = none, len 256 = explicit (".notdef" entries omitted)
	StdEncoding  bool
	Private      [][2]string // key, value (other than lenIV, Subrs)
	LenIV        int         // -1 = omit (default 4)
	Subrs        [][]byte    // plain charstrings
	Glyphs       map[string][]byte
	GlyphOrder   []string
	CreationDate string
	// overrides for hostile files (suite hostilefiles): raw PostScript text used instead of the regular entry
	EncodingText string // e.g. "/Encoding 5 def\n"
	LenIVText    string // value written after /lenIV (charstrings keep the IV of LenIV)
	BBoxText     string
}

type renderLayout struct {
	Format    string // pfa, binary, pfb, clear
	AltNames  bool   // -| |- | instead of RD ND NP
	HexUpper  bool
	HexWidth  int
	HexDigits int    // when > 0: a line end after every HexDigits hex digits instead (also between the two digits of a byte)
	WS        string // separator used between tokens on a line
	IV        [4]byte
	CSIV      byte // lead bytes of charstrings are CSIV, CSIV+1, …
}

func psStringLit(s string) string {
	var sb strings.Builder
	sb.WriteByte('(')
	for i := 0; i < len(s); i++ {
		c := s[i]
		switch {
		case c == '(' || c == ')' || c == '\\':
			sb.WriteByte('\\')
			sb.WriteByte(c)
		case c == '\r':
			sb.WriteString("\\r")
		case c == '\n':
			sb.WriteString("\\n")
		case c < 32 || c >= 127:
			fmt.Fprintf(&sb, "\\%03o", c)
		default:
			sb.WriteByte(c)
		}
	}
	sb.WriteByte(')')
	return sb.String()
}

func (f *renderFont) render(l renderLayout) []byte {
	rd, nd, np := "RD", "ND", "NP"
	if l.AltNames {
		rd, nd, np = "-|", "|-", "|"
	}
	ws := l.WS
	if ws == "" {
		ws = " "
	}
	var a bytes.Buffer
	fmt.Fprintf(&a, "%%!PS-AdobeFont-1.0: %s 001.001\n", f.FontName)
	if f.CreationDate != "" {
		fmt.Fprintf(&a, "%%%%CreationDate: %s\n", f.CreationDate)
	}
	a.WriteString("% a comment line\n")
	a.WriteString("11 dict begin\n")
	fmt.Fprintf(&a, "/FontInfo %d dict dup begin\n", len(f.Info)+1)
	for _, kv := range f.Info {
		fmt.Fprintf(&a, "/%s%s%s%sreadonly def\n", kv[0], ws, kv[1], ws)
	}
	a.WriteString("end readonly def\n")
	fmt.Fprintf(&a, "/FontName /%s def\n", f.FontName)
	if f.EncodingText != "" {
		a.WriteString(f.EncodingText)
	} else if f.StdEncoding {
		a.WriteString("/Encoding StandardEncoding def\n")
	} else if f.Encoding != nil {
		a.WriteString("/Encoding 256 array\n0 1 255 {1 index exch /.notdef put} for\n")
		for i, n := range f.Encoding {
			if n != ".notdef" {
				fmt.Fprintf(&a, "dup %d /%s put\n", i, n)
			}
		}
		a.WriteString("readonly def\n")
	}
	a.WriteString("/PaintType 0 def\n/FontType 1 def\n")
	fmt.Fprintf(&a, "/FontMatrix %s readonly def\n", f.FontMatrix)
	if f.BBoxText != "" {
		fmt.Fprintf(&a, "/FontBBox %s readonly def\ncurrentdict end\n", f.BBoxText)
	} else {
		a.WriteString("/FontBBox {0 0 1000 1000} readonly def\ncurrentdict end\n")
	}

	iv := func(k int) []byte {
		n := f.LenIV
		if n < 0 {
			n = 4
		}
		b := make([]byte, n)
		for i := range b {
			b[i] = l.CSIV + byte(i*37+k)
		}
		return b
	}
	var b bytes.Buffer
	b.WriteString("dup /Private 17 dict dup begin\n")
	fmt.Fprintf(&b, "/%s {string currentfile exch readstring pop} executeonly def\n", rd)
	fmt.Fprintf(&b, "/%s {noaccess def} executeonly def\n", nd)
	fmt.Fprintf(&b, "/%s {noaccess put} executeonly def\n", np)
	if f.LenIVText != "" {
		fmt.Fprintf(&b, "/lenIV %s def\n", f.LenIVText)
	} else if f.LenIV >= 0 {
		fmt.Fprintf(&b, "/lenIV %d def\n", f.LenIV)
	}
	for _, kv := range f.Private {
		fmt.Fprintf(&b, "/%s%s%s def\n", kv[0], ws, kv[1])
	}
	b.WriteString("/password 5839 def\n/MinFeature {16 16} def\n")
	if len(f.Subrs) > 0 {
		fmt.Fprintf(&b, "/Subrs %d array\n", len(f.Subrs))
		for i, s := range f.Subrs {
			c := cipherEncrypt(4330, append(iv(i), s...))
			fmt.Fprintf(&b, "dup %d %d %s ", i, len(c), rd)
			b.Write(c)
			fmt.Fprintf(&b, " %s\n", np)
		}
		b.WriteString(nd + "\n")
	}
	names := f.GlyphOrder
	if names == nil {
		for n := range f.Glyphs {
			names = append(names, n)
		}
		sort.Strings(names)
	}
	fmt.Fprintf(&b, "2 index /CharStrings %d dict dup begin\n", len(names))
	for i, n := range names {
		c := cipherEncrypt(4330, append(iv(i+100), f.Glyphs[n]...))
		fmt.Fprintf(&b, "/%s %d %s ", n, len(c), rd)
		b.Write(c)
		fmt.Fprintf(&b, " %s\n", nd)
	}
	b.WriteString("end\nend\nreadonly put\nnoaccess put\ndup /FontName get exch definefont pop\n")

	trailer := strings.Repeat(strings.Repeat("0", 64)+"\n", 8) + "cleartomark\n"
	switch l.Format {
	case "clear":
		a.Write(b.Bytes())
		return a.Bytes()
	case "pfa", "binary", "pfb":
		a.WriteString("currentfile eexec\n")
		b.WriteString("mark currentfile closefile\n")
		cipher := cipherEncrypt(55665, append(l.IV[:], b.Bytes()...))
		switch l.Format {
		case "binary":
			a.Write(cipher)
			a.WriteString("\n" + trailer)
			return a.Bytes()
		case "pfb":
			var out bytes.Buffer
			seg := func(tp byte, d []byte) {
				n := len(d)
				out.Write([]byte{0x80, tp, byte(n), byte(n >> 8), byte(n >> 16), byte(n >> 24)})
				out.Write(d)
			}
			seg(1, a.Bytes())
			seg(2, cipher)
			seg(1, []byte(trailer))
			out.Write([]byte{0x80, 3})
			return out.Bytes()
		default:
			digits := "0123456789abcdef"
			if l.HexUpper {
				digits = "0123456789ABCDEF"
			}
			w := l.HexWidth
			if w <= 0 {
				w = 32
			}
			if l.HexDigits > 0 {
				eol := "\n"
				if l.WS == "\t" {
					eol = "\r\n"
				}
				nd := 0
				for _, c := range cipher {
					for _, d := range []byte{digits[c>>4], digits[c&15]} {
						a.WriteByte(d)
						nd++
						if nd >= 4 && (nd-4)%l.HexDigits == l.HexDigits-1 {
							a.WriteString(eol)
						}
					}
				}
				a.WriteString("\n" + trailer)
				return a.Bytes()
			}
			for i, c := range cipher {
				a.WriteByte(digits[c>>4])
				a.WriteByte(digits[c&15])
				if i < 1 {
					continue // hex form is recognised by four hex digits in a row
				}
				if (i+1)%w == 0 {
					a.WriteString("\n")
				} else if l.WS == "\t" && i%7 == 3 && i > 4 {
					a.WriteString(" \t")
				}
			}
			a.WriteString("\n" + trailer)
			return a.Bytes()
		}
	}
	return nil
}

// ---- charstring assembly helpers (Type 1 book encodings) ----

func csInt(v int) []byte {
	switch {
	case v >= -107 && v <= 107:
		return []byte{byte(v + 139)}
	case v >= 108 && v <= 1131:
		v -= 108
		return []byte{byte(v/256 + 247), byte(v % 256)}
	case v >= -1131 && v <= -108:
		v = -v - 108
		return []byte{byte(v/256 + 251), byte(v % 256)}
	default:
		u := uint32(int32(v))
		return []byte{255, byte(u >> 24), byte(u >> 16), byte(u >> 8), byte(u)}
	}
}

// csInt5 always uses the five-byte form (legal for any value).
func csInt5(v int) []byte {
	u := uint32(int32(v))
	return []byte{255, byte(u >> 24), byte(u >> 16), byte(u >> 8), byte(u)}
}

func csOp(op int) []byte {
	if op >= 1200 {
		return []byte{12, byte(op - 1200)}
	}
	return []byte{byte(op)}
}

const (
	opHstem           = 1
	opVstem           = 3
	opVmoveto         = 4
	opRlineto         = 5
	opHlineto         = 6
	opVlineto         = 7
	opRrcurveto       = 8
	opClosepath       = 9
	opCallsubr        = 10
	opReturn          = 11
	opHsbw            = 13
	opEndchar         = 14
	opRmoveto         = 21
	opHmoveto         = 22
	opVhcurveto       = 30
	opHvcurveto       = 31
	opDotsection      = 1200
	opVstem3          = 1201
	opHstem3          = 1202
	opSeac            = 1206
	opSbw             = 1207
	opDiv             = 1212
	opCallothersubr   = 1216
	opPop             = 1217
	opSetcurrentpoint = 1233
)
