package main

// Independent decoder for Type 1 font programs, written from the Adobe Type 1
// Font Format book (not from the repository's code): container framing, eexec
// and charstring decryption, charstring interpretation.  It is the oracle for
// C08 and C20 and the source of raw charstring bytes for the correspondence
// with the Lean encoder model.

import (
	"bytes"
	"errors"
	"fmt"
	"math/big"
	"strconv"
	"strings"
)

type specCmd struct {
	Op   string // moveto lineto curveto closepath
	Args []*big.Rat
}

type specGlyph struct {
	Raw      []byte // plain charstring
	WX, WY   *big.Rat
	SBX, SBY *big.Rat
	Cmds     []specCmd
	HStem    []*big.Rat // absolute (side bearing added), pairs (from, to)
	VStem    []*big.Rat
	Seac     []*big.Rat // asb adx ady bchar achar, or nil
	Err      error
}

type specFont struct {
	Clear        []byte // clear-text part
	Private      []byte // decrypted private part (without the 4 random bytes)
	CipherHead   []byte // first 4 cipher bytes of the eexec section (binary forms)
	Trailer      []byte
	Format       string // pfa, pfb, binary, clear
	FontName     string
	Info         map[string]string // FontInfo strings, decoded
	InfoNum      map[string]string // FontInfo numbers / booleans as written
	Encoding     []string          // 256 entries or nil; "" = StandardEncoding marker handled by caller
	StdEnc       bool
	FontMatrix   []string
	PrivNum      map[string]string // Private values as written (arrays as "[a b]")
	Glyphs       map[string]*specGlyph
	Subrs        [][]byte
	LenIV        int
	CreationDate string
	HeaderLine   string
}

func cipherDecrypt(r uint16, c []byte) []byte {
	out := make([]byte, len(c))
	for i, b := range c {
		out[i] = b ^ byte(r>>8)
		r = (uint16(b)+r)*52845 + 22719
	}
	return out
}

func cipherEncrypt(r uint16, p []byte) []byte {
	out := make([]byte, len(p))
	for i, b := range p {
		c := b ^ byte(r>>8)
		out[i] = c
		r = (uint16(c)+r)*52845 + 22719
	}
	return out
}

func isHexDigit(b byte) bool {
	return b >= '0' && b <= '9' || b >= 'a' && b <= 'f' || b >= 'A' && b <= 'F'
}

func isPSSpace(b byte) bool {
	return b == ' ' || b == '\t' || b == '\r' || b == '\n' || b == 0 || b == '\f'
}

// specUnwrapPFB checks the PFB framing strictly and returns the segments.
func specUnwrapPFB(data []byte) (segs [][]byte, types []byte, err error) {
	pos := 0
	for {
		if pos+2 > len(data) {
			return nil, nil, errors.New("pfb: missing end marker")
		}
		if data[pos] != 0x80 {
			return nil, nil, fmt.Errorf("pfb: bad marker byte %#x at %d", data[pos], pos)
		}
		tp := data[pos+1]
		if tp == 3 {
			if pos+2 != len(data) {
				return nil, nil, errors.New("pfb: data after end marker")
			}
			return segs, types, nil
		}
		if tp != 1 && tp != 2 {
			return nil, nil, fmt.Errorf("pfb: bad segment type %d", tp)
		}
		if pos+6 > len(data) {
			return nil, nil, errors.New("pfb: truncated header")
		}
		n := int(data[pos+2]) | int(data[pos+3])<<8 | int(data[pos+4])<<16 | int(data[pos+5])<<24
		pos += 6
		if pos+n > len(data) {
			return nil, nil, errors.New("pfb: segment longer than file")
		}
		segs = append(segs, data[pos:pos+n])
		types = append(types, tp)
		pos += n
	}
}

// specDecodeFont decodes a font file in any of the container formats.
func specDecodeFont(data []byte) (*specFont, error) {
	f := &specFont{Info: map[string]string{}, InfoNum: map[string]string{}, PrivNum: map[string]string{}, Glyphs: map[string]*specGlyph{}, LenIV: 4}
	var clear, cipher, trailer []byte
	binaryCipher := false
	if len(data) > 0 && data[0] == 0x80 {
		f.Format = "pfb"
		segs, types, err := specUnwrapPFB(data)
		if err != nil {
			return nil, err
		}
		if len(segs) != 3 || types[0] != 1 || types[1] != 2 || types[2] != 1 {
			return nil, fmt.Errorf("pfb: unexpected segment layout %v", types)
		}
		clear, cipher, trailer = segs[0], segs[1], segs[2]
		binaryCipher = true
		if !bytes.HasSuffix(bytes.TrimRight(clear, " \t\r\n"), []byte("currentfile eexec")) {
			return nil, errors.New("pfb: first segment does not end with `currentfile eexec`")
		}
	} else {
		idx := bytes.Index(data, []byte("currentfile eexec"))
		if idx < 0 {
			f.Format = "clear"
			clear = data
		} else {
			pos := idx + len("currentfile eexec")
			clear = data[:pos]
			for pos < len(data) && (data[pos] == ' ' || data[pos] == '\t' || data[pos] == '\r' || data[pos] == '\n') {
				pos++
			}
			if pos+4 > len(data) {
				return nil, errors.New("eexec section too short")
			}
			allHex := true
			for _, b := range data[pos : pos+4] {
				if !isHexDigit(b) {
					allHex = false
				}
			}
			if allHex {
				f.Format = "pfa"
				var hexd []byte
				for pos < len(data) {
					b := data[pos]
					if isHexDigit(b) {
						hexd = append(hexd, b)
					} else if !isPSSpace(b) {
						break
					}
					pos++
				}
				cipher = make([]byte, len(hexd)/2)
				for i := range cipher {
					v, _ := strconv.ParseUint(string(hexd[2*i:2*i+2]), 16, 8)
					cipher[i] = byte(v)
				}
				// the cipher includes the trailing zeros (valid hex); the trailer is cut below
				trailer = data[pos:]
			} else {
				f.Format = "binary"
				binaryCipher = true
				cipher = data[pos:]
			}
		}
	}
	f.Clear = clear
	if f.Format != "clear" {
		if len(cipher) < 4 {
			return nil, errors.New("eexec section too short")
		}
		if binaryCipher {
			f.CipherHead = append([]byte{}, cipher[:4]...)
		}
		plain := cipherDecrypt(55665, cipher)
		plain = plain[4:]
		// the private part ends with `closefile`
		end := bytes.Index(plain, []byte("closefile"))
		if end < 0 {
			return nil, errors.New("no closefile in the encrypted part")
		}
		end += len("closefile")
		if end < len(plain) && (plain[end] == '\n' || plain[end] == '\r' || plain[end] == ' ') {
			end++
		}
		f.Private = plain[:end]
		if f.Format == "binary" {
			// plain has the same length as cipher-4: trailer starts after the encrypted part
			trailer = cipher[4+end:]
		}
		if f.Format == "pfa" {
			// consumed hex digits: 2*(4+end); everything after that is trailer
			trailer = nil
		}
	}
	f.Trailer = trailer
	if err := f.parseClear(); err != nil {
		return nil, err
	}
	priv := f.Private
	if f.Format == "clear" {
		// the private part follows `currentdict end` in the same text
		priv = clear
	}
	if err := f.parsePrivate(priv); err != nil {
		return nil, err
	}
	return f, nil
}

// ---- a tiny tokenizer for the clear-text parts ----

type psTok struct {
	kind string // name lit num str other
	text string
	str  []byte
}

type psLexer struct {
	d   []byte
	pos int
}

func (l *psLexer) skipWS() {
	for l.pos < len(l.d) {
		b := l.d[l.pos]
		if isPSSpace(b) {
			l.pos++
		} else if b == '%' {
			for l.pos < len(l.d) && l.d[l.pos] != '\n' && l.d[l.pos] != '\r' {
				l.pos++
			}
		} else {
			break
		}
	}
}

func isDelim(b byte) bool {
	return isPSSpace(b) || strings.IndexByte("()<>[]{}/%", b) >= 0
}

func (l *psLexer) next() (psTok, bool) {
	l.skipWS()
	if l.pos >= len(l.d) {
		return psTok{}, false
	}
	b := l.d[l.pos]
	switch {
	case b == '(':
		l.pos++
		var out []byte
		depth := 1
		for l.pos < len(l.d) {
			c := l.d[l.pos]
			l.pos++
			switch c {
			case '(':
				depth++
				out = append(out, c)
			case ')':
				depth--
				if depth == 0 {
					return psTok{kind: "str", str: out}, true
				}
				out = append(out, c)
			case '\\':
				if l.pos >= len(l.d) {
					break
				}
				e := l.d[l.pos]
				l.pos++
				switch e {
				case 'n':
					out = append(out, '\n')
				case 'r':
					out = append(out, '\r')
				case 't':
					out = append(out, '\t')
				case 'b':
					out = append(out, '\b')
				case 'f':
					out = append(out, '\f')
				case '\n':
				case '\r':
					if l.pos < len(l.d) && l.d[l.pos] == '\n' {
						l.pos++
					}
				case '0', '1', '2', '3', '4', '5', '6', '7':
					v := int(e - '0')
					for k := 0; k < 2 && l.pos < len(l.d) && l.d[l.pos] >= '0' && l.d[l.pos] <= '7'; k++ {
						v = v*8 + int(l.d[l.pos]-'0')
						l.pos++
					}
					out = append(out, byte(v))
				default:
					out = append(out, e)
				}
			case '\r':
				out = append(out, '\n')
				if l.pos < len(l.d) && l.d[l.pos] == '\n' {
					l.pos++
				}
			default:
				out = append(out, c)
			}
		}
		return psTok{kind: "str", str: out}, true
	case b == '/':
		l.pos++
		st := l.pos
		for l.pos < len(l.d) && !isDelim(l.d[l.pos]) {
			l.pos++
		}
		return psTok{kind: "lit", text: string(l.d[st:l.pos])}, true
	case strings.IndexByte("[]{}", b) >= 0:
		l.pos++
		return psTok{kind: "other", text: string(b)}, true
	case b == '<' || b == '>':
		l.pos++
		if l.pos < len(l.d) && l.d[l.pos] == b {
			l.pos++
			return psTok{kind: "other", text: string([]byte{b, b})}, true
		}
		return psTok{kind: "other", text: string(b)}, true
	default:
		st := l.pos
		for l.pos < len(l.d) && !isDelim(l.d[l.pos]) {
			l.pos++
		}
		if l.pos == st {
			l.pos++
		}
		t := string(l.d[st:l.pos])
		if _, err := strconv.ParseFloat(t, 64); err == nil {
			return psTok{kind: "num", text: t}, true
		}
		return psTok{kind: "name", text: t}, true
	}
}

func (f *specFont) parseClear() error {
	d := f.Clear
	if nl := bytes.IndexAny(d, "\r\n"); nl >= 0 {
		f.HeaderLine = string(d[:nl])
	}
	for _, line := range strings.Split(string(d), "\n") {
		if strings.HasPrefix(line, "%%CreationDate: ") {
			f.CreationDate = strings.TrimPrefix(line, "%%CreationDate: ")
		}
	}
	l := &psLexer{d: d}
	inInfo := false
	for {
		t, ok := l.next()
		if !ok {
			break
		}
		if t.kind == "name" && t.text == "eexec" {
			break
		}
		if t.kind == "name" && t.text == "end" {
			inInfo = false
		}
		if t.kind != "lit" {
			continue
		}
		key := t.text
		switch key {
		case "FontInfo":
			inInfo = true
		case "Private":
			// in the clear format the private part follows
			return nil
		case "FontName":
			v, _ := l.next()
			if v.kind == "lit" {
				f.FontName = v.text
			}
		case "Encoding":
			v, _ := l.next()
			if v.kind == "name" && v.text == "StandardEncoding" {
				f.StdEnc = true
				break
			}
			// 256 array / 0 1 255 {...} for / dup i /name put ... readonly def
			enc := make([]string, 256)
			for i := range enc {
				enc[i] = ".notdef"
			}
			for {
				u, ok := l.next()
				if !ok {
					return errors.New("unterminated Encoding")
				}
				if u.kind == "name" && u.text == "def" {
					break
				}
				if u.kind == "name" && u.text == "dup" {
					iTok, _ := l.next()
					nTok, _ := l.next()
					pTok, _ := l.next()
					idx, err := strconv.Atoi(iTok.text)
					if err != nil || idx < 0 || idx > 255 || nTok.kind != "lit" || pTok.text != "put" {
						return fmt.Errorf("bad Encoding entry %v %v %v", iTok, nTok, pTok)
					}
					enc[idx] = nTok.text
				}
			}
			f.Encoding = enc
		case "FontMatrix":
			v, _ := l.next()
			if v.text != "[" {
				return errors.New("bad FontMatrix")
			}
			for {
				u, ok := l.next()
				if !ok || u.text == "]" {
					break
				}
				f.FontMatrix = append(f.FontMatrix, u.text)
			}
		default:
			if inInfo {
				v, _ := l.next()
				if v.kind == "str" {
					f.Info[key] = string(v.str)
				} else {
					f.InfoNum[key] = v.text
				}
			}
		}
	}
	return nil
}

func (f *specFont) parsePrivate(d []byte) error {
	start := bytes.Index(d, []byte("/Private"))
	if start < 0 {
		return errors.New("no /Private")
	}
	l := &psLexer{d: d, pos: start}
	inChars := false
	for {
		t, ok := l.next()
		if !ok {
			break
		}
		if t.kind == "name" && t.text == "closefile" {
			break
		}
		if t.kind == "name" && t.text == "end" && inChars {
			break
		}
		if t.kind == "name" && t.text == "dup" && !inChars {
			// Subrs entry: dup i len RD bytes NP
			save := l.pos
			iTok, _ := l.next()
			nTok, _ := l.next()
			rd, _ := l.next()
			if iTok.kind == "num" && nTok.kind == "num" && rd.kind == "name" && (rd.text == "RD" || rd.text == "-|") {
				idx, _ := strconv.Atoi(iTok.text)
				n, _ := strconv.Atoi(nTok.text)
				if l.pos+1+n > len(d) {
					return errors.New("subr runs past the end")
				}
				body := d[l.pos+1 : l.pos+1+n]
				l.pos += 1 + n
				for len(f.Subrs) <= idx {
					f.Subrs = append(f.Subrs, nil)
				}
				if n < f.LenIV {
					return errors.New("subr shorter than lenIV")
				}
				f.Subrs[idx] = cipherDecrypt(4330, body)[f.LenIV:]
				continue
			}
			l.pos = save
			continue
		}
		if t.kind != "lit" {
			continue
		}
		key := t.text
		if key == "CharStrings" {
			inChars = true
			continue
		}
		if inChars {
			nTok, _ := l.next()
			rd, _ := l.next()
			if nTok.kind != "num" || rd.kind != "name" || (rd.text != "RD" && rd.text != "-|") {
				return fmt.Errorf("bad CharStrings entry /%s %v %v", key, nTok, rd)
			}
			n, _ := strconv.Atoi(nTok.text)
			if l.pos+1+n > len(d) {
				return errors.New("charstring runs past the end")
			}
			if d[l.pos] != ' ' {
				return errors.New("RD not followed by a single space")
			}
			body := d[l.pos+1 : l.pos+1+n]
			l.pos += 1 + n
			if n < f.LenIV {
				return errors.New("charstring shorter than lenIV")
			}
			if _, dup := f.Glyphs[key]; dup {
				return fmt.Errorf("glyph %s defined twice", key)
			}
			f.Glyphs[key] = &specGlyph{Raw: cipherDecrypt(4330, body)[f.LenIV:]}
			nd, _ := l.next()
			if nd.text != "ND" && nd.text != "|-" {
				return fmt.Errorf("charstring not followed by ND: %v", nd)
			}
			continue
		}
		switch key {
		case "RD", "ND", "NP", "-|", "|-", "|", "Subrs", "Private", "MinFeature":
			continue
		case "lenIV":
			v, _ := l.next()
			f.LenIV, _ = strconv.Atoi(v.text)
		default:
			v, _ := l.next()
			if v.text == "[" {
				var parts []string
				for {
					u, ok := l.next()
					if !ok || u.text == "]" {
						break
					}
					parts = append(parts, u.text)
				}
				f.PrivNum[key] = "[" + strings.Join(parts, " ") + "]"
			} else if v.kind == "num" || v.kind == "name" {
				f.PrivNum[key] = v.text
			}
		}
	}
	for name, g := range f.Glyphs {
		specRunCharstring(g, f.Subrs)
		if g.Err != nil {
			return fmt.Errorf("glyph %s: %v (charstring %x)", name, g.Err, g.Raw)
		}
	}
	return nil
}

// ---- charstring interpreter after the Type 1 book ----

func ratInt(i int64) *big.Rat       { return new(big.Rat).SetInt64(i) }
func ratAdd(a, b *big.Rat) *big.Rat { return new(big.Rat).Add(a, b) }

func specRunCharstring(g *specGlyph, subrs [][]byte) {
	var stack []*big.Rat
	var psStack []*big.Rat
	x, y := ratInt(0), ratInt(0)
	g.SBX, g.SBY, g.WX, g.WY = ratInt(0), ratInt(0), ratInt(0), ratInt(0)
	var flex []*big.Rat
	inFlex := false
	open := false
	moveTo := func(dx, dy *big.Rat) {
		x, y = ratAdd(x, dx), ratAdd(y, dy)
		if inFlex {
			return
		}
		g.Cmds = append(g.Cmds, specCmd{"moveto", []*big.Rat{x, y}})
		open = false
	}
	lineTo := func(dx, dy *big.Rat) {
		x, y = ratAdd(x, dx), ratAdd(y, dy)
		g.Cmds = append(g.Cmds, specCmd{"lineto", []*big.Rat{x, y}})
		open = true
	}
	curveTo := func(d [6]*big.Rat) {
		xa, ya := ratAdd(x, d[0]), ratAdd(y, d[1])
		xb, yb := ratAdd(xa, d[2]), ratAdd(ya, d[3])
		x, y = ratAdd(xb, d[4]), ratAdd(yb, d[5])
		g.Cmds = append(g.Cmds, specCmd{"curveto", []*big.Rat{xa, ya, xb, yb, x, y}})
		open = true
	}
	_ = open
	zero := ratInt(0)
	var run func(code []byte, depth int) (done bool)
	run = func(code []byte, depth int) bool {
		if depth > 10 {
			g.Err = errors.New("subr nesting too deep")
			return true
		}
		pos := 0
		need := func(n int) bool {
			if len(stack) < n {
				g.Err = fmt.Errorf("stack underflow: need %d have %d", n, len(stack))
				return false
			}
			return true
		}
		for pos < len(code) {
			b := code[pos]
			switch {
			case b >= 32 && b <= 246:
				stack = append(stack, ratInt(int64(b)-139))
				pos++
				continue
			case b >= 247 && b <= 250:
				if pos+1 >= len(code) {
					g.Err = errors.New("truncated number")
					return true
				}
				stack = append(stack, ratInt((int64(b)-247)*256+int64(code[pos+1])+108))
				pos += 2
				continue
			case b >= 251 && b <= 254:
				if pos+1 >= len(code) {
					g.Err = errors.New("truncated number")
					return true
				}
				stack = append(stack, ratInt(-(int64(b)-251)*256-int64(code[pos+1])-108))
				pos += 2
				continue
			case b == 255:
				if pos+4 >= len(code) {
					g.Err = errors.New("truncated number")
					return true
				}
				v := int32(uint32(code[pos+1])<<24 | uint32(code[pos+2])<<16 | uint32(code[pos+3])<<8 | uint32(code[pos+4]))
				stack = append(stack, ratInt(int64(v)))
				pos += 5
				continue
			}
			op := int(b)
			pos++
			if b == 12 {
				if pos >= len(code) {
					g.Err = errors.New("truncated escape")
					return true
				}
				op = 1200 + int(code[pos])
				pos++
			}
			switch op {
			case 13: // hsbw
				if !need(2) {
					return true
				}
				g.SBX, g.SBY, g.WX, g.WY = stack[0], zero, stack[1], zero
				x, y = stack[0], zero
				stack = stack[:0]
			case 1207: // sbw
				if !need(4) {
					return true
				}
				g.SBX, g.SBY, g.WX, g.WY = stack[0], stack[1], stack[2], stack[3]
				x, y = stack[0], stack[1]
				stack = stack[:0]
			case 14: // endchar
				return true
			case 1206: // seac
				if !need(5) {
					return true
				}
				g.Seac = append([]*big.Rat{}, stack[:5]...)
				return true
			case 9:
				g.Cmds = append(g.Cmds, specCmd{"closepath", nil})
				open = false
				stack = stack[:0]
			case 21:
				if !need(2) {
					return true
				}
				moveTo(stack[0], stack[1])
				stack = stack[:0]
			case 22:
				if !need(1) {
					return true
				}
				moveTo(stack[0], zero)
				stack = stack[:0]
			case 4:
				if !need(1) {
					return true
				}
				moveTo(zero, stack[0])
				stack = stack[:0]
			case 5:
				if !need(2) {
					return true
				}
				lineTo(stack[0], stack[1])
				stack = stack[:0]
			case 6:
				if !need(1) {
					return true
				}
				lineTo(stack[0], zero)
				stack = stack[:0]
			case 7:
				if !need(1) {
					return true
				}
				lineTo(zero, stack[0])
				stack = stack[:0]
			case 8:
				if !need(6) {
					return true
				}
				curveTo([6]*big.Rat{stack[0], stack[1], stack[2], stack[3], stack[4], stack[5]})
				stack = stack[:0]
			case 31: // hvcurveto dx1 dx2 dy2 dy3
				if !need(4) {
					return true
				}
				curveTo([6]*big.Rat{stack[0], zero, stack[1], stack[2], zero, stack[3]})
				stack = stack[:0]
			case 30: // vhcurveto dy1 dx2 dy2 dx3
				if !need(4) {
					return true
				}
				curveTo([6]*big.Rat{zero, stack[0], stack[1], stack[2], stack[3], zero})
				stack = stack[:0]
			case 1: // hstem y dy
				if !need(2) {
					return true
				}
				a := ratAdd(g.SBY, stack[0])
				g.HStem = append(g.HStem, a, ratAdd(a, stack[1]))
				stack = stack[:0]
			case 3: // vstem
				if !need(2) {
					return true
				}
				a := ratAdd(g.SBX, stack[0])
				g.VStem = append(g.VStem, a, ratAdd(a, stack[1]))
				stack = stack[:0]
			case 1202: // hstem3
				if !need(6) {
					return true
				}
				for k := 0; k < 3; k++ {
					a := ratAdd(g.SBY, stack[2*k])
					g.HStem = append(g.HStem, a, ratAdd(a, stack[2*k+1]))
				}
				stack = stack[:0]
			case 1201: // vstem3
				if !need(6) {
					return true
				}
				for k := 0; k < 3; k++ {
					a := ratAdd(g.SBX, stack[2*k])
					g.VStem = append(g.VStem, a, ratAdd(a, stack[2*k+1]))
				}
				stack = stack[:0]
			case 1200: // dotsection
				stack = stack[:0]
			case 1212: // div
				if !need(2) {
					return true
				}
				a, b := stack[len(stack)-2], stack[len(stack)-1]
				if b.Sign() == 0 {
					g.Err = errors.New("division by zero")
					return true
				}
				stack = append(stack[:len(stack)-2], new(big.Rat).Quo(a, b))
			case 10: // callsubr
				if !need(1) {
					return true
				}
				iv := stack[len(stack)-1]
				stack = stack[:len(stack)-1]
				if !iv.IsInt() {
					g.Err = errors.New("non-integer subr index")
					return true
				}
				idx := int(iv.Num().Int64())
				if idx < 0 || idx >= len(subrs) {
					g.Err = fmt.Errorf("bad subr index %d", idx)
					return true
				}
				if run(subrs[idx], depth+1) {
					return true
				}
			case 11: // return
				return false
			case 1216: // callothersubr
				if !need(2) {
					return true
				}
				idxR, nR := stack[len(stack)-1], stack[len(stack)-2]
				stack = stack[:len(stack)-2]
				if !idxR.IsInt() || !nR.IsInt() {
					g.Err = errors.New("non-integer othersubr operands")
					return true
				}
				idx, n := int(idxR.Num().Int64()), int(nR.Num().Int64())
				if n < 0 || !need(n) {
					if g.Err == nil {
						g.Err = errors.New("bad othersubr arg count")
					}
					return true
				}
				psStack = psStack[:0]
				for k := 0; k < n; k++ {
					psStack = append(psStack, stack[len(stack)-1])
					stack = stack[:len(stack)-1]
				}
				switch idx {
				case 1:
					inFlex = true
					flex = flex[:0]
				case 2:
					flex = append(flex, x, y)
				case 0:
					if len(flex) != 14 || n != 3 {
						g.Err = errors.New("malformed flex")
						return true
					}
					inFlex = false
					g.Cmds = append(g.Cmds,
						specCmd{"curveto", []*big.Rat{flex[2], flex[3], flex[4], flex[5], flex[6], flex[7]}},
						specCmd{"curveto", []*big.Rat{flex[8], flex[9], flex[10], flex[11], flex[12], flex[13]}})
					open = true
					// the flex height is consumed; x and y stay (x on top)
					psStack = psStack[:2]
				case 3:
					psStack = []*big.Rat{ratInt(3)}
				}
			case 1217: // pop
				if len(psStack) == 0 {
					g.Err = errors.New("pop from empty PostScript stack")
					return true
				}
				stack = append(stack, psStack[len(psStack)-1])
				psStack = psStack[:len(psStack)-1]
			case 1233: // setcurrentpoint
				if !need(2) {
					return true
				}
				x, y = stack[0], stack[1]
				stack = stack[:0]
			default:
				g.Err = fmt.Errorf("unknown charstring command %d", op)
				return true
			}
			if g.Err != nil {
				return true
			}
		}
		return false
	}
	run(g.Raw, 0)
}

func ratStr(r *big.Rat) string {
	if r.IsInt() {
		return r.Num().String()
	}
	return r.Num().String() + "/" + r.Denom().String()
}
