package main

// Suite `t1cs` (C01, C06): the charstring interpreter of type1.Read on crafted
// charstrings.  case: `cs <subr;subr;...> <code>` (hex, plain charstrings);
// `csf` = oracle only (arithmetic not exact / hostile).

import (
	"fmt"
	"math"
	"math/big"
	"strings"
	"time"

	"seehuhn.de/go/postscript/type1"
)

func buildCSFont(subrs [][]byte, code []byte, lenIV int, format string) []byte {
	f := &renderFont{
		FontName:   "T",
		Info:       [][2]string{{"version", "(1)"}},
		FontMatrix: "[0.001 0 0 0.001 0 0]",
		LenIV:      lenIV,
		Subrs:      subrs,
		Glyphs:     map[string][]byte{"g": code, ".notdef": append(append(csInt(0), csInt(0)...), append(csOp(opHsbw), csOp(opEndchar)...)...)},
	}
	return f.render(renderLayout{Format: format, IV: [4]byte{1, 2, 3, 4}})
}

func floatRatStr(x float64) string {
	return ratStr(new(big.Rat).SetFloat64(x))
}

func glyphLine(g *type1.Glyph) string {
	finite := !math.IsNaN(g.WidthX) && !math.IsInf(g.WidthX, 0) && !math.IsNaN(g.WidthY) && !math.IsInf(g.WidthY, 0)
	var cs []string
	for _, c := range g.Cmds {
		p := []string{map[type1.GlyphOpType]string{type1.OpMoveTo: "m", type1.OpLineTo: "l", type1.OpCurveTo: "c", type1.OpClosePath: "z"}[c.Op]}
		for _, a := range c.Args {
			if math.IsNaN(a) || math.IsInf(a, 0) {
				finite = false
				break
			}
			p = append(p, floatRatStr(a))
		}
		cs = append(cs, strings.Join(p, ":"))
	}
	if !finite {
		return "nonfinite"
	}
	ints := func(v interface{ Len() int }) string { return "" }
	_ = ints
	hs := make([]string, len(g.HStem))
	for i, v := range g.HStem {
		hs[i] = fmt.Sprint(int(v))
	}
	vs := make([]string, len(g.VStem))
	for i, v := range g.VStem {
		vs[i] = fmt.Sprint(int(v))
	}
	return fmt.Sprintf("ok w=%s,%s cmds=%s hs=%s vs=%s", floatRatStr(g.WidthX), floatRatStr(g.WidthY), strings.Join(cs, ";"), strings.Join(hs, ","), strings.Join(vs, ","))
}

func csErrClass(err error) string {
	msg := err.Error()
	switch {
	case strings.Contains(msg, "stack overflow"):
		return "err:stackoverflow"
	case strings.Contains(msg, "incomplete"):
		return "err:incomplete"
	case strings.HasPrefix(msg, "type1:"):
		return "err:invalid"
	}
	return "err:other:" + msg
}

func hexList(bs [][]byte) string {
	if len(bs) == 0 {
		return "-"
	}
	p := make([]string, len(bs))
	for i, b := range bs {
		p[i] = hx(b)
	}
	return strings.Join(p, ";")
}

func csCase(o *suiteOut, subrs [][]byte, code []byte, exact bool) {
	verb := "cs"
	if !exact {
		verb = "csf"
	}
	line := fmt.Sprintf("%s %s %s", verb, hexList(subrs), hx(code))
	start := time.Now()
	font, err, pan := readFont(buildCSFont(subrs, code, 4, "clear"))
	el := time.Since(start)
	if pan != "" {
		o.fail("C01", "no panic in the Type 1 reader (charstring interpreter)", line, "error value", pan)
	}
	if el > 5*time.Second {
		o.fail("C01", "the charstring interpreter terminates promptly", line, "< 5 s", el.String())
	}
	res := ""
	switch {
	case pan != "":
		res = "panic"
	case err != nil:
		res = csErrClass(err)
	case font.Glyphs["g"] == nil:
		res = "missing"
	default:
		res = glyphLine(font.Glyphs["g"])
	}
	if !exact {
		res = "skip"
	}
	o.emit(line, res, err == nil)
}

func replayCS(o *suiteOut, line string) {
	f := strings.Split(line, " ")
	var subrs [][]byte
	if f[1] != "-" {
		for _, s := range strings.Split(f[1], ";") {
			subrs = append(subrs, unhx(s))
		}
	}
	csCase(o, subrs, unhx(f[2]), f[0] == "cs")
}

func cat(parts ...[]byte) []byte {
	var out []byte
	for _, p := range parts {
		out = append(out, p...)
	}
	return out
}

func suiteT1cs(o *suiteOut, r *rng, tier string, n int) {
	for _, l := range corpusLines("t1cs") {
		replayCS(o, l)
		o.count("corpus cases")
	}
	hsbw := cat(csInt(0), csInt(500), csOp(opHsbw))
	end := csOp(opEndchar)
	ret := csOp(opReturn)
	// witnesses and fixed cases
	fixed := [][]byte{
		cat(hsbw, csInt(0), csInt(0), csOp(opCallothersubr), end),
		cat(hsbw, csInt(-1), csInt(0), csOp(opCallothersubr), end),
		cat(hsbw, csInt(1), csInt(2), csInt(3), csInt(0), csOp(opCallothersubr), csOp(opPop), csOp(opPop), csOp(opPop), end),
		cat(hsbw, csInt(5), csInt(1), csInt(3), csOp(opCallothersubr), csOp(opPop), csOp(opCallsubr), end),
		cat(hsbw, csInt(3), csOp(opCallsubr), end),
		cat(hsbw, csInt(99), csOp(opCallsubr), end),
		cat(hsbw, csInt(-1), csOp(opCallsubr), end),
		cat(hsbw, csInt(1), csInt(2), csOp(opDiv), csOp(opCallsubr), end),
		cat(hsbw, csOp(opPop), end),
		cat(hsbw, csInt(1), csInt(0), csOp(opDiv), csInt(5), csOp(opRmoveto), end),
		cat(csInt(10), csInt(20), csInt(500), csInt(30), csOp(opSbw), csInt(5), csInt(7), csOp(opHstem), csInt(1), csInt(2), csOp(opVstem), csInt(100), csInt(100), csOp(opRmoveto), csInt(50), csOp(opHlineto), csOp(opClosepath), end),
		cat(hsbw, csInt(10), csInt(10), csOp(opRmoveto), csInt(20), csOp(opHlineto), end), // implicit closepath
		cat(hsbw, csInt(10), csInt(10), csOp(opRmoveto), csInt(1), csInt(2), csInt(3), csInt(4), csInt(5), csInt(6), csOp(opRrcurveto), end),
		cat(hsbw, csInt(10), csInt(10), csOp(opRmoveto), csInt(20), csOp(opHlineto), csInt(5), csInt(5), csOp(opRmoveto), csInt(3), csOp(opVlineto), csOp(opClosepath), end),
		cat(hsbw, csInt(1), csInt(2), csInt(3), csInt(4), csInt(5), csInt(6), csOp(opHstem3), csInt(1), csInt(2), csInt(3), csInt(4), csInt(5), csInt(6), csOp(opVstem3), csOp(opDotsection), end),
		cat(hsbw, csInt(0), csInt(100), csInt(200), csInt(65), csInt(66), csOp(opSeac)),
		cat(csInt(13), csInt(29), csInt(500), csInt(0), csOp(opSbw), csInt(1), csInt(2), csInt(3), csInt(4), csInt(5), csInt(6), csOp(opHstem3), csInt(1), csInt(2), csInt(3), csInt(4), csInt(5), csInt(6), csOp(opVstem3), csInt(7), csInt(8), csOp(opHstem), csInt(9), csInt(10), csOp(opVstem), csInt(5), csInt(6), csOp(opRmoveto), csInt(3), csOp(opHlineto), csOp(opClosepath), end),
		cat(csInt(37), csInt(500), csOp(opHsbw), csInt(1), csInt(2), csInt(3), csInt(4), csInt(5), csInt(6), csOp(opVstem3), csInt(1), csInt(2), csInt(3), csInt(4), csInt(5), csInt(6), csOp(opHstem3), end),
		cat(hsbw, csInt(100), csInt(200), csOp(opSetcurrentpoint), csInt(10), csOp(opHlineto), csOp(opClosepath), end),
		{}, {12}, {255}, {255, 0, 0}, {247}, {251}, {12, 99}, {2}, {15}, {14}, {11}, {10}, {139, 10},
	}
	// every multi-byte form cut short at every length: alone, after hsbw, after other operands, inside a subroutine
	for _, form := range [][]byte{{255, 0, 0, 1, 0}, {255, 255, 255, 255, 255}, {247, 5}, {250, 255}, {251, 5}, {254, 255}, {12, 7}, {12, 12}} {
		for k := 1; k < len(form); k++ {
			cut := form[:k:k]
			fixed = append(fixed, cut, cat(hsbw, cut), cat(hsbw, csInt(7), csInt(-300), cut))
			csCase(o, [][]byte{cut}, cat(hsbw, csInt(0), csOp(opCallsubr), end), true)
			o.count("truncated multi-byte forms")
		}
	}
	for _, c := range fixed {
		csCase(o, nil, c, true)
		o.count("fixed charstrings")
	}
	// flex after a move, a line and a curve (with a conforming flex sequence)
	flexSeq := func() []byte {
		var b []byte
		b = append(b, cat(csInt(0), csInt(1), csOp(opCallothersubr))...)
		for i, d := range [][2]int{{30, 0}, {-20, 10}, {10, 5}, {10, 0}, {10, 0}, {10, -5}, {10, -10}} {
			_ = i
			b = append(b, cat(csInt(d[0]), csInt(d[1]), csOp(opRmoveto), csInt(0), csInt(2), csOp(opCallothersubr))...)
		}
		b = append(b, cat(csInt(50), csInt(160), csInt(100), csInt(3), csInt(0), csOp(opCallothersubr), csOp(opPop), csOp(opPop), csOp(opSetcurrentpoint))...)
		return b
	}
	for _, pre := range [][]byte{
		cat(csInt(100), csInt(100), csOp(opRmoveto)),
		cat(csInt(100), csInt(100), csOp(opRmoveto), csInt(20), csOp(opHlineto)),
		cat(csInt(100), csInt(100), csOp(opRmoveto), csInt(1), csInt(2), csInt(3), csInt(4), csInt(5), csInt(6), csOp(opRrcurveto)),
	} {
		csCase(o, nil, cat(hsbw, pre, flexSeq(), csInt(5), csOp(opVlineto), csOp(opClosepath), end), true)
		o.count("flex placements")
	}
	// every opcode (one- and two-byte) with every stack height 0..25
	ops := []int{}
	for b := 0; b < 32; b++ {
		if b != 12 {
			ops = append(ops, b)
		}
	}
	for b := 0; b < 40; b++ {
		ops = append(ops, 1200+b)
	}
	maxH := 25
	for _, op := range ops {
		for h := 0; h <= maxH; h++ {
			if tier != "thorough" && h > 7 && h < 23 && r.intn(4) != 0 {
				continue
			}
			// the side bearing point differs in x and y so that operators relative to it are told apart
			pro := pick(r, [][]byte{hsbw, cat(csInt(37), csInt(500), csOp(opHsbw)), cat(csInt(13), csInt(29), csInt(500), csInt(0), csOp(opSbw)), cat(csInt(-20), csInt(45), csInt(400), csInt(10), csOp(opSbw))})
			c := append([]byte{}, pro...)
			for k := 0; k < h; k++ {
				c = append(c, csInt(r.rangeInt(0, 6))...)
			}
			c = append(c, csOp(op)...)
			c = append(c, cat(csInt(1), csInt(1), csOp(opRmoveto))...)
			c = append(c, end...)
			csCase(o, [][]byte{cat(csInt(7), csOp(opHlineto), ret), nil, cat(csInt(1), csOp(opCallsubr), ret), ret, cat(csInt(0), csOp(opCallsubr), csInt(0), csOp(opCallsubr), ret)}, c, op != opDiv)
			o.count("opcode x stack height")
		}
	}
	// callothersubr with every (idx, argN) in -2..4 and extreme values
	for idx := -2; idx <= 5; idx++ {
		for argN := -2; argN <= 4; argN++ {
			c := cat(hsbw, csInt(9), csInt(8), csInt(7), csInt(6), csInt(argN), csInt(idx), csOp(opCallothersubr), csOp(opPop), end)
			csCase(o, nil, c, true)
			o.count("callothersubr idx x argN")
		}
	}
	for _, v := range []int{2147483647, -2147483648, 65536, 32768, -32769} {
		csCase(o, nil, cat(hsbw, csInt(1), csInt(v), csInt(0), csOp(opCallothersubr), end), true)
		csCase(o, nil, cat(hsbw, csInt(1), csInt(1), csInt(v), csOp(opCallothersubr), end), true)
		csCase(o, nil, cat(hsbw, csInt(v), csOp(opCallsubr), end), true)
		csCase(o, nil, cat(hsbw, csInt5(v), csInt5(v), csOp(opRmoveto), csInt(v), csOp(opHlineto), end), false)
		csCase(o, nil, cat(hsbw, csInt(v), csInt(3), csOp(opHstem), end), false)
	}
	// subroutine nesting: depth limit and call fan-out (time must stay bounded)
	for depth := 1; depth <= 12; depth++ {
		// the chain uses the entries 0, 1, 2, 4, 5, ...: entry 3 is predefined (does nothing)
		idx := func(i int) int {
			if i >= 3 {
				return i + 1
			}
			return i
		}
		subrs := make([][]byte, idx(depth-1)+1)
		for i := range subrs {
			subrs[i] = cat(ret)
		}
		for i := 0; i < depth; i++ {
			if i == depth-1 {
				subrs[idx(i)] = cat(csInt(1), csOp(opHlineto), ret)
			} else {
				subrs[idx(i)] = cat(csInt(idx(i+1)), csOp(opCallsubr), ret)
			}
		}
		code := cat(hsbw, csInt(5), csInt(5), csOp(opRmoveto), csInt(0), csOp(opCallsubr), end)
		csCase(o, subrs, code, true)
		if depth <= 10 {
			// Type 1 Font Format, 6.6: calls may be nested 10 deep
			font, err, _ := readFont(buildCSFont(subrs, code, 4, "clear"))
			hasLine := false
			if err == nil && font.Glyphs["g"] != nil {
				for _, c := range font.Glyphs["g"].Cmds {
					hasLine = hasLine || c.Op == type1.OpLineTo
				}
			}
			if !hasLine {
				got := "missing"
				if err != nil {
					got = err.Error()
				} else if font.Glyphs["g"] != nil {
					got = glyphLine(font.Glyphs["g"])
				}
				o.fail("C06", "subroutine calls nested up to 10 deep are executed", fmt.Sprintf("cs %s %s", hexList(subrs), hx(code)), "a glyph with the line drawn by the innermost subroutine", got)
			}
		}
		o.count("subroutine nesting depth")
	}
	csCase(o, [][]byte{cat(csInt(0), csOp(opCallsubr), ret)}, cat(hsbw, csInt(0), csOp(opCallsubr), end), true) // self-recursion
	for _, fan := range []int{2, 3, 4} {
		// every level calls the next `fan` times: fan^9 steps
		var subrs [][]byte
		levels := []int{0, 1, 2, 4, 5, 6, 7, 8, 9}
		for li, lv := range levels {
			var body []byte
			if li == len(levels)-1 {
				body = cat(csInt(1), csOp(opHlineto))
			} else {
				for k := 0; k < fan; k++ {
					body = append(body, cat(csInt(levels[li+1]), csOp(opCallsubr))...)
				}
			}
			for len(subrs) <= lv {
				subrs = append(subrs, ret)
			}
			subrs[lv] = append(body, ret...)
		}
		csCase(o, subrs, cat(hsbw, csInt(5), csInt(5), csOp(opRmoveto), csInt(0), csOp(opCallsubr), end), false)
		o.count("subroutine fan-out")
	}
	// random charstrings: structured and raw bytes
	nr := 3000
	if tier == "thorough" {
		nr = 150000
	}
	if n > 0 {
		nr = n
	}
	pathOps := []int{opRmoveto, opHmoveto, opVmoveto, opRlineto, opHlineto, opVlineto, opRrcurveto, opHvcurveto, opVhcurveto, opClosepath, opHstem, opVstem, opDotsection, opCallsubr, opDiv, opSetcurrentpoint, opPop, opCallothersubr}
	arity := map[int]int{opRmoveto: 2, opHmoveto: 1, opVmoveto: 1, opRlineto: 2, opHlineto: 1, opVlineto: 1, opRrcurveto: 6, opHvcurveto: 4, opVhcurveto: 4, opHstem: 2, opVstem: 2, opCallsubr: 1, opDiv: 2, opSetcurrentpoint: 2, opCallothersubr: 2}
	for i := 0; i < nr; i++ {
		subrs := [][]byte{cat(csInt(3), csOp(opVlineto), ret), cat(csInt(0), csOp(opCallsubr), ret), ret, ret}
		exact := true
		c := append([]byte{}, hsbw...)
		if r.chance(1, 4) {
			b := make([]byte, r.rangeInt(1, 30))
			for j := range b {
				b[j] = byte(r.intn(256))
			}
			c = append(c, b...)
			exact = false
		} else {
			for k := r.rangeInt(1, 25); k > 0; k-- {
				op := pick(r, pathOps)
				na := arity[op]
				if r.chance(1, 10) {
					na = r.intn(8)
				}
				for a := 0; a < na; a++ {
					v := r.rangeInt(-300, 300)
					if op == opCallsubr {
						v = r.rangeInt(-1, 5)
					}
					if op == opDiv && a == na-1 {
						v = pick(r, []int{1, 2, 4, 8, -2, 3, 7, 0})
						if v == 3 || v == 7 || v == 0 {
							exact = false
						}
					}
					if r.chance(1, 40) {
						c = append(c, csInt5(v)...)
					} else {
						c = append(c, csInt(v)...)
					}
				}
				c = append(c, csOp(op)...)
			}
			if r.chance(9, 10) {
				c = append(c, end...)
			}
		}
		csCase(o, subrs, c, exact)
		o.count("random charstrings")
	}
	o.notes = append(o.notes, "crafted charstrings wrapped into a font by the harness's own Type 1 writer and read by type1.Read: every opcode with every operand-stack height 0..25, callothersubr with every (idx, argN), extreme operands, subroutine nesting 1..12 and call fan-out, flex after move/line/curve, random structured and random byte charstrings; direct oracle: no panic, bounded time; the decoded glyph is diffed against the Lean model of decodeCharString for exact-arithmetic inputs")
}

func init() {
	suites["t1cs"] = suiteT1cs
	replayers["cs"] = replayCS
	replayers["csf"] = replayCS
}
