package main

// Generators for `control` (C03), `budget` (C11) and `hostile` (C01).

import (
	"fmt"
	"os"
	"strings"

	"seehuhn.de/go/postscript"
)

type ctlGen struct {
	r      *rng
	loopID int
	vars   int
}

func (g *ctlGen) lit() string {
	return pick(g.r, []string{"1", "2", "3", "7", "-1", "0", "(s)", "/n", "true", "false", "1.5", "[1 2]"})
}

// body returns a token sequence; inLoop says whether an `exit` here leaves a loop.
func (g *ctlGen) body(depth int, inLoop bool) string {
	n := g.r.rangeInt(1, 4)
	var parts []string
	for i := 0; i < n; i++ {
		parts = append(parts, g.stmt(depth, inLoop))
	}
	return strings.Join(parts, " ")
}

func (g *ctlGen) stmt(depth int, inLoop bool) string {
	r := g.r
	k := r.intn(22)
	if depth <= 0 && k >= 6 && k <= 16 {
		k = r.intn(6)
	}
	switch k {
	case 0, 1:
		return g.lit()
	case 2:
		return fmt.Sprintf("%d %d %s", r.rangeInt(-5, 9), r.rangeInt(-5, 9), pick(r, []string{"add", "sub", "mul", "eq", "ne"}))
	case 3:
		g.vars++
		return fmt.Sprintf("/v%d %s def", r.intn(3), g.lit())
	case 4:
		return fmt.Sprintf("/v%d where {pop v%d} if", r.intn(3), r.intn(3))
	case 5:
		return "count"
	case 6:
		return "{ " + g.body(depth-1, false) + " } exec"
	case 7:
		return pick(r, []string{"true", "false"}) + " { " + g.body(depth-1, inLoop) + " } if"
	case 8:
		return pick(r, []string{"true", "false", "1 1 eq", "1 2 eq"}) + " { " + g.body(depth-1, inLoop) + " } { " + g.body(depth-1, inLoop) + " } ifelse"
	case 9:
		return fmt.Sprintf("%d { %s } repeat", r.intn(4), g.body(depth-1, true))
	case 10:
		a, b, c := r.rangeInt(-2, 3), pick(r, []int{1, 1, 2, -1, -2, 3}), r.rangeInt(-3, 6)
		use := "pop "
		if r.chance(1, 3) {
			use = ""
		}
		return fmt.Sprintf("%d %d %d { %s%s } for", a, b, c, use, g.body(depth-1, true))
	case 11:
		src := pick(r, []string{"[1 2 3]", "[]", "[(a) /b]", "(xy)", "()", "<< /k 5 >>", "<C3A941>", "<80FF>"})
		pops := "pop "
		if strings.HasPrefix(src, "<<") {
			pops = "pop pop "
		}
		return fmt.Sprintf("%s { %s%s } forall", src, pops, g.body(depth-1, true))
	case 12:
		g.loopID++
		c := fmt.Sprintf("c%d", g.loopID)
		lim := r.rangeInt(1, 3)
		return fmt.Sprintf("/%s 0 def { /%s %s 1 add def %s %s %d eq {exit} if } loop", c, c, c, g.body(depth-1, true), c, lim)
	case 13:
		// a nested procedure literal: pushed, not run, wherever it stands
		return "{ " + g.body(depth-1, false) + " }"
	case 14:
		pos := r.intn(3)
		inner := "{ " + g.body(depth-1, false) + " }"
		switch pos {
		case 0:
			return "{ " + inner + " " + g.lit() + " " + g.lit() + " } exec"
		case 1:
			return "{ " + g.lit() + " " + inner + " " + g.lit() + " } exec"
		default:
			return "{ " + g.lit() + " " + g.lit() + " " + inner + " } exec"
		}
	case 15:
		g.vars++
		return fmt.Sprintf("/p%d { %s } %s def p%d", depth, g.body(depth-1, false), pick(r, []string{"", "bind", "bind"}), depth)
	case 16:
		return fmt.Sprintf("%d dict begin /v%d %s def %s end", r.intn(4), r.intn(3), g.lit(), g.body(depth-1, inLoop))
	case 17:
		if inLoop || r.chance(1, 6) {
			return "exit"
		}
		return g.lit()
	case 18:
		if r.chance(1, 5) {
			return "stop"
		}
		return "pop"
	case 19:
		return "/add { sub } def 5 3 add " + pick(r, []string{"", "{5 3 add} bind exec", "/add load type"})
	case 20:
		return "{ 1 2 add } dup bind dup 2 get type exch exec"
	default:
		return pick(r, []string{"dup", "exch", "pop", "1 index", "currentdict length", "mark 1 2 cleartomark"})
	}
}

var controlFixed = []string{
	"{ {1 2} } exec", "{ {1 2} 3 } exec", "{ 3 {1 2} } exec", "{ 0 {1 2} 3 } exec", "{ { { 7 } } } exec exec exec",
	"3 { 1 exit } repeat", "3 { 1 } repeat", "0 { 1 } repeat", "1 1 3 { } for", "3 -1 1 { } for", "1 1 0 { } for", "0 0 3 { exit } for",
	"1 2 10 { dup 6 eq {exit} if } for", "[1 2 3] { dup 2 eq {exit} if } forall", "(ab) { } forall", "<< /a 1 >> { } forall",
	"/v 1 array 0 get def v", "/f 7 def 3 dict begin /f currentfile def f end", "/n 1 array 0 get def /n load", "5 dict begin /add 1 array 0 get def 1 2 add end",
	"/k 1 array 0 get def 2 dict begin /k 5 def end k", "/p { q } def /q 1 array 0 get def p", "/cf currentfile def { cf } exec",
	"<C3A9> {} forall", "<80FF41> {} forall", "<E282AC00FF> { 1 add } forall", "(\\351\\200) {} forall", "<F09F9880> {} forall count",
	"{ 1 exit 2 } loop 3", "{ { exit } loop 5 exit } loop 6", "2 { 3 { 1 exit } repeat 2 } repeat", "exit", "1 stop 2", "{ 1 stop 2 } exec 3",
	"3 { stop } repeat 4", "{ stop } loop", "1 1 3 { stop } for", "{exit} exec", "true {exit} if", "[1] {exit} forall 5 exit",
	"/f { 1 } def f f", "/x 1 def 2 dict begin /x 2 def x end x", "/x 1 def /p { x } def 2 dict begin /x 2 def p end",
	"/x 1 def /p { x } bind def 2 dict begin /x 2 def p end", "/p { add } bind def /add { sub } def 5 3 p 5 3 add",
	"/p { add } def /add { sub } def 5 3 p", "{/add} bind 0 get type", "{ add } bind 0 get type", "{ { add } } bind 0 get 0 get type",
	"{ foo } bind 0 get type", "/q { 1 } def { q } bind 0 get type", "true { 1 } if false { 2 } if", "true { 1 } { 2 } ifelse false { 1 } { 2 } ifelse",
	"1 { 2 } if", "true 5 if", "false 5 6 ifelse", "true 5 6 ifelse", "{ } exec", "5 exec", "/add load exec", "1 2 /add load exec",
	"20 { userdict begin } repeat", "18 { userdict begin } repeat 0 begin", "19 { 1 dict begin } repeat end end end currentdict length",
	"/a 5 def currentdict /a get userdict /a get eq", "systemdict begin /a 1 def end", "/true false def true", "/x { /x 5 def } def x x",
}

var plrmLoopCases = []struct{ prog, want string }{
	{"0 1 1 4 {add} for", "10"}, {"1 2 6 {} for", "1 3 5"}, {"3 -1 1 {} for", "3 2 1"}, {"1 1 0 {} for", ""}, {"5 1 5 {} for", "5"},
	{"0 4611686018427387904 9223372036854775807 {} for", "0 4611686018427387904"}, {"9223372036854775806 1 9223372036854775807 {} for", "9223372036854775806 9223372036854775807"},
	{"-9223372036854775807 -1 -9223372036854775808 {} for", "-9223372036854775807 -9223372036854775808"},
	// limit and initial value more than 2^63 apart: the number of rounds does not fit a machine word difference
	{"-9223372036854775808 4611686018427387904 4611686018427387904 {} for", "-9223372036854775808 -4611686018427387904 0 4611686018427387904"},
	{"9223372036854775807 -4611686018427387904 -4611686018427387904 {} for", "9223372036854775807 4611686018427387903 -1"},
	{"-9223372036854775808 9223372036854775807 9223372036854775807 {} for", "-9223372036854775808 -1 9223372036854775806"},
	{"-9223372036854775808 1 -9223372036854775806 {} for", "-9223372036854775808 -9223372036854775807 -9223372036854775806"},
	{"9223372036854775807 -9223372036854775808 -9223372036854775808 {} for", "9223372036854775807 -1"},
	{"4 {7} repeat", "7 7 7 7"}, {"0 {7} repeat", ""}, {"[1 2 3] {10 mul} forall", "10 20 30"}, {"(AB) {} forall", "65 66"}, {"<C3A9> {} forall", "195 169"}, {"<80FF41> {} forall", "128 255 65"}, {"0 {1 add dup 3 eq {exit} if} loop", "3"},
	{"1 1 3 {2 {dup exit} repeat} for", "1 1 2 2 3 3"},
	// a named procedure left by exit (or by an error) from the middle of its body, more often than there are execution-stack levels
	{"/n 0 def /p { /n n 1 add def exit 99 } def 0 1 120 { pop { p 98 } loop } for n", "121"}, {"/p { exit 9 } def 12 { 10 { 3 { p 8 } repeat } repeat } repeat count", "0"},
	{"/p { 1 exit 2 } def 0 1 150 { pop [ 5 6 ] { pop p 2 } forall pop } for count", "0"}, {"/p { { exit 1 } loop 5 } def /q { p pop exit 7 } def 200 { { q 6 } loop } repeat count", "0"},
	// bind: operator names are replaced whenever bind is applied, by what they stand for at that moment; other names stay
	{"/p {1 2 foo} def /p load bind pop /foo /add load def /p load bind pop /foo /sub load def p", "3"},
	{"/p {{1 2 foo} exec} def /p load bind pop /foo /add load def /p load bind pop /foo /sub load def p", "3"},
	{"/p {1 2 foo} def /p load bind pop /foo /add load def /foo /sub load def p", "-1"},
	{"/p {5 3 q} def /q {add} def /p load bind pop /q /sub load def /p load bind pop /q {mul} def p", "2"},
	{"/p {5 3 add} def userdict /add {sub} put /p load bind pop p userdict /add /mul load put /p load bind pop p", "2 15"},
	// forall over a dictionary hands the procedure the value each key has when it is visited (keys in sorted order)
	{"/d 3 dict def d begin /a 1 def /b 2 def /c 3 def d {exch pop /b 20 def} forall end", "1 20 3"},
	{"/d << /a 1 /b 2 /c 3 >> def d {exch pop d /c 30 put} forall", "1 2 30"}, {"/d << /a 1 /b 2 /c 3 >> def d {exch pop d /a 10 put} forall d /a get", "1 2 3 10"},
	// PLRM 8.2 `for`: real operands (its own example: 3 -.5 1 {} for)
	{"0 0.5 1 {} for", "0 0.5 1"}, {"3 -.5 1 {} for", "3 2.5 2 1.5 1"}, {"1 1 2.5 {} for", "1 2"},
}

func suiteControl(o *suiteOut, r *rng, tier string, n int) {
	p := newProgSuite(o, "C03")
	for _, l := range corpusLines("control") {
		replayRun(o, l)
		o.count("corpus cases")
	}
	for _, c := range controlFixed {
		p.run(100000, false, c)
		o.count("fixed control programs")
	}
	// programs with the final operand stack the PLRM prescribes (numbers only)
	for _, c := range plrmLoopCases {
		p.run(100000, false, c.prog) // also against the model
		line := runCaseLine(100000, false, c.prog)
		_, intp, class := runProgram(100000, false, []byte(c.prog))
		var got []string
		for _, v := range intp.Stack {
			switch v := v.(type) {
			case postscript.Integer:
				got = append(got, fmt.Sprint(int64(v)))
			case postscript.Real:
				got = append(got, fmt.Sprintf("%g", float64(v)))
			default:
				got = append(got, fmt.Sprintf("%T", v))
			}
		}
		g := class + " [" + strings.Join(got, " ") + "]"
		if g != "ok ["+c.want+"]" {
			o.fail("C03", "every looping operator runs its body the prescribed number of times with the prescribed operands (PLRM table)", line, "ok ["+c.want+"]", g)
		}
		o.count("PLRM loop table")
	}
	nr, depth := 4000, 4
	if tier == "thorough" {
		nr, depth = 80000, 6
	}
	if n > 0 {
		nr = n
	}
	for i := 0; i < nr; i++ {
		g := &ctlGen{r: r}
		d := r.rangeInt(1, depth)
		prog := g.body(d, false)
		for k := r.intn(3); k > 0; k-- {
			prog += " " + g.body(d, false)
		}
		p.run(200000, false, prog)
		o.count(fmt.Sprintf("random control programs, nesting %d", d))
	}
	o.notes = append(o.notes, "programs nest procedures, if/ifelse and the four loops with bodies that push, pop, define, rebind, exit and stop; a nested procedure literal stands first, in the middle or last; impl line = canonical final state or error name")
	os.Remove(p.cur)
}

// ---------------------------------------------------------------- budget

var runawayPrograms = []string{
	"{ " + strings.Repeat("1 ", 499) + "}", "{ " + strings.Repeat("1 ", 501) + "}", "{ " + strings.Repeat("1 ", 700) + "} pop 5", "{ " + strings.Repeat("1 ", 3000),
	"{ { " + strings.Repeat("x ", 600) + "} }", strings.Repeat("1 ", 499) + "{ 1 1 1 }", "{} loop", "0 1 100000 {} for", "true {} if {} exec 7", "100000 {} repeat", "[1 2 3] {} forall {} exec {} exec",
	"/f {f} def f", "/f {f} def {f} loop", "/f {f 1} def f", "/f { 1 f } def f", "{ 1 } loop", "{ userdict begin } loop", "{ 1 dict begin } loop",
	"/p [0] cvx def p 0 p put p", "/p {0 exec} def p 0 p put p", "{ {1} exec } loop", "/f { {f} exec } def f", "/f { true {f} if } def f",
	"/f { 1 {f} repeat } def f", "/f { 0 1 1 {pop f} for } def f", "/f { [1] {pop f} forall } def f", "0 0 1 { } for", "0 0 1 { pop } for", "1 -0 5 {} for",
	"errordict /typecheck { 1 add } put (a) 1 add", "errordict /typecheck { (a) 1 add } put (a) 1 add", "errordict /undefined { foo } put bar",
	"errordict /stackunderflow { pop } put pop", "errordict /typecheck { pop pop 7 } put (a) 1 add", "errordict /typecheck 5 put (a) 1 add",
	"{ dup } loop", "1 { dup dup } loop", "1 { 2 copy } loop", "{ count copy } loop", "[ { 1 } loop", "{ [ } loop", "{ mark } loop", "{ currentdict } loop",
	"{ 1 array } loop", "{ 65536 array } loop", "{ 65536 string } loop", "{ (x) } loop", "65537 array", "65537 string", "65537 dict", "-1 array", "-1 string", "-1 dict",
	"9223372036854775807 array", "9223372036854775807 string", "9223372036854775807 dict", "65536 array 65536 string 65536 dict",
	// loops with counts next to the largest integer and an empty body (an operator that accounts for the remaining
	// rounds in one step must not let the counter wrap), followed by more work
	"9223372036854775807 {} repeat 1 2 3 4 5 6 7 8", "9223372036854775800 {} repeat 1 2 3", "9223372036854775807 { } repeat", "4611686018427387904 {} repeat 1",
	"0 1 9223372036854775807 {} for 1 2 3", "-9223372036854775808 1 9223372036854775807 { pop } for", "9223372036854775807 { 1 pop } repeat",
	// recursion through an executable name that is handed to an operator as an object (taken out of a procedure,
	// or stored and loaded), not met inside a body: it takes an execution-stack level like every other call
	"/d 0 def /f { /d d 1 add def true { f } 0 get if /d d 1 sub def } def f", "/f { true { f } 0 get if } def f", "/f { true { f } 0 get { } ifelse } def f",
	"/f { false { } { f } 0 get ifelse 1 } def f", "/f { { f } 0 get loop } def f", "/f { 0 1 1 { f } 0 get for } def f", "/f { 1 { f } 0 get repeat 1 } def f",
	"/f { { f } 0 get exec 1 } def f", "/g { f } 0 get def /f { true /g load if 1 } def f", "/a { true { b } 0 get if } def /b { true { a } 0 get if } def a",
	// executable names whose value is again an executable name (a cycle of one, two, three names): every look-up is
	// an operation and is stopped by the budget
	"/a { a } 0 get def a", "/a { b } 0 get def /b { a } 0 get def a", "/a { b } 0 get def /b { c } 0 get def /c { a } 0 get def a 1",
	// arrays with more elements than the operand stack holds, unpacked by a loop with an empty body
	"600 array {} forall", "502 array {} forall 1", "65536 array {} forall", "501 string {} forall", "[ 1 1 498 {} for ] {} forall 1 2 3", "600 array { } forall count",
	"/f { f f } def f", "/a { b } def /b { a } def a", "{ { { { { { { { { { 1 } exec } exec } exec } exec } exec } exec } exec } exec } exec } exec",
}

func suiteBudget(o *suiteOut, r *rng, tier string, n int) {
	p := newProgSuite(o, "C11")
	for _, l := range corpusLines("budget") {
		replayRun(o, l)
		o.count("corpus cases")
	}
	// 1. every cut point of terminating programs
	nr := 250
	if tier == "thorough" {
		nr = 5000
	}
	if n > 0 {
		nr = n
	}
	progs := append([]string{}, controlFixed...)
	// a user handler for the error name of the budget error: running out of budget is not a PostScript error and
	// never reaches errordict, also when it happens inside an operator that runs a procedure
	progs = append(progs, "errordict /interrupt { 42 } put 10 { 1 pop } repeat 7", "errordict /interrupt { } put 1 1 20 { pop } for (x)",
		"errordict /interrupt { pop 99 } put [1 2 3 4 5 6] { pop } forall 8", "errordict /interrupt { 1 } put { 1 2 3 pop pop pop } exec { 4 pop } exec 5",
		"errordict /interrupt { /handled true def } put true { 1 2 add pop 3 4 add pop } if 6", "errordict /interrupt { } put 5 { 2 { 1 pop } repeat } repeat")
	// loops over large containers that end early: what such a loop costs is what it executes, not the size of its operand
	progs = append(progs, "systemdict { pop pop exit } forall 7", "systemdict { pop pop nosuchname } forall", "errordict { pop pop exit } forall 1 2 add",
		"100 array { pop exit } forall 3", "(0123456789012345678901234567890123456789) { pop exit } forall 4",
		"1 1 1000000 { pop exit } for 9", "1000000 { exit } repeat 8", "StandardEncoding { pop exit } forall 2", "systemdict { pop pop } forall 6")
	// named procedures left by exit from a non-tail position, more often than the execution stack has levels
	progs = append(progs, "/n 0 def /p { /n n 1 add def exit 99 } def 0 1 120 { pop { p 98 } loop } for n", "/p { exit 9 } def 12 { 10 { 3 { p 8 } repeat } repeat } repeat count")
	for i := 0; i < nr; i++ {
		if r.chance(1, 2) {
			g := &ctlGen{r: r}
			progs = append(progs, g.body(r.rangeInt(1, 3), false))
		} else {
			g := &progGen{r: r}
			progs = append(progs, g.dataProgram(r.rangeInt(2, 25), false))
		}
	}
	for _, prog := range progs {
		if strings.Contains(prog, "stop }") || prog == "{ stop } loop" {
			// fine: stop ends the run
		}
		line0 := runCaseLine(0, false, prog)
		// a generated program may loop for ever (an `exit` that only leaves an inner loop): probe with a large
		// safety budget first and leave such programs to the runaway cases
		if _, _, probe := runProgram(2000000, false, []byte(prog)); probe == "limit" {
			o.count("programs skipped (do not end within 2,000,000 operations)")
			continue
		}
		res0, intp0, class0 := runProgram(0, false, []byte(prog))
		if strings.HasPrefix(class0, "panic") {
			o.fail("C01", "no panic", line0, "result or error", res0)
			continue
		}
		p.run(0, false, prog)
		ops := intp0.NumOps
		var budgets []int
		if ops <= 40 {
			for N := 1; N <= ops+2; N++ {
				budgets = append(budgets, N)
			}
		} else {
			budgets = []int{1, 2, ops / 2, ops - 2, ops - 1, ops, ops + 1, ops + 2}
			for k := 0; k < 12; k++ {
				budgets = append(budgets, r.rangeInt(1, ops))
			}
		}
		for _, N := range budgets {
			if N < 1 {
				continue
			}
			line := runCaseLine(N, false, prog)
			class, intp := p.run(N, false, prog)
			if intp == nil {
				continue
			}
			o.count("budget cut points")
			if N >= ops {
				res, _, _ := runProgram(N, false, []byte(prog))
				if res != res0 {
					o.fail("C11", "a program needing at most N operations ends in the state it reaches without budget", line, res0, res)
				}
			} else {
				if class != "limit" {
					o.fail("C11", "budget exceeded error when more than N operations are needed", line, "limit", class)
				}
				if intp.NumOps > N+1 {
					o.fail("C11", "never counting past N+1", line, fmt.Sprint("NumOps <= ", N+1), fmt.Sprint(intp.NumOps))
				}
			}
		}
	}
	// 2. runaway shapes under several budgets
	for _, prog := range runawayPrograms {
		for _, N := range []int{1, 7, 100, 1000, 20000, 100000} {
			line := runCaseLine(N, false, prog)
			class, intp := p.run(N, false, prog)
			if intp == nil {
				continue
			}
			o.count("runaway programs")
			if intp.NumOps > N+1 || intp.NumOps < 0 {
				o.fail("C11", "never counting past N+1", line, fmt.Sprint("0 <= NumOps <= ", N+1), fmt.Sprint(intp.NumOps))
			}
			if len(intp.Stack) > 2*500+2 {
				o.fail("C11", "operand stack growth is cut off", line, "<= 1002", fmt.Sprint(len(intp.Stack)))
			}
			if len(intp.DictStack) > 21 {
				o.fail("C11", "dictionary stack growth is cut off", line, "<= 21", fmt.Sprint(len(intp.DictStack)))
			}
			_ = class
		}
	}
	// 3. the %! start check: first two bytes
	nPref := 1500
	if tier == "thorough" {
		nPref = 65536
		o.exhaustive = true
	}
	for i := 0; i < nPref; i++ {
		v := i
		if tier != "thorough" {
			v = r.intn(65536)
			if i < 256 {
				v = i<<8 | '!' // all first bytes with '!'
			} else if i < 512 {
				v = '%'<<8 | (i - 256) // '%' with all second bytes
			}
		}
		prog := string([]byte{byte(v >> 8), byte(v)}) + "\n1 2"
		line := runCaseLine(1000, true, prog)
		class, intp := p.run(1000, true, prog)
		if intp == nil {
			continue
		}
		o.count("start-check prefixes")
		want := "nops"
		if v == '%'<<8|'!' {
			want = "ok"
		}
		if class != want {
			o.fail("C11", "input not starting with %! is rejected before anything is executed", line, want, class)
		}
		if want == "nops" && (intp.NumOps != 0 || len(intp.Stack) != 0) {
			o.fail("C11", "nothing is executed when the start check fails", line, "NumOps 0, empty stack", fmt.Sprint(intp.NumOps, len(intp.Stack)))
		}
	}
	for _, prog := range []string{"", "%", "%!", "%!\n", "%%!", " %!"} {
		p.run(1000, true, prog)
	}
	// a well-formed file behind something a lenient reader might skip (byte order marks, white space, Ctrl-D, a printer
	// job header, a further comment sign): it does not begin with %!, so it is rejected
	var junk []string
	for b := 0; b < 256; b++ {
		junk = append(junk, string([]byte{byte(b)}))
	}
	junk = append(junk, "\xEF\xBB\xBF", "\xFE\xFF", "\xFF\xFE", "\xFF\xFE\x00\x00", "\x00\x00\xFE\xFF", "\x1b%-12345X", "\x1b%-12345X@PJL\n", "\r\n", "\n\n", "  ", "\t ", "\x00\x00",
		"%\n", "% \n", "%%\n", "()", "\x04\x04", "\xEF\xBB", "\xEF\xBB\xBF\xEF\xBB\xBF", "\xEF\xBB\xBF ", "\xC2\xA0", "\x80\x01", "%!"[:1]+" ")
	for i := 0; i < 300; i++ {
		b := make([]byte, r.rangeInt(2, 5))
		for j := range b {
			b[j] = byte(r.intn(256))
		}
		if b[0] == '%' && b[1] == '!' {
			b[0] = 0xEF
		}
		junk = append(junk, string(b))
	}
	for _, j := range junk {
		prog := j + "%!PS-Adobe-3.0\n1 2 add"
		line := runCaseLine(1000, true, prog)
		class, intp := p.run(1000, true, prog)
		if intp == nil {
			continue
		}
		o.count("start check: a header behind leading junk")
		if class != "nops" {
			o.fail("C11", "input not starting with %! is rejected before anything is executed", line, "nops", class)
		}
		if intp.NumOps != 0 || len(intp.Stack) != 0 || !intp.CheckStart {
			o.fail("C11", "nothing is executed when the start check fails (and the check stays armed)", line, "NumOps 0, empty stack, CheckStart set", fmt.Sprint(intp.NumOps, len(intp.Stack), intp.CheckStart))
		}
	}
	// histories of calls on one interpreter: once passed, the check is not repeated; a failed check stays armed;
	// an eexec section inside a checked file is not checked
	for hi, h := range [][]string{
		{"%!PS\n1 2", "3 4 mul", "xyz"}, {"xyz", "%!PS\n1", "2"}, {"%!", "", "5"}, {"", "%!PS\n7", "8 9"}, {"%", "%!\n1", "(a) 1 add", "2"},
		{"%!PS\n1 stop 2", "42"}, {"%!PS\n1 exit 2", "42", "43"}, {"%!PS\n{7 stop 8} exec 9", "42"}, {"%!PS\n(a) 1 add", "42"}, {"%!PS\ncurrentfile closefile 5", "42"}, {"%!PS\nfoo", "bar", "42"},
		{"%!PS\n{ } loop", "42"}, {"zz", "%!PS\nstop", "1 2 add"}, {"%!PS\n/p { stop } def p", "3"},
		{"%!PS\ncurrentfile eexec 00000000", "1"}, {"7 8", "%!\n9"}, {"xyz", "1 2 add", "%!PS\n3", "4"}, {"", "", "5", "%!\n6"}, {"x", "y", "z"}, {"%", "%", "%!\n1"},
	} {
		intp := postscript.NewInterpreter()
		intp.CheckStart = true
		intp.MaxOps = 1000
		passed := false
		var trace []string
		for ci, part := range h {
			before := intp.NumOps
			err := safeErr(func() error { return intp.ExecuteString(part) })
			cl := errClass(err)
			trace = append(trace, cl)
			line := fmt.Sprintf("hist startcheck %d %d", hi, ci)
			if !passed && !strings.HasPrefix(part, "%!") {
				if cl != "nops" || intp.NumOps != before {
					o.fail("C11", "input not starting with %! is rejected before anything is executed (call "+fmt.Sprint(ci)+" of a history)", line+" "+hx([]byte(part)), "nops, nothing executed", cl)
				}
			} else {
				if cl == "nops" {
					o.fail("C11", "once passed, the start check is not repeated on later calls", line+" "+hx([]byte(part)), "executed", cl)
				}
				passed = true
			}
			o.emit(line, "skip", true)
		}
		runsLine(o, 1000, true, h) // the same history through the Lean model (up to the first failing call)
		for cut := 1; cut < len(h); cut++ {
			runsLine(o, 1000, true, h[cut:])
		}
		o.count("start-check histories")
	}
	// a refused or failing eexec restores the dictionary stack (it pushes systemdict before it looks at the data)
	for _, prog := range []string{"currentfile eexec", "currentfile eexec ab", "currentfile eexec \x01\x02", "1 dict begin currentfile eexec", "currentfile eexec zz 1 2",
		"{ currentfile eexec } stopped", "errordict /ioerror { } put currentfile eexec 1", "18 { 1 dict begin } repeat currentfile eexec"} {
		p.run(100000, false, prog)
		_, intp, _ := runProgram(100000, false, []byte(prog))
		want := 2 + strings.Count(prog, "1 dict begin")
		if strings.HasPrefix(prog, "18 {") {
			want = 20
		}
		if intp != nil && len(intp.DictStack) != want {
			o.fail("C11", "an eexec that is refused or fails leaves the dictionary stack as it was", runCaseLine(100000, false, prog), fmt.Sprint(want), fmt.Sprint(len(intp.DictStack)))
		}
		o.count("failing eexec")
	}
	for _, h := range [][]string{{"currentfile eexec", "currentfile eexec", "currentfile eexec", "10 dict begin /a 1 def a end"}, {"currentfile eexec zz", "1", "currentfile eexec"}} {
		runsAllLine(o, 100000, false, h)
		o.count("histories with failing eexec")
	}
	// histories under a budget: every call is made whatever the earlier ones returned; the exported counter never
	// passes N+1, the stacks are not touched once the budget is used up, and the error stays the budget error
	for hi, h := range [][]string{
		{"1 2 3 4 5", "6", "7 8"}, {"1 2", "3 4", "", "5"}, {"1 2 3", "4", "5"}, {"{ 1 } loop", "2", "{ 3 } loop"}, {"1 (a) add", "2 3", "4 5 6"},
		{"/f { f } def f", "1", "f"}, {"1 2 3 4 5 6 7 8 9 10", "", "", "1"},
	} {
		for _, budget := range []int{1, 2, 3, 4, 5, 7, 50} {
			counts := runsAllLine(o, budget, false, h)
			line := fmt.Sprintf("hist budget %d %d", hi, budget)
			for ci, c := range counts {
				if c > budget+1 {
					o.fail("C11", "the operation counter never passes N+1, however many calls follow (call "+fmt.Sprint(ci)+" of a history)", fmt.Sprintf("%s %q", line, h), fmt.Sprint("<= ", budget+1), fmt.Sprint(c))
				}
				if ci > 0 && c < counts[ci-1] {
					o.fail("C11", "the operation counter does not go down", fmt.Sprintf("%s %q", line, h), fmt.Sprint(">= ", counts[ci-1]), fmt.Sprint(c))
				}
			}
			o.count("budget histories")
		}
	}
	o.notes = append(o.notes, "every budget N in 1..ops(P)+2 for short programs (sampled cut points for long ones), runaway recursion shapes under six budgets, start-check prefixes; direct oracles: state under budget N >= ops equals the unbudgeted state, limit error and NumOps <= N+1 otherwise, stack and dictionary stack caps")
	os.Remove(p.cur)
}

// ---------------------------------------------------------------- hostile

var hostileFixed = []string{
	"/a { a } 0 get def a", "/a { b } 0 get def /b { a } 0 get def a", "/x { y } 0 get def /y { z } 0 get def /z { x } 0 get def x",
	// names with characters the serialiser cannot write (taken from systemdict: `<<`, `>>`, `[`, `]`; strings used as
	// keys) as operands of the operators that mention the name in their error message
	"systemdict { pop exit } forall findfont", "systemdict { pop exit } forall /Font findresource", "systemdict { pop exit } forall /CMap findresource",
	"systemdict { pop exit } forall /X exch findresource", "systemdict { pop exit } forall 1 exch defineresource", "/X 1 systemdict { pop exit } forall defineresource",
	"(Adobe Japan1) /CMap findresource", "(a b) findfont", "(a(b) /Font findresource", "(x) (y z) findresource", "/[ load pop systemdict /] known", "systemdict { pop dup findfont } forall",
	"[ systemdict { pop } forall ] { /Font findresource } forall", "[ systemdict { pop } forall ] 1 get findfont", "[ systemdict { pop } forall ] 2 get /ProcSet findresource",
	"1 2 9223372036854775807 copy", "(abc) 9223372036854775807 (x) putinterval", "errordict /typecheck get exec", "[1 2 3] 9223372036854775807 [1] putinterval",
	"[0] dup dup 0 exch put dup bind", "{0} dup dup 0 exch put bind", "{0} dup dup 0 exch put exec", "[0] dup dup 0 exch put { } forall", "[0] dup dup 0 exch put dup eq",
	"[0] dup dup 0 exch put dup 0 get 0 get 0 get length", "<< /a 1 >> dup dup /self exch put { pop pop } forall", "1 -9223372036854775808 roll", "1 2 3 3 9223372036854775807 roll",
	"1 2 3 3 -9223372036854775808 roll", "9223372036854775807 index", "-9223372036854775808 index", "(abc) -9223372036854775808 get", "(abc) 0 -9223372036854775808 put",
	"[1] 9223372036854775807 9223372036854775807 getinterval", "(abc) 1 9223372036854775807 getinterval", "(abc) -1 -1 getinterval", "9223372036854775807 9223372036854775807 9223372036854775807 {} for",
	"-9223372036854775808 -9223372036854775808 -9223372036854775808 {} for", "0 9223372036854775807 9223372036854775807 {pop} for", "9223372036854775806 1 9223372036854775807 {pop} for",
	"9223372036854775807 { } repeat", "-1 { } repeat", "currentfile closefile", "currentfile eexec", "currentfile 5 string readstring", "currentfile 0 string readstring",
	"currentfile 100 string readstring abc", "1 2 eexec", "currentfile eexec 0000", "currentfile eexec 00000000 1 2", "currentfile eexec zzzz", "currentfile eexec zz",
	"1183615869 internaldict dup /x 1 put", "0 internaldict", "}", "{", "{ { }", ">>", "<<", "]", ")", ">", "<", "<~", "<~~>", "<~z~>", "<~zz~>", "<~!~>", "<~!!~>", "<~uuuuu~>", "<~s8W-!~>",
	"(", "(abc", "(\\", "(\\0", "<0", "<0g>", "/", "//", "/ /", "%", "%%", "%%:", "%%x", "%%x:", "%%+", "16#", "16#g", "37#1", "1#1", "2#2", "36#zz", "0#0", "99#1", "100#1", "16#ffffffffffffffff",
	"16#7fffffffffffffff", "-16#1", "1e", "1e+", "+.", "-.", ".", "+", "-", "1.e5", ".5e-3", "1e999", "-1e999", "1e-999", "00000000000000000000000000000000000000000000000000000001",
	"99999999999999999999", "-99999999999999999999", "9223372036854775808", "-9223372036854775809", "0x1p-2", "1_0", "Inf", "NaN", "infinity", "+Inf", "nan",
	"StandardEncoding 256 get", "StandardEncoding -1 /x put", "systemdict /systemdict get /systemdict get length", "userdict /userdict known", "systemdict { pop pop } forall count",
	"errordict { pop pop } forall", "errordict /handleerror get exec", "errordict /interrupt get exec", "/CIDInit /ProcSet findresource /endcmap get exec",
	"/CIDInit /ProcSet findresource begin endcmap", "/CIDInit /ProcSet findresource begin begincmap endcmap", "/CIDInit /ProcSet findresource begin begincmap 101 begincidchar",
	"/CIDInit /ProcSet findresource begin begincmap 100 begincidchar endcidchar", "/CIDInit /ProcSet findresource begin begincmap 1 begincidchar <00> 1 endcidchar endcidchar endcmap",
	"/CIDInit /ProcSet findresource begin begincmap -1 begincodespacerange", "/CIDInit /ProcSet findresource begin begincmap 1 begincodespacerange <00> <0000> endcodespacerange",
	"/CIDInit /ProcSet findresource begin begincmap 1 beginbfrange <00> <ff> 5 endbfrange", "/CIDInit /ProcSet findresource begin begincmap 1 beginbfrange <ff> <00> <00> endbfrange",
	"/CIDInit /ProcSet findresource begin begincmap 2 begincidrange <00> <01> 1 endcidrange", "/CIDInit /ProcSet findresource begin usecmap", "/CIDInit /ProcSet findresource begin begincmap usecmap",
	"/X /CMap findresource", "/X /Nope findresource", "1 /CMap findresource", "/X 1 /CMap defineresource", "/X << >> /CMap defineresource", "/X << /CodeMap 1 >> /CMap defineresource",
	"/X 1 /ProcSet defineresource /X /ProcSet findresource", "/CIDInit 5 /ProcSet defineresource /CIDInit /ProcSet findresource", "/F 1 definefont", "1 << >> definefont", "/F findfont",
	"mark 1 2 >>", "<< 1 2 >>", "<< /a >>", "<< /a 1 /a 2 >> length", "[ 1 2", "1 ] ", "mark mark ] ]", "5 dict begin end end end", "systemdict /end get exec", "currentdict end currentdict",
	"true 1 and", "1 true or", "(a) not", "1.5 not", "1 (a) eq", "mark mark eq", "[1] [1] eq", "true false ne", "1 1.0 eq 1.0 1 eq", "-0.0 0.0 eq", "1e308 10 mul dup dup sub",
	"1e308 10 mul 0 mul dup eq", "1e308 1e308 add -1e308 -1e308 add add abs", "type", "1 type 1.5 type true type /a type (s) type [] type {} type mark type currentfile type << >> type /add load type",
	"{add} 0 get type {add} 0 get length", "/abc length (abc) length [1 2] length {1 2 3} length << /a 1 >> length", "1 length", "mark length", "systemdict maxlength", "1 maxlength",
	"/a where", "/add where { /add known } if", "/nope where", "1 where", "/add load /add load eq", "/nope load", "1 load", "1 known", "<< >> 1 known", "<< >> /a get", "[1] /a get", "[1] 1.0 get", "1 1 get",
	"{1 2} 0 get", "{1 2} 5 get", "{1 2} 0 3 put", "{1 2} dup 0 3 put exec", "(abc) 0 (d) put", "(abc) 3 1 put", "[1] 1 1 put", "<< >> 1 1 put", "1 1 1 put", "5 array 0 get type", "3 string 0 get",
	"[1 2 3] 0 4 getinterval", "[1 2 3] 1.5 1 getinterval", "[1 2 3] 1 1.5 getinterval", "1 1 1 getinterval", "<< >> 0 0 getinterval", "{1 2} 0 1 getinterval", "[1 2] 0 (ab) putinterval", "(ab) 0 [1] putinterval",
	"(ab) 1 (cd) putinterval", "(ab) -1 (c) putinterval", "1 0 (a) putinterval", "(ab) 1.5 (c) putinterval", "[1 2 3] [0] copy", "(abc) (a) copy", "[1] (a) copy", "<< >> [1] copy", "1.5 copy", "-1 copy", "1 2 1.0 copy",
	"mark 1 2 3 4 3 copy", "cvx", "1 cvx", "[1 2 add] cvx exec", "[{1}] cvx exec", "matrix dup 0 5 put matrix", "readonly", "1 executeonly", "noaccess", "bind", "1 bind", "[ ] bind",
}

func deepNest(n int, tail string) string {
	return strings.Repeat("{", n) + strings.Repeat("}", n) + tail
}

func suiteHostile(o *suiteOut, r *rng, tier string, n int) {
	p := newProgSuite(o, "C01")
	for _, l := range corpusLines("hostile") {
		replayRun(o, l)
		o.count("corpus cases")
	}
	for _, c := range hostileFixed {
		p.run(20000, false, c)
		o.count("fixed hostile programs")
	}
	// the resource operators with every category name the reference knows (and some it does not), instances of every
	// type, and look-ups in which the freshly defined name is the key or the category
	for _, cat := range []string{"Category", "Generic", "Font", "CMap", "ProcSet", "Encoding", "FontSet", "Form", "Pattern", "ColorSpace", "IdiomSet", "CIDFont", "Nope", "Foo"} {
		for _, inst := range []string{"5", "(abc)", "[1 2]", "<< >>", "<< /a 1 >>", "/n", "{ x }", "1.5", "true", "mark", "currentfile", "systemdict", "/add load"} {
			for _, tail := range []string{"/x /Foo findresource", "/Foo /" + cat + " findresource", "/Foo /Foo findresource", "/Foo 1 /Foo defineresource", "/Foo findfont", "/" + cat + " /Category findresource"} {
				p.run(20000, false, fmt.Sprintf("/Foo %s /%s defineresource pop %s", inst, cat, tail))
				o.count("resource operators x category x instance type")
			}
		}
	}
	depths := []int{1, 2, 99, 100, 101, 102, 103, 500, 3000}
	if tier == "thorough" {
		depths = append(depths, 100000, 1000000)
	}
	for _, d := range depths {
		for _, tail := range []string{" bind", " exec", " dup bind exec", " pop"} {
			if d > 3000 {
				// too deep to render: only the outcome class is observed (no panic, no abort, no hang)
				line := fmt.Sprintf("deep %d %s", d, hx([]byte(tail)))
				os.WriteFile(p.cur, []byte(line), 0o644)
				class := func() (cl string) {
					defer func() {
						if r := recover(); r != nil {
							cl = "panic:" + fmt.Sprint(r)
						}
					}()
					intp := postscript.NewInterpreter()
					intp.MaxOps = 20000
					return errClass(intp.ExecuteString(deepNest(d, tail)))
				}()
				if strings.HasPrefix(class, "panic") {
					o.fail("C01", "no panic", line, "result or error value", class)
				}
				o.emit(line, "skip", true)
				o.count("deeply nested procedures (outcome only)")
				continue
			}
			p.run(20000, false, deepNest(d, tail))
			o.count("deeply nested procedures")
		}
		if d > 3000 {
			continue
		}
		p.run(20000, false, strings.Repeat("[", d)+strings.Repeat("]", d))
		p.run(20000, false, strings.Repeat("<<", d))
		p.run(20000, false, strings.Repeat("(", d)+strings.Repeat(")", d))
	}
	nr := 6000
	if tier == "thorough" {
		nr = 200000
	}
	if n > 0 {
		nr = n
	}
	extremes := []string{"9223372036854775807", "-9223372036854775808", "9223372036854775806", "4611686018427387904", "-4611686018427387904", "2147483648", "65536", "65537", "-1", "0", "1", "500", "501", "1e300", "-1e300", "0.5"}
	ops := append(append([]string{}, dataOps...), otherOps...)
	ops = append(ops, "closefile", "readstring", "eexec", "}", "{", ">>", "begincmap", "endcmap", "begincidchar", "endcidchar", "beginbfrange", "endbfrange", "begincodespacerange", "endcodespacerange", "usecmap", "begincidrange", "endcidrange", "beginnotdefrange", "endnotdefrange", "beginbfchar", "endbfchar", "beginnotdefchar", "endnotdefchar")
	for i := 0; i < nr; i++ {
		var toks []string
		if r.chance(1, 3) {
			toks = append(toks, "/CIDInit /ProcSet findresource begin")
			if r.chance(2, 3) {
				toks = append(toks, "begincmap")
			}
		}
		switch r.intn(5) {
		case 0: // operator soup with extreme operands
			for k := r.rangeInt(2, 14); k > 0; k-- {
				switch r.intn(4) {
				case 0:
					toks = append(toks, pick(r, extremes))
				case 1:
					toks = append(toks, pick(r, operandPool))
				default:
					toks = append(toks, pick(r, ops))
				}
			}
		case 1: // self-referential containers then operators
			toks = append(toks, pick(r, []string{"[0 1] dup dup 0 exch put", "{0 1} dup dup 1 exch put", "<< /a 1 >> dup dup /s exch put", "[0] dup 1 array dup 0 4 index put 0 exch put"}))
			for k := r.rangeInt(1, 6); k > 0; k-- {
				toks = append(toks, pick(r, ops))
			}
		case 2: // random bytes
			b := make([]byte, r.rangeInt(1, 40))
			for j := range b {
				if r.chance(1, 3) {
					b[j] = byte(r.intn(256))
				} else {
					const cs = "(){}[]<>/% \n\r\t0123456789abcdefz~#\\.+-eE"
					b[j] = cs[r.intn(len(cs))]
				}
			}
			toks = append(toks, string(b))
		case 3: // type-aware program with a malformed stream
			g := &progGen{r: r}
			toks = append(toks, g.dataProgram(r.rangeInt(3, 30), true))
		default: // control program with byte mutations
			g := &ctlGen{r: r}
			b := []byte(g.body(r.rangeInt(1, 3), false))
			for k := r.intn(4); k > 0 && len(b) > 0; k-- {
				j := r.intn(len(b))
				switch r.intn(3) {
				case 0:
					b[j] = byte(r.intn(256))
				case 1:
					b = append(b[:j], b[j+1:]...)
				default:
					b = append(b[:j], append([]byte{"{}()[]<>"[r.intn(8)]}, b[j:]...)...)
				}
			}
			toks = append(toks, string(b))
		}
		p.run(pick(r, []int{50, 2000, 20000}), false, strings.Join(toks, " "))
		o.count("random hostile programs")
	}
	o.notes = append(o.notes, "fixed adversarial programs (extreme integers as counts and indices, self-referential arrays/procedures, every lexical corner), deep nesting, operator soup, random bytes, mutated programs, all with an operation budget; direct oracle: outcome class is never panic/abort/timeout; the canonical outcome is also diffed against the Lean model")
	os.Remove(p.cur)
}

func init() {
	suites["control"] = suiteControl
	suites["budget"] = suiteBudget
	suites["hostile"] = suiteHostile
}
